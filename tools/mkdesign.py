#!/usr/bin/env python3
"""Regenerates the machine-written parts of DESIGN.md §10 (per-property table, defect dispositions, seeded-change matrix)
   between the markers <!-- BEGIN AUTO --> and <!-- END AUTO -->."""
import json, glob, os, re
ROOT = os.path.dirname(os.path.dirname(os.path.abspath(__file__)))
man = json.load(open(os.path.join(ROOT, "MANIFEST.json")))
kf = json.load(open(os.path.join(ROOT, "known_findings.json")))["findings"]
out = []
out.append("### 10.2 Per property (generated from MANIFEST.json, evidence/, known_findings.json; details in notes/<ID>.md)\n")
out.append("| id | level | obligations (theorems) | tie A (regenerated) | tie B cases (quick) | open findings | repaired | notes |")
out.append("|---|---|---|---|---|---|---|---|")
for c in man["checks"]:
    pid = c["property_id"]
    cfg = json.load(open(os.path.join(ROOT, "checks", pid + ".json")))
    ev = {}
    p = os.path.join(ROOT, "evidence", pid + ".json")
    if os.path.exists(p): ev = json.load(open(p))
    cov = ev.get("coverage", {})
    gen = ", ".join(g["tool"] for g in cfg.get("gen", [])) or "—"
    nopen = sum(1 for e in kf if e["property"] == pid and e["status"] == "open")
    nfix = sum(1 for e in kf if e["property"] == pid and e["status"] == "fixed")
    out.append("| %s | %s | %s/%s | %s | %s (%s distinct) | %d | %d | notes/%s.md |" % (
        pid, c["level_claimed"]["category"], cov.get("discharged", "?"), cov.get("obligations", "?"), gen,
        cov.get("evaluations", "?"), cov.get("distinct_nontrivial", "?"), nopen, nfix, pid))
out.append("")
for x in man.get("not_applicable", []):
    out.append("* not claimed: **%s** — %s" % (x["property_id"], x["reason"]))
out.append("\n### 10.3 Defects of whatap/golib established by the checks\n")
out.append("Repaired (`fix:` commits in /repo; the entry suppresses nothing, the check reports the key again if it returns):\n")
for e in kf:
    if e["status"] == "fixed": out.append("* %s `%s` — %s" % (e["property"], e["key"], e["what"].replace("fixed: ", "")))
out.append("\nRecorded as known findings (printed as `KNOWN-FINDING` on every run, exit 0; model contains the quirk, `_partial` theorem + witness):\n")
for e in kf:
    if e["status"] == "open": out.append("* %s `%s` — %s" % (e["property"], e["key"], e["what"][:400]))
out.append("\n### 10.4 Seeded changes and which check catches them (from seeded/*/meta.json)\n")
out.append("| seeded | property | what it breaks | needs | result of ./check |")
out.append("|---|---|---|---|---|")
for d in sorted(glob.glob(os.path.join(ROOT, "seeded", "*"))):
    mp = os.path.join(d, "meta.json")
    if not os.path.exists(mp): continue
    m = json.load(open(mp))
    def cl(s): return re.sub(r"\s+", " ", str(s)).replace("|", "/")[:160]
    out.append("| %s | %s | %s | %s | %s |" % (os.path.basename(d), m.get("property", ""), cl(m.get("title") or m.get("what_it_breaks", "")),
               cl(m.get("needs_to_manifest", "")), cl(m.get("detected_by", {}).get("result", "")) + (" — " + cl(m["strengthened"]) if m.get("strengthened") else "")))
out.append("\n### 10.5 Trusted base and assumptions per property (from checks/<ID>.json; every evidence file repeats its share)\n")
out.append("Common to all: the Lean 4.33.0 kernel (`lake build`; `lake env leanchecker` in the thorough tier); axioms `propext`, `Classical.choice`, `Quot.sound` only (audited with `#print axioms` on every obligation on every run; no `sorry`, `native_decide`, `bv_decide`, `implemented_by`, `unsafe`, own axioms); the `check` script; the per-property go/ast translator (tie A) and Go harness + compiled Lean driver (tie B), which cross-check each other.\n")
for c in man["checks"]:
    pid = c["property_id"]
    cfg = json.load(open(os.path.join(ROOT, "checks", pid + ".json")))
    out.append("* **%s** — level: %s. %s" % (pid, c["level_claimed"]["category"], re.sub(r"\s+", " ", cfg.get("level_note", ""))[:900]))
    for a in cfg.get("assumptions", [])[:8]:
        out.append("  * assumes: " + re.sub(r"\s+", " ", a)[:400])
    for a in cfg.get("trusted_base", [])[:6]:
        out.append("  * " + re.sub(r"\s+", " ", a)[:400])
txt = "\n".join(out) + "\n"
p = os.path.join(ROOT, "DESIGN.md")
s = open(p).read()
if "<!-- BEGIN AUTO -->" not in s:
    i = s.index("### 10.2 Per property")
    s = s[:i] + "<!-- BEGIN AUTO -->\n<!-- END AUTO -->\n"
s = re.sub(r"<!-- BEGIN AUTO -->.*<!-- END AUTO -->", lambda m: "<!-- BEGIN AUTO -->\n" + txt + "<!-- END AUTO -->", s, flags=re.S)
open(p, "w").write(s)
print("DESIGN.md §10 regenerated")
