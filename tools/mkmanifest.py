#!/usr/bin/env python3
"""Regenerates /verif/MANIFEST.json from checks/C*.json (one entry per claimed property) and checks/not_applicable.json."""
import json, glob, os
ROOT = os.path.dirname(os.path.dirname(os.path.abspath(__file__)))
na_path = os.path.join(ROOT, "checks", "not_applicable.json")
na = json.load(open(na_path)) if os.path.exists(na_path) else []
na_ids = {x["property_id"] for x in na}
checks = []
for path in sorted(glob.glob(os.path.join(ROOT, "checks", "C*.json"))):
    pid = os.path.basename(path)[:-5]
    c = json.load(open(path))
    if c.get("disabled") or pid in na_ids: continue
    checks.append({
        "property_id": pid,
        "quick_cmd": "./check %s --tier quick" % pid,
        "thorough_cmd": "./check %s --tier thorough" % pid,
        "evidence_file": "/verif/evidence/%s.json" % pid,
        "replay_cmd_template": "./check %s --replay {path}" % pid,
        "engine": "lean4-proof+correspondence",
        "level_claimed": {"category": c.get("level", "proof"), "text": c.get("level_text", ""), "design_ref": c.get("design_ref", "DESIGN.md §6 " + pid)},
        "level_note": c.get("level_note", "; ".join(c.get("trusted_base", []) + c.get("assumptions", []))),
        "technique": c.get("technique", "Lean 4 theorems about a hand-written executable model + differential correspondence of the model with the Go implementation"),
    })
claimed = {c["property_id"] for c in checks}
hooks_path = os.path.join(ROOT, "checks", "hooks.json")
hooks = json.load(open(hooks_path)) if os.path.exists(hooks_path) else {"source_commits": []}
m = {
    "version": 1,
    "setup_cmd": "./setup.sh",
    "hooks": {
        "guard": "verif",
        "enable": "go build -tags verif (the harness is built with -tags verif against /repo through a replace directive)",
        "baseline_off_cmd": "cd /repo && go test -mod=mod -json -vet=off -count=1 -timeout 25m ./...",
        "source_commits": hooks.get("source_commits", []),
        "add_only": True,
    },
    "engines": [{"name": "lean4-proof+correspondence", "path": "/verif/check",
                 "serves_properties": sorted(claimed),
                 "kind_free_text": "Lean 4 (core only) models + theorems in /verif/lean, checked by lake build and an axiom audit; tie to /repo by (A) facts regenerated from the Go source by go/ast translators under /verif/xlate and (B) Go harnesses under /verif/harness that run the real code and the compiled Lean model (lean_exe drivers) on the same inputs and diff them"}],
    "checks": checks,
    "not_applicable": na,
    "notes": "Every check runs ./check <ID>: regenerate Gen facts from /repo, lake build the property's theorems, audit axioms, build the harness against the working tree with -tags verif, run correspondence + property-directed search, match failures against known_findings.json, write evidence/<ID>.json.",
}
json.dump(m, open(os.path.join(ROOT, "MANIFEST.json"), "w"), indent=1)
print("MANIFEST.json:", len(checks), "checks,", len(na), "not applicable")
