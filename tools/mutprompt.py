#!/usr/bin/env python3
"""prints the prompt for a fresh seeding sub-agent for property <ID> (property text only; nothing from /verif)"""
import json, sys
import glob, os
pid = sys.argv[1]; n = sys.argv[2] if len(sys.argv) > 2 else "4"
rnd = sys.argv[3] if len(sys.argv) > 3 else ""
tried = []
for d in sorted(glob.glob("/verif/seeded/%s-*" % pid)):
    try: tried.append(json.load(open(os.path.join(d, "meta.json"))).get("title", ""))
    except Exception: pass
avoid = ""
if tried:
    avoid = "\n\nEarlier testers already tried the following ideas — do NOT repeat them or close variants; look for DIFFERENT mechanisms, files, code paths and kinds of trigger:\n" + "\n".join("- " + t for t in tried if t)
p = [json.loads(l) for l in open("/verif/properties.jsonl") if json.loads(l)["id"] == pid][0]
print(f"""You are helping test a verification tool by seeding realistic bugs. You work ONLY inside the git worktree `/tmp/mut-{pid}{rnd}` (a checkout of the Go library whatap/golib). Do not read or touch `/verif` or `/repo`. No network: run `export GOFLAGS=-mod=mod GOPROXY=off GOSUMDB=off GOTOOLCHAIN=local` in every shell. Always wrap commands in `timeout`.

Property under test ({pid}: {p['title']}), anchored in: {', '.join(p['anchors']['files'])}

"{p['statement']}"

Quantifier: {p['quantifier']['text']}

Task: produce {n} different, independent changes to the library source (each its own patch against the pristine worktree HEAD) that each break this property while the library still compiles (`go build ./...`) and the existing test suite still passes (`timeout 900 go test -vet=off -count=1 ./... 2>&1 | grep -v 'no test files' | tail -40`; the two network tests TestMultiConnect and TestSingleConnect in net/oneway fail offline anyway — ignore those two). Ask yourself what would realistically go wrong in maintenance: prefer changes that need something specific to manifest — a particular interleaving, a crash or fault at a particular point, a multi-step sequence of operations, an unusual input (boundary value, rare branch, particular version/configuration), or two cooperating sites that each look fine alone — not ones that ordinary use would expose at once. Make them look like plausible refactoring / optimisation / cleanup mistakes. Keep each patch small. Spread the changes over different files / mechanisms of the property. Do not change test files and do not add build tags.{avoid}

For each change i = 1..{n} write into `/tmp/mut-{pid}{rnd}-out/<i>/`:
- `patch.diff` (output of `git diff` in the worktree against HEAD for that change alone),
- `demo_test.go` — a Go test file to be dropped into ONE package directory of the library (say which in meta.json as "demo_dir", e.g. "util/hmap"; use the package name of that directory or its `_test` external package) whose test FAILS with the change and PASSES without it; verify both yourself (apply patch → `go test -run <TestName> ./<demo_dir>/` fails; `git checkout -- .` → it passes). The demo must be deterministic or retry enough to be reliable, and finish within 60 s.
- `meta.json`: {{"property":"{pid}","title":…,"what_it_breaks":…,"needs_to_manifest":…,"files":[…],"demo_dir":…,"verified":"commands you ran and what they showed"}}.
After producing each patch, reset the worktree (`git checkout -- . && git clean -fdq`) so that the patches are independent. At the end leave the worktree clean. Reply with a short list of the changes (one line each).""")
