#!/bin/sh
# tools/seedtest.sh <PROPERTY-ID> <patch.diff> [tier]
# Applies a seeded change to a scratch worktree of /repo (never to /repo itself), runs the
# property's check against it, prints the verdict lines, removes the worktree.
set -u
ID="$1"; PATCH="$(readlink -f "$2")"; TIER="${3:-quick}"
WT="/tmp/seedwt-$ID-$$"
git -C /repo worktree add --detach "$WT" HEAD >/dev/null 2>&1 || { echo "cannot create worktree"; exit 2; }
H=$(python3 -c "import hashlib,sys;print(hashlib.sha1(sys.argv[1].encode()).hexdigest()[:8])" "$WT")
trap 'git -C /repo worktree remove --force "$WT" >/dev/null 2>&1; rm -rf "/verif/.build/$ID-$H"' EXIT
if ! git -C "$WT" apply "$PATCH"; then echo "patch does not apply"; exit 2; fi
cd /verif && VERIF_REPO="$WT" timeout 3000 ./check "$ID" --tier "$TIER"
echo "exit=$?"
