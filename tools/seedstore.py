#!/usr/bin/env python3
"""tools/seedstore.py <ID> <outdir> [tier]  — for each <outdir>/<i>/ {patch.diff, demo_test.go, meta.json}:
   confirm it independently (tools/seedconfirm.sh), run the property's check against it (tools/seedtest.sh),
   and store it as /verif/seeded/<ID>-<i>/ with the results recorded in meta.json."""
import json, os, subprocess, sys, shutil, re
ROOT = "/verif"
pid, out = sys.argv[1], sys.argv[2]
tier = sys.argv[3] if len(sys.argv) > 3 else "quick"
label = (sys.argv[4] + "-") if len(sys.argv) > 4 else ""
for i in sorted(os.listdir(out)):
    d = os.path.join(out, i)
    if not os.path.exists(os.path.join(d, "patch.diff")): continue
    meta = json.load(open(os.path.join(d, "meta.json")))
    demo_dir = meta.get("demo_dir") or os.path.dirname(meta["files"][0])
    c = subprocess.run([ROOT + "/tools/seedconfirm.sh", d, demo_dir], capture_output=True, text=True)
    confirmed = c.stdout.strip().split("\n")[-1] if c.stdout.strip() else c.stderr[-300:]
    t = subprocess.run([ROOT + "/tools/seedtest.sh", pid, os.path.join(d, "patch.diff"), tier], capture_output=True, text=True)
    viol = [l for l in t.stdout.split("\n") if l.startswith("VIOLATION")]
    exitl = [l for l in t.stdout.split("\n") if l.startswith("exit=")]
    summary = [l for l in t.stdout.split("\n") if l.startswith(pid + " tier=")]
    kind = "missed"
    if viol:
        kind = "caught with a failing input (replay)" if any("no-failing-input-found" not in v for v in viol) else "caught: obligation/correspondence broken, no-failing-input-found"
    meta.update({"demo_dir": demo_dir, "confirmed_by_orchestrator": confirmed,
                 "detected_by": {"check": "./check %s --tier %s (tools/seedtest.sh, scratch worktree)" % (pid, tier),
                                 "result": kind, "violation_lines": len(viol), "summary": summary[-1] if summary else "", "exit": exitl[-1] if exitl else ""}})
    dst = os.path.join(ROOT, "seeded", "%s-%s%s" % (pid, label, i))
    os.makedirs(dst, exist_ok=True)
    oldp = os.path.join(dst, "meta.json")
    if os.path.exists(oldp):
        try:
            old = json.load(open(oldp))
            if old.get("strengthened"): meta["strengthened"] = old["strengthened"]
            hist = old.get("detection_history", [])
            prev = old.get("detected_by", {}).get("result")
            if prev and (not hist or hist[-1] != prev): hist.append(prev)
            meta["detection_history"] = hist
        except Exception: pass
    shutil.copy(os.path.join(d, "patch.diff"), dst); shutil.copy(os.path.join(d, "demo_test.go"), dst)
    json.dump(meta, open(os.path.join(dst, "meta.json"), "w"), indent=1)
    print("%s-%s%s: %s | %s" % (pid, label, i, confirmed[:40], kind))
