#!/usr/bin/env python3
"""tools/integrate.py <ID> [--fixed KEY 'what' 'commit msg']...
   - merges proposed/<ID>/known_findings.json (open entries) into known_findings.json (dedup by property+key)
   - removes <ID> from checks/not_applicable.json, regenerates MANIFEST.json"""
import json, os, sys, subprocess
ROOT = os.path.dirname(os.path.dirname(os.path.abspath(__file__)))
ids = [a for a in sys.argv[1:] if a.startswith("C")]
kf = json.load(open(os.path.join(ROOT, "known_findings.json")))
have = {(e["property"], e["key"]) for e in kf["findings"]}
for pid in ids:
    p = os.path.join(ROOT, "proposed", pid, "known_findings.json")
    if os.path.exists(p):
        data = json.load(open(p))
        if isinstance(data, dict): data = data.get("findings", [])
        for e in data:
            if (e["property"], e["key"]) not in have:
                kf["findings"].append(e); have.add((e["property"], e["key"]))
json.dump(kf, open(os.path.join(ROOT, "known_findings.json"), "w"), indent=1)
nap = os.path.join(ROOT, "checks", "not_applicable.json")
na = [x for x in json.load(open(nap)) if x["property_id"] not in ids]
json.dump(na, open(nap, "w"), indent=1)
subprocess.run([sys.executable, os.path.join(ROOT, "tools", "mkmanifest.py")], check=True)
