#!/bin/sh
# tools/seedconfirm.sh <dir-with-patch.diff+demo_test.go> <demo-package-dir-in-repo> [test-packages...]
# Confirms in a scratch worktree: patch applies, library builds, existing tests of the touched packages pass,
# demo test passes WITHOUT the patch and FAILS WITH it.  Prints CONFIRMED or the reason.
set -u
D="$(readlink -f "$1")"; PKG="$2"; shift 2
WT="/tmp/seedconf-$$"
export GOFLAGS=-mod=mod GOPROXY=off GOSUMDB=off GOTOOLCHAIN=local
git -C /repo worktree add --detach "$WT" HEAD >/dev/null 2>&1 || { echo "cannot create worktree"; exit 2; }
trap 'git -C /repo worktree remove --force "$WT" >/dev/null 2>&1' EXIT
cd "$WT"
cp "$D"/demo_test.go "$PKG"/zz_demo_test.go
if ! timeout 600 go test -vet=off -count=1 -run 'Demo|Seed|Mut|Break|Test' ./"$PKG"/ >/tmp/seedconf.$$.a 2>&1; then
  # run only the demo's tests: collect names
  :
fi
NAMES=$(grep -oE '^func (Test[A-Za-z0-9_]+)' "$D"/demo_test.go | sed 's/func //' | paste -sd'|')
timeout 600 go test -vet=off -count=1 -run "^($NAMES)\$" ./"$PKG"/ >/tmp/seedconf.$$.a 2>&1; A=$?
git apply "$D"/patch.diff || { echo "NOT CONFIRMED: patch does not apply"; exit 1; }
timeout 600 go build ./... >/tmp/seedconf.$$.b 2>&1 || { echo "NOT CONFIRMED: does not build"; tail -5 /tmp/seedconf.$$.b; exit 1; }
timeout 600 go test -vet=off -count=1 -run "^($NAMES)\$" ./"$PKG"/ >/tmp/seedconf.$$.c 2>&1; C=$?
rm "$PKG"/zz_demo_test.go
/verif/tools/baseline.sh "$WT" >/tmp/seedconf.$$.d 2>&1; B=$?
rm -f logger/logfile/logs/*.log 2>/dev/null
if [ $A -eq 0 ] && [ $C -ne 0 ] && [ $B -eq 0 ]; then echo "CONFIRMED: demo passes without, fails with; builds; $(head -1 /tmp/seedconf.$$.d)"; R=0
else echo "NOT CONFIRMED: demo-without=$A demo-with=$C baseline=$B"; tail -5 /tmp/seedconf.$$.a /tmp/seedconf.$$.c /tmp/seedconf.$$.d; R=1; fi
rm -f /tmp/seedconf.$$.*
exit $R
