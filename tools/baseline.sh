#!/bin/sh
# tools/baseline.sh [repo-dir] — runs the repository's baseline suite (guard off) and compares with BASELINE.json's stable_pass list
R="${1:-/repo}"
cd "$R" && GOFLAGS=-mod=mod GOPROXY=off timeout 1500 go test -mod=mod -json -vet=off -count=1 -timeout 25m ./... 2>/dev/null > /tmp/baseline.$$.json
python3 - /tmp/baseline.$$.json <<'PY'
import json, sys
want = set(json.load(open("/root/.vp/BASELINE.json"))["stable_pass"])
got = {}
for l in open(sys.argv[1]):
    try: e = json.loads(l)
    except Exception: continue
    if e.get("Test") and e.get("Action") in ("pass", "fail") and "/" not in e["Test"]:
        got[e["Package"] + "::" + e["Test"]] = e["Action"]
bad = sorted(t for t in want if got.get(t) != "pass")
print("baseline: %d/%d stable tests pass" % (len(want) - len(bad), len(want)))
for t in bad: print("  NOT PASSING:", t, got.get(t))
sys.exit(1 if bad else 0)
PY
rc=$?; rm -f /tmp/baseline.$$.json; exit $rc
