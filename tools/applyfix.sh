#!/bin/sh
# tools/applyfix.sh <fix.diff>...  — applies each proposed fix to /repo as its own commit (message = the '# fix:' line)
export GOFLAGS=-mod=mod GOPROXY=off GOSUMDB=off GOTOOLCHAIN=local
HERE="$(pwd)"
for D in "$@"; do
  cd "$HERE"; D="$(readlink -f "$D")"
  MSG="$(grep -m1 '^# fix:' "$D" | sed 's/^# //')"
  [ -n "$MSG" ] || { echo "no '# fix:' line in $D"; exit 1; }
  cd /repo || exit 1
  if ! git apply --check "$D" 2>/dev/null; then
     if git apply --check -3 "$D" 2>/dev/null; then :; else echo "DOES NOT APPLY: $D"; git apply --check "$D"; exit 1; fi
  fi
  git apply "$D" || exit 1
  if ! timeout 600 go build ./... ; then echo "BUILD FAILS after $D"; git checkout -- .; exit 1; fi
  PKGS=$(git diff --name-only | xargs -n1 dirname | sort -u | sed 's|^|./|' | tr '\n' ' ')
  if ! timeout 900 go test -vet=off -count=1 $PKGS 2>&1 | grep -v "no test files" | grep -E "FAIL|panic" | grep -v oneway ; then :; fi
  git commit -qam "$MSG" && echo "committed: $MSG"
  rm -f logger/logfile/logs/*.log 2>/dev/null
done
