#!/bin/sh
# tools/applyhooks.sh <ID> <hooks.diff> — commits build-tag-guarded hook files to /repo and records the commit in checks/hooks.json
ID="$1"; D="$(readlink -f "$2")"
export GOFLAGS=-mod=mod GOPROXY=off GOSUMDB=off GOTOOLCHAIN=local
cd /repo && git apply "$D" || exit 1
for f in $(git status --porcelain | grep -v 'logs/' | awk '{print $2}'); do
  head -3 "$f" | grep -q '^//go:build verif' || { echo "NOT GUARDED: $f"; git checkout -- . ; git clean -fdq -e logger/logfile/logs; exit 1; }
done
timeout 600 go build ./... && timeout 600 go build -tags verif ./... || { echo "build fails"; exit 1; }
git add -A -- $(git status --porcelain | grep -v 'logs/' | awk '{print $2}')
git commit -qm "verif hooks ($ID): build-tag 'verif' guarded test entry points, add-only" && H=$(git rev-parse HEAD) && echo "hooks committed $H"
python3 - "$H" "$ID" <<'PY'
import json, sys, os
p = "/verif/checks/hooks.json"
d = json.load(open(p)) if os.path.exists(p) else {"source_commits": []}
d["source_commits"].append(sys.argv[1]); d.setdefault("by_property", {})[sys.argv[2]] = sys.argv[1]
json.dump(d, open(p, "w"), indent=1)
PY
