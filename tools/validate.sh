#!/bin/sh
# validates MANIFEST.json and every evidence file against the schemas in /root/.vp
cd "$(dirname "$0")/.." && python3-vt - <<'PY'
import json, glob, jsonschema, sys
ok = True
m = json.load(open("MANIFEST.json"))
try:
    jsonschema.validate(m, json.load(open("/root/.vp/MANIFEST.schema.json"))); print("MANIFEST ok:", len(m["checks"]), "checks")
except Exception as e:
    ok = False; print("MANIFEST INVALID:", str(e)[:400])
es = json.load(open("/root/.vp/EVIDENCE.schema.json"))
for c in m["checks"]:
    p = c["evidence_file"]
    try:
        jsonschema.validate(json.load(open(p)), es); print("  ok ", p)
    except Exception as e:
        ok = False; print("  BAD", p, str(e)[:300])
props = {json.loads(l)["id"] for l in open("properties.jsonl")}
claimed = {c["property_id"] for c in m["checks"]}
na = {x["property_id"] for x in m.get("not_applicable", [])}
if props != claimed | na or claimed & na:
    ok = False; print("properties not partitioned:", sorted(props - claimed - na), sorted(claimed & na))
sys.exit(0 if ok else 1)
PY
