#!/bin/sh
# tools/sweep.sh <first-seed> <last-seed> [tier] — runs every claimed check on the unchanged /repo for a range of seeds; prints any alarm
cd "$(dirname "$0")/.."
TIER="${3:-quick}"
for s in $(seq "$1" "$2"); do
  for id in $(python3 -c "import json;print(' '.join(c['property_id'] for c in json.load(open('MANIFEST.json'))['checks']))"); do
    out=$(VERIF_SEED=$s timeout 3000 ./check $id --tier $TIER 2>&1); rc=$?
    if [ $rc -ne 0 ]; then echo "ALARM seed=$s $id rc=$rc"; echo "$out" | grep -E "VIOLATION|no longer" | head -5; fi
  done
  echo "seed $s done"
done
