#!/bin/sh
# runs the thorough tier of every claimed check once on /repo and logs verdict + wall time
cd "$(dirname "$0")/.."
for id in $(python3 -c "import json;print(' '.join(c['property_id'] for c in json.load(open('MANIFEST.json'))['checks']))"); do
  s=$(date +%s); out=$(timeout 5400 ./check $id --tier thorough 2>&1); rc=$?; e=$(date +%s)
  echo "$id rc=$rc wall=$((e-s))s | $(echo "$out" | grep "tier=thorough" | tail -1)"
  [ $rc -ne 0 ] && echo "$out" | grep -E "VIOLATION|no longer" | head -5
done
