#!/usr/bin/env python3
"""tools/seedregress.py [-j N] [ID-prefix ...] — re-runs the property's check (quick tier, scratch
   worktree, never /repo) against every recorded seeded change in /verif/seeded/ and records the
   current result in its meta.json (the previous result goes to detection_history).  A patch that no
   longer applies to /repo's HEAD (the code it changed was repaired or rewritten since) is recorded as
   such and left alone.  Prints one line per seed and a summary."""
import json, os, subprocess, sys, glob
from concurrent.futures import ThreadPoolExecutor
ROOT = "/verif"
args = sys.argv[1:]
jobs = 3
if args and args[0] == "-j":
    jobs = int(args[1]); args = args[2:]
dirs = sorted(glob.glob(ROOT + "/seeded/*/"))
if args:
    dirs = [d for d in dirs if any(os.path.basename(d.rstrip("/")).startswith(a) for a in args)]

def run(d):
    name = os.path.basename(d.rstrip("/"))
    pid = name.split("-")[0]
    mp = os.path.join(d, "meta.json")
    meta = json.load(open(mp))
    t = subprocess.run([ROOT + "/tools/seedtest.sh", pid, os.path.join(d, "patch.diff"), "quick"], capture_output=True, text=True)
    out = t.stdout
    if "patch does not apply" in out:
        kind = "patch no longer applies to HEAD (code repaired or rewritten since)"
    else:
        viol = [l for l in out.split("\n") if l.startswith("VIOLATION")]
        kind = "missed"
        if viol:
            kind = "caught with a failing input (replay)" if any("no-failing-input-found" not in v for v in viol) else "caught: obligation/correspondence broken, no-failing-input-found"
        elif "exit=0" not in out:
            kind = "check did not complete: " + out[-200:].replace("\n", " ")
    prev = meta.get("detected_by", {}).get("result")
    if "no longer applies" in kind:
        meta["regression"] = kind
    else:
        hist = meta.get("detection_history", [])
        if prev and prev != kind and (not hist or hist[-1] != prev): hist.append(prev)
        meta["detection_history"] = hist
        summary = [l for l in out.split("\n") if l.startswith(pid + " tier=")]
        meta.setdefault("detected_by", {})
        meta["detected_by"].update({"result": kind, "summary": summary[-1] if summary else ""})
        meta.pop("regression", None)
    json.dump(meta, open(mp, "w"), indent=1)
    print("%-12s %s%s" % (name, kind, "" if prev == kind or "no longer" in kind else "   (was: %s)" % prev), flush=True)
    return kind

with ThreadPoolExecutor(jobs) as ex:
    res = list(ex.map(run, dirs))
from collections import Counter
print(Counter(r.split(":")[0] if r.startswith("check did") else r for r in res))
