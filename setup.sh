#!/bin/sh
# MANIFEST.setup_cmd — offline: regenerate Gen/*, build all Lean proof modules and drivers, warm the Go cache.
set -e
cd "$(dirname "$0")"
export GOFLAGS=-mod=mod GOPROXY=off GOSUMDB=off GOTOOLCHAIN=local
cp /repo/go.sum harness/go.sum 2>/dev/null || true
exec ./check SETUP
