/-
  Golib.Packs.Counter — the sections of CounterPack1 (lang/pack/CounterPack1.go) where the writer
  and the reader of the unchanged code differ (candidate defect D27), hand-transcribed into the IR.
  The rest of CounterPack1 (≈100 scalar items and the four 9-tagged meters, which agree) is covered
  by the correspondence harness only.

  * POid meter entry: `writeTxcallerPOidMeter` writes pcode, oid, time, count, error, actx;
    `readTxcallerPOidMeter` reads pcode, oid, time, count, error, **a short array `Acts`**, actx.
  * DB pool / netstat / websocket: written behind a presence byte, **read and discarded**.
  * Extra: written with `value.WriteValue` (type tag + body), read with `IntMapValue.Read` (body only).
-/
import Golib.Layout.IR

namespace Packs.Counter
open Layout

def poidEntry.w : L :=
  .fld "PCode" .dec .i64 (.fld "Oid" .dec .i32 (.fld "Time" .dec .i64 (.fld "Count" .dec .i32
    (.fld "Error" .dec .i32 (.fld "Actx" .dec .i32 .nil)))))

def poidEntry.r : L :=
  .fld "PCode" .dec .i64 (.fld "Oid" .dec .i32 (.fld "Time" .dec .i64 (.fld "Count" .dec .i32
    (.fld "Error" .dec .i32 (.rep .u8 "Acts" (.fld "v" .i16 .i16 .nil) (.fld "Actx" .dec .i32 .nil))))))

/-- the writer with the fix proposed by the C05 owner (`writeShortArray(dout, m.Acts)` before Actx) -/
def poidEntry.wFixed : L :=
  .fld "PCode" .dec .i64 (.fld "Oid" .dec .i32 (.fld "Time" .dec .i64 (.fld "Count" .dec .i32
    (.fld "Error" .dec .i32 (.rep .u8 "Acts" (.fld "v" .i16 .i16 .nil) (.fld "Actx" .dec .i32 .nil))))))

def netstat.w : L :=
  .opt "Netstat" (.fld "Netstat.Est" .dec .i32 (.fld "Netstat.FinW" .dec .i32
    (.fld "Netstat.CloW" .dec .i32 (.fld "Netstat.TimW" .dec .i32 .nil)))) .nil

/-- the reader as found: four decimals read and dropped -/
def netstat.r : L :=
  .opt "Netstat" (.skip .dec (.skip .dec (.skip .dec (.skip .dec .nil)))) .nil

/-- the reader with the proposed fix (fields restored) -/
def netstat.rFixed : L := netstat.w

/-- DB pool: two int→int maps behind one presence byte -/
def dbnum.w : L :=
  .opt "DbNum" (.rep .dec "DbNumActive" (.fld "key" .dec .i32 (.fld "val" .dec .i32 .nil))
    (.rep .dec "DbNumIdle" (.fld "key" .dec .i32 (.fld "val" .dec .i32 .nil)) .nil)) .nil

/-- the reader as found (`ReadDropMap`): ONE map is read and dropped — the second map is left in
    the stream, so everything after it is misread -/
def dbnum.r : L :=
  .opt "DbNum" (.rep .dec "DbNumActive" (.skip .dec (.skip .dec .nil)) .nil) .nil

def dbnum.rFixed : L := dbnum.w

def extra.w : L := .opt "Extra" (.fld "Extra" .value .any .nil) .nil
def extra.r : L := .opt "Extra" (.fld "Extra" .imapBody .any .nil) .nil

end Packs.Counter
