/-
  Golib.Packs.Tree — CompositePack to any depth: packs nested inside composite packs.

  `PT` is a pack tree (a leaf is a pack with a layout, a node is a CompositePack with its header
  and inner packs); `writePT` follows `WritePack`/`CompositePack.Write`, `readPT` follows
  `ReadPack`/`CompositePack.Read` (the factory sends the composite type code back into the same
  function; fuel bounds the nesting depth).  `tree_roundtrip`: every tree reads back as itself
  (carried fields of every leaf, headers of every node, same shape and order), leaving exactly what
  followed.
-/
import Golib.Packs.Container

namespace Packs
open Layout _root_.Prim

/-- PACK_COMPOSITE -/
def compositeCode : Int := 5888

inductive PT where
  | leaf (p : PV)
  | comp (h : Hdr) (kids : List PT)

/-- what a decoded tree holds -/
inductive CT where
  | leaf (code : Int) (o : Out)
  | comp (h : Hdr) (kids : List CT)

mutual
def writePT : PT → Bytes
  | .leaf p => writePack p
  | .comp h kids => encI 2 compositeCode ++ (encHeader h ++ (encI 2 (lenPTs kids) ++ writePTs kids))
def writePTs : List PT → Bytes
  | [] => []
  | t :: ts => writePT t ++ writePTs ts
def lenPTs : List PT → Nat
  | [] => 0
  | _ :: ts => lenPTs ts + 1
end

mutual
def carriedPT : PT → CT
  | .leaf p => .leaf p.code (p.w.expect env0 "" p.x)
  | .comp h kids => .comp h (carriedPTs kids)
def carriedPTs : List PT → List CT
  | [] => []
  | t :: ts => carriedPT t :: carriedPTs ts
end

mutual
def depthPT : PT → Nat
  | .leaf _ => 1
  | .comp _ kids => depthPTs kids + 1
def depthPTs : List PT → Nat
  | [] => 0
  | t :: ts => max (depthPT t) (depthPTs ts)
end

mutual
def okPT (vr : ValueRT) (fac : Factory) : PT → Prop
  | .leaf p => p.ok vr fac ∧ p.code ≠ compositeCode
  | .comp h kids => h.WF ∧ lenPTs kids ≤ 32767 ∧ okPTs vr fac kids
def okPTs (vr : ValueRT) (fac : Factory) : List PT → Prop
  | [] => True
  | t :: ts => okPT vr fac t ∧ okPTs vr fac ts
end

mutual
def readPT (fac : Factory) : Nat → Bytes → Option (CT × Bytes)
  | 0, _ => none
  | f+1, bs =>
    match P.run (rdI 2) bs with
    | none => none
    | some (code, r) =>
      if code = compositeCode then
        match P.run decHeader r with
        | none => none
        | some (h, r1) =>
          match P.run (rdI 2) r1 with
          | none => none
          | some (n, r2) =>
            if n < 0 then none
            else (readPTs fac f n.toNat r2).map (fun (ks, r3) => (.comp h ks, r3))
      else
        match fac code with
        | none => none
        | some rl =>
          match rl.read "" env0 r with
          | none => none
          | some (o, _, r') => some (.leaf code o, r')
def readPTs (fac : Factory) : Nat → Nat → Bytes → Option (List CT × Bytes)
  | _, 0, bs => some ([], bs)
  | f, n+1, bs =>
    match readPT fac f bs with
    | none => none
    | some (t, r) => (readPTs fac f n r).map (fun (ts, r') => (t :: ts, r'))
end

theorem compositeCode_range : inRange 2 compositeCode := by
  rw [inRange_2]; decide

mutual
theorem tree_roundtrip (vr : ValueRT) (fac : Factory) (t : PT) (f : Nat) (rest : Bytes)
    (hok : okPT vr fac t) (hf : depthPT t ≤ f) :
    readPT fac f (writePT t ++ rest) = some (carriedPT t, rest) := by
  cases t with
  | leaf p =>
    obtain ⟨⟨hc, hfac, ha, hwf⟩, hne⟩ := hok
    cases f with
    | zero => simp [depthPT] at hf
    | succ f =>
      simp only [readPT, writePT, writePack, List.append_assoc]
      rw [run_rdI 2 p.code _ hc]
      simp only [hne, if_false, hfac]
      obtain ⟨e', hr⟩ := agree_roundtrip vr p.w p.r ha env0 "" p.x rest hwf
      rw [hr]
      rfl
  | comp h kids =>
    obtain ⟨hh, hn, hk⟩ := hok
    cases f with
    | zero => simp [depthPT] at hf
    | succ f =>
      simp only [depthPT] at hf
      simp only [readPT, writePT, List.append_assoc]
      rw [run_rdI 2 compositeCode _ compositeCode_range]
      simp only [if_true]
      rw [header_roundtrip h _ hh]
      simp only []
      rw [run_rdI 2 (lenPTs kids : Int) _ ((inRange_2 _).mpr (by omega))]
      have : ¬ ((lenPTs kids : Int) < 0) := by omega
      simp only [this, if_false, Int.toNat_natCast]
      rw [trees_roundtrip vr fac kids f rest hk (by omega)]
      rfl
theorem trees_roundtrip (vr : ValueRT) (fac : Factory) (ts : List PT) (f : Nat) (rest : Bytes)
    (hok : okPTs vr fac ts) (hf : depthPTs ts ≤ f) :
    readPTs fac f (lenPTs ts) (writePTs ts ++ rest) = some (carriedPTs ts, rest) := by
  cases ts with
  | nil => simp [readPTs, lenPTs, writePTs, carriedPTs]
  | cons t ts =>
    obtain ⟨h1, h2⟩ := hok
    simp only [depthPTs] at hf
    simp only [readPTs, lenPTs, writePTs, carriedPTs, List.append_assoc]
    rw [tree_roundtrip vr fac t f _ h1 (by omega)]
    simp only []
    rw [trees_roundtrip vr fac ts f rest h2 (by omega)]
    rfl
end

end Packs
