/-
  Golib.Packs.Container — CodeModel of the type-tagged pack codec and of the container packs.

    writePack / readPack        lang/pack/Pack.go  WritePack, ReadPack (type tag, factory, body)
    writePacks / readPacks      ZipPack.SetRecords / GetRecords, LogSinkZipPack.GetRecords,
                                CompositePack.Write / Read  (inner packs one after the other)
    stamp                       GetRecords stamps every inner pack with the container's
                                Pcode / Oid / Okind / Onode (its Time is the inner pack's own)
    doZip / doUnZip             LogSinkZipPack: status byte + threshold; gzip is abstract
                                (`Gzip`: unzip ∘ zip = id is the stated assumption)
    recordsW / recordsR         record lists: a 16-bit count then the records (Stat*Pack.SetRecords*)
-/
import Golib.Layout.Agree

namespace Packs
open Layout _root_.Prim

def env0 : Env := fun _ => 0

/-- a pack of the model: its type code, the layouts of its type, its record -/
structure PV where
  code : Int
  w : L
  r : L
  x : Rec

/-- the factory `CreatePack`: type code ↦ the reader of the type constructed (none: returns nil) -/
abbrev Factory := Int → Option L

def writePack (p : PV) : Bytes := encI 2 p.code ++ p.w.write env0 "" p.x

def readPack (fac : Factory) (bs : Bytes) : Option ((Int × Out) × Bytes) :=
  match P.run (rdI 2) bs with
  | none => none
  | some (code, r) =>
    match fac code with
    | none => none
    | some rl =>
      match rl.read "" env0 r with
      | none => none
      | some (o, _, r') => some ((code, o), r')

def PV.carried (p : PV) : Int × Out := (p.code, p.w.expect env0 "" p.x)

def PV.ok (vr : ValueRT) (fac : Factory) (p : PV) : Prop :=
  inRange 2 p.code ∧ fac p.code = some p.r ∧ agrees p.w p.r = true ∧ p.w.WF vr env0 "" p.x

theorem readPack_writePack (vr : ValueRT) (fac : Factory) (p : PV) (rest : Bytes) (h : p.ok vr fac) :
    readPack fac (writePack p ++ rest) = some (p.carried, rest) := by
  obtain ⟨hc, hf, ha, hwf⟩ := h
  unfold readPack writePack
  rw [List.append_assoc, run_rdI 2 p.code _ hc]
  simp only [hf]
  obtain ⟨e', hr⟩ := agree_roundtrip vr p.w p.r ha env0 "" p.x rest hwf
  rw [hr]
  rfl

def writePacks : List PV → Bytes
  | [] => []
  | p :: ps => writePack p ++ writePacks ps

def readPacks (fac : Factory) : Nat → Bytes → Option (List (Int × Out) × Bytes)
  | 0, bs => some ([], bs)
  | n+1, bs =>
    match readPack fac bs with
    | none => none
    | some (a, r) =>
      match readPacks fac n r with
      | none => none
      | some (as, r') => some (a :: as, r')

theorem readPacks_writePacks (vr : ValueRT) (fac : Factory) (ps : List PV) (rest : Bytes)
    (h : ∀ p ∈ ps, p.ok vr fac) :
    readPacks fac ps.length (writePacks ps ++ rest) = some (ps.map PV.carried, rest) := by
  induction ps with
  | nil => rfl
  | cons p ps ih =>
    simp only [List.length_cons, readPacks, writePacks, List.append_assoc, List.map_cons]
    rw [readPack_writePack vr fac p _ (h p (by simp))]
    simp only []
    rw [ih (fun q hq => h q (by simp [hq]))]

/-! ### stamping -/

def stampField (h : Hdr) (kv : String × Val) : String × Val :=
  if kv.1 = "Pcode" then (kv.1, .int h.pcode)
  else if kv.1 = "Oid" then (kv.1, .int h.oid)
  else if kv.1 = "Okind" then (kv.1, .int h.okind)
  else if kv.1 = "Onode" then (kv.1, .int h.onode)
  else kv

def stamp (h : Hdr) (p : Int × Out) : Int × Out := (p.1, p.2.map (stampField h))

/-- ZipPack: `SetRecords(items)` then `GetRecords()` of a container with header `h` -/
structure Zip where
  hdr : Hdr
  records : Bytes
  count : Nat

def Zip.setRecords (z : Zip) (ps : List PV) : Zip := { z with records := writePacks ps, count := ps.length }

def Zip.getRecords (fac : Factory) (z : Zip) : Option (List (Int × Out)) :=
  (readPacks fac z.count z.records).map (fun (xs, _) => xs.map (stamp z.hdr))

theorem zip_records (vr : ValueRT) (fac : Factory) (z : Zip) (ps : List PV) (h : ∀ p ∈ ps, p.ok vr fac) :
    (z.setRecords ps).getRecords fac = some (ps.map (fun p => stamp z.hdr p.carried)) := by
  unfold Zip.getRecords Zip.setRecords
  have := readPacks_writePacks vr fac ps [] h
  rw [List.append_nil] at this
  simp [this]

/-! ### LogSinkZipPack: optional compression -/

/-- gzip, abstract: the only thing assumed of it -/
structure Gzip where
  zip : Bytes → Bytes
  unzip : Bytes → Bytes
  inv : ∀ b, unzip (zip b) = b

/-- `doZip`: (status, records) after `SetRecords(records, zipMinSize)` -/
def doZip (g : Gzip) (status : Nat) (records : Bytes) (zipMinSize : Nat) : Nat × Bytes :=
  if status ≠ 0 then (status, records)
  else if records.length < zipMinSize then (status, records)
  else (1, g.zip records)

/-- `doUnZip` -/
def doUnZip (g : Gzip) (status : Nat) (records : Bytes) : Bytes :=
  if status ≠ 1 then records else g.unzip records

theorem unzip_zip (g : Gzip) (records : Bytes) (zipMinSize : Nat) :
    doUnZip g (doZip g 0 records zipMinSize).1 (doZip g 0 records zipMinSize).2 = records := by
  unfold doZip doUnZip
  by_cases h : records.length < zipMinSize
  · simp [h]
  · simp [h, g.inv]

/-- LogSinkZipPack: records set from already serialized log-sink packs, with or without compression -/
theorem logsink_zip_records (vr : ValueRT) (g : Gzip) (fac : Factory) (hdr : Hdr) (ps : List PV)
    (zipMinSize : Nat) (h : ∀ p ∈ ps, p.ok vr fac) :
    let st := doZip g 0 (writePacks ps) zipMinSize
    (Zip.getRecords fac ⟨hdr, doUnZip g st.1 st.2, ps.length⟩)
      = some (ps.map (fun p => stamp hdr p.carried)) := by
  intro st
  have e : doUnZip g st.1 st.2 = writePacks ps := unzip_zip g _ _
  rw [e]
  exact zip_records vr fac ⟨hdr, [], 0⟩ ps h

/-! ### CompositePack (one level): header, 16-bit count, the inner packs -/

def writeComposite (h : Hdr) (ps : List PV) : Bytes :=
  encHeader h ++ (encI 2 ps.length ++ writePacks ps)

def readComposite (fac : Factory) (bs : Bytes) : Option ((Hdr × List (Int × Out)) × Bytes) :=
  match P.run decHeader bs with
  | none => none
  | some (h, r) =>
    match P.run (rdI 2) r with
    | none => none
    | some (n, r') =>
      if n < 0 then none            -- make([]Pack, negative) panics
      else (readPacks fac n.toNat r').map (fun (xs, r'') => ((h, xs), r''))

theorem composite_roundtrip (vr : ValueRT) (fac : Factory) (h : Hdr) (ps : List PV) (rest : Bytes)
    (hh : h.WF) (hn : ps.length ≤ 32767) (hp : ∀ p ∈ ps, p.ok vr fac) :
    readComposite fac (writeComposite h ps ++ rest) = some ((h, ps.map PV.carried), rest) := by
  unfold readComposite writeComposite
  rw [List.append_assoc, header_roundtrip h _ hh]
  simp only [List.append_assoc]
  rw [run_rdI 2 (ps.length : Int) _ ((inRange_2 _).mpr (by omega))]
  have : ¬ ((ps.length : Int) < 0) := by omega
  simp only [this, if_false, Int.toNat_natCast]
  rw [readPacks_writePacks vr fac ps rest hp]
  rfl

/-! ### record lists: `WriteShort(count)` then the records, inside the pack's `Records` blob -/

def recordsW (body : L) : L := .rep .i16 "recs" body .nil

/-- if the record codec agrees, so does the list codec (decided per record type in C03Gen) -/
theorem records_roundtrip (vr : ValueRT) (bw br : L) (h : agrees (recordsW bw) (recordsW br) = true)
    (e : Env) (x : Rec) (rest : Bytes) (hwf : (recordsW bw).WF vr e "" x) :
    ∃ e', (recordsW br).read "" e ((recordsW bw).write e "" x ++ rest)
      = some ((recordsW bw).expect e "" x, e', rest) :=
  agree_roundtrip vr _ _ h e "" x rest hwf

end Packs
