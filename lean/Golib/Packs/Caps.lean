/-
  Golib.Packs.Caps — bounded tables inside packs (util/hmap IntIntLinkedMap with `SetMax`).

  `StatRemoteIpPack.IpTable` (limit 10000) and `StatUserAgentPack.UserAgents` (limit 500) are created
  by their constructors with a maximum size.  `Read` puts the rows of the wire table into that table
  one after the other (`Put` = PUT_LAST); when the table is full a new key first evicts the OLDEST
  entry.  So what a decoded pack carries of a wire table with distinct keys is its last `max` rows, in
  order (`capRows`); a wire table of at most `max` rows is carried whole.

  `expectedCaps` records the limits as the code has them; `Gen.Packs.caps` is regenerated from the
  constructors on every run and must equal it (Props/C03Gen.lean, `caps_as_recorded`).
-/

namespace Packs

/-- the limits as of today: (type, field, SetMax) -/
def expectedCaps : List (String × String × Int) :=
  [("StatRemoteIpPack", "IpTable", 10000), ("StatUserAgentPack", "UserAgents", 500)]

/-- what a table bounded by `max` keeps of `rows` put one after the other: the last `max` -/
def capRows (max : Nat) (rows : List α) : List α := rows.drop (rows.length - max)

/-- one `Put` of a key not yet in the table: evict from the front while full, then append -/
def capPut (max : Nat) (acc : List α) (x : α) : List α := capRows (max - 1) acc ++ [x]

theorem capRows_length (max : Nat) (rows : List α) : (capRows max rows).length ≤ max := by
  simp only [capRows, List.length_drop]; omega

theorem capRows_of_le (max : Nat) (rows : List α) (h : rows.length ≤ max) : capRows max rows = rows := by
  simp only [capRows]
  have : rows.length - max = 0 := by omega
  rw [this]; rfl

theorem capRows_suffix (max : Nat) (rows : List α) : ∃ dropped, rows = dropped ++ capRows max rows :=
  ⟨rows.take (rows.length - max), by simp [capRows]⟩

theorem capRows_snoc (max : Nat) (h : 1 ≤ max) (rows : List α) (x : α) :
    capRows max (rows ++ [x]) = capRows (max - 1) rows ++ [x] := by
  simp only [capRows, List.length_append, List.length_cons, List.length_nil]
  have e : rows.length + (0 + 1) - max = rows.length - (max - 1) := by omega
  rw [e, List.drop_append_of_le_length (by omega)]

theorem capRows_capRows (a b : Nat) (h : a ≤ b) (rows : List α) : capRows a (capRows b rows) = capRows a rows := by
  simp only [capRows, List.length_drop, List.drop_drop]
  congr 1
  omega

/-- **putting the rows one after the other into a table bounded by `max` leaves the last `max` rows** -/
theorem foldl_capPut (max : Nat) (h : 1 ≤ max) (rows : List α) :
    rows.foldl (capPut max) [] = capRows max rows := by
  have gen : ∀ (rs acc : List α) (pre : List α), acc = capRows max pre →
      rs.foldl (capPut max) acc = capRows max (pre ++ rs) := by
    intro rs
    induction rs with
    | nil => intro acc pre ha; simp [ha]
    | cons r rs ih =>
      intro acc pre ha
      simp only [List.foldl_cons]
      have := ih (capPut max acc r) (pre ++ [r]) (by
        rw [capRows_snoc max h, ha]
        simp only [capPut]
        rw [capRows_capRows (max - 1) max (by omega)])
      rw [this]; simp
  have := gen rows [] [] (by simp [capRows])
  simpa using this

/-! ### the keyed `Put` (util/hmap `LinkedMap.put`, mode PUT_LAST, `max > 0`) -/

/-- `Put key value`: a key already in the table has its value replaced IN PLACE (no eviction, position
    kept); a new key first evicts from the front while `count >= max`, then is appended -/
def putK [BEq κ] (max : Nat) (acc : List (κ × β)) (kv : κ × β) : List (κ × β) :=
  if acc.any (fun e => e.1 == kv.1) then acc.map (fun e => if e.1 == kv.1 then (e.1, kv.2) else e)
  else capPut max acc kv

/-- **a wire table with pairwise distinct keys** (what a table writes) put row by row into a table
    bounded by `max` leaves exactly its last `max` rows, in order -/
theorem foldl_putK [BEq κ] [LawfulBEq κ] (max : Nat) (h : 1 ≤ max) (rows : List (κ × β))
    (hd : (rows.map (·.1)).Nodup) : rows.foldl (putK max) [] = capRows max rows := by
  have gen : ∀ (rs pre : List (κ × β)), ((pre ++ rs).map (·.1)).Nodup →
      rs.foldl (putK max) (capRows max pre) = capRows max (pre ++ rs) := by
    intro rs
    induction rs with
    | nil => intro pre _; simp
    | cons r rs ih =>
      intro pre hn
      simp only [List.foldl_cons]
      have hfresh : (capRows max pre).any (fun e => e.1 == r.1) = false := by
        rw [Bool.eq_false_iff]
        intro hany
        obtain ⟨e, he, hk⟩ := List.any_eq_true.mp hany
        obtain ⟨dropped, hpre⟩ := capRows_suffix max pre
        have hmem : e ∈ pre := by rw [hpre]; exact List.mem_append_right _ he
        have hk' : e.1 = r.1 := eq_of_beq hk
        rw [List.map_append, List.nodup_append] at hn
        have := hn.2.2 e.1 (List.mem_map_of_mem hmem) r.1 (by simp)
        exact this hk'
      have hput : putK max (capRows max pre) r = capRows max (pre ++ [r]) := by
        simp only [putK, hfresh, Bool.false_eq_true, if_false, capPut]
        rw [capRows_snoc max h, capRows_capRows (max - 1) max (by omega)]
      rw [hput]
      have := ih (pre ++ [r]) (by simpa using hn)
      simpa using this
  have := gen rows [] (by simpa using hd)
  simpa [capRows] using this

/-- a row whose key is already in the table changes that entry's value and nothing else: no row is
    evicted, the size stays -/
theorem putK_present_length [BEq κ] (max : Nat) (acc : List (κ × β)) (kv : κ × β)
    (h : acc.any (fun e => e.1 == kv.1) = true) : (putK max acc kv).length = acc.length := by
  simp [putK, h]

example : [(1, 10), (2, 20), (3, 30), (4, 40)].foldl (putK 3) [] = [(2, 20), (3, 30), (4, 40)] := by decide
example : [(1, 10), (2, 20), (1, 11), (3, 30)].foldl (putK 3) [] = [(1, 11), (2, 20), (3, 30)] := by decide

end Packs
