/-
  Golib.Packs.Irregular — layouts (in the IR of Golib.Layout.IR) of the packs whose bodies the
  translator does not transcribe: both the writer and the reader are written here, following the Go
  functions statement by statement, and `agrees` is decided for each pair (Props/C03Gen.lean).
  They are tied to the Go code by the correspondence harness (model bytes = Go bytes, model decode
  = Go decode, `harness/c03/driver.go`) and by the statement skeletons (Packs/Skeletons.lean).

  (SMBasePack is transcribed by the translator since the second deepening round: the writer takes the
   layouts of Cpu / Memory as parameters, the reader binds OS and dispatches — Gen.Packs.SMBasePack.)
  * StatGeneralPack   the cached table bytes travel as a 3-byte-length byte string; the table inside
                 (`writeTable`/`readTable`) is `StatGeneralTable`.
  * CounterPack1 every section, the four 9-marked meters, the deprecated okind meter, the unknown
                 caller section and the POid meter (with C05's writer fix), reader as repaired.
-/
import Golib.Layout.IR
import Golib.Gen.PackLayouts

namespace Packs.Irregular
open Layout

/-! ### StatGeneralPack -/

/-- PACK_STAT_GENERAL -/
def StatGeneralPack.l : L := .hdr (.fld "Id" .blob .any (.fld "dataBytes" .b24 .any .nil))
/-- PACK_STAT_GENERAL_1: a trailer blob with the data start time -/
def StatGeneralPack1.l : L :=
  .hdr (.fld "Id" .blob .any (.fld "dataBytes" .b24 .any (.wrap (.fld "DataStartTime" .dec .i64 .nil) .nil)))
/-- `writeTable` / `readTable`: what `dataBytes` holds -/
def StatGeneralTable.l : L :=
  .rep .i16 "data" (.fld "key" .blob .any (.fld "val" .anylist .any .nil)) .nil

/-! ### CounterPack1

  `Gen.Packs.CounterPack1.w` / `.r` are the transcriptions of `Write` / `Read`: every scalar field and the
  Netstat / Websocket / Extra sections come from the source; the statements the translator does not
  transcribe (helper calls, the DB-pool maps, the short arrays) are parameters (`g0 … : L → L`) whose
  texts are `CounterPack1.wGaps` / `.rGaps` (pinned in Packs/Skeletons.lean).  The sections below fill them. -/

def d32 (n : String) (rest : L) : L := .fld n .dec .i32 rest
def d64 (n : String) (rest : L) : L := .fld n .dec .i64 rest

def intIntMap (n : String) (rest : L) : L := .rep .dec n (d32 "key" (d32 "val" .nil)) rest

/-- time, count, error, active count of a meter: as written, and as read (`if ver >= 9 { Actx }`) -/
def meterW (rest : L) : L := d64 "Time" (d32 "Count" (d32 "Error" (d32 "Actx" rest)))
def meterR (rest : L) : L :=
  d64 "Time" (d32 "Count" (d32 "Error" (.ite ⟨.ge, "ver", 9⟩ (d32 "Actx" .nil) .nil rest)))

def poidEntry : L :=
  d64 "PCode" (d32 "Oid" (d64 "Time" (d32 "Count" (d32 "Error" (.fld "Acts" .a8I16 .any (d32 "Actx" .nil))))))

/-- `writeShortArray(dout, this.ActSvcSlice)` / `this.ActSvcSlice = this.readShortArray(din)` -/
def secActSvc (r : L) : L := .fld "ActSvcSlice" .a8I16 .any r
/-- the DB-pool maps: one presence byte, then `IntIntMap.ToBytes` twice / `ToObject` twice -/
def secDbNum (r : L) : L := .opt "DbNum" (intIntMap "DbNumActive" (intIntMap "DbNumIdle" .nil)) r
/-- `WriteByte(byte(sz))` + shorts / `sz := ReadByte()` + `append(ReadShort())` -/
def secActiveStat (r : L) : L := .fld "ActiveStat" .a8I16 .any r

/-- writeTxcallerOidMeter, writeSqlMeter, writeHttpcMeter, writeTxcallerGroupMeter -/
def secMetersW (r : L) : L :=
  .mrep 9 "TxcallerOidMeter" (.fld "key" .i32 .i32 (meterW .nil))
  (.mrep 9 "SqlMeter" (.fld "key" .i32 .i32 (meterW (d64 "FetchCount" (d64 "FetchTime" .nil))))
  (.mrep 9 "HttpcMeter" (.fld "key" .i32 .i32 (meterW .nil))
  (.mrep 9 "TxcallerGroupMeter" (d64 "PCode" (d32 "OKind" (meterW .nil))) r)))
/-- writeTxcallerOther -/
def secUnknownW (r : L) : L := .mopt 2 "TxcallerUnknown" (.sub "TxcallerUnknown" (meterW .nil) .nil) r
/-- writeTxcallerPOidMeter (with C05's fix: `writeShortArray(dout, m.Acts)`) -/
def secPOidW (r : L) : L := .rep .dec "TxcallerPOidMeter" poidEntry r

/-- readTxcallerOidMeter, readSqlMeter, readHttpcMeter, readTxcallerGroupMeter,
    readTxcallerOkindMeterDeprecated, readTxcallerUnknown -/
def secMetersR (r : L) : L :=
  .vrep "ver" "TxcallerOidMeter" (.fld "key" .i32 .i32 (meterR .nil))
  (.vrep "ver" "SqlMeter" (.fld "key" .i32 .i32 (meterR (d64 "FetchCount" (d64 "FetchTime" .nil))))
  (.vrep "ver" "HttpcMeter" (.fld "key" .i32 .i32 (meterR .nil))
  (.vrep "ver" "TxcallerGroupMeter"
    (d64 "PCode" (.ite ⟨.le, "ver", 8⟩ (d64 "Time" (d32 "Count" (d32 "Error" .nil)))
      (d32 "OKind" (d64 "Time" (d32 "Count" (d32 "Error" (d32 "Actx" .nil))))) .nil))
  (.srep .dec (.skip .i32 (.skip .dec (.skip .dec (.skip .dec .nil))))
  (.vopt "ver" "TxcallerUnknown"
    (.sub "TxcallerUnknown" (d64 "Time" (d32 "Count" (d32 "Error" (.ite ⟨.ge, "ver", 2⟩ (d32 "Actx" .nil) .nil .nil)))) .nil) r)))))
def secPOidR (r : L) : L := .vrep "ver" "TxcallerPOidMeter" poidEntry r

def CounterPack1.w : L :=
  Gen.Packs.CounterPack1.w secActSvc secDbNum secActiveStat secMetersW secUnknownW secPOidW

def CounterPack1.r : L :=
  Gen.Packs.CounterPack1.r secActSvc secDbNum secActiveStat secMetersR secPOidR

end Packs.Irregular
