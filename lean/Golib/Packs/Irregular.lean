/-
  Golib.Packs.Irregular — layouts (in the IR of Golib.Layout.IR) of the packs whose bodies the
  translator does not transcribe: both the writer and the reader are written here, following the Go
  functions statement by statement, and `agrees` is decided for each pair (Props/C03Gen.lean).
  They are tied to the Go code by the correspondence harness (model bytes = Go bytes, model decode
  = Go decode, `harness/c03/driver.go`) and by the statement skeletons (Packs/Skeletons.lean).

  * SMBasePack   `Write` dispatches on the dynamic type of `Cpu`/`Memory`, `Read` on `OS`: the writer
                 layout is given per OS class (`kfld "OS" k`), the reader binds OS to a local and
                 dispatches; the tail behind `Available() == 0` is `avail`.
  * StatGeneralPack   the cached table bytes travel as a 3-byte-length byte string; the table inside
                 (`writeTable`/`readTable`) is `StatGeneralTable`.
  * CounterPack1 every section, the four 9-marked meters, the deprecated okind meter, the unknown
                 caller section and the POid meter (with C05's writer fix), reader as repaired.
-/
import Golib.Layout.IR
import Golib.Gen.PackLayouts

namespace Packs.Irregular
open Layout

/-! ### SMBasePack -/

def extraTail : L := .opt "Extra" (.fld "Extra" .mapV .any .nil) .nil

/-- `SMBasePack.Write` for a pack whose OS is `os` and whose Cpu / CpuCore / Memory have layouts `cpu`, `mem` -/
def SMBasePack.w (os : Int) (cpu mem : L) : L :=
  .wrap (.hdr (.fld "IP" .i32 .i32 (.kfld "OS" .i16 os (.sub "Cpu" cpu (.rep .u8 "CpuCore" cpu
    (.sub "Memory" mem (.fld "UpTime" .dec .i64 (.fld "EpochTime" .i64 .i64 extraTail)))))))) .nil

def osSection (cpu mem : L) : L := .sub "Cpu" cpu (.rep .u8 "CpuCore" cpu (.sub "Memory" mem .nil))

/-- `SMBasePack.Read`: `switch this.OS { case LINUX(1), OSX(3), AIX(5), HPUX(4): …Linux; case WINDOW(2): …Window }`,
    no case for the other values -/
def SMBasePack.r (cpuL memL cpuW memW : L) : L :=
  .wrap (.hdr (.fld "IP" .i32 .i32 (.key "OS" .i16 "os"
    (.ite ⟨.eq, "os", 1⟩ (osSection cpuL memL)
      (.ite ⟨.eq, "os", 3⟩ (osSection cpuL memL)
        (.ite ⟨.eq, "os", 5⟩ (osSection cpuL memL)
          (.ite ⟨.eq, "os", 4⟩ (osSection cpuL memL)
            (.ite ⟨.eq, "os", 2⟩ (osSection cpuW memW) .nil .nil) .nil) .nil) .nil)
      (.fld "UpTime" .dec .i64 (.fld "EpochTime" .i64 .i64 (.avail extraTail))))))) .nil

/-! ### StatGeneralPack -/

/-- PACK_STAT_GENERAL -/
def StatGeneralPack.l : L := .hdr (.fld "Id" .blob .any (.fld "dataBytes" .b24 .any .nil))
/-- PACK_STAT_GENERAL_1: a trailer blob with the data start time -/
def StatGeneralPack1.l : L :=
  .hdr (.fld "Id" .blob .any (.fld "dataBytes" .b24 .any (.wrap (.fld "DataStartTime" .dec .i64 .nil) .nil)))
/-- `writeTable` / `readTable`: what `dataBytes` holds -/
def StatGeneralTable.l : L :=
  .rep .i16 "data" (.fld "key" .blob .any (.fld "val" .anylist .any .nil)) .nil

/-! ### CounterPack1 -/

def d32 (n : String) (rest : L) : L := .fld n .dec .i32 rest
def d64 (n : String) (rest : L) : L := .fld n .dec .i64 rest
def f32 (n : String) (rest : L) : L := .fld n .f32 .any rest

def intIntMap (n : String) (rest : L) : L := .rep .dec n (d32 "key" (d32 "val" .nil)) rest

/-- time, count, error (and the active count when `actx`) of a meter -/
def meterW (rest : L) : L := d64 "Time" (d32 "Count" (d32 "Error" (d32 "Actx" rest)))
def meterR (rest : L) : L :=
  d64 "Time" (d32 "Count" (d32 "Error" (.ite ⟨.ge, "ver", 9⟩ (d32 "Actx" .nil) .nil rest)))

/-- a sequence of items, each waiting for its continuation -/
def seq (items : List (L → L)) (rest : L) : L := items.foldr (fun f r => f r) rest

def head : L → L := seq [
  d32 "Duration", d64 "Cputime", d64 "HeapTot", d64 "HeapUse", d64 "HeapPerm", d32 "HeapPendingFinalization",
  d32 "GcCount", d64 "GcTime", d32 "ServiceCount", d32 "ServiceError", d64 "ServiceTime",
  d32 "SqlCount", d32 "SqlError", d64 "SqlTime", d64 "SqlFetchCount", d64 "SqlFetchTime",
  d32 "HttpcCount", d32 "HttpcError", d64 "HttpcTime", d32 "ActSvcCount", .fld "ActSvcSlice" .a8I16 .any,
  f32 "Cpu", f32 "CpuSys", f32 "CpuUsr", f32 "CpuWait", f32 "CpuSteal", f32 "CpuIrq", f32 "CpuProc",
  d32 "CpuCores", f32 "Mem", f32 "Swap", f32 "Disk",
  d64 "ThreadTotalStarted", d32 "ThreadCount", d32 "ThreadDaemon", d32 "ThreadPeakCount",
  .opt "DbNum" (intIntMap "DbNumActive" (intIntMap "DbNumIdle" .nil)),
  .opt "Netstat" (.sub "Netstat" (d32 "Est" (d32 "FinW" (d32 "CloW" (d32 "TimW" .nil)))) .nil),
  d32 "ProcFd", f32 "Tps", d32 "RespTime", .fld "ApType" .i16 .i16,
  .opt "Websocket" (.sub "Websocket" (d32 "Count" (d64 "In" (d64 "Out" .nil))) .nil),
  d64 "Starttime", d64 "PackDropped", d32 "HostIp", d32 "MacHash",
  .opt "Extra" (.fld "Extra" .imapV .any .nil),
  .fld "Pid" .i32 .i32, .fld "ActiveStat" .a8I16 .any,
  d32 "ThreadPoolActiveCount", d32 "ThreadPoolQueueSize"]

def tailFields : L → L := seq [
  d32 "ContainerKey", f32 "TxDbcTime", f32 "TxSqlTime", f32 "TxHttpcTime", d32 "ApdexSatisfied", d32 "ApdexTolerated",
  f32 "ArrivalRate", d32 "GcOldgenCount", .fld "Version" .u8 .u8, d64 "HeapMax", d32 "ProcFdMax", f32 "Metering",
  d32 "ApdexTotal"]

def lastFields : L := d32 "Resp90" (d32 "Resp95" (d64 "TimeSqrSum" .nil))

def poidEntry : L :=
  d64 "PCode" (d32 "Oid" (d64 "Time" (d32 "Count" (d32 "Error" (.fld "Acts" .a8I16 .any (d32 "Actx" .nil))))))

/-- `CounterPack1.Write` (with `writeShortArray(dout, m.Acts)` in the POid meter) -/
def CounterPack1.w : L :=
  .hdr (.wrap (head
    (.mrep 9 "TxcallerOidMeter" (.fld "key" .i32 .i32 (meterW .nil))
    (.mrep 9 "SqlMeter" (.fld "key" .i32 .i32 (meterW (d64 "FetchCount" (d64 "FetchTime" .nil))))
    (.mrep 9 "HttpcMeter" (.fld "key" .i32 .i32 (meterW .nil))
    (.mrep 9 "TxcallerGroupMeter" (d64 "PCode" (d32 "OKind" (meterW .nil)))
    (.lit .dec 0
    (.mopt 2 "TxcallerUnknown" (.sub "TxcallerUnknown" (meterW .nil) .nil)
    (tailFields
    (.rep .dec "TxcallerPOidMeter" poidEntry lastFields))))))))) .nil)

/-- `CounterPack1.Read` with its helpers (`readTxcallerOidMeter`, `readSqlMeter`, `readHttpcMeter`,
    `readTxcallerGroupMeter`, `readTxcallerOkindMeterDeprecated`, `readTxcallerUnknown`,
    `readTxcallerPOidMeter`) inlined -/
def CounterPack1.r : L :=
  .hdr (.wrap (head
    (.vrep "ver" "TxcallerOidMeter" (.fld "key" .i32 .i32 (meterR .nil))
    (.vrep "ver" "SqlMeter" (.fld "key" .i32 .i32 (meterR (d64 "FetchCount" (d64 "FetchTime" .nil))))
    (.vrep "ver" "HttpcMeter" (.fld "key" .i32 .i32 (meterR .nil))
    (.vrep "ver" "TxcallerGroupMeter"
      (d64 "PCode" (.ite ⟨.le, "ver", 8⟩ (d64 "Time" (d32 "Count" (d32 "Error" .nil)))
        (d32 "OKind" (d64 "Time" (d32 "Count" (d32 "Error" (d32 "Actx" .nil))))) .nil))
    (.srep .dec (.skip .i32 (.skip .dec (.skip .dec (.skip .dec .nil))))
    (.vopt "ver" "TxcallerUnknown"
      (.sub "TxcallerUnknown" (d64 "Time" (d32 "Count" (d32 "Error" (.ite ⟨.ge, "ver", 2⟩ (d32 "Actx" .nil) .nil .nil)))) .nil)
    (tailFields
    (.vrep "ver" "TxcallerPOidMeter" poidEntry lastFields))))))))) .nil)

end Packs.Irregular
