/-
  Golib.Packs.Profile — ProfilePack: the common header (Golib.Layout.Header, C03) followed by the
  body that property C08 models and proves (`Step.profilePackBody`: the TxRecord behind its version
  byte 10 as a blob, then the step stream as a blob; Golib/Step/Layouts.lean, `Step.L.roundtrip`).
  Nothing of TxRecord is re-modelled here; the two round trips are composed.
-/
import Golib.Layout.Header
import Golib.Step.Roundtrip
import Golib.Step.Layouts
import Golib.Step.ValueInst

namespace Packs
open Layout _root_.Prim

def writeProfile (h : Hdr) (x : Step.Rec) : Bytes := encHeader h ++ Step.profilePackBody.write x

def readProfile (bs : Bytes) : Option ((Hdr × Step.Env) × Bytes) :=
  match P.run decHeader bs with
  | none => none
  | some (h, r) => (Step.profilePackBody.read [] r).map (fun (e, r') => ((h, e), r'))

/-- ProfilePack round trip: header (both forms) and every carried field of the transaction record
    (C08's `expect`, incl. the ErrorLevel defaulting) and the steps blob; exact consumption -/
theorem profile_roundtrip (h : Hdr) (x : Step.Rec) (rest : Bytes) (hh : h.WF)
    (hx : Step.profilePackBody.WF Step.valueRT x []) :
    readProfile (writeProfile h x ++ rest) = some ((h, Step.profilePackBody.expect x []), rest) := by
  unfold readProfile writeProfile
  rw [List.append_assoc, header_roundtrip h _ hh]
  simp only []
  rw [Step.L.roundtrip Step.valueRT _ x [] rest hx]
  rfl

end Packs
