/-
  Golib.Packs.Event — CodeModel of EventPack's attribute folding (lang/pack/EventPack.go).

  `Write` folds four fields into the attribute table before writing it:
      Uuid (only when non-empty) under "_uuid_", Escalation as "true"/"false" under "_esca_",
      Status and Otype in decimal (`fmt.Sprintf("%d")`) under "_status_" / "_otype_".
  `Read` loads the table and takes the four entries out again.  As found, `Read` tests
  `err != nil` the wrong way round and stores both numbers into `Otype` (candidate defect D21):
  `unfoldAsFound`.  With the proposed fix: `unfold`.

  The table is an association list in insertion order (`StringKeyLinkedMap.Put`: an existing key
  keeps its place).  Decimal text is modelled by explicit digit functions (`itoa`, `atoi`).
-/
import Golib.Basic

set_option linter.unusedSimpArgs false

namespace Packs.Event

abbrev Attrs := List (Bytes × Bytes)

def kEsca : Bytes := [95, 101, 115, 99, 97, 95]              -- "_esca_"
def kUuid : Bytes := [95, 117, 117, 105, 100, 95]            -- "_uuid_"
def kStatus : Bytes := [95, 115, 116, 97, 116, 117, 115, 95] -- "_status_"
def kOtype : Bytes := [95, 111, 116, 121, 112, 101, 95]      -- "_otype_"
def sTrue : Bytes := [116, 114, 117, 101]
def sFalse : Bytes := [102, 97, 108, 115, 101]

def reserved (k : Bytes) : Bool := k == kEsca || k == kUuid || k == kStatus || k == kOtype

/-! ### decimal text -/

def natDigits (n : Nat) : Bytes :=
  if h : n < 10 then [48 + n] else natDigits (n / 10) ++ [48 + n % 10]
termination_by n
decreasing_by omega

def itoa (v : Int) : Bytes := if v < 0 then 45 :: natDigits (-v).toNat else natDigits v.toNat

def atoiNat (ds : Bytes) : Option Nat :=
  ds.foldl (fun acc d => match acc with
    | none => none
    | some a => if 48 ≤ d ∧ d ≤ 57 then some (a * 10 + (d - 48)) else none) (some 0)

/-- `strconv.Atoi` on what `%d` produces (sign, then digits); `none` = error -/
def atoi (bs : Bytes) : Option Int :=
  match bs with
  | [] => none
  | d :: ds =>
    if d = 45 then (if ds = [] then none else (atoiNat ds).map (fun n => -(n : Int)))
    else (atoiNat (d :: ds)).map (fun n => (n : Int))

theorem atoiNat_append (a : Bytes) (d : Nat) :
    atoiNat (a ++ [d]) = match atoiNat a with
      | none => none
      | some x => if 48 ≤ d ∧ d ≤ 57 then some (x * 10 + (d - 48)) else none := by
  simp [atoiNat, List.foldl_append]

theorem atoiNat_natDigits (n : Nat) : atoiNat (natDigits n) = some n := by
  induction n using Nat.strongRecOn with
  | _ n ih =>
    rw [natDigits]
    split
    · rename_i h
      simp [atoiNat]
      omega
    · rename_i h
      rw [atoiNat_append, ih (n / 10) (by omega)]
      have : 48 ≤ 48 + n % 10 ∧ 48 + n % 10 ≤ 57 := by omega
      simp only [this, and_self, if_true]
      congr 1
      omega

theorem natDigits_ne_nil (n : Nat) : natDigits n ≠ [] := by
  rw [natDigits]; split <;> simp

theorem natDigits_head (n : Nat) : (natDigits n).head? ≠ some 45 := by
  induction n using Nat.strongRecOn with
  | _ n ih =>
    rw [natDigits]
    split
    · simp; omega
    · have := ih (n / 10) (by omega)
      have hne := natDigits_ne_nil (n / 10)
      cases hd : natDigits (n / 10) with
      | nil => exact absurd hd hne
      | cons a as => rw [hd] at this; simpa using this

theorem atoi_itoa (v : Int) : atoi (itoa v) = some v := by
  unfold itoa
  split
  · rename_i h
    have hne := natDigits_ne_nil (-v).toNat
    have hv := Int.toNat_of_nonneg (show 0 ≤ -v by omega)
    simp only [atoi, if_true, hne, if_false, atoiNat_natDigits]
    show Option.map (fun n : Nat => -(n : Int)) (some (-v).toNat) = some v
    simp only [Option.map_some]
    rw [hv]; simp
  · rename_i h
    have hh := natDigits_head v.toNat
    have hne := natDigits_ne_nil v.toNat
    have hv := Int.toNat_of_nonneg (show 0 ≤ v by omega)
    cases hd : natDigits v.toNat with
    | nil => exact absurd hd hne
    | cons a as =>
      rw [hd] at hh
      have ha : a ≠ 45 := by simpa using hh
      simp only [atoi, ha, if_false]
      rw [← hd, atoiNat_natDigits]
      simp [hv]

/-! ### the table -/

def put (a : Attrs) (k v : Bytes) : Attrs :=
  if a.any (fun p => p.1 == k) then a.map (fun p => if p.1 == k then (p.1, v) else p) else a ++ [(k, v)]

/-- `Attr.Remove(k)`: the value (nil when absent) and the table without the key -/
def remove (a : Attrs) (k : Bytes) : Option Bytes × Attrs := (a.lookup k, a.filter (fun p => p.1 != k))

structure Ev where
  uuid : Bytes
  esc : Bool
  status : Int
  otype : Int
  attrs : Attrs
deriving DecidableEq, Repr

/-- `EventPack.Write`: the table as it goes on the wire -/
def fold (e : Ev) : Attrs :=
  let a := if e.uuid ≠ [] then put e.attrs kUuid e.uuid else e.attrs
  let a := put a kEsca (if e.esc then sTrue else sFalse)
  let a := put a kStatus (itoa e.status)
  put a kOtype (itoa e.otype)

/-- `EventPack.Read` with the proposed fix, on a fresh pack (Uuid "", Escalation false, 0, 0) -/
def unfold (a : Attrs) : Ev :=
  let (ve, a) := remove a kEsca
  let esc := match ve with | some v => v == sTrue | none => false
  let (vu, a) := remove a kUuid
  let uuid := vu.getD []
  let (vo, a) := remove a kOtype
  let otype := match vo with | some v => (atoi v).getD 0 | none => 0
  let (vs, a) := remove a kStatus
  let status := match vs with | some v => (atoi v).getD 0 | none => 0
  ⟨uuid, esc, status, otype, a⟩

/-- `EventPack.Read` as found: `if err != nil { Otype = v } else { Otype = 0 }` for both keys -/
def unfoldAsFound (a : Attrs) : Ev :=
  let (ve, a) := remove a kEsca
  let esc := match ve with | some v => v == sTrue | none => false
  let (vu, a) := remove a kUuid
  let uuid := vu.getD []
  let (vo, a) := remove a kOtype
  let otype := match vo with | some v => (match atoi v with | none => 0 | some _ => 0) | none => 0
  let (vs, a) := remove a kStatus
  -- the status entry is parsed and (on error) stored into Otype; Status itself is never assigned
  let otype := match vs with | some v => (match atoi v with | none => 0 | some _ => 0) | none => otype
  ⟨uuid, esc, 0, otype, a⟩

/-! ### folding then unfolding -/

def noReserved (a : Attrs) : Prop := ∀ p ∈ a, reserved p.1 = false

theorem any_false_of_noReserved (a : Attrs) (k : Bytes) (hk : reserved k = true) (h : noReserved a) :
    a.any (fun p => p.1 == k) = false := by
  rw [List.any_eq_false]
  intro p hp heq
  have := h p hp
  have e : p.1 = k := by simpa using heq
  rw [e, hk] at this
  cases this

theorem lookup_append_of_noReserved (a r : Attrs) (k : Bytes) (hk : reserved k = true) (h : noReserved a) :
    (a ++ r).lookup k = r.lookup k := by
  induction a with
  | nil => rfl
  | cons p ps ih =>
    have hp := h p (by simp)
    have hne : (k == p.1) = false := by
      cases hkp : (k == p.1) with
      | false => rfl
      | true =>
        have e : k = p.1 := by simpa using hkp
        rw [← e, hk] at hp; cases hp
    obtain ⟨pk, pv⟩ := p
    simp only [List.cons_append, List.lookup_cons]
    simp only at hne
    rw [hne]
    exact ih (fun q hq => h q (by simp [hq]))

theorem filter_append_of_noReserved (a r : Attrs) (k : Bytes) (hk : reserved k = true) (h : noReserved a) :
    (a ++ r).filter (fun p => p.1 != k) = a ++ r.filter (fun p => p.1 != k) := by
  rw [List.filter_append]
  congr 1
  rw [List.filter_eq_self]
  intro p hp
  have := h p hp
  cases hpk : (p.1 == k) with
  | false => simp [hpk]; intro e; rw [e] at hpk; simp at hpk
  | true =>
    have e : p.1 = k := by simpa using hpk
    rw [e, hk] at this; cases this

/-- the reserved tail that `Write` appends to a table without reserved keys -/
def tail (e : Ev) : Attrs :=
  (if e.uuid ≠ [] then [(kUuid, e.uuid)] else []) ++
    [(kEsca, if e.esc then sTrue else sFalse), (kStatus, itoa e.status), (kOtype, itoa e.otype)]

theorem put_append_fresh (a r : Attrs) (k v : Bytes) (hk : reserved k = true) (h : noReserved a)
    (hr : r.any (fun p => p.1 == k) = false) : put (a ++ r) k v = a ++ (r ++ [(k, v)]) := by
  unfold put
  rw [List.any_append, any_false_of_noReserved a k hk h, hr]
  simp

theorem fold_eq (e : Ev) (h : noReserved e.attrs) : fold e = e.attrs ++ tail e := by
  unfold fold tail
  by_cases hu : e.uuid = []
  · simp only [hu, ne_eq, not_true_eq_false, if_false, List.nil_append]
    have s1 := put_append_fresh e.attrs [] kEsca (if e.esc then sTrue else sFalse) (by decide) h (by simp)
    simp only [List.append_nil, List.nil_append] at s1
    rw [s1]
    rw [put_append_fresh e.attrs _ kStatus _ (by decide) h (by simp [kEsca, kUuid, kStatus, kOtype])]
    rw [put_append_fresh e.attrs _ kOtype _ (by decide) h (by simp [kEsca, kUuid, kStatus, kOtype])]
    simp
  · simp only [ne_eq, hu, not_false_eq_true, if_true]
    have s0 := put_append_fresh e.attrs [] kUuid e.uuid (by decide) h (by simp)
    simp only [List.append_nil, List.nil_append] at s0
    rw [s0]
    rw [put_append_fresh e.attrs _ kEsca _ (by decide) h (by simp [kEsca, kUuid, kStatus, kOtype])]
    rw [put_append_fresh e.attrs _ kStatus _ (by decide) h (by simp [kEsca, kUuid, kStatus, kOtype])]
    rw [put_append_fresh e.attrs _ kOtype _ (by decide) h (by simp [kEsca, kUuid, kStatus, kOtype])]
    simp

theorem beq_kEsca_kEsca : (kEsca == kEsca) = true := by decide
theorem bne_kEsca_kEsca : (kEsca != kEsca) = false := by decide
theorem beq_kEsca_kUuid : (kEsca == kUuid) = false := by decide
theorem bne_kEsca_kUuid : (kEsca != kUuid) = true := by decide
theorem beq_kEsca_kStatus : (kEsca == kStatus) = false := by decide
theorem bne_kEsca_kStatus : (kEsca != kStatus) = true := by decide
theorem beq_kEsca_kOtype : (kEsca == kOtype) = false := by decide
theorem bne_kEsca_kOtype : (kEsca != kOtype) = true := by decide
theorem beq_kUuid_kEsca : (kUuid == kEsca) = false := by decide
theorem bne_kUuid_kEsca : (kUuid != kEsca) = true := by decide
theorem beq_kUuid_kUuid : (kUuid == kUuid) = true := by decide
theorem bne_kUuid_kUuid : (kUuid != kUuid) = false := by decide
theorem beq_kUuid_kStatus : (kUuid == kStatus) = false := by decide
theorem bne_kUuid_kStatus : (kUuid != kStatus) = true := by decide
theorem beq_kUuid_kOtype : (kUuid == kOtype) = false := by decide
theorem bne_kUuid_kOtype : (kUuid != kOtype) = true := by decide
theorem beq_kStatus_kEsca : (kStatus == kEsca) = false := by decide
theorem bne_kStatus_kEsca : (kStatus != kEsca) = true := by decide
theorem beq_kStatus_kUuid : (kStatus == kUuid) = false := by decide
theorem bne_kStatus_kUuid : (kStatus != kUuid) = true := by decide
theorem beq_kStatus_kStatus : (kStatus == kStatus) = true := by decide
theorem bne_kStatus_kStatus : (kStatus != kStatus) = false := by decide
theorem beq_kStatus_kOtype : (kStatus == kOtype) = false := by decide
theorem bne_kStatus_kOtype : (kStatus != kOtype) = true := by decide
theorem beq_kOtype_kEsca : (kOtype == kEsca) = false := by decide
theorem bne_kOtype_kEsca : (kOtype != kEsca) = true := by decide
theorem beq_kOtype_kUuid : (kOtype == kUuid) = false := by decide
theorem bne_kOtype_kUuid : (kOtype != kUuid) = true := by decide
theorem beq_kOtype_kStatus : (kOtype == kStatus) = false := by decide
theorem bne_kOtype_kStatus : (kOtype != kStatus) = true := by decide
theorem beq_kOtype_kOtype : (kOtype == kOtype) = true := by decide
theorem bne_kOtype_kOtype : (kOtype != kOtype) = false := by decide

/-- **EventPack attribute folding round-trips** (fixed reader): uuid, escalation, status, otype and
    the user attributes come back unchanged, for every table without the four reserved keys -/
theorem unfold_fold (e : Ev) (h : noReserved e.attrs) : unfold (fold e) = e := by
  rw [fold_eq e h]
  obtain ⟨uuid, esc, status, otype, attrs⟩ := e
  simp only at h
  unfold unfold remove
  simp only [lookup_append_of_noReserved attrs _ _ (by decide : reserved kEsca = true) h,
    filter_append_of_noReserved attrs _ _ (by decide : reserved kEsca = true) h,
    lookup_append_of_noReserved attrs _ _ (by decide : reserved kUuid = true) h,
    filter_append_of_noReserved attrs _ _ (by decide : reserved kUuid = true) h,
    lookup_append_of_noReserved attrs _ _ (by decide : reserved kOtype = true) h,
    filter_append_of_noReserved attrs _ _ (by decide : reserved kOtype = true) h,
    lookup_append_of_noReserved attrs _ _ (by decide : reserved kStatus = true) h,
    filter_append_of_noReserved attrs _ _ (by decide : reserved kStatus = true) h]
  unfold tail
  have hst : (sTrue == sTrue) = true := by decide
  have hsf : (sFalse == sTrue) = false := by decide
  by_cases hu : uuid = []
  · subst hu
    cases esc <;>
      simp [List.lookup, List.filter, beq_kEsca_kEsca, bne_kEsca_kEsca, beq_kEsca_kUuid, bne_kEsca_kUuid, beq_kEsca_kStatus, bne_kEsca_kStatus, beq_kEsca_kOtype, bne_kEsca_kOtype, beq_kUuid_kEsca, bne_kUuid_kEsca, beq_kUuid_kUuid, bne_kUuid_kUuid, beq_kUuid_kStatus, bne_kUuid_kStatus, beq_kUuid_kOtype, bne_kUuid_kOtype, beq_kStatus_kEsca, bne_kStatus_kEsca, beq_kStatus_kUuid, bne_kStatus_kUuid, beq_kStatus_kStatus, bne_kStatus_kStatus, beq_kStatus_kOtype, bne_kStatus_kOtype, beq_kOtype_kEsca, bne_kOtype_kEsca, beq_kOtype_kUuid, bne_kOtype_kUuid, beq_kOtype_kStatus, bne_kOtype_kStatus, beq_kOtype_kOtype, bne_kOtype_kOtype, hst, hsf, atoi_itoa]
  · cases esc <;>
      simp [hu, List.lookup, List.filter, beq_kEsca_kEsca, bne_kEsca_kEsca, beq_kEsca_kUuid, bne_kEsca_kUuid, beq_kEsca_kStatus, bne_kEsca_kStatus, beq_kEsca_kOtype, bne_kEsca_kOtype, beq_kUuid_kEsca, bne_kUuid_kEsca, beq_kUuid_kUuid, bne_kUuid_kUuid, beq_kUuid_kStatus, bne_kUuid_kStatus, beq_kUuid_kOtype, bne_kUuid_kOtype, beq_kStatus_kEsca, bne_kStatus_kEsca, beq_kStatus_kUuid, bne_kStatus_kUuid, beq_kStatus_kStatus, bne_kStatus_kStatus, beq_kStatus_kOtype, bne_kStatus_kOtype, beq_kOtype_kEsca, bne_kOtype_kEsca, beq_kOtype_kUuid, bne_kOtype_kUuid, beq_kOtype_kStatus, bne_kOtype_kStatus, beq_kOtype_kOtype, bne_kOtype_kOtype, hst, hsf, atoi_itoa]

/-- witness for D21: with the reader as found, Status 5 comes back as 0 -/
theorem finding_D21 : unfoldAsFound (fold ⟨[], false, 5, 7, []⟩) ≠ ⟨[], false, 5, 7, []⟩ := by
  decide

end Packs.Event
