/-
  Golib.Packs.Skeletons — expected statement skeletons of the irregular pack functions
  (hand-modelled in Golib/Packs/*.lean or covered by the correspondence harness only).
  A skeleton lists, in source order, every statement that touches a stream or a field of the
  receiver, as normalised source text.  Props/C03GenSkel.lean demands that the skeleton regenerated
  from lang/pack on every run equals the one recorded here: an edit of one of these functions is
  seen by tie A even though its body is not transcribed to the IR (then the model/harness must be
  re-tied and this file updated — `python3 xlate/c03/mkgolden.py`).
-/

namespace Packs.Skeletons

def AbstractPack_Write : List String :=
  ["if (this.Okind | this.Onode) == 0 {", "dout.WriteDecimal(this.Pcode)", "dout.WriteInt(this.Oid)", "dout.WriteLong(this.Time)", "} else {", "dout.WriteByte(9)", "dout.WriteDecimal(this.Pcode)", "dout.WriteInt(this.Oid)", "dout.WriteInt(this.Okind)", "dout.WriteInt(this.Onode)", "dout.WriteLong(this.Time)", "}"]

def AbstractPack_Read : List String :=
  ["ver := din.ReadByte()", "if ver <= 8 {", "this.Pcode = din.ReadDecimalLen(int(ver))", "this.Oid = din.ReadInt()", "this.Time = din.ReadLong()", "return", "}", "this.Pcode = din.ReadDecimal()", "this.Oid = din.ReadInt()", "this.Okind = din.ReadInt()", "this.Onode = din.ReadInt()", "this.Time = din.ReadLong()"]

def WritePack : List String :=
  ["out.WriteShort(int16(p.GetPackType()))", "p.Write(out)", "return out"]

def ReadPack : List String :=
  ["t := in.ReadShort()", "v.Read(in)", "return v"]

def ToBytesPack : List String :=
  ["out := io.NewDataOutputX()", "WritePack(out, p)", "return out.ToByteArray()"]

def LogSinkPack_GetContentBytes : List String :=
  ["out := io.NewDataOutputX()", "out.WriteByte(1)", "out.WriteText(this.Content)", "out.WriteDecimal(this.Line)", "return out.ToByteArray()"]

def LogSinkPack_SetContentBytes : List String :=
  ["defer", "if d == nil || len(d) < 1 {", "return", "}", "in := io.NewDataInputX(d)", "ver := in.ReadByte()", "if ver == 1 {", "this.Content = in.ReadText()", "this.Line = in.ReadDecimal()", "}"]

def ToBytesPackECB : List String :=
  ["out := io.NewDataOutputX()", "WritePack(out, p)", "remainder := out.Size() % fmtLen", "if remainder != 0 {", "b := make([]byte, fmtLen-remainder)", "out.Write(b, 0, len(b))", "}", "return out.ToByteArray()"]

def ToPack : List String :=
  ["in := io.NewDataInputX(b)", "return ReadPack(in)"]

def LogSinkPack_ResetTagHash : List String :=
  ["out := io.NewDataOutputX()", "value.WriteMapValue(out, this.Tags)", "tagBytes := out.ToByteArray()", "this.TagHash = hash.Hash64(tagBytes)", "return tagBytes"]

def toHeaderBytes : List String :=
  ["dout.WriteDecimal(int64(m.Size()))", "en := m.Entries()", "for en.HasMoreElements() {", "dout.WriteText(e.GetKey())", "dout.WriteInt(e.GetValue())", "}"]

def toHeaderObject : List String :=
  ["cnt := int(in.ReadDecimal())", "for i < cnt {", "key := in.ReadText()", "value := in.ReadInt()", "}", "return m"]

def CompositePack_Write : List String :=
  ["this.AbstractPack.Write(dout)", "sz := len(this.pack)", "dout.WriteShort(int16(sz))", "for i < sz {", "WritePack(dout, this.pack[i])", "}"]

def CompositePack_Read : List String :=
  ["this.AbstractPack.Read(din)", "sz := int(din.ReadShort())", "din.CheckCount(sz, 2)", "this.pack = []Pack{}", "for i < sz {", "this.pack = append(this.pack, ReadPack(din))", "}"]

def HitMapPack1_Write : List String :=
  ["this.AbstractPack.Write(dout)", "dout.WriteByte(1)", "for i < HITMAP_LENGTH {", "dout.WriteShort(int16(this.Hit[i]))", "dout.WriteShort(int16(this.Error[i]))", "}"]

def HitMapPack1_Read : List String :=
  ["this.AbstractPack.Read(din)", "ver := din.ReadByte()", "if ver == 1 {", "this.Hit = make([]int32, HITMAP_LENGTH)", "this.Error = make([]int32, HITMAP_LENGTH)", "for i < HITMAP_LENGTH {", "this.Hit[i] = int32(din.ReadShort()) & 0xffff", "this.Error[i] = int32(din.ReadShort()) & 0xffff", "}", "}"]

def ProfilePack_Write : List String :=
  ["this.AbstractPack.Write(dout)", "this.Transaction.Write(dout)", "dout.WriteBlob(this.Steps)"]

def ProfilePack_Read : List String :=
  ["this.AbstractPack.Read(din)", "this.Transaction = service.NewTxRecord().Read(din)", "this.Steps = din.ReadBlob()"]

def StatGeneralPack_Write : List String :=
  ["this.AbstractPack.Write(dout)", "dout.WriteText(this.Id)", "if this.data.Size() > 0 && (this.dataBytes == nil || len(this.dataBytes) == 0) {", "this.dataBytes = this.writeTable(this.data)", "this.dataBytesSize = len(this.dataBytes)", "}", "dout.WriteInt3(int32(this.dataBytesSize))", "dout.WriteBytes(this.dataBytes)", "if this.packType == PACK_STAT_GENERAL {", "return", "}", "o := io.NewDataOutputX()", "o.WriteDecimal(this.DataStartTime)", "dout.WriteBlob(o.ToByteArray())"]

def StatGeneralPack_Read : List String :=
  ["this.AbstractPack.Read(din)", "this.Id = din.ReadText()", "this.dataBytesSize = int(din.ReadInt3())", "this.dataBytes = din.ReadBytes(int32(this.dataBytesSize))", "if this.packType == PACK_STAT_GENERAL {", "return", "}", "in := io.NewDataInputX(din.ReadBlob())", "this.DataStartTime = in.ReadDecimal()"]

def StatGeneralPack_writeTable : List String :=
  ["dd := io.NewDataOutputX()", "dd.WriteShort(int16(data.Size()))", "en := data.Entries()", "for en.HasMoreElements() {", "dd.WriteText(ent.GetKey())", "dd.WriteByte(ent.GetValue().(list.AnyList).GetType())", "ent.GetValue().(list.AnyList).Write(dd)", "}", "return dd.ToByteArray()"]

def StatGeneralPack_readTable : List String :=
  ["in := io.NewDataInputX(bytes)", "cnt := int(in.ReadShort())", "for i < cnt {", "key := in.ReadText()", "a := this.create(in.ReadByte())", "a.Read(in)", "data.Put(key, a)", "}", "return cnt"]

def StatGeneralPack_unpack : List String :=
  ["if len(this.dataBytes) > 0 {", "this.readTable(this.dataBytes, this.data)", "this.dataBytes = nil", "this.dataBytesSize = 0", "}"]

def CounterPack1_writeShortArray : List String :=
  ["if v == nil {", "out.WriteByte(0)", "} else {", "out.WriteByte(byte(len(v)))", "for i < len(v) {", "out.WriteShort(v[i])", "}", "}"]

def CounterPack1_readShortArray : List String :=
  ["sz := int(in.ReadByte())", "for i < sz {", "out[i] = in.ReadShort()", "}", "return out"]

def CounterPack1_ReadDropMap : List String :=
  ["cnt := int(in.ReadDecimal())", "for i < cnt {", "in.ReadDecimal()", "in.ReadDecimal()", "}"]

def CounterPack1_readTxcallerUnknown : List String :=
  ["ver := din.ReadByte()", "if ver > 0 {", "this.TxcallerUnknown = new(TxMeter)", "this.TxcallerUnknown.Time = din.ReadDecimal()", "this.TxcallerUnknown.Count = int32(din.ReadDecimal())", "this.TxcallerUnknown.Error = int32(din.ReadDecimal())", "if ver >= 2 {", "this.TxcallerUnknown.Actx = int32(din.ReadDecimal())", "}", "}"]

def CounterPack1_readTxcallerGroupMeter : List String :=
  ["ver := int(din.ReadByte())", "if ver == 0 {", "return", "}", "if ver <= 8 {", "count = int(din.ReadDecimalLen(ver))", "} else {", "count = int(din.ReadDecimal())", "}", "this.TxcallerGroupMeter = hmap.NewLinkedMapDefault()", "for i < count {", "m := new(TxMeter)", "pcode := din.ReadDecimal()", "if ver <= 8 {", "m.Time = din.ReadDecimal()", "m.Count = int32(din.ReadDecimal())", "m.Error = int32(din.ReadDecimal())", "this.TxcallerGroupMeter.Put(lang.NewPKIND(pcode, int32(0)), m)", "} else {", "okind := int32(din.ReadDecimal())", "m.Time = din.ReadDecimal()", "m.Count = int32(din.ReadDecimal())", "m.Error = int32(din.ReadDecimal())", "m.Actx = int32(din.ReadDecimal())", "this.TxcallerGroupMeter.Put(lang.NewPKIND(pcode, okind), m)", "}", "}"]

def CounterPack1_readTxcallerPOidMeter : List String :=
  ["ver := int(din.ReadByte())", "if ver == 0 {", "return", "}", "if ver <= 8 {", "count = int(din.ReadDecimalLen(ver))", "} else {", "count = int(din.ReadDecimal())", "}", "this.TxcallerPOidMeter = hmap.NewLinkedMapDefault()", "for i < count {", "m := new(TxMeter)", "pcode := din.ReadDecimal()", "oid := int32(din.ReadDecimal())", "m.Time = din.ReadDecimal()", "m.Count = int32(din.ReadDecimal())", "m.Error = int32(din.ReadDecimal())", "m.Acts = ReadShortArray(din, count)", "m.Actx = int32(din.ReadDecimal())", "this.TxcallerPOidMeter.Put(lang.NewPOID(pcode, oid), m)", "}"]

def CounterPack1_readTxcallerOkindMeterDeprecated : List String :=
  ["count := int(din.ReadDecimal())", "for i < count {", "m := new(TxMeter)", "din.ReadInt()", "m.Time = din.ReadDecimal()", "m.Count = int32(din.ReadDecimal())", "m.Error = int32(din.ReadDecimal())", "}"]

def CounterPack1_readHttpcMeter : List String :=
  ["ver := int(din.ReadByte())", "if ver == 0 {", "return", "}", "if ver <= 8 {", "count = int(din.ReadDecimalLen(ver))", "} else {", "count = int(din.ReadDecimal())", "}", "this.HttpcMeter = hmap.NewIntKeyLinkedMapDefault()", "for i < count {", "m := new(HttpcMeter)", "host := din.ReadInt()", "m.Time = din.ReadDecimal()", "m.Count = int32(din.ReadDecimal())", "m.Error = int32(din.ReadDecimal())", "if ver >= 9 {", "m.Actx = int32(din.ReadDecimal())", "}", "this.HttpcMeter.Put(host, m)", "}"]

def CounterPack1_readSqlMeter : List String :=
  ["ver := int(din.ReadByte())", "if ver == 0 {", "return", "}", "if ver <= 8 {", "count = int(din.ReadDecimalLen(ver))", "} else {", "count = int(din.ReadDecimal())", "}", "this.SqlMeter = hmap.NewIntKeyLinkedMapDefault()", "for i < count {", "m := new(SqlMeter)", "dbc := din.ReadInt()", "m.Time = din.ReadDecimal()", "m.Count = int32(din.ReadDecimal())", "m.Error = int32(din.ReadDecimal())", "if ver >= 9 {", "m.Actx = int32(din.ReadDecimal())", "}", "m.FetchCount = din.ReadDecimal()", "m.FetchTime = din.ReadDecimal()", "this.SqlMeter.Put(dbc, m)", "}"]

def CounterPack1_readTxcallerOidMeter : List String :=
  ["ver := int(din.ReadByte())", "if ver == 0 {", "return", "}", "if ver <= 8 {", "count = int(din.ReadDecimalLen(ver))", "} else {", "count = int(din.ReadDecimal())", "}", "this.TxcallerOidMeter = hmap.NewIntKeyLinkedMapDefault()", "for i < count {", "m := new(TxMeter)", "key := din.ReadInt()", "m.Time = din.ReadDecimal()", "m.Count = int32(din.ReadDecimal())", "m.Error = int32(din.ReadDecimal())", "if ver >= 9 {", "m.Actx = int32(din.ReadDecimal())", "}", "this.TxcallerOidMeter.Put(key, m)", "}"]

def CounterPack1_writeTxcallerOther : List String :=
  ["if this.TxcallerUnknown != nil {", "dout.WriteByte(2)", "dout.WriteDecimal(this.TxcallerUnknown.Time)", "dout.WriteDecimal(int64(this.TxcallerUnknown.Count))", "dout.WriteDecimal(int64(this.TxcallerUnknown.Error))", "dout.WriteDecimal(int64(this.TxcallerUnknown.Actx))", "} else {", "dout.WriteByte(0)", "}"]

def CounterPack1_writeTxcallerOidMeter : List String :=
  ["if this.TxcallerOidMeter == nil {", "dout.WriteDecimal(0)", "} else {", "dout.WriteByte(9)", "dout.WriteDecimal(int64(this.TxcallerOidMeter.Size()))", "en := this.TxcallerOidMeter.Entries()", "for en.HasMoreElements() {", "dout.WriteInt(ent.GetKey())", "dout.WriteDecimal(m.Time)", "dout.WriteDecimal(int64(m.Count))", "dout.WriteDecimal(int64(m.Error))", "dout.WriteDecimal(int64(m.Actx))", "}", "}"]

def CounterPack1_writeSqlMeter : List String :=
  ["if this.SqlMeter == nil {", "dout.WriteDecimal(0)", "} else {", "dout.WriteByte(9)", "dout.WriteDecimal(int64(this.SqlMeter.Size()))", "en := this.SqlMeter.Entries()", "for en.HasMoreElements() {", "dout.WriteInt(ent.GetKey())", "dout.WriteDecimal(m.Time)", "dout.WriteDecimal(int64(m.Count))", "dout.WriteDecimal(int64(m.Error))", "dout.WriteDecimal(int64(m.Actx))", "dout.WriteDecimal(int64(m.FetchCount))", "dout.WriteDecimal(int64(m.FetchTime))", "}", "}"]

def CounterPack1_writeHttpcMeter : List String :=
  ["if this.HttpcMeter == nil {", "dout.WriteDecimal(0)", "} else {", "dout.WriteByte(9)", "dout.WriteDecimal(int64(this.HttpcMeter.Size()))", "en := this.HttpcMeter.Entries()", "for en.HasMoreElements() {", "dout.WriteInt(ent.GetKey())", "dout.WriteDecimal(m.Time)", "dout.WriteDecimal(int64(m.Count))", "dout.WriteDecimal(int64(m.Error))", "dout.WriteDecimal(int64(m.Actx))", "}", "}"]

def CounterPack1_writeTxcallerGroupMeter : List String :=
  ["if this.TxcallerGroupMeter == nil {", "dout.WriteDecimal(0)", "} else {", "dout.WriteByte(9)", "dout.WriteDecimal(int64(this.TxcallerGroupMeter.Size()))", "en := this.TxcallerGroupMeter.Entries()", "for en.HasMoreElements() {", "dout.WriteDecimal(ent.GetKey().(*lang.PKIND).PCode)", "dout.WriteDecimal(int64(ent.GetKey().(*lang.PKIND).OKind))", "dout.WriteDecimal(m.Time)", "dout.WriteDecimal(int64(m.Count))", "dout.WriteDecimal(int64(m.Error))", "dout.WriteDecimal(int64(m.Actx))", "}", "}"]

def CounterPack1_writeTxcallerPOidMeter : List String :=
  ["if this.TxcallerPOidMeter == nil {", "dout.WriteDecimal(0)", "} else {", "dout.WriteDecimal(int64(this.TxcallerPOidMeter.Size()))", "en := this.TxcallerPOidMeter.Entries()", "for en.HasMoreElements() {", "dout.WriteDecimal(ent.GetKey().(*lang.POID).PCode)", "dout.WriteDecimal(int64(ent.GetKey().(*lang.POID).Oid))", "dout.WriteDecimal(m.Time)", "dout.WriteDecimal(int64(m.Count))", "dout.WriteDecimal(int64(m.Error))", "this.writeShortArray(dout, m.Acts)", "dout.WriteDecimal(int64(m.Actx))", "}", "}"]

def ReadShortArray : List String :=
  ["len := int(din.ReadByte())", "for i < len {", "arr[i] = din.ReadShort()", "}", "return arr"]

def ZipPack_SetRecords : List String :=
  ["this.RecordCount = len(items)", "o := io.NewDataOutputX()", "for range items {", "o = WritePack(o, it)", "}", "this.Records = o.ToByteArray()", "return this"]

def ZipPack_GetRecords : List String :=
  ["if this.Records == nil {", "return nil", "}", "in := io.NewDataInputX(this.Records)", "for i < this.RecordCount {", "p := ReadPack(in)", "p.SetPCODE(this.Pcode)", "p.SetOID(this.Oid)", "p.SetOKIND(this.Okind)", "p.SetONODE(this.Onode)", "}", "return items"]

def LogSinkZipPack_SetRecords : List String :=
  ["this.Records, _ = this.doZip(records, zipMinSize)"]

def LogSinkZipPack_doZip : List String :=
  ["if this.Status != UN_ZIPPED {", "return records, nil", "}", "if len(records) < zipMinSize {", "return records, nil", "}", "this.Status = ZIPPED", "return compressutil.DoZip(records)"]

def LogSinkZipPack_doUnZip : List String :=
  ["if this.Status != ZIPPED {", "return this.Records, nil", "}", "return compressutil.UnZip(this.Records)"]

def LogSinkZipPack_GetRecords : List String :=
  ["if this.Records == nil {", "return items", "}", "data, err := this.doUnZip()", "if err != nil {", "return items", "}", "in := io.NewDataInputX(data)", "for i < this.RecordCount {", "tmp := ReadPack(in)", "if tmp != nil {", "if p, ok := tmp.(*LogSinkPack); ok {", "p.Pcode = this.Pcode", "p.Oid = this.Oid", "p.Okind = this.Okind", "p.Onode = this.Onode", "}", "}", "}", "return items"]

def StatTransactionPack_SetRecords : List String :=
  ["o := io.NewDataOutputX()", "o.WriteShort(int16(size))", "for i < size {", "WriteTransactionRec(o, items.NextElement().(*TransactionRec), this.Version)", "}", "this.Records = o.ToByteArray()", "this.RecordCount = size", "return this"]

def StatTransactionPack_SetRecordsList : List String :=
  ["o := io.NewDataOutputX()", "size := items.Len()", "o.WriteShort(int16(size))", "for e != nil {", "WriteTransactionRec(o, e.Value.(*TransactionRec), this.Version)", "}", "this.Records = o.ToByteArray()", "this.RecordCount = size", "return this"]

def StatTransactionPack_GetRecords : List String :=
  ["if this.Records == nil {", "return nil", "}", "in := io.NewDataInputX(this.Records)", "size := int(in.ReadShort()) & 0xffff", "for i < size {", "items.PushBack(ReadTransactionRec(in))", "}", "return items"]

def StatTransactionPack1_SetRecords : List String :=
  ["o := io.NewDataOutputX()", "o.WriteShort(int16(size))", "for i < size {", "WriteTransactionRec(o, items.NextElement().(*TransactionRec), this.Version)", "}", "this.Records = o.ToByteArray()", "this.RecordCount = size", "return this"]

def StatTransactionPack1_SetRecordsList : List String :=
  ["o := io.NewDataOutputX()", "size := items.Len()", "o.WriteShort(int16(size))", "for e != nil {", "WriteTransactionRec(o, e.Value.(*TransactionRec), this.Version)", "}", "this.Records = o.ToByteArray()", "this.RecordCount = size", "return this"]

def StatTransactionPack1_GetRecords : List String :=
  ["if this.Records == nil {", "return nil", "}", "in := io.NewDataInputX(this.Records)", "size := int(in.ReadShort()) & 0xffff", "for i < size {", "items.PushBack(ReadTransactionRec(in))", "}", "return items"]

def StatSqlPack_SetRecords : List String :=
  ["o := io.NewDataOutputX()", "o.WriteShort(int16(size))", "for i < size {", "items.NextElement().(*SqlRec).Write(o)", "}", "this.Records = o.ToByteArray()", "this.RecordCount = int32(size)", "return this"]

def StatSqlPack_SetRecordsList : List String :=
  ["o := io.NewDataOutputX()", "o.WriteShort(int16(items.Len()))", "for e != nil {", "e.Value.(*SqlRec).Write(o)", "}", "this.Records = o.ToByteArray()", "this.RecordCount = int32(items.Len())", "return this"]

def StatSqlPack_GetRecords : List String :=
  ["if this.Records == nil {", "return items", "}", "in := io.NewDataInputX(this.Records)", "size := int(in.ReadShort()) & 0xffff", "for i < size {", "items.PushBack(NewSqlRec().Read(in))", "}", "return items"]

def StatHttpcPack_SetRecords : List String :=
  ["o := io.NewDataOutputX()", "o.WriteShort(int16(size))", "for i < size {", "items.NextElement().(*HttpcRec).Write(o)", "}", "this.Records = o.ToByteArray()", "this.RecordCount = int32(size)", "return this"]

def StatHttpcPack_SetRecordsList : List String :=
  ["o := io.NewDataOutputX()", "o.WriteShort(int16(items.Len()))", "for e != nil {", "e.Value.(*HttpcRec).Write(o)", "}", "this.Records = o.ToByteArray()", "this.RecordCount = int32(items.Len())", "return this"]

def StatHttpcPack_GetRecords : List String :=
  ["if this.Records == nil {", "return items", "}", "in := io.NewDataInputX(this.Records)", "size := int(in.ReadShort()) & 0xffff", "for i < size {", "items.PushBack(NewHttpcRec().Read(in))", "}", "return items"]

def StatErrorPack_SetRecords : List String :=
  ["out := io.NewDataOutputX()", "out.WriteShort(int16(size))", "for i < size {", "er := items.NextElement().(*ErrorRec)", "this.WriteRec(out, er)", "}", "this.Records = out.ToByteArray()", "this.RecordCount = int32(size)", "return this"]

def StatErrorPack_SetRecordsArray : List String :=
  ["out := io.NewDataOutputX()", "sz := len(items)", "out.WriteShort(int16(sz))", "for i < sz {", "this.WriteRec(out, items[i])", "}", "this.Records = out.ToByteArray()", "this.RecordCount = int32(sz)"]

def StatErrorPack_GetRecords : List String :=
  ["in := io.NewDataInputX(this.Records)", "sz := int(in.ReadShort()) & 0xffff", "in.CheckCount(sz, 18)", "for i < sz {", "items[i] = this.ReadRec(in)", "}", "return items"]

def StatServicePack_SetRecords : List String :=
  ["o := io.NewDataOutputX()", "o.WriteShort(int16(size))", "for i < size {", "this.WriteRec(o, items.NextElement().(*ServiceRec))", "}", "this.Records = o.ToByteArray()", "this.RecordCount = size", "return this"]

def StatServicePack_WriteRec : List String :=
  ["o.WriteInt(m.Hash)", "o.WriteBool(m.Profiled)", "o.WriteDecimal(int64(m.Count))", "o.WriteDecimal(int64(m.Error))", "o.WriteDecimal(int64(m.Actived))", "o.WriteDecimal(m.TimeSum)", "o.WriteDecimal(m.TimeStd)", "o.WriteDecimal(int64(m.TimeMin))", "o.WriteDecimal(int64(m.TimeMax))", "o.WriteDecimal(int64(m.SqlCount))", "o.WriteDecimal(m.SqlTime)", "o.WriteDecimal(int64(m.SqlFetch))", "o.WriteDecimal(m.SqlFetchTime)", "o.WriteDecimal(int64(m.SqlUpdateRecord))", "o.WriteDecimal(int64(m.SqlCommitCount))", "o.WriteDecimal(int64(m.SqlSelect))", "o.WriteDecimal(int64(m.SqlUpdate))", "o.WriteDecimal(int64(m.SqlDelete))", "o.WriteDecimal(int64(m.SqlInsert))", "o.WriteDecimal(int64(m.SqlOthers))", "o.WriteDecimal(int64(m.HttpcCount))", "o.WriteDecimal(m.HttpcTime)", "o.WriteDecimal(m.MallocSum)", "o.WriteDecimal(m.CpuSum)", "o.WriteDecimal(int64(m.Status200))", "o.WriteDecimal(int64(m.Status300))", "o.WriteDecimal(int64(m.Status400))", "o.WriteDecimal(int64(m.Status500))", "if m.SqlMap == nil {", "o.WriteDecimal(0)", "} else {", "o.WriteDecimal(int64(m.SqlMap.Size()))", "en := m.SqlMap.Entries()", "for en.HasMoreElements() {", "o.WriteInt(ent.GetKey())", "o.WriteDecimal(int64(ent.GetValue().(*TimeCount).Count))", "o.WriteDecimal(int64(ent.GetValue().(*TimeCount).Error))", "o.WriteDecimal(ent.GetValue().(*TimeCount).Time)", "}", "}", "if m.HttpcMap == nil {", "o.WriteDecimal(0)", "} else {", "o.WriteDecimal(int64(m.HttpcMap.Size()))", "en := m.HttpcMap.Entries()", "for en.HasMoreElements() {", "o.WriteInt(ent.GetKey())", "o.WriteDecimal(int64(ent.GetValue().(*TimeCount).Count))", "o.WriteDecimal(int64(ent.GetValue().(*TimeCount).Error))", "o.WriteDecimal(ent.GetValue().(*TimeCount).Time)", "}", "}"]

def ReadRec : List String :=
  ["m := NewServiceRec()", "m.Hash = in.ReadInt()", "m.Profiled = in.ReadBool()", "m.Count = int32(in.ReadDecimal())", "m.Error = int32(in.ReadDecimal())", "m.Actived = int32(in.ReadDecimal())", "m.TimeSum = in.ReadDecimal()", "m.TimeStd = in.ReadDecimal()", "m.TimeMin = int32(in.ReadDecimal())", "m.TimeMax = int32(in.ReadDecimal())", "m.SqlCount = int32(in.ReadDecimal())", "m.SqlTime = in.ReadDecimal()", "m.SqlFetch = int32(in.ReadDecimal())", "m.SqlFetchTime = in.ReadDecimal()", "m.SqlUpdateRecord = int32(in.ReadDecimal())", "m.SqlCommitCount = int32(in.ReadDecimal())", "m.SqlSelect = int32(in.ReadDecimal())", "m.SqlUpdate = int32(in.ReadDecimal())", "m.SqlDelete = int32(in.ReadDecimal())", "m.SqlInsert = int32(in.ReadDecimal())", "m.SqlOthers = int32(in.ReadDecimal())", "m.HttpcCount = int32(in.ReadDecimal())", "m.HttpcTime = in.ReadDecimal()", "m.MallocSum = in.ReadDecimal()", "m.CpuSum = in.ReadDecimal()", "m.Status200 = int32(in.ReadDecimal())", "m.Status300 = int32(in.ReadDecimal())", "m.Status400 = int32(in.ReadDecimal())", "m.Status500 = int32(in.ReadDecimal())", "sqlcnt := int(in.ReadDecimal())", "if sqlcnt > 0 {", "in.CheckCount(sqlcnt, 7)", "m.SqlMap = CreateMap(sqlcnt)", "for i < sqlcnt {", "hash := in.ReadInt()", "count := int32(in.ReadDecimal())", "err := int32(in.ReadDecimal())", "time := in.ReadDecimal()", "m.SqlMap.Put(hash, NewTimeCount(count, err, time))", "}", "}", "httpcnt := int(in.ReadDecimal())", "if httpcnt > 0 {", "in.CheckCount(httpcnt, 7)", "m.HttpcMap = CreateMap(httpcnt)", "for i < httpcnt {", "hash := in.ReadInt()", "count := int32(in.ReadDecimal())", "err := int32(in.ReadDecimal())", "time := in.ReadDecimal()", "m.HttpcMap.Put(hash, NewTimeCount(count, err, time))", "}", "}", "return m"]

def SMDownCheckPack_SetRecords : List String :=
  ["out := io.NewDataOutputX()", "sz := len(items)", "out.WriteShort(int16(sz))", "for i < sz {", "this.WriteRec(out, items[i])", "}", "this.Records = out.ToByteArray()", "this.RecordCount = int32(sz)"]

def SMDownCheckPack_GetRecords : List String :=
  ["in := io.NewDataInputX(this.Records)", "sz := int(in.ReadShort()) & 0xffff", "in.CheckCount(sz, 7)", "for i < sz {", "items[i] = this.ReadRec(in)", "}", "return items"]

def CounterPack1_wGaps : List String :=
  ["this.writeShortArray(dout, this.ActSvcSlice)", "if this.DbNumActive == nil || this.DbNumIdle == nil { dout.WriteByte(0) } else { dout.WriteByte(1) this.DbNumActive.ToBytes(dout) this.DbNumIdle.ToBytes(dout) }", "if this.ActiveStat != nil { sz = len(this.ActiveStat) } ; dout.WriteByte(byte(sz)) ; for i := 0; i < sz; i++ { dout.WriteShort(this.ActiveStat[i]) }", "this.writeTxcallerOidMeter(dout) ; this.writeSqlMeter(dout) ; this.writeHttpcMeter(dout) ; this.writeTxcallerGroupMeter(dout)", "this.writeTxcallerOther(dout)", "this.writeTxcallerPOidMeter(dout)"]

def CounterPack1_rGaps : List String :=
  ["this.ActSvcSlice = this.readShortArray(din)", "if din.ReadByte() != 0 { this.DbNumActive = hmap.NewIntIntMap(7, 1).ToObject(din) this.DbNumIdle = hmap.NewIntIntMap(7, 1).ToObject(din) }", "count(u8 sz); for i := 0; i < sz; i++ { this.ActiveStat = append(this.ActiveStat, din.ReadShort()) }", "this.readTxcallerOidMeter(din) ; this.readSqlMeter(din) ; this.readHttpcMeter(din) ; this.readTxcallerGroupMeter(din) ; this.readTxcallerOkindMeterDeprecated(din) ; this.readTxcallerUnknown(din)", "this.readTxcallerPOidMeter(din)"]

def TagCountPack_wGaps : List String :=
  ["if this.tagHash == 0 && this.Tags.Size() > 0 { tagIO := io.NewDataOutputX() value.WriteValue(tagIO, this.Tags) tagBytes := tagIO.ToByteArray() this.tagHash = hash.Hash64(tagBytes) dout.WriteDecimal(this.tagHash) dout.WriteBytes(tagBytes) } else { dout.WriteDecimal(this.tagHash) value.WriteValue(dout, this.Tags) }"]

def TagLogPack_wGaps : List String :=
  ["if this.tagHash == 0 && this.Tags.Size() > 0 { tagIO := io.NewDataOutputX() value.WriteValue(tagIO, this.Tags) tagBytes := tagIO.ToByteArray() this.tagHash = hash.Hash64(tagBytes) dout.WriteDecimal(this.tagHash) dout.WriteBytes(tagBytes) } else { dout.WriteDecimal(this.tagHash) value.WriteValue(dout, this.Tags) }"]

def LogSinkPack_wGaps : List String :=
  ["if this.TagHash == 0 && this.Tags.Size() > 0 { tagBytes := this.ResetTagHash() dout.WriteDecimal(this.TagHash) dout.WriteBytes(tagBytes) } else { dout.WriteDecimal(this.TagHash) value.WriteMapValue(dout, this.Tags) }"]

def ParamPack_wGaps : List String :=
  ["count(dec table); keys := this.Keys() ; for keys.HasMoreElements() { key := keys.NextString() value := this.table.Get(key).(val.Value) dout.WriteText(key) val.WriteValue(dout, value) }"]

def ParamPack_rGaps : List String :=
  ["count(dec count); for t := 0; t < count; t++ { key := din.ReadText() value := val.ReadValue(din) this.table.Put(key, value) }"]

def ExtensionPack_wGaps : List String :=
  ["toHeaderBytes(dout, this.Header)"]

def ExtensionPack_rGaps : List String :=
  ["this.Header = toHeaderObject(din)"]

def EventPack_wGaps : List String :=
  ["if this.Uuid != \"\" { this.Attr.Put(UUID_KEY, this.Uuid) } ; if this.Escalation { this.Attr.Put(ESCALATION_KEY, \"true\") } else { this.Attr.Put(ESCALATION_KEY, \"false\") } ; this.Attr.Put(STATUS_KEY, fmt.Sprintf(\"%d\", this.Status)) ; this.Attr.Put(OTYPE_KEY, fmt.Sprintf(\"%d\", this.Otype)) ; count(u8 Attr); for i := 0; i < sz; i++ { e := en.NextElement().(*hmap.StringKeyLinkedEntry) dout.WriteText(e.GetKey()) dout.WriteText(e.GetValue().(string)) } ; this.Attr.Remove(UUID_KEY) ; this.Attr.Remove(ESCALATION_KEY) ; this.Attr.Remove(STATUS_KEY) ; this.Attr.Remove(OTYPE_KEY)"]

def EventPack_rGaps : List String :=
  ["val := this.Attr.Remove(ESCALATION_KEY) ; if val != nil { if val.(string) == \"true\" { this.Escalation = true } else { this.Escalation = false } } ; val = this.Attr.Remove(UUID_KEY) ; if val != nil { this.Uuid = val.(string) } else { val = \"\" } ; val = this.Attr.Remove(OTYPE_KEY) ; if val != nil { v, err := strconv.Atoi(val.(string)) if err == nil { this.Otype = int32(v) } else { this.Otype = 0 } } ; val = this.Attr.Remove(STATUS_KEY) ; if val != nil { v, err := strconv.Atoi(val.(string)) if err == nil { this.Status = int32(v) } else { this.Status = 0 } }"]

end Packs.Skeletons
