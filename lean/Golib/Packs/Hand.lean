/-
  Golib.Packs.Hand — hand-written layouts (in the IR of Golib.Layout.IR) for the packs whose
  `Write` body is irregular, and two layout transformations used by the generated obligations.

  * `L.forget n`   the reader stores what it reads at field `n`, but the writer put a constant
                   there: the field is not carried; the reader is compared as if it discarded it.
  * `L.subst n v`  the writer layout at a fixed value `v` of its parameter `n` (the record version).

  Hand-written writer layouts (the reader side of each is transcribed by xlate/c03 and must agree
  with them — Props/C03Gen.lean; the writer side is tied to the Go code by the correspondence
  harness, bytes for bytes, and by the statement skeleton):

  * TagCountPack / TagLogPack / LogSinkPack: `Write` emits the tag hash and then the tag map; when
    the stored hash is 0 and there are tags it first computes `hash64(encoded tags)`, stores it and
    emits the pre-encoded bytes.  Both branches put the same two items on the wire:
    `decimal(hash') ++ value(tags)`, where `hash'` is the carried hash.  The record field
    `tagHash`/`TagHash` denotes the carried hash.
  * ParamPack, ExtensionPack: a count and a loop over a linked table through helper functions.
-/
import Golib.Layout.IR
import Golib.Gen.PackLayouts

namespace Layout

def L.forget (n : String) : L → L
  | .nil => .nil
  | .fld m p g rest => if m = n then .skip p (rest.forget n) else .fld m p g (rest.forget n)
  | .lit p v rest => .lit p v (rest.forget n)
  | .skip p rest => .skip p (rest.forget n)
  | .var m p rest => .var m p (rest.forget n)
  | .ite c t e rest => .ite c (t.forget n) (e.forget n) (rest.forget n)
  | .guard c rest => .guard c (rest.forget n)
  | .opt m b rest => .opt m (b.forget n) (rest.forget n)
  | .rep c m b rest => .rep c m (b.forget n) (rest.forget n)
  | .wrap b rest => .wrap (b.forget n) (rest.forget n)
  | .hdr rest => .hdr (rest.forget n)
  | .times k m b rest => .times k m (b.forget n) (rest.forget n)
  | .sub m b rest => .sub m (b.forget n) (rest.forget n)
  | .kfld m p k rest => .kfld m p k (rest.forget n)
  | .key m p v rest => .key m p v (rest.forget n)
  | .mopt k m b rest => .mopt k m (b.forget n) (rest.forget n)
  | .vopt v m b rest => .vopt v m (b.forget n) (rest.forget n)
  | .mrep k m b rest => .mrep k m (b.forget n) (rest.forget n)
  | .vrep v m b rest => .vrep v m (b.forget n) (rest.forget n)
  | .srep c b rest => .srep c (b.forget n) (rest.forget n)
  | .avail b => .avail (b.forget n)
  | .unknown w => .unknown w

def L.subst (n : String) (v : Int) : L → L
  | .nil => .nil
  | .fld m p g rest => .fld m p g (rest.subst n v)
  | .lit p u rest => .lit p u (rest.subst n v)
  | .skip p rest => .skip p (rest.subst n v)
  | .var m p rest => if m = n then .lit p v (rest.subst n v) else .var m p (rest.subst n v)
  | .ite c t e rest =>
      if c.var = n then (if c.test v then t.subst n v else e.subst n v).append (rest.subst n v)
      else .ite c (t.subst n v) (e.subst n v) (rest.subst n v)
  | .guard c rest => .guard c (rest.subst n v)
  | .opt m b rest => .opt m (b.subst n v) (rest.subst n v)
  | .rep c m b rest => .rep c m (b.subst n v) (rest.subst n v)
  | .wrap b rest => .wrap (b.subst n v) (rest.subst n v)
  | .hdr rest => .hdr (rest.subst n v)
  | .times k m b rest => .times k m (b.subst n v) (rest.subst n v)
  | .sub m b rest => .sub m (b.subst n v) (rest.subst n v)
  | .kfld m p k rest => .kfld m p k (rest.subst n v)
  | .key m p u rest => .key m p u (rest.subst n v)
  | .mopt k m b rest => .mopt k m (b.subst n v) (rest.subst n v)
  | .vopt u m b rest => .vopt u m (b.subst n v) (rest.subst n v)
  | .mrep k m b rest => .mrep k m (b.subst n v) (rest.subst n v)
  | .vrep u m b rest => .vrep u m (b.subst n v) (rest.subst n v)
  | .srep c b rest => .srep c (b.subst n v) (rest.subst n v)
  | .avail b => .avail (b.subst n v)
  | .unknown w => .unknown w

/-- the writer layout for records whose field `n` has the value `k` (the reader dispatches on it) -/
def L.pin (n : String) (k : Int) : L → L
  | .nil => .nil
  | .fld m p g rest => if m = n then .kfld m p k (rest.pin n k) else .fld m p g (rest.pin n k)
  | .lit p u rest => .lit p u (rest.pin n k)
  | .skip p rest => .skip p (rest.pin n k)
  | .var m p rest => .var m p (rest.pin n k)
  | .ite c t e rest => .ite c (t.pin n k) (e.pin n k) (rest.pin n k)
  | .guard c rest => .guard c (rest.pin n k)
  | .opt m b rest => .opt m b (rest.pin n k)
  | .rep c m b rest => .rep c m b (rest.pin n k)
  | .wrap b rest => .wrap (b.pin n k) (rest.pin n k)
  | .hdr rest => .hdr (rest.pin n k)
  | .times j m b rest => .times j m b (rest.pin n k)
  | .sub m b rest => .sub m b (rest.pin n k)
  | .kfld m p j rest => .kfld m p j (rest.pin n k)
  | .key m p v rest => .key m p v (rest.pin n k)
  | .mopt j m b rest => .mopt j m b (rest.pin n k)
  | .vopt v m b rest => .vopt v m b (rest.pin n k)
  | .mrep j m b rest => .mrep j m b (rest.pin n k)
  | .vrep v m b rest => .vrep v m b (rest.pin n k)
  | .srep c b rest => .srep c b (rest.pin n k)
  | .avail b => .avail (b.pin n k)
  | .unknown w => .unknown w

end Layout

namespace Packs.Hand
open Layout

/-- the tag section: `decimal(hash') value(tags)` on both branches of the writer's `if` (the gap `g0`) -/
def tagSection (hash : String) (r : L) : L := .fld hash .dec .i64 (.fld "Tags" .mapV .any r)

/-- the transcription of `Write`, its one untranscribed statement (the hash-then-map `if`) filled in -/
def TagCountPack.w : L := Gen.Packs.TagCountPack.w (tagSection "tagHash")
def TagLogPack.w : L := Gen.Packs.TagLogPack.w (tagSection "tagHash")
/-- `Fields` travels behind a presence flag that is set only when the map is non-nil and non-empty -/
def LogSinkPack.w : L := Gen.Packs.LogSinkPack.w (tagSection "TagHash")

/-- the parameter table: decimal count, then text key and tagged value per entry (a loop over `Keys()` / `Put`) -/
def paramTable (r : L) : L := .rep .dec "table" (.fld "key" .blob .any (.fld "val" .value .any .nil)) r
def ParamPack.w : L := Gen.Packs.ParamPack.w paramTable
def ParamPack.r : L := Gen.Packs.ParamPack.r paramTable
def ParamPack.l : L := ParamPack.w

/-- `toHeaderBytes` / `toHeaderObject`: decimal count, then text key and int per entry -/
def headerTable (r : L) : L := .rep .dec "Header" (.fld "key" .blob .any (.fld "val" .i32 .i32 .nil)) r
def ExtensionPack.w : L := Gen.Packs.ExtensionPack.w headerTable
def ExtensionPack.r : L := Gen.Packs.ExtensionPack.r headerTable

/-- EventPack on the wire: the attribute table as written, i.e. *after* `Write` has folded
    uuid / escalation / status / otype into it (Golib.Packs.Event models the folding) -/
def attrTable (r : L) : L := .rep .u8 "Attr" (.fld "key" .blob .any (.fld "val" .blob .any .nil)) r
/-- writer: the folding statements and the table loop are the gap; reader: the table loop is transcribed,
    the gap is the unfolding (no I/O: identity on the wire) -/
def EventPack.w : L := Gen.Packs.EventPack.w attrTable
def EventPack.r : L := Gen.Packs.EventPack.r (fun r => r)
def EventPack.l : L := EventPack.w

/-! ### LogSinkPack's content codec (`GetContentBytes` / `SetContentBytes`): a write/read pair of its own -/

/-- `GetContentBytes`: version byte 1, the content text, the line number -/
def LogSinkContent.w : L := .lit .u8 1 (.fld "Content" .blob .any (.fld "Line" .dec .i64 .nil))
/-- `SetContentBytes`: assigns Content and Line when the version byte is 1 (any other version: nothing) -/
def LogSinkContent.r : L :=
  .var "ver" .u8 (.ite ⟨.eq, "ver", 1⟩ (.fld "Content" .blob .any (.fld "Line" .dec .i64 .nil)) .nil .nil)

end Packs.Hand
