/-
  Golib.Packs.Hand — hand-written layouts (in the IR of Golib.Layout.IR) for the packs whose
  `Write` body is irregular, and two layout transformations used by the generated obligations.

  * `L.forget n`   the reader stores what it reads at field `n`, but the writer put a constant
                   there: the field is not carried; the reader is compared as if it discarded it.
  * `L.subst n v`  the writer layout at a fixed value `v` of its parameter `n` (the record version).

  Hand-written writer layouts (the reader side of each is transcribed by xlate/c03 and must agree
  with them — Props/C03Gen.lean; the writer side is tied to the Go code by the correspondence
  harness, bytes for bytes, and by the statement skeleton):

  * TagCountPack / TagLogPack / LogSinkPack: `Write` emits the tag hash and then the tag map; when
    the stored hash is 0 and there are tags it first computes `hash64(encoded tags)`, stores it and
    emits the pre-encoded bytes.  Both branches put the same two items on the wire:
    `decimal(hash') ++ value(tags)`, where `hash'` is the carried hash.  The record field
    `tagHash`/`TagHash` denotes the carried hash.
  * ParamPack, ExtensionPack: a count and a loop over a linked table through helper functions.
-/
import Golib.Layout.IR

namespace Layout

def L.forget (n : String) : L → L
  | .nil => .nil
  | .fld m p g rest => if m = n then .skip p (rest.forget n) else .fld m p g (rest.forget n)
  | .lit p v rest => .lit p v (rest.forget n)
  | .skip p rest => .skip p (rest.forget n)
  | .var m p rest => .var m p (rest.forget n)
  | .ite c t e rest => .ite c (t.forget n) (e.forget n) (rest.forget n)
  | .guard c rest => .guard c (rest.forget n)
  | .opt m b rest => .opt m (b.forget n) (rest.forget n)
  | .rep c m b rest => .rep c m (b.forget n) (rest.forget n)
  | .wrap b rest => .wrap (b.forget n) (rest.forget n)
  | .hdr rest => .hdr (rest.forget n)
  | .times k m b rest => .times k m (b.forget n) (rest.forget n)
  | .sub m b rest => .sub m (b.forget n) (rest.forget n)
  | .kfld m p k rest => .kfld m p k (rest.forget n)
  | .key m p v rest => .key m p v (rest.forget n)
  | .mopt k m b rest => .mopt k m (b.forget n) (rest.forget n)
  | .vopt v m b rest => .vopt v m (b.forget n) (rest.forget n)
  | .mrep k m b rest => .mrep k m (b.forget n) (rest.forget n)
  | .vrep v m b rest => .vrep v m (b.forget n) (rest.forget n)
  | .srep c b rest => .srep c (b.forget n) (rest.forget n)
  | .avail b => .avail (b.forget n)
  | .unknown w => .unknown w

def L.subst (n : String) (v : Int) : L → L
  | .nil => .nil
  | .fld m p g rest => .fld m p g (rest.subst n v)
  | .lit p u rest => .lit p u (rest.subst n v)
  | .skip p rest => .skip p (rest.subst n v)
  | .var m p rest => if m = n then .lit p v (rest.subst n v) else .var m p (rest.subst n v)
  | .ite c t e rest =>
      if c.var = n then (if c.test v then t.subst n v else e.subst n v).append (rest.subst n v)
      else .ite c (t.subst n v) (e.subst n v) (rest.subst n v)
  | .guard c rest => .guard c (rest.subst n v)
  | .opt m b rest => .opt m (b.subst n v) (rest.subst n v)
  | .rep c m b rest => .rep c m (b.subst n v) (rest.subst n v)
  | .wrap b rest => .wrap (b.subst n v) (rest.subst n v)
  | .hdr rest => .hdr (rest.subst n v)
  | .times k m b rest => .times k m (b.subst n v) (rest.subst n v)
  | .sub m b rest => .sub m (b.subst n v) (rest.subst n v)
  | .kfld m p k rest => .kfld m p k (rest.subst n v)
  | .key m p u rest => .key m p u (rest.subst n v)
  | .mopt k m b rest => .mopt k m (b.subst n v) (rest.subst n v)
  | .vopt u m b rest => .vopt u m (b.subst n v) (rest.subst n v)
  | .mrep k m b rest => .mrep k m (b.subst n v) (rest.subst n v)
  | .vrep u m b rest => .vrep u m (b.subst n v) (rest.subst n v)
  | .srep c b rest => .srep c (b.subst n v) (rest.subst n v)
  | .avail b => .avail (b.subst n v)
  | .unknown w => .unknown w

end Layout

namespace Packs.Hand
open Layout

def TagCountPack.w : L :=
  .hdr (.lit .u8 0 (.fld "Category" .blob .any (.fld "tagHash" .dec .i64
    (.fld "Tags" .mapV .any (.fld "Data" .mapV .any .nil)))))

def TagLogPack.w : L :=
  .hdr (.lit .u8 0 (.fld "Category" .blob .any (.fld "tagHash" .dec .i64
    (.fld "Tags" .mapV .any (.fld "Fields" .mapV .any .nil)))))

/-- `Fields` travels behind a presence flag that is set only when the map is non-nil and non-empty -/
def LogSinkPack.w : L :=
  .hdr (.lit .u8 0 (.fld "Category" .blob .any (.fld "TagHash" .dec .i64 (.fld "Tags" .mapV .any
    (.fld "Line" .dec .i64 (.fld "Content" .blob .any
      (.opt "Fields" (.fld "Fields" .mapV .any .nil) .nil)))))))

def ParamPack.l : L :=
  .hdr (.fld "Id" .i32 .i32 (.fld "Request" .dec .i64 (.fld "Response" .dec .i64
    (.rep .dec "table" (.fld "key" .blob .any (.fld "val" .value .any .nil)) .nil))))

def ExtensionPack.w : L :=
  .hdr (.lit .u8 0 (.fld "IsProjectWide" .bool .bool
    (.rep .dec "Header" (.fld "key" .blob .any (.fld "val" .i32 .i32 .nil))
      (.fld "Value" .imapV .any .nil))))
def ExtensionPack.r : L :=
  .hdr (.skip .u8 (.fld "IsProjectWide" .bool .bool
    (.rep .dec "Header" (.fld "key" .blob .any (.fld "val" .i32 .i32 .nil))
      (.fld "Value" .imapV .any .nil))))

/-- EventPack on the wire: the attribute table as written, i.e. *after* `Write` has folded
    uuid / escalation / status / otype into it (Golib.Packs.Event models the folding) -/
def EventPack.l : L :=
  .hdr (.fld "Level" .u8 .u8 (.fld "Title" .blob .any (.fld "Message" .blob .any
    (.rep .u8 "Attr" (.fld "key" .blob .any (.fld "val" .blob .any .nil)) .nil))))

end Packs.Hand
