/-
  Golib.Conc.WholeOps — point operations in the presence of whole-structure operations.

  A whole-structure operation whose sequential specification leaves the *content* of the structure
  unchanged (Sort: same key → value pairs in another order; every read-only traversal) is called
  *neutral*.  `neutral_erasable` shows, for any sequential object with a content equivalence `E` that the
  remaining operations respect, that neutral operations can be erased from a legal sequential history:
  the point operations alone form a legal history with the same results and a content-equal final state.
  With `mutex_herlihy_wing` this gives, for every schedule of the mutex machine: whatever Sorts run
  concurrently, every completed put / remove / clear keeps its effect (`neutral_ops_never_disturb`).

  The counter-model: a Sort split into two operations of the machine (snapshot; rebuild from the
  snapshot) — each atomic — undoes a put that completes in between (`split_sort_loses_put`).
-/
import Golib.Conc.WellNested
import Golib.Conc.SeqSpecThms

namespace Conc

variable {σ Op Ret : Type} (step : σ → Op → σ × Ret)

/-- the history without the neutral operations -/
def pointOps (N : Op → Bool) (l : List (Nat × Op × Ret)) : List (Nat × Op × Ret) :=
  l.filter (fun x => !N x.2.1)

theorem neutral_erasable (I : σ → Prop) (E : σ → σ → Prop) (N : Op → Bool)
    (hI : ∀ s op, I s → I (step s op).1)
    (hN : ∀ s s' op, I s → I s' → E s s' → N op = true → E (step s op).1 s')
    (hC : ∀ s s' op, I s → I s' → E s s' → N op = false →
      E (step s op).1 (step s' op).1 ∧ (step s op).2 = (step s' op).2) :
    ∀ (l : List (Nat × Op × Ret)) (s s' : σ), I s → I s' → E s s' → legal step l s →
      E (runOps step l s) (runOps step (pointOps N l) s') ∧ legal step (pointOps N l) s' := by
  intro l
  induction l with
  | nil => intro s s' _ _ hE _; exact ⟨hE, trivial⟩
  | cons x xs ih =>
    obtain ⟨t, op, r⟩ := x
    intro s s' hs hs' hE hl
    obtain ⟨hr, hl'⟩ := hl
    cases hn : N op with
    | true =>
      have := ih (step s op).1 s' (hI s op hs) hs' (hN s s' op hs hs' hE hn) hl'
      simpa [pointOps, runOps, hn] using this
    | false =>
      obtain ⟨hE', hret⟩ := hC s s' op hs hs' hE hn
      have := ih (step s op).1 (step s' op).1 (hI s op hs) (hI s' op hs') hE' hl'
      simp only [pointOps, List.filter, hn, Bool.not_false, runOps, legal]
      exact ⟨this.1, by rw [← hret]; exact hr, this.2⟩

/-- **for every schedule of the mutex machine**: the shared state is content-equal to the sequential
    replay of the point operations alone, in linearization order, and every point operation returned what
    it returns in that replay — the neutral operations (Sort, traversals) have no influence on them. -/
theorem neutral_ops_never_disturb (I : σ → Prop) (E : σ → σ → Prop) (N : Op → Bool)
    (hI : ∀ s op, I s → I (step s op).1)
    (hN : ∀ s s' op, I s → I s' → E s s' → N op = true → E (step s op).1 s')
    (hC : ∀ s s' op, I s → I s' → E s s' → N op = false →
      E (step s op).1 (step s' op).1 ∧ (step s op).2 = (step s' op).2)
    (init : σ) (h0 : I init) (hE0 : E init init) (sched : List (Act Op)) (s : St σ Op Ret)
    (h : runActs step (initSt init) sched = some s) :
    E s.sh (runOps step (pointOps N (linOps s.log)) init) ∧ legal step (pointOps N (linOps s.log)) init := by
  obtain ⟨_, h2, h3⟩ := mutex_herlihy_wing step init sched s h
  rw [h3]
  exact neutral_erasable step I E N hI hN hC _ init init h0 h0 hE0 h2

end Conc

/-! ### the dictionary with Sort -/

namespace SeqSpec

/-- order-insensitive point operations of the dictionary, and Sort under any comparator -/
inductive WOp where
  | put (k v : Nat) | get (k : Nat) | has (k : Nat) | rem (k : Nat) | size | empty | clear
  | sort (lt : Nat → Nat → Bool)

/-- insertion sort by key under a comparator (any comparator: the result is a permutation) -/
def insertBy (lt : Nat → Nat → Bool) (e : Nat × Nat) : MSt → MSt
  | [] => [e]
  | x :: r => if lt x.1 e.1 then x :: insertBy lt e r else e :: x :: r

def isort (lt : Nat → Nat → Bool) (m : MSt) : MSt := m.foldr (insertBy lt) []

theorem insertBy_perm (lt : Nat → Nat → Bool) (e : Nat × Nat) (l : MSt) : (insertBy lt e l).Perm (e :: l) := by
  induction l with
  | nil => exact .refl _
  | cons x r ih =>
    simp only [insertBy]
    split
    · exact (ih.cons x).trans (List.Perm.swap e x r)
    · exact .refl _

theorem isort_perm (lt : Nat → Nat → Bool) (m : MSt) : (isort lt m).Perm m := by
  induction m with
  | nil => exact .nil
  | cons e r ih => exact (insertBy_perm lt e _).trans (ih.cons e)

def wstep (m : MSt) : WOp → MSt × Fact
  | .put k v => mstep m (.put k v)
  | .get k => mstep m (.get k)
  | .has k => mstep m (.has k)
  | .rem k => mstep m (.rem k)
  | .size => mstep m .size
  | .empty => mstep m .empty
  | .clear => mstep m .clear
  | .sort lt => (isort lt m, .unit)

def isSort : WOp → Bool
  | .sort _ => true
  | _ => false

theorem perm_keysNodup {a b : MSt} (h : a.Perm b) : keysNodup a ↔ keysNodup b := by
  unfold keysNodup; exact (h.map (fun e : Nat × Nat => e.1)).nodup_iff

theorem lookup_perm (k : Nat) {a b : MSt} (h : a.Perm b) (hn : keysNodup a) : lookup k a = lookup k b := by
  induction h with
  | nil => rfl
  | cons x _ ih =>
    obtain ⟨k', v'⟩ := x
    have hn' := (List.nodup_cons.1 hn).2
    simp [lookup, ih hn']
  | swap x y l =>
    obtain ⟨kx, vx⟩ := x; obtain ⟨ky, vy⟩ := y
    have hne : ky ≠ kx := by
      have := (List.nodup_cons.1 hn).1
      intro e; apply this; simp [e]
    simp only [lookup]
    by_cases h1 : ky = k <;> by_cases h2 : kx = k <;> simp_all
  | trans h1 _ ih1 ih2 => exact (ih1 hn).trans (ih2 ((perm_keysNodup h1).1 hn))

theorem hasKey_perm (k : Nat) {a b : MSt} (h : a.Perm b) : hasKey k a = hasKey k b := by
  unfold hasKey; exact h.any_eq

theorem replace_perm (k v : Nat) {a b : MSt} (h : a.Perm b) (hn : keysNodup a) :
    (replace k v a).Perm (replace k v b) := by
  induction h with
  | nil => exact .nil
  | cons x hp ih =>
    obtain ⟨k', v'⟩ := x
    have hn' := (List.nodup_cons.1 hn).2
    simp only [replace]
    split
    · exact hp.cons _
    · exact (ih hn').cons _
  | swap x y l =>
    obtain ⟨kx, vx⟩ := x; obtain ⟨ky, vy⟩ := y
    have hne : ky ≠ kx := by
      have := (List.nodup_cons.1 hn).1
      intro e; apply this; simp [e]
    simp only [replace]
    by_cases h1 : ky = k <;> by_cases h2 : kx = k
    · exact absurd (h1.trans h2.symm) hne
    · simp [h1, h2]; exact List.Perm.swap _ _ _
    · simp [h1, h2]; exact List.Perm.swap _ _ _
    · simp [h1, h2]; exact List.Perm.swap _ _ _
  | trans h1 _ ih1 ih2 => exact (ih1 hn).trans (ih2 ((perm_keysNodup h1).1 hn))

theorem erase_perm (k : Nat) {a b : MSt} (h : a.Perm b) (hn : keysNodup a) :
    (erase k a).Perm (erase k b) := by
  induction h with
  | nil => exact .nil
  | cons x hp ih =>
    obtain ⟨k', v'⟩ := x
    have hn' := (List.nodup_cons.1 hn).2
    simp only [erase]
    split
    · exact hp
    · exact (ih hn').cons _
  | swap x y l =>
    obtain ⟨kx, vx⟩ := x; obtain ⟨ky, vy⟩ := y
    have hne : ky ≠ kx := by
      have := (List.nodup_cons.1 hn).1
      intro e; apply this; simp [e]
    simp only [erase]
    by_cases h1 : ky = k <;> by_cases h2 : kx = k
    · exact absurd (h1.trans h2.symm) hne
    · simp [h1, h2]
    · simp [h1, h2]
    · simp [h1, h2]; exact List.Perm.swap _ _ _
  | trans h1 _ ih1 ih2 => exact (ih1 hn).trans (ih2 ((perm_keysNodup h1).1 hn))

theorem wstep_keysNodup (m : MSt) (op : WOp) (h : keysNodup m) : keysNodup (wstep m op).1 := by
  cases op with
  | sort lt => exact (perm_keysNodup (isort_perm lt m)).2 h
  | put k v => exact mstep_keysNodup m _ h
  | get k => exact mstep_keysNodup m _ h
  | has k => exact mstep_keysNodup m _ h
  | rem k => exact mstep_keysNodup m _ h
  | size => exact mstep_keysNodup m _ h
  | empty => exact mstep_keysNodup m _ h
  | clear => exact mstep_keysNodup m _ h

/-- Sort leaves the content unchanged -/
theorem wstep_sort_neutral (s s' : MSt) (op : WOp) (_ : keysNodup s) (_ : keysNodup s') (hE : s.Perm s')
    (hN : isSort op = true) : (wstep s op).1.Perm s' := by
  cases op <;> simp [isSort] at hN
  exact (isort_perm _ s).trans hE

/-- the order-insensitive point operations respect content equality: same results, content-equal states -/
theorem wstep_congr (s s' : MSt) (op : WOp) (hs : keysNodup s) (_ : keysNodup s') (hE : s.Perm s')
    (hN : isSort op = false) : (wstep s op).1.Perm (wstep s' op).1 ∧ (wstep s op).2 = (wstep s' op).2 := by
  cases op with
  | sort lt => simp [isSort] at hN
  | put k v =>
    simp only [wstep, mstep, ← hasKey_perm k hE, ← lookup_perm k hE hs]
    split
    · exact ⟨replace_perm k v hE hs, rfl⟩
    · exact ⟨hE.append_right _, rfl⟩
  | get k => simp only [wstep, mstep, ← lookup_perm k hE hs]; exact ⟨hE, trivial⟩
  | has k => simp only [wstep, mstep, ← hasKey_perm k hE]; exact ⟨hE, trivial⟩
  | rem k => simp only [wstep, mstep, ← lookup_perm k hE hs]; exact ⟨erase_perm k hE hs, trivial⟩
  | size => simp only [wstep, mstep, hE.length_eq]; exact ⟨hE, trivial⟩
  | empty =>
    simp only [wstep, mstep]
    refine ⟨hE, ?_⟩
    have := hE.length_eq
    cases s <;> cases s' <;> simp_all
  | clear => simp [wstep, mstep]

/-- **Sort never disturbs the point operations of the dictionary**: for every schedule (any number of
    goroutines, Sorts under any comparators mixed with put / get / contains / remove / size / isEmpty /
    clear), the shared dictionary holds exactly the entries (a permutation) of the sequential replay of the
    point operations alone, in linearization order, every point operation returned what it returns in that
    replay, and the keys are distinct. -/
theorem sort_never_disturbs (sched : List (Conc.Act WOp)) (s : Conc.St MSt WOp Fact)
    (h : Conc.runActs wstep (Conc.initSt []) sched = some s) :
    s.sh.Perm (Conc.runOps wstep (Conc.pointOps isSort (Conc.linOps s.log)) []) ∧
      Conc.legal wstep (Conc.pointOps isSort (Conc.linOps s.log)) [] :=
  Conc.neutral_ops_never_disturb wstep keysNodup List.Perm isSort wstep_keysNodup wstep_sort_neutral wstep_congr
    [] keysNodup_nil .nil sched s h

/-! ### counter-model: Sort split into two critical sections -/

/-- `snap` hands out the entries (first critical section), `rebuild l` replaces the content by the sorted
    list `l` (second critical section); each is an atomic operation of the machine -/
inductive SOp where
  | pt (op : MOp) | snap | rebuild (l : MSt)

inductive SRet where
  | fact (f : Fact) | ents (l : MSt)

def insertByKey (e : Nat × Nat) : MSt → MSt
  | [] => [e]
  | x :: r => if e.1 ≤ x.1 then e :: x :: r else x :: insertByKey e r

def sstep (m : MSt) : SOp → MSt × SRet
  | .pt op => ((mstep m op).1, .fact (mstep m op).2)
  | .snap => (m, .ents m)
  | .rebuild l => (l.foldr insertByKey [], .fact .unit)

/-- goroutine 1: `Sort` = snap … rebuild(what snap returned); goroutine 2: a complete `Put(9, 90)` between
    the two critical sections -/
def splitSortSchedule : List (Conc.Act SOp) :=
  [.inv 1 .snap, .acq 1, .load 1, .store 1, .rel 1, .ret 1,
   .inv 2 (.pt (.put 9 90)), .acq 2, .load 2, .store 2, .rel 2, .ret 2,
   .inv 1 (.rebuild [(2, 20), (1, 10)]), .acq 1, .load 1, .store 1, .rel 1, .ret 1]

/-- **finding (model of the split Sort)**: the schedule is accepted — every step is a properly locked
    operation, nothing races, nothing deadlocks —, `snap` returned exactly the list that is rebuilt, the put
    returned "new key", and afterwards key 9 is absent although no remove or clear ever ran. -/
theorem split_sort_loses_put :
    ∃ s, Conc.runActs sstep (Conc.initSt [(2, 20), (1, 10)]) splitSortSchedule = some s ∧
      s.sh = [(1, 10), (2, 20)] ∧ lookup 9 s.sh = 0 ∧
      (Conc.linOps s.log).map (fun x => x.1) = [1, 2, 1] ∧
      (∃ l, Conc.linOps s.log = [(1, .snap, .ents [(2, 20), (1, 10)]), (2, .pt (.put 9 90), .fact (.val 0)), l]) :=
  ⟨_, rfl, rfl, rfl, rfl, _, rfl⟩

/-- with the atomic Sort the same interleaving is not a schedule: while goroutine 1 is inside Sort the
    put of goroutine 2 cannot take the lock -/
theorem atomic_sort_excludes_that_schedule (lt : Nat → Nat → Bool) :
    Conc.runActs wstep (Conc.initSt [(2, 20), (1, 10)])
      [.inv 1 (.sort lt), .acq 1, .load 1, .inv 2 (.put 9 90), .acq 2] = none := rfl

end SeqSpec
