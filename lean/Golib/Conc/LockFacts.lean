/-
  Golib.Conc.LockFacts — the vocabulary of the regenerated lock-discipline tables
  (`Golib/Gen/Locks.lean`, written by `xlate/c10` from the Go sources on every run) and the
  decidable judgements over them.  The translator only transcribes; every judgement
  (self-deadlock freedom, atomicity of point operations, queue lock order, wait/broadcast
  discipline) is a Lean function defined here and evaluated by `decide` in
  `Golib/Props/C10Gen.lean` / `C11Gen.lean`.
-/

namespace LockFacts

/-- one syntactic access `recv.f…` to a field of the receiver -/
structure Access where
  root  : String          -- the field of the receiver
  path  : String          -- the full selector path, e.g. `header.link_next`
  write : Bool            -- assigned / inc-dec'ed (possibly through the path)
  deriving DecidableEq, Repr

/-- token of an execution path through a method body (only emitted for the queue types) -/
inductive Tok where
  | lock | deferUnlock | unlock | wait | broadcast | signal
  | call (target : String)          -- `queue.Add`, `Failed`, `queue.RemoveFirst`, `Size` …
  | assume (cond : String)          -- branch / loop condition taken
  | assumeNot (cond : String)       -- branch / loop condition not taken
  | assign (lhs : String)           -- assignment to a receiver field
  | ret (expr : String)
  | other
  deriving DecidableEq, Repr

structure Method where
  name        : String
  exported    : Bool
  acquires    : Bool                -- contains `recv.lock.Lock()` (or `recv.lock.L.Lock()`)
  lockFirst   : Bool                -- statement 0 is the Lock, statement 1 is `defer …Unlock()`
  deferUnlock : Bool
  irregular   : Bool                -- explicit Unlock, Lock in a nested block, re-Lock, … (anything but the pattern)
  callsHeld   : List String         -- own methods called while the instance lock is held
  callsFree   : List String         -- own methods called while it is not held
  accHeld     : List Access
  accFree     : List Access         -- own fields touched while the lock is not held (in this body)
  fieldCallsHeld : List (String × String)   -- (field, method) calls on sub-objects, lock held
  fieldCallsFree : List (String × String)
  callbacksHeld  : List String      -- function-valued fields invoked while the lock is held
  valueRecv   : Bool                -- declared on `T`, not `*T`: every call copies the struct and its lock
  rlock       : Bool                -- takes only the read side of an RWMutex
  ptrWrites   : Bool                -- assigns through a selector / index / pointer that is not a receiver field
  otherLocks  : List String         -- identifiers (≠ receiver) whose instance lock this method takes
  underOther  : List String         -- own methods called (or "#own-lock") while another instance's lock is held
  extCalls    : List String         -- calls `X.F(…)` on identifiers other than the receiver (package functions …)
  retSlice    : Bool := false       -- the method's single result is a slice
  sliceRets   : List String := []   -- per return statement: "fresh" | "nil" | "call:<own method>" | "stored:<expr>"
  paths       : List (List Tok)     -- execution paths (loops unrolled ≤ 2), queue types only
  deriving DecidableEq, Repr

structure TypeFacts where
  name      : String
  file      : String
  lockField : String
  lockKind  : String                -- "mutex" | "cond"
  fields    : List String
  methods   : List Method
  deriving DecidableEq, Repr

/-! ### lookups -/

def TypeFacts.find (T : TypeFacts) (m : String) : Option Method :=
  T.methods.find? (fun x => x.name == m)

def findType (all : List TypeFacts) (n : String) : Option TypeFacts :=
  all.find? (fun t => t.name == n)

/-! ### self-deadlock: a method that holds the (non re-entrant) lock must not reach a method
    that acquires it -/

/-- does calling `m` (with the lock state of the caller unchanged) reach a `Lock()`?
    Transitive over *all* own calls of the callee, fuel-bounded by the number of methods. -/
def acquiresWithin (T : TypeFacts) : Nat → String → Bool
  | 0, _ => true      -- out of fuel: answer conservatively
  | fuel + 1, m =>
    match T.find m with
    | none => false   -- not a method of this type (cannot take this lock)
    | some M =>
      M.acquires || (M.callsHeld ++ M.callsFree).any (acquiresWithin T fuel)

def TypeFacts.fuel (T : TypeFacts) : Nat := T.methods.length + 1

/-- the methods that `M` calls while holding the lock and that (transitively) lock again -/
def relockers (T : TypeFacts) (M : Method) : List String :=
  M.callsHeld.filter (acquiresWithin T T.fuel)

/-- the list of (method, callee) pairs that self-deadlock -/
def selfDeadlocks (T : TypeFacts) : List (String × String) :=
  T.methods.flatMap (fun M => (relockers T M).map (fun c => (M.name, c)))

/-- every acquisition follows the pattern `Lock(); defer Unlock()` first thing, so the lock
    is released on every path including panics -/
def lockPatternOk (T : TypeFacts) : Bool :=
  T.methods.all (fun M => !M.acquires || (M.lockFirst && M.deferUnlock && !M.irregular))

def noSelfDeadlock (T : TypeFacts) : Bool :=
  (selfDeadlocks T).isEmpty && lockPatternOk T

/-! ### unlocked access to shared fields -/

/-- fields that some method writes (directly or through a path rooted at them): everything else
    is assigned by the constructor only and may be read without the lock -/
def mutableFields (T : TypeFacts) : List String :=
  (T.methods.flatMap (fun M => (M.accHeld ++ M.accFree).filter (·.write) |>.map (·.root))).eraseDups

/-- accesses to mutable fields made by `m` while the lock is not held, following calls made
    while the lock is not held -/
def freeAccesses (T : TypeFacts) : Nat → String → List Access
  | 0, _ => [⟨"?", "out-of-fuel", true⟩]
  | fuel + 1, m =>
    match T.find m with
    | none => []
    | some M =>
      let mf := mutableFields T
      M.accFree.filter (fun a => mf.contains a.root)
        ++ M.callsFree.flatMap (freeAccesses T fuel)

/-- the (method, field path) pairs of public methods that touch shared state without the lock -/
def unlockedPublic (T : TypeFacts) : List (String × String) :=
  T.methods.filter (·.exported) |>.flatMap (fun M =>
    ((freeAccesses T T.fuel M.name).map (fun a => (M.name, a.path))).eraseDups)

/-- the public methods with at least one unlocked access -/
def unlockedMethods (T : TypeFacts) : List String :=
  ((unlockedPublic T).map (·.1)).eraseDups

/-- `m` is atomic under the instance lock: it locks first thing and releases by `defer`, and
    nothing it does before/without the lock touches shared fields -/
def atomicMethod (T : TypeFacts) (m : String) : Bool :=
  match T.find m with
  | none => false
  | some M => M.acquires && M.lockFirst && M.deferUnlock && !M.irregular
              && (freeAccesses T T.fuel m).isEmpty

/-- `m` either is atomic or delegates to exactly one atomic own method without touching anything
    itself (e.g. `LinkedList.Add` = `AddLast`) -/
def atomicOrDelegates (T : TypeFacts) (m : String) : Bool :=
  atomicMethod T m ||
  match T.find m with
  | none => false
  | some M => !M.acquires && (freeAccesses T T.fuel m).isEmpty && M.callsFree.length == 1
              && M.callsFree.all (atomicMethod T)

/-! ### lock-bearing structs must not be copied; read locks must not cover writers; no lock order
    between two instances of one type -/

/-- methods declared with a value receiver on a lock-bearing type (calling one copies the mutex:
    the copy's lock state is garbage, a later Lock on it may never return) -/
def valueReceivers (T : TypeFacts) : List String :=
  (T.methods.filter (·.valueRecv)).map (·.name)

/-- does `m` (transitively through own calls) write shared structure? -/
def mutatesWithin (T : TypeFacts) : Nat → String → Bool
  | 0, _ => true
  | fuel + 1, m =>
    match T.find m with
    | none => false
    | some M =>
      M.ptrWrites || (M.accHeld ++ M.accFree).any (·.write)
        || (M.callsHeld ++ M.callsFree).any (mutatesWithin T fuel)

/-- methods that take only the read lock although they (or their callees) write -/
def writersUnderReadLock (T : TypeFacts) : List String :=
  (T.methods.filter (fun M => M.rlock && mutatesWithin T T.fuel M.name)).map (·.name)

/-- methods that, while holding the lock of *another* instance of the type, take the lock of the
    receiver (directly or through an own method): with two instances merged in opposite directions
    this is a lock-order cycle, and with the receiver itself as argument a self-deadlock -/
def crossInstanceLockers (T : TypeFacts) : List String :=
  (T.methods.filter (fun M => M.underOther.any (fun c => c == "#own-lock" || acquiresWithin T T.fuel c))).map (·.name)

/-! ### returned slices are allocated in the call -/

/-- does every return of `m` hand out a slice allocated in this call (or nil, or what another own
    method with that property returns)? -/
def freshSliceWithin (T : TypeFacts) : Nat → String → Bool
  | 0, _ => false
  | fuel + 1, m =>
    match T.find m with
    | none => false
    | some M =>
      M.retSlice && !M.sliceRets.isEmpty && M.sliceRets.all (fun r =>
        r == "fresh" || r == "nil" ||
        T.methods.any (fun C => r == "call:" ++ C.name && freshSliceWithin T fuel C.name))

/-- the slice-returning methods of `T` that may return stored memory -/
def storedSliceReturners (T : TypeFacts) : List String :=
  (T.methods.filter (fun M => M.retSlice && !freshSliceWithin T T.fuel M.name)).map (·.name)

/-! ### queues: the list is only touched under the condition's mutex; wait/broadcast discipline -/

/-- calls on the sub-object `fld` made without holding the instance lock, per public method -/
def subObjectCallsFree (T : TypeFacts) (flds : List String) : List (String × String) :=
  T.methods.flatMap (fun M => (M.fieldCallsFree.filter (fun c => flds.contains c.1)).map (fun c => (M.name, c.1 ++ "." ++ c.2)))

/-- on every path: once `target` has been called, a `broadcast` follows before the path ends -/
def broadcastAfter (target : List String) : List Tok → Bool
  | [] => true
  | .call t :: rest =>
      if target.contains t then rest.contains .broadcast && broadcastAfter target rest
      else broadcastAfter target rest
  | _ :: rest => broadcastAfter target rest

/-- `.call "….Size"` tokens are the evaluation of a size test, not an action -/
def isSizeCall : Tok → Bool
  | .call t => ["queue.Size", "queue1.Size", "queue2.Size"].contains t
  | _ => false

def waitGuardedAux (g : String) : List Tok → Bool
  | .assume c :: .wait :: next :: rest =>
      c == g && (next == .assume g || next == .assumeNot g) && waitGuardedAux g (next :: rest)
  | .wait :: _ => false
  | [_, .wait] => false
  | _ :: rest => waitGuardedAux g rest
  | [] => true

/-- every `wait` on the path is immediately preceded by taking the loop guard `g` and
    immediately followed by re-evaluating it -/
def waitGuarded (g : String) (p : List Tok) : Bool :=
  waitGuardedAux g (p.filter (fun t => !isSizeCall t))

/-- a removal from a sub-list on this path happens only after the guard was seen false -/
def removeAfterGuardFalse (g : String) (removes : List String) : List Tok → Bool → Bool
  | [], _ => true
  | .assumeNot c :: rest, seen => removeAfterGuardFalse g removes rest (seen || c == g)
  | .wait :: rest, _ => removeAfterGuardFalse g removes rest false
  | .call t :: rest, seen => (!removes.contains t || seen) && removeAfterGuardFalse g removes rest seen
  | _ :: rest, seen => removeAfterGuardFalse g removes rest seen

/-- every path starts `lock; deferUnlock` -/
def pathsLockFirst (M : Method) : Bool :=
  M.paths.all (fun p => p.take 2 == [.lock, .deferUnlock])

def condsOf (M : Method) : List String :=
  (M.paths.flatMap (fun p => p.filterMap (fun t => match t with
    | .assume c => some c | .assumeNot c => some c | _ => none))).eraseDups

end LockFacts
