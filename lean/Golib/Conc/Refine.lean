/-
  Golib.Conc.Refine — carrying linearizability across a refinement.

  `Conc.mutex_herlihy_wing` says: every reachable state of the mutex-object machine over a
  sequential object `stepC` has a well-nested log whose linearization points form a legal sequential
  history of `stepC`.  If `stepC` is a *CodeModel* (bucket arrays, hash chains, pointer heap) that
  refines a *Spec* `stepA` — a simulation relation `R` between their states that every operation
  preserves, with outputs related by `Q` — then the same linearization is a legal history of the Spec:
  concurrent histories of the code model are linearizable with respect to the Spec.  The three
  refinements proved elsewhere have three different shapes (functional abstraction + invariant for
  the linked maps, a relation with equivalent outputs for the plain maps, an existential
  representation for the linked list); a simulation relation covers all of them.
-/
import Golib.Conc.WellNested

namespace Conc

variable {σc σa Op RetC RetA : Type}
variable (stepC : σc → Op → σc × RetC) (stepA : σa → Op → σa × RetA)
variable (R : σc → σa → Prop) (Q : RetC → RetA → Prop)

/-- `stepC` simulates `stepA` through `R`, outputs related by `Q` -/
def Simulates : Prop :=
  ∀ c a op, R c a → R (stepC c op).1 (stepA a op).1 ∧ Q (stepC c op).2 (stepA a op).2

/-- the abstract state after the operations of a linearization (recorded results ignored) -/
def runAbs : List (Nat × Op × RetC) → σa → σa
  | [], a => a
  | (_, op, _) :: xs, a => runAbs xs (stepA a op).1

/-- legality w.r.t. the Spec: each recorded (concrete) result is `Q`-related to what the Spec returns -/
def legalAbs : List (Nat × Op × RetC) → σa → Prop
  | [], _ => True
  | (_, op, r) :: xs, a => Q r (stepA a op).2 ∧ legalAbs xs (stepA a op).1

theorem legal_transfers (h : Simulates stepC stepA R Q) (l : List (Nat × Op × RetC)) (c : σc) (a : σa)
    (hr : R c a) (hl : legal stepC l c) :
    legalAbs stepA Q l a ∧ R (runOps stepC l c) (runAbs stepA l a) := by
  induction l generalizing c a with
  | nil => exact ⟨trivial, hr⟩
  | cons x xs ih =>
    obtain ⟨t, op, r⟩ := x
    obtain ⟨hret, hrest⟩ := hl
    obtain ⟨hR, hQ⟩ := h c a op hr
    obtain ⟨i1, i2⟩ := ih _ _ hR hrest
    exact ⟨⟨by rw [← hret]; exact hQ, i1⟩, i2⟩

/-- **Linearizability with respect to the Spec.**  For every number of threads and every schedule of
    the mutex-object machine over the code model `stepC`, started in a state related to `a0`: the log
    is well nested, the chronological list of linearization points is a legal sequential history of
    the *Spec* (up to `Q` on outputs), and the shared state is `R`-related to the Spec state after
    that history. -/
theorem mutex_refines (h : Simulates stepC stepA R Q) (c0 : σc) (a0 : σa) (h0 : R c0 a0)
    (sched : List (Act Op)) (s : St σc Op RetC) (hs : runActs stepC (initSt c0) sched = some s) :
    wn s.log ∧ legalAbs stepA Q (linOps s.log) a0 ∧ R s.sh (runAbs stepA (linOps s.log) a0) := by
  obtain ⟨h1, h2, h3⟩ := mutex_herlihy_wing stepC c0 sched s hs
  obtain ⟨i1, i2⟩ := legal_transfers stepC stepA R Q h _ c0 a0 h0 h2
  exact ⟨h1, i1, by rw [h3]; exact i2⟩

/-- with equal outputs `legalAbs` is plain legality of the Spec -/
theorem legalAbs_eq (stepA : σa → Op → σa × RetC) (l : List (Nat × Op × RetC)) (a : σa) :
    legalAbs stepA (fun r r' => r = r') l a ↔ legal stepA l a := by
  induction l generalizing a with
  | nil => simp [legalAbs, legal]
  | cons x xs ih => obtain ⟨t, op, r⟩ := x; simp [legalAbs, legal, ih, eq_comm]

theorem runAbs_eq (stepA : σa → Op → σa × RetC) (l : List (Nat × Op × RetC)) (a : σa) :
    runAbs stepA l a = runOps stepA l a := by
  induction l generalizing a with
  | nil => rfl
  | cons x xs ih => obtain ⟨t, op, r⟩ := x; simp [runAbs, runOps, ih]

end Conc
