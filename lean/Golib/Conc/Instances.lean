/-
  Golib.Conc.Instances — the CodeModels of the collections (C09 linked hash maps/sets, C12 plain hash
  maps/sets, C13 linked list) simulate their Specs, so that `Conc.mutex_refines` applies to them.
-/
import Golib.Conc.Refine
import Golib.HMap.LinkedStep
import Golib.HMap.PlainStep
import Golib.Lists.LinkedProof

namespace Conc.Inst
open HMap

section linked
variable {K V : Type} [DecidableEq K] [DecidableEq V]
variable (hash : K → Nat) (thr : Nat → Nat) (d : Desc K V)

/-- state relation of the linked maps: the structure invariant holds and the abstraction is the Spec state -/
def LinkedRel (m : LMap K V) (s : S K V) : Prop := LMap.Inv hash d m ∧ LMap.abs hash m = s

/-- C09's `refine_step` as a simulation (all operations incl. growth, eviction loops, sort, enumerations) -/
theorem linked_simulates :
    Simulates (LMap.step hash thr d) (S.step d) (LinkedRel hash d) (fun r r' => r = r') := by
  intro m s op ⟨hi, ha⟩
  obtain ⟨i, o, a⟩ := LMap.refine_step thr hi op
  subst ha
  exact ⟨⟨i, a⟩, o⟩

theorem linked_init (cap : Nat) : LinkedRel hash d (LMap.new thr cap : LMap K V) {} :=
  ⟨LMap.Inv.new cap, LMap.abs_new cap⟩
end linked

section plain
variable {K V : Type} [DecidableEq K] [DecidableEq V]
variable (hash : K → Nat) (thr : Nat → Nat) (d : PDesc K V)

/-- C12's `plain_refine_step` as a simulation; outputs equal up to the order of enumerations -/
theorem plain_simulates :
    Simulates (PMap.step hash thr d) (PS.step d) (PMap.Rel hash d) Out.equiv := by
  intro m s op h
  exact PMap.plain_refine_step thr h op
end plain

section list
open Lists.Linked

/-- the pointer structure of LinkedList.go and its Spec, as objects `state → op → state × out` -/
def llStep (o : LL) (op : Op) : LL × Out := ((LL.step op o).2, (LL.step op o).1)
def llSpec (s : List Int) (op : Op) : List Int × Out := ((Spec.step op s).2, (Spec.step op s).1)

/-- the heap represents the list of values, for some assignment of node ids -/
def ListRel (o : LL) (vals : List Int) : Prop := ∃ ids, Rep o ids vals

/-- C13's `step_refines` as a simulation -/
theorem list_simulates : Simulates llStep llSpec ListRel (fun r r' => r = r') := by
  intro o vals op ⟨ids, h⟩
  obtain ⟨h1, ids', h2⟩ := step_refines op o ids vals h
  exact ⟨⟨ids', h2⟩, h1⟩

theorem list_init : ListRel LL.empty [] := ⟨[], Rep.empty⟩
end list

end Conc.Inst
