/-
  Golib.Conc.Deadlock — soundness of the lock-discipline judgements of `Golib.Conc.LockFacts`.

  `LockFacts` defines *executable judgements* over the call-graph tables that `xlate/c10`
  regenerates from the Go sources (`noSelfDeadlock`, `crossInstanceLockers`, …); the property
  files evaluate them by `decide`.  On their own those are just Boolean functions of a table.
  Here the tables get a **semantics** — an abstract interpreter of one method call on one
  instance (`runs`) resp. on a pair of instances of the same type (`nests`) — and the
  judgements become the *premise of a proved implication*:

  * `no_self_deadlock_sound` / `noSelfDeadlock_sound`:
      `noSelfDeadlock T = true` ⟹ no execution of any method, entered from outside with the
      instance lock free, to any call depth, ever requests the instance lock while holding it;
  * `nestFree_sound`:
      `nestFree T = true` ⟹ no execution of any method, entered holding nothing, ever holds
      or requests the locks of two instances at once; together with
      `no_cycle_without_nesting` (a thread that never holds one lock while requesting another
      cannot be part of a two-thread wait-for cycle) this excludes the `a.PutAll(b) ∥ b.PutAll(a)`
      lock-order deadlock.

  What the semantics assumes / over-approximates
  ----------------------------------------------
  * The Go `sync.Mutex` is **not re-entrant**: a `Lock()` by the goroutine that already holds
    the mutex blocks for ever.  That is the event `runs` looks for.
  * The table is a faithful transcription: every own-method call site of a body is recorded in
    `callsHeld` (made while the instance lock is held) or `callsFree` (made while it is not).
  * **Over-approximation**: the interpreter executes *every* recorded call site (no branch
    conditions, no early returns), so every behaviour of the real code is a behaviour of the
    interpreter, and "the interpreter never re-locks" implies "the code never re-locks".
  * **Lock released at return**: a method that acquires holds the lock exactly for the calls in
    `callsHeld`, and the lock is free again when it returns to its caller.  This is what
    `lockPatternOk` (`Lock(); defer Unlock()` as the first two statements, nothing irregular)
    guarantees; `noSelfDeadlock` contains `lockPatternOk` as a conjunct.
  * Calls to names that are not methods of the type (`T.find m = none`) cannot touch this lock.
-/
import Golib.Conc.LockFacts

namespace LockFacts

/-! ## Part 1 — self-deadlock on one instance -/

/-- `runs T n held m = true` iff executing `m` to call depth `n`, entered with the instance
    lock held (`held = true`) or free, never tries to acquire the lock while it is held, i.e.
    never self-deadlocks on the non re-entrant mutex.

    * a method that acquires must be entered with the lock free (`!held`); its `callsHeld`
      callees run with the lock held, its `callsFree` callees (before `Lock()`; after the
      `defer`red unlock there is nothing) with the lock free;
    * a method that does not acquire leaves the lock state of its caller unchanged for all
      its callees;
    * depth `0` = "not looked at": no deadlock found. -/
def runs (T : TypeFacts) : Nat → Bool → String → Bool
  | 0, _, _ => true
  | n+1, held, m =>
    match T.find m with
    | none => true
    | some M =>
      if M.acquires then
        !held && M.callsHeld.all (runs T n true) && M.callsFree.all (runs T n false)
      else
        (M.callsHeld ++ M.callsFree).all (runs T n held)

/-- the exact (non-conservative) counterpart of `acquiresWithin`: some call chain of length
    `< n` starting at `m` ends in a method that acquires (false at depth 0) -/
def reachesLock (T : TypeFacts) : Nat → String → Bool
  | 0, _ => false
  | n+1, m =>
    match T.find m with
    | none => false
    | some M => M.acquires || (M.callsHeld ++ M.callsFree).any (reachesLock T n)

/-- a looked-up method is a row of the table -/
theorem find_mem (T : TypeFacts) (m : String) (M : Method) (h : T.find m = some M) :
    M ∈ T.methods :=
  List.mem_of_find?_eq_some h

/-- … and carries the name it was looked up by -/
theorem find_name (T : TypeFacts) (m : String) (M : Method) (h : T.find m = some M) :
    M.name = m := by
  have := List.find?_some h
  simpa using this

/-- unfolding of the judgement at positive fuel -/
theorem acquiresWithin_false_iff (T : TypeFacts) (F : Nat) (m : String) (M : Method)
    (hM : T.find m = some M) :
    acquiresWithin T (F+1) m = false ↔
      M.acquires = false ∧ ∀ c ∈ M.callsHeld ++ M.callsFree, acquiresWithin T F c = false := by
  simp only [acquiresWithin, hM, Bool.or_eq_false_iff, List.any_eq_false]
  constructor
  · rintro ⟨a, b⟩; exact ⟨a, fun c hc => by simpa using b c hc⟩
  · rintro ⟨a, b⟩; exact ⟨a, fun c hc => by simp [b c hc]⟩

/-- **Theorem 1.** If the judgement says that `m` reaches no acquisition (with *any* fuel —
    the judgement answers `true` when it runs out), then running `m` with the lock held never
    deadlocks, at any depth. -/
theorem held_safe (T : TypeFacts) (F : Nat) (m : String)
    (h : acquiresWithin T F m = false) : ∀ n, runs T n true m = true := by
  induction F generalizing m with
  | zero => simp [acquiresWithin] at h
  | succ F ih =>
    intro n
    cases n with
    | zero => rfl
    | succ n =>
      unfold runs
      cases hM : T.find m with
      | none => rfl
      | some M =>
        obtain ⟨ha, hc⟩ := (acquiresWithin_false_iff T F m M hM).1 h
        simp only [ha, Bool.false_eq_true, if_false, List.all_eq_true]
        intro c hcm
        exact ih c (hc c hcm) n

/-- the same for an arbitrary lock state at entry: a call tree without acquisition never
    deadlocks -/
theorem any_safe (T : TypeFacts) (F : Nat) (m : String)
    (h : acquiresWithin T F m = false) : ∀ n held, runs T n held m = true := by
  induction F generalizing m with
  | zero => simp [acquiresWithin] at h
  | succ F ih =>
    intro n held
    cases n with
    | zero => rfl
    | succ n =>
      unfold runs
      cases hM : T.find m with
      | none => rfl
      | some M =>
        obtain ⟨ha, hc⟩ := (acquiresWithin_false_iff T F m M hM).1 h
        simp only [ha, Bool.false_eq_true, if_false, List.all_eq_true]
        intro c hcm
        exact ih c (hc c hcm) n held

/-- what the emptiness of `selfDeadlocks` says, row by row: no callee under the lock is
    judged to reach an acquisition -/
theorem selfDeadlocks_isEmpty_iff (T : TypeFacts) :
    (selfDeadlocks T).isEmpty = true ↔
      ∀ M ∈ T.methods, ∀ c ∈ M.callsHeld, acquiresWithin T T.fuel c = false := by
  simp only [List.isEmpty_iff, selfDeadlocks, relockers, List.flatMap_eq_nil_iff,
    List.map_eq_nil_iff, List.filter_eq_nil_iff, Bool.not_eq_true]

/-- **Theorem 3 (main implication).**  If the table check `selfDeadlocks T = []` passes, then no
    method called from outside (lock free), to any call depth, ever re-acquires the lock it
    holds.  (Release at return — `lockPatternOk` — is built into `runs`.) -/
theorem no_self_deadlock_sound (T : TypeFacts) (h : (selfDeadlocks T).isEmpty = true) :
    ∀ n m, runs T n false m = true := by
  have hrow := (selfDeadlocks_isEmpty_iff T).1 h
  intro n
  induction n with
  | zero => intro m; rfl
  | succ n ih =>
    intro m
    unfold runs
    cases hM : T.find m with
    | none => rfl
    | some M =>
      have hmem := find_mem T m M hM
      cases ha : M.acquires with
      | true =>
        simp only [ha, if_true, Bool.not_false, Bool.true_and, Bool.and_eq_true, List.all_eq_true]
        exact ⟨fun c hc => held_safe T T.fuel c (hrow M hmem c hc) n, fun c _ => ih c⟩
      | false =>
        simp only [ha, Bool.false_eq_true, if_false, List.all_eq_true]
        exact fun c _ => ih c

/-- **Theorem 4.** The judgement evaluated by `decide` in `Props/C10Gen.lean` implies
    self-deadlock freedom of the abstract machine. -/
theorem noSelfDeadlock_sound (T : TypeFacts) (h : noSelfDeadlock T = true) :
    ∀ n m, runs T n false m = true := by
  simp only [noSelfDeadlock, Bool.and_eq_true] at h
  exact no_self_deadlock_sound T h.1

/-- `noSelfDeadlock` also contains the assumption under which `runs` models the code: every
    acquiring method is `Lock(); defer Unlock()` first thing and nothing else -/
theorem noSelfDeadlock_pattern (T : TypeFacts) (h : noSelfDeadlock T = true) :
    ∀ M ∈ T.methods, M.acquires = true →
      M.lockFirst = true ∧ M.deferUnlock = true ∧ M.irregular = false := by
  simp only [noSelfDeadlock, Bool.and_eq_true, lockPatternOk, List.all_eq_true,
    Bool.or_eq_true, Bool.not_eq_true'] at h
  intro M hM ha
  rcases h.2 M hM with h' | h'
  · rw [ha] at h'; cases h'
  · exact ⟨h'.1.1, h'.1.2, h'.2⟩

/-! ### completeness direction -/

/-- looking deeper can only find more deadlocks -/
theorem runs_mono (T : TypeFacts) : ∀ n held m, runs T (n+1) held m = true → runs T n held m = true := by
  intro n
  induction n with
  | zero => intro held m _; rfl
  | succ n ih =>
    intro held m
    rw [runs.eq_def T (n+1+1), runs.eq_def T (n+1)]
    simp only
    cases T.find m with
    | none => intro _; rfl
    | some M =>
      simp only
      cases M.acquires with
      | true =>
        simp only [if_true, Bool.and_eq_true, List.all_eq_true]
        rintro ⟨⟨a, b⟩, c⟩
        exact ⟨⟨a, fun x hx => ih _ _ (b x hx)⟩, fun x hx => ih _ _ (c x hx)⟩
      | false =>
        simp only [Bool.false_eq_true, if_false, List.all_eq_true]
        exact fun b x hx => ih _ _ (b x hx)

theorem runs_mono_le (T : TypeFacts) {n k : Nat} (hk : n ≤ k) (held : Bool) (m : String)
    (h : runs T k held m = true) : runs T n held m = true := by
  induction hk with
  | refl => exact h
  | step _ ih => exact ih (runs_mono T _ held m h)

/-- with the lock held, the interpreter deadlocks **iff** a call chain reaches an acquisition:
    the exact characterisation of `runs · · true` -/
theorem runs_held_eq (T : TypeFacts) : ∀ n m, runs T n true m = !reachesLock T n m := by
  intro n
  induction n with
  | zero => intro m; rfl
  | succ n ih =>
    intro m
    unfold runs reachesLock
    cases T.find m with
    | none => rfl
    | some M =>
      cases ha : M.acquires with
      | true => simp [ha]
      | false =>
        simp only [ha, Bool.false_eq_true, if_false, Bool.false_or]
        rw [Bool.eq_iff_iff]
        simp [ih]

/-- the conservative judgement over-approximates real reachability (it adds "out of fuel") -/
theorem reachesLock_acquiresWithin (T : TypeFacts) : ∀ n m, reachesLock T n m = true →
    acquiresWithin T n m = true := by
  intro n
  induction n with
  | zero => intro m h; simp [reachesLock] at h
  | succ n ih =>
    intro m
    unfold reachesLock acquiresWithin
    cases T.find m with
    | none => exact id
    | some M =>
      simp only [Bool.or_eq_true, List.any_eq_true]
      rintro (h | ⟨c, hc, h⟩)
      · exact Or.inl h
      · exact Or.inr ⟨c, hc, ih c h⟩

/-- **Completeness.** If a method that acquires calls, under the lock, a method from which an
    acquisition is really reachable in `k` steps, the abstract machine deadlocks at depth `k+1`
    (and at every greater depth). -/
theorem reach_deadlocks (T : TypeFacts) (M : Method) (c : String) (k : Nat)
    (hf : T.find M.name = some M) (ha : M.acquires = true) (hc : c ∈ M.callsHeld)
    (hr : reachesLock T k c = true) : ∀ n, k < n → runs T n false M.name = false := by
  intro n hn
  cases hrn : runs T n false M.name with
  | false => rfl
  | true =>
    have h1 := runs_mono_le T (Nat.succ_le_of_lt hn) false M.name hrn
    unfold runs at h1
    simp only [hf, ha, if_true, Bool.and_eq_true, List.all_eq_true] at h1
    have h2 := h1.1.2 c hc
    rw [runs_held_eq, hr] at h2
    cases h2

/-- **Theorem 5.** A direct re-lock (`M` locks and calls, under the lock, `C` which locks) is a
    real deadlock of the abstract machine, found at depth 2.  (`hmem` is implied by `hf`; it is
    kept as in the specification.) -/
theorem relock_reaches_deadlock (T : TypeFacts) (M C : Method) (c : String)
    (_hmem : M ∈ T.methods) (hf : T.find M.name = some M) (ha : M.acquires = true)
    (hc : c ∈ M.callsHeld) (hC : T.find c = some C) (hCa : C.acquires = true) :
    runs T 2 false M.name = false := by
  apply reach_deadlocks T M c 1 hf ha hc _ 2 (by omega)
  simp [reachesLock, hC, hCa]

/-! ### examples -/

/-- a row with everything but the lock facts defaulted -/
def mkMethod (name : String) (acquires : Bool) (callsHeld callsFree : List String)
    (otherLocks : List String := []) (underOther : List String := []) : Method :=
  { name := name, exported := true, acquires := acquires, lockFirst := acquires,
    deferUnlock := acquires, irregular := false, callsHeld := callsHeld, callsFree := callsFree,
    accHeld := [], accFree := [], fieldCallsHeld := [], fieldCallsFree := [],
    callbacksHeld := [], valueRecv := false, rlock := false, ptrWrites := false,
    otherLocks := otherLocks, underOther := underOther, extCalls := [], paths := [] }

def mkType (ms : List Method) : TypeFacts :=
  { name := "Ex", file := "ex.go", lockField := "lock", lockKind := "mutex", fields := [],
    methods := ms }

/-- the bug pattern of the bounded linked maps: `Put` (locked) → `put` → `RemoveLast` (locks) -/
def exBad : TypeFacts := mkType
  [ mkMethod "Put" true ["put"] [],
    mkMethod "put" false [] ["RemoveLast"],
    mkMethod "RemoveLast" true [] [] ]

/-- the repair: the eviction calls the unlocked `remove` -/
def exGood : TypeFacts := mkType
  [ mkMethod "Put" true ["put"] [],
    mkMethod "put" false [] ["remove"],
    mkMethod "remove" false [] [],
    mkMethod "RemoveLast" true ["remove"] [] ]

example : runs exBad 3 false "Put" = false := by decide
example : runs exBad 2 false "Put" = true := by decide      -- depth 2 does not see it yet
example : noSelfDeadlock exBad = false := by decide
example : selfDeadlocks exBad = [("Put", "put")] := by decide
example : noSelfDeadlock exGood = true := by decide
example : runs exGood 5 false "Put" = true := by decide
example : ∀ n m, runs exGood n false m = true := noSelfDeadlock_sound exGood (by decide)

/-! ## Part 2 — lock order between two instances of one type

`a.PutAll(b)` locks `b` (to iterate) and `a` (to insert); `b.PutAll(a)` concurrently locks them
in the opposite order: a classical lock-order cycle.  Table facts: `M.otherLocks` = the
identifiers (≠ receiver) whose instance lock `M` takes in its body; (`M.underOther` = the
own methods called while such a lock is held — the semantics below does not rely on it and
conservatively treats *every* call of a method with `otherLocks` as made under the foreign
lock).

A state is the pair `(self, other)` of instance locks held by the running thread. -/

/-- `nests T n self other m = true` iff executing `m` (entered holding `self` / `other`) to
    depth `n` reaches a point at which the thread holds or requests both instances' locks at
    once — the precondition of a lock-order cycle.  Conservative in three ways: all recorded
    call sites are executed; a foreign lock, once taken, is considered held for the whole body
    and in all callees; a body that takes both its own and a foreign lock is flagged regardless
    of the order and overlap of the two critical sections. -/
def nests (T : TypeFacts) : Nat → Bool → Bool → String → Bool
  | 0, _, _, _ => false
  | n+1, s, o, m =>
    match T.find m with
    | none => false
    | some M =>
      let o' := o || !M.otherLocks.isEmpty
      (o' && (s || M.acquires))
        || M.callsHeld.any (nests T n true o')
        || M.callsFree.any (nests T n s o')

/-- does `m` (transitively through own calls) take the lock of a foreign instance?
    Fuel-bounded like `acquiresWithin`; out of fuel it answers conservatively `true`. -/
def takesOtherWithin (T : TypeFacts) : Nat → String → Bool
  | 0, _ => true
  | fuel + 1, m =>
    match T.find m with
    | none => false
    | some M =>
      !M.otherLocks.isEmpty || (M.callsHeld ++ M.callsFree).any (takesOtherWithin T fuel)

/-- no method of the type ever locks another instance -/
def noForeignLocks (T : TypeFacts) : Bool :=
  T.methods.all (fun M => M.otherLocks.isEmpty)

/-- the row-wise judgement for types that *do* lock other instances:
    * (table well-formedness) only a method that acquires has lock-held call sites;
    * a method that takes a foreign lock neither acquires its own nor calls anything that
      (transitively, as judged by `acquiresWithin`) does;
    * a method that acquires calls nothing under its lock that (transitively) takes a foreign
      lock. -/
def nestFreeRows (T : TypeFacts) : Bool :=
  T.methods.all (fun M =>
    (M.acquires || M.callsHeld.isEmpty)
    && (M.otherLocks.isEmpty
        || (!M.acquires && (M.callsHeld ++ M.callsFree).all (fun c => !acquiresWithin T T.fuel c)))
    && (!M.acquires || M.callsHeld.all (fun c => !takesOtherWithin T T.fuel c)))

/-- **the table-level judgement**: either nothing ever locks a foreign instance (all current
    tables), or the rows keep "own lock" and "foreign lock" call trees apart -/
def nestFree (T : TypeFacts) : Bool :=
  noForeignLocks T || nestFreeRows T

theorem takesOtherWithin_false_iff (T : TypeFacts) (F : Nat) (m : String) (M : Method)
    (hM : T.find m = some M) :
    takesOtherWithin T (F+1) m = false ↔
      M.otherLocks.isEmpty = true ∧
        ∀ c ∈ M.callsHeld ++ M.callsFree, takesOtherWithin T F c = false := by
  simp only [takesOtherWithin, hM, Bool.or_eq_false_iff, List.any_eq_false,
    Bool.not_eq_false']
  constructor
  · rintro ⟨a, b⟩; exact ⟨a, fun c hc => by simpa using b c hc⟩
  · rintro ⟨a, b⟩; exact ⟨a, fun c hc => by simp [b c hc]⟩

/-- holding (at most) the own lock, a call tree that takes no foreign lock never nests -/
theorem self_safe (T : TypeFacts) (F : Nat) (m : String)
    (h : takesOtherWithin T F m = false) : ∀ n s, nests T n s false m = false := by
  induction F generalizing m with
  | zero => simp [takesOtherWithin] at h
  | succ F ih =>
    intro n s
    cases n with
    | zero => rfl
    | succ n =>
      unfold nests
      cases hM : T.find m with
      | none => rfl
      | some M =>
        obtain ⟨ho, hc⟩ := (takesOtherWithin_false_iff T F m M hM).1 h
        simp only [ho, Bool.not_true, Bool.or_false, Bool.false_and, Bool.false_or,
          Bool.or_eq_false_iff, List.any_eq_false, Bool.not_eq_true]
        exact ⟨fun c hcm => ih c (hc c (List.mem_append_left _ hcm)) n true,
               fun c hcm => ih c (hc c (List.mem_append_right _ hcm)) n s⟩

/-- holding (at most) the foreign lock, a call tree that never acquires the own lock never
    nests (given the well-formedness of the table: lock-held call sites only in acquirers) -/
theorem other_safe (T : TypeFacts)
    (wf : ∀ M ∈ T.methods, M.acquires = false → M.callsHeld = [])
    (F : Nat) (m : String) (h : acquiresWithin T F m = false) :
    ∀ n o, nests T n false o m = false := by
  induction F generalizing m with
  | zero => simp [acquiresWithin] at h
  | succ F ih =>
    intro n o
    cases n with
    | zero => rfl
    | succ n =>
      unfold nests
      cases hM : T.find m with
      | none => rfl
      | some M =>
        obtain ⟨ha, hc⟩ := (acquiresWithin_false_iff T F m M hM).1 h
        have hnil := wf M (find_mem T m M hM) ha
        simp only [ha, hnil, Bool.or_false, Bool.and_false, Bool.false_or, List.any_nil,
          List.any_eq_false, Bool.not_eq_true]
        exact fun c hcm => ih c (hc c (List.mem_append_right _ hcm)) n _

/-- a type without foreign locks never gets the `other` flag -/
theorem noForeign_safe (T : TypeFacts) (h : ∀ M ∈ T.methods, M.otherLocks = []) :
    ∀ n s m, nests T n s false m = false := by
  intro n
  induction n with
  | zero => intro s m; rfl
  | succ n ih =>
    intro s m
    unfold nests
    cases hM : T.find m with
    | none => rfl
    | some M =>
      simp only [h M (find_mem T m M hM), List.isEmpty_nil, Bool.not_true, Bool.or_false,
        Bool.false_and, Bool.false_or, Bool.or_eq_false_iff, List.any_eq_false,
        Bool.not_eq_true]
      exact ⟨fun c _ => ih true c, fun c _ => ih s c⟩

theorem nestFreeRows_sound (T : TypeFacts) (h : nestFreeRows T = true) :
    ∀ n m, nests T n false false m = false := by
  simp only [nestFreeRows, List.all_eq_true, Bool.and_eq_true, Bool.or_eq_true,
    Bool.not_eq_true', List.isEmpty_iff, List.mem_append] at h
  have wf : ∀ M ∈ T.methods, M.acquires = false → M.callsHeld = [] := by
    intro M hM ha
    rcases (h M hM).1.1 with h' | h'
    · rw [ha] at h'; cases h'
    · exact h'
  intro n
  induction n with
  | zero => intro m; rfl
  | succ n ih =>
    intro m
    unfold nests
    cases hM : T.find m with
    | none => rfl
    | some M =>
      have hmem := find_mem T m M hM
      obtain ⟨⟨_, hB⟩, hC⟩ := h M hmem
      rcases hB with ho | ⟨ha, hcalls⟩
      · -- M takes no foreign lock: callees under the own lock take none either
        simp only [ho, List.isEmpty_nil, Bool.not_true, Bool.or_false, Bool.false_and,
          Bool.false_or, Bool.or_eq_false_iff, List.any_eq_false, Bool.not_eq_true]
        refine ⟨fun c hc => ?_, fun c _ => ih c⟩
        cases ha : M.acquires with
        | false => rw [wf M hmem ha] at hc; cases hc
        | true =>
          rcases hC with h' | h'
          · rw [ha] at h'; cases h'
          · exact self_safe T T.fuel c (h' c hc) n true
      · -- M takes a foreign lock: it does not acquire and no callee reaches an acquisition
        simp only [ha, wf M hmem ha, Bool.or_false, Bool.and_false, Bool.false_or,
          List.any_nil, List.any_eq_false, Bool.not_eq_true]
        exact fun c hc => other_safe T wf T.fuel c (hcalls c (Or.inr hc)) n _

/-- **Soundness of `nestFree`.**  If the judgement holds, then no execution of any method entered
    from outside holding nothing, to any depth, ever holds or requests the locks of both
    instances at once. -/
theorem nestFree_sound (T : TypeFacts) (h : nestFree T = true) :
    ∀ n m, nests T n false false m = false := by
  simp only [nestFree, Bool.or_eq_true] at h
  rcases h with h | h
  · simp only [noForeignLocks, List.all_eq_true, List.isEmpty_iff] at h
    exact fun n m => noForeign_safe T h n false m
  · exact nestFreeRows_sound T h

/-- the judgement holds for every type none of whose methods locks another instance -/
theorem nestFree_of_no_otherLocks (T : TypeFacts) (h : ∀ M ∈ T.methods, M.otherLocks = []) :
    nestFree T = true := by
  simp only [nestFree, noForeignLocks, Bool.or_eq_true, List.all_eq_true, List.isEmpty_iff]
  exact Or.inl h

/-- a direct nesting is really reached: a method that takes a foreign lock and calls a method
    that acquires the own lock nests at depth 2 -/
theorem other_then_own_nests (T : TypeFacts) (M C : Method) (c : String)
    (hf : T.find M.name = some M) (ho : M.otherLocks ≠ [])
    (hc : c ∈ M.callsHeld ++ M.callsFree) (hC : T.find c = some C) (hCa : C.acquires = true) :
    nests T 2 false false M.name = true := by
  have ho' : M.otherLocks.isEmpty = false := by
    cases h : M.otherLocks with
    | nil => exact absurd h ho
    | cons _ _ => rfl
  have key : ∀ s, nests T 1 s true c = true := by
    intro s; simp [nests, hC, hCa]
  unfold nests
  simp only [hf, ho', Bool.not_false, Bool.or_true, Bool.true_and, Bool.false_or,
    Bool.or_eq_true, List.any_eq_true]
  rcases List.mem_append.1 hc with hc | hc
  · exact Or.inl (Or.inr ⟨c, hc, key true⟩)
  · exact Or.inr ⟨c, hc, key false⟩

/-- `nestFree` is at least as strong as the existing judgement `crossInstanceLockers T = []` of
    `LockFacts` on every *consistent* table, i.e. one in which an `underOther` entry only occurs
    in a method with `otherLocks`, `"#own-lock"` only in a method that acquires, and every other
    entry is one of the method's recorded call sites. -/
theorem nestFree_crossInstanceLockers (T : TypeFacts) (h : nestFree T = true)
    (cons : ∀ M ∈ T.methods, ∀ c ∈ M.underOther, M.otherLocks ≠ [] ∧
      ((c = "#own-lock" ∧ M.acquires = true) ∨
       (c ≠ "#own-lock" ∧ c ∈ M.callsHeld ++ M.callsFree))) :
    crossInstanceLockers T = [] := by
  simp only [crossInstanceLockers, List.map_eq_nil_iff, List.filter_eq_nil_iff,
    List.any_eq_true, not_exists, not_and, Bool.not_eq_true, Bool.or_eq_false_iff]
  intro M hM c hc
  obtain ⟨hne, hcase⟩ := cons M hM c hc
  simp only [nestFree, Bool.or_eq_true] at h
  rcases h with h | h
  · simp only [noForeignLocks, List.all_eq_true, List.isEmpty_iff] at h
    exact absurd (h M hM) hne
  · simp only [nestFreeRows, List.all_eq_true, Bool.and_eq_true, Bool.or_eq_true,
      Bool.not_eq_true', List.isEmpty_iff] at h
    rcases (h M hM).1.2 with ho | ⟨ha, hcalls⟩
    · exact absurd ho hne
    · rcases hcase with ⟨_, ha'⟩ | ⟨hne', hmem⟩
      · rw [ha] at ha'; cases ha'
      · exact ⟨by simpa using hne', hcalls c hmem⟩

/-! ### examples -/

/-- `PutAll(other)` locks `other` and inserts through the locked `Put` -/
def exPutAllBad : TypeFacts := mkType
  [ mkMethod "PutAll" false [] ["Put"] ["other"] ["Put"],
    mkMethod "Put" true ["put"] [],
    mkMethod "put" false [] [] ]

/-- repaired: snapshot `other` under its lock by a method that calls nothing, release, then
    insert — `PutAll` itself no longer takes the foreign lock -/
def exPutAllGood : TypeFacts := mkType
  [ mkMethod "PutAll" false [] ["Put"],
    mkMethod "snapshotOf" false [] [] ["other"],
    mkMethod "Put" true ["put"] [],
    mkMethod "put" false [] [] ]

example : nestFree exPutAllBad = false := by decide
example : nests exPutAllBad 2 false false "PutAll" = true := by decide
example : crossInstanceLockers exPutAllBad = ["PutAll"] := by decide
example : nestFree exPutAllGood = true := by decide
example : noForeignLocks exPutAllGood = false := by decide     -- the row-wise branch is used
example : nests exPutAllGood 6 false false "PutAll" = false := by decide
example : nestFree exGood = true := by decide
example : nestFree exGood = true := nestFree_of_no_otherLocks exGood (by decide)
example : ∀ n m, nests exPutAllGood n false false m = false := nestFree_sound exPutAllGood (by decide)

/-! ### the wait-for argument -/

/-- what one thread contributes to the wait-for graph: the instance (id) whose lock it holds
    and the instance whose lock it is blocked on -/
structure Wait where
  holds : Option Nat
  wants : Option Nat
  deriving DecidableEq, Repr

/-- a two-thread wait-for cycle over instance locks: each thread holds a lock, wants the one the
    other holds, and it is not the trivial "wants what it holds" (that is the self-deadlock of
    Part 1) -/
def cycle2 (w1 w2 : Wait) : Prop :=
  w1.holds = w2.wants ∧ w2.holds = w1.wants ∧ w1.holds.isSome ∧ w2.holds.isSome ∧
    w1.holds ≠ w1.wants

/-- A thread that never holds one instance lock while requesting another cannot be part of a
    two-thread cycle.  This is trivial — a cycle needs every participant to hold *and* want —
    but it closes the argument: `nestFree_sound` shows that no thread running a method of a
    `nestFree` type is ever in a state with both `holds` and `wants` set to (different)
    instances, so by this lemma no `a.M(b) ∥ b.M(a)` schedule can close a wait-for cycle. -/
theorem no_cycle_without_nesting (w1 w2 : Wait) (h1 : w1.holds = none ∨ w1.wants = none) :
    ¬ cycle2 w1 w2 := by
  rintro ⟨h12, h21, hs1, hs2, _⟩
  rcases h1 with h | h
  · rw [h] at hs1; cases hs1
  · rw [h] at h21; rw [h21] at hs2; cases hs2

/-- symmetric form -/
theorem no_cycle_without_nesting' (w1 w2 : Wait) (h2 : w2.holds = none ∨ w2.wants = none) :
    ¬ cycle2 w1 w2 := by
  rintro ⟨h12, h21, hs1, hs2, _⟩
  rcases h2 with h | h
  · rw [h] at hs2; cases hs2
  · rw [h] at h12; rw [h12] at hs1; cases hs1

end LockFacts

#print axioms LockFacts.no_self_deadlock_sound
#print axioms LockFacts.noSelfDeadlock_sound
#print axioms LockFacts.relock_reaches_deadlock
#print axioms LockFacts.nestFree_sound
#print axioms LockFacts.no_cycle_without_nesting
