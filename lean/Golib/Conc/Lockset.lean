/-
  Golib.Conc.Lockset — the lockset discipline implies that conflicting accesses are ordered by a
  release → acquire pair of the protecting mutex.

  What is *proved* here is purely about traces of one mutex: if two accesses by different threads
  are both made while holding the lock, then between them the first thread released and the second
  thread acquired.  That `rel t … acq u` on the same mutex induces a happens-before edge (and hence
  that the two accesses are not a data race) is the Go memory model's guarantee for `sync.Mutex`;
  it is an *assumption* of the overall argument, not something modelled here.
-/

namespace Conc.Lockset

/-- events of a chronological trace: lock acquire / release and memory accesses of thread `t` -/
inductive E where
  | acq (t : Nat)
  | rel (t : Nat)
  | acc (t : Nat) (write : Bool)
  deriving DecidableEq, Repr

/-- one step of the mutex semantics on the holder; `none` = the event is not enabled -/
def stepH (h : Option Nat) : E → Option (Option Nat)
  | .acq t => if h = none then some (some t) else none
  | .rel t => if h = some t then some none else none
  | .acc _ _ => some h

/-- run the mutex semantics over a chronological trace from holder `h`;
    `none` = the trace is not valid -/
def holderAfter (h : Option Nat) : List E → Option (Option Nat)
  | [] => some h
  | e :: es => (stepH h e).bind (fun h' => holderAfter h' es)

theorem holderAfter_append (h : Option Nat) (a b : List E) :
    holderAfter h (a ++ b) = (holderAfter h a).bind (fun h' => holderAfter h' b) := by
  induction a generalizing h with
  | nil => simp [holderAfter]
  | cons e a ih =>
    simp only [List.cons_append, holderAfter]
    cases stepH h e with
    | none => simp
    | some h' => simpa using ih h'

/-- Lemma A: the lock can only change hands after its holder released it -/
theorem released_before_handover (t u : Nat) (htu : t ≠ u) (mid : List E)
    (h : holderAfter (some t) mid = some (some u)) :
    ∃ m1 m', mid = m1 ++ E.rel t :: m' ∧ holderAfter (some t) m1 = some (some t) ∧
      holderAfter none m' = some (some u) := by
  induction mid with
  | nil => simp [holderAfter] at h; exact absurd h htu
  | cons e es ih =>
    cases e with
    | acq x => simp [holderAfter, stepH] at h
    | rel x =>
      simp only [holderAfter, stepH] at h
      split at h
      · rename_i hx
        simp at hx; subst hx
        exact ⟨[], es, rfl, rfl, by simpa using h⟩
      · simp at h
    | acc x w =>
      simp only [holderAfter, stepH, Option.bind_some] at h
      obtain ⟨m1, m', hes, h1, h2⟩ := ih h
      exact ⟨E.acc x w :: m1, m', by simp [hes], by simpa [holderAfter, stepH] using h1, h2⟩

/-- Lemma B: whoever ends up holding the lock without holding it at the start has acquired it -/
theorem acquired_before_holding (u : Nat) (m : List E) (h0 : Option Nat) (hne : h0 ≠ some u)
    (h : holderAfter h0 m = some (some u)) :
    ∃ m2 m3, m = m2 ++ E.acq u :: m3 := by
  induction m generalizing h0 with
  | nil => simp [holderAfter] at h; exact absurd h hne
  | cons e es ih =>
    cases e with
    | acq x =>
      simp only [holderAfter, stepH] at h
      split at h
      · simp only [Option.bind_some] at h
        by_cases hx : x = u
        · subst hx; exact ⟨[], es, rfl⟩
        · obtain ⟨m2, m3, hes⟩ := ih (some x) (by simpa using hx) h
          exact ⟨E.acq x :: m2, m3, by simp [hes]⟩
      · simp at h
    | rel x =>
      simp only [holderAfter, stepH] at h
      split at h
      · simp only [Option.bind_some] at h
        obtain ⟨m2, m3, hes⟩ := ih none (by simp) h
        exact ⟨E.rel x :: m2, m3, by simp [hes]⟩
      · simp at h
    | acc x w =>
      simp only [holderAfter, stepH, Option.bind_some] at h
      obtain ⟨m2, m3, hes⟩ := ih h0 hne h
      exact ⟨E.acc x w :: m2, m3, by simp [hes]⟩

/-- **Lockset discipline ⇒ conflicting accesses are separated by `rel t … acq u`.**
    If in a trace `pre ++ [acc t w] ++ mid ++ [acc u w'] ++ post` the first access is made by `t`
    while holding the lock (`h0`) and the second by a different thread `u` while holding the lock
    (`h1`, which also says that the trace is valid up to the second access), then `mid` contains a
    release by `t` followed by an acquire by `u`.  (Validity of `post` is irrelevant and therefore
    not required; see `lockset_race_free_valid` for the form with the whole trace valid.) -/
theorem lockset_race_free (pre mid post : List E) (t u : Nat) (w w' : Bool) (htu : t ≠ u)
    (h0 : holderAfter none pre = some (some t))
    (h1 : holderAfter none (pre ++ [E.acc t w] ++ mid) = some (some u)) :
    ∃ m1 m2 m3, mid = m1 ++ [E.rel t] ++ m2 ++ [E.acq u] ++ m3 := by
  have _ := post; have _ := w'
  have hmid : holderAfter (some t) mid = some (some u) := by
    rw [List.append_assoc, holderAfter_append, h0] at h1
    simpa [holderAfter, stepH] using h1
  obtain ⟨m1, m', hm, _, hm'⟩ := released_before_handover t u htu mid hmid
  obtain ⟨m2, m3, hm2⟩ := acquired_before_holding u m' none (by simp) hm'
  exact ⟨m1, m2, m3, by simp [hm, hm2]⟩

/-- the same with the hypothesis that the whole trace is valid from the unlocked state -/
theorem lockset_race_free_valid (pre mid post : List E) (t u : Nat) (w w' : Bool) (htu : t ≠ u)
    (_hv : (holderAfter none (pre ++ [E.acc t w] ++ mid ++ [E.acc u w'] ++ post)).isSome = true)
    (h0 : holderAfter none pre = some (some t))
    (h1 : holderAfter none (pre ++ [E.acc t w] ++ mid) = some (some u)) :
    ∃ m1 m2 m3, mid = m1 ++ [E.rel t] ++ m2 ++ [E.acq u] ++ m3 :=
  lockset_race_free pre mid post t u w w' htu h0 h1

/-- non-vacuity of the hypotheses: a lock-disciplined hand-over -/
example :
    holderAfter none ([E.acq 0] ++ [E.acc 0 true] ++ [E.rel 0, E.acq 1] ++ [E.acc 1 false] ++
      [E.rel 1]) = some none ∧
    holderAfter none [E.acq 0] = some (some 0) ∧
    holderAfter none ([E.acq 0] ++ [E.acc 0 true] ++ [E.rel 0, E.acq 1]) = some (some 1) := by
  decide

/-- **The discipline is needed.**  A valid trace in which thread 1 reads without holding the lock
    while thread 0 writes under the lock: the two conflicting accesses are adjacent, no
    release/acquire lies between them, so nothing orders them. -/
theorem unlocked_access_unordered :
    let pre := [E.acq 0]; let mid : List E := []; let post := [E.rel 0]
    holderAfter none (pre ++ [E.acc 0 true] ++ mid ++ [E.acc 1 false] ++ post) = some none ∧
    holderAfter none pre = some (some 0) ∧
    holderAfter none (pre ++ [E.acc 0 true] ++ mid) ≠ some (some 1) ∧
    (E.rel 0 ∉ mid ∧ E.acq 1 ∉ mid) := by
  decide

/-- in particular the conclusion of `lockset_race_free` fails for that trace -/
theorem unlocked_access_no_handover :
    ¬ ∃ m1 m2 m3 : List E, ([] : List E) = m1 ++ [E.rel 0] ++ m2 ++ [E.acq 1] ++ m3 := by
  simp

end Conc.Lockset
