/-
  Golib.Conc.Fair — progress on *infinite* executions of the monitor machine of `Golib.Conc.Cond`
  under an explicit fairness assumption on the actions of ONE thread.

  An execution is a pair `st : Nat → St`, `acts : Nat → Act` with `next (st i) (acts i) = some
  (st (i+1))` for every `i`: the schedule `acts` is chosen by an adversary, any number of threads.
  `WF st acts a` is weak fairness of the action `a`: if `a` is enabled at every index from some
  point on, it is eventually taken.  `SF` is strong fairness (enabled infinitely often ⇒ taken).

  The heart are the stability lemmas: another thread changes `ph t` only by a broadcast
  (`waiting → woken`), and while `t` holds the lock no other thread changes `sh`, `holder`, `ph t`
  (mutual exclusion, `LInv.mutex`, which holds along every execution from `initSt`).
-/
import Golib.Conc.Cond

namespace Conc.Cond

variable {σ Op Ret : Type}

/-- the thread that performs an action -/
def actor : Act Op → Nat
  | .inv t _ | .acq t | .body t | .rel t | .ret t | .spur t => t

variable (step : σ → Op → Option (σ × Ret)) (bcast : Op → Bool)

/-- an infinite execution of the monitor machine; `acts` is the (adversarial) schedule -/
def IsExec (st : Nat → St σ Op Ret) (acts : Nat → Act Op) : Prop :=
  ∀ i, next step bcast (st i) (acts i) = some (st (i + 1))

/-- the execution starts in the initial state -/
def Reach (init : σ) (st : Nat → St σ Op Ret) : Prop := st 0 = initSt init

def enabled (s : St σ Op Ret) (a : Act Op) : Prop := (next step bcast s a).isSome

/-- weak fairness of `a`: continuously enabled from some point on ⇒ eventually taken -/
def WF (st : Nat → St σ Op Ret) (acts : Nat → Act Op) (a : Act Op) : Prop :=
  ∀ i, (∀ j, i ≤ j → enabled step bcast (st j) a) → ∃ j, i ≤ j ∧ acts j = a

/-- strong fairness of `a`: enabled infinitely often ⇒ eventually taken -/
def SF (st : Nat → St σ Op Ret) (acts : Nat → Act Op) (a : Act Op) : Prop :=
  ∀ i, (∀ j, i ≤ j → ∃ k, j ≤ k ∧ enabled step bcast (st k) a) → ∃ j, i ≤ j ∧ acts j = a

theorem SF.wf {st : Nat → St σ Op Ret} {acts : Nat → Act Op} {a : Act Op}
    (h : SF step bcast st acts a) : WF step bcast st acts a :=
  fun i hi => h i (fun j hj => ⟨j, Nat.le_refl j, hi j hj⟩)

variable {step bcast}

/-! ### Invariants along an execution -/

theorem exec_linv {st : Nat → St σ Op Ret} {acts : Nat → Act Op} (hE : IsExec step bcast st acts)
    (init : σ) (h0 : Reach init st) (i : Nat) : LInv step init (st i) := by
  induction i with
  | zero =>
    rw [h0]
    exact ⟨(CInv_init step init).mutex, (CInv_init step init).seq, (CInv_init step init).rets⟩
  | succ i ih => exact linv_next step bcast init _ _ _ ih (hE i)

theorem exec_cinv {st : Nat → St σ Op Ret} {acts : Nat → Act Op} (hE : IsExec step bcast st acts)
    (H : NoEnable step bcast) (init : σ) (h0 : Reach init st) (i : Nat) :
    CInv step init (st i) := by
  induction i with
  | zero => rw [h0]; exact CInv_init step init
  | succ i ih => exact cinv_next step bcast H init _ _ _ ih (hE i)

/-- every index of an execution from `initSt` is a reachable state of `runActs` -/
theorem exec_prefix {st : Nat → St σ Op Ret} {acts : Nat → Act Op} (hE : IsExec step bcast st acts)
    (i : Nat) : runActs step bcast (st 0) ((List.range i).map acts) = some (st i) := by
  induction i with
  | zero => simp [runActs]
  | succ i ih =>
    rw [List.range_succ, List.map_append, runActs_append, ih]
    simp [runActs, hE i]

/-! ### Stability -/

/-- **Foreign influence on a phase.**  An action of another thread leaves `ph t` unchanged, except
    that the body of a broadcasting operation turns `waiting op` into `woken op`. -/
theorem other_ph (s s' : St σ Op Ret) (b : Act Op) (t : Nat) (hb : actor b ≠ t)
    (hn : next step bcast s b = some s') :
    s'.ph t = s.ph t ∨ ∃ op u, b = .body u ∧ s.ph t = .waiting op ∧ s'.ph t = .woken op := by
  have hb' : ∀ u, actor b = u → ¬ t = u := fun u e h => hb (e.trans h.symm)
  cases b with
  | inv u op' =>
    simp only [next] at hn
    split at hn <;> simp at hn
    subst hn; simp [setPh, hb' u rfl]
  | acq u =>
    simp only [next] at hn
    split at hn <;> simp at hn <;> (subst hn; simp [setPh, hb' u rfl])
  | body u =>
    simp only [next] at hn
    split at hn
    · rename_i op' hph
      split at hn
      · rename_i v' r hs
        simp at hn
        subst hn
        simp only [setPh, hb' u rfl, if_false]
        by_cases hbc : bcast op' = true
        · simp only [hbc, if_true]
          unfold wake
          split
          · rename_i op hw
            exact Or.inr ⟨op, u, rfl, hw, rfl⟩
          · exact Or.inl rfl
        · simp [hbc]
      · simp at hn
        subst hn; simp [setPh, hb' u rfl]
    · simp at hn
  | rel u =>
    simp only [next] at hn
    split at hn <;> simp at hn
    subst hn; simp [setPh, hb' u rfl]
  | ret u =>
    simp only [next] at hn
    split at hn <;> simp at hn
    subst hn; simp [setPh, hb' u rfl]
  | spur u =>
    simp only [next] at hn
    split at hn <;> simp at hn
    subst hn; simp [setPh, hb' u rfl]

/-- an action of another thread does not change a phase that is not `waiting` -/
theorem other_ph_eq (s s' : St σ Op Ret) (b : Act Op) (t : Nat) (hb : actor b ≠ t)
    (hn : next step bcast s b = some s') (hw : ∀ op, s.ph t ≠ .waiting op) :
    s'.ph t = s.ph t := by
  rcases other_ph s s' b t hb hn with h | ⟨op, _, _, h, _⟩
  · exact h
  · exact absurd h (hw op)

/-- **Nobody else moves while `t` holds the lock.**  Under mutual exclusion, if `t` is the holder,
    an action of another thread changes neither the shared state, nor the holder, nor `ph t`. -/
theorem other_in_cs (s s' : St σ Op Ret) (b : Act Op) (t : Nat)
    (hm : ∀ u, inCS (s.ph u) → s.holder = some u) (hh : s.holder = some t) (hb : actor b ≠ t)
    (hn : next step bcast s b = some s') :
    s'.sh = s.sh ∧ s'.holder = some t ∧ s'.ph t = s.ph t := by
  have hb' : ∀ u, actor b = u → ¬ t = u := fun u e h => hb (e.trans h.symm)
  have hcs : ∀ u, actor b = u → inCS (s.ph u) → False := by
    intro u e hu
    have := hm u hu
    rw [hh] at this
    exact hb' u e (Option.some.inj this)
  cases b with
  | inv u op' =>
    simp only [next] at hn
    split at hn <;> simp at hn
    subst hn; simp [setPh, hb' u rfl, hh]
  | acq u =>
    simp only [next] at hn
    split at hn <;> simp at hn <;> (rename_i hnone; rw [hh] at hnone; simp at hnone)
  | body u =>
    simp only [next] at hn
    split at hn
    · rename_i op' hph
      exact absurd (hcs u rfl (by rw [hph]; trivial)) id
    · simp at hn
  | rel u =>
    simp only [next] at hn
    split at hn <;> simp at hn
    rename_i op' r hph
    exact absurd (hcs u rfl (by rw [hph]; trivial)) id
  | ret u =>
    simp only [next] at hn
    split at hn <;> simp at hn
    subst hn; simp [setPh, hb' u rfl, hh]
  | spur u =>
    simp only [next] at hn
    split at hn <;> simp at hn
    subst hn; simp [setPh, hb' u rfl, hh]

/-! ### The only enabled own action in each phase -/

theorem own_wants (s : St σ Op Ret) (b : Act Op) (t : Nat) (op : Op)
    (hp : s.ph t = .invoked op ∨ s.ph t = .woken op) (hb : actor b = t)
    (he : enabled step bcast s b) : b = .acq t := by
  cases b <;> simp only [actor] at hb <;> subst hb <;> rcases hp with hp | hp <;>
    simp [enabled, next, hp] at he ⊢

theorem own_locked (s : St σ Op Ret) (b : Act Op) (t : Nat) (op : Op)
    (hp : s.ph t = .locked op) (hb : actor b = t)
    (he : enabled step bcast s b) : b = .body t := by
  cases b <;> simp only [actor] at hb <;> subst hb <;> simp [enabled, next, hp] at he ⊢

theorem own_applied (s : St σ Op Ret) (b : Act Op) (t : Nat) (op : Op) (r : Ret)
    (hp : s.ph t = .applied op r) (hb : actor b = t)
    (he : enabled step bcast s b) : b = .rel t := by
  cases b <;> simp only [actor] at hb <;> subst hb <;> simp [enabled, next, hp] at he ⊢

theorem own_released (s : St σ Op Ret) (b : Act Op) (t : Nat) (op : Op) (r : Ret)
    (hp : s.ph t = .released op r) (hb : actor b = t)
    (he : enabled step bcast s b) : b = .ret t := by
  cases b <;> simp only [actor] at hb <;> subst hb <;> simp [enabled, next, hp] at he ⊢

theorem own_waiting (s : St σ Op Ret) (b : Act Op) (t : Nat) (op : Op)
    (hp : s.ph t = .waiting op) (hb : actor b = t)
    (he : enabled step bcast s b) : b = .spur t := by
  cases b <;> simp only [actor] at hb <;> subst hb <;> simp [enabled, next, hp] at he ⊢

/-! ### Effect of the own actions -/

theorem next_acq (s s' : St σ Op Ret) (t : Nat) (op : Op)
    (hp : s.ph t = .invoked op ∨ s.ph t = .woken op)
    (hn : next step bcast s (.acq t) = some s') :
    s.holder = none ∧ s'.ph t = .locked op ∧ s'.sh = s.sh ∧ s'.holder = some t ∧
      s'.log = s.log := by
  rcases hp with hp | hp <;>
  · simp only [next, hp] at hn
    split at hn <;> simp at hn
    all_goals (subst hn; simp_all [setPh])

theorem next_body (s s' : St σ Op Ret) (t : Nat) (op : Op) (v' : σ) (r : Ret)
    (hp : s.ph t = .locked op) (hs : step s.sh op = some (v', r))
    (hn : next step bcast s (.body t) = some s') :
    s'.sh = v' ∧ s'.ph t = .applied op r ∧ s'.log = .lin t op r :: s.log := by
  simp [next, hp, hs] at hn
  subst hn; simp [setPh]

theorem next_rel (s s' : St σ Op Ret) (t : Nat) (op : Op) (r : Ret)
    (hp : s.ph t = .applied op r) (hn : next step bcast s (.rel t) = some s') :
    s'.ph t = .released op r ∧ s'.sh = s.sh ∧ s'.holder = none ∧ s'.log = s.log := by
  simp [next, hp] at hn
  subst hn; simp [setPh]

theorem next_ret (s s' : St σ Op Ret) (t : Nat) (op : Op) (r : Ret)
    (hp : s.ph t = .released op r) (hn : next step bcast s (.ret t) = some s') :
    s'.ph t = .idle ∧ s'.sh = s.sh ∧ s'.log = .ret t op r :: s.log := by
  simp [next, hp] at hn
  subst hn; simp [setPh]

theorem enabled_acq (s : St σ Op Ret) (t : Nat) (op : Op)
    (hp : s.ph t = .invoked op ∨ s.ph t = .woken op) (hf : s.holder = none) :
    enabled step bcast s (.acq t) := by
  rcases hp with hp | hp <;> simp [enabled, next, hp, hf]

theorem enabled_body (s : St σ Op Ret) (t : Nat) (op : Op) (hp : s.ph t = .locked op) :
    enabled step bcast s (.body t) := by
  simp only [enabled, next, hp]
  split <;> simp

theorem enabled_rel (s : St σ Op Ret) (t : Nat) (op : Op) (r : Ret)
    (hp : s.ph t = .applied op r) : enabled step bcast s (.rel t) := by
  simp [enabled, next, hp]

theorem enabled_ret (s : St σ Op Ret) (t : Nat) (op : Op) (r : Ret)
    (hp : s.ph t = .released op r) : enabled step bcast s (.ret t) := by
  simp [enabled, next, hp]

/-! ### Generic "fires" lemmas -/

/-- first occurrence: a property that survives every step other than `a` still holds at the first
    index ≥ `i` at which `a` is taken -/
theorem stable_until {acts : Nat → Act Op} (a : Act Op) (P : Nat → Prop)
    (hstab : ∀ k, P k → acts k ≠ a → P (k + 1)) (n i : Nat) (hi : P i) (hj : acts (i + n) = a) :
    ∃ k, i ≤ k ∧ k ≤ i + n ∧ acts k = a ∧ P k := by
  induction n generalizing i with
  | zero => exact ⟨i, Nat.le_refl i, Nat.le_refl i, hj, hi⟩
  | succ n ih =>
    by_cases h : acts i = a
    · exact ⟨i, Nat.le_refl i, by omega, h, hi⟩
    · have hj' : acts (i + 1 + n) = a := by rw [← hj]; congr 1; omega
      obtain ⟨k, h1, h2, h3, h4⟩ := ih (i + 1) (hstab i hi h) hj'
      exact ⟨k, by omega, by omega, h3, h4⟩

theorem stable_forever {acts : Nat → Act Op} (a : Act Op) (P : Nat → Prop)
    (hstab : ∀ k, P k → acts k ≠ a → P (k + 1)) (i : Nat) (hi : P i)
    (hno : ¬ ∃ j, i ≤ j ∧ acts j = a) : ∀ j, i ≤ j → P j := by
  intro j hj
  induction j with
  | zero => have : i = 0 := by omega
            subst this; exact hi
  | succ j ih =>
    by_cases e : i = j + 1
    · subst e; exact hi
    · have hij : i ≤ j := by omega
      exact hstab j (ih hij) (fun h => hno ⟨j, hij, h⟩)

/-- **Weak fairness fires.**  `P` survives every step other than `a` and implies that `a` is
    enabled; then from an index where `P` holds, `a` is taken at an index where `P` still holds. -/
theorem wf_fires {st : Nat → St σ Op Ret} {acts : Nat → Act Op} (a : Act Op)
    (hwf : WF step bcast st acts a) (P : Nat → Prop)
    (hstab : ∀ k, P k → acts k ≠ a → P (k + 1))
    (hen : ∀ k, P k → enabled step bcast (st k) a) (i : Nat) (hi : P i) :
    ∃ k, i ≤ k ∧ acts k = a ∧ P k := by
  have key : ∃ j, i ≤ j ∧ acts j = a := by
    by_cases hex : ∃ j, i ≤ j ∧ acts j = a
    · exact hex
    · exact hwf i (fun j hj => hen j (stable_forever a P hstab i hi hex j hj))
  obtain ⟨j, hij, hj⟩ := key
  obtain ⟨n, rfl⟩ : ∃ n, j = i + n := ⟨j - i, by omega⟩
  obtain ⟨k, h1, _, h3, h4⟩ := stable_until a P hstab n i hi hj
  exact ⟨k, h1, h3, h4⟩

/-- **Strong fairness fires**: as `wf_fires`, but `P` only has to imply that `a` is enabled again
    at some later index. -/
theorem sf_fires {st : Nat → St σ Op Ret} {acts : Nat → Act Op} (a : Act Op)
    (hsf : SF step bcast st acts a) (P : Nat → Prop)
    (hstab : ∀ k, P k → acts k ≠ a → P (k + 1))
    (hen : ∀ k, P k → ∃ k', k ≤ k' ∧ enabled step bcast (st k') a) (i : Nat) (hi : P i) :
    ∃ k, i ≤ k ∧ acts k = a ∧ P k := by
  have key : ∃ j, i ≤ j ∧ acts j = a := by
    by_cases hex : ∃ j, i ≤ j ∧ acts j = a
    · exact hex
    · exact hsf i (fun j hj => hen j (stable_forever a P hstab i hi hex j hj))
  obtain ⟨j, hij, hj⟩ := key
  obtain ⟨n, rfl⟩ : ∃ n, j = i + n := ⟨j - i, by omega⟩
  obtain ⟨k, h1, _, h3, h4⟩ := stable_until a P hstab n i hi hj
  exact ⟨k, h1, h3, h4⟩

/-! ### Stability of the phases of `t` along an execution -/

section exec
variable {st : Nat → St σ Op Ret} {acts : Nat → Act Op}

theorem exec_enabled (hE : IsExec step bcast st acts) (k : Nat) :
    enabled step bcast (st k) (acts k) := by
  simp [enabled, hE k]

/-- `t` wants the lock (`invoked`/`woken`): that survives every step other than `acq t` -/
theorem wants_stable (hE : IsExec step bcast st acts) (t : Nat) (op : Op) (k : Nat)
    (hp : (st k).ph t = .invoked op ∨ (st k).ph t = .woken op) (hne : acts k ≠ .acq t) :
    (st (k + 1)).ph t = .invoked op ∨ (st (k + 1)).ph t = .woken op := by
  by_cases hb : actor (acts k) = t
  · exact absurd (own_wants (st k) (acts k) t op hp hb (exec_enabled hE k)) hne
  · rw [other_ph_eq (st k) (st (k + 1)) (acts k) t hb (hE k)
      (by intro op' h; rcases hp with hp | hp <;> rw [hp] at h <;> simp at h)]
    exact hp

/-- `t` is `locked`: phase and shared state survive every step other than `body t` -/
theorem locked_stable (hE : IsExec step bcast st acts) (init : σ) (h0 : Reach init st)
    (t : Nat) (op : Op) (k : Nat) (hp : (st k).ph t = .locked op) (hne : acts k ≠ .body t) :
    (st (k + 1)).ph t = .locked op ∧ (st (k + 1)).sh = (st k).sh := by
  have hI := exec_linv hE init h0 k
  by_cases hb : actor (acts k) = t
  · exact absurd (own_locked (st k) (acts k) t op hp hb (exec_enabled hE k)) hne
  · obtain ⟨h1, _, h3⟩ := other_in_cs (st k) (st (k + 1)) (acts k) t hI.mutex
      (hI.mutex t (by rw [hp]; trivial)) hb (hE k)
    exact ⟨by rw [h3, hp], h1⟩

/-- `t` is `applied`: phase and shared state survive every step other than `rel t` -/
theorem applied_stable (hE : IsExec step bcast st acts) (init : σ) (h0 : Reach init st)
    (t : Nat) (op : Op) (r : Ret) (k : Nat) (hp : (st k).ph t = .applied op r)
    (hne : acts k ≠ .rel t) :
    (st (k + 1)).ph t = .applied op r ∧ (st (k + 1)).sh = (st k).sh := by
  have hI := exec_linv hE init h0 k
  by_cases hb : actor (acts k) = t
  · exact absurd (own_applied (st k) (acts k) t op r hp hb (exec_enabled hE k)) hne
  · obtain ⟨h1, _, h3⟩ := other_in_cs (st k) (st (k + 1)) (acts k) t hI.mutex
      (hI.mutex t (by rw [hp]; trivial)) hb (hE k)
    exact ⟨by rw [h3, hp], h1⟩

/-- `t` is `released`: survives every step other than `ret t` -/
theorem released_stable (hE : IsExec step bcast st acts) (t : Nat) (op : Op) (r : Ret) (k : Nat)
    (hp : (st k).ph t = .released op r) (hne : acts k ≠ .ret t) :
    (st (k + 1)).ph t = .released op r := by
  by_cases hb : actor (acts k) = t
  · exact absurd (own_released (st k) (acts k) t op r hp hb (exec_enabled hE k)) hne
  · rw [other_ph_eq (st k) (st (k + 1)) (acts k) t hb (hE k)
      (by intro op' h; rw [hp] at h; simp at h)]
    exact hp

/-- a thread in the wait set stays there or becomes `woken` (by a broadcast or spuriously) -/
theorem waiting_step (hE : IsExec step bcast st acts) (t : Nat) (op : Op) (k : Nat)
    (hp : (st k).ph t = .waiting op) :
    (st (k + 1)).ph t = .waiting op ∨ (st (k + 1)).ph t = .woken op := by
  by_cases hb : actor (acts k) = t
  · have h := own_waiting (st k) (acts k) t op hp hb (exec_enabled hE k)
    have hn := hE k
    rw [h] at hn
    simp [next, hp] at hn
    rw [← hn]
    simp [setPh]
  · rcases other_ph (st k) (st (k + 1)) (acts k) t hb (hE k) with h | ⟨op', _, _, h1, h2⟩
    · exact Or.inl (by rw [h, hp])
    · rw [hp] at h1
      cases h1
      exact Or.inr h2

/-! ### The theorems -/

/-- **1. A thread that wants the lock cannot be passed over forever while the lock stays free.**
    No invariant, no assumption on the other threads. -/
theorem fair_acquires (hE : IsExec step bcast st acts) (t : Nat) (op : Op)
    (hwf : WF step bcast st acts (.acq t)) (i : Nat) :
    ¬ ∀ j, i ≤ j → ((st j).ph t = .invoked op ∨ (st j).ph t = .woken op) ∧
        (st j).holder = none := by
  intro hall
  obtain ⟨j, hij, hj⟩ := hwf i (fun j hj => enabled_acq (st j) t op (hall j hj).1 (hall j hj).2)
  have hn := hE j
  rw [hj] at hn
  have h1 := next_acq (st j) (st (j + 1)) t op (hall j hij).1 hn
  have h2 := (hall (j + 1) (by omega)).2
  rw [h1.2.2.2.1] at h2
  simp at h2

/-- the same with strong fairness: the lock only has to be free *infinitely often* while `t`
    wants it (other threads may take and release it in between) — `t` does acquire. -/
theorem sfair_acquires (hE : IsExec step bcast st acts) (t : Nat) (op : Op)
    (hsf : SF step bcast st acts (.acq t)) (i : Nat)
    (hp : (st i).ph t = .invoked op ∨ (st i).ph t = .woken op)
    (hfree : ∀ j, i ≤ j → ((st j).ph t = .invoked op ∨ (st j).ph t = .woken op) →
      ∃ k, j ≤ k ∧ (st k).holder = none) :
    ∃ k, i ≤ k ∧ acts k = .acq t ∧ (st k).holder = none ∧ (st (k + 1)).ph t = .locked op ∧
      (st (k + 1)).sh = (st k).sh ∧
      ∀ j, i ≤ j → j ≤ k → ((st j).ph t = .invoked op ∨ (st j).ph t = .woken op) := by
  -- P k: t has wanted the lock at every index of [i, k]
  let P : Nat → Prop := fun k => i ≤ k ∧
    ∀ j, i ≤ j → j ≤ k → ((st j).ph t = .invoked op ∨ (st j).ph t = .woken op)
  have hstab : ∀ k, P k → acts k ≠ .acq t → P (k + 1) := by
    intro k ⟨h1, h2⟩ hne
    refine ⟨by omega, ?_⟩
    intro j hj1 hj2
    by_cases e : j = k + 1
    · subst e; exact wants_stable hE t op k (h2 k h1 (Nat.le_refl k)) hne
    · exact h2 j hj1 (by omega)
  have hstay : ∀ k, P k → (¬ ∃ j, k ≤ j ∧ acts j = .acq t) → ∀ j, k ≤ j → P j :=
    fun k hk hno => stable_forever (.acq t) P hstab k hk hno
  have hen : ∀ k, P k → ∃ k', k ≤ k' ∧ enabled step bcast (st k') (.acq t) := by
    intro k hk
    by_cases hex : ∃ j, k ≤ j ∧ acts j = .acq t
    · obtain ⟨j, hkj, hj⟩ := hex
      exact ⟨j, hkj, by simp [enabled, ← hj, hE j]⟩
    · obtain ⟨k', hk', hf⟩ := hfree k hk.1 (hk.2 k hk.1 (Nat.le_refl k))
      have hP := hstay k hk hex k' hk'
      exact ⟨k', hk', enabled_acq (st k') t op (hP.2 k' hP.1 (Nat.le_refl k')) hf⟩
  obtain ⟨k, hik, hk, hPk⟩ := sf_fires (.acq t) hsf P hstab hen i
    ⟨Nat.le_refl i, fun j h1 h2 => by have : j = i := by omega
                                      subst this; exact hp⟩
  have hn := hE k
  rw [hk] at hn
  obtain ⟨a1, a2, a3, _, _⟩ := next_acq (st k) (st (k + 1)) t op (hPk.2 k hik (Nat.le_refl k)) hn
  exact ⟨k, hik, hk, a1, a2, a3, hPk.2⟩

/-- **2. Once `t` has the lock, its body, release and return happen**, the result is computed
    from the shared state it found (nobody else can move it while `t` holds the lock):
    `k` is the index of `t`'s body (linearization point), `j` the index right after its `ret`. -/
theorem fair_completes (hE : IsExec step bcast st acts) (init : σ) (h0 : Reach init st)
    (t : Nat) (op : Op)
    (hwb : WF step bcast st acts (.body t)) (hwr : WF step bcast st acts (.rel t))
    (hwt : WF step bcast st acts (.ret t))
    (i : Nat) (v' : σ) (r : Ret) (hp : (st i).ph t = .locked op)
    (hs : step (st i).sh op = some (v', r)) :
    ∃ j, i < j ∧ (st j).ph t = .idle ∧ (∃ l, (st j).log = .ret t op r :: l) ∧
      ∃ k, i ≤ k ∧ k < j ∧ acts k = .body t ∧ (st k).sh = (st i).sh ∧ (st (k + 1)).sh = v' := by
  -- stage 1: body
  obtain ⟨k1, hik1, ha1, hp1, hsh1⟩ := wf_fires (.body t) hwb
    (fun k => (st k).ph t = .locked op ∧ (st k).sh = (st i).sh)
    (fun k hk hne => by
      obtain ⟨a, b⟩ := locked_stable hE init h0 t op k hk.1 hne
      exact ⟨a, by rw [b, hk.2]⟩)
    (fun k hk => enabled_body (st k) t op hk.1) i ⟨hp, rfl⟩
  have hn1 := hE k1
  rw [ha1] at hn1
  obtain ⟨b1, b2, _⟩ := next_body (st k1) (st (k1 + 1)) t op v' r hp1 (by rw [hsh1]; exact hs) hn1
  -- stage 2: release
  obtain ⟨k2, hk12, ha2, hp2⟩ := wf_fires (.rel t) hwr
    (fun k => (st k).ph t = .applied op r)
    (fun k hk hne => (applied_stable hE init h0 t op r k hk hne).1)
    (fun k hk => enabled_rel (st k) t op r hk) (k1 + 1) b2
  have hn2 := hE k2
  rw [ha2] at hn2
  obtain ⟨c1, _⟩ := next_rel (st k2) (st (k2 + 1)) t op r hp2 hn2
  -- stage 3: return
  obtain ⟨k3, hk23, ha3, hp3⟩ := wf_fires (.ret t) hwt
    (fun k => (st k).ph t = .released op r)
    (fun k hk hne => released_stable hE t op r k hk hne)
    (fun k hk => enabled_ret (st k) t op r hk) (k2 + 1) c1
  have hn3 := hE k3
  rw [ha3] at hn3
  obtain ⟨d1, _, d3⟩ := next_ret (st k3) (st (k3 + 1)) t op r hp3 hn3
  exact ⟨k3 + 1, by omega, d1, ⟨_, d3⟩, k1, hik1, by omega, ha1, hsh1, b1⟩

/-- **3 (strong form).**  Weak fairness of `t`'s four actions; `t` wants the lock at `i`, and as
    long as it wants it the lock is free and the guard true.  Then `t` acquires at some `a ≥ i`,
    its body runs at `k ≥ a+1` on the shared state it found when acquiring, and it returns the
    sequential result `r` of that state. -/
theorem fair_get_returns_lin (hE : IsExec step bcast st acts) (init : σ) (h0 : Reach init st)
    (t : Nat) (op : Op)
    (hwa : WF step bcast st acts (.acq t)) (hwb : WF step bcast st acts (.body t))
    (hwr : WF step bcast st acts (.rel t)) (hwt : WF step bcast st acts (.ret t))
    (i : Nat) (hp : (st i).ph t = .invoked op ∨ (st i).ph t = .woken op)
    (hG : ∀ j, i ≤ j → ((st j).ph t = .invoked op ∨ (st j).ph t = .woken op) →
      (st j).holder = none ∧ (step (st j).sh op).isSome) :
    ∃ j, i < j ∧ (st j).ph t = .idle ∧ ∃ r l, (st j).log = .ret t op r :: l ∧
      ∃ a k v', i ≤ a ∧ a < k ∧ k < j ∧ acts a = .acq t ∧ acts k = .body t ∧
        (st k).sh = (st a).sh ∧ step (st k).sh op = some (v', r) ∧ (st (k + 1)).sh = v' := by
  obtain ⟨a, hia, haa, _, hpa⟩ := wf_fires (.acq t) hwa
    (fun k => i ≤ k ∧ ((st k).ph t = .invoked op ∨ (st k).ph t = .woken op))
    (fun k hk hne => ⟨by omega, wants_stable hE t op k hk.2 hne⟩)
    (fun k hk => enabled_acq (st k) t op hk.2 (hG k hk.1 hk.2).1) i ⟨Nat.le_refl i, hp⟩
  have hn := hE a
  rw [haa] at hn
  obtain ⟨_, e2, e3, _, _⟩ := next_acq (st a) (st (a + 1)) t op hpa hn
  obtain ⟨⟨v', r⟩, hs⟩ := Option.isSome_iff_exists.1 (hG a hia hpa).2
  obtain ⟨j, hj, f1, ⟨l, f2⟩, k, g1, g2, g3, g4, g5⟩ :=
    fair_completes hE init h0 t op hwb hwr hwt (a + 1) v' r e2 (by rw [e3]; exact hs)
  refine ⟨j, by omega, f1, r, l, f2, a, k, v', hia, by omega, g2, haa, g3, by rw [g4, e3], ?_, g5⟩
  rw [g4, e3]; exact hs

/-- **3. Under weak fairness, an operation that finds the lock free and its guard true whenever
    it looks does return** — for any number of other threads, any adversarial schedule. -/
theorem fair_get_returns (hE : IsExec step bcast st acts) (init : σ) (h0 : Reach init st)
    (t : Nat) (op : Op)
    (hwa : WF step bcast st acts (.acq t)) (hwb : WF step bcast st acts (.body t))
    (hwr : WF step bcast st acts (.rel t)) (hwt : WF step bcast st acts (.ret t))
    (i : Nat) (hp : (st i).ph t = .invoked op ∨ (st i).ph t = .woken op)
    (hG : ∀ j, i ≤ j → ((st j).ph t = .invoked op ∨ (st j).ph t = .woken op) →
      (st j).holder = none ∧ (step (st j).sh op).isSome) :
    ∃ j, i < j ∧ (st j).ph t = .idle ∧ ∃ r l, (st j).log = .ret t op r :: l := by
  obtain ⟨j, h1, h2, r, l, h3, _⟩ := fair_get_returns_lin hE init h0 t op hwa hwb hwr hwt i hp hG
  exact ⟨j, h1, h2, r, l, h3⟩

/-- **3' (contended lock).**  With *strong* fairness of `acq t` the lock need not stay free: it
    is enough that, while `t` wants it, the lock is free again and again (the other threads
    release it), and that the guard is true whenever `t` wants the lock and the lock is free. -/
theorem sfair_get_returns (hE : IsExec step bcast st acts) (init : σ) (h0 : Reach init st)
    (t : Nat) (op : Op)
    (hsa : SF step bcast st acts (.acq t)) (hwb : WF step bcast st acts (.body t))
    (hwr : WF step bcast st acts (.rel t)) (hwt : WF step bcast st acts (.ret t))
    (i : Nat) (hp : (st i).ph t = .invoked op ∨ (st i).ph t = .woken op)
    (hfree : ∀ j, i ≤ j → ((st j).ph t = .invoked op ∨ (st j).ph t = .woken op) →
      ∃ k, j ≤ k ∧ (st k).holder = none)
    (hG : ∀ j, i ≤ j → ((st j).ph t = .invoked op ∨ (st j).ph t = .woken op) →
      (st j).holder = none → (step (st j).sh op).isSome) :
    ∃ j, i < j ∧ (st j).ph t = .idle ∧ ∃ r l, (st j).log = .ret t op r :: l ∧
      ∃ a k v', i ≤ a ∧ a < k ∧ k < j ∧ acts a = .acq t ∧ acts k = .body t ∧
        (st k).sh = (st a).sh ∧ step (st k).sh op = some (v', r) ∧ (st (k + 1)).sh = v' := by
  obtain ⟨a, hia, haa, hfa, e2, e3, hall⟩ := sfair_acquires hE t op hsa i hp hfree
  obtain ⟨⟨v', r⟩, hs⟩ :=
    Option.isSome_iff_exists.1 (hG a hia (hall a hia (Nat.le_refl a)) hfa)
  obtain ⟨j, hj, f1, ⟨l, f2⟩, k, g1, g2, g3, g4, g5⟩ :=
    fair_completes hE init h0 t op hwb hwr hwt (a + 1) v' r e2 (by rw [e3]; exact hs)
  refine ⟨j, by omega, f1, r, l, f2, a, k, v', hia, by omega, g2, haa, g3, by rw [g4, e3], ?_, g5⟩
  rw [g4, e3]; exact hs

/-- **4. A waiter has left the wait set by the time its guard is true.**  `t` is in the wait set
    at `i`, the guard of its operation is true at `k`; then `i < k` and `t` became `woken` at some
    `j ∈ (i, k]` (and was waiting at every index before `j`). -/
theorem waiting_wakes (hE : IsExec step bcast st acts) (H : NoEnable step bcast) (init : σ)
    (h0 : Reach init st) (t : Nat) (op : Op) (i k : Nat) (hik : i ≤ k)
    (hw : (st i).ph t = .waiting op) (hg : (step (st k).sh op).isSome) :
    ∃ j, i < j ∧ j ≤ k ∧ (st j).ph t = .woken op ∧
      ∀ m, i ≤ m → m < j → (st m).ph t = .waiting op := by
  have key : ∀ n, (∀ m, i ≤ m → m ≤ i + n → (st m).ph t = .waiting op) ∨
      ∃ j, i < j ∧ j ≤ i + n ∧ (st j).ph t = .woken op ∧
        ∀ m, i ≤ m → m < j → (st m).ph t = .waiting op := by
    intro n
    induction n with
    | zero =>
      left; intro m h1 h2
      have : m = i := by omega
      subst this; exact hw
    | succ n ih =>
      rcases ih with ih | ⟨j, h1, h2, h3, h4⟩
      · rcases waiting_step hE t op (i + n) (ih (i + n) (by omega) (Nat.le_refl _)) with h | h
        · left; intro m h1 h2
          by_cases e : m = i + n + 1
          · subst e; exact h
          · exact ih m h1 (by omega)
        · right
          exact ⟨i + n + 1, by omega, by omega, h, fun m h1 h2 => ih m h1 (by omega)⟩
      · right; exact ⟨j, h1, by omega, h3, h4⟩
  obtain ⟨n, rfl⟩ : ∃ n, k = i + n := ⟨k - i, by omega⟩
  rcases key n with h | h
  · have hb := (exec_cinv hE H init h0 (i + n)).blocked t op (h (i + n) hik (Nat.le_refl _))
    rw [hb] at hg
    simp at hg
  · exact h

/-- **4 + 3'.**  A consumer in the wait set at `i` whose guard is true at some `k ≥ i` has been
    woken by then (no lost wake-up); if from then on the lock is free again and again and the guard
    is true whenever `t` wants the lock and finds it free, then under strong fairness of `acq t`
    and weak fairness of `body`/`rel`/`ret` it returns. -/
theorem sfair_waiter_returns (hE : IsExec step bcast st acts) (H : NoEnable step bcast) (init : σ)
    (h0 : Reach init st) (t : Nat) (op : Op)
    (hsa : SF step bcast st acts (.acq t)) (hwb : WF step bcast st acts (.body t))
    (hwr : WF step bcast st acts (.rel t)) (hwt : WF step bcast st acts (.ret t))
    (i k : Nat) (hik : i ≤ k) (hw : (st i).ph t = .waiting op)
    (hg : (step (st k).sh op).isSome)
    (hfree : ∀ j, i ≤ j → ((st j).ph t = .invoked op ∨ (st j).ph t = .woken op) →
      ∃ k, j ≤ k ∧ (st k).holder = none)
    (hG : ∀ j, i ≤ j → ((st j).ph t = .invoked op ∨ (st j).ph t = .woken op) →
      (st j).holder = none → (step (st j).sh op).isSome) :
    ∃ j, i < j ∧ (st j).ph t = .idle ∧ ∃ r l, (st j).log = .ret t op r :: l := by
  obtain ⟨w, hiw, _, hww, _⟩ := waiting_wakes hE H init h0 t op i k hik hw hg
  obtain ⟨j, h1, h2, r, l, h3, _⟩ := sfair_get_returns hE init h0 t op hsa hwb hwr hwt w
    (Or.inr hww) (fun j hj => hfree j (by omega)) (fun j hj => hG j (by omega))
  exact ⟨j, by omega, h2, r, l, h3⟩

end exec

/-! ### Non-vacuity: an explicit infinite weakly fair execution -/

section pingpong
variable (step : σ → Op → Option (σ × Ret)) (bcast : Op → Bool)
variable (v0 v1 : σ) (o1 o2 : Op) (r1 r2 : Ret)

def ppAct (i : Nat) : Act Op :=
  match i % 10 with
  | 0 => .inv 1 o1 | 1 => .acq 1 | 2 => .body 1 | 3 => .rel 1 | 4 => .ret 1
  | 5 => .inv 0 o2 | 6 => .acq 0 | 7 => .body 0 | 8 => .rel 0 | _ => .ret 0

def ppSt : Nat → St σ Op Ret
  | 0 => initSt v0
  | i + 1 => (next step bcast (ppSt i) (ppAct o1 o2 i)).getD (ppSt i)

def ppCore (i : Nat) : σ × Option Nat × Phase Op Ret × Phase Op Ret :=
  match i % 10 with
  | 0 => (v0, none, .idle, .idle)
  | 1 => (v0, none, .idle, .invoked o1)
  | 2 => (v0, some 1, .idle, .locked o1)
  | 3 => (v1, some 1, .idle, .applied o1 r1)
  | 4 => (v1, none, .idle, .released o1 r1)
  | 5 => (v1, none, .idle, .idle)
  | 6 => (v1, none, .invoked o2, .idle)
  | 7 => (v1, some 0, .locked o2, .idle)
  | 8 => (v0, some 0, .applied o2 r2, .idle)
  | _ => (v0, none, .released o2 r2, .idle)

def coreOf (s : St σ Op Ret) : σ × Option Nat × Phase Op Ret × Phase Op Ret :=
  (s.sh, s.holder, s.ph 0, s.ph 1)

theorem pp_core (h1 : step v0 o1 = some (v1, r1)) (h2 : step v1 o2 = some (v0, r2)) (i : Nat) :
    coreOf (ppSt step bcast v0 o1 o2 i) = ppCore v0 v1 o1 o2 r1 r2 i := by
  induction i with
  | zero => rfl
  | succ i ih =>
    have hm : i % 10 = 0 ∨ i % 10 = 1 ∨ i % 10 = 2 ∨ i % 10 = 3 ∨ i % 10 = 4 ∨ i % 10 = 5 ∨
      i % 10 = 6 ∨ i % 10 = 7 ∨ i % 10 = 8 ∨ i % 10 = 9 := by omega
    rcases hm with hm | hm | hm | hm | hm | hm | hm | hm | hm | hm <;>
    · have hm' : (i + 1) % 10 = (i % 10 + 1) % 10 := by omega
      simp only [hm, Nat.reduceAdd, Nat.reduceMod] at hm'
      simp only [ppCore, hm, coreOf, Prod.mk.injEq] at ih
      obtain ⟨e1, e2, e3, e4⟩ := ih
      simp [ppSt, ppAct, hm, ppCore, hm', coreOf, next, e1, e2, e3, e4, h1, h2, setPh] <;>
        (split <;> simp [wake, e3, e4])

theorem pp_exec (h1 : step v0 o1 = some (v1, r1)) (h2 : step v1 o2 = some (v0, r2)) :
    IsExec step bcast (ppSt step bcast v0 o1 o2) (ppAct o1 o2) := by
  intro i
  have hc := pp_core step bcast v0 v1 o1 o2 r1 r2 h1 h2 i
  have hm : i % 10 = 0 ∨ i % 10 = 1 ∨ i % 10 = 2 ∨ i % 10 = 3 ∨ i % 10 = 4 ∨ i % 10 = 5 ∨
    i % 10 = 6 ∨ i % 10 = 7 ∨ i % 10 = 8 ∨ i % 10 = 9 := by omega
  rcases hm with hm | hm | hm | hm | hm | hm | hm | hm | hm | hm <;>
  · simp only [ppCore, hm, coreOf, Prod.mk.injEq] at hc
    obtain ⟨e1, e2, e3, e4⟩ := hc
    simp [ppSt, ppAct, hm, next, e1, e2, e3, e4, h1, h2]

theorem pp_wf (a : Act Op) (c : Nat) (hc : ∀ i, ppAct o1 o2 (10 * i + c) = a) :
    WF step bcast (ppSt step bcast v0 o1 o2) (ppAct o1 o2) a :=
  fun i _ => ⟨10 * i + c, by omega, hc i⟩

/-- **Non-vacuity.**  Whenever `o1` leads from `v0` to `v1` and `o2` back (e.g. a put and a get
    on an empty queue), there is an infinite execution from `initSt v0` — thread 1 performs `o1`,
    then thread 0 performs `o2`, forever — that satisfies ALL hypotheses of `fair_get_returns`
    for thread 0 (weak fairness of its four actions, lock free and guard true whenever it wants
    the lock), with thread 0 `invoked` at index 6. -/
theorem pingpong_fair_exec (h1 : step v0 o1 = some (v1, r1)) (h2 : step v1 o2 = some (v0, r2)) :
    ∃ (st : Nat → St σ Op Ret) (acts : Nat → Act Op),
      IsExec step bcast st acts ∧ Reach v0 st ∧
      WF step bcast st acts (.acq 0) ∧ WF step bcast st acts (.body 0) ∧
      WF step bcast st acts (.rel 0) ∧ WF step bcast st acts (.ret 0) ∧
      (st 6).ph 0 = .invoked o2 ∧
      ∀ j, ((st j).ph 0 = .invoked o2 ∨ (st j).ph 0 = .woken o2) →
        (st j).holder = none ∧ (step (st j).sh o2).isSome := by
  refine ⟨ppSt step bcast v0 o1 o2, ppAct o1 o2, pp_exec step bcast v0 v1 o1 o2 r1 r2 h1 h2, rfl,
    pp_wf step bcast v0 o1 o2 _ 6 ?_, pp_wf step bcast v0 o1 o2 _ 7 ?_,
    pp_wf step bcast v0 o1 o2 _ 8 ?_, pp_wf step bcast v0 o1 o2 _ 9 ?_, ?_, ?_⟩
  · intro i; have : (10 * i + 6) % 10 = 6 := by omega
    simp [ppAct, this]
  · intro i; have : (10 * i + 7) % 10 = 7 := by omega
    simp [ppAct, this]
  · intro i; have : (10 * i + 8) % 10 = 8 := by omega
    simp [ppAct, this]
  · intro i; have : (10 * i + 9) % 10 = 9 := by omega
    simp [ppAct, this]
  · have hc := pp_core step bcast v0 v1 o1 o2 r1 r2 h1 h2 6
    simp only [ppCore, coreOf, Prod.mk.injEq] at hc
    exact hc.2.2.1
  · intro j hj
    have hc := pp_core step bcast v0 v1 o1 o2 r1 r2 h1 h2 j
    have hm : j % 10 = 0 ∨ j % 10 = 1 ∨ j % 10 = 2 ∨ j % 10 = 3 ∨ j % 10 = 4 ∨ j % 10 = 5 ∨
      j % 10 = 6 ∨ j % 10 = 7 ∨ j % 10 = 8 ∨ j % 10 = 9 := by omega
    rcases hm with hm | hm | hm | hm | hm | hm | hm | hm | hm | hm <;>
    · simp only [ppCore, hm, coreOf, Prod.mk.injEq] at hc
      obtain ⟨e1, e2, e3, e4⟩ := hc
      simp [e3] at hj <;> simp [e1, e2, h2]

/-- hence the conclusion of `fair_get_returns` holds on that execution (it is derived here from
    the theorem, not by inspection of the execution) -/
example (h1 : step v0 o1 = some (v1, r1)) (h2 : step v1 o2 = some (v0, r2)) :
    ∃ (st : Nat → St σ Op Ret) (acts : Nat → Act Op), IsExec step bcast st acts ∧
      ∃ j, 6 < j ∧ (st j).ph 0 = .idle ∧ ∃ r l, (st j).log = .ret 0 o2 r :: l := by
  obtain ⟨st, acts, hE, h0, a, b, c, d, hp, hG⟩ :=
    pingpong_fair_exec step bcast v0 v1 o1 o2 r1 r2 h1 h2
  exact ⟨st, acts, hE,
    fair_get_returns hE v0 h0 0 o2 a b c d 6 (Or.inl hp) (fun j _ h => hG j h)⟩

end pingpong
end Conc.Cond
