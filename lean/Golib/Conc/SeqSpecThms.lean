/-
  Golib.Conc.SeqSpecThms — the structure invariant of the sequential dictionary spec
  (distinct keys) is preserved by every point operation; used with `Conc.no_corruption` to
  conclude that it holds in every reachable state of the concurrent machine.
-/
import Golib.Conc.SeqSpec

namespace SeqSpec

theorem keys_replace (k v : Nat) (m : MSt) : (replace k v m).map (·.1) = m.map (·.1) := by
  induction m with
  | nil => rfl
  | cons e r ih =>
    obtain ⟨k', v'⟩ := e
    simp only [replace]
    split
    · rename_i h; simp [h]
    · simp [ih]

theorem keys_erase_sublist (k : Nat) (m : MSt) : ((erase k m).map (·.1)).Sublist (m.map (·.1)) := by
  induction m with
  | nil => simp [erase]
  | cons e r ih =>
    obtain ⟨k', v'⟩ := e
    simp only [erase]
    split
    · simp
    · simpa using ih

theorem hasKey_iff (k : Nat) (m : MSt) : hasKey k m = true ↔ k ∈ m.map (·.1) := by
  simp [hasKey, List.any_eq_true]

theorem mstep_keysNodup (m : MSt) (op : MOp) (h : keysNodup m) : keysNodup (mstep m op).1 := by
  unfold keysNodup at *
  cases op with
  | put k v =>
    simp only [mstep]
    split
    · simpa [keys_replace] using h
    · rename_i hk
      have : k ∉ m.map (·.1) := fun hmem => hk ((hasKey_iff k m).2 hmem)
      simp only [List.map_append, List.map_cons, List.map_nil]
      exact List.nodup_append.2 ⟨h, by simp, by
        intro a ha b hb; simp at hb; subst hb; intro e; subst e; exact this ha⟩
  | get k => simpa [mstep] using h
  | has k => simpa [mstep] using h
  | rem k => exact List.Nodup.sublist (keys_erase_sublist k m) h
  | remFirst =>
    cases m with
    | nil => simp [mstep]
    | cons e r => obtain ⟨k, v⟩ := e; simp only [mstep]; simp at h; exact h.2
  | remLast =>
    simp only [mstep]
    split
    · simp
    · exact List.Nodup.sublist ((List.dropLast_sublist m).map _) h
  | size => simpa [mstep] using h
  | empty => simpa [mstep] using h
  | clear => simp [mstep]

theorem keysNodup_nil : keysNodup [] := by simp [keysNodup]

end SeqSpec
