/-
  Golib.Conc.Mutex — the *mutex object* machine (DESIGN Appendix A.5).

  Threads are natural numbers (unboundedly many); a schedule is an arbitrary list of actions; the
  body of an operation is split into `load` and `store` so that atomicity is a *consequence* of the
  lock, not an assumption.  `MInv` is preserved by every action, hence holds after every schedule:
  mutual exclusion, "my snapshot is still the shared state", shared state = sequential replay of
  the linearization events, recorded return values = sequential return values.
-/

namespace Conc

inductive Phase (σ Op Ret : Type) where
  | idle
  | invoked (op : Op)
  | locked (op : Op)
  | loaded (op : Op) (s : σ)
  | applied (op : Op) (r : Ret)
  | released (op : Op) (r : Ret)

inductive Ev (Op Ret : Type) where
  | inv (t : Nat) (op : Op)
  | lin (t : Nat) (op : Op) (r : Ret)
  | ret (t : Nat) (op : Op) (r : Ret)

inductive Act (Op : Type) where
  | inv (t : Nat) (op : Op) | acq (t : Nat) | load (t : Nat) | store (t : Nat) | rel (t : Nat) | ret (t : Nat)

structure St (σ Op Ret : Type) where
  sh : σ
  holder : Option Nat
  ph : Nat → Phase σ Op Ret
  log : List (Ev Op Ret)      -- newest first

variable {σ Op Ret : Type} (step : σ → Op → σ × Ret)

def setPh (f : Nat → Phase σ Op Ret) (t : Nat) (p : Phase σ Op Ret) : Nat → Phase σ Op Ret :=
  fun u => if u = t then p else f u

def next (s : St σ Op Ret) : Act Op → Option (St σ Op Ret)
  | .inv t op => match s.ph t with
      | .idle => some { s with ph := setPh s.ph t (.invoked op), log := .inv t op :: s.log }
      | _ => none
  | .acq t => match s.ph t, s.holder with
      | .invoked op, none => some { s with ph := setPh s.ph t (.locked op), holder := some t }
      | _, _ => none
  | .load t => match s.ph t with
      | .locked op => some { s with ph := setPh s.ph t (.loaded op s.sh) }
      | _ => none
  | .store t => match s.ph t with
      | .loaded op v => let (v', r) := step v op
          some { s with sh := v', ph := setPh s.ph t (.applied op r), log := .lin t op r :: s.log }
      | _ => none
  | .rel t => match s.ph t with
      | .applied op r => some { s with ph := setPh s.ph t (.released op r), holder := none }
      | _ => none
  | .ret t => match s.ph t with
      | .released op r => some { s with ph := setPh s.ph t .idle, log := .ret t op r :: s.log }
      | _ => none

def runActs (s : St σ Op Ret) : List (Act Op) → Option (St σ Op Ret)
  | [] => some s
  | a :: as => match next step s a with
      | some s' => runActs s' as
      | none => none

-- sequential replay of the linearization events (log is newest-first)
def seqState (init : σ) : List (Ev Op Ret) → σ
  | [] => init
  | .lin _ op _ :: rest => (step (seqState init rest) op).1
  | _ :: rest => seqState init rest

def retsOk (init : σ) : List (Ev Op Ret) → Prop
  | [] => True
  | .lin _ op r :: rest => (step (seqState step init rest) op).2 = r ∧ retsOk init rest
  | _ :: rest => retsOk init rest

def inCS : Phase σ Op Ret → Prop
  | .locked _ | .loaded _ _ | .applied _ _ => True
  | _ => False

structure MInv (init : σ) (s : St σ Op Ret) : Prop where
  mutex : ∀ t, inCS (s.ph t) → s.holder = some t
  fresh : ∀ t op v, s.ph t = .loaded op v → s.sh = v
  seq   : s.sh = seqState step init s.log
  rets  : retsOk step init s.log

theorem inv_next (init : σ) (s s' : St σ Op Ret) (a : Act Op) (h : MInv step init s)
    (hn : next step s a = some s') : MInv step init s' := by
  cases a with
  | inv t op =>
    simp only [next] at hn
    split at hn <;> simp at hn
    subst hn
    refine ⟨?_, ?_, ?_, ?_⟩
    · intro u hu; simp only [setPh] at hu; split at hu
      · simp [inCS] at hu
      · exact h.mutex u hu
    · intro u op' v hu; simp only [setPh] at hu; split at hu
      · simp at hu
      · exact h.fresh u op' v hu
    · simpa [seqState] using h.seq
    · simpa [retsOk] using h.rets
  | acq t =>
    simp only [next] at hn
    split at hn <;> simp at hn
    rename_i op hph hhold
    subst hn
    refine ⟨?_, ?_, h.seq, h.rets⟩
    · intro u hu; simp only [setPh] at hu; split at hu
      · rename_i e; simp [e]
      · have := h.mutex u hu; rw [hhold] at this; simp at this
    · intro u op' v hu; simp only [setPh] at hu; split at hu
      · simp at hu
      · exact h.fresh u op' v hu
  | load t =>
    simp only [next] at hn
    split at hn <;> simp at hn
    rename_i op hph
    subst hn
    have ht : s.holder = some t := h.mutex t (by rw [hph]; trivial)
    refine ⟨?_, ?_, h.seq, h.rets⟩
    · intro u hu; simp only [setPh] at hu; split at hu
      · rename_i e; subst e; exact ht
      · exact h.mutex u hu
    · intro u op' v hu; simp only [setPh] at hu; split at hu
      · simp at hu; exact hu.2
      · exact h.fresh u op' v hu
  | store t =>
    simp only [next] at hn
    split at hn <;> simp at hn
    rename_i op v hph
    subst hn
    have ht : s.holder = some t := h.mutex t (by rw [hph]; trivial)
    have hv : s.sh = v := h.fresh t op v hph
    refine ⟨?_, ?_, ?_, ?_⟩
    · intro u hu; simp only [setPh] at hu; split at hu
      · rename_i e; subst e; exact ht
      · exact h.mutex u hu
    · intro u op' w hu; simp only [setPh] at hu; split at hu
      · simp at hu
      · rename_i hne
        have hcs : inCS (s.ph u) := by rw [hu]; trivial
        have := h.mutex u hcs; rw [ht] at this; simp at this; exact absurd this.symm hne
    · simp only [seqState]; rw [← h.seq, hv]
    · simp only [retsOk]; refine ⟨?_, h.rets⟩; rw [← h.seq, hv]
  | rel t =>
    simp only [next] at hn
    split at hn <;> simp at hn
    rename_i op r hph
    subst hn
    have ht : s.holder = some t := h.mutex t (by rw [hph]; trivial)
    refine ⟨?_, ?_, h.seq, h.rets⟩
    · intro u hu; simp only [setPh] at hu; split at hu
      · simp [inCS] at hu
      · rename_i hne
        have := h.mutex u hu; rw [ht] at this; simp at this; exact absurd this.symm hne
    · intro u op' v hu; simp only [setPh] at hu; split at hu
      · simp at hu
      · exact h.fresh u op' v hu
  | ret t =>
    simp only [next] at hn
    split at hn <;> simp at hn
    subst hn
    refine ⟨?_, ?_, ?_, ?_⟩
    · intro u hu; simp only [setPh] at hu; split at hu
      · simp [inCS] at hu
      · exact h.mutex u hu
    · intro u op' v hu; simp only [setPh] at hu; split at hu
      · simp at hu
      · exact h.fresh u op' v hu
    · simpa [seqState] using h.seq
    · simpa [retsOk] using h.rets

theorem inv_run (init : σ) (s s' : St σ Op Ret) (as : List (Act Op)) (h : MInv step init s)
    (hr : runActs step s as = some s') : MInv step init s' := by
  induction as generalizing s with
  | nil => simp [runActs] at hr; subst hr; exact h
  | cons a as ih =>
    simp only [runActs] at hr
    split at hr
    · rename_i s1 h1; exact ih s1 (inv_next step init s s1 a h h1) hr
    · simp at hr

/-! ### Reachable states -/

/-- the initial state: nobody holds the lock, every thread idle, empty log -/
def initSt (init : σ) : St σ Op Ret :=
  { sh := init, holder := none, ph := fun _ => .idle, log := [] }

theorem MInv_init (init : σ) : MInv step init (initSt (Op := Op) (Ret := Ret) init) := by
  refine ⟨?_, ?_, ?_, ?_⟩
  · intro t ht; simp [initSt, inCS] at ht
  · intro t op v ht; simp [initSt] at ht
  · simp [initSt, seqState]
  · simp [initSt, retsOk]

/-- every state reachable from the initial state by *any* schedule satisfies the invariant -/
theorem reachable_inv (init : σ) (as : List (Act Op)) (s : St σ Op Ret)
    (h : runActs step (initSt init) as = some s) : MInv step init s :=
  inv_run step init _ s as (MInv_init step init) h

/-- mutual exclusion: in a reachable state at most one thread is inside the critical section -/
theorem mutual_exclusion (init : σ) (as : List (Act Op)) (s : St σ Op Ret)
    (h : runActs step (initSt init) as = some s) (t u : Nat)
    (ht : inCS (s.ph t)) (hu : inCS (s.ph u)) : t = u := by
  have hI := reachable_inv step init as s h
  have h1 := hI.mutex t ht
  have h2 := hI.mutex u hu
  rw [h1] at h2
  exact Option.some.inj h2

theorem seqState_inv (I : σ → Prop) (init : σ) (h0 : I init)
    (hs : ∀ v op, I v → I (step v op).1) (log : List (Ev Op Ret)) :
    I (seqState step init log) := by
  induction log with
  | nil => simpa [seqState] using h0
  | cons e rest ih =>
    cases e with
    | inv t op => simpa [seqState] using ih
    | lin t op r => simp only [seqState]; exact hs _ _ ih
    | ret t op r => simpa [seqState] using ih

/-- no corruption: a structure invariant `I` of the *sequential* object (true initially, preserved
    by every sequential `step`) holds of the shared state in every reachable state of the concurrent
    machine, and every snapshot a thread is working on satisfies it too. -/
theorem no_corruption (init : σ) (I : σ → Prop) (h0 : I init)
    (hs : ∀ v op, I v → I (step v op).1) (as : List (Act Op)) (s : St σ Op Ret)
    (h : runActs step (initSt init) as = some s) :
    I s.sh ∧ ∀ t op v, s.ph t = .loaded op v → I v := by
  have hI := reachable_inv step init as s h
  have hsh : I s.sh := by rw [hI.seq]; exact seqState_inv step I init h0 hs s.log
  refine ⟨hsh, ?_⟩
  intro t op v hph
  rw [← hI.fresh t op v hph]; exact hsh

theorem runActs_append (s : St σ Op Ret) (as bs : List (Act Op)) :
    runActs step s (as ++ bs) = (runActs step s as).bind (fun s' => runActs step s' bs) := by
  induction as generalizing s with
  | nil => simp [runActs]
  | cons a as ih =>
    simp only [List.cons_append, runActs]
    split
    · exact ih _
    · simp

end Conc
