/-
  Golib.Conc.WellNested — per-thread well-nestedness of the inv/lin/ret events of the mutex object
  machine (`Golib.Conc.Mutex`).  Together with `MInv` this is Herlihy–Wing linearizability with
  explicit linearization points: every thread's events read, oldest first,
  `(inv op · lin op r · ret op r)*` followed by an optional pending tail, so each `lin` lies inside
  the interval of its operation, the value returned is the linearized one, and the `lin` events in
  log order are a legal sequential history of the object that respects real-time order.
-/
import Golib.Conc.Mutex

namespace Conc

variable {σ Op Ret : Type}

/-- abstract per-thread state as seen from the event log -/
inductive TS (Op Ret : Type) where
  | idle
  | pending (op : Op)
  | done (op : Op) (r : Ret)

/-- the per-thread three-state automaton, run over the newest-first log -/
def tstate : List (Ev Op Ret) → Nat → TS Op Ret
  | [], _ => .idle
  | .inv t op :: rest, u => if u = t then .pending op else tstate rest u
  | .lin t op r :: rest, u => if u = t then .done op r else tstate rest u
  | .ret t _ _ :: rest, u => if u = t then .idle else tstate rest u

/-- well-nestedness of a newest-first log -/
def wn : List (Ev Op Ret) → Prop
  | [] => True
  | .inv t _ :: rest => tstate rest t = .idle ∧ wn rest
  | .lin t op _ :: rest => tstate rest t = .pending op ∧ wn rest
  | .ret t op r :: rest => tstate rest t = .done op r ∧ wn rest

def absPh : Phase σ Op Ret → TS Op Ret
  | .idle => .idle
  | .invoked op | .locked op | .loaded op _ => .pending op
  | .applied op r | .released op r => .done op r

structure WInv (s : St σ Op Ret) : Prop where
  wn : wn s.log
  agree : ∀ t, absPh (s.ph t) = tstate s.log t

variable (step : σ → Op → σ × Ret)

theorem winv_next (s s' : St σ Op Ret) (a : Act Op) (h : WInv s)
    (hn : next step s a = some s') : WInv s' := by
  cases a with
  | inv t op =>
    simp only [next] at hn
    split at hn <;> simp at hn
    rename_i hph
    subst hn
    have ht := h.agree t
    rw [hph] at ht
    refine ⟨⟨ht.symm, h.wn⟩, ?_⟩
    intro u
    simp only [setPh, tstate]
    split
    · rfl
    · exact h.agree u
  | acq t =>
    simp only [next] at hn
    split at hn <;> simp at hn
    rename_i op hph hhold
    subst hn
    refine ⟨h.wn, ?_⟩
    intro u
    simp only [setPh]
    split
    · rename_i e; subst e; rw [← h.agree u, hph]; rfl
    · exact h.agree u
  | load t =>
    simp only [next] at hn
    split at hn <;> simp at hn
    rename_i op hph
    subst hn
    refine ⟨h.wn, ?_⟩
    intro u
    simp only [setPh]
    split
    · rename_i e; subst e; rw [← h.agree u, hph]; rfl
    · exact h.agree u
  | store t =>
    simp only [next] at hn
    split at hn <;> simp at hn
    rename_i op v hph
    subst hn
    have ht := h.agree t
    rw [hph] at ht
    refine ⟨⟨ht.symm, h.wn⟩, ?_⟩
    intro u
    simp only [setPh, tstate]
    split
    · rfl
    · exact h.agree u
  | rel t =>
    simp only [next] at hn
    split at hn <;> simp at hn
    rename_i op r hph
    subst hn
    refine ⟨h.wn, ?_⟩
    intro u
    simp only [setPh]
    split
    · rename_i e; subst e; rw [← h.agree u, hph]; rfl
    · exact h.agree u
  | ret t =>
    simp only [next] at hn
    split at hn <;> simp at hn
    rename_i op r hph
    subst hn
    have ht := h.agree t
    rw [hph] at ht
    refine ⟨⟨ht.symm, h.wn⟩, ?_⟩
    intro u
    simp only [setPh, tstate]
    split
    · rfl
    · exact h.agree u

theorem winv_run (s s' : St σ Op Ret) (as : List (Act Op)) (h : WInv s)
    (hr : runActs step s as = some s') : WInv s' := by
  induction as generalizing s with
  | nil => simp [runActs] at hr; subst hr; exact h
  | cons a as ih =>
    simp only [runActs] at hr
    split at hr
    · rename_i s1 h1; exact ih s1 (winv_next step s s1 a h h1) hr
    · simp at hr

theorem WInv_init (init : σ) : WInv (initSt (Op := Op) (Ret := Ret) init) :=
  ⟨trivial, fun _ => rfl⟩

theorem reachable_winv (init : σ) (as : List (Act Op)) (s : St σ Op Ret)
    (h : runActs step (initSt init) as = some s) : WInv s :=
  winv_run step _ s as (WInv_init init) h

/-- **Linearizability of the mutex-protected object, for every schedule.**  In every reachable
    state the event log is well nested per thread (each operation's `lin` lies between its `inv`
    and its `ret`, and the `ret` carries the linearized return value), the return values recorded
    at the linearization points are those of the sequential object replayed in linearization
    order, and the shared state is the result of that sequential replay. -/
theorem mutex_linearizable (init : σ) (as : List (Act Op)) (s : St σ Op Ret)
    (h : runActs step (initSt init) as = some s) :
    wn s.log ∧ retsOk step init s.log ∧ s.sh = seqState step init s.log :=
  have hI := reachable_inv step init as s h
  ⟨(reachable_winv step init as s h).wn, hI.rets, hI.seq⟩

/-! ### (a) The linearization is a legal sequential history -/

/-- the `lin` events of a newest-first log, in chronological order: `(thread, op, result)` -/
def linOps : List (Ev Op Ret) → List (Nat × Op × Ret)
  | [] => []
  | .lin t op r :: rest => linOps rest ++ [(t, op, r)]
  | _ :: rest => linOps rest

/-- final state of the sequential object after a chronological list of operations -/
def runOps : List (Nat × Op × Ret) → σ → σ
  | [], v => v
  | (_, op, _) :: xs, v => runOps xs (step v op).1

/-- sequential legality: each recorded result is what `step` returns from the state reached so far -/
def legal : List (Nat × Op × Ret) → σ → Prop
  | [], _ => True
  | (_, op, r) :: xs, v => (step v op).2 = r ∧ legal xs (step v op).1

theorem linOps_append (a b : List (Ev Op Ret)) : linOps (a ++ b) = linOps b ++ linOps a := by
  induction a with
  | nil => simp [linOps]
  | cons e a ih =>
    cases e <;> simp [linOps, ih]

theorem runOps_append (xs ys : List (Nat × Op × Ret)) (v : σ) :
    runOps step (xs ++ ys) v = runOps step ys (runOps step xs v) := by
  induction xs generalizing v with
  | nil => rfl
  | cons x xs ih => obtain ⟨t, op, r⟩ := x; simp [runOps, ih]

theorem legal_append (xs ys : List (Nat × Op × Ret)) (v : σ) :
    legal step (xs ++ ys) v ↔ legal step xs v ∧ legal step ys (runOps step xs v) := by
  induction xs generalizing v with
  | nil => simp [legal, runOps]
  | cons x xs ih => obtain ⟨t, op, r⟩ := x; simp [legal, runOps, ih, and_assoc]

theorem seqState_runOps (init : σ) (log : List (Ev Op Ret)) :
    seqState step init log = runOps step (linOps log) init := by
  induction log with
  | nil => rfl
  | cons e rest ih =>
    cases e with
    | inv t op => simpa [seqState, linOps] using ih
    | lin t op r => simp [seqState, linOps, runOps_append, runOps, ih]
    | ret t op r => simpa [seqState, linOps] using ih

/-- `retsOk` (stated on the newest-first log) is exactly sequential legality of the chronological
    list of linearization points -/
theorem retsOk_legal (init : σ) (log : List (Ev Op Ret)) :
    retsOk step init log ↔ legal step (linOps log) init := by
  induction log with
  | nil => simp [retsOk, linOps, legal]
  | cons e rest ih =>
    cases e with
    | inv t op => simpa [retsOk, linOps] using ih
    | lin t op r =>
      simp [retsOk, linOps, legal_append, legal, ih, seqState_runOps, and_comm]
    | ret t op r => simpa [retsOk, linOps] using ih

/-! ### (b) every response is matched by its linearization point and its invocation -/

def evThread : Ev Op Ret → Nat
  | .inv t _ | .lin t _ _ | .ret t _ _ => t

theorem wn_of_append (a b : List (Ev Op Ret)) (h : wn (a ++ b)) : wn b := by
  induction a with
  | nil => exact h
  | cons e a ih => cases e <;> exact ih h.2

/-- if the log says thread `t` has a linearized operation, the newest event of `t` is that `lin` -/
theorem tstate_done (l : List (Ev Op Ret)) (t : Nat) (op : Op) (r : Ret)
    (h : tstate l t = .done op r) :
    ∃ a b, l = a ++ .lin t op r :: b ∧ ∀ e ∈ a, evThread e ≠ t := by
  induction l with
  | nil => simp [tstate] at h
  | cons e l ih =>
    cases e with
    | inv u op' =>
      simp only [tstate] at h
      split at h
      · simp at h
      · rename_i hne
        obtain ⟨a, b, hl, ha⟩ := ih h
        refine ⟨.inv u op' :: a, b, by simp [hl], ?_⟩
        intro e he
        rcases List.mem_cons.1 he with rfl | he
        · exact fun h' => hne h'.symm
        · exact ha e he
    | lin u op' r' =>
      simp only [tstate] at h
      split at h
      · rename_i e; subst e
        simp at h
        obtain ⟨rfl, rfl⟩ := h
        exact ⟨[], l, rfl, by simp⟩
      · rename_i hne
        obtain ⟨a, b, hl, ha⟩ := ih h
        refine ⟨.lin u op' r' :: a, b, by simp [hl], ?_⟩
        intro e he
        rcases List.mem_cons.1 he with rfl | he
        · exact fun h' => hne h'.symm
        · exact ha e he
    | ret u op' r' =>
      simp only [tstate] at h
      split at h
      · simp at h
      · rename_i hne
        obtain ⟨a, b, hl, ha⟩ := ih h
        refine ⟨.ret u op' r' :: a, b, by simp [hl], ?_⟩
        intro e he
        rcases List.mem_cons.1 he with rfl | he
        · exact fun h' => hne h'.symm
        · exact ha e he

/-- if the log says thread `t` has a pending operation, the newest event of `t` is its `inv` -/
theorem tstate_pending (l : List (Ev Op Ret)) (t : Nat) (op : Op)
    (h : tstate l t = .pending op) :
    ∃ a b, l = a ++ .inv t op :: b ∧ ∀ e ∈ a, evThread e ≠ t := by
  induction l with
  | nil => simp [tstate] at h
  | cons e l ih =>
    cases e with
    | inv u op' =>
      simp only [tstate] at h
      split at h
      · rename_i e; subst e
        simp at h
        subst h
        exact ⟨[], l, rfl, by simp⟩
      · rename_i hne
        obtain ⟨a, b, hl, ha⟩ := ih h
        refine ⟨.inv u op' :: a, b, by simp [hl], ?_⟩
        intro e he
        rcases List.mem_cons.1 he with rfl | he
        · exact fun h' => hne h'.symm
        · exact ha e he
    | lin u op' r' =>
      simp only [tstate] at h
      split at h
      · simp at h
      · rename_i hne
        obtain ⟨a, b, hl, ha⟩ := ih h
        refine ⟨.lin u op' r' :: a, b, by simp [hl], ?_⟩
        intro e he
        rcases List.mem_cons.1 he with rfl | he
        · exact fun h' => hne h'.symm
        · exact ha e he
    | ret u op' r' =>
      simp only [tstate] at h
      split at h
      · simp at h
      · rename_i hne
        obtain ⟨a, b, hl, ha⟩ := ih h
        refine ⟨.ret u op' r' :: a, b, by simp [hl], ?_⟩
        intro e he
        rcases List.mem_cons.1 he with rfl | he
        · exact fun h' => hne h'.symm
        · exact ha e he

/-- events of other threads do not change what the log says about thread `t` -/
theorem tstate_skip (a b : List (Ev Op Ret)) (t : Nat) (ha : ∀ e ∈ a, evThread e ≠ t) :
    tstate (a ++ b) t = tstate b t := by
  induction a with
  | nil => rfl
  | cons e a ih =>
    have he : evThread e ≠ t := ha e (List.mem_cons_self ..)
    have ih' := ih (fun e' h' => ha e' (List.mem_cons_of_mem _ h'))
    cases e <;> simp only [evThread] at he <;>
      (simp only [List.cons_append, tstate, ih']; exact if_neg (fun h' => he h'.symm))

/-- **Every response matches its linearization point.**  In a well-nested (newest-first) log,
    every `.ret t op r` event is preceded (older) by a `.lin t op r` event of the same thread with
    the same operation and the same result, with no event of thread `t` in between (`a`), and that
    in turn is preceded by the `.inv t op`, again with no event of `t` in between (`b`): the
    linearization point lies inside the operation's interval and the value returned to the caller
    is the value computed at the linearization point. -/
theorem complete_ret_matches_lin (l2 l1 : List (Ev Op Ret)) (t : Nat) (op : Op) (r : Ret)
    (h : wn (l2 ++ .ret t op r :: l1)) :
    ∃ a b c, l1 = a ++ .lin t op r :: (b ++ .inv t op :: c) ∧
      (∀ e ∈ a, evThread e ≠ t) ∧ (∀ e ∈ b, evThread e ≠ t) := by
  have h1 := wn_of_append _ _ h
  obtain ⟨a, l0, hl1, ha⟩ := tstate_done l1 t op r h1.1
  have h0 : wn (.lin t op r :: l0) := by
    apply wn_of_append a; rw [← hl1]; exact h1.2
  obtain ⟨b, c, hl0, hb⟩ := tstate_pending l0 t op h0.1
  exact ⟨a, b, c, by rw [hl1, hl0], ha, hb⟩

/-- the first event of thread `t` after its `.inv t op` is the linearization point of that very
    operation -/
theorem next_after_inv_is_lin (d d' c : List (Ev Op Ret)) (e : Ev Op Ret) (t : Nat) (op : Op)
    (h : wn (d ++ e :: (d' ++ .inv t op :: c))) (he : evThread e = t)
    (hd' : ∀ e' ∈ d', evThread e' ≠ t) : ∃ r, e = .lin t op r := by
  have h1 := wn_of_append _ _ h
  have hts : tstate (d' ++ .inv t op :: c) t = .pending op := by
    rw [tstate_skip _ _ _ hd']; simp [tstate]
  cases e with
  | inv u op' => simp only [evThread] at he; subst he; have := h1.1; rw [hts] at this; simp at this
  | lin u op' r' =>
    simp only [evThread] at he; subst he; have := h1.1; rw [hts] at this
    simp at this; subst this; exact ⟨r', rfl⟩
  | ret u op' r' => simp only [evThread] at he; subst he; have := h1.1; rw [hts] at this; simp at this

/-! ### (c) real-time order -/

/-- **Real-time order is respected by the linearization.**  Take a well-nested newest-first log in
    which operation 1 (`t1`, `op1`) *returned* before operation 2 (`t2`, `op2`) was *invoked*:
    `log = l3 ++ .inv t2 op2 :: l2 ++ .ret t1 op1 r1 :: l1`.  Suppose operation 2 has been
    linearized, i.e. the first event of `t2` after that `inv` (no `t2` event in `d'`) is a `lin`.
    Then (i) that `lin` is for `op2`; (ii) the linearization point belonging to the `ret` of
    operation 1 lies in `l1` (it is the newest `t1` event of `l1`: no `t1` event in `a`), hence is
    older than the `ret`, which is older than the `inv`, which is older than operation 2's `lin`;
    and (iii) in the sequential witness `linOps log` operation 1 therefore stands before
    operation 2, with exactly the displayed sublists before, between and after them. -/
theorem realtime_order (l1 l2 d d' : List (Ev Op Ret)) (t1 t2 : Nat) (op1 op2 op2' : Op)
    (r1 r2 : Ret)
    (h : wn ((d ++ .lin t2 op2' r2 :: d') ++ .inv t2 op2 :: (l2 ++ .ret t1 op1 r1 :: l1)))
    (hd' : ∀ e ∈ d', evThread e ≠ t2) :
    op2' = op2 ∧
    ∃ a b, l1 = a ++ .lin t1 op1 r1 :: b ∧ (∀ e ∈ a, evThread e ≠ t1) ∧
      linOps ((d ++ .lin t2 op2' r2 :: d') ++ .inv t2 op2 :: (l2 ++ .ret t1 op1 r1 :: l1))
        = linOps b ++ (t1, op1, r1) :: (linOps a ++ linOps l2 ++ linOps d')
            ++ (t2, op2, r2) :: linOps d := by
  have hop : op2' = op2 := by
    have h' : wn (d ++ .lin t2 op2' r2 :: (d' ++ .inv t2 op2 :: (l2 ++ .ret t1 op1 r1 :: l1))) := by
      simpa using h
    obtain ⟨r, hr⟩ := next_after_inv_is_lin d d' _ _ t2 op2 h' rfl hd'
    simp at hr; exact hr.1
  refine ⟨hop, ?_⟩
  have h'' : wn (((d ++ .lin t2 op2' r2 :: d') ++ .inv t2 op2 :: l2) ++ .ret t1 op1 r1 :: l1) := by
    simpa using h
  obtain ⟨a, b, c, hl1, ha, _⟩ := complete_ret_matches_lin _ _ t1 op1 r1 h''
  refine ⟨a, b ++ .inv t1 op1 :: c, hl1, ha, ?_⟩
  subst hop
  rw [hl1]
  simp [linOps_append, linOps]

/-! ### The consequences for reachable states, on the chronological history `s.log.reverse` -/

/-- Herlihy–Wing linearizability of every reachable state, in sequential-history form: the log is
    well nested, the chronological list of linearization points `linOps s.log` is a legal
    sequential history of the object from `init`, and the shared state is its final state. -/
theorem mutex_herlihy_wing (init : σ) (as : List (Act Op)) (s : St σ Op Ret)
    (h : runActs step (initSt init) as = some s) :
    wn s.log ∧ legal step (linOps s.log) init ∧ s.sh = runOps step (linOps s.log) init := by
  obtain ⟨h1, h2, h3⟩ := mutex_linearizable step init as s h
  exact ⟨h1, (retsOk_legal step init s.log).1 h2, by rw [h3, seqState_runOps]⟩

/-- chronological form of `complete_ret_matches_lin` for reachable states: whenever the history
    (oldest first) is `p ++ [ret t op r] ++ q`, then `p` ends with
    `… inv t op, (no t), lin t op r, (no t)`. -/
theorem hist_ret_matches_lin (init : σ) (as : List (Act Op)) (s : St σ Op Ret)
    (h : runActs step (initSt init) as = some s)
    (p q : List (Ev Op Ret)) (t : Nat) (op : Op) (r : Ret)
    (hh : s.log.reverse = p ++ .ret t op r :: q) :
    ∃ c b a, p = c ++ .inv t op :: (b ++ .lin t op r :: a) ∧
      (∀ e ∈ b, evThread e ≠ t) ∧ (∀ e ∈ a, evThread e ≠ t) := by
  have hw := (mutex_linearizable step init as s h).1
  have hl : s.log = q.reverse ++ .ret t op r :: p.reverse := by
    have := congrArg List.reverse hh
    simpa using this
  rw [hl] at hw
  obtain ⟨a, b, c, hp, ha, hb⟩ := complete_ret_matches_lin _ _ t op r hw
  refine ⟨c.reverse, b.reverse, a.reverse, ?_, ?_, ?_⟩
  · have := congrArg List.reverse hp
    simpa using this
  · intro e he; exact hb e (List.mem_reverse.1 he)
  · intro e he; exact ha e (List.mem_reverse.1 he)

/-- chronological form of `realtime_order` for reachable states: if operation 1 returned before
    operation 2 was invoked and operation 2 has been linearized
    (`hist = p ++ [ret t1 op1 r1] ++ m ++ [inv t2 op2] ++ n' ++ [lin t2 op2' r2] ++ n`, no event of
    `t2` in `n'`), then `op2' = op2`, operation 1's linearization point is in `p` (the last `t1`
    event of `p`), and in the sequential witness `linOps s.log` operation 1 stands before
    operation 2. -/
theorem hist_realtime_order (init : σ) (as : List (Act Op)) (s : St σ Op Ret)
    (h : runActs step (initSt init) as = some s)
    (p m n' n : List (Ev Op Ret)) (t1 t2 : Nat) (op1 op2 op2' : Op) (r1 r2 : Ret)
    (hh : s.log.reverse =
      p ++ .ret t1 op1 r1 :: (m ++ .inv t2 op2 :: (n' ++ .lin t2 op2' r2 :: n)))
    (hn' : ∀ e ∈ n', evThread e ≠ t2) :
    op2' = op2 ∧
    ∃ b a, p = b ++ .lin t1 op1 r1 :: a ∧ (∀ e ∈ a, evThread e ≠ t1) ∧
      ∃ xs ys zs, linOps s.log = xs ++ (t1, op1, r1) :: ys ++ (t2, op2, r2) :: zs ∧
        xs = linOps b.reverse ∧
        ys = linOps a.reverse ++ linOps m.reverse ++ linOps n'.reverse ∧
        zs = linOps n.reverse := by
  have hw := (mutex_linearizable step init as s h).1
  have hl : s.log = (n.reverse ++ .lin t2 op2' r2 :: n'.reverse) ++ .inv t2 op2 ::
      (m.reverse ++ .ret t1 op1 r1 :: p.reverse) := by
    have := congrArg List.reverse hh
    simpa using this
  rw [hl] at hw
  obtain ⟨hop, a, b, hp, ha, hlin⟩ := realtime_order _ _ _ _ t1 t2 op1 op2 op2' r1 r2 hw
    (fun e he => hn' e (List.mem_reverse.1 he))
  refine ⟨hop, b.reverse, a.reverse, ?_, ?_, ?_⟩
  · have := congrArg List.reverse hp
    simpa using this
  · intro e he; exact ha e (List.mem_reverse.1 he)
  · exact ⟨_, _, _, by rw [hl, hlin], by simp, by simp, rfl⟩

/-! ### Non-vacuity: a concrete interleaved schedule of two threads on a counter -/

/-- fetch-and-increment counter -/
def ctrStep : Nat → Unit → Nat × Nat := fun n _ => (n + 1, n)

/-- thread 0 and thread 1 both invoke; thread 1 wins the lock and runs its body while thread 0 is
    pending; thread 0 then takes the lock *before* thread 1 has returned; returns interleaved. -/
def demoSched : List (Act Unit) :=
  [.inv 0 (), .inv 1 (), .acq 1, .load 1, .store 1, .rel 1,
   .acq 0, .load 0, .ret 1, .store 0, .rel 0, .ret 0]

example : (runActs ctrStep (initSt 0) demoSched).map (fun s => (s.sh, s.holder, s.log)) =
    some (2, none,
      [.ret 0 () 1, .lin 0 () 1, .ret 1 () 0, .lin 1 () 0, .inv 1 (), .inv 0 ()]) := by
  rfl

/-- the hypotheses of `mutex_linearizable` are satisfiable by that schedule -/
example : ∃ s, runActs ctrStep (initSt 0) demoSched = some s :=
  Option.isSome_iff_exists.1 (by rfl)

/-- and its conclusion, evaluated on the resulting log -/
example : linOps ([.ret 0 () 1, .lin 0 () 1, .ret 1 () 0, .lin 1 () 0, .inv 1 (), .inv 0 ()] :
    List (Ev Unit Nat)) = [(1, (), 0), (0, (), 1)] := by rfl

example : legal ctrStep [(1, (), 0), (0, (), 1)] 0 := by simp [legal, ctrStep]

example : wn ([.ret 0 () 1, .lin 0 () 1, .ret 1 () 0, .lin 1 () 0, .inv 1 (), .inv 0 ()] :
    List (Ev Unit Nat)) := by simp [wn, tstate]

/-- a log that is *not* well nested (a response without a linearization point) is rejected -/
example : ¬ wn ([.ret 0 () 0, .inv 0 ()] : List (Ev Unit Nat)) := by simp [wn, tstate]

/-- the lock cannot be taken twice: the schedule is rejected by the machine -/
example : (runActs ctrStep (initSt 0) [.inv 0 (), .inv 1 (), .acq 1, .acq 0]).isNone = true := by
  rfl

end Conc
