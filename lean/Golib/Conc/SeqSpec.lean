/-
  Golib.Conc.SeqSpec — the sequential specifications the shared collections are linearizable
  against, restricted to their *point operations*:

    * `MSpec`  insertion-ordered dictionary (the 17 hash maps / sets of util/hmap; a set is a map
               whose values are all 1): put / get / has / remove / removeFirst / removeLast /
               size / isEmpty / clear.  (The bucket-level CodeModel and its refinement to this
               spec are properties C09 / C12.)
    * `DSpec`  double-ended queue (util/list/LinkedList.go): addFirst / addLast / removeFirst /
               removeLast / size / clear.
    * the request queues use `Queue.step` / `Queue.dstep` (Golib/Queue/Seq.lean).

  An operation returns the *fact* its return value depends on (old value, presence, first
  entry …); how a particular Go type renders that fact (nil / 0 / "" / false) is learnt from the
  type itself by the harness and is not part of the concurrency property.
-/
import Golib.Queue.Seq

namespace SeqSpec

inductive Fact where
  | val (n : Nat)            -- a value, a count, 0 = absent / false, 1 = true
  | kv (k v : Nat)           -- an entry; (0,0) = none
  | unit
  deriving DecidableEq, Repr

/-! ### insertion-ordered dictionary -/

inductive MOp where
  | put (k v : Nat) | get (k : Nat) | has (k : Nat) | rem (k : Nat)
  | remFirst | remLast | size | empty | clear
  deriving DecidableEq, Repr

abbrev MSt := List (Nat × Nat)

def lookup (k : Nat) : MSt → Nat
  | [] => 0
  | (k', v) :: r => if k' = k then v else lookup k r

def replace (k v : Nat) : MSt → MSt
  | [] => []
  | (k', v') :: r => if k' = k then (k, v) :: r else (k', v') :: replace k v r

def erase (k : Nat) : MSt → MSt
  | [] => []
  | (k', v') :: r => if k' = k then r else (k', v') :: erase k r

def hasKey (k : Nat) (m : MSt) : Bool := m.any (fun e => e.1 == k)

def mstep (m : MSt) : MOp → MSt × Fact
  | .put k v => if hasKey k m then (replace k v m, .val (lookup k m)) else (m ++ [(k, v)], .val 0)
  | .get k => (m, .val (lookup k m))
  | .has k => (m, .val (if hasKey k m then 1 else 0))
  | .rem k => (erase k m, .val (lookup k m))
  | .remFirst =>
    match m with
    | [] => ([], .kv 0 0)
    | (k, v) :: r => (r, .kv k v)
  | .remLast =>
    match m.getLast? with
    | none => ([], .kv 0 0)
    | some (k, v) => (m.dropLast, .kv k v)
  | .size => (m, .val m.length)
  | .empty => (m, .val (if m.isEmpty then 1 else 0))
  | .clear => ([], .unit)

/-- structure invariant of the dictionary: keys are distinct (values are never 0 in the harness,
    so `lookup = 0` means absent) -/
def keysNodup (m : MSt) : Prop := (m.map (·.1)).Nodup

/-! ### deque -/

inductive DOp where
  | addFirst (x : Nat) | addLast (x : Nat) | remFirst | remLast | size | clear
  deriving DecidableEq, Repr

def dstep (d : List Nat) : DOp → List Nat × Fact
  | .addFirst x => (x :: d, .unit)
  | .addLast x => (d ++ [x], .unit)
  | .remFirst =>
    match d with
    | [] => ([], .val 0)
    | x :: r => (r, .val x)
  | .remLast =>
    match d.getLast? with
    | none => ([], .val 0)
    | some x => (d.dropLast, .val x)
  | .size => (d, .val d.length)
  | .clear => ([], .unit)

/-! ### request queues as objects with a total step (the blocking `get` is not a point operation) -/

def qfact : Queue.Ret → Fact
  | .bool b => .val (if b then 1 else 0)
  | .val x => .val x
  | .int n => .val n.toNat
  | .unit => .unit
  | .blocked => .unit

def qstep (q : Queue.Q) (op : Queue.Op) : Queue.Q × Queue.Ret :=
  ((Queue.step q op).1, (Queue.step q op).2.1)

def dqstep (d : Queue.DQ) (op : Queue.DOp) : Queue.DQ × Queue.Ret :=
  ((Queue.dstep d op).1, (Queue.dstep d op).2.1)

/-- run a sequential history of any object -/
def runSeq {σ Op Ret : Type} (step : σ → Op → σ × Ret) : σ → List Op → σ × List Ret
  | s, [] => (s, [])
  | s, op :: ops =>
    let r := step s op
    let t := runSeq step r.1 ops
    (t.1, r.2 :: t.2)

end SeqSpec
