/-
  Golib.Conc.Cond — the *monitor object* machine: a mutex object plus a wait set (`sync.Cond`).

  Threads are natural numbers (unboundedly many); a schedule is an arbitrary list of actions.
  An operation is `step : σ → Op → Option (σ × Ret)`; `none` means "the guard of the operation is
  false, the caller must `Wait()`".  `bcast op` says whether the operation calls `Broadcast()` after
  it applied.  The body of an operation is ONE atomic action performed while holding the lock:
  atomicity of a lock-protected body is exactly what `Golib.Conc.Mutex` proves (there the body is
  split into `load`/`store` and shown to act on a fresh snapshot, `MInv.fresh`), so it is used here
  as the granularity of the machine and not re-proved.

  `body` on a false guard is `Wait()`: it releases the lock and joins the wait set *atomically*
  (that is the contract of `sync.Cond.Wait`).  `spur` is a spurious wake-up / a `Signal` from
  anywhere; it is harmless because a woken thread re-acquires the lock and re-checks its guard (the
  `for size <= 0 { Wait() }` loop), and it is never used for progress.

  `CInv` is preserved by every action, hence holds after every schedule: mutual exclusion, shared
  state = sequential replay of the linearization events, recorded return values = sequential return
  values, and `blocked`: a thread sits in the wait set only while its guard is false — provided
  every operation that does not broadcast cannot make a false guard true (`NoEnable`).
-/
import Golib.Conc.WellNested

namespace Conc.Cond

inductive Phase (Op Ret : Type) where
  | idle
  | invoked (op : Op)
  | locked (op : Op)
  | waiting (op : Op)
  | woken (op : Op)
  | applied (op : Op) (r : Ret)
  | released (op : Op) (r : Ret)
  deriving DecidableEq

inductive Act (Op : Type) where
  | inv (t : Nat) (op : Op) | acq (t : Nat) | body (t : Nat) | rel (t : Nat) | ret (t : Nat)
  | spur (t : Nat)

structure St (σ Op Ret : Type) where
  sh : σ
  holder : Option Nat
  ph : Nat → Phase Op Ret
  log : List (Ev Op Ret)      -- newest first

variable {σ Op Ret : Type}

def setPh (f : Nat → Phase Op Ret) (t : Nat) (p : Phase Op Ret) : Nat → Phase Op Ret :=
  fun u => if u = t then p else f u

/-- `Broadcast()`: every thread of the wait set becomes runnable -/
def wake (f : Nat → Phase Op Ret) : Nat → Phase Op Ret :=
  fun u => match f u with
    | .waiting op => .woken op
    | p => p

variable (step : σ → Op → Option (σ × Ret)) (bcast : Op → Bool)

def next (s : St σ Op Ret) : Act Op → Option (St σ Op Ret)
  | .inv t op => match s.ph t with
      | .idle => some { s with ph := setPh s.ph t (.invoked op), log := .inv t op :: s.log }
      | _ => none
  | .acq t => match s.ph t, s.holder with
      | .invoked op, none => some { s with ph := setPh s.ph t (.locked op), holder := some t }
      | .woken op, none => some { s with ph := setPh s.ph t (.locked op), holder := some t }
      | _, _ => none
  | .body t => match s.ph t with
      | .locked op => match step s.sh op with
          | some (v', r) =>
            some { s with sh := v',
                          ph := setPh (if bcast op then wake s.ph else s.ph) t (.applied op r),
                          log := .lin t op r :: s.log }
          | none => some { s with ph := setPh s.ph t (.waiting op), holder := none }
      | _ => none
  | .rel t => match s.ph t with
      | .applied op r => some { s with ph := setPh s.ph t (.released op r), holder := none }
      | _ => none
  | .ret t => match s.ph t with
      | .released op r => some { s with ph := setPh s.ph t .idle, log := .ret t op r :: s.log }
      | _ => none
  | .spur t => match s.ph t with
      | .waiting op => some { s with ph := setPh s.ph t (.woken op) }
      | _ => none

def runActs (s : St σ Op Ret) : List (Act Op) → Option (St σ Op Ret)
  | [] => some s
  | a :: as => match next step bcast s a with
      | some s' => runActs s' as
      | none => none

/-- the initial state: nobody holds the lock, every thread idle, empty log -/
def initSt (init : σ) : St σ Op Ret :=
  { sh := init, holder := none, ph := fun _ => .idle, log := [] }

/-- sequential replay of the linearization events (log is newest-first); a `lin` event is only
    ever logged for an enabled operation, the `none` branch is a don't-care -/
def seqState (init : σ) : List (Ev Op Ret) → σ
  | [] => init
  | .lin _ op _ :: rest => match step (seqState init rest) op with
      | some (v', _) => v'
      | none => seqState init rest
  | _ :: rest => seqState init rest

/-- every logged linearization point `(op, r)` is an enabled sequential step from the state reached
    before it to the state reached after it, returning `r` -/
def retsOk (init : σ) : List (Ev Op Ret) → Prop
  | [] => True
  | .lin t op r :: rest =>
      step (seqState step init rest) op = some (seqState step init (.lin t op r :: rest), r) ∧
      retsOk init rest
  | _ :: rest => retsOk init rest

def inCS : Phase Op Ret → Prop
  | .locked _ | .applied _ _ => True
  | _ => False

/-- an operation that does not broadcast never enables a blocked operation -/
def NoEnable : Prop :=
  ∀ v op v' r, step v op = some (v', r) → bcast op = false →
    ∀ op', step v op' = none → step v' op' = none

structure CInv (init : σ) (s : St σ Op Ret) : Prop where
  mutex : ∀ t, inCS (s.ph t) → s.holder = some t
  seq   : s.sh = seqState step init s.log
  rets  : retsOk step init s.log
  blocked : ∀ t op, s.ph t = .waiting op → step s.sh op = none

theorem wake_not_waiting (f : Nat → Phase Op Ret) (u : Nat) (op : Op) : wake f u ≠ .waiting op := by
  unfold wake
  split <;> simp_all

theorem wake_inCS (f : Nat → Phase Op Ret) (u : Nat) (h : inCS (wake f u)) : inCS (f u) := by
  unfold wake at h
  split at h
  · simp [inCS] at h
  · exact h

theorem cinv_next (H : NoEnable step bcast) (init : σ) (s s' : St σ Op Ret) (a : Act Op)
    (h : CInv step init s) (hn : next step bcast s a = some s') : CInv step init s' := by
  cases a with
  | inv t op =>
    simp only [next] at hn
    split at hn <;> simp at hn
    subst hn
    refine ⟨?_, ?_, ?_, ?_⟩
    · intro u hu; simp only [setPh] at hu; split at hu
      · simp [inCS] at hu
      · exact h.mutex u hu
    · simpa [seqState] using h.seq
    · simpa [retsOk] using h.rets
    · intro u op' hu; simp only [setPh] at hu; split at hu
      · simp at hu
      · exact h.blocked u op' hu
  | acq t =>
    simp only [next] at hn
    split at hn <;> simp at hn
    all_goals
      rename_i op hph hhold
      subst hn
      refine ⟨?_, h.seq, h.rets, ?_⟩
      · intro u hu; simp only [setPh] at hu; split at hu
        · rename_i e; simp [e]
        · have := h.mutex u hu; rw [hhold] at this; simp at this
      · intro u op' hu; simp only [setPh] at hu; split at hu
        · simp at hu
        · exact h.blocked u op' hu
  | body t =>
    simp only [next] at hn
    split at hn
    · rename_i op hph
      have ht : s.holder = some t := h.mutex t (by rw [hph]; trivial)
      split at hn
      · rename_i v' r hs
        simp at hn
        subst hn
        refine ⟨?_, ?_, ?_, ?_⟩
        · intro u hu; simp only [setPh] at hu; split at hu
          · rename_i e; subst e; exact ht
          · split at hu
            · exact h.mutex u (wake_inCS _ _ hu)
            · exact h.mutex u hu
        · simp only [seqState]; rw [← h.seq, hs]
        · simp only [retsOk, seqState]; refine ⟨?_, h.rets⟩; rw [← h.seq, hs]
        · intro u op' hu; simp only [setPh] at hu; split at hu
          · simp at hu
          · split at hu
            · exact absurd hu (wake_not_waiting _ _ _)
            · rename_i hb
              exact H s.sh op v' r hs (by simpa using hb) op' (h.blocked u op' hu)
      · rename_i hs
        simp at hn
        subst hn
        refine ⟨?_, h.seq, h.rets, ?_⟩
        · intro u hu; simp only [setPh] at hu; split at hu
          · simp [inCS] at hu
          · rename_i hne
            have := h.mutex u hu; rw [ht] at this; simp at this; exact absurd this.symm hne
        · intro u op' hu; simp only [setPh] at hu; split at hu
          · simp at hu; subst hu; exact hs
          · exact h.blocked u op' hu
    · simp at hn
  | rel t =>
    simp only [next] at hn
    split at hn <;> simp at hn
    rename_i op r hph
    subst hn
    have ht : s.holder = some t := h.mutex t (by rw [hph]; trivial)
    refine ⟨?_, h.seq, h.rets, ?_⟩
    · intro u hu; simp only [setPh] at hu; split at hu
      · simp [inCS] at hu
      · rename_i hne
        have := h.mutex u hu; rw [ht] at this; simp at this; exact absurd this.symm hne
    · intro u op' hu; simp only [setPh] at hu; split at hu
      · simp at hu
      · exact h.blocked u op' hu
  | ret t =>
    simp only [next] at hn
    split at hn <;> simp at hn
    subst hn
    refine ⟨?_, ?_, ?_, ?_⟩
    · intro u hu; simp only [setPh] at hu; split at hu
      · simp [inCS] at hu
      · exact h.mutex u hu
    · simpa [seqState] using h.seq
    · simpa [retsOk] using h.rets
    · intro u op' hu; simp only [setPh] at hu; split at hu
      · simp at hu
      · exact h.blocked u op' hu
  | spur t =>
    simp only [next] at hn
    split at hn <;> simp at hn
    subst hn
    refine ⟨?_, h.seq, h.rets, ?_⟩
    · intro u hu; simp only [setPh] at hu; split at hu
      · simp [inCS] at hu
      · exact h.mutex u hu
    · intro u op' hu; simp only [setPh] at hu; split at hu
      · simp at hu
      · exact h.blocked u op' hu

theorem cinv_run (H : NoEnable step bcast) (init : σ) (s s' : St σ Op Ret) (as : List (Act Op))
    (h : CInv step init s) (hr : runActs step bcast s as = some s') : CInv step init s' := by
  induction as generalizing s with
  | nil => simp [runActs] at hr; subst hr; exact h
  | cons a as ih =>
    simp only [runActs] at hr
    split at hr
    · rename_i s1 h1; exact ih s1 (cinv_next step bcast H init s s1 a h h1) hr
    · simp at hr

theorem CInv_init (init : σ) : CInv step init (initSt (Op := Op) (Ret := Ret) init) := by
  refine ⟨?_, ?_, ?_, ?_⟩
  · intro t ht; simp [initSt, inCS] at ht
  · simp [initSt, seqState]
  · simp [initSt, retsOk]
  · intro t op ht; simp [initSt] at ht

/-- every state reachable from the initial state by *any* schedule satisfies the invariant -/
theorem reachable_cinv (H : NoEnable step bcast) (init : σ) (as : List (Act Op)) (s : St σ Op Ret)
    (h : runActs step bcast (initSt init) as = some s) : CInv step init s :=
  cinv_run step bcast H init _ s as (CInv_init step init) h

/-- **No lost wake-up.**  In every reachable state (any schedule, any number of threads), a thread
    sits in the wait set only while its guard is false.  Since this holds in *every* reachable
    state it holds at every instant of every execution: the moment an operation makes the guard
    true, the wait set has been emptied by that operation's broadcast. -/
theorem no_lost_wakeup (H : NoEnable step bcast) (init : σ) (as : List (Act Op)) (s : St σ Op Ret)
    (h : runActs step bcast (initSt init) as = some s) (t : Nat) (op : Op)
    (hw : s.ph t = .waiting op) : step s.sh op = none :=
  (reachable_cinv step bcast H init as s h).blocked t op hw

/-- mutual exclusion: in a reachable state at most one thread is inside the critical section -/
theorem mutual_exclusion (H : NoEnable step bcast) (init : σ) (as : List (Act Op))
    (s : St σ Op Ret) (h : runActs step bcast (initSt init) as = some s) (t u : Nat)
    (ht : inCS (s.ph t)) (hu : inCS (s.ph u)) : t = u := by
  have hI := reachable_cinv step bcast H init as s h
  have h1 := hI.mutex t ht
  have h2 := hI.mutex u hu
  rw [h1] at h2
  exact Option.some.inj h2

theorem runActs_append (s : St σ Op Ret) (as bs : List (Act Op)) :
    runActs step bcast s (as ++ bs)
      = (runActs step bcast s as).bind (fun s' => runActs step bcast s' bs) := by
  induction as generalizing s with
  | nil => simp [runActs]
  | cons a as ih =>
    simp only [List.cons_append, runActs]
    split
    · exact ih _
    · simp

/-! ### Progress: an enabled operation is never stuck -/

/-- In *any* state: a thread that is about to (re-)acquire the lock (`invoked` or `woken`), whose
    guard is true, completes its operation when it is scheduled while the lock is free. -/
theorem op_completes (s : St σ Op Ret) (t : Nat) (op : Op) (v' : σ) (r : Ret)
    (hp : s.ph t = .invoked op ∨ s.ph t = .woken op) (hfree : s.holder = none)
    (hs : step s.sh op = some (v', r)) :
    ∃ s', runActs step bcast s [.acq t, .body t, .rel t, .ret t] = some s' ∧ s'.sh = v' ∧
      s'.log = .ret t op r :: .lin t op r :: s.log ∧ s'.ph t = .idle ∧ s'.holder = none := by
  rcases hp with hp | hp <;>
    simp [runActs, next, hp, hfree, hs, setPh]

/-- **A blocked/starting operation returns once its guard is true and it is scheduled.** -/
theorem enabled_op_completes (_H : NoEnable step bcast) (init : σ) (as : List (Act Op))
    (s : St σ Op Ret) (_h : runActs step bcast (initSt init) as = some s)
    (t : Nat) (op : Op) (v' : σ) (r : Ret)
    (hp : s.ph t = .invoked op ∨ s.ph t = .woken op) (hfree : s.holder = none)
    (hs : step s.sh op = some (v', r)) :
    ∃ s', runActs step bcast s [.acq t, .body t, .rel t, .ret t] = some s' ∧ s'.sh = v' ∧
      s'.log = .ret t op r :: .lin t op r :: s.log ∧ s'.ph t = .idle := by
  obtain ⟨s', h1, h2, h3, h4, _⟩ := op_completes step bcast s t op v' r hp hfree hs
  exact ⟨s', h1, h2, h3, h4⟩

/-- **The enabler wakes the waiter.**  If `t` is in the wait set and a thread `u` holding the lock
    applies a broadcasting operation, then after `u`'s body `t` is `woken` (runnable). -/
theorem woken_by_enabler (s s1 : St σ Op Ret) (t u : Nat) (op op' : Op) (v' : σ) (r : Ret)
    (hw : s.ph t = .waiting op) (hl : s.ph u = .locked op') (hs : step s.sh op' = some (v', r))
    (hb : bcast op' = true) (hn : next step bcast s (.body u) = some s1) :
    s1.ph t = .woken op ∧ s1.sh = v' := by
  have hne : t ≠ u := by intro e; subst e; rw [hw] at hl; simp at hl
  simp [next, hl, hs, hb] at hn
  subst hn
  simp [setPh, hne, wake, hw]

/-- Putting the two together: `t` waits with guard `op`; `u` holds the lock with a broadcasting
    operation `op'` that is enabled and whose effect makes `op` enabled.  Then the schedule
    "`u` finishes, `t` runs" succeeds and `t` returns the sequential result. -/
theorem waiter_returns_after_enabler (s : St σ Op Ret) (t u : Nat) (op op' : Op)
    (v' v'' : σ) (r' r : Ret)
    (hw : s.ph t = .waiting op) (hl : s.ph u = .locked op') (hs : step s.sh op' = some (v', r'))
    (hb : bcast op' = true) (hs' : step v' op = some (v'', r)) :
    ∃ s', runActs step bcast s [.body u, .rel u, .ret u, .acq t, .body t, .rel t, .ret t] = some s' ∧
      s'.sh = v'' ∧ s'.ph t = .idle ∧
      s'.log = .ret t op r :: .lin t op r :: .ret u op' r' :: .lin u op' r' :: s.log := by
  have hne : t ≠ u := by intro e; subst e; rw [hw] at hl; simp at hl
  simp [runActs, next, hl, hs, hb, setPh, hne, wake, hw, hs']

/-! ### Well-nestedness and linearizability -/

def absPh : Phase Op Ret → TS Op Ret
  | .idle => .idle
  | .invoked op | .locked op | .waiting op | .woken op => .pending op
  | .applied op r | .released op r => .done op r

structure WInv (s : St σ Op Ret) : Prop where
  wn : wn s.log
  agree : ∀ t, absPh (s.ph t) = tstate s.log t

theorem absPh_wake (f : Nat → Phase Op Ret) (u : Nat) : absPh (wake f u) = absPh (f u) := by
  unfold wake
  split
  · rename_i h; rw [h]; rfl
  · rfl

theorem winv_next (s s' : St σ Op Ret) (a : Act Op) (h : WInv s)
    (hn : next step bcast s a = some s') : WInv s' := by
  cases a with
  | inv t op =>
    simp only [next] at hn
    split at hn <;> simp at hn
    rename_i hph
    subst hn
    have ht := h.agree t
    rw [hph] at ht
    refine ⟨⟨ht.symm, h.wn⟩, ?_⟩
    intro u
    simp only [setPh, tstate]
    split
    · rfl
    · exact h.agree u
  | acq t =>
    simp only [next] at hn
    split at hn <;> simp at hn
    all_goals
      rename_i op hph hhold
      subst hn
      refine ⟨h.wn, ?_⟩
      intro u
      simp only [setPh]
      split
      · rename_i e; subst e; rw [← h.agree u, hph]; rfl
      · exact h.agree u
  | body t =>
    simp only [next] at hn
    split at hn
    · rename_i op hph
      have ht := h.agree t
      rw [hph] at ht
      split at hn
      · rename_i v' r hs
        simp at hn
        subst hn
        refine ⟨⟨ht.symm, h.wn⟩, ?_⟩
        intro u
        simp only [setPh, tstate]
        split
        · rfl
        · split
          · rw [absPh_wake]; exact h.agree u
          · exact h.agree u
      · simp at hn
        subst hn
        refine ⟨h.wn, ?_⟩
        intro u
        simp only [setPh]
        split
        · rename_i e; subst e; rw [← ht]; rfl
        · exact h.agree u
    · simp at hn
  | rel t =>
    simp only [next] at hn
    split at hn <;> simp at hn
    rename_i op r hph
    subst hn
    refine ⟨h.wn, ?_⟩
    intro u
    simp only [setPh]
    split
    · rename_i e; subst e; rw [← h.agree u, hph]; rfl
    · exact h.agree u
  | ret t =>
    simp only [next] at hn
    split at hn <;> simp at hn
    rename_i op r hph
    subst hn
    have ht := h.agree t
    rw [hph] at ht
    refine ⟨⟨ht.symm, h.wn⟩, ?_⟩
    intro u
    simp only [setPh, tstate]
    split
    · rfl
    · exact h.agree u
  | spur t =>
    simp only [next] at hn
    split at hn <;> simp at hn
    rename_i op hph
    subst hn
    refine ⟨h.wn, ?_⟩
    intro u
    simp only [setPh]
    split
    · rename_i e; subst e; rw [← h.agree u, hph]; rfl
    · exact h.agree u

theorem winv_run (s s' : St σ Op Ret) (as : List (Act Op)) (h : WInv s)
    (hr : runActs step bcast s as = some s') : WInv s' := by
  induction as generalizing s with
  | nil => simp [runActs] at hr; subst hr; exact h
  | cons a as ih =>
    simp only [runActs] at hr
    split at hr
    · rename_i s1 h1; exact ih s1 (winv_next step bcast s s1 a h h1) hr
    · simp at hr

theorem WInv_init (init : σ) : WInv (initSt (Op := Op) (Ret := Ret) init) :=
  ⟨trivial, fun _ => rfl⟩

theorem reachable_winv (init : σ) (as : List (Act Op)) (s : St σ Op Ret)
    (h : runActs step bcast (initSt init) as = some s) : WInv s :=
  winv_run step bcast _ s as (WInv_init init) h

/-- The part of `CInv` that does not need `NoEnable` (mutex, seq, rets). -/
structure LInv (init : σ) (s : St σ Op Ret) : Prop where
  mutex : ∀ t, inCS (s.ph t) → s.holder = some t
  seq   : s.sh = seqState step init s.log
  rets  : retsOk step init s.log

theorem linv_next (init : σ) (s s' : St σ Op Ret) (a : Act Op)
    (h : LInv step init s) (hn : next step bcast s a = some s') : LInv step init s' := by
  cases a with
  | inv t op =>
    simp only [next] at hn
    split at hn <;> simp at hn
    subst hn
    refine ⟨?_, ?_, ?_⟩
    · intro u hu; simp only [setPh] at hu; split at hu
      · simp [inCS] at hu
      · exact h.mutex u hu
    · simpa [seqState] using h.seq
    · simpa [retsOk] using h.rets
  | acq t =>
    simp only [next] at hn
    split at hn <;> simp at hn
    all_goals
      rename_i op hph hhold
      subst hn
      refine ⟨?_, h.seq, h.rets⟩
      intro u hu; simp only [setPh] at hu; split at hu
      · rename_i e; simp [e]
      · have := h.mutex u hu; rw [hhold] at this; simp at this
  | body t =>
    simp only [next] at hn
    split at hn
    · rename_i op hph
      have ht : s.holder = some t := h.mutex t (by rw [hph]; trivial)
      split at hn
      · rename_i v' r hs
        simp at hn
        subst hn
        refine ⟨?_, ?_, ?_⟩
        · intro u hu; simp only [setPh] at hu; split at hu
          · rename_i e; subst e; exact ht
          · split at hu
            · exact h.mutex u (wake_inCS _ _ hu)
            · exact h.mutex u hu
        · simp only [seqState]; rw [← h.seq, hs]
        · simp only [retsOk, seqState]; refine ⟨?_, h.rets⟩; rw [← h.seq, hs]
      · simp at hn
        subst hn
        refine ⟨?_, h.seq, h.rets⟩
        intro u hu; simp only [setPh] at hu; split at hu
        · simp [inCS] at hu
        · rename_i hne
          have := h.mutex u hu; rw [ht] at this; simp at this; exact absurd this.symm hne
    · simp at hn
  | rel t =>
    simp only [next] at hn
    split at hn <;> simp at hn
    rename_i op r hph
    subst hn
    have ht : s.holder = some t := h.mutex t (by rw [hph]; trivial)
    refine ⟨?_, h.seq, h.rets⟩
    intro u hu; simp only [setPh] at hu; split at hu
    · simp [inCS] at hu
    · rename_i hne
      have := h.mutex u hu; rw [ht] at this; simp at this; exact absurd this.symm hne
  | ret t =>
    simp only [next] at hn
    split at hn <;> simp at hn
    subst hn
    refine ⟨?_, ?_, ?_⟩
    · intro u hu; simp only [setPh] at hu; split at hu
      · simp [inCS] at hu
      · exact h.mutex u hu
    · simpa [seqState] using h.seq
    · simpa [retsOk] using h.rets
  | spur t =>
    simp only [next] at hn
    split at hn <;> simp at hn
    subst hn
    refine ⟨?_, h.seq, h.rets⟩
    intro u hu; simp only [setPh] at hu; split at hu
    · simp [inCS] at hu
    · exact h.mutex u hu

theorem linv_run (init : σ) (s s' : St σ Op Ret) (as : List (Act Op))
    (h : LInv step init s) (hr : runActs step bcast s as = some s') : LInv step init s' := by
  induction as generalizing s with
  | nil => simp [runActs] at hr; subst hr; exact h
  | cons a as ih =>
    simp only [runActs] at hr
    split at hr
    · rename_i s1 h1; exact ih s1 (linv_next step bcast init s s1 a h h1) hr
    · simp at hr

theorem reachable_linv (init : σ) (as : List (Act Op)) (s : St σ Op Ret)
    (h : runActs step bcast (initSt init) as = some s) : LInv step init s :=
  linv_run step bcast init _ s as
    ⟨(CInv_init step init).mutex, (CInv_init step init).seq, (CInv_init step init).rets⟩ h

/-- **Linearizability of the monitor object, for every schedule** (no hypothesis on `bcast`:
    safety does not depend on the broadcasts, only progress does).  In every reachable state the
    event log is well nested per thread, every recorded linearization point is an *enabled*
    sequential step returning the recorded value, and the shared state is the sequential replay. -/
theorem monitor_linearizable (init : σ) (as : List (Act Op)) (s : St σ Op Ret)
    (h : runActs step bcast (initSt init) as = some s) :
    wn s.log ∧ retsOk step init s.log ∧ s.sh = seqState step init s.log :=
  have hI := reachable_linv step bcast init as s h
  ⟨(reachable_winv step bcast init as s h).wn, hI.rets, hI.seq⟩

/-- the phases agree with the log: a thread the machine considers pending (invoked, locked, in the
    wait set, woken) has an `inv` without `lin` in the log, etc. -/
theorem phase_agrees_with_log (init : σ) (as : List (Act Op)) (s : St σ Op Ret)
    (h : runActs step bcast (initSt init) as = some s) (t : Nat) :
    absPh (s.ph t) = tstate s.log t :=
  (reachable_winv step bcast init as s h).agree t

/-! ### Program order: per thread, the linearization lists the operations in invocation order -/

/-- operations invoked by thread `t`, newest first -/
def invsN (t : Nat) : List (Ev Op Ret) → List Op
  | [] => []
  | .inv u op :: rest => if u = t then op :: invsN t rest else invsN t rest
  | _ :: rest => invsN t rest

/-- operations of thread `t` that have been linearized, newest first -/
def linsN (t : Nat) : List (Ev Op Ret) → List Op
  | [] => []
  | .lin u op _ :: rest => if u = t then op :: linsN t rest else linsN t rest
  | _ :: rest => linsN t rest

def pendOf : TS Op Ret → List Op
  | .pending op => [op]
  | _ => []

/-- In a well-nested log, the operations thread `t` invoked are exactly the operations of `t` that
    were linearized, in the same order, plus — if `t` currently has an operation that is not yet
    linearized — that one pending operation at the end (newest). -/
theorem invs_eq_lins (l : List (Ev Op Ret)) (t : Nat) (h : wn l) :
    invsN t l = pendOf (tstate l t) ++ linsN t l := by
  induction l with
  | nil => rfl
  | cons e rest ih =>
    cases e with
    | inv u op =>
      have ih' := ih h.2
      simp only [invsN, linsN, tstate]
      by_cases hu : u = t
      · subst hu
        have h1 := h.1
        rw [h1] at ih'
        simp [ih', pendOf]
      · have hu' : ¬ t = u := fun e => hu e.symm
        simp [hu, hu', ih']
    | lin u op r =>
      have ih' := ih h.2
      simp only [invsN, linsN, tstate]
      by_cases hu : u = t
      · subst hu
        have h1 := h.1
        rw [h1] at ih'
        simp [ih', pendOf]
      · have hu' : ¬ t = u := fun e => hu e.symm
        simp [hu, hu', ih']
    | ret u op r =>
      have ih' := ih h.2
      simp only [invsN, linsN, tstate]
      by_cases hu : u = t
      · subst hu
        have h1 := h.1
        rw [h1] at ih'
        simp [ih', pendOf]
      · have hu' : ¬ t = u := fun e => hu e.symm
        simp [hu', ih']

/-- `linsN` is the thread-`t` projection of the chronological linearization `linOps` -/
theorem linsN_linOps (l : List (Ev Op Ret)) (t : Nat) :
    (linsN t l).reverse = ((linOps l).filter (fun x => x.1 == t)).map (fun x => x.2.1) := by
  induction l with
  | nil => rfl
  | cons e rest ih =>
    cases e with
    | inv u op => simpa [linsN, linOps] using ih
    | ret u op r => simpa [linsN, linOps] using ih
    | lin u op r =>
      simp only [linsN, linOps, List.filter_append, List.map_append]
      by_cases hu : u = t
      · subst hu; simp [ih]
      · simp [hu, ih]

/-- **Program order** (generic form): in a well-nested log, for every thread `t`, the sub-list of
    the linearization belonging to `t`, followed by `t`'s pending operation if it has one, is the
    list of operations `t` invoked, in invocation order. -/
theorem program_order_wn (l : List (Ev Op Ret)) (t : Nat) (h : wn l) :
    (invsN t l).reverse =
      ((linOps l).filter (fun x => x.1 == t)).map (fun x => x.2.1) ++ pendOf (tstate l t) := by
  rw [invs_eq_lins l t h, List.reverse_append, linsN_linOps]
  cases tstate l t <;> simp [pendOf]

/-! ### The broadcast obligation is necessary: a lost wake-up without it -/

inductive DOp where
  | put (x : Nat)
  | get
  deriving DecidableEq

/-- unbounded FIFO whose `get` blocks on empty -/
def dstep : List Nat → DOp → Option (List Nat × Nat)
  | l, .put x => some (l ++ [x], 0)
  | [], .get => none
  | x :: l, .get => some (l, x)

def noBcast : DOp → Bool := fun _ => false

def putBcast : DOp → Bool
  | .put _ => true
  | .get => false

/-- consumer 0 finds the queue empty and waits; producer 1 then puts 7 and returns -/
def lostSched : List (Act DOp) :=
  [.inv 0 .get, .acq 0, .body 0, .inv 1 (.put 7), .acq 1, .body 1, .rel 1, .ret 1]

/-- **Lost wake-up when `Put` does not broadcast.**  After the schedule the queue holds `[7]`, the
    lock is free, every other thread is idle, and consumer 0 is still in the wait set: no action of
    thread 0 is enabled except an (unreliable) spurious wake-up.  In particular `no_lost_wakeup`'s
    conclusion fails (`dstep s.sh .get ≠ none`), so its hypothesis `NoEnable` cannot be dropped. -/
theorem lost_wakeup_without_broadcast :
    ∃ s, runActs dstep noBcast (initSt []) lostSched = some s ∧
      s.ph 0 = .waiting .get ∧ s.sh = [7] ∧ s.holder = none ∧ s.ph 1 = .idle ∧
      dstep s.sh .get = some ([], 7) ∧
      next dstep noBcast s (.acq 0) = none ∧ next dstep noBcast s (.body 0) = none ∧
      next dstep noBcast s (.rel 0) = none ∧ next dstep noBcast s (.ret 0) = none ∧
      (∀ op, next dstep noBcast s (.inv 0 op) = none) :=
  ⟨_, rfl, rfl, rfl, rfl, rfl, rfl, rfl, rfl, rfl, rfl, fun _ => rfl⟩

/-- `noBcast` indeed violates the obligation -/
theorem noBcast_not_NoEnable : ¬ NoEnable dstep noBcast := by
  intro H
  have := H [] (.put 7) [7] 0 rfl rfl .get rfl
  simp [dstep] at this

/-- **With the broadcast the same schedule leaves consumer 0 runnable**, and when scheduled it
    returns the element. -/
theorem wakeup_with_broadcast :
    ∃ s, runActs dstep putBcast (initSt []) lostSched = some s ∧
      s.ph 0 = .woken .get ∧ s.sh = [7] ∧ s.holder = none ∧
      ∃ s', runActs dstep putBcast s [.acq 0, .body 0, .rel 0, .ret 0] = some s' ∧
        s'.sh = [] ∧ s'.ph 0 = .idle ∧
        s'.log = [.ret 0 .get 7, .lin 0 .get 7, .ret 1 (.put 7) 0, .lin 1 (.put 7) 0,
                  .inv 1 (.put 7), .inv 0 .get] :=
  ⟨_, rfl, rfl, rfl, rfl, _, rfl, rfl, rfl, rfl⟩

/-- `putBcast` satisfies the obligation: `get` (the only blockable operation) is not enabled by a
    `get`. -/
theorem putBcast_NoEnable : NoEnable dstep putBcast := by
  intro v op v' r hs hb op' hn
  cases op with
  | put x => simp [putBcast] at hb
  | get =>
    cases op' with
    | put y => simp [dstep] at hn
    | get =>
      cases v with
      | nil => simp [dstep] at hs
      | cons x l => simp [dstep] at hn

/-- non-vacuity of `no_lost_wakeup`/`woken_by_enabler`: the hypotheses hold on the demo instance -/
example : ∃ s, runActs dstep putBcast (initSt []) [.inv 0 .get, .acq 0, .body 0] = some s ∧
    s.ph 0 = .waiting .get ∧ dstep s.sh .get = none :=
  ⟨_, rfl, rfl, rfl⟩

end Conc.Cond
