/-
  Golib.Conc.Racy — the variant of the mutex object machine in which a method *forgets the lock*.

  `nextRacy` is `next` (Golib.Conc.Mutex) except that
    * `.load t` is also allowed straight from phase `.invoked op` (no acquisition),
    * `.ret t` is also allowed from `.applied op r` (nothing to release if the lock was never taken),
    * `.rel t` only clears `holder` if `t` really is the holder.
  The classic lost-update interleaving of two increments is then a run of the machine; it breaks
  `MInv` (snapshot freshness, and with it "shared state = sequential replay" and "recorded results
  = sequential results").  The same interleaving is rejected by the locked machine.
-/
import Golib.Conc.Mutex

namespace Conc

variable {σ Op Ret : Type} (step : σ → Op → σ × Ret)

def nextRacy (s : St σ Op Ret) : Act Op → Option (St σ Op Ret)
  | .inv t op => match s.ph t with
      | .idle => some { s with ph := setPh s.ph t (.invoked op), log := .inv t op :: s.log }
      | _ => none
  | .acq t => match s.ph t, s.holder with
      | .invoked op, none => some { s with ph := setPh s.ph t (.locked op), holder := some t }
      | _, _ => none
  | .load t => match s.ph t with
      | .locked op => some { s with ph := setPh s.ph t (.loaded op s.sh) }
      | .invoked op => some { s with ph := setPh s.ph t (.loaded op s.sh) }   -- forgot the lock
      | _ => none
  | .store t => match s.ph t with
      | .loaded op v => let (v', r) := step v op
          some { s with sh := v', ph := setPh s.ph t (.applied op r), log := .lin t op r :: s.log }
      | _ => none
  | .rel t => match s.ph t with
      | .applied op r =>
          some { s with ph := setPh s.ph t (.released op r),
                        holder := if s.holder = some t then none else s.holder }
      | _ => none
  | .ret t => match s.ph t with
      | .released op r => some { s with ph := setPh s.ph t .idle, log := .ret t op r :: s.log }
      | .applied op r => some { s with ph := setPh s.ph t .idle, log := .ret t op r :: s.log }
      | _ => none

def runActsRacy (s : St σ Op Ret) : List (Act Op) → Option (St σ Op Ret)
  | [] => some s
  | a :: as => match nextRacy step s a with
      | some s' => runActsRacy s' as
      | none => none

/-- fetch-and-increment counter: new state `n + 1`, returns the old value -/
def ctr : Nat → Unit → Nat × Nat := fun n _ => (n + 1, n)

/-- the lost-update interleaving: both threads read 0, both write 1 -/
def sched : List (Act Unit) :=
  [.inv 0 (), .inv 1 (), .load 0, .load 1, .store 0, .store 1, .ret 0, .ret 1]

/-- the final state of the lost-update run, observable part -/
theorem sched_runs :
    (runActsRacy ctr (initSt 0) sched).map (fun s => (s.sh, s.log)) =
      some (1, [.ret 1 () 0, .ret 0 () 0, .lin 1 () 0, .lin 0 () 0, .inv 1 (), .inv 0 ()]) := by
  rfl

/-- **Lost update.**  Two increments ran to completion, yet the shared counter is 1, while the
    sequential replay of the two linearization events gives 2. -/
theorem lost_update :
    ∃ s, runActsRacy ctr (initSt 0) sched = some s ∧ s.sh = 1 ∧ seqState ctr 0 s.log = 2 := by
  have h := sched_runs
  cases hr : runActsRacy ctr (initSt 0) sched with
  | none => rw [hr] at h; simp at h
  | some s =>
    rw [hr] at h
    simp only [Option.map_some, Option.some.injEq, Prod.mk.injEq] at h
    refine ⟨s, rfl, h.1, ?_⟩
    rw [h.2]; rfl

/-- **Not linearizable.**  Both increments returned 0; no sequential order of two
    fetch-and-increments explains that (the recorded results are not the sequential ones). -/
theorem lost_update_not_linearizable :
    ∃ s, runActsRacy ctr (initSt 0) sched = some s ∧ ¬ retsOk ctr 0 s.log := by
  have h := sched_runs
  cases hr : runActsRacy ctr (initSt 0) sched with
  | none => rw [hr] at h; simp at h
  | some s =>
    rw [hr] at h
    simp only [Option.map_some, Option.some.injEq, Prod.mk.injEq] at h
    refine ⟨s, rfl, ?_⟩
    rw [h.2]
    simp [retsOk, seqState, ctr]

/-- the racy machine reaches states violating the invariant of the locked machine -/
theorem racy_breaks_MInv :
    ∃ as s, runActsRacy ctr (initSt 0) as = some s ∧ ¬ MInv ctr 0 s := by
  obtain ⟨s, hs, hno⟩ := lost_update_not_linearizable
  exact ⟨sched, s, hs, fun hI => hno hI.rets⟩

/-- already after `store 0` the snapshot of thread 1 is stale: `MInv.fresh` is what fails first -/
theorem racy_breaks_fresh :
    ∃ s, runActsRacy ctr (initSt 0) [.inv 0 (), .inv 1 (), .load 0, .load 1, .store 0] = some s ∧
      s.ph 1 = .loaded () 0 ∧ s.sh = 1 :=
  ⟨_, rfl, rfl, rfl⟩

/-- **Positive contrast.**  In the locked machine the same interleaving is impossible: the second
    thread cannot enter the critical section while the first is inside. -/
theorem locked_schedule_rejected :
    runActs ctr (initSt 0) [.inv 0 (), .inv 1 (), .acq 0, .acq 1] = none := by
  rfl

/-- more generally the locked machine rejects *every* continuation of that prefix in which thread 1
    loads before thread 0 has released -/
theorem locked_rejects_racy_load :
    runActs ctr (initSt 0) [.inv 0 (), .inv 1 (), .acq 0, .load 0, .load 1] = none := by
  rfl

/-- on schedules that do take the lock, the racy machine still works (it is a relaxation) -/
example : (runActsRacy ctr (initSt 0)
    [.inv 0 (), .inv 1 (), .acq 0, .load 0, .store 0, .rel 0, .acq 1, .load 1, .store 1, .rel 1,
     .ret 0, .ret 1]).map (fun s => (s.sh, s.holder, s.log)) =
    some (2, none,
      [.ret 1 () 1, .ret 0 () 0, .lin 1 () 1, .lin 0 () 0, .inv 1 (), .inv 0 ()]) := by
  rfl

end Conc
