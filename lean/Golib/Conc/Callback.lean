/-
  Golib.Conc.Callback — what a critical section excludes, for every schedule.

  `RequestQueue.Put` / `PutForce` call the user's `Failed` / `Overflowed` callback *while holding the
  queue's lock*, in the middle of their body (between the eviction and the insertion).  In the
  mutex-object machine that is an arbitrarily long stay of the thread in its critical section
  (phase `loaded`: the snapshot is taken, the result not yet stored): the callback is whatever the
  other threads do in the meantime.  This file proves that during such a stay

    * no other thread can take the lock, read or write the shared state, release or linearize
      (`foreign_step_in_cs`, `foreign_run_in_cs`): no operation of another thread *completes*
      while the callback runs — the clause the harness's `callbackReentrancy` measures;
    * in particular an operation that the callback starts *from its own goroutine* on the same queue can
      never acquire the lock (`acquire_blocked_while_held`): since the lock holder waits for it, that is
      the self-deadlock recorded as `finding_callback_reentry_never_acquires`.

  Nothing here changes Golib.Conc.Mutex; it only adds consequences of `MInv.mutex`.
-/
import Golib.Conc.WellNested

namespace Conc

variable {σ Op Ret : Type} (step : σ → Op → σ × Ret)

/-- the thread an action belongs to -/
def Act.actor : Act Op → Nat
  | .inv t _ => t | .acq t => t | .load t => t | .store t => t | .rel t => t | .ret t => t

/-- One step of another thread while `t` is in its critical section: the shared state, the lock holder,
    `t`'s phase and the linearization points are untouched — the other thread can only invoke or return
    (bookkeeping outside the lock). -/
theorem foreign_step_in_cs (init : σ) (s s' : St σ Op Ret) (h : MInv step init s) (t : Nat)
    (hcs : inCS (s.ph t)) (a : Act Op) (ha : a.actor ≠ t) (hn : next step s a = some s') :
    s'.sh = s.sh ∧ s'.holder = some t ∧ s'.ph t = s.ph t ∧ linOps s'.log = linOps s.log := by
  have hh : s.holder = some t := h.mutex t hcs
  have foreign_cs : ∀ u, u ≠ t → ¬ inCS (s.ph u) := by
    intro u hu hcu
    have := h.mutex u hcu
    rw [hh] at this
    exact hu (Option.some.inj this).symm
  cases a with
  | inv u op =>
    simp only [Act.actor] at ha
    simp only [next] at hn
    split at hn <;> simp at hn
    subst hn
    exact ⟨rfl, hh, by simp [setPh, Ne.symm ha], by simp [linOps]⟩
  | acq u =>
    simp only [next] at hn
    split at hn <;> simp at hn
    rename_i op hph hhold
    rw [hh] at hhold; simp at hhold
  | load u =>
    simp only [Act.actor] at ha
    simp only [next] at hn
    split at hn <;> simp at hn
    rename_i op hph
    exact absurd (by rw [hph]; trivial) (foreign_cs u ha)
  | store u =>
    simp only [Act.actor] at ha
    simp only [next] at hn
    split at hn <;> simp at hn
    rename_i op v hph
    exact absurd (by rw [hph]; trivial) (foreign_cs u ha)
  | rel u =>
    simp only [Act.actor] at ha
    simp only [next] at hn
    split at hn <;> simp at hn
    rename_i op r hph
    exact absurd (by rw [hph]; trivial) (foreign_cs u ha)
  | ret u =>
    simp only [Act.actor] at ha
    simp only [next] at hn
    split at hn <;> simp at hn
    subst hn
    exact ⟨rfl, hh, by simp [setPh, Ne.symm ha], by simp [linOps]⟩

/-- **No operation of another thread completes while the callback runs.**  Any schedule segment made
    of other threads' actions, executed while `t` sits in its critical section, leaves the shared state
    and `t`'s phase unchanged and adds no linearization point: whatever the other goroutines attempt
    (Put, Get, Clear, Size …) takes effect only after `t` has released the lock. -/
theorem foreign_run_in_cs (init : σ) (s s' : St σ Op Ret) (h : MInv step init s) (t : Nat)
    (hcs : inCS (s.ph t)) (as : List (Act Op)) (has : ∀ a ∈ as, a.actor ≠ t)
    (hr : runActs step s as = some s') :
    s'.sh = s.sh ∧ s'.holder = some t ∧ s'.ph t = s.ph t ∧ linOps s'.log = linOps s.log := by
  induction as generalizing s with
  | nil =>
    simp [runActs] at hr; subst hr
    exact ⟨rfl, h.mutex t hcs, rfl, rfl⟩
  | cons a as ih =>
    simp only [runActs] at hr
    split at hr
    · rename_i s1 h1
      obtain ⟨e1, e2, e3, e4⟩ := foreign_step_in_cs step init s s1 h t hcs a (has a (by simp)) h1
      have hI := inv_next step init s s1 a h h1
      obtain ⟨f1, f2, f3, f4⟩ := ih s1 hI (by rw [e3]; exact hcs) (fun b hb => has b (by simp [hb])) hr
      exact ⟨by rw [f1, e1], f2, by rw [f3, e3], by rw [f4, e4]⟩
    · simp at hr

/-- for reachable states -/
theorem callback_window_exclusive (init : σ) (pre : List (Act Op)) (s s' : St σ Op Ret)
    (hs : runActs step (initSt init) pre = some s) (t : Nat) (op : Op) (v : σ)
    (hcb : s.ph t = .loaded op v) (as : List (Act Op)) (has : ∀ a ∈ as, a.actor ≠ t)
    (hr : runActs step s as = some s') :
    s'.sh = s.sh ∧ s'.ph t = .loaded op v ∧ linOps s'.log = linOps s.log ∧ s'.sh = v := by
  have hI := reachable_inv step init pre s hs
  obtain ⟨a, _, c, d⟩ := foreign_run_in_cs step init s s' hI t (by rw [hcb]; trivial) as has hr
  exact ⟨a, by rw [c, hcb], d, by rw [a]; exact hI.fresh t op v hcb⟩

/-- While the lock is held nobody acquires it — in particular not an operation started by the holder's
    own callback: the mutex is not re-entrant. -/
theorem acquire_blocked_while_held (init : σ) (pre : List (Act Op)) (s : St σ Op Ret)
    (hs : runActs step (initSt init) pre = some s) (t : Nat) (hcs : inCS (s.ph t)) (u : Nat) :
    next step s (.acq u) = none := by
  have hh := (reachable_inv step init pre s hs).mutex t hcs
  simp only [next]
  split
  · rename_i op hph hhold; rw [hh] at hhold; simp at hhold
  · rfl

/-- … and it stays blocked for as long as only other threads move: if the holder waits for that nested
    operation (a callback that calls the queue from its own goroutine), nothing ever happens again. -/
theorem finding_callback_reentry_never_acquires (init : σ) (pre : List (Act Op)) (s s' : St σ Op Ret)
    (hs : runActs step (initSt init) pre = some s) (t : Nat) (hcs : inCS (s.ph t))
    (as : List (Act Op)) (has : ∀ a ∈ as, a.actor ≠ t) (hr : runActs step s as = some s') (u : Nat) :
    next step s' (.acq u) = none := by
  have hI := reachable_inv step init pre s hs
  obtain ⟨_, hh, hp, _⟩ := foreign_run_in_cs step init s s' hI t hcs as has hr
  simp only [next]
  split
  · rename_i op hph hhold; rw [hh] at hhold; simp at hhold
  · rfl

/-! ### results already returned never change

  In the model a result is a value; once recorded in the log it is there for good: the log only grows.
  (For the Go code this needs that a returned slice is not memory the object keeps using — tie A:
  `C10Gen.slice_results_fresh`; tie B: the harness's `resultAliasing` probe.) -/

theorem log_grows_step (s s' : St σ Op Ret) (a : Act Op) (hn : next step s a = some s') :
    ∃ l, s'.log = l ++ s.log := by
  cases a <;> simp only [next] at hn <;> split at hn <;> simp at hn <;> subst hn
  · exact ⟨[_], rfl⟩
  · exact ⟨[], rfl⟩
  · exact ⟨[], rfl⟩
  · exact ⟨[_], rfl⟩
  · exact ⟨[], rfl⟩
  · exact ⟨[_], rfl⟩

theorem returned_results_are_final (s s' : St σ Op Ret) (as : List (Act Op))
    (hr : runActs step s as = some s') : ∃ l, s'.log = l ++ s.log := by
  induction as generalizing s with
  | nil => simp [runActs] at hr; subst hr; exact ⟨[], rfl⟩
  | cons a as ih =>
    simp only [runActs] at hr
    split at hr
    · rename_i s1 h1
      obtain ⟨l1, e1⟩ := log_grows_step step s s1 a h1
      obtain ⟨l2, e2⟩ := ih s1 hr
      exact ⟨l2 ++ l1, by rw [e2, e1, List.append_assoc]⟩
    · simp at hr

end Conc
