/-
  Golib.Tcp.Drain — queue mode: process() drains the queue.

  `QInv`: send ids are non-zero (the queue's "nothing" is 0) and, in queue mode, the current
  writer of an open connection carries a sticky error only while process() is on its way to
  Close() — so whenever process() is idle, an open connection has a clean writer.

  `drain`: from every reachable queue-mode state in which process() is idle (and the lock free),
  after whatever faults, there is a fault-free continuation in which process() takes every queued
  pack in turn, dials if there is no connection, writes and flushes — after which the queue is
  empty and every pack that was queued lies whole on a connection.
-/
import Golib.Tcp.Recover

namespace Tcp

variable (cfg : Cfg) (bytesOf : Nat → Bytes)

structure QInv (s : St) : Prop where
  nsidPos : 1 ≤ s.nsid
  nz : ∀ y ∈ s.queue, y ≠ 0
  clean : cfg.useQueue = true → ∀ w, s.conn ≠ none → s.wr = some w → s.err.get w = true →
    ∃ sid, s.pc 0 = .failed sid

theorem qInv_init : QInv cfg init := by
  refine ⟨Nat.le_refl _, ?_, ?_⟩
  · intro y hy; cases hy
  · intro _ w hc; exact absurd rfl hc

/-- conn / wr / err unchanged (or the connection dropped); a `failed` process() stays `failed` -/
theorem QInv.keep {s s' : St} (hi : QInv cfg s) (hn : s.nsid ≤ s'.nsid) (hq : ∀ y ∈ s'.queue, y ∈ s.queue)
    (hconn : s'.conn = s.conn ∨ s'.conn = none) (hwr : s'.wr = s.wr) (herr : s'.err = s.err)
    (hpc : ∀ sid, s.pc 0 = .failed sid → s'.pc 0 = .failed sid) : QInv cfg s' := by
  refine ⟨Nat.le_trans hi.nsidPos hn, fun y hy => hi.nz y (hq y hy), ?_⟩
  intro hu w hc hw he
  rcases hconn with h | h
  · rw [h] at hc; rw [hwr] at hw; rw [herr] at he
    obtain ⟨sid, hs⟩ := hi.clean hu w hc hw he
    exact ⟨sid, hpc sid hs⟩
  · exact absurd h hc

/-- a new connection: its writer is fresh, hence clean -/
theorem QInv.connect {s s' : St} (hi : QInv cfg s) (hf : FreshInv s) (hn : s'.nsid = s.nsid) (hq : s'.queue = s.queue)
    (hwr : s'.wr = some s.next) (herr : s'.err = s.err) : QInv cfg s' := by
  refine ⟨by rw [hn]; exact hi.nsidPos, by rw [hq]; exact hi.nz, ?_⟩
  intro _ w _ hw he
  rw [hwr] at hw; cases hw
  rw [herr, hf.errFresh s.next (Nat.le_refl _)] at he; cases he

theorem QInv.procRel {s : St} (hi : QInv cfg s) (b : Bool) (t : Nat) : QInv cfg (s.procRel b t) :=
  ⟨hi.nsidPos, hi.nz, hi.clean⟩

theorem finish_failed {s : St} {t sid0 : Nat} {ok : Bool} {sid : Nat} (hp : s.pc t ≠ .failed sid)
    (h : s.pc 0 = .failed sid) : (s.finish t sid0 ok).pc 0 = .failed sid := by
  rw [finish_pc]
  by_cases e : t = 0
  · subst e; exact absurd h hp
  · rw [if_neg e]; exact h

theorem qInv_step (s s' : St) (a : Act) (hm : MutexInv cfg s) (hf : FreshInv s)
    (hi : QInv cfg s) (h : step cfg bytesOf s a = some s') : QInv cfg s' := by
  -- thread `t`, currently at `p0 ≠ failed`, moves: a `failed` process() is some other thread or unaffected
  have mv : ∀ (s1 : St) (t : Nat) (p : Pc), (∀ t', s1.pc t' = s.pc t') → (∀ sid, s.pc t ≠ .failed sid) →
      ∀ sid, s.pc 0 = .failed sid → (s1.setPc t p).pc 0 = .failed sid := by
    intro s1 t p h1 h2 sid h0
    rw [pc_setPc]
    by_cases e : t = 0
    · subst e; exact absurd h0 (h2 sid)
    · rw [if_neg e, h1]; exact h0
  cases a with
  | lockSend t sid =>
    obtain ⟨⟨_, _, hp, _, _⟩, rfl⟩ := step_lockSend h
    exact hi.keep cfg (Nat.le_succ _) (fun _ h => h) (Or.inl rfl) rfl rfl
      (mv _ t _ (fun _ => rfl) (fun sid => by rw [hp]; simp))
  | connectOk t =>
    obtain ⟨_, _, rfl⟩ := step_connectOk h
    exact hi.connect cfg hf rfl rfl rfl rfl
  | connectFail t =>
    obtain ⟨sid, hp, _, rfl⟩ := step_connectFail h
    exact hi.keep cfg (Nat.le_refl _) (fun _ h => h) (Or.inl rfl) rfl rfl
      (mv _ t _ (fun _ => rfl) (fun sid' => by rw [hp]; simp))
  | writeBegin t =>
    obtain ⟨sid, w, hp, _, _, _, rfl⟩ := step_writeBegin h
    exact hi.keep cfg (Nat.le_refl _) (fun _ h => h) (Or.inl rfl) rfl rfl
      (mv _ t _ (fun _ => rfl) (fun sid' => by rw [hp]; simp))
  | writeSticky t =>
    obtain ⟨sid, w, hp, _, _, _, rfl⟩ := step_writeSticky h
    exact hi.keep cfg (Nat.le_refl _) (fun _ h => h) (Or.inl rfl) rfl rfl
      (mv _ t _ (fun _ => rfl) (fun sid' => by rw [hp]; simp))
  | writeChunk t n =>
    obtain ⟨sid, w, rest, hp, _, _, rfl⟩ := step_writeChunk h
    exact hi.keep cfg (Nat.le_refl _) (fun _ h => h) (Or.inl rfl) rfl rfl
      (mv _ t _ (fun _ => rfl) (fun sid' => by rw [hp]; simp))
  | writeEnd t =>
    obtain ⟨sid, w, hp, rfl⟩ := step_writeEnd h
    exact hi.keep cfg (Nat.le_refl _) (fun _ h => h) (Or.inl rfl) rfl rfl
      (mv _ t _ (fun _ => rfl) (fun sid' => by rw [hp]; simp))
  | autoFlush t k =>
    obtain ⟨sid, w, rest, hp, _, rfl⟩ := step_autoFlush h
    exact hi.keep cfg (Nat.le_refl _) (fun _ h => h) (Or.inl rfl) rfl rfl (fun _ h => h)
  | autoFlushErr t k =>
    obtain ⟨sid, w, rest, hp, _, rfl⟩ := step_autoFlushErr h
    refine ⟨hi.nsidPos, hi.nz, ?_⟩
    intro hu w' hc hw he
    have ht0 : t = 0 := ((hm.cs t (by simp [hp, inCS])).1 hu).1
    subst ht0
    exact ⟨sid, by simp⟩
  | flushOk t =>
    obtain ⟨sid, w0, w, hp, _, _, rfl⟩ := step_flushOk h
    refine QInv.procRel cfg ?_ _ _
    refine hi.keep cfg (by rw [finish_nsid]; exact Nat.le_refl _) (fun y hy => by rw [finish_queue] at hy; exact hy)
      (finish_conn _ _ _ _) (finish_wr _ _ _ _) (finish_err _ _ _ _) ?_
    intro sid' h0
    exact finish_failed (by show s.pc t ≠ _; rw [hp]; simp) h0
  | flushErr t k =>
    obtain ⟨sid, w0, w, hp, hw, _, rfl⟩ := step_flushErr h
    refine QInv.procRel cfg ?_ _ _
    refine ⟨by rw [finish_nsid]; exact hi.nsidPos, fun y hy => by rw [finish_queue] at hy; exact hi.nz y hy, ?_⟩
    intro hu w' hc _ _
    have ht0 : t = 0 := ((hm.cs t (by simp [hp, inCS])).1 hu).1
    subst ht0
    -- process(): a failed Flush closes the connection
    simp [St.finish, St.setPc] at hc
  | close t =>
    obtain ⟨sid, hp, rfl⟩ := step_close h
    refine ⟨hi.nsidPos, hi.nz, ?_⟩
    intro _ w hc; exact absurd rfl hc
  | flushAfterFail =>
    obtain ⟨sid, hp, rfl⟩ := step_flushAfterFail h
    refine QInv.procRel cfg ?_ _ _
    exact hi.keep cfg (Nat.le_refl _) (fun _ h => h) (Or.inl rfl) rfl rfl
      (mv _ 0 _ (fun _ => rfl) (fun sid' => by rw [hp]; simp))
  | unlock t =>
    obtain ⟨sid, ok, hp, _, rfl⟩ := step_unlock h
    exact hi.keep cfg (Nat.le_refl _) (fun _ h => h) (Or.inl rfl) rfl rfl
      (mv _ t _ (fun _ => rfl) (fun sid' => by rw [hp]; simp))
  | enqueue t sid =>
    obtain ⟨⟨_, _, _, hsid, _⟩, rfl⟩ := step_enqueue h
    refine ⟨Nat.le_succ_of_le hi.nsidPos, ?_, hi.clean⟩
    intro y hy
    have hy' : y ∈ s.queue ++ [sid] := hy
    rcases List.mem_append.mp hy' with h1 | h1
    · exact hi.nz y h1
    · simp at h1; subst h1; subst hsid; have := hi.nsidPos; omega
  | enqueueFail t sid =>
    obtain ⟨_, rfl⟩ := step_enqueueFail h
    exact hi.keep cfg (Nat.le_succ _) (fun _ h => h) (Or.inl rfl) rfl rfl (fun _ h => h)
  | dequeue =>
    obtain ⟨sid, q, hp, hq, _, _, rfl⟩ := step_dequeue h
    exact hi.keep cfg (Nat.le_refl _) (fun y hy => by rw [hq]; exact List.mem_cons_of_mem _ hy) (Or.inl rfl) rfl rfl
      (mv _ 0 _ (fun _ => rfl) (fun sid' => by rw [hp]; simp))
  | bgConnectOk =>
    obtain ⟨_, rfl⟩ := step_bgConnectOk h
    exact hi.connect cfg hf rfl rfl rfl rfl
  | bgConnectFail =>
    obtain ⟨_, rfl⟩ := step_bgConnectFail h
    exact hi
  | bgCheck =>
    obtain ⟨⟨_, hp, _⟩, rfl⟩ := step_bgCheck h
    exact hi.keep cfg (Nat.le_refl _) (fun _ h => h) (Or.inl rfl) rfl rfl
      (mv _ 0 _ (fun _ => rfl) (fun sid' => by rw [hp]; simp))
  | bgDialOk =>
    obtain ⟨_, rfl⟩ := step_bgDialOk h
    exact hi.connect cfg hf rfl rfl rfl rfl
  | bgDialFail =>
    obtain ⟨hp, rfl⟩ := step_bgDialFail h
    exact hi.keep cfg (Nat.le_refl _) (fun _ h => h) (Or.inl rfl) rfl rfl
      (mv _ 0 _ (fun _ => rfl) (fun sid' => by rw [hp]; simp))
  | peerClose c n =>
    obtain ⟨_, rfl⟩ := step_peerClose h
    exact hi.keep cfg (Nat.le_refl _) (fun _ h => h) (Or.inl rfl) rfl rfl (fun _ h => h)
  | setCapacity c =>
    rw [step_setCapacity h]
    exact hi.keep cfg (Nat.le_refl _) (fun _ h => h) (Or.inl rfl) rfl rfl (fun _ h => h)
  | setTimeout n =>
    rw [step_setTimeout h]
    exact hi.keep cfg (Nat.le_refl _) (fun _ h => h) (Or.inl rfl) rfl rfl (fun _ h => h)
  | tick d =>
    rw [step_tick h]
    exact hi.keep cfg (Nat.le_refl _) (fun _ h => h) (Or.inl rfl) rfl rfl (fun _ h => h)
  | reconfClose t =>
    obtain ⟨_, rfl⟩ := step_reconfClose h
    refine ⟨hi.nsidPos, hi.nz, ?_⟩
    intro _ w hc; exact absurd rfl hc
  | reconfDialOk t =>
    obtain ⟨_, rfl⟩ := step_reconfDialOk h
    exact hi.connect cfg hf rfl rfl rfl rfl
  | reconfDialFail t =>
    obtain ⟨hp, rfl⟩ := step_reconfDialFail h
    exact hi.keep cfg (Nat.le_refl _) (fun _ h => h) (Or.inl rfl) rfl rfl
      (mv _ t _ (fun _ => rfl) (fun sid' => by rw [hp]; simp))
  | extClose t =>
    obtain ⟨_, rfl⟩ := step_extClose h
    refine ⟨hi.nsidPos, hi.nz, ?_⟩
    intro _ w hc; exact absurd rfl hc
  | swallow t =>
    obtain ⟨sid, w, hp, _, _, _, _, rfl⟩ := step_swallow h
    exact hi.keep cfg (Nat.le_refl _) (fun _ h => h) (Or.inl rfl) rfl rfl
      (mv _ t _ (fun _ => rfl) (fun sid' => by rw [hp]; simp))

/-! ### draining the queue -/

def GoodQ (s : St) : Prop := Good cfg bytesOf s ∧ QInv cfg s

theorem goodQ_run (hl : cfg.sendLocked = true) (acts : List Act) (s s' : St) (hg : GoodQ cfg bytesOf s)
    (h : run cfg bytesOf acts s = some s') : GoodQ cfg bytesOf s' :=
  run_inv cfg bytesOf (I := GoodQ cfg bytesOf) (fun _ => True)
    (fun s a s' _ hi h =>
      ⟨⟨core_step cfg bytesOf hl s a s' hi.1.1 h, freshInv_step cfg bytesOf s s' a hi.1.1.order hi.1.2 h⟩,
       qInv_step cfg bytesOf s s' a hi.1.1.mutex hi.1.2 hi.2 h⟩)
    acts s s' (fun _ _ => trivial) hg h

theorem goodQ_reach (hl : cfg.sendLocked = true) {s : St} (hr : Reach cfg bytesOf s) : GoodQ cfg bytesOf s := by
  obtain ⟨acts, h⟩ := hr
  exact goodQ_run cfg bytesOf hl acts init s
    ⟨⟨core_init cfg bytesOf, freshInv_init⟩, qInv_init cfg⟩ h

theorem dequeue_ok {s : St} {sid : Nat} {q : List Nat} (hp : s.pc 0 = .idle) (hq : s.queue = sid :: q) (h0 : sid ≠ 0)
    (hlk : cfg.procLocked = true → s.lock = none) :
    step cfg bytesOf s .dequeue =
      some ({ s with queue := q, lock := if cfg.procLocked = true then some 0 else s.lock, xclosed := false }.setPc 0 (.made sid)) := by
  have e1 : (Queue.step s.q .getNoWait).2.1 = .val sid := by simp [Queue.step, St.q, hq]
  have e2 : (Queue.step s.q .getNoWait).1.items = q := by simp [Queue.step, St.q, hq]
  simp only [step, hp, e1, e2]
  rw [if_pos ⟨h0, hlk⟩]

/-- growth of what the connections carried and of the logs -/
def Grows (s s' : St) : Prop :=
  (∀ w, s.sent w <+: s'.sent w) ∧ (∀ w, ∃ ext, s'.log.get w = s.log.get w ++ ext)

theorem Grows.refl (s : St) : Grows s s := ⟨fun _ => List.prefix_refl _, fun _ => ⟨[], by simp⟩⟩

theorem Grows.trans {a b c : St} (h1 : Grows a b) (h2 : Grows b c) : Grows a c := by
  refine ⟨fun w => (h1.1 w).trans (h2.1 w), fun w => ?_⟩
  obtain ⟨e1, he1⟩ := h1.2 w
  obtain ⟨e2, he2⟩ := h2.2 w
  exact ⟨e1 ++ e2, by rw [he2, he1]; simp⟩

theorem Grows.whole {s s' : St} (h : Grows s s') {w sid : Nat} (hw : Whole bytesOf s w sid) : Whole bytesOf s' w sid :=
  hw.mono bytesOf (h.1 w) (h.2 w)

/-- process() handles the head of the queue: dials if there is no connection, writes, flushes -/
theorem proc_item_ok (hl : cfg.sendLocked = true) (hra : cfg.rearm = true) (huq : cfg.useQueue = true)
    (hne : ∀ sid, bytesOf sid ≠ []) (s : St) (hg : GoodQ cfg bytesOf s) (sid : Nat) (q : List Nat)
    (hp : s.pc 0 = .idle) (hq : s.queue = sid :: q) (hlk : cfg.procLocked = true → s.lock = none) :
    ∃ acts s', run cfg bytesOf acts s = some s' ∧ (∀ a ∈ acts, a.isFault = false) ∧ s'.queue = q ∧
      s'.pc 0 = .idle ∧ (cfg.procLocked = true → s'.lock = none) ∧ (∃ w, Whole bytesOf s' w sid) ∧ Grows s s' := by
  have h0 : sid ≠ 0 := hg.2.nz sid (by rw [hq]; simp)
  let s1 : St := { s with queue := q, lock := if cfg.procLocked = true then some 0 else s.lock, xclosed := false }.setPc 0 (.made sid)
  have e1 : step cfg bytesOf s .dequeue = some s1 := dequeue_ok cfg bytesOf hp hq h0 hlk
  have p1 : s1.pc 0 = .made sid := by simp [s1]
  by_cases hc : s.conn = none
  · -- dial
    have e2 : step cfg bytesOf s1 (.connectOk 0) = some s1.connectNew := connectOk_ok cfg bytesOf p1 hc
    have hfr : s1.connectNew.err.get s.next = false := hg.1.2.errFresh s.next (Nat.le_refl _)
    obtain ⟨s', hrun, hlog, hb, hpd, _, _, hq', _, _, _, _, hpc, hlock, _, hgr1, hgr2⟩ :=
      write_flush_ok cfg bytesOf hra (s := s1.connectNew) (w := s.next) (t := 0) (sid := sid) p1 rfl
        (by simp [St.connectNew]) hfr (hne sid)
    have hrunAll : run cfg bytesOf ([.dequeue, .connectOk 0] ++
        [.writeBegin 0, .writeChunk 0 (bytesOf sid).length, .writeEnd 0, .flushOk 0]) s = some s' := by
      simp only [List.cons_append, List.nil_append]
      rw [run_cons_of_step cfg bytesOf _ e1, run_cons_of_step cfg bytesOf _ e2]; exact hrun
    have hg' := goodQ_run cfg bytesOf hl _ s s' hg hrunAll
    refine ⟨_, s', hrunAll, by simp [Act.isFault], hq', by simpa using hpc, ?_,
      ⟨s.next, whole_of_flushed cfg bytesOf hg'.1 s.next sid _ hlog hb hpd⟩, ⟨hgr1, hgr2⟩⟩
    intro hpl; rw [hlock]; simp [hpl]
  · -- connected: the writer is clean because process() is idle
    obtain ⟨w, hw⟩ : ∃ w, s.wr = some w := by
      cases hwr : s.wr with
      | none => exact absurd hwr (hg.1.1.order.connWr hc)
      | some w => exact ⟨w, rfl⟩
    have he : s.err.get w = false := by
      cases hh : s.err.get w with
      | false => rfl
      | true =>
        obtain ⟨sid', hf⟩ := hg.2.clean huq w hc hw hh
        rw [hp] at hf; cases hf
    obtain ⟨s', hrun, hlog, hb, hpd, _, _, hq', _, _, _, _, hpc, hlock, _, hgr1, hgr2⟩ :=
      write_flush_ok cfg bytesOf hra (s := s1) (w := w) (t := 0) (sid := sid) p1 hw hc he (hne sid)
    have hrunAll : run cfg bytesOf ([.dequeue] ++
        [.writeBegin 0, .writeChunk 0 (bytesOf sid).length, .writeEnd 0, .flushOk 0]) s = some s' := by
      simp only [List.cons_append, List.nil_append]
      rw [run_cons_of_step cfg bytesOf _ e1]; exact hrun
    have hg' := goodQ_run cfg bytesOf hl _ s s' hg hrunAll
    refine ⟨_, s', hrunAll, by simp [Act.isFault], hq', by simpa using hpc, ?_,
      ⟨w, whole_of_flushed cfg bytesOf hg'.1 w sid _ hlog hb hpd⟩, ⟨hgr1, hgr2⟩⟩
    intro hpl; rw [hlock]; simp [hpl]

/-- **Queue mode: every queued pack is eventually written whole.**  From any state satisfying the
    invariants (in particular any reachable one, after any faults) in which process() is idle and
    the send lock is free, there is a fault-free continuation in which process() empties the
    queue; afterwards every pack that was queued lies whole on a connection. -/
theorem drain (hl : cfg.sendLocked = true) (hra : cfg.rearm = true) (huq : cfg.useQueue = true)
    (hne : ∀ sid, bytesOf sid ≠ []) :
    ∀ (q : List Nat) (s : St), GoodQ cfg bytesOf s → s.queue = q → s.pc 0 = .idle →
      (cfg.procLocked = true → s.lock = none) →
      ∃ acts s', run cfg bytesOf acts s = some s' ∧ (∀ a ∈ acts, a.isFault = false) ∧ s'.queue = [] ∧
        s'.pc 0 = .idle ∧ (∀ sid ∈ q, ∃ w, Whole bytesOf s' w sid) ∧ Grows s s' := by
  intro q
  induction q with
  | nil =>
    intro s _ hq hp _
    exact ⟨[], s, rfl, by simp, hq, hp, by simp, Grows.refl s⟩
  | cons sid q ih =>
    intro s hg hq hp hlk
    obtain ⟨a1, s1, hr1, hf1, hq1, hp1, hl1, ⟨w, hw⟩, hgr1⟩ := proc_item_ok cfg bytesOf hl hra huq hne s hg sid q hp hq hlk
    obtain ⟨a2, s2, hr2, hf2, hq2, hp2, hall, hgr2⟩ := ih s1 (goodQ_run cfg bytesOf hl a1 s s1 hg hr1) hq1 hp1 hl1
    refine ⟨a1 ++ a2, s2, by rw [run_append, hr1]; exact hr2, ?_, hq2, hp2, ?_, hgr1.trans hgr2⟩
    · intro a ha
      rcases List.mem_append.mp ha with h | h
      · exact hf1 a h
      · exact hf2 a h
    · intro x hx
      rcases List.mem_cons.mp hx with h | h
      · subst h; exact ⟨w, hgr2.whole bytesOf hw⟩
      · exact hall x h

end Tcp
