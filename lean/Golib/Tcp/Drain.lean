/-
  Golib.Tcp.Drain — queue mode: process() drains the queue.

  `QInv`: send ids are non-zero (the queue's "nothing" is 0) and, in queue mode, the current
  writer of an open connection carries a sticky error only while process() is on its way to
  Close() — so whenever process() is idle, an open connection has a clean writer.

  `drain`: from every reachable queue-mode state in which process() is idle (and the lock free),
  after whatever faults, there is a fault-free continuation in which process() takes every queued
  pack in turn, dials if there is no connection, writes and flushes — after which the queue is
  empty and every pack that was queued lies whole on a connection.
-/
import Golib.Tcp.Recover

namespace Tcp

variable (cfg : Cfg) (bytesOf : Nat → Bytes)

structure QInv (s : St) : Prop where
  nsidPos : 1 ≤ s.nsid
  nz : ∀ y ∈ s.queue, y ≠ 0
  clean : cfg.useQueue = true → ∀ w, s.conn ≠ none → s.wr = some w → s.err.get w = true →
    ∃ sid, s.pc 0 = .failed sid

theorem qInv_init : QInv cfg init := by
  refine ⟨Nat.le_refl _, ?_, ?_⟩
  · intro y hy; cases hy
  · intro _ w hc; exact absurd rfl hc

/-- conn / wr / err unchanged (or the connection dropped); a `failed` process() stays `failed` -/
theorem QInv.keep {s s' : St} (hi : QInv cfg s) (hn : s.nsid ≤ s'.nsid) (hq : ∀ y ∈ s'.queue, y ∈ s.queue)
    (hconn : s'.conn = s.conn ∨ s'.conn = none) (hwr : s'.wr = s.wr) (herr : s'.err = s.err)
    (hpc : ∀ sid, s.pc 0 = .failed sid → s'.pc 0 = .failed sid) : QInv cfg s' := by
  refine ⟨Nat.le_trans hi.nsidPos hn, fun y hy => hi.nz y (hq y hy), ?_⟩
  intro hu w hc hw he
  rcases hconn with h | h
  · rw [h] at hc; rw [hwr] at hw; rw [herr] at he
    obtain ⟨sid, hs⟩ := hi.clean hu w hc hw he
    exact ⟨sid, hpc sid hs⟩
  · exact absurd h hc

/-- a new connection: its writer is fresh, hence clean -/
theorem QInv.connect {s s' : St} (hi : QInv cfg s) (hf : FreshInv s) (hn : s'.nsid = s.nsid) (hq : s'.queue = s.queue)
    (hwr : s'.wr = some s.next) (herr : s'.err = s.err) : QInv cfg s' := by
  refine ⟨by rw [hn]; exact hi.nsidPos, by rw [hq]; exact hi.nz, ?_⟩
  intro _ w _ hw he
  rw [hwr] at hw; cases hw
  rw [herr, hf.errFresh s.next (Nat.le_refl _)] at he; cases he

theorem QInv.procRel {s : St} (hi : QInv cfg s) (b : Bool) (t : Nat) : QInv cfg (s.procRel b t) :=
  ⟨hi.nsidPos, hi.nz, hi.clean⟩

theorem finish_failed {s : St} {t sid0 : Nat} {ok : Bool} {sid : Nat} (hp : s.pc t ≠ .failed sid)
    (h : s.pc 0 = .failed sid) : (s.finish t sid0 ok).pc 0 = .failed sid := by
  rw [finish_pc]
  by_cases e : t = 0
  · subst e; exact absurd h hp
  · rw [if_neg e]; exact h

theorem qInv_step (s s' : St) (a : Act) (hm : MutexInv cfg s) (hf : FreshInv s)
    (hi : QInv cfg s) (h : step cfg bytesOf s a = some s') : QInv cfg s' := by
  -- thread `t`, currently at `p0 ≠ failed`, moves: a `failed` process() is some other thread or unaffected
  have mv : ∀ (s1 : St) (t : Nat) (p : Pc), (∀ t', s1.pc t' = s.pc t') → (∀ sid, s.pc t ≠ .failed sid) →
      ∀ sid, s.pc 0 = .failed sid → (s1.setPc t p).pc 0 = .failed sid := by
    intro s1 t p h1 h2 sid h0
    rw [pc_setPc]
    by_cases e : t = 0
    · subst e; exact absurd h0 (h2 sid)
    · rw [if_neg e, h1]; exact h0
  cases a with
  | lockSend t sid =>
    obtain ⟨⟨_, _, hp, _, _⟩, rfl⟩ := step_lockSend h
    exact hi.keep cfg (Nat.le_succ _) (fun _ h => h) (Or.inl rfl) rfl rfl
      (mv _ t _ (fun _ => rfl) (fun sid => by rw [hp]; simp))
  | connectOk t =>
    obtain ⟨_, _, rfl⟩ := step_connectOk h
    exact hi.connect cfg hf rfl rfl rfl rfl
  | connectFail t =>
    obtain ⟨sid, hp, _, rfl⟩ := step_connectFail h
    exact hi.keep cfg (Nat.le_refl _) (fun _ h => h) (Or.inl rfl) rfl rfl
      (mv _ t _ (fun _ => rfl) (fun sid' => by rw [hp]; simp))
  | writeBegin t =>
    obtain ⟨sid, w, hp, _, _, _, rfl⟩ := step_writeBegin h
    exact hi.keep cfg (Nat.le_refl _) (fun _ h => h) (Or.inl rfl) rfl rfl
      (mv _ t _ (fun _ => rfl) (fun sid' => by rw [hp]; simp))
  | writeSticky t =>
    obtain ⟨sid, w, hp, _, _, _, rfl⟩ := step_writeSticky h
    exact hi.keep cfg (Nat.le_refl _) (fun _ h => h) (Or.inl rfl) rfl rfl
      (mv _ t _ (fun _ => rfl) (fun sid' => by rw [hp]; simp))
  | writeChunk t n =>
    obtain ⟨sid, w, rest, hp, _, _, rfl⟩ := step_writeChunk h
    exact hi.keep cfg (Nat.le_refl _) (fun _ h => h) (Or.inl rfl) rfl rfl
      (mv _ t _ (fun _ => rfl) (fun sid' => by rw [hp]; simp))
  | writeEnd t =>
    obtain ⟨sid, w, hp, rfl⟩ := step_writeEnd h
    exact hi.keep cfg (Nat.le_refl _) (fun _ h => h) (Or.inl rfl) rfl rfl
      (mv _ t _ (fun _ => rfl) (fun sid' => by rw [hp]; simp))
  | autoFlush t k =>
    obtain ⟨sid, w, rest, hp, _, rfl⟩ := step_autoFlush h
    exact hi.keep cfg (Nat.le_refl _) (fun _ h => h) (Or.inl rfl) rfl rfl (fun _ h => h)
  | autoFlushErr t k =>
    obtain ⟨sid, w, rest, hp, _, rfl⟩ := step_autoFlushErr h
    refine ⟨hi.nsidPos, hi.nz, ?_⟩
    intro hu w' hc hw he
    have ht0 : t = 0 := ((hm.cs t (by simp [hp, inCS])).1 hu).1
    subst ht0
    exact ⟨sid, by simp⟩
  | flushOk t =>
    obtain ⟨sid, w0, w, hp, _, _, rfl⟩ := step_flushOk h
    refine QInv.procRel cfg ?_ _ _
    refine hi.keep cfg (by rw [finish_nsid]; exact Nat.le_refl _) (fun y hy => by rw [finish_queue] at hy; exact hy)
      (finish_conn _ _ _ _) (finish_wr _ _ _ _) (finish_err _ _ _ _) ?_
    intro sid' h0
    exact finish_failed (by show s.pc t ≠ _; rw [hp]; simp) h0
  | flushErr t k =>
    obtain ⟨sid, w0, w, hp, hw, _, rfl⟩ := step_flushErr h
    refine QInv.procRel cfg ?_ _ _
    refine ⟨by rw [finish_nsid]; exact hi.nsidPos, fun y hy => by rw [finish_queue] at hy; exact hi.nz y hy, ?_⟩
    intro hu w' hc _ _
    have ht0 : t = 0 := ((hm.cs t (by simp [hp, inCS])).1 hu).1
    subst ht0
    -- process(): a failed Flush closes the connection
    simp [St.finish, St.setPc] at hc
  | close t =>
    obtain ⟨sid, hp, rfl⟩ := step_close h
    refine ⟨hi.nsidPos, hi.nz, ?_⟩
    intro _ w hc; exact absurd rfl hc
  | flushAfterFail =>
    obtain ⟨sid, hp, rfl⟩ := step_flushAfterFail h
    refine QInv.procRel cfg ?_ _ _
    exact hi.keep cfg (Nat.le_refl _) (fun _ h => h) (Or.inl rfl) rfl rfl
      (mv _ 0 _ (fun _ => rfl) (fun sid' => by rw [hp]; simp))
  | unlock t =>
    obtain ⟨sid, ok, hp, _, rfl⟩ := step_unlock h
    exact hi.keep cfg (Nat.le_refl _) (fun _ h => h) (Or.inl rfl) rfl rfl
      (mv _ t _ (fun _ => rfl) (fun sid' => by rw [hp]; simp))
  | enqueue t sid =>
    obtain ⟨⟨_, _, _, hsid, _⟩, rfl⟩ := step_enqueue h
    refine ⟨Nat.le_succ_of_le hi.nsidPos, ?_, hi.clean⟩
    intro y hy
    have hy' : y ∈ s.queue ++ [sid] := hy
    rcases List.mem_append.mp hy' with h1 | h1
    · exact hi.nz y h1
    · simp at h1; subst h1; subst hsid; have := hi.nsidPos; omega
  | enqueueFail t sid =>
    obtain ⟨_, rfl⟩ := step_enqueueFail h
    exact hi.keep cfg (Nat.le_succ _) (fun _ h => h) (Or.inl rfl) rfl rfl (fun _ h => h)
  | dequeue =>
    obtain ⟨sid, q, hp, hq, _, _, rfl⟩ := step_dequeue h
    exact hi.keep cfg (Nat.le_refl _) (fun y hy => by rw [hq]; exact List.mem_cons_of_mem _ hy) (Or.inl rfl) rfl rfl
      (mv _ 0 _ (fun _ => rfl) (fun sid' => by rw [hp]; simp))
  | bgConnectOk =>
    obtain ⟨_, rfl⟩ := step_bgConnectOk h
    exact hi.connect cfg hf rfl rfl rfl rfl
  | bgConnectFail =>
    obtain ⟨_, rfl⟩ := step_bgConnectFail h
    exact hi
  | bgCheck =>
    obtain ⟨⟨_, hp, _⟩, rfl⟩ := step_bgCheck h
    exact hi.keep cfg (Nat.le_refl _) (fun _ h => h) (Or.inl rfl) rfl rfl
      (mv _ 0 _ (fun _ => rfl) (fun sid' => by rw [hp]; simp))
  | bgDialOk =>
    obtain ⟨_, rfl⟩ := step_bgDialOk h
    exact hi.connect cfg hf rfl rfl rfl rfl
  | bgDialFail =>
    obtain ⟨hp, rfl⟩ := step_bgDialFail h
    exact hi.keep cfg (Nat.le_refl _) (fun _ h => h) (Or.inl rfl) rfl rfl
      (mv _ 0 _ (fun _ => rfl) (fun sid' => by rw [hp]; simp))
  | peerClose c n =>
    obtain ⟨_, rfl⟩ := step_peerClose h
    exact hi.keep cfg (Nat.le_refl _) (fun _ h => h) (Or.inl rfl) rfl rfl (fun _ h => h)
  | setCapacity c =>
    rw [step_setCapacity h]
    exact hi.keep cfg (Nat.le_refl _) (fun _ h => h) (Or.inl rfl) rfl rfl (fun _ h => h)
  | setTimeout n =>
    rw [step_setTimeout h]
    exact hi.keep cfg (Nat.le_refl _) (fun _ h => h) (Or.inl rfl) rfl rfl (fun _ h => h)
  | tick d =>
    rw [step_tick h]
    exact hi.keep cfg (Nat.le_refl _) (fun _ h => h) (Or.inl rfl) rfl rfl (fun _ h => h)
  | reconfClose t =>
    obtain ⟨_, rfl⟩ := step_reconfClose h
    refine ⟨hi.nsidPos, hi.nz, ?_⟩
    intro _ w hc; exact absurd rfl hc
  | reconfDialOk t =>
    obtain ⟨_, rfl⟩ := step_reconfDialOk h
    exact hi.connect cfg hf rfl rfl rfl rfl
  | reconfDialFail t =>
    obtain ⟨hp, rfl⟩ := step_reconfDialFail h
    exact hi.keep cfg (Nat.le_refl _) (fun _ h => h) (Or.inl rfl) rfl rfl
      (mv _ t _ (fun _ => rfl) (fun sid' => by rw [hp]; simp))

end Tcp
