/-
  Golib.Tcp.Order — order and at-most-once.

  Sends are numbered in the order the client accepts them (`nsid` at Lock time in direct mode,
  at Put time in queue mode), so "acceptance order" is the numeric order of send ids.
  `flatLogs s` lists the sends whose frames were handed to the buffered writers, connection by
  connection in the order the connections were made.  The invariant says this list is strictly
  increasing (no duplicate, no reordering) and contains only accepted sends.
-/
import Golib.Tcp.Inv

namespace Tcp

variable (cfg : Cfg) (bytesOf : Nat → Bytes)

def flatLogs (s : St) : List Nat := (List.range s.next).flatMap (fun w => s.log.get w)

theorem flatMap_congr' {α β : Type} (l : List α) (f g : α → List β) (h : ∀ x ∈ l, f x = g x) :
    l.flatMap f = l.flatMap g := by
  induction l with
  | nil => rfl
  | cons a r ih =>
    simp only [List.flatMap_cons]
    rw [h a (by simp), ih (fun x hx => h x (by simp [hx]))]

structure OrderInv (s : St) : Prop where
  freshLog : ∀ w, s.next ≤ w → s.log.get w = []
  wrNew : ∀ w, s.wr = some w → w + 1 = s.next
  connWr : s.conn ≠ none → s.wr ≠ none
  logLt : ∀ x ∈ flatLogs s, x < s.nsid
  logSorted : (flatLogs s).Pairwise (· < ·)
  made : ∀ t sid, s.pc t = .made sid →
          sid < s.nsid ∧ sid ∈ s.handed ∧ (∀ x ∈ flatLogs s, x < sid) ∧ (∀ y ∈ s.queue, sid < y)
  queueSorted : s.queue.Pairwise (· < ·)
  queueLt : ∀ y ∈ s.queue, y < s.nsid ∧ y ∈ s.handed ∧ ∀ x ∈ flatLogs s, x < y
  handedSorted : s.handed.Pairwise (· < ·)
  handedLt : ∀ x ∈ s.handed, x < s.nsid
  logHanded : ∀ x ∈ flatLogs s, x ∈ s.handed

theorem orderInv_init : OrderInv init := by
  constructor <;> simp [init, flatLogs, St.pc, AMap.get]
  all_goals rfl

/-- control moves that neither accept a send nor start a write -/
theorem OrderInv.move {s s' : St} (hi : OrderInv s) (t : Nat) (p : Pc)
    (hpc : ∀ t', s'.pc t' = if t = t' then p else s.pc t')
    (hnext : s'.next = s.next) (hnsid : s'.nsid = s.nsid) (hlog : s'.log = s.log)
    (hq : s'.queue = s.queue) (hh : s'.handed = s.handed) (hwr : s'.wr = s.wr)
    (hconn : s'.conn = s.conn ∨ s'.conn = none)
    (hp : ∀ sid, p ≠ .made sid) : OrderInv s' := by
  have hfl : flatLogs s' = flatLogs s := by simp [flatLogs, hnext, hlog]
  constructor
  · rw [hnext, hlog]; exact hi.freshLog
  · rw [hnext, hwr]; exact hi.wrNew
  · rw [hwr]; rcases hconn with h | h
    · rw [h]; exact hi.connWr
    · intro hc; exact absurd h hc
  · rw [hfl, hnsid]; exact hi.logLt
  · rw [hfl]; exact hi.logSorted
  · intro t' sid h
    rw [hpc] at h
    by_cases e : t = t'
    · rw [if_pos e] at h; exact absurd h (hp sid)
    · rw [if_neg e] at h; rw [hfl, hnsid, hq, hh]; exact hi.made t' sid h
  · rw [hq]; exact hi.queueSorted
  · rw [hq, hnsid, hh, hfl]; exact hi.queueLt
  · rw [hh]; exact hi.handedSorted
  · rw [hh, hnsid]; exact hi.handedLt
  · rw [hfl, hh]; exact hi.logHanded

theorem OrderInv.same {s s' : St} (hi : OrderInv s)
    (hpc : s'.pcs = s.pcs)
    (hnext : s'.next = s.next) (hnsid : s'.nsid = s.nsid) (hlog : s'.log = s.log)
    (hq : s'.queue = s.queue) (hh : s'.handed = s.handed) (hwr : s'.wr = s.wr)
    (hconn : s'.conn = s.conn ∨ s'.conn = none) : OrderInv s' := by
  have hfl : flatLogs s' = flatLogs s := by simp [flatLogs, hnext, hlog]
  constructor
  · rw [hnext, hlog]; exact hi.freshLog
  · rw [hnext, hwr]; exact hi.wrNew
  · rw [hwr]; rcases hconn with h | h
    · rw [h]; exact hi.connWr
    · intro hc; exact absurd h hc
  · rw [hfl, hnsid]; exact hi.logLt
  · rw [hfl]; exact hi.logSorted
  · intro t' sid h
    simp only [St.pc, hpc] at h
    rw [hfl, hnsid, hq, hh]; exact hi.made t' sid h
  · rw [hq]; exact hi.queueSorted
  · rw [hq, hnsid, hh, hfl]; exact hi.queueLt
  · rw [hh]; exact hi.handedSorted
  · rw [hh, hnsid]; exact hi.handedLt
  · rw [hfl, hh]; exact hi.logHanded

/-- a new connection (and writer) becomes current; optionally thread `t` moves to `p` -/
theorem OrderInv.connect {s s' : St} (hi : OrderInv s)
    (hpc : ∀ t' sid, s'.pc t' = .made sid → s.pc t' = .made sid)
    (hnext : s'.next = s.next + 1) (hnsid : s'.nsid = s.nsid) (hlog : s'.log = s.log)
    (hq : s'.queue = s.queue) (hh : s'.handed = s.handed) (hwr : s'.wr = some s.next) : OrderInv s' := by
  have hfl : flatLogs s' = flatLogs s := by
    simp only [flatLogs, hnext, hlog, List.range_succ, List.flatMap_append]
    simp [hi.freshLog s.next (Nat.le_refl _)]
  constructor
  · intro w hw; rw [hlog]; exact hi.freshLog w (by omega)
  · intro w hw; rw [hwr] at hw; cases hw; exact hnext.symm
  · intro _; rw [hwr]; simp
  · rw [hfl, hnsid]; exact hi.logLt
  · rw [hfl]; exact hi.logSorted
  · intro t' sid h
    rw [hfl, hnsid, hq, hh]; exact hi.made t' sid (hpc t' sid h)
  · rw [hq]; exact hi.queueSorted
  · rw [hq, hnsid, hh, hfl]; exact hi.queueLt
  · rw [hh]; exact hi.handedSorted
  · rw [hh, hnsid]; exact hi.handedLt
  · rw [hfl, hh]; exact hi.logHanded

theorem OrderInv.procRel {s : St} (hi : OrderInv s) (b : Bool) (t : Nat) : OrderInv (s.procRel b t) :=
  ⟨hi.freshLog, hi.wrNew, hi.connWr, hi.logLt, hi.logSorted, hi.made, hi.queueSorted, hi.queueLt, hi.handedSorted,
    hi.handedLt, hi.logHanded⟩

theorem finish_next (s : St) (t sid : Nat) (ok : Bool) : (s.finish t sid ok).next = s.next := by
  unfold St.finish; cases ok <;> by_cases h0 : t = 0 <;> simp [h0, St.setPc]
theorem finish_nsid (s : St) (t sid : Nat) (ok : Bool) : (s.finish t sid ok).nsid = s.nsid := by
  unfold St.finish; cases ok <;> by_cases h0 : t = 0 <;> simp [h0, St.setPc]
theorem finish_handed (s : St) (t sid : Nat) (ok : Bool) : (s.finish t sid ok).handed = s.handed := by
  unfold St.finish; cases ok <;> by_cases h0 : t = 0 <;> simp [h0, St.setPc]
theorem finish_wr (s : St) (t sid : Nat) (ok : Bool) : (s.finish t sid ok).wr = s.wr := by
  unfold St.finish; cases ok <;> by_cases h0 : t = 0 <;> simp [h0, St.setPc]
theorem finish_conn (s : St) (t sid : Nat) (ok : Bool) :
    (s.finish t sid ok).conn = s.conn ∨ (s.finish t sid ok).conn = none := by
  unfold St.finish; cases ok <;> by_cases h0 : t = 0 <;> simp [h0, St.setPc]

theorem orderInv_step (hl : cfg.sendLocked = true) (s s' : St) (a : Act) (hm : MutexInv cfg s)
    (hi : OrderInv s) (h : step cfg bytesOf s a = some s') : OrderInv s' := by
  cases a with
  | lockSend t sid =>
    obtain ⟨⟨ht0, hq, hp, hsid, hlk⟩, rfl⟩ := step_lockSend h
    subst hsid
    have hqe : s.queue = [] := hm.noq hq
    have hfl : flatLogs ({ s with lock := some t, nsid := s.nsid + 1, handed := s.handed ++ [s.nsid], xclosed := false }.setPc t
        (.made s.nsid)) = flatLogs s := rfl
    have hnomade : ∀ t' sid', s.pc t' = .made sid' → False := by
      intro t' sid' h'
      have := ((hm.cs t' (by simp [h', inCS])).2 hq).2
      rw [hlk hl] at this; cases this
    constructor
    · exact hi.freshLog
    · exact hi.wrNew
    · exact hi.connWr
    · rw [hfl]; intro x hx; have := hi.logLt x hx; show x < s.nsid + 1; omega
    · rw [hfl]; exact hi.logSorted
    · intro t' sid' h'
      rw [pc_setPc] at h'
      by_cases e : t = t'
      · rw [if_pos e] at h'; cases h'
        refine ⟨Nat.lt_succ_self _, by simp [St.setPc], ?_, ?_⟩
        · rw [hfl]; exact hi.logLt
        · show ∀ y ∈ s.queue, _; rw [hqe]; intro y hy; cases hy
      · rw [if_neg e] at h'; exact (hnomade t' sid' h').elim
    · exact hi.queueSorted
    · show ∀ y ∈ s.queue, _; rw [hqe]; intro y hy; cases hy
    · show (s.handed ++ [s.nsid]).Pairwise (· < ·)
      rw [List.pairwise_append]
      refine ⟨hi.handedSorted, by simp, ?_⟩
      intro a ha b hb; simp at hb; subst hb; exact hi.handedLt a ha
    · show ∀ x ∈ s.handed ++ [s.nsid], x < s.nsid + 1
      intro x hx; rcases List.mem_append.mp hx with h1 | h1
      · have := hi.handedLt x h1; omega
      · simp at h1; omega
    · rw [hfl]; intro x hx; show x ∈ s.handed ++ [s.nsid]; exact List.mem_append_left _ (hi.logHanded x hx)
  | connectOk t =>
    obtain ⟨_, _, rfl⟩ := step_connectOk h
    exact hi.connect (fun _ _ h => h) rfl rfl rfl rfl rfl rfl
  | connectFail t =>
    obtain ⟨sid, hp, _, rfl⟩ := step_connectFail h
    exact hi.move t _ (fun t' => pc_setPc _ _ _ _) rfl rfl rfl rfl rfl rfl (Or.inl rfl) (fun _ => by simp)
  | writeBegin t =>
    obtain ⟨sid, w, hp, hw, _, he, rfl⟩ := step_writeBegin h
    have hwn : w + 1 = s.next := hi.wrNew w hw
    obtain ⟨hsid, hsh, hlogsid, hqsid⟩ := hi.made t sid hp
    have hcs : inCS (s.pc t) = true := by simp [hp, inCS]
    have hfl0 : ∀ s1 : St, s1.next = s.next → s1.log = s.log.set w (s.log.get w ++ [sid]) →
        flatLogs s1 = flatLogs s ++ [sid] := by
      intro s1 h1 h2
      simp only [flatLogs, h1, h2, ← hwn, List.range_succ, List.flatMap_append, List.flatMap_cons, List.flatMap_nil,
        AMap.get_set_self, List.append_nil, List.append_assoc]
      congr 1
      apply flatMap_congr'
      intro x hx
      have : x < w := List.mem_range.mp hx
      rw [AMap.get_set_ne]; omega
    have hfl := hfl0 _ (rfl : ({ s with log := s.log.set w (s.log.get w ++ [sid]), pend := s.pend.set w (bytesOf sid), deadline := s.deadline.set w (if cfg.rearm = true then s.now + s.timeout else s.deadline.get w) }.setPc t (.writing sid w (bytesOf sid))).next = s.next) rfl
    constructor
    · intro w' hw'
      show (s.log.set w (s.log.get w ++ [sid])).get w' = []
      rw [AMap.get_set_ne _ _ _ _ (by show w ≠ w'; have : s.next ≤ w' := hw'; omega)]
      exact hi.freshLog w' hw'
    · exact hi.wrNew
    · exact hi.connWr
    · rw [hfl]; intro x hx; rcases List.mem_append.mp hx with h1 | h1
      · exact hi.logLt x h1
      · simp at h1; subst h1; exact hsid
    · rw [hfl, List.pairwise_append]
      refine ⟨hi.logSorted, by simp, ?_⟩
      intro a ha b hb; simp at hb; subst hb; exact hlogsid a ha
    · intro t' sid' h'
      rw [pc_setPc] at h'
      by_cases e : t = t'
      · rw [if_pos e] at h'; cases h'
      · rw [if_neg e] at h'
        have h'' : s.pc t' = .made sid' := h'
        have : t' = t := mutex_unique cfg hm t' t (by simp [h'', inCS]) hcs
        exact absurd this.symm e
    · exact hi.queueSorted
    · intro y hy
      obtain ⟨h1, h2, h3⟩ := hi.queueLt y hy
      refine ⟨h1, h2, ?_⟩
      rw [hfl]; intro x hx; rcases List.mem_append.mp hx with h4 | h4
      · exact h3 x h4
      · simp at h4; subst h4; exact hqsid y hy
    · exact hi.handedSorted
    · exact hi.handedLt
    · rw [hfl]; intro x hx; rcases List.mem_append.mp hx with h1 | h1
      · exact hi.logHanded x h1
      · simp at h1; subst h1; exact hsh
  | writeSticky t =>
    obtain ⟨sid, w, hp, _, _, _, rfl⟩ := step_writeSticky h
    exact hi.move t _ (fun t' => pc_setPc _ _ _ _) rfl rfl rfl rfl rfl rfl (Or.inl rfl) (fun _ => by simp)
  | writeChunk t n =>
    obtain ⟨sid, w, rest, hp, _, hn, rfl⟩ := step_writeChunk h
    exact hi.move t _ (fun t' => pc_setPc _ _ _ _) rfl rfl rfl rfl rfl rfl (Or.inl rfl) (fun _ => by simp)
  | writeEnd t =>
    obtain ⟨sid, w, hp, rfl⟩ := step_writeEnd h
    exact hi.move t _ (fun t' => pc_setPc _ _ _ _) rfl rfl rfl rfl rfl rfl (Or.inl rfl) (fun _ => by simp)
  | autoFlush t k =>
    obtain ⟨sid, w, rest, hp, _, rfl⟩ := step_autoFlush h
    exact hi.same rfl rfl rfl rfl rfl rfl rfl (Or.inl rfl)
  | autoFlushErr t k =>
    obtain ⟨sid, w, rest, hp, _, rfl⟩ := step_autoFlushErr h
    exact hi.move t _ (fun t' => pc_setPc _ _ _ _) rfl rfl rfl rfl rfl rfl (Or.inl rfl) (fun _ => by simp)
  | flushOk t =>
    obtain ⟨sid, w0, w, hp, _, _, rfl⟩ := step_flushOk h
    refine OrderInv.procRel ?_ _ _
    refine hi.move t _ (fun t' => finish_pc _ _ _ _ _) (finish_next _ _ _ _) (finish_nsid _ _ _ _)
      (finish_log _ _ _ _) (finish_queue _ _ _ _) (finish_handed _ _ _ _) (finish_wr _ _ _ _) (finish_conn _ _ _ _) ?_
    intro sid'; split <;> simp
  | flushErr t k =>
    obtain ⟨sid, w0, w, hp, _, _, rfl⟩ := step_flushErr h
    refine OrderInv.procRel ?_ _ _
    refine hi.move t _ (fun t' => finish_pc _ _ _ _ _) (finish_next _ _ _ _) (finish_nsid _ _ _ _)
      (finish_log _ _ _ _) (finish_queue _ _ _ _) (finish_handed _ _ _ _) (finish_wr _ _ _ _) (finish_conn _ _ _ _) ?_
    intro sid'; split <;> simp
  | close t =>
    obtain ⟨sid, hp, rfl⟩ := step_close h
    refine hi.move t _ (fun t' => pc_setPc _ _ _ _) rfl rfl rfl rfl rfl rfl (Or.inr rfl) ?_
    intro sid'; split <;> simp
  | flushAfterFail =>
    obtain ⟨sid, hp, rfl⟩ := step_flushAfterFail h
    refine OrderInv.procRel ?_ _ _
    exact hi.move 0 _ (fun t' => pc_setPc _ _ _ _) rfl rfl rfl rfl rfl rfl (Or.inl rfl) (fun _ => by simp)
  | unlock t =>
    obtain ⟨sid, ok, hp, _, rfl⟩ := step_unlock h
    exact hi.move t _ (fun t' => pc_setPc _ _ _ _) rfl rfl rfl rfl rfl rfl (Or.inl rfl) (fun _ => by simp)
  | enqueue t sid =>
    obtain ⟨⟨_, hq, hp, hsid, _⟩, rfl⟩ := step_enqueue h
    subst hsid
    have hfl : flatLogs { s with queue := s.queue ++ [s.nsid], nsid := s.nsid + 1, handed := s.handed ++ [s.nsid], results := (s.nsid, true) :: s.results } = flatLogs s := rfl
    constructor
    · exact hi.freshLog
    · exact hi.wrNew
    · exact hi.connWr
    · rw [hfl]; intro x hx; have := hi.logLt x hx; show x < s.nsid + 1; omega
    · rw [hfl]; exact hi.logSorted
    · intro t' sid' h'
      obtain ⟨h1, h2, h3, h4⟩ := hi.made t' sid' h'
      refine ⟨by show sid' < s.nsid + 1; omega, List.mem_append_left _ h2, by rw [hfl]; exact h3, ?_⟩
      intro y hy
      rcases List.mem_append.mp hy with h5 | h5
      · exact h4 y h5
      · simp at h5; subst h5; exact h1
    · show (s.queue ++ [s.nsid]).Pairwise (· < ·)
      rw [List.pairwise_append]
      refine ⟨hi.queueSorted, by simp, ?_⟩
      intro a ha b hb; simp at hb; subst hb; exact (hi.queueLt a ha).1
    · intro y hy
      rcases List.mem_append.mp hy with h5 | h5
      · obtain ⟨h1, h2, h3⟩ := hi.queueLt y h5
        exact ⟨by show y < s.nsid + 1; omega, List.mem_append_left _ h2, by rw [hfl]; exact h3⟩
      · simp at h5; subst h5
        exact ⟨Nat.lt_succ_self _, by simp, by rw [hfl]; exact hi.logLt⟩
    · show (s.handed ++ [s.nsid]).Pairwise (· < ·)
      rw [List.pairwise_append]
      refine ⟨hi.handedSorted, by simp, ?_⟩
      intro a ha b hb; simp at hb; subst hb; exact hi.handedLt a ha
    · show ∀ x ∈ s.handed ++ [s.nsid], x < s.nsid + 1
      intro x hx; rcases List.mem_append.mp hx with h1 | h1
      · have := hi.handedLt x h1; omega
      · simp at h1; omega
    · rw [hfl]; intro x hx; show x ∈ s.handed ++ [s.nsid]; exact List.mem_append_left _ (hi.logHanded x hx)
  | enqueueFail t sid =>
    obtain ⟨⟨_, hq, hp, hsid, _⟩, rfl⟩ := step_enqueueFail h
    have hfl : flatLogs { s with nsid := s.nsid + 1, results := (sid, false) :: s.results } = flatLogs s := rfl
    constructor
    · exact hi.freshLog
    · exact hi.wrNew
    · exact hi.connWr
    · rw [hfl]; intro x hx; have := hi.logLt x hx; show x < s.nsid + 1; omega
    · rw [hfl]; exact hi.logSorted
    · intro t' sid' h'
      obtain ⟨h1, h2, h3, h4⟩ := hi.made t' sid' h'
      exact ⟨by show sid' < s.nsid + 1; omega, h2, by rw [hfl]; exact h3, h4⟩
    · exact hi.queueSorted
    · intro y hy
      obtain ⟨h1, h2, h3⟩ := hi.queueLt y hy
      exact ⟨by show y < s.nsid + 1; omega, h2, by rw [hfl]; exact h3⟩
    · exact hi.handedSorted
    · intro x hx; have := hi.handedLt x hx; show x < s.nsid + 1; omega
    · exact hi.logHanded
  | dequeue =>
    obtain ⟨sid, q, hp, hq, _, _, rfl⟩ := step_dequeue h
    have hfl : flatLogs ({ s with queue := q, lock := if cfg.procLocked = true then some 0 else s.lock, xclosed := false }.setPc 0 (.made sid)) = flatLogs s := rfl
    have hsorted := hi.queueSorted
    rw [hq, List.pairwise_cons] at hsorted
    have hcs0 : ∀ t' sid', t' ≠ 0 → s.pc t' = .made sid' → False := by
      intro t' sid' hne h'
      have huq : cfg.useQueue = true := by
        cases hu : cfg.useQueue with
        | true => rfl
        | false => have := hm.noq hu; simp [hq] at this
      exact hne ((hm.cs t' (by simp [h', inCS])).1 huq).1
    constructor
    · exact hi.freshLog
    · exact hi.wrNew
    · exact hi.connWr
    · exact hi.logLt
    · exact hi.logSorted
    · intro t' sid' h'
      rw [pc_setPc] at h'
      by_cases e : 0 = t'
      · rw [if_pos e] at h'; cases h'
        obtain ⟨h1, h2, h3⟩ := hi.queueLt sid (by rw [hq]; simp)
        exact ⟨h1, h2, by rw [hfl]; exact h3, hsorted.1⟩
      · rw [if_neg e] at h'; exact (hcs0 t' sid' (fun h0 => e h0.symm) h').elim
    · exact hsorted.2
    · intro y hy
      have hy' : y ∈ q := hy
      exact hi.queueLt y (by rw [hq]; exact List.mem_cons_of_mem _ hy')
    · exact hi.handedSorted
    · exact hi.handedLt
    · exact hi.logHanded
  | bgConnectOk =>
    obtain ⟨_, rfl⟩ := step_bgConnectOk h
    exact hi.connect (fun _ _ h => h) rfl rfl rfl rfl rfl rfl
  | bgConnectFail =>
    obtain ⟨_, rfl⟩ := step_bgConnectFail h
    exact hi
  | bgCheck =>
    obtain ⟨⟨_, hp, _⟩, rfl⟩ := step_bgCheck h
    exact hi.move 0 _ (fun t' => pc_setPc _ _ _ _) rfl rfl rfl rfl rfl rfl (Or.inl rfl) (fun _ => by simp)
  | bgDialOk =>
    obtain ⟨hp, rfl⟩ := step_bgDialOk h
    refine hi.connect ?_ rfl rfl rfl rfl rfl rfl
    intro t' sid h'
    rw [pc_setPc] at h'
    by_cases e : 0 = t'
    · rw [if_pos e] at h'; cases h'
    · rw [if_neg e] at h'; exact h'
  | bgDialFail =>
    obtain ⟨hp, rfl⟩ := step_bgDialFail h
    exact hi.move 0 _ (fun t' => pc_setPc _ _ _ _) rfl rfl rfl rfl rfl rfl (Or.inl rfl) (fun _ => by simp)
  | peerClose c n =>
    obtain ⟨_, rfl⟩ := step_peerClose h
    exact hi.same rfl rfl rfl rfl rfl rfl rfl (Or.inl rfl)
  | setCapacity c =>
    rw [step_setCapacity h]
    exact hi.same rfl rfl rfl rfl rfl rfl rfl (Or.inl rfl)
  | setTimeout n =>
    rw [step_setTimeout h]
    exact hi.same rfl rfl rfl rfl rfl rfl rfl (Or.inl rfl)
  | tick d =>
    rw [step_tick h]
    exact hi.same rfl rfl rfl rfl rfl rfl rfl (Or.inl rfl)
  | reconfClose t =>
    obtain ⟨_, rfl⟩ := step_reconfClose h
    exact hi.move t _ (fun t' => pc_setPc _ _ _ _) rfl rfl rfl rfl rfl rfl (Or.inr rfl) (fun _ => by simp)
  | reconfDialOk t =>
    obtain ⟨hp, rfl⟩ := step_reconfDialOk h
    refine hi.connect ?_ rfl rfl rfl rfl rfl rfl
    intro t' sid h'
    rw [pc_setPc] at h'
    by_cases e : t = t'
    · rw [if_pos e] at h'; cases h'
    · rw [if_neg e] at h'; exact h'
  | reconfDialFail t =>
    obtain ⟨hp, rfl⟩ := step_reconfDialFail h
    exact hi.move t _ (fun t' => pc_setPc _ _ _ _) rfl rfl rfl rfl rfl rfl (Or.inl rfl) (fun _ => by simp)
  | extClose t =>
    obtain ⟨_, rfl⟩ := step_extClose h
    exact hi.same rfl rfl rfl rfl rfl rfl rfl (Or.inr rfl)
  | swallow t =>
    obtain ⟨sid, w, hp, _, _, _, _, rfl⟩ := step_swallow h
    exact hi.move t _ (fun t' => pc_setPc _ _ _ _) rfl rfl rfl rfl rfl rfl (Or.inl rfl) (fun _ => by simp)

end Tcp
