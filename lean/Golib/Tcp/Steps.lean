/-
  Golib.Tcp.Steps — inversion lemmas: what `step … a = some s'` says, action by action
  (guard facts and the successor state, explicitly).  Used by the invariant proofs.
-/
import Golib.Tcp.Model
import Golib.Queue.Thms

namespace Tcp

variable {cfg : Cfg} {bytesOf : Nat → Bytes} {s s' : St}

theorem step_lockSend {t sid : Nat} (h : step cfg bytesOf s (.lockSend t sid) = some s') :
    (t ≠ 0 ∧ cfg.useQueue = false ∧ s.pc t = .idle ∧ sid = s.nsid ∧ (cfg.sendLocked = true → s.lock = none)) ∧
    s' = { s with lock := some t, nsid := s.nsid + 1, handed := s.handed ++ [sid], xclosed := false }.setPc t (.made sid) := by
  simp only [step] at h
  split at h
  · next hg => exact ⟨hg, (Option.some.inj h).symm⟩
  · cases h

theorem step_connectOk {t : Nat} (h : step cfg bytesOf s (.connectOk t) = some s') :
    (∃ sid, s.pc t = .made sid) ∧ s.conn = none ∧ s' = s.connectNew := by
  simp only [step] at h
  split at h
  · next sid hp =>
    split at h
    · next hc => exact ⟨⟨sid, hp⟩, hc, (Option.some.inj h).symm⟩
    · cases h
  · cases h

theorem step_connectFail {t : Nat} (h : step cfg bytesOf s (.connectFail t) = some s') :
    ∃ sid, s.pc t = .made sid ∧ s.conn = none ∧ s' = s.setPc t (.failed sid) := by
  simp only [step] at h
  split at h
  · next sid hp =>
    split at h
    · next hc => exact ⟨sid, hp, hc, (Option.some.inj h).symm⟩
    · cases h
  · cases h

theorem step_writeBegin {t : Nat} (h : step cfg bytesOf s (.writeBegin t) = some s') :
    ∃ sid w, s.pc t = .made sid ∧ s.wr = some w ∧ s.conn ≠ none ∧ s.err.get w = false ∧
      s' = { s with log := s.log.set w (s.log.get w ++ [sid]), pend := s.pend.set w (bytesOf sid),
                    deadline := s.deadline.set w (if cfg.rearm = true then s.now + s.timeout else s.deadline.get w) }.setPc t
            (.writing sid w (bytesOf sid)) := by
  simp only [step] at h
  split at h
  · next sid w hp hw =>
    split at h
    · next hg => exact ⟨sid, w, hp, hw, hg.1, hg.2, (Option.some.inj h).symm⟩
    · cases h
  · cases h

theorem step_writeSticky {t : Nat} (h : step cfg bytesOf s (.writeSticky t) = some s') :
    ∃ sid w, s.pc t = .made sid ∧ s.wr = some w ∧ s.conn ≠ none ∧ s.err.get w = true ∧
      s' = s.setPc t (.failed sid) := by
  simp only [step] at h
  split at h
  · next sid w hp hw =>
    split at h
    · next hg => exact ⟨sid, w, hp, hw, hg.1, hg.2, (Option.some.inj h).symm⟩
    · cases h
  · cases h

theorem step_writeChunk {t n : Nat} (h : step cfg bytesOf s (.writeChunk t n) = some s') :
    ∃ sid w rest, s.pc t = .writing sid w rest ∧ 0 < n ∧ n ≤ rest.length ∧
      s' = { s with buf := s.buf.set w (s.buf.get w ++ rest.take n), pend := s.pend.set w (rest.drop n) }.setPc t
            (.writing sid w (rest.drop n)) := by
  simp only [step] at h
  split at h
  · next sid w rest hp =>
    split at h
    · next hg => exact ⟨sid, w, rest, hp, hg.1, hg.2, (Option.some.inj h).symm⟩
    · cases h
  · cases h

theorem step_writeEnd {t : Nat} (h : step cfg bytesOf s (.writeEnd t) = some s') :
    ∃ sid w, s.pc t = .writing sid w [] ∧ s' = s.setPc t (.wrote sid w) := by
  simp only [step] at h
  split at h
  · next sid w hp => exact ⟨sid, w, hp, (Option.some.inj h).symm⟩
  · cases h

theorem step_autoFlush {t k : Nat} (h : step cfg bytesOf s (.autoFlush t k) = some s') :
    ∃ sid w rest, s.pc t = .writing sid w rest ∧ k ≤ (s.buf.get w).length ∧ s' = s.push w k := by
  simp only [step] at h
  split at h
  · next sid w rest hp =>
    split at h
    · next hg => exact ⟨sid, w, rest, hp, hg.1, (Option.some.inj h).symm⟩
    · cases h
  · cases h

theorem step_autoFlushErr {t k : Nat} (h : step cfg bytesOf s (.autoFlushErr t k) = some s') :
    ∃ sid w rest, s.pc t = .writing sid w rest ∧ k ≤ (s.buf.get w).length ∧
      s' = ((s.push w k).setErr w).setPc t (.failed sid) := by
  simp only [step] at h
  split at h
  · next sid w rest hp =>
    split at h
    · next hg => exact ⟨sid, w, rest, hp, hg.1, (Option.some.inj h).symm⟩
    · cases h
  · cases h

theorem step_flushOk {t : Nat} (h : step cfg bytesOf s (.flushOk t) = some s') :
    ∃ sid w0 w, s.pc t = .wrote sid w0 ∧ s.wr = some w ∧ s.err.get w = false ∧
      s' = ((s.push w (s.buf.get w).length).finish t sid true).procRel cfg.procLocked t := by
  simp only [step] at h
  split at h
  · next sid w0 w hp hw =>
    split at h
    · next hg => exact ⟨sid, w0, w, hp, hw, hg.1, (Option.some.inj h).symm⟩
    · cases h
  · cases h

theorem step_flushErr {t k : Nat} (h : step cfg bytesOf s (.flushErr t k) = some s') :
    ∃ sid w0 w, s.pc t = .wrote sid w0 ∧ s.wr = some w ∧ k ≤ (s.buf.get w).length ∧
      s' = (((s.push w k).setErr w).finish t sid false).procRel cfg.procLocked t := by
  simp only [step] at h
  split at h
  · next sid w0 w hp hw =>
    split at h
    · next hg => exact ⟨sid, w0, w, hp, hw, hg.1, (Option.some.inj h).symm⟩
    · cases h
  · cases h

theorem step_close {t : Nat} (h : step cfg bytesOf s (.close t) = some s') :
    ∃ sid, s.pc t = .failed sid ∧
      s' = { s with conn := none }.setPc t (if t = 0 then .afterFail sid else .done sid false) := by
  simp only [step] at h
  split at h
  · next sid hp => exact ⟨sid, hp, (Option.some.inj h).symm⟩
  · cases h

theorem step_flushAfterFail (h : step cfg bytesOf s .flushAfterFail = some s') :
    ∃ sid, s.pc 0 = .afterFail sid ∧ s' = (s.setPc 0 .idle).procRel cfg.procLocked 0 := by
  simp only [step] at h
  split at h
  · next sid hp => exact ⟨sid, hp, (Option.some.inj h).symm⟩
  · cases h

theorem step_unlock {t : Nat} (h : step cfg bytesOf s (.unlock t) = some s') :
    ∃ sid ok, s.pc t = .done sid ok ∧ t ≠ 0 ∧
      s' = { s with lock := none, results := (sid, ok) :: s.results }.setPc t .idle := by
  simp only [step] at h
  split at h
  · next sid ok hp =>
    split at h
    · next h0 => exact ⟨sid, ok, hp, h0, (Option.some.inj h).symm⟩
    · cases h
  · cases h

theorem queue_put_true {q : Queue.Q} {x : Nat} (h : (Queue.step q (.put x)).2.1 = .bool true) :
    q.room = true ∧ (Queue.step q (.put x)).1.items = q.items ++ [x] := by
  cases hr : q.room with
  | true => simp [Queue.step, hr]
  | false => simp [Queue.step, hr] at h

theorem queue_put_false {q : Queue.Q} {x : Nat} (h : (Queue.step q (.put x)).2.1 = .bool false) :
    q.room = false ∧ (Queue.step q (.put x)).1.items = q.items := by
  cases hr : q.room with
  | true => simp [Queue.step, hr] at h
  | false => simp [Queue.step, hr]

/-- Put accepted: by C11's queue model there was room and the element went to the back -/
theorem step_enqueue {t sid : Nat} (h : step cfg bytesOf s (.enqueue t sid) = some s') :
    (t ≠ 0 ∧ cfg.useQueue = true ∧ s.pc t = .idle ∧ sid = s.nsid ∧ s.q.room = true) ∧
    s' = { s with queue := s.queue ++ [sid], nsid := s.nsid + 1, handed := s.handed ++ [sid],
                  results := (sid, true) :: s.results } := by
  simp only [step] at h
  split at h
  · next hg =>
    obtain ⟨h1, h2, h3, h4, h5⟩ := hg
    obtain ⟨hr, hi⟩ := queue_put_true h5
    refine ⟨⟨h1, h2, h3, h4, hr⟩, ?_⟩
    rw [← Option.some.inj h, hi]; rfl
  · cases h

/-- Put refused: by C11's queue model the queue was full, and it is unchanged -/
theorem step_enqueueFail {t sid : Nat} (h : step cfg bytesOf s (.enqueueFail t sid) = some s') :
    (t ≠ 0 ∧ cfg.useQueue = true ∧ s.pc t = .idle ∧ sid = s.nsid ∧ s.q.room = false) ∧
    s' = { s with nsid := s.nsid + 1, results := (sid, false) :: s.results } := by
  simp only [step] at h
  split at h
  · next hg =>
    obtain ⟨h1, h2, h3, h4, h5⟩ := hg
    obtain ⟨hr, hi⟩ := queue_put_false h5
    refine ⟨⟨h1, h2, h3, h4, hr⟩, ?_⟩
    rw [← Option.some.inj h, hi]; rfl
  · cases h

theorem queue_getNoWait_val {q : Queue.Q} {x : Nat} (h : (Queue.step q .getNoWait).2.1 = .val x) (hx : x ≠ 0) :
    ∃ r, q.items = x :: r ∧ (Queue.step q .getNoWait).1.items = r := by
  cases hq : q.items with
  | nil => simp [Queue.step, hq] at h; exact absurd h.symm hx
  | cons y r =>
    simp [Queue.step, hq] at h
    subst h
    exact ⟨r, rfl, by simp [Queue.step, hq]⟩

/-- GetTimeout returned an element: by C11's queue model it was the head -/
theorem step_dequeue (h : step cfg bytesOf s .dequeue = some s') :
    ∃ sid q, s.pc 0 = .idle ∧ s.queue = sid :: q ∧ sid ≠ 0 ∧ (cfg.procLocked = true → s.lock = none) ∧
      s' = { s with queue := q, lock := if cfg.procLocked = true then some 0 else s.lock, xclosed := false }.setPc 0 (.made sid) := by
  simp only [step] at h
  split at h
  · next sid hp hq =>
    split at h
    · next hg =>
      obtain ⟨r, h1, h2⟩ := queue_getNoWait_val hq hg.1
      refine ⟨sid, r, hp, h1, hg.1, hg.2, ?_⟩
      rw [← Option.some.inj h, h2]
    · cases h
  · cases h

theorem step_bgConnectOk (h : step cfg bytesOf s .bgConnectOk = some s') :
    (cfg.bgLocked = true ∧ s.pc 0 = .idle ∧ s.lock = none ∧ s.conn = none) ∧ s' = s.connectNew := by
  simp only [step] at h
  split at h
  · next hg => exact ⟨hg, (Option.some.inj h).symm⟩
  · cases h

theorem step_bgConnectFail (h : step cfg bytesOf s .bgConnectFail = some s') :
    (cfg.bgLocked = true ∧ s.pc 0 = .idle ∧ s.lock = none ∧ s.conn = none) ∧ s' = s := by
  simp only [step] at h
  split at h
  · next hg => exact ⟨hg, (Option.some.inj h).symm⟩
  · cases h

theorem step_bgCheck (h : step cfg bytesOf s .bgCheck = some s') :
    (cfg.bgLocked = false ∧ s.pc 0 = .idle ∧ s.conn = none) ∧ s' = s.setPc 0 .bgDial := by
  simp only [step] at h
  split at h
  · next hg => exact ⟨hg, (Option.some.inj h).symm⟩
  · cases h

theorem step_bgDialOk (h : step cfg bytesOf s .bgDialOk = some s') :
    s.pc 0 = .bgDial ∧ s' = s.connectNew.setPc 0 .idle := by
  simp only [step] at h
  split at h
  · next hg => exact ⟨hg, (Option.some.inj h).symm⟩
  · cases h

theorem step_bgDialFail (h : step cfg bytesOf s .bgDialFail = some s') :
    s.pc 0 = .bgDial ∧ s' = s.setPc 0 .idle := by
  simp only [step] at h
  split at h
  · next hg => exact ⟨hg, (Option.some.inj h).symm⟩
  · cases h

theorem step_peerClose {c n : Nat} (h : step cfg bytesOf s (.peerClose c n) = some s') :
    (s.cut.get c = none ∧ n ≤ (s.sentRev.get c).length) ∧ s' = { s with cut := s.cut.set c (some n) } := by
  simp only [step] at h
  split at h
  · next hg => exact ⟨hg, (Option.some.inj h).symm⟩
  · cases h

theorem step_setCapacity {c : Int} (h : step cfg bytesOf s (.setCapacity c) = some s') :
    s' = { s with qcap := c } := by
  simp only [step] at h
  exact (Option.some.inj h).symm

theorem step_setTimeout {n : Nat} (h : step cfg bytesOf s (.setTimeout n) = some s') :
    s' = { s with timeout := n } := by
  simp only [step] at h
  exact (Option.some.inj h).symm

theorem step_tick {d : Nat} (h : step cfg bytesOf s (.tick d) = some s') :
    s' = { s with now := s.now + d } := by
  simp only [step] at h
  exact (Option.some.inj h).symm

theorem step_reconfClose {t : Nat} (h : step cfg bytesOf s (.reconfClose t) = some s') :
    (t ≠ 0 ∧ s.pc t = .idle ∧ (cfg.acLocked = true → s.lock = none)) ∧
    s' = { s with conn := none, lock := if cfg.acLocked = true then some t else s.lock }.setPc t .reconf := by
  simp only [step] at h
  split at h
  · next hg => exact ⟨hg, (Option.some.inj h).symm⟩
  · cases h

theorem step_reconfDialOk {t : Nat} (h : step cfg bytesOf s (.reconfDialOk t) = some s') :
    s.pc t = .reconf ∧
    s' = { s.connectNew with lock := if cfg.acLocked = true then none else s.lock }.setPc t .idle := by
  simp only [step] at h
  split at h
  · next hg => exact ⟨hg, (Option.some.inj h).symm⟩
  · cases h

theorem step_reconfDialFail {t : Nat} (h : step cfg bytesOf s (.reconfDialFail t) = some s') :
    s.pc t = .reconf ∧
    s' = { s with lock := if cfg.acLocked = true then none else s.lock }.setPc t .idle := by
  simp only [step] at h
  split at h
  · next hg => exact ⟨hg, (Option.some.inj h).symm⟩
  · cases h

theorem step_extClose {t : Nat} (h : step cfg bytesOf s (.extClose t) = some s') :
    (t ≠ 0 ∧ s.pc t = .idle) ∧ s' = { s with conn := none, xclosed := true } := by
  simp only [step] at h
  split at h
  · next hg => exact ⟨hg, (Option.some.inj h).symm⟩
  · cases h

theorem step_swallow {t : Nat} (h : step cfg bytesOf s (.swallow t) = some s') :
    ∃ sid w, s.pc t = .made sid ∧ s.wr = some w ∧ cfg.recoverReports = false ∧ s.xclosed = true ∧ s.conn = none ∧
      s' = s.setPc t (.wrote sid w) := by
  simp only [step] at h
  split at h
  · next sid w hp hw =>
    split at h
    · next hg => exact ⟨sid, w, hp, hw, hg.1, hg.2.1, hg.2.2, (Option.some.inj h).symm⟩
    · cases h
  · cases h

/-- bytes are pushed only by these four actions, always on a writer without a sticky error
    (a failed Flush on a writer already in error pushes nothing) -/
theorem step_autoFlush_clean {t k : Nat} (h : step cfg bytesOf s (.autoFlush t k) = some s') :
    ∃ w, s.err.get w = false ∧ s' = s.push w k := by
  simp only [step] at h
  split at h
  · next sid w rest hp =>
    split at h
    · next hg => exact ⟨w, hg.2.2, (Option.some.inj h).symm⟩
    · cases h
  · cases h

theorem step_autoFlushErr_clean {t k : Nat} (h : step cfg bytesOf s (.autoFlushErr t k) = some s') :
    ∃ sid w, s.err.get w = false ∧ s' = ((s.push w k).setErr w).setPc t (.failed sid) := by
  simp only [step] at h
  split at h
  · next sid w rest hp =>
    split at h
    · next hg => exact ⟨sid, w, hg.2, (Option.some.inj h).symm⟩
    · cases h
  · cases h

theorem step_flushErr_sticky {t k : Nat} (h : step cfg bytesOf s (.flushErr t k) = some s') :
    ∃ sid w, (s.err.get w = true → k = 0) ∧ s' = (((s.push w k).setErr w).finish t sid false).procRel cfg.procLocked t := by
  simp only [step] at h
  split at h
  · next sid w0 w hp hw =>
    split at h
    · next hg => exact ⟨sid, w, hg.2.1, (Option.some.inj h).symm⟩
    · cases h
  · cases h

end Tcp
