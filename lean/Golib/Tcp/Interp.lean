/-
  Golib.Tcp.Interp — tie A, interpreted.

  xlate/c06 transcribes the *statements* of sendDirect, process(), send(), Connect(), Close() and
  ApplyConfig (Golib/Gen/C06.lean: values of `Prog`).  Here that data gets a semantics: `interpSender`
  and `interpProc` execute a transcribed program against an environment (does the dial succeed,
  is the writer in error, does the write / the flush succeed) and produce the sequence of model
  actions (`Tcp.Act`) the code performs.  The model's own per-call programs are `directActs` and
  `procActs` (the action lists `expand` replays for the harness and the recovery theorems run).
  Golib/Props/C06Gen.lean proves, for the programs transcribed from the source on this run and
  for every environment, thread, send id and frame length, that the two coincide — and derives
  the lock flags of the model configuration from the same programs.
-/
import Golib.Tcp.Exec

namespace Tcp

/-- statements of the transcribed functions (flat: the error branches of the three `if err != nil`
    forms are recorded as flags) -/
inductive Stmt where
  | lock | unlock | deferUnlock
  | makeData
  /-- `if err := this.send(…); err != nil { [Close();] [return err] }` -/
  | trySend (closeOnErr retOnErr : Bool)
  /-- `if _, err := this.Flush(); err != nil { [Close();] [return …] }` -/
  | tryFlush (closeOnErr retOnErr : Bool)
  /-- `[if] err := this.Connect(); err != nil { … continue/return }` or the bare call -/
  | tryConnect (leaveOnErr : Bool)
  | close
  | getItem                       -- `if tmp := this.Queue.GetTimeout(…); tmp != nil {`  … rest of the list is the body
  | ifChanged                     -- ApplyConfig: `if this.License != license || … {`
  | endIf
  | setCapacity
  | retNil
  deriving DecidableEq, Repr

/-- statements of send() -/
inductive SendStmt where
  | ifNilConnect                  -- `if this.conn == nil { if err := this.Connect(); err != nil { return … } }`
  | armDeadline                   -- `this.conn.SetWriteDeadline(now + Timeout)` (error: return)
  | bufWrite                      -- `this.wr.Write(…)` (error: return)
  | recoverSetsErr                -- the deferred recover() assigns the named result `err`
  deriving DecidableEq, Repr

abbrev Prog := List Stmt

/-- what the environment does during one call -/
structure Env where
  needDial : Bool     -- conn == nil when send() starts
  dialOk : Bool
  sticky : Bool       -- the current writer carries a sticky error
  writeOk : Bool      -- the copy into the buffered writer succeeds
  flushOk : Bool
  deriving DecidableEq, Repr

/-- everything succeeds (dialling first if `dial`) -/
def Env.good (dial : Bool) : Env := ⟨dial, true, false, true, true⟩
/-- connected, and the writer carries a sticky error -/
def Env.stuck : Env := ⟨false, true, true, true, true⟩

/-- actions of `send()` under `env`, and whether it returned an error; `none` if the body cannot do
    what the situation requires (no dial although conn == nil) -/
def sendActs (body : List SendStmt) (env : Env) (t len : Nat) : Option (List Act × Bool) :=
  if ¬ body.contains .bufWrite then none else
  if env.needDial ∧ ¬ body.contains .ifNilConnect then none else
  if env.needDial ∧ ¬ env.dialOk then some ([.connectFail t], true) else
  let dial : List Act := if env.needDial then [.connectOk t] else []
  if env.sticky ∧ ¬ env.needDial then some (dial ++ [.writeSticky t], true) else
  if env.writeOk then some (dial ++ [.writeBegin t, .writeChunk t len, .writeEnd t], false)
  else some (dial ++ [.writeBegin t, .writeChunk t len, .autoFlushErr t (len - 1)], true)

/-- interpreter state for a sender's call -/
structure ISt where
  acts : List Act := []
  locked : Bool := false
  deferred : Bool := false
  made : Bool := false
  sendFailed : Bool := false
  done : Bool := false
  ok : Bool := true           -- false: the program did something the model has no action for

def ISt.emit (i : ISt) (as : List Act) : ISt := { i with acts := i.acts ++ as }

/-- one statement of sendDirect, thread `t` (a sender), send `sid`, frame length `len` -/
def stepSender (body : List SendStmt) (env : Env) (t sid len : Nat) (i : ISt) : Stmt → ISt
  | .lock => { i with locked := true }
  | .deferUnlock => { i with deferred := true }
  | .unlock => if i.made then { (i.emit [.unlock t]) with locked := false, made := false } else { i with locked := false }
  | .makeData => if i.locked then { (i.emit [.lockSend t sid]) with made := true } else { i with ok := false }
  | .trySend c r =>
    match sendActs body env t len with
    | none => { i with ok := false }
    | some (as, false) => i.emit as
    | some (as, true) =>
      let i1 := (i.emit as).emit (if c then [.close t] else [])
      { i1 with sendFailed := true, done := r }
  | .tryFlush c r =>
    if i.sendFailed then { i with ok := false }     -- a sender that flushes after a failed send: no such model action
    else if env.flushOk then i.emit [.flushOk t]
    else
      let i1 := (i.emit [.flushErr t (len - 1)]).emit (if c then [.close t] else [])
      { i1 with done := r }
  | .close => i.emit [.close t]
  | .retNil => { i with done := true }
  | _ => { i with ok := false }

def runSender (body : List SendStmt) (env : Env) (t sid len : Nat) : Prog → ISt → ISt
  | [], i => i
  | st :: rest, i => if i.done then i else runSender body env t sid len rest (stepSender body env t sid len i st)

/-- the actions sendDirect performs: its statements, then the deferred Unlock -/
def interpSender (body : List SendStmt) (prog : Prog) (env : Env) (t sid len : Nat) : Option (List Act) :=
  let i := runSender body env t sid len prog {}
  if ¬ i.ok then none else
  some (i.acts ++ (if i.deferred ∧ i.made then [.unlock t] else []))

/-- the model's program of one direct send (what `expand` replays) -/
def directActs (env : Env) (t sid len : Nat) : List Act :=
  [.lockSend t sid] ++
  (if env.needDial ∧ ¬ env.dialOk then [.connectFail t, .close t]
   else (if env.needDial then [Act.connectOk t] else []) ++
     (if env.sticky ∧ ¬ env.needDial then [.writeSticky t, .close t]
      else if ¬ env.writeOk then [.writeBegin t, .writeChunk t len, .autoFlushErr t (len - 1), .close t]
      else [.writeBegin t, .writeChunk t len, .writeEnd t] ++
        (if env.flushOk then [.flushOk t] else [.flushErr t (len - 1)]))) ++
  [.unlock t]

/-- one statement of process()'s item body (thread 0); `makeData` stands for GetTimeout+makeData = `dequeue` -/
def stepProc (body : List SendStmt) (env : Env) (len : Nat) (i : ISt) : Stmt → ISt
  | .lock => { i with locked := true }
  | .unlock => { i with locked := false }
  | .makeData => { (i.emit [.dequeue]) with made := true }
  | .trySend c r =>
    match sendActs body env 0 len with
    | none => { i with ok := false }
    | some (as, false) => i.emit as
    | some (as, true) =>
      -- the model's process() always closes after a failed send and goes on to Flush
      if c ∧ ¬ r then { ((i.emit as).emit [.close 0]) with sendFailed := true } else { i with ok := false }
  | .tryFlush c r =>
    if i.sendFailed then i.emit [.flushAfterFail]
    else if env.flushOk then i.emit [.flushOk 0]
    else if c ∧ ¬ r then i.emit [.flushErr 0 (len - 1)]     -- the model's failed Flush of process() includes the Close
    else { i with ok := false }
  | _ => { i with ok := false }

def runProc (body : List SendStmt) (env : Env) (len : Nat) : Prog → ISt → ISt
  | [], i => i
  | st :: rest, i => runProc body env len rest (stepProc body env len i st)

def interpProc (body : List SendStmt) (prog : Prog) (env : Env) (len : Nat) : Option (List Act) :=
  let i := runProc body env len prog {}
  if ¬ i.ok then none else some i.acts

/-- the model's program of process() for one queue item -/
def procActs (env : Env) (len : Nat) : List Act :=
  [.dequeue] ++
  (if env.needDial ∧ ¬ env.dialOk then [.connectFail 0, .close 0, .flushAfterFail]
   else (if env.needDial then [Act.connectOk 0] else []) ++
     (if env.sticky ∧ ¬ env.needDial then [.writeSticky 0, .close 0, .flushAfterFail]
      else if ¬ env.writeOk then [.writeBegin 0, .writeChunk 0 len, .autoFlushErr 0 (len - 1), .close 0, .flushAfterFail]
      else [.writeBegin 0, .writeChunk 0 len, .writeEnd 0] ++
        (if env.flushOk then [.flushOk 0] else [.flushErr 0 (len - 1)])))

/-! ### lock flags read off the programs -/

/-- `lock` is the first statement and `unlock` the last / `deferUnlock` the second -/
def Prog.bracketed (p : Prog) : Bool :=
  p.head? == some .lock && (p.getLast? == some .unlock || (p.drop 1).head? == some .deferUnlock)

/-- every `tryConnect` / `close` of the program lies between `lock` and `unlock` -/
def Prog.connectsLocked (p : Prog) : Bool :=
  (p.foldl (fun (acc : Bool × Bool) st =>
    match st with
    | .lock => (acc.1, true)
    | .unlock => (acc.1, false)
    | .tryConnect _ => (acc.1 && acc.2, acc.2)
    | .close => (acc.1 && acc.2, acc.2)
    | _ => acc) (true, false)).1 && (p.any (fun st => match st with | .tryConnect _ => true | _ => false))

structure Progs where
  sendDirect : Prog
  send : List SendStmt
  procTop : Prog            -- process(): loop top, up to GetTimeout
  procItem : Prog           -- process(): body of `if tmp != nil`
  applyConfig : Prog
  deriving DecidableEq, Repr

/-- the configuration of the model the transcribed programs correspond to -/
def Progs.cfg (p : Progs) (useQueue : Bool) : Cfg :=
  { useQueue := useQueue
    sendLocked := p.sendDirect.bracketed
    bgLocked := p.procTop.connectsLocked
    procLocked := p.procItem.bracketed
    acLocked := p.applyConfig.connectsLocked
    rearm := p.send.contains .armDeadline &&
      (p.send.dropWhile (· != .armDeadline)).contains .bufWrite
    recoverReports := p.send.contains .recoverSetsErr }

/-- the programs the model was written against (after fix-D42 and fix-D70) -/
def assumedProgs : Progs :=
  { sendDirect := [.lock, .deferUnlock, .makeData, .trySend true true, .tryFlush false true, .retNil]
    send := [.recoverSetsErr, .ifNilConnect, .armDeadline, .bufWrite]
    procTop := [.lock, .tryConnect true, .unlock, .getItem]
    procItem := [.lock, .makeData, .trySend true false, .tryFlush true false, .unlock]
    applyConfig := [.lock, .ifChanged, .close, .tryConnect false, .endIf, .unlock, .setCapacity] }

/-- the transcription of the model's own programs is interpreted to the model's action lists -/
theorem assumed_sender (env : Env) (t sid len : Nat) :
    interpSender assumedProgs.send assumedProgs.sendDirect env t sid len = some (directActs env t sid len) := by
  obtain ⟨a, b, c, d, e⟩ := env
  cases a <;> cases b <;> cases c <;> cases d <;> cases e <;> rfl

theorem assumed_proc (env : Env) (len : Nat) :
    interpProc assumedProgs.send assumedProgs.procItem env len = some (procActs env len) := by
  obtain ⟨a, b, c, d, e⟩ := env
  cases a <;> cases b <;> cases c <;> cases d <;> cases e <;> rfl

/-! ### the remaining bodies: which license, which entry point, Connect, Close -/

/-- the license expression of makeData's header -/
inductive LicExpr where
  | override                      -- `o.License` (the per-send option)
  | client                        -- `this.License`
  | ifOverrideNonEmpty (t e : LicExpr)   -- `if o.License != "" { t } else { e }`
  | ifOverrideEmpty (t e : LicExpr)      -- `if o.License == "" { t } else { e }`
  | unknown
  deriving DecidableEq, Repr

def LicExpr.eval : LicExpr → (ov dflt : Bytes) → Bytes
  | .override, ov, _ => ov
  | .client, _, d => d
  | .ifOverrideNonEmpty t e, ov, d => if ov ≠ [] then t.eval ov d else e.eval ov d
  | .ifOverrideEmpty t e, ov, d => if ov = [] then t.eval ov d else e.eval ov d
  | .unknown, _, _ => [0xde, 0xad]

/-- statements of SendFlush -/
inductive EntryStmt where
  | ifUseQueue | ifOther | elseBranch | endIf
  | queuePut (retByResult : Bool)       -- `ret := Queue.Put(…)`; nil / "Enqueue Failed" by its result
  | sendDirect                          -- `return this.sendDirect(…)`
  deriving DecidableEq, Repr

inductive Entry where
  | enq | direct
  deriving DecidableEq, Repr

/-- which path a call takes: the first `queuePut` / `sendDirect` reached, given `UseQueue`
    (the `flush` flag is an input on purpose: the result must not depend on it) -/
def firstEntry (l : List EntryStmt) : Option Entry :=
  l.findSome? (fun st => match st with
    | .queuePut true => some .enq
    | .sendDirect => some .direct
    | _ => none)

def interpEntry (p : List EntryStmt) (useQueue _flush : Bool) : Option Entry :=
  match p with
  | .ifUseQueue :: rest =>
    firstEntry (if useQueue then rest.takeWhile (· != .elseBranch) else (rest.dropWhile (· != .elseBranch)).drop 1)
  | .ifOther :: _ => none          -- the path depends on something else than UseQueue
  | l => firstEntry l

/-- statements of Connect() and Close() -/
inductive ConnStmt where
  | retIfConnSet                  -- `if this.conn != nil { return nil }`
  | dial                          -- `net.DialTimeout` in the loop over servers (failure: next server)
  | assignConn | assignWrNew      -- `this.conn = client` / `this.wr = bufio.NewWriterSize(client, …)`
  | connClose                     -- `this.conn.Close()`
  | assignConnNil                 -- `this.conn = nil`
  | retIfConnNil                  -- Close(): `if this.conn == nil { return nil }`
  | unknown                       -- conn / wr changed in a way the model does not have (under another
                                  -- condition, `wr` assigned something else than a new writer, …)
  deriving DecidableEq, Repr

/-- effect of a transcribed Connect / Close body on (conn, wr, connections made so far) -/
def interpConn : List ConnStmt → (dialOk : Bool) → (Option Nat × Option Nat × Nat) → (Option Nat × Option Nat × Nat)
  | [], _, st => st
  | .retIfConnSet :: rest, ok, (c, w, n) => if c.isSome then (c, w, n) else interpConn rest ok (c, w, n)
  | .retIfConnNil :: rest, ok, (c, w, n) => if c.isNone then (c, w, n) else interpConn rest ok (c, w, n)
  | .dial :: rest, ok, st => if ok then interpConn rest ok st else st
  | .assignConn :: rest, ok, (_, w, n) => interpConn rest ok (some n, w, n)
  | .assignWrNew :: rest, ok, (c, _, n) => interpConn rest ok (c, some n, n + 1)
  | .connClose :: rest, ok, st => interpConn rest ok st
  | .assignConnNil :: rest, ok, (_, w, n) => interpConn rest ok (none, w, n)
  | .unknown :: _, _, (_, _, n) => (some (n + 1000000), none, 0)      -- agrees with no model transition

/-- what the model does for Connect (the guard `conn = none` of its connect actions, `connectNew`) -/
def modelConnect (dialOk : Bool) (st : Option Nat × Option Nat × Nat) : Option Nat × Option Nat × Nat :=
  if st.1.isSome then st else if dialOk then (some st.2.2, some st.2.2, st.2.2 + 1) else st

/-- what the model does for Close (`close`, `extClose`, `reconfClose`: conn := none, wr kept) -/
def modelClose (st : Option Nat × Option Nat × Nat) : Option Nat × Option Nat × Nat := (none, st.2.1, st.2.2)

theorem connectNew_is_modelConnect (s : St) (h : s.conn = none) :
    (s.connectNew.conn, s.connectNew.wr, s.connectNew.next) = modelConnect true (s.conn, s.wr, s.next) := by
  simp [modelConnect, St.connectNew, h]

structure Bodies where
  license : LicExpr
  headerSrc : Nat
  headerVer : Nat
  sendFlush : List EntryStmt
  sendIsSendFlushFalse : Bool      -- `Send(p, opts…)` is `return this.SendFlush(p, false, opts…)`
  connect : List ConnStmt
  close : List ConnStmt
  deriving DecidableEq, Repr

def assumedBodies : Bodies :=
  { license := .ifOverrideNonEmpty .override .client
    headerSrc := 10
    headerVer := 0
    sendFlush := [.ifUseQueue, .queuePut true, .elseBranch, .sendDirect, .endIf]
    sendIsSendFlushFalse := true
    connect := [.retIfConnSet, .dial, .assignConn, .assignWrNew]
    close := [.retIfConnNil, .connClose, .assignConnNil] }

/-! ### `expand` (what the driver replays and the recovery theorems run) is these programs -/

/-- the environment a call outcome stands for, in state `s` -/
def envOf (s : St) : Outcome → Env
  | .ok => { needDial := s.conn = none, dialOk := true, sticky := false, writeOk := true, flushOk := true }
  | .connect => { needDial := true, dialOk := false, sticky := false, writeOk := true, flushOk := true }
  | .write => { needDial := s.conn = none, dialOk := true, sticky := writerErr s, writeOk := false, flushOk := true }
  | .flush => { needDial := s.conn = none, dialOk := true, sticky := false, writeOk := true, flushOk := false }

theorem expand_direct (cfg : Cfg) (lenOf : Nat → Nat) (s : St) (t : Nat) (o : Outcome) :
    expand cfg lenOf s (.direct t o) = directActs (envOf s o) t s.nsid (lenOf s.nsid) := by
  cases o <;> by_cases hc : s.conn = none <;> cases he : writerErr s <;>
    simp [expand, directActs, envOf, sendPrefix, hc, he]

end Tcp
