/-
  Golib.Tcp.Theorems — the invariants lifted to every reachable state, and their consequences
  in terms of what the connections carried.
-/
import Golib.Tcp.NoLoss

namespace Tcp

variable (cfg : Cfg) (bytesOf : Nat → Bytes)

/-- induction over schedules, with a side condition on the actions used -/
theorem run_inv {I : St → Prop} (P : Act → Prop)
    (hstep : ∀ s a s', P a → I s → step cfg bytesOf s a = some s' → I s') :
    ∀ (acts : List Act) (s0 s : St), (∀ a ∈ acts, P a) → I s0 → run cfg bytesOf acts s0 = some s → I s := by
  intro acts
  induction acts with
  | nil => intro s0 s _ h0 h; simp only [run] at h; cases h; exact h0
  | cons a as ih =>
    intro s0 s hP h0 h
    simp only [run] at h
    cases hs : step cfg bytesOf s0 a with
    | none => rw [hs] at h; cases h
    | some s1 =>
      rw [hs] at h
      exact ih s1 s (fun b hb => hP b (by simp [hb])) (hstep s0 a s1 (hP a (by simp)) h0 hs) h

structure Core (s : St) : Prop where
  mutex : MutexInv cfg s
  bytes : BytesInv bytesOf s
  order : OrderInv s

theorem core_init : Core cfg bytesOf init := ⟨mutexInv_init cfg, bytesInv_init bytesOf, orderInv_init⟩

theorem core_step (hl : cfg.sendLocked = true) (s : St) (a : Act) (s' : St) (hi : Core cfg bytesOf s)
    (h : step cfg bytesOf s a = some s') : Core cfg bytesOf s' :=
  ⟨mutexInv_step cfg bytesOf hl s s' a hi.mutex h,
   bytesInv_step cfg bytesOf s s' a hi.mutex hi.bytes h,
   orderInv_step cfg bytesOf hl s s' a hi.mutex hi.order h⟩

theorem core_reach (hl : cfg.sendLocked = true) {s : St} (hr : Reach cfg bytesOf s) : Core cfg bytesOf s := by
  obtain ⟨acts, h⟩ := hr
  exact run_inv cfg bytesOf (fun _ => True) (fun s a s' _ hi h => core_step cfg bytesOf hl s a s' hi h)
    acts init s (fun _ _ => trivial) (core_init cfg bytesOf) h

/-! ### whole frames -/

theorem sent_prefix_of_core {s : St} (hc : Core cfg bytesOf s) (c : Nat) :
    s.sent c <+: concatF bytesOf (s.log.get c) := by
  have := hc.bytes.eq c
  rw [List.append_assoc] at this
  exact ⟨_, this⟩

theorem delivered_prefix_sent (s : St) (c : Nat) : s.delivered c <+: s.sent c := by
  unfold St.delivered
  split
  · exact List.take_prefix _ _
  · exact List.prefix_refl _

theorem sent_whole_of_idle {s : St} (hc : Core cfg bytesOf s) (c : Nat)
    (hb : s.buf.get c = []) (hp : s.pend.get c = []) : s.sent c = concatF bytesOf (s.log.get c) := by
  have := hc.bytes.eq c
  rw [hb, hp] at this
  simpa using this

theorem log_handed {s : St} (hc : Core cfg bytesOf s) (c sid : Nat) (h : sid ∈ s.log.get c) : sid ∈ s.handed := by
  apply hc.order.logHanded
  by_cases hlt : c < s.next
  · exact List.mem_flatMap.mpr ⟨c, List.mem_range.mpr hlt, h⟩
  · rw [hc.order.freshLog c (by omega)] at h; cases h

/-! ### order -/

theorem sublist_of_sorted : ∀ (l2 l1 : List Nat), l1.Pairwise (· < ·) → l2.Pairwise (· < ·) →
    (∀ x ∈ l1, x ∈ l2) → l1.Sublist l2 := by
  intro l2
  induction l2 with
  | nil =>
    intro l1 _ _ hs
    cases l1 with
    | nil => exact List.Sublist.slnil
    | cons a r => exact absurd (hs a (by simp)) (by simp)
  | cons b r ih =>
    intro l1 h1 h2 hs
    cases l1 with
    | nil => exact List.nil_sublist _
    | cons a l1' =>
      rw [List.pairwise_cons] at h1 h2
      by_cases e : a = b
      · subst e
        refine List.Sublist.cons_cons a (ih l1' h1.2 h2.2 ?_)
        intro x hx
        have hax := h1.1 x hx
        rcases List.mem_cons.mp (hs x (by simp [hx])) with h3 | h3
        · omega
        · exact h3
      · refine List.Sublist.cons b (ih (a :: l1') (List.pairwise_cons.mpr h1) h2.2 ?_)
        have har : a ∈ r := by
          rcases List.mem_cons.mp (hs a (by simp)) with h3 | h3
          · exact absurd h3 e
          · exact h3
        have hba := h2.1 a har
        intro x hx
        rcases List.mem_cons.mp hx with h4 | h4
        · subst h4; exact har
        · have := h1.1 x h4
          rcases List.mem_cons.mp (hs x (by simp [h4])) with h3 | h3
          · omega
          · exact h3

/-! ### nothing accepted is lost on a healthy connection -/

/-- under `bgLocked` the racy background dial never happens -/
def NoDial (s : St) : Prop := ∀ t, s.pc t ≠ .bgDial

theorem noDial_step (hb : cfg.bgLocked = true) (s : St) (a : Act) (s' : St) (hi : NoDial s)
    (h : step cfg bytesOf s a = some s') : NoDial s' := by
  intro t'
  have mv : ∀ (t : Nat) (p : Pc) (s1 : St), p ≠ .bgDial → (s1.setPc t p).pc t' = .bgDial → s1.pc t' = .bgDial := by
    intro t p s1 hp h'
    rw [pc_setPc] at h'
    by_cases e : t = t'
    · rw [if_pos e] at h'; exact absurd h' hp
    · rw [if_neg e] at h'; exact h'
  have fin : ∀ (t sid : Nat) (ok : Bool) (s1 : St), (s1.finish t sid ok).pc t' = .bgDial → s1.pc t' = .bgDial := by
    intro t sid ok s1 h'
    rw [finish_pc] at h'
    by_cases e : t = t'
    · rw [if_pos e] at h'; split at h' <;> cases h'
    · rw [if_neg e] at h'; exact h'
  intro hd
  cases a with
  | lockSend t sid => obtain ⟨_, rfl⟩ := step_lockSend h; exact hi t' (mv _ _ _ (by simp) hd)
  | connectOk t => obtain ⟨_, _, rfl⟩ := step_connectOk h; exact hi t' hd
  | connectFail t => obtain ⟨_, _, _, rfl⟩ := step_connectFail h; exact hi t' (mv _ _ _ (by simp) hd)
  | writeBegin t => obtain ⟨_, _, _, _, _, _, rfl⟩ := step_writeBegin h; exact hi t' (mv _ _ _ (by simp) hd)
  | writeSticky t => obtain ⟨_, _, _, _, _, _, rfl⟩ := step_writeSticky h; exact hi t' (mv _ _ _ (by simp) hd)
  | writeChunk t n => obtain ⟨_, _, _, _, _, _, rfl⟩ := step_writeChunk h; exact hi t' (mv _ _ _ (by simp) hd)
  | writeEnd t => obtain ⟨_, _, _, rfl⟩ := step_writeEnd h; exact hi t' (mv _ _ _ (by simp) hd)
  | autoFlush t k => obtain ⟨_, _, _, _, _, rfl⟩ := step_autoFlush h; exact hi t' hd
  | autoFlushErr t k => obtain ⟨_, _, _, _, _, rfl⟩ := step_autoFlushErr h; exact hi t' (mv _ _ _ (by simp) hd)
  | flushOk t =>
    obtain ⟨_, _, _, _, _, _, rfl⟩ := step_flushOk h
    have hd' : ((s.push _ _).finish t _ true).pc t' = .bgDial := hd
    have h2 := fin _ _ _ _ hd'; exact hi t' h2
  | flushErr t k =>
    obtain ⟨_, _, _, _, _, _, rfl⟩ := step_flushErr h
    have hd' : (((s.push _ k).setErr _).finish t _ false).pc t' = .bgDial := hd
    have h2 := fin _ _ _ _ hd'; exact hi t' h2
  | close t =>
    obtain ⟨_, _, rfl⟩ := step_close h
    exact hi t' (mv _ _ _ (by split <;> simp) hd)
  | flushAfterFail =>
    obtain ⟨_, _, rfl⟩ := step_flushAfterFail h
    have hd' : (s.setPc 0 Pc.idle).pc t' = .bgDial := hd
    exact hi t' (mv _ _ _ (by simp) hd')
  | unlock t => obtain ⟨_, _, _, _, rfl⟩ := step_unlock h; exact hi t' (mv _ _ _ (by simp) hd)
  | enqueue t sid => obtain ⟨_, rfl⟩ := step_enqueue h; exact hi t' hd
  | enqueueFail t sid => obtain ⟨_, rfl⟩ := step_enqueueFail h; exact hi t' hd
  | dequeue => obtain ⟨_, _, _, _, _, _, rfl⟩ := step_dequeue h; exact hi t' (mv _ _ _ (by simp) hd)
  | bgConnectOk => obtain ⟨_, rfl⟩ := step_bgConnectOk h; exact hi t' hd
  | bgConnectFail => obtain ⟨_, rfl⟩ := step_bgConnectFail h; exact hi t' hd
  | bgCheck => obtain ⟨⟨hf, _, _⟩, _⟩ := step_bgCheck h; rw [hb] at hf; cases hf
  | bgDialOk => obtain ⟨hp, _⟩ := step_bgDialOk h; exact hi 0 hp
  | bgDialFail => obtain ⟨hp, _⟩ := step_bgDialFail h; exact hi 0 hp
  | peerClose c n => obtain ⟨_, rfl⟩ := step_peerClose h; exact hi t' hd
  | setCapacity c => rw [step_setCapacity h] at hd; exact hi t' hd
  | setTimeout n => rw [step_setTimeout h] at hd; exact hi t' hd
  | tick d => rw [step_tick h] at hd; exact hi t' hd
  | reconfClose t => obtain ⟨_, rfl⟩ := step_reconfClose h; exact hi t' (mv _ _ _ (by simp) hd)
  | reconfDialOk t => obtain ⟨_, rfl⟩ := step_reconfDialOk h; exact hi t' (mv _ _ _ (by simp) hd)
  | reconfDialFail t => obtain ⟨_, rfl⟩ := step_reconfDialFail h; exact hi t' (mv _ _ _ (by simp) hd)
  | extClose t => obtain ⟨_, rfl⟩ := step_extClose h; exact hi t' hd
  | swallow t => obtain ⟨_, _, _, _, _, _, _, rfl⟩ := step_swallow h; exact hi t' (mv _ _ _ (by simp) hd)

/-- the conclusion of the no-loss theorems: every accepted send is queued, in progress on
    process(), or whole on a connection the peer did not cut -/
def NothingLost (s : St) : Prop :=
  ∀ sid, (sid, true) ∈ s.results →
    sid ∈ s.queue ∨ inProgress (s.pc 0) sid ∨ ∃ w, Whole bytesOf s w sid ∧ s.delivered w = s.sent w

theorem nothingLost_of_healthy {s : St} (hi : HealthyInv bytesOf s) : NothingLost bytesOf s := by
  intro sid h
  rcases hi.accepted sid h with h1 | h1 | ⟨w, h1⟩
  · exact Or.inl h1
  · exact Or.inr (Or.inl h1)
  · exact Or.inr (Or.inr ⟨w, h1, by simp [St.delivered, hi.noCut w]⟩)

/-- schedules without fault actions -/
def Healthy (acts : List Act) : Prop := ∀ a ∈ acts, a.isFault = false

instance (acts : List Act) : Decidable (Healthy acts) := by unfold Healthy; infer_instance

theorem no_loss_benign (hl : cfg.sendLocked = true) (acts : List Act) (s : St)
    (hb : ∀ a ∈ acts, a.benign = true) (h : run cfg bytesOf acts init = some s) : NothingLost bytesOf s := by
  have := run_inv cfg bytesOf (I := fun s => Core cfg bytesOf s ∧ HealthyInv bytesOf s) (fun a => a.benign = true)
    (fun s a s' hb hi h => ⟨core_step cfg bytesOf hl s a s' hi.1 h,
      healthyInv_step cfg bytesOf s s' a (Or.inl hb) (by cases a <;> simp_all [Act.benign, Act.isSwallow]) hi.1.mutex hi.1.bytes hi.2 h⟩)
    acts init s hb ⟨core_init cfg bytesOf, healthyInv_init bytesOf⟩ h
  exact nothingLost_of_healthy bytesOf this.2

theorem no_loss_locked (hl : cfg.sendLocked = true) (hbg : cfg.bgLocked = true) (hac : cfg.acLocked = true)
    (hpl : cfg.procLocked = true) (hrr : cfg.recoverReports = true) (acts : List Act) (s : St)
    (hh : Healthy acts) (h : run cfg bytesOf acts init = some s) : NothingLost bytesOf s := by
  have := run_inv cfg bytesOf
    (I := fun s => (Core cfg bytesOf s ∧ HealthyInv bytesOf s) ∧ NoDial s) (fun a => a.isFault = false)
    (fun s a s' hf hi h => by
      refine ⟨⟨core_step cfg bytesOf hl s a s' hi.1.1 h, ?_⟩, noDial_step cfg bytesOf hbg s a s' hi.2 h⟩
      by_cases e : a = .bgDialOk
      · subst e; obtain ⟨hp, _⟩ := step_bgDialOk h; exact absurd hp (hi.2 0)
      · have hsw : a.isSwallow = false := by
          cases a with
          | swallow t => obtain ⟨_, _, _, _, hf', _⟩ := step_swallow h; rw [hrr] at hf'; cases hf'
          | _ => rfl
        refine healthyInv_step cfg bytesOf s s' a ?_ hsw hi.1.1.mutex hi.1.1.bytes hi.1.2 h
        cases hr : a.isReconf with
        | true => exact Or.inr ⟨hf, rfl, hac, hpl⟩
        | false => exact Or.inl (by simp [Act.benign, hf, e, hr, hsw]))
    acts init s hh ⟨⟨core_init cfg bytesOf, healthyInv_init bytesOf⟩, fun t => by simp [init, St.pc, AMap.get]⟩ h
  exact nothingLost_of_healthy bytesOf this.1.2

end Tcp
