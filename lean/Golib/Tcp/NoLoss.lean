/-
  Golib.Tcp.NoLoss — with a healthy connection nothing accepted is lost.

  A schedule is *benign* when it contains no fault action (failed dial, failed write or flush,
  peer close) and no racy background dial (`bgDialOk`, possible only when process() connects
  without the send lock).  Along benign schedules every send that was accepted (Send returned
  nil / Put returned true) is either still queued, being sent by process(), or its frame lies
  whole inside the bytes some connection carried — and no connection was cut.
-/
import Golib.Tcp.Order

namespace Tcp

variable (cfg : Cfg) (bytesOf : Nat → Bytes)

def Act.isFault : Act → Bool
  | .connectFail _ => true
  | .autoFlushErr _ _ => true
  | .flushErr _ _ => true
  | .peerClose _ _ => true
  | _ => false

/-- a reconfiguration step (ApplyConfig's Close / Connect) -/
def Act.isReconf : Act → Bool
  | .reconfClose _ => true
  | .reconfDialOk _ => true
  | .reconfDialFail _ => true
  | _ => false

/-- the swallowed panic of send() (possible only while `recoverReports = false`) -/
def Act.isSwallow : Act → Bool
  | .swallow _ => true
  | _ => false

/-- neither a fault, nor the racy background dial, nor a reconfiguration, nor a swallowed panic -/
def Act.benign (a : Act) : Bool := !a.isFault && a != .bgDialOk && !a.isReconf && !a.isSwallow

/-- the frame of `sid` is whole inside what connection `w` carried -/
def Whole (s : St) (w sid : Nat) : Prop :=
  ∃ pre post, s.log.get w = pre ++ sid :: post ∧ concatF bytesOf (pre ++ [sid]) <+: s.sent w

def inProgress (p : Pc) (sid : Nat) : Prop :=
  p = .made sid ∨ (∃ w rest, p = .writing sid w rest) ∨ (∃ w, p = .wrote sid w)

/-- thread is between the start of `wr.Write` on writer `w` and the end of `Flush` -/
def onWriter (p : Pc) (sid w : Nat) : Prop := (∃ rest, p = .writing sid w rest) ∨ p = .wrote sid w

theorem onWriter_inCS {p : Pc} {sid w : Nat} (h : onWriter p sid w) : inCS p = true := by
  rcases h with ⟨rest, h⟩ | h <;> simp [h, inCS]

structure HealthyInv (s : St) : Prop where
  noErr : ∀ w, s.err.get w = false
  noCut : ∀ w, s.cut.get w = none
  noFail : ∀ t sid, s.pc t ≠ .failed sid
  wrCur : ∀ t sid w, onWriter (s.pc t) sid w → s.wr = some w ∧ ∃ pre, s.log.get w = pre ++ [sid]
  bufIdle : ∀ w, (s.buf.get w ≠ [] ∨ s.pend.get w ≠ []) → ∃ t sid, onWriter (s.pc t) sid w
  doneWhole : ∀ t sid, s.pc t = .done sid true → ∃ w, Whole bytesOf s w sid
  accepted : ∀ sid, (sid, true) ∈ s.results →
    sid ∈ s.queue ∨ inProgress (s.pc 0) sid ∨ ∃ w, Whole bytesOf s w sid

theorem healthyInv_init : HealthyInv bytesOf init := by
  constructor
  · intro w; rfl
  · intro w; rfl
  · intro t sid h; simp [init, St.pc, AMap.get] at h
  · intro t sid w h; rcases h with ⟨rest, h⟩ | h <;> simp [init, St.pc, AMap.get] at h
  · intro w h; rcases h with h | h <;> exact absurd rfl h
  · intro t sid h; simp [init, St.pc, AMap.get] at h
  · intro sid h; simp [init] at h

theorem Whole.mono {s s' : St} {w sid : Nat}
    (hsent : s.sent w <+: s'.sent w) (hlog : ∃ ext, s'.log.get w = s.log.get w ++ ext)
    (h : Whole bytesOf s w sid) : Whole bytesOf s' w sid := by
  obtain ⟨pre, post, h1, h2⟩ := h
  obtain ⟨ext, he⟩ := hlog
  exact ⟨pre, post ++ ext, by rw [he, h1]; simp, h2.trans hsent⟩

theorem Whole.congr {s s' : St} {w sid : Nat} (h1 : s'.sentRev = s.sentRev) (h2 : s'.log = s.log)
    (h : Whole bytesOf s w sid) : Whole bytesOf s' w sid := by
  obtain ⟨pre, post, h3, h4⟩ := h
  exact ⟨pre, post, by rw [h2]; exact h3, by simp only [St.sent, h1]; exact h4⟩

theorem push_sent_prefix (s : St) (w k w' : Nat) : s.sent w' <+: (s.push w k).sent w' := by
  simp only [St.push, St.sent, AMap.get_set]
  by_cases e : w = w'
  · subst e; simp
  · simp [e]

theorem finish_sent (s : St) (t sid : Nat) (ok : Bool) (w : Nat) : (s.finish t sid ok).sent w = s.sent w := by
  unfold St.finish; cases ok <;> by_cases h0 : t = 0 <;> simp [h0, St.setPc, St.sent]
theorem finish_buf (s : St) (t sid : Nat) (ok : Bool) : (s.finish t sid ok).buf = s.buf := by
  unfold St.finish; cases ok <;> by_cases h0 : t = 0 <;> simp [h0, St.setPc]
theorem finish_cut (s : St) (t sid : Nat) (ok : Bool) : (s.finish t sid ok).cut = s.cut := by
  unfold St.finish; cases ok <;> by_cases h0 : t = 0 <;> simp [h0, St.setPc]
theorem finish_results (s : St) (t sid : Nat) (ok : Bool) : (s.finish t sid ok).results = s.results := by
  unfold St.finish; cases ok <;> by_cases h0 : t = 0 <;> simp [h0, St.setPc]

/-- generic: thread `t` moves `p0 → p`; nothing else that the invariant reads changes -/
theorem HealthyInv.move {s s' : St} (hi : HealthyInv bytesOf s) (t : Nat) (p : Pc)
    (hpc : ∀ t', s'.pc t' = if t = t' then p else s.pc t')
    (herr : s'.err = s.err) (hcut : s'.cut = s.cut) (hwr : s'.wr = s.wr) (hlog : s'.log = s.log)
    (hbuf : s'.buf = s.buf) (hpend : s'.pend = s.pend) (hsent : ∀ w, s'.sent w = s.sent w)
    (hres : s'.results = s.results) (hq : s'.queue = s.queue)
    (hp1 : ∀ sid, p ≠ .failed sid) (hp2 : ∀ sid w, ¬ onWriter p sid w) (hp3 : ∀ sid, p ≠ .done sid true)
    (hold : ∀ sid w, ¬ onWriter (s.pc t) sid w)
    (hprog : t = 0 → ∀ sid, inProgress (s.pc 0) sid → inProgress p sid) : HealthyInv bytesOf s' := by
  have hW : ∀ w sid, Whole bytesOf s w sid → Whole bytesOf s' w sid := by
    intro w sid h
    exact h.mono bytesOf (by rw [hsent]; exact List.prefix_refl _) ⟨[], by rw [hlog]; simp⟩
  constructor
  · rw [herr]; exact hi.noErr
  · rw [hcut]; exact hi.noCut
  · intro t' sid h
    rw [hpc] at h
    by_cases e : t = t'
    · rw [if_pos e] at h; exact hp1 sid h
    · rw [if_neg e] at h; exact hi.noFail t' sid h
  · intro t' sid w h
    rw [hpc] at h
    by_cases e : t = t'
    · rw [if_pos e] at h; exact absurd h (hp2 sid w)
    · rw [if_neg e] at h; rw [hwr, hlog]; exact hi.wrCur t' sid w h
  · intro w h
    rw [hbuf, hpend] at h
    obtain ⟨t', sid, ht'⟩ := hi.bufIdle w h
    refine ⟨t', sid, ?_⟩
    rw [hpc]
    by_cases e : t = t'
    · subst e; exact absurd ht' (hold sid w)
    · rw [if_neg e]; exact ht'
  · intro t' sid h
    rw [hpc] at h
    by_cases e : t = t'
    · rw [if_pos e] at h; exact absurd h (hp3 sid)
    · rw [if_neg e] at h
      obtain ⟨w, hw⟩ := hi.doneWhole t' sid h
      exact ⟨w, hW w sid hw⟩
  · intro sid h
    rw [hres] at h
    rcases hi.accepted sid h with h1 | h1 | ⟨w, h1⟩
    · exact Or.inl (by rw [hq]; exact h1)
    · refine Or.inr (Or.inl ?_)
      rw [hpc]
      by_cases e : t = 0
      · rw [if_pos e]; exact hprog e sid h1
      · rw [if_neg e]; exact h1
    · exact Or.inr (Or.inr ⟨w, hW w sid h1⟩)

theorem HealthyInv.procRel {s : St} (hi : HealthyInv bytesOf s) (b : Bool) (t : Nat) :
    HealthyInv bytesOf (s.procRel b t) :=
  ⟨hi.noErr, hi.noCut, hi.noFail, hi.wrCur, hi.bufIdle, hi.doneWhole, hi.accepted⟩

theorem not_onWriter_of {p : Pc} (h : isWriting p = false) (h2 : ∀ sid w, p ≠ .wrote sid w) :
    ∀ sid w, ¬ onWriter p sid w := by
  intro sid w hw
  rcases hw with ⟨rest, hw⟩ | hw
  · rw [hw] at h; simp [isWriting] at h
  · exact h2 sid w hw

theorem healthyInv_step (s s' : St) (a : Act)
    (hb : a.benign = true ∨ (a.isFault = false ∧ a.isReconf = true ∧ cfg.acLocked = true ∧ cfg.procLocked = true))
    (hsw : a.isSwallow = false)
    (hm : MutexInv cfg s) (hby : BytesInv bytesOf s)
    (hi : HealthyInv bytesOf s) (h : step cfg bytesOf s a = some s') : HealthyInv bytesOf s' := by
  -- nobody else is inside the critical section while `t` is
  have solo : ∀ t t' sid w, inCS (s.pc t) = true → onWriter (s.pc t') sid w → t' = t :=
    fun t t' sid w h1 h2 => mutex_unique cfg hm t' t (onWriter_inCS h2) h1
  have wmono : ∀ {s' : St}, (∀ w, s.sent w <+: s'.sent w) → (∀ w, ∃ ext, s'.log.get w = s.log.get w ++ ext) →
      ∀ w sid, Whole bytesOf s w sid → Whole bytesOf s' w sid :=
    fun h1 h2 w sid hw => hw.mono bytesOf (h1 w) (h2 w)
  cases a with
  | lockSend t sid =>
    obtain ⟨⟨ht0, _, hp, _, _⟩, rfl⟩ := step_lockSend h
    refine hi.move bytesOf t _ (fun t' => pc_setPc _ _ _ _) rfl rfl rfl rfl rfl rfl (fun _ => rfl) rfl rfl
      (fun _ => by simp) (not_onWriter_of rfl (fun _ _ => by simp)) (fun _ => by simp)
      (by rw [hp]; exact not_onWriter_of rfl (fun _ _ => by simp)) (fun e => absurd e ht0)
  | connectOk t =>
    obtain ⟨⟨sid, hp⟩, _, rfl⟩ := step_connectOk h
    have hcs : inCS (s.pc t) = true := by simp [hp, inCS]
    constructor
    · exact hi.noErr
    · exact hi.noCut
    · exact hi.noFail
    · intro t' sid' w hw
      have hw' : onWriter (s.pc t') sid' w := hw
      have := solo t t' sid' w hcs hw'
      subst this; rw [hp] at hw'; rcases hw' with ⟨_, h1⟩ | h1 <;> cases h1
    · exact hi.bufIdle
    · exact hi.doneWhole
    · exact hi.accepted
  | connectFail t => simp [Act.benign, Act.isFault, Act.isReconf, Act.isSwallow] at hb
  | writeBegin t =>
    obtain ⟨sid, w, hp, hw, _, he, rfl⟩ := step_writeBegin h
    have hcs : inCS (s.pc t) = true := by simp [hp, inCS]
    have hWb : ∀ {s2 : St}, s2.sentRev = s.sentRev → s2.log = s.log.set w (s.log.get w ++ [sid]) →
        ∀ w' sid', Whole bytesOf s w' sid' → Whole bytesOf s2 w' sid' := by
      intro s2 h1 h2 w' sid' hh
      refine hh.mono bytesOf (by simp only [St.sent, h1]; exact List.prefix_refl _) ?_
      rw [h2, AMap.get_set]
      by_cases e : w = w'
      · subst e; exact ⟨[sid], by simp⟩
      · exact ⟨[], by simp [e]⟩
    constructor
    · exact hi.noErr
    · exact hi.noCut
    · intro t' sid' h'
      rw [pc_setPc] at h'
      by_cases e : t = t'
      · rw [if_pos e] at h'; cases h'
      · rw [if_neg e] at h'; exact hi.noFail t' sid' h'
    · intro t' sid' w' hw'
      rw [pc_setPc] at hw'
      by_cases e : t = t'
      · rw [if_pos e] at hw'
        have : sid' = sid ∧ w' = w := by
          rcases hw' with ⟨rest, h1⟩ | h1
          · cases h1; exact ⟨rfl, rfl⟩
          · cases h1
        obtain ⟨rfl, rfl⟩ := this
        exact ⟨hw, s.log.get w', by simp [St.setPc]⟩
      · rw [if_neg e] at hw'
        have hw'' : onWriter (s.pc t') sid' w' := hw'
        exact absurd (solo t t' sid' w' hcs hw'').symm e
    · intro w' hw'
      by_cases e : w = w'
      · subst e
        exact ⟨t, sid, Or.inl ⟨bytesOf sid, by simp⟩⟩
      · have hw'' : s.buf.get w' ≠ [] ∨ s.pend.get w' ≠ [] := by
          simpa [St.setPc, AMap.get_set, e] using hw'
        obtain ⟨t', sid', ht'⟩ := hi.bufIdle w' hw''
        have := solo t t' sid' w' hcs ht'
        subst this; rw [hp] at ht'; rcases ht' with ⟨_, h1⟩ | h1 <;> cases h1
    · intro t' sid' h'
      rw [pc_setPc] at h'
      by_cases e : t = t'
      · rw [if_pos e] at h'; cases h'
      · rw [if_neg e] at h'
        obtain ⟨w', hw'⟩ := hi.doneWhole t' sid' h'
        refine ⟨w', hWb ?_ ?_ w' sid' hw'⟩ <;> rfl
    · intro sid' h'
      have h'' : (sid', true) ∈ s.results := h'
      rcases hi.accepted sid' h'' with h1 | h1 | ⟨w', h1⟩
      · exact Or.inl h1
      · refine Or.inr (Or.inl ?_)
        rw [pc_setPc]
        by_cases e : t = 0
        · subst e
          rw [if_pos rfl]
          rw [hp] at h1
          rcases h1 with h1 | ⟨_, _, h1⟩ | ⟨_, h1⟩
          · cases h1; exact Or.inr (Or.inl ⟨w, bytesOf sid, rfl⟩)
          · cases h1
          · cases h1
        · rw [if_neg e]; exact h1
      · refine Or.inr (Or.inr ⟨w', hWb ?_ ?_ w' sid' h1⟩) <;> rfl
  | writeSticky t =>
    obtain ⟨sid, w, _, _, _, he, _⟩ := step_writeSticky h
    rw [hi.noErr w] at he; cases he
  | writeChunk t n =>
    obtain ⟨sid, w, rest, hp, _, hn, rfl⟩ := step_writeChunk h
    have hcs : inCS (s.pc t) = true := by simp [hp, inCS]
    have hW : ∀ {s2 : St}, s2.sentRev = s.sentRev → s2.log = s.log → ∀ w' sid', Whole bytesOf s w' sid' →
        Whole bytesOf s2 w' sid' := fun h1 h2 _ _ h => h.congr bytesOf h1 h2
    constructor
    · exact hi.noErr
    · exact hi.noCut
    · intro t' sid' h'
      rw [pc_setPc] at h'
      by_cases e : t = t'
      · rw [if_pos e] at h'; cases h'
      · rw [if_neg e] at h'; exact hi.noFail t' sid' h'
    · intro t' sid' w' hw'
      rw [pc_setPc] at hw'
      by_cases e : t = t'
      · rw [if_pos e] at hw'
        have : sid' = sid ∧ w' = w := by
          rcases hw' with ⟨rest', h1⟩ | h1
          · cases h1; exact ⟨rfl, rfl⟩
          · cases h1
        obtain ⟨rfl, rfl⟩ := this
        exact hi.wrCur t sid' w' (by rw [hp]; exact Or.inl ⟨rest, rfl⟩)
      · rw [if_neg e] at hw'
        exact hi.wrCur t' sid' w' hw'
    · intro w' hw'
      by_cases e : w = w'
      · subst e
        exact ⟨t, sid, Or.inl ⟨rest.drop n, by simp⟩⟩
      · have hw'' : s.buf.get w' ≠ [] ∨ s.pend.get w' ≠ [] := by
          simpa [St.setPc, AMap.get_set, e] using hw'
        obtain ⟨t', sid', ht'⟩ := hi.bufIdle w' hw''
        have := solo t t' sid' w' hcs ht'
        subst this; rw [hp] at ht'
        rcases ht' with ⟨_, h1⟩ | h1
        · cases h1; exact absurd rfl e
        · cases h1
    · intro t' sid' h'
      rw [pc_setPc] at h'
      by_cases e : t = t'
      · rw [if_pos e] at h'; cases h'
      · rw [if_neg e] at h'
        obtain ⟨w', hw'⟩ := hi.doneWhole t' sid' h'
        exact ⟨w', hW rfl rfl w' sid' hw'⟩
    · intro sid' h'
      have h'' : (sid', true) ∈ s.results := h'
      rcases hi.accepted sid' h'' with h1 | h1 | ⟨w', h1⟩
      · exact Or.inl h1
      · refine Or.inr (Or.inl ?_)
        rw [pc_setPc]
        by_cases e : t = 0
        · subst e
          rw [if_pos rfl]
          rw [hp] at h1
          rcases h1 with h1 | ⟨_, _, h1⟩ | ⟨_, h1⟩
          · cases h1
          · cases h1; exact Or.inr (Or.inl ⟨w, rest.drop n, rfl⟩)
          · cases h1
        · rw [if_neg e]; exact h1
      · exact Or.inr (Or.inr ⟨w', hW rfl rfl w' sid' h1⟩)
  | writeEnd t =>
    obtain ⟨sid, w, hp, rfl⟩ := step_writeEnd h
    constructor
    · exact hi.noErr
    · exact hi.noCut
    · intro t' sid' h'
      rw [pc_setPc] at h'
      by_cases e : t = t'
      · rw [if_pos e] at h'; cases h'
      · rw [if_neg e] at h'; exact hi.noFail t' sid' h'
    · intro t' sid' w' hw'
      rw [pc_setPc] at hw'
      by_cases e : t = t'
      · rw [if_pos e] at hw'
        have : sid' = sid ∧ w' = w := by
          rcases hw' with ⟨rest', h1⟩ | h1
          · cases h1
          · cases h1; exact ⟨rfl, rfl⟩
        obtain ⟨rfl, rfl⟩ := this
        exact hi.wrCur t sid' w' (by rw [hp]; exact Or.inl ⟨[], rfl⟩)
      · rw [if_neg e] at hw'
        exact hi.wrCur t' sid' w' hw'
    · intro w' hw'
      obtain ⟨t', sid', ht'⟩ := hi.bufIdle w' hw'
      refine ⟨t', sid', ?_⟩
      rw [pc_setPc]
      by_cases e : t = t'
      · subst e
        rw [if_pos rfl]
        rw [hp] at ht'
        rcases ht' with ⟨_, h1⟩ | h1
        · cases h1; exact Or.inr rfl
        · cases h1
      · rw [if_neg e]; exact ht'
    · intro t' sid' h'
      rw [pc_setPc] at h'
      by_cases e : t = t'
      · rw [if_pos e] at h'; cases h'
      · rw [if_neg e] at h'; exact hi.doneWhole t' sid' h'
    · intro sid' h'
      have h'' : (sid', true) ∈ s.results := h'
      rcases hi.accepted sid' h'' with h1 | h1 | ⟨w', h1⟩
      · exact Or.inl h1
      · refine Or.inr (Or.inl ?_)
        rw [pc_setPc]
        by_cases e : t = 0
        · subst e
          rw [if_pos rfl]
          rw [hp] at h1
          rcases h1 with h1 | ⟨_, _, h1⟩ | ⟨_, h1⟩
          · cases h1
          · cases h1; exact Or.inr (Or.inr ⟨w, rfl⟩)
          · cases h1
        · rw [if_neg e]; exact h1
      · exact Or.inr (Or.inr ⟨w', h1⟩)
  | autoFlush t k =>
    obtain ⟨sid, w, rest, hp, hk, rfl⟩ := step_autoFlush h
    have hW : ∀ w' sid', Whole bytesOf s w' sid' → Whole bytesOf (s.push w k) w' sid' :=
      wmono (fun w' => push_sent_prefix s w k w') (fun w' => ⟨[], by simp [St.push]⟩)
    constructor
    · exact hi.noErr
    · exact hi.noCut
    · exact hi.noFail
    · exact hi.wrCur
    · intro w' hw'
      by_cases e : w = w'
      · subst e; exact ⟨t, sid, by rw [show (s.push w k).pc t = s.pc t from rfl, hp]; exact Or.inl ⟨rest, rfl⟩⟩
      · have hw'' : s.buf.get w' ≠ [] ∨ s.pend.get w' ≠ [] := by
          simpa [St.push, AMap.get_set, e] using hw'
        exact hi.bufIdle w' hw''
    · intro t' sid' h'
      obtain ⟨w', hw'⟩ := hi.doneWhole t' sid' h'
      exact ⟨w', hW w' sid' hw'⟩
    · intro sid' h'
      rcases hi.accepted sid' h' with h1 | h1 | ⟨w', h1⟩
      · exact Or.inl h1
      · exact Or.inr (Or.inl h1)
      · exact Or.inr (Or.inr ⟨w', hW w' sid' h1⟩)
  | autoFlushErr t k => simp [Act.benign, Act.isFault, Act.isReconf, Act.isSwallow] at hb
  | flushOk t =>
    obtain ⟨sid, w0, w, hp, hw, _, rfl⟩ := step_flushOk h
    refine HealthyInv.procRel bytesOf ?_ _ _
    have hcs : inCS (s.pc t) = true := by simp [hp, inCS]
    have hon : onWriter (s.pc t) sid w0 := by rw [hp]; exact Or.inr rfl
    obtain ⟨hwr0, pre, hlogw⟩ := hi.wrCur t sid w0 hon
    have hww : w0 = w := Option.some.inj (hwr0.symm.trans hw)
    subst hww
    have hpend0 : s.pend.get w0 = [] := by
      refine Classical.byContradiction (fun hne => ?_)
      rcases hby.p2 w0 hne with h1 | ⟨t', sid', ht'⟩
      · rw [hi.noErr w0] at h1; cases h1
      · have : t' = t := mutex_unique cfg hm t' t (by simp [ht', inCS]) hcs
        subst this; rw [hp] at ht'; cases ht'
    let s1 := s.push w0 (s.buf.get w0).length
    have hs1sent : s1.sent w0 = concatF bytesOf (s.log.get w0) := by
      have := hby.eq w0
      rw [hpend0, List.append_nil] at this
      rw [← this]
      simp [s1, St.push, St.sent]
    have hWs1 : ∀ w' sid', Whole bytesOf s w' sid' → Whole bytesOf (s1.finish t sid true) w' sid' := by
      intro w' sid' hh
      refine hh.mono bytesOf ?_ ⟨[], by rw [finish_log]; simp [s1, St.push]⟩
      rw [finish_sent]; exact push_sent_prefix s w0 _ w'
    have hnew : Whole bytesOf (s1.finish t sid true) w0 sid := by
      refine ⟨pre, [], ?_, ?_⟩
      · rw [finish_log]; exact hlogw
      · rw [finish_sent, hs1sent, hlogw]; exact List.prefix_refl _
    constructor
    · intro w'; rw [finish_err]; exact hi.noErr w'
    · intro w'; rw [finish_cut]; exact hi.noCut w'
    · intro t' sid' h'
      rw [finish_pc] at h'
      by_cases e : t = t'
      · rw [if_pos e] at h'; split at h' <;> cases h'
      · rw [if_neg e] at h'; exact hi.noFail t' sid' h'
    · intro t' sid' w' hw'
      rw [finish_pc] at hw'
      by_cases e : t = t'
      · rw [if_pos e] at hw'
        split at hw' <;> rcases hw' with ⟨_, h1⟩ | h1 <;> cases h1
      · rw [if_neg e] at hw'
        exact absurd (solo t t' sid' w' hcs hw').symm e
    · intro w' hw'
      rw [finish_buf, finish_pend] at hw'
      by_cases e : w0 = w'
      · subst e
        rcases hw' with h1 | h1
        · simp [St.push] at h1
        · exact absurd hpend0 h1
      · have hw'' : s.buf.get w' ≠ [] ∨ s.pend.get w' ≠ [] := by
          simpa [s1, St.push, AMap.get_set, e] using hw'
        obtain ⟨t', sid', ht'⟩ := hi.bufIdle w' hw''
        have := solo t t' sid' w' hcs ht'
        subst this; rw [hp] at ht'
        rcases ht' with ⟨_, h1⟩ | h1
        · cases h1
        · cases h1; exact absurd rfl e
    · intro t' sid' h'
      rw [finish_pc] at h'
      by_cases e : t = t'
      · rw [if_pos e] at h'
        split at h'
        · cases h'
        · cases h'; exact ⟨w0, hnew⟩
      · rw [if_neg e] at h'
        obtain ⟨w', hw'⟩ := hi.doneWhole t' sid' h'
        exact ⟨w', hWs1 w' sid' hw'⟩
    · intro sid' h'
      rw [finish_results] at h'
      rcases hi.accepted sid' h' with h1 | h1 | ⟨w', h1⟩
      · exact Or.inl (by rw [finish_queue]; exact h1)
      · by_cases e : t = 0
        · subst e
          rw [hp] at h1
          rcases h1 with h1 | ⟨_, _, h1⟩ | ⟨_, h1⟩
          · cases h1
          · cases h1
          · cases h1; exact Or.inr (Or.inr ⟨w0, hnew⟩)
        · refine Or.inr (Or.inl ?_)
          rw [finish_pc, if_neg e]; exact h1
      · exact Or.inr (Or.inr ⟨w', hWs1 w' sid' h1⟩)
  | flushErr t k => simp [Act.benign, Act.isFault, Act.isReconf, Act.isSwallow] at hb
  | close t =>
    obtain ⟨sid, hp, _⟩ := step_close h
    exact absurd hp (hi.noFail t sid)
  | flushAfterFail =>
    obtain ⟨sid, hp, rfl⟩ := step_flushAfterFail h
    refine HealthyInv.procRel bytesOf ?_ _ _
    refine hi.move bytesOf 0 _ (fun t' => pc_setPc _ _ _ _) rfl rfl rfl rfl rfl rfl (fun _ => rfl) rfl rfl
      (fun _ => by simp) (not_onWriter_of rfl (fun _ _ => by simp)) (fun _ => by simp)
      (by rw [hp]; exact not_onWriter_of rfl (fun _ _ => by simp)) ?_
    intro _ sid' h1
    rw [hp] at h1
    rcases h1 with h1 | ⟨_, _, h1⟩ | ⟨_, h1⟩ <;> cases h1
  | unlock t =>
    obtain ⟨sid, ok, hp, _, rfl⟩ := step_unlock h
    have hcs : inCS (s.pc t) = true := by simp [hp, inCS]
    constructor
    · exact hi.noErr
    · exact hi.noCut
    · intro t' sid' h'
      rw [pc_setPc] at h'
      by_cases e : t = t'
      · rw [if_pos e] at h'; cases h'
      · rw [if_neg e] at h'; exact hi.noFail t' sid' h'
    · intro t' sid' w' hw'
      rw [pc_setPc] at hw'
      by_cases e : t = t'
      · rw [if_pos e] at hw'; rcases hw' with ⟨_, h1⟩ | h1 <;> cases h1
      · rw [if_neg e] at hw'; exact hi.wrCur t' sid' w' hw'
    · intro w' hw'
      obtain ⟨t', sid', ht'⟩ := hi.bufIdle w' hw'
      refine ⟨t', sid', ?_⟩
      rw [pc_setPc]
      by_cases e : t = t'
      · subst e; rw [hp] at ht'; rcases ht' with ⟨_, h1⟩ | h1 <;> cases h1
      · rw [if_neg e]; exact ht'
    · intro t' sid' h'
      rw [pc_setPc] at h'
      by_cases e : t = t'
      · rw [if_pos e] at h'; cases h'
      · rw [if_neg e] at h'; exact hi.doneWhole t' sid' h'
    · intro sid' h'
      have h'' : (sid', true) ∈ (sid, ok) :: s.results := h'
      rcases List.mem_cons.mp h'' with h1 | h1
      · cases h1
        exact Or.inr (Or.inr (hi.doneWhole t sid hp))
      · rcases hi.accepted sid' h1 with h2 | h2 | h2
        · exact Or.inl h2
        · by_cases e : t = 0
          · subst e; rw [hp] at h2
            rcases h2 with h3 | ⟨_, _, h3⟩ | ⟨_, h3⟩ <;> cases h3
          · refine Or.inr (Or.inl ?_)
            rw [pc_setPc, if_neg e]; exact h2
        · exact Or.inr (Or.inr h2)
  | enqueue t sid =>
    obtain ⟨⟨ht0, _, hp, _, _⟩, rfl⟩ := step_enqueue h
    constructor
    · exact hi.noErr
    · exact hi.noCut
    · exact hi.noFail
    · exact hi.wrCur
    · exact hi.bufIdle
    · exact hi.doneWhole
    · intro sid' h'
      have h'' : (sid', true) ∈ (sid, true) :: s.results := h'
      rcases List.mem_cons.mp h'' with h1 | h1
      · cases h1; exact Or.inl (by show sid ∈ s.queue ++ [sid]; simp)
      · rcases hi.accepted sid' h1 with h2 | h2 | h2
        · exact Or.inl (by show sid' ∈ s.queue ++ [sid]; exact List.mem_append_left _ h2)
        · exact Or.inr (Or.inl h2)
        · exact Or.inr (Or.inr h2)
  | enqueueFail t sid =>
    obtain ⟨_, rfl⟩ := step_enqueueFail h
    constructor
    · exact hi.noErr
    · exact hi.noCut
    · exact hi.noFail
    · exact hi.wrCur
    · exact hi.bufIdle
    · exact hi.doneWhole
    · intro sid' h'
      have h'' : (sid', true) ∈ (sid, false) :: s.results := h'
      rcases List.mem_cons.mp h'' with h1 | h1
      · cases h1
      · exact hi.accepted sid' h1
  | dequeue =>
    obtain ⟨sid, q, hp, hq, _, _, rfl⟩ := step_dequeue h
    constructor
    · exact hi.noErr
    · exact hi.noCut
    · intro t' sid' h'
      rw [pc_setPc] at h'
      by_cases e : 0 = t'
      · rw [if_pos e] at h'; cases h'
      · rw [if_neg e] at h'; exact hi.noFail t' sid' h'
    · intro t' sid' w' hw'
      rw [pc_setPc] at hw'
      by_cases e : 0 = t'
      · rw [if_pos e] at hw'; rcases hw' with ⟨_, h1⟩ | h1 <;> cases h1
      · rw [if_neg e] at hw'; exact hi.wrCur t' sid' w' hw'
    · intro w' hw'
      obtain ⟨t', sid', ht'⟩ := hi.bufIdle w' hw'
      refine ⟨t', sid', ?_⟩
      rw [pc_setPc]
      by_cases e : 0 = t'
      · subst e; rw [hp] at ht'; rcases ht' with ⟨_, h1⟩ | h1 <;> cases h1
      · rw [if_neg e]; exact ht'
    · intro t' sid' h'
      rw [pc_setPc] at h'
      by_cases e : 0 = t'
      · rw [if_pos e] at h'; cases h'
      · rw [if_neg e] at h'; exact hi.doneWhole t' sid' h'
    · intro sid' h'
      have h'' : (sid', true) ∈ s.results := h'
      rcases hi.accepted sid' h'' with h2 | h2 | h2
      · rw [hq] at h2
        rcases List.mem_cons.mp h2 with h3 | h3
        · subst h3
          exact Or.inr (Or.inl (by rw [pc_setPc, if_pos rfl]; exact Or.inl rfl))
        · exact Or.inl h3
      · rw [hp] at h2
        rcases h2 with h1 | ⟨_, _, h1⟩ | ⟨_, h1⟩ <;> cases h1
      · exact Or.inr (Or.inr h2)
  | bgConnectOk =>
    obtain ⟨⟨_, hp, hlk, _⟩, rfl⟩ := step_bgConnectOk h
    constructor
    · exact hi.noErr
    · exact hi.noCut
    · exact hi.noFail
    · intro t' sid' w hw
      have hw' : onWriter (s.pc t') sid' w := hw
      have hcs' := onWriter_inCS hw'
      cases hq : cfg.useQueue with
      | true =>
        have := ((hm.cs t' hcs').1 hq).1
        subst this; rw [hp] at hw'; rcases hw' with ⟨_, h1⟩ | h1 <;> cases h1
      | false =>
        have := ((hm.cs t' hcs').2 hq).2
        rw [hlk] at this; cases this
    · exact hi.bufIdle
    · exact hi.doneWhole
    · exact hi.accepted
  | bgConnectFail =>
    obtain ⟨_, rfl⟩ := step_bgConnectFail h
    exact hi
  | bgCheck =>
    obtain ⟨⟨_, hp, _⟩, rfl⟩ := step_bgCheck h
    refine hi.move bytesOf 0 _ (fun t' => pc_setPc _ _ _ _) rfl rfl rfl rfl rfl rfl (fun _ => rfl) rfl rfl
      (fun _ => by simp) (not_onWriter_of rfl (fun _ _ => by simp)) (fun _ => by simp)
      (by rw [hp]; exact not_onWriter_of rfl (fun _ _ => by simp)) ?_
    intro _ sid' h1
    rw [hp] at h1
    rcases h1 with h1 | ⟨_, _, h1⟩ | ⟨_, h1⟩ <;> cases h1
  | bgDialOk => simp [Act.benign, Act.isFault, Act.isReconf, Act.isSwallow] at hb
  | bgDialFail =>
    obtain ⟨hp, rfl⟩ := step_bgDialFail h
    refine hi.move bytesOf 0 _ (fun t' => pc_setPc _ _ _ _) rfl rfl rfl rfl rfl rfl (fun _ => rfl) rfl rfl
      (fun _ => by simp) (not_onWriter_of rfl (fun _ _ => by simp)) (fun _ => by simp)
      (by rw [hp]; exact not_onWriter_of rfl (fun _ _ => by simp)) ?_
    intro _ sid' h1
    rw [hp] at h1
    rcases h1 with h1 | ⟨_, _, h1⟩ | ⟨_, h1⟩ <;> cases h1
  | peerClose c n => simp [Act.benign, Act.isFault, Act.isReconf, Act.isSwallow] at hb
  | setCapacity c =>
    rw [step_setCapacity h]
    exact ⟨hi.noErr, hi.noCut, hi.noFail, hi.wrCur, hi.bufIdle, hi.doneWhole, hi.accepted⟩
  | setTimeout n =>
    rw [step_setTimeout h]
    exact ⟨hi.noErr, hi.noCut, hi.noFail, hi.wrCur, hi.bufIdle, hi.doneWhole, hi.accepted⟩
  | tick d =>
    rw [step_tick h]
    exact ⟨hi.noErr, hi.noCut, hi.noFail, hi.wrCur, hi.bufIdle, hi.doneWhole, hi.accepted⟩
  | reconfClose t =>
    obtain ⟨⟨ht0, hp, _⟩, rfl⟩ := step_reconfClose h
    refine hi.move bytesOf t _ (fun t' => pc_setPc _ _ _ _) rfl rfl rfl rfl rfl rfl (fun _ => rfl) rfl rfl
      (fun _ => by simp) (not_onWriter_of rfl (fun _ _ => by simp)) (fun _ => by simp)
      (by rw [hp]; exact not_onWriter_of rfl (fun _ _ => by simp)) (fun e => absurd e ht0)
  | reconfDialFail t =>
    obtain ⟨hp, rfl⟩ := step_reconfDialFail h
    have ht0 := (hm.rlock t hp).1
    refine hi.move bytesOf t _ (fun t' => pc_setPc _ _ _ _) rfl rfl rfl rfl rfl rfl (fun _ => rfl) rfl rfl
      (fun _ => by simp) (not_onWriter_of rfl (fun _ _ => by simp)) (fun _ => by simp)
      (by rw [hp]; exact not_onWriter_of rfl (fun _ _ => by simp)) (fun e => absurd e ht0)
  | reconfDialOk t =>
    obtain ⟨hp, rfl⟩ := step_reconfDialOk h
    obtain ⟨ht0, hlt⟩ := hm.rlock t hp
    have hlk : cfg.acLocked = true ∧ cfg.procLocked = true := by
      rcases hb with hb | ⟨_, _, h1, h2⟩
      · simp [Act.benign, Act.isFault, Act.isReconf, Act.isSwallow] at hb
      · exact ⟨h1, h2⟩
    have hlock : s.lock = some t := hlt hlk.1
    constructor
    · exact hi.noErr
    · exact hi.noCut
    · intro t' sid' h'
      rw [pc_setPc] at h'
      by_cases e : t = t'
      · rw [if_pos e] at h'; cases h'
      · rw [if_neg e] at h'; exact hi.noFail t' sid' h'
    · intro t' sid' w hw
      rw [pc_setPc] at hw
      by_cases e : t = t'
      · rw [if_pos e] at hw; rcases hw with ⟨_, h1⟩ | h1 <;> cases h1
      · rw [if_neg e] at hw
        have hcs' := onWriter_inCS hw
        cases hq : cfg.useQueue with
        | true =>
          have := ((hm.cs t' hcs').1 hq).2 hlk.2
          rw [hlock] at this
          exact absurd (Option.some.inj this) ht0
        | false =>
          have := ((hm.cs t' hcs').2 hq).2
          rw [hlock] at this
          exact absurd (Option.some.inj this) e
    · intro w' hw'
      obtain ⟨t', sid', ht'⟩ := hi.bufIdle w' hw'
      refine ⟨t', sid', ?_⟩
      rw [pc_setPc]
      by_cases e : t = t'
      · subst e; rw [hp] at ht'; rcases ht' with ⟨_, h1⟩ | h1 <;> cases h1
      · rw [if_neg e]; exact ht'
    · intro t' sid' h'
      rw [pc_setPc] at h'
      by_cases e : t = t'
      · rw [if_pos e] at h'; cases h'
      · rw [if_neg e] at h'; exact hi.doneWhole t' sid' h'
    · intro sid' h'
      rcases hi.accepted sid' h' with h2 | h2 | h2
      · exact Or.inl h2
      · refine Or.inr (Or.inl ?_)
        rw [pc_setPc, if_neg ht0]; exact h2
      · exact Or.inr (Or.inr h2)
  | extClose t =>
    obtain ⟨_, rfl⟩ := step_extClose h
    exact ⟨hi.noErr, hi.noCut, hi.noFail, hi.wrCur, hi.bufIdle, hi.doneWhole, hi.accepted⟩
  | swallow t => simp [Act.isSwallow] at hsw

end Tcp
