/-
  Golib.Tcp.WireLink — the frames of the C06 model are the frames C05 proves things about.

  `Tcp.makeData` instantiated with C05's license hash (`Wire.hash64`) *is* `Wire.frame` (C05's
  reference encoder of the one-way frame), so the header parse and the length field of a C06 frame
  are instances of C05's theorems `frame_parse` and `frame_length`, and the stream theorems of C06
  (whole frames, unique decomposition) apply to streams of C05 frames.

  (proof-only file: imports Props/C05; nothing here is linked into the driver)
-/
import Golib.Tcp.Frame
import Golib.Props.C05

namespace Tcp
open Prim

theorem toU_natCast (w n : Nat) (h : n < 256 ^ w) : toU w (n : Int) = n := by
  unfold toU modulus
  rw [Int.emod_eq_of_lt (by omega) (by exact_mod_cast h)]
  simp

theorem encI_natCast (w n : Nat) (h : n < 256 ^ w) : encI w (n : Int) = beN w n := by
  unfold encI; rw [toU_natCast w n h]

/-- the frame `makeData` builds with C05's hash is C05's reference frame, byte for byte -/
theorem makeData_eq_wire_frame (dflt ov : Bytes) (pcode : Int) (pl : Bytes) (hlen : pl.length < 256 ^ 4) :
    makeData Wire.hash64 dflt ov pcode pl = Wire.frame pcode (effLicense ov dflt) pl := by
  unfold makeData mkFrame Wire.frame Wire.netSrcOneWay Wire.netSrcVersion
  rw [encI_natCast 4 pl.length hlen]
  simp

/-- the collector's frame parser (C05) on a frame built by `makeData`: the pack's project code, the
    hash of the license in effect, the payload — and exactly the frame is consumed -/
theorem makeData_parse (dflt ov : Bytes) (pcode : Int) (pl r : Bytes) (hp : inRange 8 pcode)
    (hlen : pl.length < 2147483648) :
    P.run Wire.parseFrame (makeData Wire.hash64 dflt ov pcode pl ++ r) =
      some (⟨10, 0, pcode, Wire.hash64 (effLicense ov dflt), pl⟩, r) := by
  rw [makeData_eq_wire_frame dflt ov pcode pl (by omega)]
  exact C05.frame_parse pcode _ pl r hp hlen

/-- C05 frames are self-delimiting — by C05's `frame_length`: bytes 18..21 hold |payload| -/
theorem wire_frames_selfDelim (pc : Nat → Int) (lic pl : Nat → Bytes) (hlen : ∀ sid, (pl sid).length < 2147483648) :
    SelfDelim (fun sid => Wire.frame (pc sid) (lic sid) (pl sid)) 22
      (fun hdr => (decI 4 ((hdr.drop 18).take 4)).toNat) := by
  constructor
  · decide
  · intro sid
    obtain ⟨h1, _, h3⟩ := C05.frame_length (pc sid) (lic sid) (pl sid)
    show (Wire.frame (pc sid) (lic sid) (pl sid)).length =
      22 + (decI 4 ((((Wire.frame (pc sid) (lic sid) (pl sid)).take 22).drop 18).take 4)).toNat
    have e : (((Wire.frame (pc sid) (lic sid) (pl sid)).take 22).drop 18).take 4 =
        ((Wire.frame (pc sid) (lic sid) (pl sid)).drop 18).take 4 := by
      rw [List.drop_take]; simp [List.take_take]
    have hr : inRange 4 ((pl sid).length : Int) := by
      rw [inRange_4]; have := hlen sid; omega
    rw [e, h1, decI_encI 4 _ hr, h3]; simp

end Tcp
