/-
  Golib.Tcp.Dial — `Connect()` over the configured server list, with time.

  The action machine (Golib.Tcp.Model) has `connectOk` / `connectFail` as answers of the environment.
  This file says where that answer comes from: `Connect()` walks `this.Servers` in order, gives every
  server its own dial deadline `now + Timeout`, goes on to the next server when a dial fails — at once
  (refused), or by running into its deadline (host gone, packets dropped) — and stops at the first
  server that accepts.  `connectList` is that loop; `firstLive` is the specification ("the first server
  of the list that answers within Timeout"); `connect_is_firstLive` proves them equal for every list,
  every Timeout and every starting time: a reachable server is reached however many servers before it
  are dead and however they are dead.

  `DialLoop` is the transcription of the loop by xlate/c06 (where the dial deadline is computed, what
  the error branch does, whether the loop stops at the first success); `interpDial` gives it a semantics
  and `interp_is_model` proves it equal to `connectList` for the shape of the code; `shared_budget_loses`
  is the counterexample class for a deadline computed once for the whole list.
-/

namespace Tcp

/-- how an entry of the server list answers a connection attempt -/
inductive Srv where
  | up (d : Nat)   -- accepts, `d` time units after the attempt began
  | refused        -- answers at once with a refusal (nothing listens there)
  | gone           -- never answers (host down, packets dropped, accept queue full)
  deriving DecidableEq, Repr

/-- one dial with `left` time units until its deadline: (connected?, time it takes).  A dial whose
    deadline has passed fails at once (Go reports "i/o timeout" before it sends anything). -/
def dialOne (left : Nat) : Srv → Bool × Nat
  | .up d => if d < left then (true, d) else (false, left)
  | .refused => (false, 0)
  | .gone => (false, left)

/-- the server answers a dial that is given `T` time units -/
def Srv.live (T : Nat) : Srv → Bool
  | .up d => decide (d < T)
  | _ => false

/-- what a failed dial of a server that is not live costs when it is given `T` -/
def Srv.cost (T : Nat) : Srv → Nat
  | .up _ => T
  | .refused => 0
  | .gone => T

theorem dialOne_live {T : Nat} {s : Srv} (h : s.live T = true) : ∃ d, dialOne T s = (true, d) ∧ d < T := by
  cases s with
  | up d => simp [Srv.live] at h; exact ⟨d, by simp [dialOne, h], h⟩
  | refused => simp [Srv.live] at h
  | gone => simp [Srv.live] at h

theorem dialOne_dead {T : Nat} {s : Srv} (h : s.live T = false) : dialOne T s = (false, s.cost T) := by
  cases s with
  | up d => simp [Srv.live] at h; simp [dialOne, Srv.cost]; omega
  | refused => rfl
  | gone => rfl

/-- **The model of `Connect()`'s loop**: servers in list order, `T` for each, first success wins.
    `i` is the index of the head of the list; the result is (index connected or none, time at return). -/
def connectList (T : Nat) : List Srv → (now i : Nat) → Option Nat × Nat
  | [], now, _ => (none, now)
  | s :: rest, now, i =>
    match dialOne T s with
    | (true, d) => (some i, now + d)
    | (false, d) => connectList T rest (now + d) (i + 1)

/-- the specification: index of the first server that answers within `T` -/
def firstLive (T : Nat) : List Srv → Option Nat
  | [] => none
  | s :: rest => if s.live T then some 0 else (firstLive T rest).map (· + 1)

theorem connectList_idx (T : Nat) (l : List Srv) (now i : Nat) :
    (connectList T l now i).1 = (firstLive T l).map (· + i) := by
  induction l generalizing now i with
  | nil => rfl
  | cons s rest ih =>
    cases h : s.live T with
    | true =>
      obtain ⟨d, hd, _⟩ := dialOne_live h
      simp [connectList, hd, firstLive, h]
    | false =>
      simp only [connectList, dialOne_dead h, firstLive, h, ih]
      cases firstLive T rest <;> simp [Nat.add_comm, Nat.add_left_comm]

/-- `Connect()` connects to the first live server of the list — whatever stands before it -/
theorem connect_is_firstLive (T : Nat) (l : List Srv) (now : Nat) :
    (connectList T l now 0).1 = firstLive T l := by
  rw [connectList_idx]; cases firstLive T l <;> simp

theorem firstLive_none_iff (T : Nat) (l : List Srv) : firstLive T l = none ↔ ∀ s ∈ l, s.live T = false := by
  induction l with
  | nil => simp [firstLive]
  | cons s rest ih =>
    cases h : s.live T <;> simp [firstLive, h, ih]

theorem firstLive_some_iff (T : Nat) (l : List Srv) (k : Nat) :
    firstLive T l = some k ↔
      (∃ s, l[k]? = some s ∧ s.live T = true) ∧ ∀ j, j < k → ∀ s, l[j]? = some s → s.live T = false := by
  induction l generalizing k with
  | nil => simp [firstLive]
  | cons s rest ih =>
    cases h : s.live T with
    | true =>
      simp only [firstLive, h, if_true, Option.some.injEq]
      constructor
      · intro hk; subst hk; exact ⟨⟨s, by simp, h⟩, by intro j hj; omega⟩
      · intro ⟨_, hall⟩
        cases k with
        | zero => rfl
        | succ k => have := hall 0 (by omega) s (by simp); simp [h] at this
    | false =>
      simp only [firstLive, h]
      cases k with
      | zero =>
        constructor
        · intro hk; cases hf : firstLive T rest <;> simp [hf] at hk
        · intro ⟨⟨s', hs', hl⟩, _⟩; simp at hs'; subst hs'; simp [h] at hl
      | succ k =>
        have : (Option.map (· + 1) (firstLive T rest) = some (k + 1)) ↔ firstLive T rest = some k := by
          cases firstLive T rest <;> simp
        simp only [Bool.false_eq_true, if_false, this, ih k]
        constructor
        · intro ⟨⟨s', hs', hl⟩, hall⟩
          refine ⟨⟨s', by simpa using hs', hl⟩, ?_⟩
          intro j hj s'' hs''
          cases j with
          | zero => simp at hs''; subst hs''; exact h
          | succ j => exact hall j (by omega) s'' (by simpa using hs'')
        · intro ⟨⟨s', hs', hl⟩, hall⟩
          refine ⟨⟨s', by simpa using hs', hl⟩, ?_⟩
          intro j hj s'' hs''
          exact hall (j + 1) (by omega) s'' (by simpa using hs'')

/-- the time `Connect()` takes: each server before the one reached costs at most `T`, the dial that
    succeeds less than `T` -/
theorem connectList_time (T : Nat) (l : List Srv) (now i : Nat) :
    now ≤ (connectList T l now i).2 ∧ (connectList T l now i).2 ≤ now + l.length * T := by
  induction l generalizing now i with
  | nil => simp [connectList]
  | cons s rest ih =>
    cases h : s.live T with
    | true =>
      obtain ⟨d, hd, hlt⟩ := dialOne_live h
      simp only [connectList, hd, List.length_cons, Nat.succ_mul]
      omega
    | false =>
      have hc : s.cost T ≤ T := by cases s <;> simp [Srv.cost]
      have := ih (now + s.cost T) (i + 1)
      simp only [connectList, dialOne_dead h, List.length_cons, Nat.succ_mul]
      omega

/-! ### the transcribed loop -/

/-- where the dial's deadline comes from -/
inductive Budget where
  | perServer      -- `net.DialTimeout(…, host, Timeout)` / a `Dialer{Timeout: …}`: Timeout for every dial
  | shared         -- one deadline `now + Timeout` computed before the loop and used for every dial
  | unknown
  deriving DecidableEq, Repr

/-- `Connect()`'s loop as xlate/c06 transcribes it -/
structure DialLoop where
  ranges : Bool        -- the dial stands in `for _, host := range this.Servers` and dials `host`
  budget : Budget
  nextOnErr : Bool     -- `if err != nil { …; continue }`: a failed dial goes on to the next server
  stopOnOk : Bool      -- after a successful dial conn / wr are assigned and the function returns nil
  deriving DecidableEq, Repr

/-- the loop of the model was written against -/
def assumedDialLoop : DialLoop := { ranges := true, budget := .perServer, nextOnErr := true, stopOnOk := true }

/-- semantics of the transcribed loop; `dl` is the deadline computed before the loop (`shared`),
    `acc` the connection made so far (a loop that does not stop at the first success keeps the last) -/
def loopDial (L : DialLoop) (T dl : Nat) : List Srv → (now i : Nat) → Option Nat → Option Nat × Nat
  | [], now, _, acc => (acc, now)
  | s :: rest, now, i, acc =>
    let left := match L.budget with
      | .perServer => T
      | .shared => dl - now
      | .unknown => 0
    match dialOne left s with
    | (true, d) => if L.stopOnOk then (some i, now + d) else loopDial L T dl rest (now + d) (i + 1) (some i)
    | (false, d) => if L.nextOnErr then loopDial L T dl rest (now + d) (i + 1) acc else (acc, now + d)

def interpDial (L : DialLoop) (T : Nat) (servers : List Srv) (now : Nat) : Option Nat × Nat :=
  if L.ranges then loopDial L T (now + T) servers now 0 none else (none, now)

theorem loopDial_is_model (L : DialLoop) (hb : L.budget = .perServer) (hn : L.nextOnErr = true)
    (hs : L.stopOnOk = true) (T dl : Nat) (l : List Srv) (now i : Nat) :
    loopDial L T dl l now i none = connectList T l now i := by
  induction l generalizing now i with
  | nil => rfl
  | cons s rest ih =>
    simp only [loopDial, connectList, hb, hn, hs, if_true]
    cases dialOne T s with
    | mk ok d => cases ok <;> simp [ih]

/-- a loop of the code's shape is the model's `connectList`, for every Timeout, list and time -/
theorem interp_is_model (L : DialLoop) (hr : L.ranges = true) (hb : L.budget = .perServer)
    (hn : L.nextOnErr = true) (hs : L.stopOnOk = true) (T : Nat) (l : List Srv) (now : Nat) :
    interpDial L T l now = connectList T l now 0 := by
  simp [interpDial, hr, loopDial_is_model L hb hn hs]

/-- with a shared deadline that has passed, no server is reached any more -/
theorem loopDial_shared_expired (L : DialLoop) (hb : L.budget = .shared) (hn : L.nextOnErr = true)
    (T dl : Nat) (l : List Srv) (now i : Nat) (acc : Option Nat) (h : dl ≤ now) :
    loopDial L T dl l now i acc = (acc, now) := by
  induction l generalizing i with
  | nil => rfl
  | cons s rest ih =>
    have h0 : dl - now = 0 := by omega
    have hd : dialOne 0 s = (false, 0) := by cases s <;> simp [dialOne]
    simp [loopDial, hb, hn, h0, hd, ih]

/-- **One deadline for the whole list**: a server that is gone uses the budget up, and no server after
    it is reached — whatever the rest of the list is (in particular when all of it is up). -/
theorem shared_budget_loses (L : DialLoop) (hr : L.ranges = true) (hb : L.budget = .shared)
    (hn : L.nextOnErr = true) (T : Nat) (rest : List Srv) (now : Nat) :
    interpDial L T (.gone :: rest) now = (none, now + T) := by
  simp only [interpDial, hr, if_true, loopDial, hb, dialOne, hn]
  have : now + T - now = T := by omega
  rw [this]
  exact loopDial_shared_expired L hb hn T (now + T) rest (now + T) 1 none (Nat.le_refl _)

end Tcp
