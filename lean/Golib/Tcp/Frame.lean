/-
  Golib.Tcp.Frame — frames as byte strings.

  * the one-way frame layout written by `makeData` (DataOutputX.WriteHeader):
        [10, 0] ++ be8 pcode ++ be8 licenseHash ++ be4 |payload| ++ payload
    and the reader's view of the 22 header bytes (`parseHeader`);
  * which license a send uses (`effLicense`: per-send override if non-empty, else the client's);
  * streams of frames: `concatF`, and the lemma that a prefix of a concatenation of frames is a
    concatenation of whole frames followed by a strict prefix of the next one (`prefix_frames`).

  The payload layout is C05's matter; here a frame is header ++ opaque payload.
-/
import Golib.Basic
import Golib.Prim.Int

namespace Tcp
open Prim

def hdrLen : Nat := 22

/-- license in effect for a send: `if o.License != "" { o.License } else { this.License }` -/
def effLicense (override dflt : Bytes) : Bytes := if override ≠ [] then override else dflt

def mkFrame (pcode hash : Int) (payload : Bytes) : Bytes :=
  [10, 0] ++ encI 8 pcode ++ encI 8 hash ++ beN 4 payload.length ++ payload

/-- `makeData`: header with the pack's pcode and the hash of the license in effect -/
def makeData (hash64 : Bytes → Int) (dflt override : Bytes) (pcode : Int) (payload : Bytes) : Bytes :=
  mkFrame pcode (hash64 (effLicense override dflt)) payload

structure Header where
  src : Nat
  ver : Nat
  pcode : Int
  hash : Int
  len : Nat
  deriving DecidableEq, Repr

/-- the collector's reading of the first 22 bytes -/
def parseHeader (bs : Bytes) : Option Header :=
  if bs.length < hdrLen then none else
  some { src := bs.getD 0 0, ver := bs.getD 1 0,
         pcode := decI 8 ((bs.drop 2).take 8), hash := decI 8 ((bs.drop 10).take 8),
         len := unbeN ((bs.drop 18).take 4) }

theorem beN_length (w n : Nat) : (beN w n).length = w := by
  induction w generalizing n with
  | zero => simp [beN]
  | succ w ih => simp [beN, ih]

theorem encI_length' (w : Nat) (v : Int) : (encI w v).length = w := beN_length _ _

theorem mkFrame_length (pcode hash : Int) (payload : Bytes) :
    (mkFrame pcode hash payload).length = hdrLen + payload.length := by
  simp [mkFrame, hdrLen]; omega

theorem parseHeader_mkFrame (pcode hash : Int) (payload rest : Bytes)
    (hp : inRange 8 pcode) (hh : inRange 8 hash) (hl : payload.length < 256 ^ 4) :
    parseHeader (mkFrame pcode hash payload ++ rest) =
      some { src := 10, ver := 0, pcode := pcode, hash := hash, len := payload.length } := by
  have e1 : (encI 8 pcode).length = 8 := encI_length' 8 pcode
  have e2 : (encI 8 hash).length = 8 := encI_length' 8 hash
  have e3 : (beN 4 payload.length).length = 4 := beN_length 4 _
  have hlen : ¬ ((mkFrame pcode hash payload ++ rest).length < hdrLen) := by
    rw [List.length_append, mkFrame_length]; omega
  unfold parseHeader
  rw [if_neg hlen]
  have d2 : (mkFrame pcode hash payload ++ rest).drop 2 =
      encI 8 pcode ++ (encI 8 hash ++ (beN 4 payload.length ++ (payload ++ rest))) := by
    simp [mkFrame]
  have d10 : (mkFrame pcode hash payload ++ rest).drop 10 =
      encI 8 hash ++ (beN 4 payload.length ++ (payload ++ rest)) := by
    have : (10 : Nat) = 2 + 8 := rfl
    rw [this, ← List.drop_drop, d2, List.drop_left' e1]
  have d18 : (mkFrame pcode hash payload ++ rest).drop 18 =
      beN 4 payload.length ++ (payload ++ rest) := by
    have : (18 : Nat) = 10 + 8 := rfl
    rw [this, ← List.drop_drop, d10, List.drop_left' e2]
  rw [d2, d10, d18, List.take_left' e1, List.take_left' e2, List.take_left' e3,
    decI_encI 8 pcode hp, decI_encI 8 hash hh, unbeN_beN_of_lt 4 _ hl]
  simp [mkFrame]

/-! ### streams of frames -/

theorem prefix_append_cases {α : Type} (d a b : List α) (h : d <+: a ++ b) :
    d <+: a ∨ ∃ d', d = a ++ d' ∧ d' <+: b := by
  induction a generalizing d with
  | nil => exact Or.inr ⟨d, by simp, by simpa using h⟩
  | cons x a ih =>
    cases d with
    | nil => exact Or.inl (List.nil_prefix)
    | cons y d =>
      rw [List.cons_append, List.cons_prefix_cons] at h
      obtain ⟨hxy, hd⟩ := h
      rcases ih d hd with h1 | ⟨d', h1, h2⟩
      · exact Or.inl (by rw [List.cons_prefix_cons]; exact ⟨hxy, h1⟩)
      · exact Or.inr ⟨d', by rw [hxy, h1]; rfl, h2⟩

variable (bytesOf : Nat → Bytes)

/-- the byte stream consisting of the frames of sends `sids`, in order -/
def concatF : List Nat → Bytes
  | [] => []
  | sid :: r => bytesOf sid ++ concatF r

theorem concatF_append (a b : List Nat) : concatF bytesOf (a ++ b) = concatF bytesOf a ++ concatF bytesOf b := by
  induction a with
  | nil => rfl
  | cons x r ih => simp [concatF, ih]

theorem concatF_singleton (sid : Nat) : concatF bytesOf [sid] = bytesOf sid := by simp [concatF]

/-- `d` consists of the whole frames `fs.take k` followed by `tail`, which is empty or a strict
    prefix of the next frame `fs[k]` -/
def WholeThenTail (fs : List Nat) (d : Bytes) : Prop :=
  ∃ k tail, d = concatF bytesOf (fs.take k) ++ tail ∧
    (tail = [] ∨ ∃ sid, fs[k]? = some sid ∧ tail <+: bytesOf sid ∧ tail ≠ bytesOf sid)

/-- a prefix of a stream of frames is whole frames followed by a strict prefix of the next frame -/
theorem prefix_frames (fs : List Nat) (d : Bytes) (h : d <+: concatF bytesOf fs) :
    WholeThenTail bytesOf fs d := by
  induction fs generalizing d with
  | nil =>
    have : d = [] := by simpa [concatF] using h
    exact ⟨0, [], by simp [this, concatF], Or.inl rfl⟩
  | cons f r ih =>
    simp only [concatF] at h
    rcases prefix_append_cases d _ _ h with hd | ⟨d', hd', hpre⟩
    · -- d is a prefix of the first frame
      by_cases he : d = bytesOf f
      · exact ⟨1, [], by simp [he, concatF], Or.inl rfl⟩
      · exact ⟨0, d, by simp [concatF], Or.inr ⟨f, by simp, hd, he⟩⟩
    · -- d = first frame ++ d'
      obtain ⟨k, tail, hk, ht⟩ := ih d' hpre
      refine ⟨k + 1, tail, ?_, ?_⟩
      · rw [hd', hk]; simp [concatF]
      · rcases ht with ht | ⟨sid, hs, hp, hn⟩
        · exact Or.inl ht
        · exact Or.inr ⟨sid, by simpa using hs, hp, hn⟩

theorem prefix_frames_sublist (fs : List Nat) (k : Nat) : (fs.take k).Sublist fs := List.take_sublist k fs

/-! ### the decomposition of a stream into frames is unique (frames are self-delimiting) -/

/-- the first `h > 0` bytes of a frame determine its length -/
structure SelfDelim (h : Nat) (lenOf : Bytes → Nat) : Prop where
  pos : 0 < h
  len : ∀ sid, (bytesOf sid).length = h + lenOf ((bytesOf sid).take h)

/-- empty, or a strict prefix of some frame -/
def IsTail (t : Bytes) : Prop := t = [] ∨ ∃ u, t <+: bytesOf u ∧ t ≠ bytesOf u

theorem eq_of_prefix_of_length_eq {α : Type} {a b l : List α} (ha : a <+: l) (hb : b <+: l)
    (h : a.length = b.length) : a = b := by
  obtain ⟨x, hx⟩ := ha
  obtain ⟨y, hy⟩ := hb
  have := hx.trans hy.symm
  exact (List.append_inj this h).1

variable {bytesOf}

/-- two frames that start the same stream are the same byte string -/
theorem SelfDelim.frame_eq {h : Nat} {lenOf : Bytes → Nat} (sd : SelfDelim bytesOf h lenOf) (a b : Nat) (l : Bytes)
    (ha : bytesOf a <+: l) (hb : bytesOf b <+: l) : bytesOf a = bytesOf b := by
  have la := sd.len a
  have lb := sd.len b
  have ta : (bytesOf a).take h = l.take h := by
    obtain ⟨x, hx⟩ := ha
    rw [← hx, List.take_append_of_le_length (by omega)]
  have tb : (bytesOf b).take h = l.take h := by
    obtain ⟨x, hx⟩ := hb
    rw [← hx, List.take_append_of_le_length (by omega)]
  exact eq_of_prefix_of_length_eq ha hb (by rw [la, lb, ta, tb])

/-- a whole frame cannot start where only a strict prefix of a frame follows -/
theorem SelfDelim.not_frame_in_tail {h : Nat} {lenOf : Bytes → Nat} (sd : SelfDelim bytesOf h lenOf) (a : Nat)
    (x t : Bytes) (ht : IsTail bytesOf t) (he : bytesOf a ++ x = t) : False := by
  have la := sd.len a
  have hpos := sd.pos
  rcases ht with h0 | ⟨u, hp, hn⟩
  · rw [h0] at he
    have h2 := congrArg List.length he
    simp only [List.length_append, List.length_nil] at h2
    omega
  · have hau : bytesOf a <+: bytesOf u := (List.prefix_append _ x).trans (he ▸ hp)
    have hsame := sd.frame_eq a u (bytesOf u) hau (List.prefix_refl _)
    have hlen : t.length < (bytesOf u).length := by
      have := hp.length_le
      rcases Nat.lt_or_ge t.length (bytesOf u).length with h1 | h1
      · exact h1
      · exact absurd (List.IsPrefix.eq_of_length_le hp h1) hn
    have : (bytesOf a).length ≤ t.length := by rw [← he]; simp
    rw [hsame] at this
    omega

/-- The reader's parse is the writer's log: if a stream is whole frames `fs` then a tail, and also
    whole frames `fs'` then a tail, the two frame sequences are the same byte strings and the tails
    are equal. -/
theorem SelfDelim.decompose_unique {h : Nat} {lenOf : Bytes → Nat} (sd : SelfDelim bytesOf h lenOf) :
    ∀ (fs fs' : List Nat) (t t' : Bytes), IsTail bytesOf t → IsTail bytesOf t' →
      concatF bytesOf fs ++ t = concatF bytesOf fs' ++ t' →
      fs.map bytesOf = fs'.map bytesOf ∧ t = t' := by
  intro fs
  induction fs with
  | nil =>
    intro fs' t t' ht ht' he
    cases fs' with
    | nil => exact ⟨rfl, by simpa [concatF] using he⟩
    | cons b r' =>
      simp only [concatF, List.nil_append, List.append_assoc] at he
      exact (sd.not_frame_in_tail b _ t ht he.symm).elim
  | cons a r ih =>
    intro fs' t t' ht ht' he
    cases fs' with
    | nil =>
      simp only [concatF, List.nil_append, List.append_assoc] at he
      exact (sd.not_frame_in_tail a _ t' ht' he).elim
    | cons b r' =>
      simp only [concatF, List.append_assoc] at he
      have hab : bytesOf a = bytesOf b :=
        sd.frame_eq a b (bytesOf a ++ (concatF bytesOf r ++ t)) (List.prefix_append _ _)
          (by rw [he]; exact List.prefix_append _ _)
      rw [hab] at he
      have := ih r' t t' ht ht' (List.append_cancel_left he)
      exact ⟨by simp [hab, this.1], this.2⟩

variable (bytesOf)

/-- frames built by `mkFrame` are self-delimiting: bytes 18..21 of the header give the payload length -/
theorem mkFrame_selfDelim (pc hs : Nat → Int) (pl : Nat → Bytes) (hlen : ∀ sid, (pl sid).length < 256 ^ 4) :
    SelfDelim (fun sid => mkFrame (pc sid) (hs sid) (pl sid)) hdrLen (fun hdr => unbeN ((hdr.drop 18).take 4)) := by
  constructor
  · decide
  · intro sid
    have e1 : (encI 8 (pc sid)).length = 8 := encI_length' 8 _
    have e2 : (encI 8 (hs sid)).length = 8 := encI_length' 8 _
    have e3 : (beN 4 (pl sid).length).length = 4 := beN_length 4 _
    have ht : (mkFrame (pc sid) (hs sid) (pl sid)).take hdrLen =
        [10, 0] ++ encI 8 (pc sid) ++ encI 8 (hs sid) ++ beN 4 (pl sid).length := by
      unfold mkFrame
      rw [List.take_append_of_le_length (by simp [e1, e2, e3, hdrLen])]
      exact List.take_of_length_le (by simp [e1, e2, e3, hdrLen])
    have hd : ([10, 0] ++ encI 8 (pc sid) ++ encI 8 (hs sid) ++ beN 4 (pl sid).length).drop 18 =
        beN 4 (pl sid).length := by
      rw [List.drop_append_of_le_length (by simp [e1, e2]), ]
      have : ([10, 0] ++ encI 8 (pc sid) ++ encI 8 (hs sid)).drop 18 = [] :=
        List.drop_of_length_le (by simp [e1, e2])
      rw [this]; rfl
    rw [mkFrame_length]
    show hdrLen + (pl sid).length = hdrLen + unbeN ((((mkFrame (pc sid) (hs sid) (pl sid)).take hdrLen).drop 18).take 4)
    rw [ht, hd, List.take_of_length_le (by rw [e3]; exact Nat.le_refl 4), unbeN_beN_of_lt 4 _ (hlen sid)]

end Tcp
