/-
  Golib.Tcp.Exec — whole calls of the client as schedules of model actions.

  The harness observes the client at the granularity of calls (one Send, one item taken by
  process(), one background Connect) together with each call's outcome.  `expand` turns such an
  event into the list of atomic actions the program of Golib.Tcp.Model performs for it — the
  program is deterministic once the outcome is fixed, the only state-dependent choice being
  whether `send()` has to connect first.  The driver replays these action lists with `Tcp.run`,
  so every guard of the model is checked: an observation is admitted only if the model can do it.

  The same action lists are used by the recovery theorem (Golib.Tcp.Recover).
-/
import Golib.Tcp.Model

namespace Tcp

inductive Outcome where
  | ok          -- Send returned nil
  | connect     -- "cannot connect"
  | write       -- "buffered writer cannot write" (sticky error, or the write itself failed)
  | flush       -- "cannot flush"
  deriving DecidableEq, Repr

inductive Ev where
  | direct (t : Nat) (o : Outcome)     -- sendDirect by thread t (the send gets id `nsid`)
  | enq (t : Nat) (ok : Bool)          -- SendFlush in queue mode
  | proc (ok : Bool)                   -- process() takes the head of the queue, sends, flushes
  | bg (ok : Bool)                     -- Connect at the top of process()'s loop (or the initial Connect)
  | peerClose (c n : Nat)
  | setCap (c : Int)                   -- Queue.SetCapacity
  | setTimeout (n : Nat)
  | reconf (t : Nat) (ok : Bool)       -- ApplyConfig with a changed license / server list: Close, Connect
  | tick (d : Nat)
  deriving Repr

/-- actions of `send()` up to and including the copy of the frame into the buffered writer -/
def sendPrefix (s : St) (t len : Nat) : List Act :=
  (if s.conn = none then [Act.connectOk t] else []) ++ [.writeBegin t, .writeChunk t len, .writeEnd t]

def writerErr (s : St) : Bool :=
  match s.wr with
  | some w => s.err.get w
  | none => false

/-- `lenOf sid` is the length of the frame of send `sid` -/
def expand (cfg : Cfg) (lenOf : Nat → Nat) (s : St) : Ev → List Act
  | .direct t .ok => [.lockSend t s.nsid] ++ sendPrefix s t (lenOf s.nsid) ++ [.flushOk t, .unlock t]
  | .direct t .connect => [.lockSend t s.nsid, .connectFail t, .close t, .unlock t]
  | .direct t .write =>
    if s.conn ≠ none ∧ writerErr s then [.lockSend t s.nsid, .writeSticky t, .close t, .unlock t]
    else [.lockSend t s.nsid] ++ (if s.conn = none then [Act.connectOk t] else []) ++
         [.writeBegin t, .writeChunk t (lenOf s.nsid), .autoFlushErr t (lenOf s.nsid - 1), .close t, .unlock t]
  | .direct t .flush =>
    [.lockSend t s.nsid] ++ sendPrefix s t (lenOf s.nsid) ++ [.flushErr t (lenOf s.nsid - 1), .unlock t]
  | .enq t true => [.enqueue t s.nsid]
  | .enq t false => [.enqueueFail t s.nsid]
  | .proc true =>
    match s.queue with
    | sid :: _ => [.dequeue] ++ sendPrefix s 0 (lenOf sid) ++ [.flushOk 0]
    | [] => [.dequeue]
  | .proc false =>
    match s.queue with
    | sid :: _ => [.dequeue] ++ sendPrefix s 0 (lenOf sid) ++ [.flushErr 0 (lenOf sid - 1)]
    | [] => [.dequeue]
  | .bg true => if cfg.bgLocked then [.bgConnectOk] else [.bgCheck, .bgDialOk]
  | .bg false => if cfg.bgLocked then [.bgConnectFail] else [.bgCheck, .bgDialFail]
  | .peerClose c n => [.peerClose c n]
  | .setCap c => [.setCapacity c]
  | .setTimeout n => [.setTimeout n]
  | .reconf t true => [.reconfClose t, .reconfDialOk t]
  | .reconf t false => [.reconfClose t, .reconfDialFail t]
  | .tick d => [.tick d]

end Tcp
