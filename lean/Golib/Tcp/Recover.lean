/-
  Golib.Tcp.Recover — the client reconnects on a later send.

  From every reachable state in which a direct sender is idle and the send lock is free —
  whatever faults happened before — at most two further sends by that sender, with the
  environment cooperating (the dial succeeds, the flush succeeds), end with a send accepted and
  its frame whole on a connection.  The first of the two is needed only when the current writer
  carries a sticky error: that send fails, closes the connection, and the next one dials.
-/
import Golib.Tcp.Fresh
import Golib.Tcp.Theorems

namespace Tcp

variable (cfg : Cfg) (bytesOf : Nat → Bytes)

theorem run_cons_of_step {s s1 : St} {a : Act} (as : List Act) (h : step cfg bytesOf s a = some s1) :
    run cfg bytesOf (a :: as) s = run cfg bytesOf as s1 := by
  simp only [run, h]

/-! forward lemmas: when the guards hold, the step is taken -/

theorem lockSend_ok {s : St} {t : Nat} (h0 : t ≠ 0) (hq : cfg.useQueue = false) (hp : s.pc t = .idle)
    (hl : s.lock = none) :
    step cfg bytesOf s (.lockSend t s.nsid) =
      some ({ s with lock := some t, nsid := s.nsid + 1, handed := s.handed ++ [s.nsid], xclosed := false }.setPc t (.made s.nsid)) := by
  simp [step, h0, hq, hp, hl]

theorem connectOk_ok {s : St} {t sid : Nat} (hp : s.pc t = .made sid) (hc : s.conn = none) :
    step cfg bytesOf s (.connectOk t) = some s.connectNew := by
  simp only [step, hp]
  rw [if_pos hc]

theorem writeBegin_ok {s : St} {t sid w : Nat} (hp : s.pc t = .made sid) (hw : s.wr = some w) (hc : s.conn ≠ none)
    (he : s.err.get w = false) :
    step cfg bytesOf s (.writeBegin t) =
      some ({ s with log := s.log.set w (s.log.get w ++ [sid]), pend := s.pend.set w (bytesOf sid), deadline := s.deadline.set w (if cfg.rearm = true then s.now + s.timeout else s.deadline.get w) }.setPc t
            (.writing sid w (bytesOf sid))) := by
  simp only [step, hp, hw]
  rw [if_pos ⟨hc, he⟩]

theorem writeSticky_ok {s : St} {t sid w : Nat} (hp : s.pc t = .made sid) (hw : s.wr = some w) (hc : s.conn ≠ none)
    (he : s.err.get w = true) :
    step cfg bytesOf s (.writeSticky t) = some (s.setPc t (.failed sid)) := by
  simp only [step, hp, hw]
  rw [if_pos ⟨hc, he⟩]

theorem writeChunk_ok {s : St} {t sid w n : Nat} {rest : Bytes} (hp : s.pc t = .writing sid w rest)
    (h0 : 0 < n) (hn : n ≤ rest.length) :
    step cfg bytesOf s (.writeChunk t n) =
      some ({ s with buf := s.buf.set w (s.buf.get w ++ rest.take n), pend := s.pend.set w (rest.drop n) }.setPc t
            (.writing sid w (rest.drop n))) := by
  simp only [step, hp]
  rw [if_pos ⟨h0, hn⟩]

theorem writeEnd_ok {s : St} {t sid w : Nat} (hp : s.pc t = .writing sid w []) :
    step cfg bytesOf s (.writeEnd t) = some (s.setPc t (.wrote sid w)) := by
  simp only [step, hp]

theorem flushOk_ok {s : St} {t sid w0 w : Nat} (hp : s.pc t = .wrote sid w0) (hw : s.wr = some w)
    (he : s.err.get w = false) (hd : s.now ≤ s.deadline.get w) :
    step cfg bytesOf s (.flushOk t) =
      some (((s.push w (s.buf.get w).length).finish t sid true).procRel cfg.procLocked t) := by
  simp only [step, hp, hw]
  rw [if_pos ⟨he, hd⟩]

theorem close_ok {s : St} {t sid : Nat} (hp : s.pc t = .failed sid) :
    step cfg bytesOf s (.close t) =
      some ({ s with conn := none }.setPc t (if t = 0 then .afterFail sid else .done sid false)) := by
  simp only [step, hp]

theorem unlock_ok {s : St} {t sid : Nat} {ok : Bool} (hp : s.pc t = .done sid ok) (ht : t ≠ 0) :
    step cfg bytesOf s (.unlock t) =
      some ({ s with lock := none, results := (sid, ok) :: s.results }.setPc t .idle) := by
  simp only [step, hp]
  rw [if_pos ht]

/-- the actions of one successful `sendDirect` -/
def okSend (t sid len : Nat) (dial : Bool) : List Act :=
  [.lockSend t sid] ++ (if dial then [Act.connectOk t] else []) ++
  [.writeBegin t, .writeChunk t len, .writeEnd t, .flushOk t, .unlock t]

/-- the actions of a `sendDirect` that meets the writer's sticky error -/
def stickySend (t sid : Nat) : List Act := [.lockSend t sid, .writeSticky t, .close t, .unlock t]

theorem okSend_noFault (t sid len : Nat) (dial : Bool) : ∀ a ∈ okSend t sid len dial, a.isFault = false := by
  cases dial <;> simp [okSend, Act.isFault]

theorem stickySend_noFault (t sid : Nat) : ∀ a ∈ stickySend t sid, a.isFault = false := by
  simp [stickySend, Act.isFault]

/-- `wr.Write` and `Flush` of a frame on a clean current writer, nothing interfering, the deadline
    re-armed by `send()`: the frame ends up logged last on `w` with nothing left in the buffer. -/
theorem write_flush_ok (hra : cfg.rearm = true) {s : St} {t sid w : Nat} (hp : s.pc t = .made sid) (hw : s.wr = some w)
    (hc : s.conn ≠ none) (he : s.err.get w = false) (hne : bytesOf sid ≠ []) :
    ∃ s', run cfg bytesOf [.writeBegin t, .writeChunk t (bytesOf sid).length, .writeEnd t, .flushOk t] s = some s' ∧
      s'.log.get w = s.log.get w ++ [sid] ∧ s'.buf.get w = [] ∧ s'.pend.get w = [] ∧
      s'.nsid = s.nsid ∧ s'.results = s.results ∧ s'.queue = s.queue ∧ s'.conn = s.conn ∧ s'.wr = s.wr ∧
      s'.err = s.err ∧ s'.next = s.next ∧
      s'.pc t = (if t = 0 then .idle else .done sid true) ∧
      s'.lock = (if t = 0 ∧ cfg.procLocked = true then none else s.lock) ∧
      (∀ t', t ≠ t' → s'.pc t' = s.pc t') ∧
      (∀ w', s.sent w' <+: s'.sent w') ∧ (∀ w', ∃ ext, s'.log.get w' = s.log.get w' ++ ext) := by
  have hlen : 0 < (bytesOf sid).length := by
    cases hb : bytesOf sid with
    | nil => exact absurd hb hne
    | cons _ _ => simp
  -- writeBegin
  let s1 : St := { s with log := s.log.set w (s.log.get w ++ [sid]), pend := s.pend.set w (bytesOf sid), deadline := s.deadline.set w (if cfg.rearm = true then s.now + s.timeout else s.deadline.get w) }.setPc t
    (.writing sid w (bytesOf sid))
  have e1 : step cfg bytesOf s (.writeBegin t) = some s1 := writeBegin_ok cfg bytesOf hp hw hc he
  -- writeChunk (everything)
  have p1 : s1.pc t = .writing sid w (bytesOf sid) := by simp [s1]
  let s2 : St := { s1 with buf := s1.buf.set w (s1.buf.get w ++ (bytesOf sid).take (bytesOf sid).length),
                           pend := s1.pend.set w ((bytesOf sid).drop (bytesOf sid).length) }.setPc t
    (.writing sid w ((bytesOf sid).drop (bytesOf sid).length))
  have e2 : step cfg bytesOf s1 (.writeChunk t (bytesOf sid).length) = some s2 :=
    writeChunk_ok cfg bytesOf p1 hlen (Nat.le_refl _)
  -- writeEnd
  have p2 : s2.pc t = .writing sid w [] := by simp [s2]
  let s3 : St := s2.setPc t (.wrote sid w)
  have e3 : step cfg bytesOf s2 (.writeEnd t) = some s3 := writeEnd_ok cfg bytesOf p2
  -- flushOk
  have p3 : s3.pc t = .wrote sid w := by simp [s3]
  have w3 : s3.wr = some w := hw
  have er3 : s3.err.get w = false := he
  have dl3 : s3.now ≤ s3.deadline.get w := by
    show s.now ≤ (s.deadline.set w (if cfg.rearm = true then s.now + s.timeout else s.deadline.get w)).get w
    rw [AMap.get_set_self, if_pos hra]; omega
  let s4 : St := ((s3.push w (s3.buf.get w).length).finish t sid true).procRel cfg.procLocked t
  have e4 : step cfg bytesOf s3 (.flushOk t) = some s4 := flushOk_ok cfg bytesOf p3 w3 er3 dl3
  refine ⟨s4, ?_, ?_, ?_, ?_, ?_, ?_, ?_, ?_, ?_, ?_, ?_, ?_, ?_, ?_, ?_, ?_⟩
  · rw [run_cons_of_step cfg bytesOf _ e1, run_cons_of_step cfg bytesOf _ e2, run_cons_of_step cfg bytesOf _ e3,
      run_cons_of_step cfg bytesOf _ e4]
    rfl
  · show ((s3.push w (s3.buf.get w).length).finish t sid true).log.get w = _
    rw [finish_log]; simp [St.push, s3, s2, s1, St.setPc]
  · show ((s3.push w (s3.buf.get w).length).finish t sid true).buf.get w = _
    rw [finish_buf]; simp [St.push]
  · show ((s3.push w (s3.buf.get w).length).finish t sid true).pend.get w = _
    rw [finish_pend]; simp [St.push, s3, s2, St.setPc]
  · show ((s3.push w (s3.buf.get w).length).finish t sid true).nsid = _
    rw [finish_nsid]; rfl
  · show ((s3.push w (s3.buf.get w).length).finish t sid true).results = _
    rw [finish_results]; rfl
  · show ((s3.push w (s3.buf.get w).length).finish t sid true).queue = _
    rw [finish_queue]; rfl
  · show ((s3.push w (s3.buf.get w).length).finish t sid true).conn = _
    unfold St.finish; by_cases h0 : t = 0 <;> simp [h0, St.setPc, St.push, s3, s2, s1]
  · show ((s3.push w (s3.buf.get w).length).finish t sid true).wr = _
    rw [finish_wr]; rfl
  · show ((s3.push w (s3.buf.get w).length).finish t sid true).err = _
    rw [finish_err]; rfl
  · show ((s3.push w (s3.buf.get w).length).finish t sid true).next = _
    rw [finish_next]; rfl
  · show ((s3.push w (s3.buf.get w).length).finish t sid true).pc t = _
    rw [finish_pc, if_pos rfl]
  · show (if t = 0 ∧ cfg.procLocked = true then none else ((s3.push w (s3.buf.get w).length).finish t sid true).lock) = _
    rw [finish_lock]; rfl
  · intro t' hne'
    show ((s3.push w (s3.buf.get w).length).finish t sid true).pc t' = _
    rw [finish_pc, if_neg hne']
    simp [St.push, s3, s2, s1, St.pc, St.setPc, AMap.get_set, hne']
  · intro w'
    show s.sent w' <+: ((s3.push w (s3.buf.get w).length).finish t sid true).sent w'
    rw [finish_sent]
    exact push_sent_prefix s3 w _ w'
  · intro w'
    show ∃ ext, ((s3.push w (s3.buf.get w).length).finish t sid true).log.get w' = s.log.get w' ++ ext
    rw [finish_log]
    show ∃ ext, (s.log.set w (s.log.get w ++ [sid])).get w' = s.log.get w' ++ ext
    rw [AMap.get_set]
    by_cases e : w = w'
    · subst e; exact ⟨[sid], by simp⟩
    · exact ⟨[], by simp [e]⟩

/-- the tail of a successful direct send, from the point where the connection is up and the writer clean -/
theorem send_tail_ok (hra : cfg.rearm = true) {s : St} {t sid w : Nat} (ht : t ≠ 0) (hp : s.pc t = .made sid)
    (hw : s.wr = some w) (hc : s.conn ≠ none) (he : s.err.get w = false) (hne : bytesOf sid ≠ []) :
    ∃ s', run cfg bytesOf [.writeBegin t, .writeChunk t (bytesOf sid).length, .writeEnd t, .flushOk t, .unlock t] s = some s' ∧
      s'.results = (sid, true) :: s.results ∧ s'.log.get w = s.log.get w ++ [sid] ∧
      s'.buf.get w = [] ∧ s'.pend.get w = [] ∧ s'.nsid = s.nsid := by
  obtain ⟨s4, hrun, hlog, hb, hpd, hn, hres, _, _, _, _, _, hpc, _, _, _, _⟩ := write_flush_ok cfg bytesOf hra hp hw hc he hne
  rw [if_neg ht] at hpc
  let s5 : St := { s4 with lock := none, results := (sid, true) :: s4.results }.setPc t .idle
  have e5 : step cfg bytesOf s4 (.unlock t) = some s5 := unlock_ok cfg bytesOf hpc ht
  refine ⟨s5, ?_, ?_, hlog, hb, hpd, hn⟩
  · have : [Act.writeBegin t, .writeChunk t (bytesOf sid).length, .writeEnd t, .flushOk t, .unlock t] =
        [Act.writeBegin t, .writeChunk t (bytesOf sid).length, .writeEnd t, .flushOk t] ++ [.unlock t] := rfl
    rw [this, run_append, hrun]
    simp only [Option.bind, run, e5]
  · show (sid, true) :: s4.results = _
    rw [hres]

/-- all invariants used here -/
def Good (s : St) : Prop := Core cfg bytesOf s ∧ FreshInv s

theorem good_run (hl : cfg.sendLocked = true) (acts : List Act) (s s' : St) (hg : Good cfg bytesOf s)
    (h : run cfg bytesOf acts s = some s') : Good cfg bytesOf s' :=
  run_inv cfg bytesOf (I := Good cfg bytesOf) (fun _ => True)
    (fun s a s' _ hi h => ⟨core_step cfg bytesOf hl s a s' hi.1 h, freshInv_step cfg bytesOf s s' a hi.1.order hi.2 h⟩)
    acts s s' (fun _ _ => trivial) hg h

theorem good_reach (hl : cfg.sendLocked = true) {s : St} (hr : Reach cfg bytesOf s) : Good cfg bytesOf s := by
  obtain ⟨acts, h⟩ := hr
  exact good_run cfg bytesOf hl acts init s ⟨core_init cfg bytesOf, freshInv_init⟩ h

/-- after a run that ended with `sid` logged last on `w` and nothing buffered, its frame is whole on `w` -/
theorem whole_of_flushed {s : St} (hg : Good cfg bytesOf s) (w sid : Nat) (pre : List Nat)
    (hlog : s.log.get w = pre ++ [sid]) (hb : s.buf.get w = []) (hp : s.pend.get w = []) :
    Whole bytesOf s w sid := by
  refine ⟨pre, [], hlog, ?_⟩
  have := hg.1.bytes.eq w
  rw [hb, hp, hlog] at this
  simp only [List.append_nil] at this
  rw [this]; exact List.prefix_refl _

/-- a send on a clean writer (or with no connection: it dials) succeeds and its frame is whole on the wire -/
theorem send_ok_of_clean (hl : cfg.sendLocked = true) (hra : cfg.rearm = true) (hq : cfg.useQueue = false) (hne : ∀ sid, bytesOf sid ≠ [])
    (s : St) (hg : Good cfg bytesOf s) (t : Nat) (ht : t ≠ 0) (hidle : s.pc t = .idle) (hlock : s.lock = none)
    (hclean : s.conn = none ∨ ∃ w, s.wr = some w ∧ s.err.get w = false) :
    ∃ dial s', run cfg bytesOf (okSend t s.nsid (bytesOf s.nsid).length dial) s = some s' ∧
      (s.nsid, true) ∈ s'.results ∧ ∃ w, Whole bytesOf s' w s.nsid := by
  let s1 : St := { s with lock := some t, nsid := s.nsid + 1, handed := s.handed ++ [s.nsid], xclosed := false }.setPc t (.made s.nsid)
  have e1 : step cfg bytesOf s (.lockSend t s.nsid) = some s1 := lockSend_ok cfg bytesOf ht hq hidle hlock
  have p1 : s1.pc t = .made s.nsid := by simp [s1]
  by_cases hc : s.conn = none
  · -- dial
    have e2 : step cfg bytesOf s1 (.connectOk t) = some s1.connectNew := connectOk_ok cfg bytesOf p1 hc
    have hfr : s1.connectNew.err.get s.next = false := hg.2.errFresh s.next (Nat.le_refl _)
    obtain ⟨s', hrun, hres, hlog, hb, hp, _⟩ := send_tail_ok cfg bytesOf hra (s := s1.connectNew) (w := s.next) ht
      (by exact p1) rfl (by simp [St.connectNew]) hfr (hne s.nsid)
    refine ⟨true, s', ?_, by rw [hres]; simp, s.next, ?_⟩
    · simp only [okSend, if_true, List.cons_append, List.nil_append]
      rw [run_cons_of_step cfg bytesOf _ e1, run_cons_of_step cfg bytesOf _ e2]; exact hrun
    · have hg' : Good cfg bytesOf s' := by
        refine good_run cfg bytesOf hl (okSend t s.nsid (bytesOf s.nsid).length true) s s' hg ?_
        simp only [okSend, if_true, List.cons_append, List.nil_append]
        rw [run_cons_of_step cfg bytesOf _ e1, run_cons_of_step cfg bytesOf _ e2]; exact hrun
      exact whole_of_flushed cfg bytesOf hg' s.next s.nsid _ hlog hb hp
  · -- connected, clean writer
    obtain ⟨w, hw, he⟩ : ∃ w, s.wr = some w ∧ s.err.get w = false := by
      rcases hclean with h | h
      · exact absurd h hc
      · exact h
    obtain ⟨s', hrun, hres, hlog, hb, hp, _⟩ := send_tail_ok cfg bytesOf hra (s := s1) (w := w) ht p1 hw hc he (hne s.nsid)
    refine ⟨false, s', ?_, by rw [hres]; simp, w, ?_⟩
    · simp only [okSend, List.cons_append, List.nil_append]
      rw [run_cons_of_step cfg bytesOf _ e1]; exact hrun
    · have hg' : Good cfg bytesOf s' := by
        refine good_run cfg bytesOf hl (okSend t s.nsid (bytesOf s.nsid).length false) s s' hg ?_
        simp only [okSend, List.cons_append, List.nil_append]
        rw [run_cons_of_step cfg bytesOf _ e1]; exact hrun
      exact whole_of_flushed cfg bytesOf hg' w s.nsid _ hlog hb hp

/-- **A healthy idle connection never fails a send.**  However long the client idles (`tick d`, any `d`),
    the next send on a clean writer succeeds: `send()` re-arms the write deadline before it writes. -/
theorem idle_then_send_ok (hl : cfg.sendLocked = true) (hra : cfg.rearm = true) (hq : cfg.useQueue = false)
    (hne : ∀ sid, bytesOf sid ≠ []) (s : St) (hg : Good cfg bytesOf s) (t : Nat) (ht : t ≠ 0) (hidle : s.pc t = .idle)
    (hlock : s.lock = none) (hclean : s.conn = none ∨ ∃ w, s.wr = some w ∧ s.err.get w = false) (d : Nat) :
    ∃ dial s', run cfg bytesOf (.tick d :: okSend t s.nsid (bytesOf s.nsid).length dial) s = some s' ∧
      (s.nsid, true) ∈ s'.results ∧ ∃ w, Whole bytesOf s' w s.nsid := by
  let s0 : St := { s with now := s.now + d }
  have e0 : step cfg bytesOf s (.tick d) = some s0 := by simp [step, s0]
  have hg0 : Good cfg bytesOf s0 := good_run cfg bytesOf hl [.tick d] s s0 hg (by simp [run, e0])
  obtain ⟨dial, s', hrun, hres, hw⟩ := send_ok_of_clean cfg bytesOf hl hra hq hne s0 hg0 t ht hidle hlock hclean
  exact ⟨dial, s', by rw [run_cons_of_step cfg bytesOf _ e0]; exact hrun, hres, hw⟩

/-- a send that meets the sticky error fails, closes the connection and releases the lock -/
theorem sticky_send (hq : cfg.useQueue = false) (s : St) (t w : Nat) (ht : t ≠ 0) (hidle : s.pc t = .idle)
    (hlock : s.lock = none) (hc : s.conn ≠ none) (hw : s.wr = some w) (he : s.err.get w = true) :
    ∃ s', run cfg bytesOf (stickySend t s.nsid) s = some s' ∧ s'.conn = none ∧ s'.lock = none ∧ s'.pc t = .idle ∧
      s'.nsid = s.nsid + 1 := by
  let s1 : St := { s with lock := some t, nsid := s.nsid + 1, handed := s.handed ++ [s.nsid], xclosed := false }.setPc t (.made s.nsid)
  have e1 : step cfg bytesOf s (.lockSend t s.nsid) = some s1 := lockSend_ok cfg bytesOf ht hq hidle hlock
  have p1 : s1.pc t = .made s.nsid := by simp [s1]
  let s2 : St := s1.setPc t (.failed s.nsid)
  have e2 : step cfg bytesOf s1 (.writeSticky t) = some s2 := writeSticky_ok cfg bytesOf p1 hw hc he
  have p2 : s2.pc t = .failed s.nsid := by simp [s2]
  let s3 : St := { s2 with conn := none }.setPc t (if t = 0 then .afterFail s.nsid else .done s.nsid false)
  have e3 : step cfg bytesOf s2 (.close t) = some s3 := close_ok cfg bytesOf p2
  have p3 : s3.pc t = .done s.nsid false := by simp [s3, ht]
  let s4 : St := { s3 with lock := none, results := (s.nsid, false) :: s3.results }.setPc t .idle
  have e4 : step cfg bytesOf s3 (.unlock t) = some s4 := unlock_ok cfg bytesOf p3 ht
  refine ⟨s4, ?_, rfl, rfl, by simp [s4], rfl⟩
  simp only [stickySend]
  rw [run_cons_of_step cfg bytesOf _ e1, run_cons_of_step cfg bytesOf _ e2, run_cons_of_step cfg bytesOf _ e3,
    run_cons_of_step cfg bytesOf _ e4]
  rfl

/-- **The client reconnects on a later send.**  From every reachable state in which sender `t` is
    idle and the send lock is free — after any faults — there is a continuation of at most two sends
    by `t` (eleven actions, none of them a fault) after which a send is accepted and its frame is
    whole on a connection. -/
theorem reconnects_direct (hl : cfg.sendLocked = true) (hra : cfg.rearm = true) (hq : cfg.useQueue = false) (hne : ∀ sid, bytesOf sid ≠ [])
    (s : St) (hr : Reach cfg bytesOf s) (t : Nat) (ht : t ≠ 0) (hidle : s.pc t = .idle) (hlock : s.lock = none) :
    ∃ acts s', run cfg bytesOf acts s = some s' ∧ acts.length ≤ 11 ∧ (∀ a ∈ acts, a.isFault = false) ∧
      ∃ sid, s.nsid ≤ sid ∧ (sid, true) ∈ s'.results ∧ ∃ w, Whole bytesOf s' w sid := by
  have hg := good_reach cfg bytesOf hl hr
  by_cases hclean : s.conn = none ∨ ∃ w, s.wr = some w ∧ s.err.get w = false
  · obtain ⟨dial, s', hrun, hres, hw⟩ := send_ok_of_clean cfg bytesOf hl hra hq hne s hg t ht hidle hlock hclean
    refine ⟨_, s', hrun, ?_, okSend_noFault t _ _ dial, s.nsid, Nat.le_refl _, hres, hw⟩
    cases dial <;> simp [okSend]
  · -- connected, and the writer carries a sticky error
    have hc : s.conn ≠ none := fun h => hclean (Or.inl h)
    obtain ⟨w, hw⟩ : ∃ w, s.wr = some w := by
      cases hwr : s.wr with
      | none => exact absurd hwr (hg.1.order.connWr hc)
      | some w => exact ⟨w, rfl⟩
    have he : s.err.get w = true := by
      cases h : s.err.get w with
      | true => rfl
      | false => exact absurd (Or.inr ⟨w, hw, h⟩) hclean
    obtain ⟨s1, hrun1, hc1, hl1, hp1, hn1⟩ := sticky_send cfg bytesOf hq s t w ht hidle hlock hc hw he
    have hg1 := good_run cfg bytesOf hl _ s s1 hg hrun1
    obtain ⟨dial, s', hrun2, hres, hw2⟩ := send_ok_of_clean cfg bytesOf hl hra hq hne s1 hg1 t ht hp1 hl1 (Or.inl hc1)
    refine ⟨stickySend t s.nsid ++ okSend t s1.nsid (bytesOf s1.nsid).length dial, s', ?_, ?_, ?_, s1.nsid, by omega, hres, hw2⟩
    · rw [run_append, hrun1]; exact hrun2
    · cases dial <;> simp [okSend, stickySend]
    · intro a ha
      rcases List.mem_append.mp ha with h | h
      · exact stickySend_noFault t _ a h
      · exact okSend_noFault t _ _ dial a h

end Tcp
