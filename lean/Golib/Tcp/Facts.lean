/-
  Golib.Tcp.Facts — what the CodeModel Golib.Tcp.Model assumes about the source text of
  net/oneway/OneWayTcpClient.go, as data.  The translator xlate/c06 re-extracts the same record
  from the Go source on every run (Golib/Gen/C06.lean); Golib/Props/C06Gen.lean proves the two
  equal by `decide` and instantiates the theorems at the configuration derived from the source.
-/
import Golib.Tcp.Model

namespace Tcp

/-- the calls that matter, in source order (logging, formatting, time and type conversions are dropped) -/
inductive Call where
  | lock | unlock | deferUnlock          -- oneWayClientSendLock
  | makeData | send | flush | close | connect | sendDirect
  | queuePut | queueGetTimeout | queueGetNoWait | queueGetCapacity | queueSetCapacity
  | dial | newWriter | connClose | setDeadline | bufWrite | bufFlush
  | bufReset                             -- `wr.Reset(…)`: clears bufio's sticky error and drops what is buffered
  deriving DecidableEq, Repr

structure Facts where
  /-- call sequence of sendDirect -/
  sendDirect : List Call
  /-- in sendDirect: Close is called on the error path of send, not on the error path of Flush -/
  directCloseOnSendErr : Bool
  directCloseOnFlushErr : Bool
  /-- call sequence of process() -/
  process : List Call
  /-- call sequence of ApplyConfig; its Close/Connect lie between Lock and Unlock of the send lock -/
  applyConfig : List Call
  applyConfigLocked : Bool
  /-- every Connect call in process() lies between Lock and Unlock of the send lock -/
  processConnectLocked : Bool
  /-- process(): Close after a failed send and after a failed Flush -/
  processCloseOnSendErr : Bool
  processCloseOnFlushErr : Bool
  /-- SendFlush: `if UseQueue { Queue.Put } else { sendDirect }` -/
  sendFlush : List Call
  /-- send(): `if conn == nil { Connect }` before the write loop; one wr.Write per iteration -/
  send : List Call
  sendConnectsOnlyWhenNil : Bool
  /-- Connect(): returns at once when conn != nil; assigns conn and wr (a new buffered writer) -/
  connect : List Call
  connectGuarded : Bool
  connectAssigns : List String
  /-- Close(): assigns conn = nil and nothing else -/
  close : List Call
  closeAssigns : List String
  /-- Flush(): flushes the current writer -/
  flush : List Call
  /-- functions that take from the queue, and the functions started with `go` -/
  queueConsumers : List String
  goroutines : List String
  /-- `go` statements inside util/queue/RequestQueue.go: the queue itself starts no goroutine, so the
      only takers are its callers -/
  queueGoStmts : Nat
  /-- makeData: `if o.License != "" { hash(o.License) } else { hash(this.License) }`, header bytes -/
  licenseOverrideWhenNonEmpty : Bool
  headerSrc : Nat
  headerVer : Nat
  deriving DecidableEq, Repr

/-- the shape of the source the model was written against (after fix-D42 and fix-D70) -/
def assumed : Facts :=
  { sendDirect := [.lock, .deferUnlock, .makeData, .send, .close, .flush]
    directCloseOnSendErr := true
    directCloseOnFlushErr := false
    process := [.lock, .connect, .unlock, .queueGetTimeout, .lock, .makeData, .send, .close, .flush, .close, .unlock]
    applyConfig := [.lock, .close, .connect, .unlock, .queueGetCapacity, .queueSetCapacity]
    applyConfigLocked := true
    processConnectLocked := true
    processCloseOnSendErr := true
    processCloseOnFlushErr := true
    sendFlush := [.queuePut, .sendDirect]
    send := [.connect, .setDeadline, .bufWrite]
    sendConnectsOnlyWhenNil := true
    connect := [.dial, .newWriter]
    connectGuarded := true
    connectAssigns := ["conn", "wr"]
    close := [.connClose]
    closeAssigns := ["conn"]
    flush := [.bufFlush]
    queueConsumers := ["SendAndClear", "process"]
    goroutines := ["process"]
    queueGoStmts := 0
    licenseOverrideWhenNonEmpty := true
    headerSrc := 10
    headerVer := 0 }

/-- sendDirect takes the lock first, releases it by `defer`, and does makeData / send / Flush after it -/
def Facts.sendLocked (f : Facts) : Bool :=
  f.sendDirect.take 2 == [.lock, .deferUnlock] &&
  [Call.makeData, .send, .flush].all (fun c => (f.sendDirect.drop 2).contains c)

end Tcp
