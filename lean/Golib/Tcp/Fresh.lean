/-
  Golib.Tcp.Fresh — a new connection's buffered writer starts clean.

  Writers are numbered as they are created; nothing touches the error flag of a writer that
  does not exist yet, and every write in progress targets an existing writer.  Together with the
  byte accounting (`BytesInv`) and `OrderInv.freshLog` this says that after `connectOk` the
  current writer has an empty buffer, no sticky error and nothing on the wire.
-/
import Golib.Tcp.Order

namespace Tcp

variable (cfg : Cfg) (bytesOf : Nat → Bytes)

structure FreshInv (s : St) : Prop where
  errFresh : ∀ w, s.next ≤ w → s.err.get w = false
  pcw : ∀ t sid w rest, s.pc t = .writing sid w rest → w < s.next

theorem FreshInv.procRel {s : St} (hi : FreshInv s) (b : Bool) (t : Nat) : FreshInv (s.procRel b t) :=
  ⟨hi.errFresh, hi.pcw⟩

theorem freshInv_init : FreshInv init := by
  constructor
  · intro w _; rfl
  · intro t sid w rest h; simp [init, St.pc, AMap.get] at h

theorem FreshInv.of {s s' : St} (hi : FreshInv s) (hnext : s.next ≤ s'.next)
    (herr : ∀ w, s'.next ≤ w → s'.err.get w = s.err.get w)
    (hpc : ∀ t sid w rest, s'.pc t = .writing sid w rest → s.pc t = .writing sid w rest ∨ w < s'.next) :
    FreshInv s' := by
  constructor
  · intro w hw; rw [herr w hw]; exact hi.errFresh w (by omega)
  · intro t sid w rest h
    rcases hpc t sid w rest h with h1 | h1
    · have := hi.pcw t sid w rest h1; omega
    · exact h1

theorem writing_setPc {s : St} {t t' : Nat} {p : Pc} {sid w : Nat} {rest : Bytes}
    (h : (s.setPc t p).pc t' = .writing sid w rest) :
    (t = t' ∧ p = .writing sid w rest) ∨ s.pc t' = .writing sid w rest := by
  rw [pc_setPc] at h
  by_cases e : t = t'
  · rw [if_pos e] at h; exact Or.inl ⟨e, h⟩
  · rw [if_neg e] at h; exact Or.inr h

theorem writing_finish {s : St} {t t' sid0 : Nat} {ok : Bool} {sid w : Nat} {rest : Bytes}
    (h : (s.finish t sid0 ok).pc t' = .writing sid w rest) : s.pc t' = .writing sid w rest := by
  rw [finish_pc] at h
  by_cases e : t = t'
  · rw [if_pos e] at h; split at h <;> cases h
  · rw [if_neg e] at h; exact h

theorem freshInv_step (s s' : St) (a : Act) (ho : OrderInv s)
    (hi : FreshInv s) (h : step cfg bytesOf s a = some s') : FreshInv s' := by
  -- a thread moves to a program point that is not `writing`
  have mv : ∀ (s1 : St) (t : Nat) (p : Pc), isWriting p = false →
      ∀ t' sid w rest, (s1.setPc t p).pc t' = .writing sid w rest → s1.pc t' = .writing sid w rest := by
    intro s1 t p hp t' sid w rest h'
    rcases writing_setPc h' with ⟨_, h1⟩ | h1
    · rw [h1] at hp; simp [isWriting] at hp
    · exact h1
  cases a with
  | lockSend t sid =>
    obtain ⟨_, rfl⟩ := step_lockSend h
    exact hi.of (Nat.le_refl _) (fun _ _ => rfl) (fun t' sid' w rest h' => Or.inl (mv _ _ _ rfl _ _ _ _ h'))
  | connectOk t =>
    obtain ⟨_, _, rfl⟩ := step_connectOk h
    exact hi.of (Nat.le_succ _) (fun _ _ => rfl) (fun _ _ _ _ h' => Or.inl h')
  | connectFail t =>
    obtain ⟨_, _, _, rfl⟩ := step_connectFail h
    exact hi.of (Nat.le_refl _) (fun _ _ => rfl) (fun t' sid' w rest h' => Or.inl (mv _ _ _ rfl _ _ _ _ h'))
  | writeBegin t =>
    obtain ⟨sid, w, _, hw, _, _, rfl⟩ := step_writeBegin h
    have hwn := ho.wrNew w hw
    refine hi.of (Nat.le_refl _) (fun _ _ => rfl) ?_
    intro t' sid' w' rest h'
    rcases writing_setPc h' with ⟨_, h1⟩ | h1
    · cases h1; exact Or.inr (by show w < s.next; omega)
    · exact Or.inl h1
  | writeSticky t =>
    obtain ⟨_, _, _, _, _, _, rfl⟩ := step_writeSticky h
    exact hi.of (Nat.le_refl _) (fun _ _ => rfl) (fun t' sid' w rest h' => Or.inl (mv _ _ _ rfl _ _ _ _ h'))
  | writeChunk t n =>
    obtain ⟨sid, w, rest0, hp, _, _, rfl⟩ := step_writeChunk h
    have hw := hi.pcw t sid w rest0 hp
    refine hi.of (Nat.le_refl _) (fun _ _ => rfl) ?_
    intro t' sid' w' rest h'
    rcases writing_setPc h' with ⟨_, h1⟩ | h1
    · cases h1; exact Or.inr hw
    · exact Or.inl h1
  | writeEnd t =>
    obtain ⟨_, _, _, rfl⟩ := step_writeEnd h
    exact hi.of (Nat.le_refl _) (fun _ _ => rfl) (fun t' sid' w rest h' => Or.inl (mv _ _ _ rfl _ _ _ _ h'))
  | autoFlush t k =>
    obtain ⟨_, _, _, _, _, rfl⟩ := step_autoFlush h
    exact hi.of (Nat.le_refl _) (fun _ _ => rfl) (fun _ _ _ _ h' => Or.inl h')
  | autoFlushErr t k =>
    obtain ⟨sid, w, rest0, hp, _, rfl⟩ := step_autoFlushErr h
    have hw := hi.pcw t sid w rest0 hp
    refine hi.of (Nat.le_refl _) ?_ (fun t' sid' w rest h' => Or.inl (mv _ _ _ rfl _ _ _ _ h'))
    intro w' hw'
    have hw'' : s.next ≤ w' := hw'
    simp only [St.setPc, St.setErr, St.push]
    rw [AMap.get_set_ne _ _ _ _ (by omega)]
  | flushOk t =>
    obtain ⟨_, _, _, _, _, _, rfl⟩ := step_flushOk h
    refine FreshInv.procRel ?_ _ _
    exact hi.of (by rw [finish_next]; exact Nat.le_refl _) (fun _ _ => by rw [finish_err]; rfl)
      (fun t' sid' w rest h' => Or.inl (by have h2 := writing_finish h'; exact h2))
  | flushErr t k =>
    obtain ⟨sid, w0, w, _, hw, _, rfl⟩ := step_flushErr h
    have hwn := ho.wrNew w hw
    refine FreshInv.procRel ?_ _ _
    refine hi.of (by rw [finish_next]; exact Nat.le_refl _) ?_ (fun t' sid' w rest h' => Or.inl (by have h2 := writing_finish h'; exact h2))
    intro w' hw'
    rw [finish_next] at hw'
    have hw'' : s.next ≤ w' := hw'
    rw [finish_err]
    simp only [St.setErr, St.push]
    rw [AMap.get_set_ne _ _ _ _ (by omega)]
  | close t =>
    obtain ⟨_, _, rfl⟩ := step_close h
    refine hi.of (Nat.le_refl _) (fun _ _ => rfl) (fun t' sid' w rest h' => Or.inl (mv _ _ _ ?_ _ _ _ _ h'))
    split <;> rfl
  | flushAfterFail =>
    obtain ⟨_, _, rfl⟩ := step_flushAfterFail h
    refine FreshInv.procRel ?_ _ _
    exact hi.of (Nat.le_refl _) (fun _ _ => rfl) (fun t' sid' w rest h' => Or.inl (mv _ _ _ rfl _ _ _ _ h'))
  | unlock t =>
    obtain ⟨_, _, _, _, rfl⟩ := step_unlock h
    exact hi.of (Nat.le_refl _) (fun _ _ => rfl) (fun t' sid' w rest h' => Or.inl (mv _ _ _ rfl _ _ _ _ h'))
  | enqueue t sid =>
    obtain ⟨_, rfl⟩ := step_enqueue h
    exact hi.of (Nat.le_refl _) (fun _ _ => rfl) (fun _ _ _ _ h' => Or.inl h')
  | enqueueFail t sid =>
    obtain ⟨_, rfl⟩ := step_enqueueFail h
    exact hi.of (Nat.le_refl _) (fun _ _ => rfl) (fun _ _ _ _ h' => Or.inl h')
  | dequeue =>
    obtain ⟨_, _, _, _, _, _, rfl⟩ := step_dequeue h
    exact hi.of (Nat.le_refl _) (fun _ _ => rfl) (fun t' sid' w rest h' => Or.inl (mv _ _ _ rfl _ _ _ _ h'))
  | bgConnectOk =>
    obtain ⟨_, rfl⟩ := step_bgConnectOk h
    exact hi.of (Nat.le_succ _) (fun _ _ => rfl) (fun _ _ _ _ h' => Or.inl h')
  | bgConnectFail =>
    obtain ⟨_, rfl⟩ := step_bgConnectFail h
    exact hi
  | bgCheck =>
    obtain ⟨_, rfl⟩ := step_bgCheck h
    exact hi.of (Nat.le_refl _) (fun _ _ => rfl) (fun t' sid' w rest h' => Or.inl (mv _ _ _ rfl _ _ _ _ h'))
  | bgDialOk =>
    obtain ⟨_, rfl⟩ := step_bgDialOk h
    exact hi.of (Nat.le_succ _) (fun _ _ => rfl) (fun t' sid' w rest h' => Or.inl (mv _ _ _ rfl _ _ _ _ h'))
  | bgDialFail =>
    obtain ⟨_, rfl⟩ := step_bgDialFail h
    exact hi.of (Nat.le_refl _) (fun _ _ => rfl) (fun t' sid' w rest h' => Or.inl (mv _ _ _ rfl _ _ _ _ h'))
  | peerClose c n =>
    obtain ⟨_, rfl⟩ := step_peerClose h
    exact hi.of (Nat.le_refl _) (fun _ _ => rfl) (fun _ _ _ _ h' => Or.inl h')
  | setCapacity c =>
    rw [step_setCapacity h]
    exact hi.of (Nat.le_refl _) (fun _ _ => rfl) (fun _ _ _ _ h' => Or.inl h')
  | setTimeout n =>
    rw [step_setTimeout h]
    exact hi.of (Nat.le_refl _) (fun _ _ => rfl) (fun _ _ _ _ h' => Or.inl h')
  | tick d =>
    rw [step_tick h]
    exact hi.of (Nat.le_refl _) (fun _ _ => rfl) (fun _ _ _ _ h' => Or.inl h')
  | reconfClose t =>
    obtain ⟨_, rfl⟩ := step_reconfClose h
    exact hi.of (Nat.le_refl _) (fun _ _ => rfl) (fun t' sid' w rest h' => Or.inl (mv _ _ _ rfl _ _ _ _ h'))
  | reconfDialOk t =>
    obtain ⟨_, rfl⟩ := step_reconfDialOk h
    exact hi.of (Nat.le_succ _) (fun _ _ => rfl) (fun t' sid' w rest h' => Or.inl (mv _ _ _ rfl _ _ _ _ h'))
  | reconfDialFail t =>
    obtain ⟨_, rfl⟩ := step_reconfDialFail h
    exact hi.of (Nat.le_refl _) (fun _ _ => rfl) (fun t' sid' w rest h' => Or.inl (mv _ _ _ rfl _ _ _ _ h'))
  | extClose t =>
    obtain ⟨_, rfl⟩ := step_extClose h
    exact hi.of (Nat.le_refl _) (fun _ _ => rfl) (fun _ _ _ _ h' => Or.inl h')
  | swallow t =>
    obtain ⟨_, _, _, _, _, _, _, rfl⟩ := step_swallow h
    exact hi.of (Nat.le_refl _) (fun _ _ => rfl) (fun t' sid' w rest h' => Or.inl (mv _ _ _ rfl _ _ _ _ h'))

end Tcp
