/-
  Golib.Tcp.Inv — invariants of the one-way client machine (Golib.Tcp.Model), each proved by
  induction over schedules (`Reach`): one lemma per invariant saying that every action preserves it.
-/
import Golib.Tcp.Steps
import Golib.Tcp.Frame

namespace Tcp

variable (cfg : Cfg) (bytesOf : Nat → Bytes)

/-- inside `send()`/`Flush()` (sender: between Lock and Unlock) -/
def inCS : Pc → Bool
  | .idle => false
  | .bgDial => false
  | .reconf => false
  | _ => true

/-! ### mutual exclusion -/

/-- Direct mode: whoever is inside the critical section is a sender and holds the send lock, and
    the queue stays empty (so process() never sends).  Queue mode: only process() (thread 0) is
    ever inside — holding the lock if `procLocked`.  A thread inside ApplyConfig between Close and
    Connect holds the lock if `acLocked`. -/
structure MutexInv (s : St) : Prop where
  cs : ∀ t, inCS (s.pc t) = true →
        (cfg.useQueue = true → t = 0 ∧ (cfg.procLocked = true → s.lock = some 0)) ∧
        (cfg.useQueue = false → t ≠ 0 ∧ s.lock = some t)
  noq : cfg.useQueue = false → s.queue = []
  rlock : ∀ t, s.pc t = .reconf → t ≠ 0 ∧ (cfg.acLocked = true → s.lock = some t)

theorem mutexInv_init : MutexInv cfg init := by
  refine ⟨?_, ?_, ?_⟩
  · intro t h; simp [init, St.pc, AMap.get, inCS] at h
  · intro _; rfl
  · intro t h; simp [init, St.pc, AMap.get] at h

@[simp] theorem pc_setPc (s : St) (t t' : Nat) (p : Pc) :
    (s.setPc t p).pc t' = if t = t' then p else s.pc t' := by
  simp [St.pc, St.setPc, AMap.get_set]

/-- thread `t` moves to `p` (staying inside, or leaving, the critical section); lock and queue unchanged -/
theorem MutexInv.move {s s' : St} (hi : MutexInv cfg s) (t : Nat) (p : Pc)
    (hpc : ∀ t', s'.pc t' = if t = t' then p else s.pc t') (hl : s'.lock = s.lock) (hq : s'.queue = s.queue)
    (hin : inCS p = true → inCS (s.pc t) = true) (hr : p ≠ .reconf) : MutexInv cfg s' := by
  refine ⟨?_, ?_, ?_⟩
  · intro t' ht'
    rw [hpc] at ht'
    rw [hl]
    by_cases e : t = t'
    · subst e; rw [if_pos rfl] at ht'; exact hi.cs t (hin ht')
    · rw [if_neg e] at ht'; exact hi.cs t' ht'
  · rw [hq]; exact hi.noq
  · intro t' ht'
    rw [hpc] at ht'
    rw [hl]
    by_cases e : t = t'
    · rw [if_pos e] at ht'; exact absurd ht' hr
    · rw [if_neg e] at ht'; exact hi.rlock t' ht'

theorem MutexInv.same {s s' : St} (hi : MutexInv cfg s)
    (hpc : s'.pcs = s.pcs) (hl : s'.lock = s.lock) (hq : s'.queue = s.queue) : MutexInv cfg s' := by
  refine ⟨?_, ?_, ?_⟩
  · intro t' ht'; simp only [St.pc, hpc] at ht'; rw [hl]; exact hi.cs t' ht'
  · rw [hq]; exact hi.noq
  · intro t' ht'; simp only [St.pc, hpc] at ht'; rw [hl]; exact hi.rlock t' ht'

theorem finish_pc (s : St) (t sid : Nat) (ok : Bool) (t' : Nat) :
    (s.finish t sid ok).pc t' = if t = t' then (if t = 0 then .idle else .done sid ok) else s.pc t' := by
  unfold St.finish
  by_cases h0 : t = 0
  · subst h0
    cases ok <;> simp [St.pc, St.setPc, AMap.get_set]
  · simp [h0]

theorem finish_lock (s : St) (t sid : Nat) (ok : Bool) : (s.finish t sid ok).lock = s.lock := by
  unfold St.finish; cases ok <;> by_cases h0 : t = 0 <;> simp [h0, St.setPc]

theorem finish_queue (s : St) (t sid : Nat) (ok : Bool) : (s.finish t sid ok).queue = s.queue := by
  unfold St.finish; cases ok <;> by_cases h0 : t = 0 <;> simp [h0, St.setPc]

/-- the end of a `send()+Flush()`: thread `t` leaves the critical section (process() releasing the
    lock if it held it) -/
theorem MutexInv.finished {s s1 : St} (hi : MutexInv cfg s) (t : Nat) (p : Pc) (b : Bool)
    (hpc : ∀ t', s1.pc t' = if t = t' then p else s.pc t') (hl : s1.lock = s.lock) (hq : s1.queue = s.queue)
    (hcs : inCS (s.pc t) = true) (hp : inCS p = true → t ≠ 0) (hr : p ≠ .reconf)
    (hb : b = cfg.procLocked) : MutexInv cfg (s1.procRel b t) := by
  have hpc' : ∀ t', (s1.procRel b t).pc t' = if t = t' then p else s.pc t' := hpc
  have hq' : (s1.procRel b t).queue = s.queue := hq
  by_cases h0 : t = 0 ∧ b = true
  · obtain ⟨rfl, hbt⟩ := h0
    have hlk : (s1.procRel b 0).lock = none := by simp [St.procRel, hbt]
    have huq : cfg.useQueue = true := by
      cases hu : cfg.useQueue with
      | true => rfl
      | false => exact absurd rfl ((hi.cs 0 hcs).2 hu).1
    have hold : s.lock = some 0 := ((hi.cs 0 hcs).1 huq).2 (by rw [← hb]; exact hbt)
    refine ⟨?_, ?_, ?_⟩
    · intro t' ht'
      rw [hpc'] at ht'
      by_cases e : 0 = t'
      · subst e; rw [if_pos rfl] at ht'; exact absurd rfl (hp ht')
      · rw [if_neg e] at ht'
        exact absurd ((hi.cs t' ht').1 huq).1.symm e
    · rw [hq']; exact hi.noq
    · intro t' ht'
      rw [hpc'] at ht'
      by_cases e : 0 = t'
      · rw [if_pos e] at ht'; exact absurd ht' hr
      · rw [if_neg e] at ht'
        obtain ⟨h1, h2⟩ := hi.rlock t' ht'
        refine ⟨h1, fun hac => ?_⟩
        have := h2 hac
        rw [hold] at this
        exact absurd (Option.some.inj this) (fun e' => h1 e'.symm)
  · have hlk : (s1.procRel b t).lock = s.lock := by
      simp only [St.procRel]; rw [if_neg h0]; exact hl
    exact hi.move cfg t p hpc' hlk hq' (fun hh => by
      by_cases e : t = 0
      · exact absurd e (hp hh)
      · exact hcs) hr

theorem mutexInv_step (hl : cfg.sendLocked = true) (s s' : St) (a : Act)
    (hi : MutexInv cfg s) (h : step cfg bytesOf s a = some s') : MutexInv cfg s' := by
  cases a with
  | lockSend t sid =>
    obtain ⟨⟨ht0, hq, hp, _, hlk⟩, rfl⟩ := step_lockSend h
    have hnone := hlk hl
    refine ⟨?_, ?_, ?_⟩
    · intro t' ht'
      rw [pc_setPc] at ht'
      by_cases e : t = t'
      · subst e; exact ⟨fun hq' => by simp [hq] at hq', fun _ => ⟨ht0, rfl⟩⟩
      · rw [if_neg e] at ht'
        have := ((hi.cs t' ht').2 hq).2
        simp [hnone] at this
    · exact hi.noq
    · intro t' ht'
      rw [pc_setPc] at ht'
      by_cases e : t = t'
      · rw [if_pos e] at ht'; cases ht'
      · rw [if_neg e] at ht'
        obtain ⟨h1, h2⟩ := hi.rlock t' ht'
        refine ⟨h1, fun hac => ?_⟩
        have := h2 hac
        rw [hnone] at this; cases this
  | connectOk t =>
    obtain ⟨_, _, rfl⟩ := step_connectOk h
    exact hi.same cfg rfl rfl rfl
  | connectFail t =>
    obtain ⟨sid, hp, _, rfl⟩ := step_connectFail h
    exact hi.move cfg t _ (fun t' => pc_setPc _ _ _ _) rfl rfl (fun _ => by simp [hp, inCS]) (by simp)
  | writeBegin t =>
    obtain ⟨sid, w, hp, _, _, _, rfl⟩ := step_writeBegin h
    exact hi.move cfg t _ (fun t' => pc_setPc _ _ _ _) rfl rfl (fun _ => by simp [hp, inCS]) (by simp)
  | writeSticky t =>
    obtain ⟨sid, w, hp, _, _, _, rfl⟩ := step_writeSticky h
    exact hi.move cfg t _ (fun t' => pc_setPc _ _ _ _) rfl rfl (fun _ => by simp [hp, inCS]) (by simp)
  | writeChunk t n =>
    obtain ⟨sid, w, rest, hp, _, _, rfl⟩ := step_writeChunk h
    exact hi.move cfg t _ (fun t' => pc_setPc _ _ _ _) rfl rfl (fun _ => by simp [hp, inCS]) (by simp)
  | writeEnd t =>
    obtain ⟨sid, w, hp, rfl⟩ := step_writeEnd h
    exact hi.move cfg t _ (fun t' => pc_setPc _ _ _ _) rfl rfl (fun _ => by simp [hp, inCS]) (by simp)
  | autoFlush t k =>
    obtain ⟨sid, w, rest, hp, _, rfl⟩ := step_autoFlush h
    exact hi.same cfg rfl rfl rfl
  | autoFlushErr t k =>
    obtain ⟨sid, w, rest, hp, _, rfl⟩ := step_autoFlushErr h
    exact hi.move cfg t _ (fun t' => pc_setPc _ _ _ _) rfl rfl (fun _ => by simp [hp, inCS]) (by simp)
  | flushOk t =>
    obtain ⟨sid, w0, w, hp, _, _, rfl⟩ := step_flushOk h
    refine hi.finished cfg t _ _ (fun t' => finish_pc _ _ _ _ _) (finish_lock _ _ _ _) (finish_queue _ _ _ _)
      (by simp [hp, inCS]) ?_ ?_ rfl
    · intro hh e; simp [e, inCS] at hh
    · split <;> simp
  | flushErr t k =>
    obtain ⟨sid, w0, w, hp, _, _, rfl⟩ := step_flushErr h
    refine hi.finished cfg t _ _ (fun t' => finish_pc _ _ _ _ _) (finish_lock _ _ _ _) (finish_queue _ _ _ _)
      (by simp [hp, inCS]) ?_ ?_ rfl
    · intro hh e; simp [e, inCS] at hh
    · split <;> simp
  | close t =>
    obtain ⟨sid, hp, rfl⟩ := step_close h
    exact hi.move cfg t _ (fun t' => pc_setPc _ _ _ _) rfl rfl (fun _ => by simp [hp, inCS]) (by split <;> simp)
  | flushAfterFail =>
    obtain ⟨sid, hp, rfl⟩ := step_flushAfterFail h
    exact hi.finished cfg 0 _ _ (fun t' => pc_setPc _ _ _ _) rfl rfl (by simp [hp, inCS])
      (fun hh => by simp [inCS] at hh) (by simp) rfl
  | unlock t =>
    obtain ⟨sid, ok, hp, ht0, rfl⟩ := step_unlock h
    have hin : inCS (s.pc t) = true := by simp [hp, inCS]
    have hdir : cfg.useQueue = false := by
      cases hu : cfg.useQueue with
      | false => rfl
      | true => exact absurd ((hi.cs t hin).1 hu).1 ht0
    have hlock : s.lock = some t := ((hi.cs t hin).2 hdir).2
    refine ⟨?_, ?_, ?_⟩
    · intro t' ht'
      rw [pc_setPc] at ht'
      by_cases e : t = t'
      · subst e; simp [inCS] at ht'
      · rw [if_neg e] at ht'
        have h1 := ((hi.cs t' ht').2 hdir).2
        exact absurd (Option.some.inj (hlock.symm.trans h1)) e
    · exact hi.noq
    · intro t' ht'
      rw [pc_setPc] at ht'
      by_cases e : t = t'
      · rw [if_pos e] at ht'; cases ht'
      · rw [if_neg e] at ht'
        obtain ⟨h1, h2⟩ := hi.rlock t' ht'
        refine ⟨h1, fun hac => ?_⟩
        have := h2 hac
        rw [hlock] at this
        exact absurd (Option.some.inj this) e
  | enqueue t sid =>
    obtain ⟨⟨_, hq, _, _, _⟩, rfl⟩ := step_enqueue h
    refine ⟨hi.cs, ?_, hi.rlock⟩
    intro hq'; simp [hq] at hq'
  | enqueueFail t sid =>
    obtain ⟨_, rfl⟩ := step_enqueueFail h
    exact hi.same cfg rfl rfl rfl
  | dequeue =>
    obtain ⟨sid, q, hp, hq, _, hlk, rfl⟩ := step_dequeue h
    have huq : cfg.useQueue = true := by
      cases hu : cfg.useQueue with
      | true => rfl
      | false => have := hi.noq hu; simp [hq] at this
    refine ⟨?_, ?_, ?_⟩
    · intro t' ht'
      rw [pc_setPc] at ht'
      by_cases e : 0 = t'
      · subst e
        refine ⟨fun _ => ⟨rfl, fun hpl => by simp [St.setPc, hpl]⟩, fun hq' => by simp [huq] at hq'⟩
      · rw [if_neg e] at ht'
        exact absurd ((hi.cs t' ht').1 huq).1.symm e
    · intro hq'; simp [huq] at hq'
    · intro t' ht'
      rw [pc_setPc] at ht'
      by_cases e : 0 = t'
      · rw [if_pos e] at ht'; cases ht'
      · rw [if_neg e] at ht'
        obtain ⟨h1, h2⟩ := hi.rlock t' ht'
        refine ⟨h1, fun hac => ?_⟩
        have h3 := h2 hac
        by_cases hpl : cfg.procLocked = true
        · rw [hlk hpl] at h3; cases h3
        · simp only [St.setPc]; rw [if_neg hpl]; exact h3
  | bgConnectOk =>
    obtain ⟨_, rfl⟩ := step_bgConnectOk h
    exact hi.same cfg rfl rfl rfl
  | bgConnectFail =>
    obtain ⟨_, rfl⟩ := step_bgConnectFail h
    exact hi
  | bgCheck =>
    obtain ⟨_, rfl⟩ := step_bgCheck h
    exact hi.move cfg 0 _ (fun t' => pc_setPc _ _ _ _) rfl rfl (fun hh => by simp [inCS] at hh) (by simp)
  | bgDialOk =>
    obtain ⟨_, rfl⟩ := step_bgDialOk h
    exact hi.move cfg 0 _ (fun t' => pc_setPc _ _ _ _) rfl rfl (fun hh => by simp [inCS] at hh) (by simp)
  | bgDialFail =>
    obtain ⟨_, rfl⟩ := step_bgDialFail h
    exact hi.move cfg 0 _ (fun t' => pc_setPc _ _ _ _) rfl rfl (fun hh => by simp [inCS] at hh) (by simp)
  | peerClose c n =>
    obtain ⟨_, rfl⟩ := step_peerClose h
    exact hi.same cfg rfl rfl rfl
  | setCapacity c =>
    rw [step_setCapacity h]
    exact hi.same cfg rfl rfl rfl
  | setTimeout n =>
    rw [step_setTimeout h]
    exact hi.same cfg rfl rfl rfl
  | tick d =>
    rw [step_tick h]
    exact hi.same cfg rfl rfl rfl
  | reconfClose t =>
    obtain ⟨⟨ht0, hp, hlk⟩, rfl⟩ := step_reconfClose h
    refine ⟨?_, hi.noq, ?_⟩
    · intro t' ht'
      rw [pc_setPc] at ht'
      by_cases e : t = t'
      · rw [if_pos e] at ht'; simp [inCS] at ht'
      · rw [if_neg e] at ht'
        obtain ⟨h1, h2⟩ := hi.cs t' ht'
        by_cases hac : cfg.acLocked = true
        · have hn := hlk hac
          refine ⟨fun hu => ⟨(h1 hu).1, fun hpl => ?_⟩, fun hu => ?_⟩
          · have := (h1 hu).2 hpl; rw [hn] at this; cases this
          · have := (h2 hu).2; rw [hn] at this; cases this
        · simp only [St.setPc]; rw [if_neg hac]; exact ⟨h1, h2⟩
    · intro t' ht'
      rw [pc_setPc] at ht'
      by_cases e : t = t'
      · subst e; exact ⟨ht0, fun hac => by simp [St.setPc, hac]⟩
      · rw [if_neg e] at ht'
        obtain ⟨h1, h2⟩ := hi.rlock t' ht'
        refine ⟨h1, fun hac => ?_⟩
        have := h2 hac
        rw [hlk hac] at this; cases this
  | reconfDialOk t =>
    obtain ⟨hp, rfl⟩ := step_reconfDialOk h
    obtain ⟨ht0, hlt⟩ := hi.rlock t hp
    refine ⟨?_, hi.noq, ?_⟩
    · intro t' ht'
      rw [pc_setPc] at ht'
      by_cases e : t = t'
      · rw [if_pos e] at ht'; simp [inCS] at ht'
      · rw [if_neg e] at ht'
        obtain ⟨h1, h2⟩ := hi.cs t' ht'
        by_cases hac : cfg.acLocked = true
        · have hn := hlt hac
          refine ⟨fun hu => ⟨(h1 hu).1, fun hpl => ?_⟩, fun hu => ?_⟩
          · have := (h1 hu).2 hpl; rw [hn] at this
            exact absurd (Option.some.inj this) ht0
          · have := (h2 hu).2; rw [hn] at this
            exact absurd (Option.some.inj this) e
        · simp only [St.setPc]; rw [if_neg hac]; exact ⟨h1, h2⟩
    · intro t' ht'
      rw [pc_setPc] at ht'
      by_cases e : t = t'
      · rw [if_pos e] at ht'; cases ht'
      · rw [if_neg e] at ht'
        obtain ⟨h1, h2⟩ := hi.rlock t' ht'
        refine ⟨h1, fun hac => ?_⟩
        have := h2 hac
        rw [hlt hac] at this
        exact absurd (Option.some.inj this) e
  | reconfDialFail t =>
    obtain ⟨hp, rfl⟩ := step_reconfDialFail h
    obtain ⟨ht0, hlt⟩ := hi.rlock t hp
    refine ⟨?_, hi.noq, ?_⟩
    · intro t' ht'
      rw [pc_setPc] at ht'
      by_cases e : t = t'
      · rw [if_pos e] at ht'; simp [inCS] at ht'
      · rw [if_neg e] at ht'
        obtain ⟨h1, h2⟩ := hi.cs t' ht'
        by_cases hac : cfg.acLocked = true
        · have hn := hlt hac
          refine ⟨fun hu => ⟨(h1 hu).1, fun hpl => ?_⟩, fun hu => ?_⟩
          · have := (h1 hu).2 hpl; rw [hn] at this
            exact absurd (Option.some.inj this) ht0
          · have := (h2 hu).2; rw [hn] at this
            exact absurd (Option.some.inj this) e
        · simp only [St.setPc]; rw [if_neg hac]; exact ⟨h1, h2⟩
    · intro t' ht'
      rw [pc_setPc] at ht'
      by_cases e : t = t'
      · rw [if_pos e] at ht'; cases ht'
      · rw [if_neg e] at ht'
        obtain ⟨h1, h2⟩ := hi.rlock t' ht'
        refine ⟨h1, fun hac => ?_⟩
        have := h2 hac
        rw [hlt hac] at this
        exact absurd (Option.some.inj this) e
  | extClose t =>
    obtain ⟨_, rfl⟩ := step_extClose h
    exact hi.same cfg rfl rfl rfl
  | swallow t =>
    obtain ⟨sid, w, hp, _, _, _, _, rfl⟩ := step_swallow h
    exact hi.move cfg t _ (fun t' => pc_setPc _ _ _ _) rfl rfl (fun _ => by simp [hp, inCS]) (by simp)

theorem mutex_unique {s : St} (hi : MutexInv cfg s) (t t' : Nat)
    (h1 : inCS (s.pc t) = true) (h2 : inCS (s.pc t') = true) : t = t' := by
  cases hq : cfg.useQueue with
  | true => rw [((hi.cs t h1).1 hq).1, ((hi.cs t' h2).1 hq).1]
  | false =>
    have a := ((hi.cs t h1).2 hq).2
    have b := ((hi.cs t' h2).2 hq).2
    exact Option.some.inj (a.symm.trans b)

/-! ### bytes: what a writer was given is exactly a sequence of whole frames -/

def isWriting : Pc → Bool
  | .writing _ _ _ => true
  | _ => false

/-- For every writer `w`: the bytes the kernel took, then the bytes still buffered, then the rest of
    the frame being copied, are exactly the frames handed to `w`, in order (`eq`).  `pend` is the
    remainder of the frame some thread is copying right now (`p1`), and is non-empty only while a
    thread is copying or after the writer failed (`p2`). -/
structure BytesInv (s : St) : Prop where
  eq : ∀ w, s.sent w ++ s.buf.get w ++ s.pend.get w = concatF bytesOf (s.log.get w)
  p1 : ∀ t sid w rest, s.pc t = .writing sid w rest → s.pend.get w = rest
  p2 : ∀ w, s.pend.get w ≠ [] → s.err.get w = true ∨ ∃ t sid, s.pc t = .writing sid w (s.pend.get w)

theorem bytesInv_init : BytesInv bytesOf init := by
  constructor
  · intro w; rfl
  · intro t sid w rest h; simp [init, St.pc, AMap.get] at h
  · intro w h; exact absurd rfl h

theorem push_sent_buf (s : St) (w k w' : Nat) :
    (s.push w k).sent w' ++ (s.push w k).buf.get w' = s.sent w' ++ s.buf.get w' := by
  simp only [St.push, St.sent, AMap.get_set]
  by_cases e : w = w'
  · subst e; simp
  · simp [e]

/-- a thread moves between program points without starting a copy; buffers may be flushed -/
theorem BytesInv.move {s s' : St} (hi : BytesInv bytesOf s) (t : Nat) (p : Pc)
    (hpc : ∀ t', s'.pc t' = if t = t' then p else s.pc t')
    (hsb : ∀ w, s'.sent w ++ s'.buf.get w = s.sent w ++ s.buf.get w)
    (hpend : s'.pend = s.pend) (hlog : s'.log = s.log)
    (herr : ∀ w, s.err.get w = true → s'.err.get w = true)
    (hp : isWriting p = false)
    (hold : ∀ sid w rest, s.pc t = .writing sid w rest → rest = [] ∨ s'.err.get w = true) :
    BytesInv bytesOf s' := by
  constructor
  · intro w; rw [hsb, hpend, hlog]; exact hi.eq w
  · intro t' sid w rest h
    rw [hpc] at h
    by_cases e : t = t'
    · rw [if_pos e] at h; rw [h] at hp; simp [isWriting] at hp
    · rw [if_neg e] at h; rw [hpend]; exact hi.p1 t' sid w rest h
  · intro w hw
    rw [hpend] at hw ⊢
    rcases hi.p2 w hw with he | ⟨t', sid, ht'⟩
    · exact Or.inl (herr w he)
    · by_cases e : t = t'
      · subst e
        rcases hold sid w _ ht' with h0 | h1
        · exact absurd h0 hw
        · exact Or.inl h1
      · exact Or.inr ⟨t', sid, by rw [hpc, if_neg e]; exact ht'⟩

/-- no thread moves; buffers may be flushed -/
theorem BytesInv.same {s s' : St} (hi : BytesInv bytesOf s)
    (hpc : s'.pcs = s.pcs)
    (hsb : ∀ w, s'.sent w ++ s'.buf.get w = s.sent w ++ s.buf.get w)
    (hpend : s'.pend = s.pend) (hlog : s'.log = s.log)
    (herr : ∀ w, s.err.get w = true → s'.err.get w = true) : BytesInv bytesOf s' := by
  constructor
  · intro w; rw [hsb, hpend, hlog]; exact hi.eq w
  · intro t' sid w rest h
    simp only [St.pc, hpc] at h
    rw [hpend]; exact hi.p1 t' sid w rest h
  · intro w hw
    rw [hpend] at hw ⊢
    rcases hi.p2 w hw with he | ⟨t', sid, ht'⟩
    · exact Or.inl (herr w he)
    · exact Or.inr ⟨t', sid, by simp only [St.pc, hpc]; exact ht'⟩

/-- releasing the lock does not touch anything this invariant reads -/
theorem BytesInv.procRel {s : St} (hi : BytesInv bytesOf s) (b : Bool) (t : Nat) :
    BytesInv bytesOf (s.procRel b t) := ⟨hi.eq, hi.p1, hi.p2⟩

theorem finish_sent_buf (s : St) (t sid : Nat) (ok : Bool) (w : Nat) :
    (s.finish t sid ok).sent w ++ (s.finish t sid ok).buf.get w = s.sent w ++ s.buf.get w := by
  unfold St.finish; cases ok <;> by_cases h0 : t = 0 <;> simp [h0, St.setPc, St.sent]

theorem finish_pend (s : St) (t sid : Nat) (ok : Bool) : (s.finish t sid ok).pend = s.pend := by
  unfold St.finish; cases ok <;> by_cases h0 : t = 0 <;> simp [h0, St.setPc]

theorem finish_log (s : St) (t sid : Nat) (ok : Bool) : (s.finish t sid ok).log = s.log := by
  unfold St.finish; cases ok <;> by_cases h0 : t = 0 <;> simp [h0, St.setPc]

theorem finish_err (s : St) (t sid : Nat) (ok : Bool) : (s.finish t sid ok).err = s.err := by
  unfold St.finish; cases ok <;> by_cases h0 : t = 0 <;> simp [h0, St.setPc]

theorem setErr_get (s : St) (w w' : Nat) : s.err.get w' = true → (s.setErr w).err.get w' = true := by
  intro h; simp only [St.setErr, AMap.get_set]; split <;> simp [h]

theorem bytesInv_step (s s' : St) (a : Act) (hm : MutexInv cfg s)
    (hi : BytesInv bytesOf s) (h : step cfg bytesOf s a = some s') : BytesInv bytesOf s' := by
  have nw : ∀ {t : Nat} {p : Pc}, s.pc t = p → isWriting p = false →
      ∀ sid w rest, s.pc t = .writing sid w rest → rest = [] ∨ s'.err.get w = true := by
    intro t p hp hnw sid w rest hw
    rw [hp] at hw; rw [hw] at hnw; simp [isWriting] at hnw
  cases a with
  | lockSend t sid =>
    obtain ⟨⟨_, _, hp, _, _⟩, rfl⟩ := step_lockSend h
    exact hi.move bytesOf t _ (fun t' => pc_setPc _ _ _ _) (fun _ => rfl) rfl rfl (fun _ h => h) rfl (nw hp rfl)
  | connectOk t =>
    obtain ⟨_, _, rfl⟩ := step_connectOk h
    exact hi.same bytesOf rfl (fun _ => rfl) rfl rfl (fun _ h => h)
  | connectFail t =>
    obtain ⟨sid, hp, _, rfl⟩ := step_connectFail h
    exact hi.move bytesOf t _ (fun t' => pc_setPc _ _ _ _) (fun _ => rfl) rfl rfl (fun _ h => h) rfl (nw hp rfl)
  | writeBegin t =>
    obtain ⟨sid, w, hp, hw, _, he, rfl⟩ := step_writeBegin h
    have hcs : inCS (s.pc t) = true := by simp [hp, inCS]
    have hpend0 : s.pend.get w = [] := by
      refine Classical.byContradiction (fun hne => ?_)
      rcases hi.p2 w hne with h1 | ⟨t', sid', ht'⟩
      · simp [he] at h1
      · have : t' = t := mutex_unique cfg hm t' t (by simp [ht', inCS]) hcs
        subst this; rw [hp] at ht'; cases ht'
    constructor
    · intro w'
      simp only [St.setPc, St.sent, AMap.get_set]
      by_cases e : w = w'
      · subst e
        have := hi.eq w
        simp only [St.sent, hpend0, List.append_nil] at this
        simp [concatF_append, concatF_singleton, this]
      · simp only [if_neg e]; exact hi.eq w'
    · intro t' sid' w' rest' h'
      rw [pc_setPc] at h'
      by_cases e : t = t'
      · rw [if_pos e] at h'; cases h'; simp [St.setPc]
      · rw [if_neg e] at h'
        have h'' : s.pc t' = .writing sid' w' rest' := h'
        have : t' = t := mutex_unique cfg hm t' t (by simp [h'', inCS]) hcs
        exact absurd this.symm e
    · intro w' hw'
      simp only [St.setPc, AMap.get_set] at hw' ⊢
      by_cases e : w = w'
      · subst e
        refine Or.inr ⟨t, sid, ?_⟩
        simp [St.pc]
      · simp only [if_neg e] at hw' ⊢
        rcases hi.p2 w' hw' with h1 | ⟨t', sid', ht'⟩
        · exact Or.inl h1
        · have : t' = t := mutex_unique cfg hm t' t (by simp [ht', inCS]) hcs
          subst this; rw [hp] at ht'; cases ht'
  | writeSticky t =>
    obtain ⟨sid, w, hp, _, _, _, rfl⟩ := step_writeSticky h
    exact hi.move bytesOf t _ (fun t' => pc_setPc _ _ _ _) (fun _ => rfl) rfl rfl (fun _ h => h) rfl (nw hp rfl)
  | writeChunk t n =>
    obtain ⟨sid, w, rest, hp, _, hn, rfl⟩ := step_writeChunk h
    have hcs : inCS (s.pc t) = true := by simp [hp, inCS]
    have hpend : s.pend.get w = rest := hi.p1 t sid w rest hp
    constructor
    · intro w'
      simp only [St.setPc, St.sent, AMap.get_set]
      by_cases e : w = w'
      · subst e
        have := hi.eq w
        simp only [St.sent, hpend] at this
        simp only []
        rw [← this]
        simp [List.append_assoc]
      · simp only [if_neg e]; exact hi.eq w'
    · intro t' sid' w' rest' h'
      rw [pc_setPc] at h'
      by_cases e : t = t'
      · rw [if_pos e] at h'; cases h'; simp [St.setPc]
      · rw [if_neg e] at h'
        have h'' : s.pc t' = .writing sid' w' rest' := h'
        have : t' = t := mutex_unique cfg hm t' t (by simp [h'', inCS]) hcs
        exact absurd this.symm e
    · intro w' hw'
      simp only [St.setPc, AMap.get_set] at hw' ⊢
      by_cases e : w = w'
      · subst e
        refine Or.inr ⟨t, sid, ?_⟩
        simp [St.pc]
      · simp only [if_neg e] at hw' ⊢
        rcases hi.p2 w' hw' with h1 | ⟨t', sid', ht'⟩
        · exact Or.inl h1
        · have : t' = t := mutex_unique cfg hm t' t (by simp [ht', inCS]) hcs
          subst this; rw [hp] at ht'; cases ht'; exact absurd rfl e
  | writeEnd t =>
    obtain ⟨sid, w, hp, rfl⟩ := step_writeEnd h
    refine hi.move bytesOf t _ (fun t' => pc_setPc _ _ _ _) (fun _ => rfl) rfl rfl (fun _ h => h) rfl ?_
    intro sid' w' rest' h'
    rw [hp] at h'; cases h'; exact Or.inl rfl
  | autoFlush t k =>
    obtain ⟨sid, w, rest, hp, _, rfl⟩ := step_autoFlush h
    exact hi.same bytesOf rfl (push_sent_buf s w k) rfl rfl (fun _ h => h)
  | autoFlushErr t k =>
    obtain ⟨sid, w, rest, hp, _, rfl⟩ := step_autoFlushErr h
    refine hi.move bytesOf t _ (fun t' => pc_setPc _ _ _ _) (push_sent_buf s w k) rfl rfl
      (fun w' h' => setErr_get (s.push w k) w w' h') rfl ?_
    intro sid' w' rest' h'
    rw [hp] at h'; cases h'
    exact Or.inr (by simp [St.setPc, St.setErr])
  | flushOk t =>
    obtain ⟨sid, w0, w, hp, _, _, rfl⟩ := step_flushOk h
    refine BytesInv.procRel bytesOf ?_ _ _
    refine hi.move bytesOf t _ (fun t' => finish_pc _ _ _ _ _)
      (fun w' => (finish_sent_buf _ _ _ _ _).trans (push_sent_buf s w _ w'))
      (finish_pend _ _ _ _) (finish_log _ _ _ _) (fun w' h' => by rw [finish_err]; exact h') ?_ ?_
    · split <;> rfl
    · intro sid' w' rest' h'; rw [hp] at h'; cases h'
  | flushErr t k =>
    obtain ⟨sid, w0, w, hp, _, _, rfl⟩ := step_flushErr h
    refine BytesInv.procRel bytesOf ?_ _ _
    refine hi.move bytesOf t _ (fun t' => finish_pc _ _ _ _ _)
      (fun w' => (finish_sent_buf _ _ _ _ _).trans (push_sent_buf s w _ w'))
      (finish_pend _ _ _ _) (finish_log _ _ _ _)
      (fun w' h' => by rw [finish_err]; exact setErr_get (s.push w k) w w' h') ?_ ?_
    · split <;> rfl
    · intro sid' w' rest' h'; rw [hp] at h'; cases h'
  | close t =>
    obtain ⟨sid, hp, rfl⟩ := step_close h
    refine hi.move bytesOf t _ (fun t' => pc_setPc _ _ _ _) (fun _ => rfl) rfl rfl (fun _ h => h) ?_ (nw hp rfl)
    split <;> rfl
  | flushAfterFail =>
    obtain ⟨sid, hp, rfl⟩ := step_flushAfterFail h
    refine BytesInv.procRel bytesOf ?_ _ _
    exact hi.move bytesOf 0 _ (fun t' => pc_setPc _ _ _ _) (fun _ => rfl) rfl rfl (fun _ h => h) rfl (nw hp rfl)
  | unlock t =>
    obtain ⟨sid, ok, hp, _, rfl⟩ := step_unlock h
    exact hi.move bytesOf t _ (fun t' => pc_setPc _ _ _ _) (fun _ => rfl) rfl rfl (fun _ h => h) rfl (nw hp rfl)
  | enqueue t sid =>
    obtain ⟨_, rfl⟩ := step_enqueue h
    exact hi.same bytesOf rfl (fun _ => rfl) rfl rfl (fun _ h => h)
  | enqueueFail t sid =>
    obtain ⟨_, rfl⟩ := step_enqueueFail h
    exact hi.same bytesOf rfl (fun _ => rfl) rfl rfl (fun _ h => h)
  | dequeue =>
    obtain ⟨sid, q, hp, _, _, _, rfl⟩ := step_dequeue h
    exact hi.move bytesOf 0 _ (fun t' => pc_setPc _ _ _ _) (fun _ => rfl) rfl rfl (fun _ h => h) rfl (nw hp rfl)
  | bgConnectOk =>
    obtain ⟨_, rfl⟩ := step_bgConnectOk h
    exact hi.same bytesOf rfl (fun _ => rfl) rfl rfl (fun _ h => h)
  | bgConnectFail =>
    obtain ⟨_, rfl⟩ := step_bgConnectFail h
    exact hi
  | bgCheck =>
    obtain ⟨⟨_, hp, _⟩, rfl⟩ := step_bgCheck h
    exact hi.move bytesOf 0 _ (fun t' => pc_setPc _ _ _ _) (fun _ => rfl) rfl rfl (fun _ h => h) rfl (nw hp rfl)
  | bgDialOk =>
    obtain ⟨hp, rfl⟩ := step_bgDialOk h
    exact hi.move bytesOf 0 _ (fun t' => pc_setPc _ _ _ _) (fun _ => rfl) rfl rfl (fun _ h => h) rfl (nw hp rfl)
  | bgDialFail =>
    obtain ⟨hp, rfl⟩ := step_bgDialFail h
    exact hi.move bytesOf 0 _ (fun t' => pc_setPc _ _ _ _) (fun _ => rfl) rfl rfl (fun _ h => h) rfl (nw hp rfl)
  | peerClose c n =>
    obtain ⟨_, rfl⟩ := step_peerClose h
    exact hi.same bytesOf rfl (fun _ => rfl) rfl rfl (fun _ h => h)
  | setCapacity c =>
    rw [step_setCapacity h]
    exact hi.same bytesOf rfl (fun _ => rfl) rfl rfl (fun _ h => h)
  | setTimeout n =>
    rw [step_setTimeout h]
    exact hi.same bytesOf rfl (fun _ => rfl) rfl rfl (fun _ h => h)
  | tick d =>
    rw [step_tick h]
    exact hi.same bytesOf rfl (fun _ => rfl) rfl rfl (fun _ h => h)
  | reconfClose t =>
    obtain ⟨⟨_, hp, _⟩, rfl⟩ := step_reconfClose h
    exact hi.move bytesOf t _ (fun t' => pc_setPc _ _ _ _) (fun _ => rfl) rfl rfl (fun _ h => h) rfl (nw hp rfl)
  | reconfDialOk t =>
    obtain ⟨hp, rfl⟩ := step_reconfDialOk h
    exact hi.move bytesOf t _ (fun t' => pc_setPc _ _ _ _) (fun _ => rfl) rfl rfl (fun _ h => h) rfl (nw hp rfl)
  | reconfDialFail t =>
    obtain ⟨hp, rfl⟩ := step_reconfDialFail h
    exact hi.move bytesOf t _ (fun t' => pc_setPc _ _ _ _) (fun _ => rfl) rfl rfl (fun _ h => h) rfl (nw hp rfl)
  | extClose t =>
    obtain ⟨_, rfl⟩ := step_extClose h
    exact hi.same bytesOf rfl (fun _ => rfl) rfl rfl (fun _ h => h)
  | swallow t =>
    obtain ⟨sid, w, hp, _, _, _, _, rfl⟩ := step_swallow h
    exact hi.move bytesOf t _ (fun t' => pc_setPc _ _ _ _) (fun _ => rfl) rfl rfl (fun _ h => h) rfl (nw hp rfl)

end Tcp
