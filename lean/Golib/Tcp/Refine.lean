/-
  Golib.Tcp.Refine — the interpreted programs are admitted by the action machine.

  `directActs env …` (the model's program of one direct send, equal to the interpretation of the
  transcribed sendDirect — Golib.Tcp.Interp / Props/C06Gen) is a schedule of the machine whenever
  the environment it was computed for matches the state: for the successful send and for the send
  that meets a sticky error this is proved here for every reachable state (these are the two
  programs the recovery theorem runs); the others are replayed by the driver on every harness run.
-/
import Golib.Tcp.Interp
import Golib.Tcp.Recover

namespace Tcp

variable (cfg : Cfg) (bytesOf : Nat → Bytes)

theorem okSend_eq (t sid len : Nat) (dial : Bool) :
    okSend t sid len dial =
      directActs (Env.good dial) t sid len := by
  cases dial <;> rfl

theorem stickySend_eq (t sid len : Nat) :
    stickySend t sid =
      directActs Env.stuck t sid len := rfl

/-- the successful send is a schedule of the machine from every reachable state with the sender
    idle, the lock free and a clean writer (or no connection), and ends with the pack accepted and whole -/
theorem directActs_ok_admitted (hl : cfg.sendLocked = true) (hra : cfg.rearm = true) (hq : cfg.useQueue = false)
    (hne : ∀ sid, bytesOf sid ≠ []) (s : St) (hr : Reach cfg bytesOf s) (t : Nat) (ht : t ≠ 0) (hidle : s.pc t = .idle)
    (hlock : s.lock = none) (hclean : s.conn = none ∨ ∃ w, s.wr = some w ∧ s.err.get w = false) :
    ∃ dial s', run cfg bytesOf (directActs (Env.good dial) t s.nsid (bytesOf s.nsid).length) s = some s' ∧
      (s.nsid, true) ∈ s'.results := by
  obtain ⟨dial, s', h1, h2, _⟩ :=
    send_ok_of_clean cfg bytesOf hl hra hq hne s (good_reach cfg bytesOf hl hr) t ht hidle hlock hclean
  exact ⟨dial, s', by rw [← okSend_eq]; exact h1, h2⟩

/-- the send that meets the sticky error is a schedule of the machine; it closes the connection -/
theorem directActs_sticky_admitted (hq : cfg.useQueue = false) (s : St) (t w : Nat) (ht : t ≠ 0)
    (hidle : s.pc t = .idle) (hlock : s.lock = none) (hc : s.conn ≠ none) (hw : s.wr = some w)
    (he : s.err.get w = true) (len : Nat) :
    ∃ s', run cfg bytesOf (directActs Env.stuck t s.nsid len) s = some s' ∧ s'.conn = none ∧ s'.lock = none := by
  obtain ⟨s', h1, h2, h3, _, _⟩ := sticky_send cfg bytesOf hq s t w ht hidle hlock hc hw he
  exact ⟨s', by rw [← stickySend_eq t s.nsid len]; exact h1, h2, h3⟩

end Tcp
