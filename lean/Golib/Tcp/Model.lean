/-
  Golib.Tcp.Model — CodeModel of net/oneway.OneWayTcpClient as a machine of atomic actions.

  What the Go code does, step by step (OneWayTcpClient.go):

    sendDirect:  Lock(oneWayClientSendLock); dout := makeData(p, opts)
                 send(bytes):  if conn == nil { Connect() }           -- may fail
                               wr.Write(bytes)                          -- bufio: copy, auto-flush when full, sticky error
                 on error:     Close(); return err
                 Flush():      wr.Flush()                               -- flushes the *current* `wr`
                 on error:     return err (no Close)
                 Unlock
    SendFlush (queue mode):  Queue.Put(send)  → nil | "Enqueue Failed"
    process():   loop { Connect() if conn == nil;  x := Queue.GetTimeout();
                        makeData; send(bytes); on error Close();  Flush(); on error Close() }
    Connect():   if conn != nil return;  dial;  conn = c;  wr = bufio.NewWriter(c)
    Close():     conn.Close(); conn = nil          (wr is left in place)

  Threads: `0` is the process() goroutine, `1, 2, …` are senders.  Each has a program counter `Pc`;
  an action is one atomic step of one thread (or of the peer).  A schedule is any list of actions
  whose guards hold — `run` returns `none` as soon as a guard fails.

  `Cfg` carries the facts that tie A re-extracts from the source on every run:
    sendLocked  sendDirect holds the send lock from before makeData until after Flush
    bgLocked    process() calls Connect while holding the send lock        (false as found: D42)
    procLocked  process() holds the send lock while it sends and flushes an item   (false as found: D70)
    acLocked    ApplyConfig closes and re-dials while holding the send lock   (false as found: D70)
    rearm       send() arms the write deadline before every write (true in the code)
    recoverReports  send()'s recover() turns a swallowed panic into an error   (false as found: D71)

  The queue component is C11's sequential model of RequestQueue (`Golib.Queue.Seq`): `enqueue`,
  `enqueueFail`, `dequeue` and `setCapacity` are `Queue.step` on `(queue, qcap)` with the operations
  `put`, `getNoWait`, `setCapacity`; send ids start at 1 because the queue API uses 0 (nil) for
  "nothing".  Time is a counter `now` advanced by `tick`; a write needs `now ≤ deadline` of its writer.

  Frames are opaque: `bytesOf sid` is the frame of send `sid` (Golib.Tcp.Frame gives the layout).
  Connections and their buffered writers are numbered in the order they are created; writer `w`
  writes to connection `w`.

  (core Lean only — the driver links against this file.)
-/
import Golib.Basic
import Golib.Queue.Seq

namespace Tcp

/-! ### a small finite map with default (association list, updated in place) -/

def AMap (α : Type) := List (Nat × α)

instance {α : Type} [DecidableEq α] : DecidableEq (AMap α) := inferInstanceAs (DecidableEq (List (Nat × α)))

namespace AMap
variable {α : Type} [Inhabited α]

def empty : AMap α := []

def get : AMap α → Nat → α
  | [], _ => default
  | (k', v) :: r, k => if k' = k then v else get r k

def set : AMap α → Nat → α → AMap α
  | [], k, v => [(k, v)]
  | (k', v') :: r, k, v => if k' = k then (k, v) :: r else (k', v') :: set r k v

theorem get_set (m : AMap α) (k k' : Nat) (v : α) :
    (m.set k v).get k' = if k = k' then v else m.get k' := by
  induction m with
  | nil =>
    simp only [set, get]
  | cons p r ih =>
    obtain ⟨a, b⟩ := p
    by_cases h : a = k
    · by_cases h2 : k = k'
      · subst h; subst h2; simp [set, get]
      · subst h; simp [set, get, h2]
    · by_cases h2 : a = k'
      · have h3 : k ≠ k' := by intro e; exact h (h2.trans e.symm)
        subst h2; simp [set, get, h, h3]
      · simp [set, get, h, h2, ih]

@[simp] theorem get_set_self (m : AMap α) (k : Nat) (v : α) : (m.set k v).get k = v := by
  simp [get_set]

theorem get_set_ne (m : AMap α) (k k' : Nat) (v : α) (h : k ≠ k') : (m.set k v).get k' = m.get k' := by
  simp [get_set, h]

/-- a map all of whose stored values (and the default) are `v` returns `v` everywhere -/
def toList (m : AMap α) : List (Nat × α) := m

theorem get_eq_of_forall (m : AMap α) (v : α) (hd : (default : α) = v)
    (h : ∀ p : Nat × α, p ∈ m.toList → p.2 = v) (k : Nat) : m.get k = v := by
  induction m with
  | nil => exact hd
  | cons p r ih =>
    obtain ⟨a, b⟩ := p
    simp only [get]
    split
    · exact h (a, b) (by simp [toList])
    · exact ih (fun q hq => h q (by simp only [toList] at hq ⊢; exact List.mem_cons_of_mem _ hq))

@[simp] theorem get_empty (k : Nat) : (empty : AMap α).get k = default := rfl

end AMap

/-! ### configuration, program counters, state -/

structure Cfg where
  useQueue : Bool
  sendLocked : Bool
  bgLocked : Bool
  procLocked : Bool
  acLocked : Bool
  rearm : Bool
  recoverReports : Bool
  deriving DecidableEq, Repr

inductive Pc where
  /-- sender: between two sends;  process(): at the top of its loop -/
  | idle
  /-- frame of send `sid` built (makeData); `send()` is next -/
  | made (sid : Nat)
  /-- inside `wr.Write` on writer `w`; `rest` is still to be copied -/
  | writing (sid w : Nat) (rest : Bytes)
  /-- `send()` returned nil (frame went to writer `w`); `Flush()` is next -/
  | wrote (sid w : Nat)
  /-- `send()` returned an error; `Close()` is next -/
  | failed (sid : Nat)
  /-- process() only: closed after a failed send, still calls `Flush()` -/
  | afterFail (sid : Nat)
  /-- process() only, `bgLocked = false`: inside Connect, past the `conn != nil` test -/
  | bgDial
  /-- sender only: result known, `Unlock` is next -/
  | done (sid : Nat) (ok : Bool)
  /-- inside ApplyConfig, between its Close() and its Connect() -/
  | reconf
  deriving DecidableEq, Repr

instance : Inhabited Pc := ⟨.idle⟩

structure St where
  next : Nat := 0                      -- connections / writers created so far
  nsid : Nat := 1                      -- next send id (0 is the queue's "nothing")
  conn : Option Nat := none            -- this.conn
  wr : Option Nat := none              -- this.wr
  lock : Option Nat := none            -- holder of oneWayClientSendLock
  queue : List Nat := []               -- RequestQueue: items
  qcap : Int := 0                      -- RequestQueue: capacity (≤ 0: unbounded)
  pcs : AMap Pc := []
  sentRev : AMap Bytes := []           -- bytes the kernel took on connection c, newest first
  buf : AMap Bytes := []               -- bufio buffer of writer w
  err : AMap Bool := []                -- bufio sticky error of writer w
  log : AMap (List Nat) := []          -- ghost: sends whose frame was handed to writer w, in order
  pend : AMap Bytes := []              -- ghost: bytes of the frame in progress on writer w not yet copied
  cut : AMap (Option Nat) := []        -- peer closed connection c having received that many bytes
  handed : List Nat := []              -- ghost: acceptance order (lock order / enqueue order)
  results : List (Nat × Bool) := []    -- ghost: (sid, Send returned nil), newest first
  now : Nat := 0                       -- time
  timeout : Nat := 60000               -- this.Timeout
  deadline : AMap Nat := []            -- write deadline of connection c
  xclosed : Bool := false              -- the application called Close() since the current send began

def St.pc (s : St) (t : Nat) : Pc := s.pcs.get t
def St.setPc (s : St) (t : Nat) (p : Pc) : St := { s with pcs := s.pcs.set t p }
def St.sent (s : St) (c : Nat) : Bytes := (s.sentRev.get c).reverse
/-- what the peer has received on connection `c` -/
def St.delivered (s : St) (c : Nat) : Bytes :=
  match s.cut.get c with
  | some n => (s.sent c).take n
  | none => s.sent c

/-- the RequestQueue as C11 models it -/
def St.q (s : St) : Queue.Q := ⟨s.queue, s.qcap⟩

/-- the kernel takes the first `k` buffered bytes of writer `w` -/
def St.push (s : St) (w k : Nat) : St :=
  { s with sentRev := s.sentRev.set w (((s.buf.get w).take k).reverse ++ s.sentRev.get w),
           buf := s.buf.set w ((s.buf.get w).drop k) }

def St.setErr (s : St) (w : Nat) : St := { s with err := s.err.set w true }

/-- a fresh connection with its buffered writer becomes current (its deadline: one timeout from now) -/
def St.connectNew (s : St) : St :=
  { s with conn := some s.next, wr := some s.next, next := s.next + 1,
           deadline := s.deadline.set s.next (s.now + s.timeout) }

inductive Act where
  | lockSend (t sid : Nat)       -- Lock + makeData
  | connectOk (t : Nat)
  | connectFail (t : Nat)
  | writeBegin (t : Nat)         -- (deadline armed) wr.Write starts on the current writer
  | writeSticky (t : Nat)        -- wr.Write returns the writer's sticky error at once
  | writeChunk (t n : Nat)       -- n more bytes copied into the buffer
  | writeEnd (t : Nat)
  | autoFlush (t k : Nat)        -- buffer full inside Write: k bytes go out
  | autoFlushErr (t k : Nat)     -- … and the write fails after k bytes
  | flushOk (t : Nat)
  | flushErr (t k : Nat)         -- k bytes go out, then the error (reset, timeout, …)
  | close (t : Nat)
  | flushAfterFail               -- process(): Flush after a failed send (result ignored)
  | unlock (t : Nat)
  | enqueue (t sid : Nat)        -- Queue.Put accepted
  | enqueueFail (t sid : Nat)    -- Queue.Put refused: "Enqueue Failed"
  | dequeue                      -- GetTimeout returns the head (+ Lock if procLocked) + makeData
  | bgConnectOk                  -- process(): Connect at loop top (atomic: under the lock / sole owner)
  | bgConnectFail
  | bgCheck                      -- process(), bgLocked = false: `conn == nil` seen
  | bgDialOk                     -- … and later conn, wr assigned
  | bgDialFail
  | peerClose (c n : Nat)
  | setCapacity (c : Int)        -- Queue.SetCapacity (constructor option / ApplyConfig)
  | setTimeout (n : Nat)         -- this.Timeout = … (ApplyConfig)
  | reconfClose (t : Nat)        -- ApplyConfig, license/servers changed: (Lock if acLocked) Close()
  | reconfDialOk (t : Nat)       -- … Connect() succeeded (Unlock if acLocked)
  | reconfDialFail (t : Nat)
  | tick (d : Nat)               -- time passes
  | extClose (t : Nat)           -- the application calls the public Close() (no lock)
  | swallow (t : Nat)            -- send(): conn became nil under it; the nil dereference is recovered and `nil` returned
  deriving DecidableEq, Repr

/-- the result of a finished `send()+Flush()` of thread `t` -/
def St.finish (s : St) (t sid : Nat) (ok : Bool) : St :=
  if t = 0 then
    -- process(): errors are not reported; a failed Flush closes the connection
    if ok then s.setPc 0 .idle else { s with conn := none }.setPc 0 .idle
  else s.setPc t (.done sid ok)

/-- process() releases the send lock at the end of an item, if it took it -/
def St.procRel (s : St) (locked : Bool) (t : Nat) : St :=
  { s with lock := if t = 0 ∧ locked = true then none else s.lock }

variable (cfg : Cfg) (bytesOf : Nat → Bytes)

def step (s : St) : Act → Option St
  | .lockSend t sid =>
    if t ≠ 0 ∧ cfg.useQueue = false ∧ s.pc t = .idle ∧ sid = s.nsid ∧ (cfg.sendLocked = true → s.lock = none) then
      some ({ s with lock := some t, nsid := s.nsid + 1, handed := s.handed ++ [sid], xclosed := false }.setPc t (.made sid))
    else none
  | .connectOk t =>
    match s.pc t with
    | .made _ => if s.conn = none then some s.connectNew else none
    | _ => none
  | .connectFail t =>
    match s.pc t with
    | .made sid => if s.conn = none then some (s.setPc t (.failed sid)) else none
    | _ => none
  | .writeBegin t =>
    match s.pc t, s.wr with
    | .made sid, some w =>
      if s.conn ≠ none ∧ s.err.get w = false then
        some ({ s with log := s.log.set w (s.log.get w ++ [sid]), pend := s.pend.set w (bytesOf sid),
                       deadline := s.deadline.set w (if cfg.rearm = true then s.now + s.timeout else s.deadline.get w) }.setPc t
          (.writing sid w (bytesOf sid)))
      else none
    | _, _ => none
  | .writeSticky t =>
    match s.pc t, s.wr with
    | .made sid, some w =>
      if s.conn ≠ none ∧ s.err.get w = true then some (s.setPc t (.failed sid)) else none
    | _, _ => none
  | .writeChunk t n =>
    match s.pc t with
    | .writing sid w rest =>
      if 0 < n ∧ n ≤ rest.length then
        some ({ s with buf := s.buf.set w (s.buf.get w ++ rest.take n), pend := s.pend.set w (rest.drop n) }.setPc t
          (.writing sid w (rest.drop n)))
      else none
    | _ => none
  | .writeEnd t =>
    match s.pc t with
    | .writing sid w [] => some (s.setPc t (.wrote sid w))
    | _ => none
  | .autoFlush t k =>
    match s.pc t with
    | .writing _ w _ =>
      if k ≤ (s.buf.get w).length ∧ s.now ≤ s.deadline.get w ∧ s.err.get w = false then some (s.push w k) else none
    | _ => none
  | .autoFlushErr t k =>
    match s.pc t with
    | .writing sid w _ =>
      if k ≤ (s.buf.get w).length ∧ s.err.get w = false then some (((s.push w k).setErr w).setPc t (.failed sid)) else none
    | _ => none
  | .flushOk t =>
    match s.pc t, s.wr with
    | .wrote sid _, some w =>
      if s.err.get w = false ∧ s.now ≤ s.deadline.get w then
        some (((s.push w (s.buf.get w).length).finish t sid true).procRel cfg.procLocked t)
      else none
    | _, _ => none
  | .flushErr t k =>
    match s.pc t, s.wr with
    | .wrote sid _, some w =>
      if k ≤ (s.buf.get w).length ∧ (s.err.get w = true → k = 0) ∧ (s.err.get w = false → k < (s.buf.get w).length) then
        some ((((s.push w k).setErr w).finish t sid false).procRel cfg.procLocked t)
      else none
    | _, _ => none
  | .close t =>
    match s.pc t with
    | .failed sid =>
      some ({ s with conn := none }.setPc t (if t = 0 then .afterFail sid else .done sid false))
    | _ => none
  | .flushAfterFail =>
    match s.pc 0 with
    | .afterFail _ => some ((s.setPc 0 .idle).procRel cfg.procLocked 0)
    | _ => none
  | .unlock t =>
    match s.pc t with
    | .done sid ok =>
      if t ≠ 0 then some ({ s with lock := none, results := (sid, ok) :: s.results }.setPc t .idle) else none
    | _ => none
  | .enqueue t sid =>
    if t ≠ 0 ∧ cfg.useQueue = true ∧ s.pc t = .idle ∧ sid = s.nsid ∧
        (Queue.step s.q (.put sid)).2.1 = .bool true then
      some { s with queue := (Queue.step s.q (.put sid)).1.items, nsid := s.nsid + 1, handed := s.handed ++ [sid],
                    results := (sid, true) :: s.results }
    else none
  | .enqueueFail t sid =>
    if t ≠ 0 ∧ cfg.useQueue = true ∧ s.pc t = .idle ∧ sid = s.nsid ∧
        (Queue.step s.q (.put sid)).2.1 = .bool false then
      some { s with queue := (Queue.step s.q (.put sid)).1.items, nsid := s.nsid + 1,
                    results := (sid, false) :: s.results }
    else none
  | .dequeue =>
    match s.pc 0, (Queue.step s.q .getNoWait).2.1 with
    | .idle, .val sid =>
      if sid ≠ 0 ∧ (cfg.procLocked = true → s.lock = none) then
        some ({ s with queue := (Queue.step s.q .getNoWait).1.items,
                       lock := if cfg.procLocked = true then some 0 else s.lock, xclosed := false }.setPc 0 (.made sid))
      else none
    | _, _ => none
  | .bgConnectOk =>
    if cfg.bgLocked = true ∧ s.pc 0 = .idle ∧ s.lock = none ∧ s.conn = none then some s.connectNew else none
  | .bgConnectFail =>
    if cfg.bgLocked = true ∧ s.pc 0 = .idle ∧ s.lock = none ∧ s.conn = none then some s else none
  | .bgCheck =>
    if cfg.bgLocked = false ∧ s.pc 0 = .idle ∧ s.conn = none then some (s.setPc 0 .bgDial) else none
  | .bgDialOk =>
    if s.pc 0 = .bgDial then some (s.connectNew.setPc 0 .idle) else none
  | .bgDialFail =>
    if s.pc 0 = .bgDial then some (s.setPc 0 .idle) else none
  | .peerClose c n =>
    if s.cut.get c = none ∧ n ≤ (s.sentRev.get c).length then some { s with cut := s.cut.set c (some n) } else none
  | .setCapacity c => some { s with qcap := (Queue.step s.q (.setCapacity c)).1.cap }
  | .setTimeout n => some { s with timeout := n }
  | .reconfClose t =>
    if t ≠ 0 ∧ s.pc t = .idle ∧ (cfg.acLocked = true → s.lock = none) then
      some ({ s with conn := none, lock := if cfg.acLocked = true then some t else s.lock }.setPc t .reconf)
    else none
  | .reconfDialOk t =>
    if s.pc t = .reconf then
      some ({ s.connectNew with lock := if cfg.acLocked = true then none else s.lock }.setPc t .idle)
    else none
  | .reconfDialFail t =>
    if s.pc t = .reconf then
      some ({ s with lock := if cfg.acLocked = true then none else s.lock }.setPc t .idle)
    else none
  | .tick d => some { s with now := s.now + d }
  | .extClose t =>
    if t ≠ 0 ∧ s.pc t = .idle then some { s with conn := none, xclosed := true } else none
  | .swallow t =>
    match s.pc t, s.wr with
    | .made sid, some w =>
      if cfg.recoverReports = false ∧ s.xclosed = true ∧ s.conn = none then some (s.setPc t (.wrote sid w)) else none
    | _, _ => none

def run : List Act → St → Option St
  | [], s => some s
  | a :: as, s =>
    match step cfg bytesOf s a with
    | some s' => run as s'
    | none => none

def init : St := {}

/-- states the client can be in: reached from the initial state by some schedule -/
def Reach (s : St) : Prop := ∃ acts, run cfg bytesOf acts init = some s

theorem run_append (as bs : List Act) (s : St) :
    run cfg bytesOf (as ++ bs) s = (run cfg bytesOf as s).bind (run cfg bytesOf bs) := by
  induction as generalizing s with
  | nil => simp [run]
  | cons a as ih =>
    simp only [List.cons_append, run]
    cases step cfg bytesOf s a with
    | none => simp
    | some s' => simpa using ih s'

end Tcp
