/-
  Golib.Tcp.Histories — fault histories: write errors at arbitrary byte offsets, reconnects, cuts.

  The whole-frames / order / at-most-once theorems of Golib.Tcp.Theorems quantify over every
  schedule of atomic actions.  This file states what they mean for *histories of calls* whose
  faults sit at explicit byte offsets, and adds the frame conditions that make a fault final:

    * `step_dead`, `run_dead`   once a buffered writer carries its sticky error, the bytes its
                                connection carried, and the sends logged on it, never change again:
                                the truncated frame stays the last thing on that connection;
    * `one_connection`          a send's frame is handed to at most one connection (no re-send);
    * `delivered_once`          what the peers received, over all connections: per connection whole
                                frames then at most one truncated frame; the whole frames of all
                                connections together are strictly increasing in acceptance order —
                                no frame twice — and a subsequence of the accepted sends;
    * `write_fault_at`, `flush_fault_at`
                                the exact effect of a failed `send()` / `Flush()` whose error comes
                                after `k` more bytes reached the kernel, for every `k`;
    * `HEv`, `runHist`, `fault_histories`
                                histories of whole calls (ok / dial fault / write fault at k / flush
                                fault at k / peer cut at n) as a fold over `run`; every history the
                                model admits ends in a state with the properties above;
    * `fault_then_reconnect`    a write fault at byte `k`, then a send: the old connection carried
                                exactly `k` more bytes and is final, the new send's frame is whole on
                                a connection, the failed send's frame is on no other connection.
-/
import Golib.Tcp.Recover
import Golib.Tcp.Exec

namespace Tcp

variable (cfg : Cfg) (bytesOf : Nat → Bytes)

/-! ### a writer in error is final -/

theorem setErr_err_get (s : St) (w w' : Nat) (h : s.err.get w' = true) : (s.setErr w).err.get w' = true := by
  simp only [St.setErr, AMap.get_set]
  split
  · rfl
  · exact h

theorem push_sent_self (s : St) (w k : Nat) : (s.push w k).sent w = s.sent w ++ (s.buf.get w).take k := by
  simp [St.push, St.sent]

theorem push_sent_ne (s : St) (w k w' : Nat) (h : w ≠ w') : (s.push w k).sent w' = s.sent w' := by
  simp [St.push, St.sent, AMap.get_set, h]

theorem push_sentRev_ne (s : St) (w k w' : Nat) (h : w ≠ w') : (s.push w k).sentRev.get w' = s.sentRev.get w' := by
  simp [St.push, AMap.get_set, h]

/-- One action, a writer `w` whose sticky error is set: the error stays, the bytes connection `w`
    carried stay, the sends logged on `w` stay. -/
theorem step_dead {s s' : St} {a : Act} (h : step cfg bytesOf s a = some s') (w : Nat) (hd : s.err.get w = true) :
    s'.err.get w = true ∧ s'.sentRev.get w = s.sentRev.get w ∧ s'.log.get w = s.log.get w := by
  cases a with
  | lockSend t sid => obtain ⟨_, rfl⟩ := step_lockSend h; exact ⟨hd, rfl, rfl⟩
  | connectOk t => obtain ⟨_, _, rfl⟩ := step_connectOk h; exact ⟨hd, rfl, rfl⟩
  | connectFail t => obtain ⟨_, _, _, rfl⟩ := step_connectFail h; exact ⟨hd, rfl, rfl⟩
  | writeBegin t =>
    obtain ⟨sid, w0, _, _, _, he, rfl⟩ := step_writeBegin h
    have hne : w0 ≠ w := by intro e; rw [e, hd] at he; cases he
    refine ⟨hd, rfl, ?_⟩
    show (s.log.set w0 (s.log.get w0 ++ [sid])).get w = s.log.get w
    rw [AMap.get_set_ne _ _ _ _ hne]
  | writeSticky t => obtain ⟨_, _, _, _, _, _, rfl⟩ := step_writeSticky h; exact ⟨hd, rfl, rfl⟩
  | writeChunk t n => obtain ⟨_, _, _, _, _, _, rfl⟩ := step_writeChunk h; exact ⟨hd, rfl, rfl⟩
  | writeEnd t => obtain ⟨_, _, _, rfl⟩ := step_writeEnd h; exact ⟨hd, rfl, rfl⟩
  | autoFlush t k =>
    obtain ⟨w0, he, rfl⟩ := step_autoFlush_clean h
    have hne : w0 ≠ w := by intro e; rw [e, hd] at he; cases he
    exact ⟨hd, push_sentRev_ne s w0 k w hne, rfl⟩
  | autoFlushErr t k =>
    obtain ⟨sid, w0, he, rfl⟩ := step_autoFlushErr_clean h
    have hne : w0 ≠ w := by intro e; rw [e, hd] at he; cases he
    exact ⟨setErr_err_get (s.push w0 k) w0 w hd, push_sentRev_ne s w0 k w hne, rfl⟩
  | flushOk t =>
    obtain ⟨sid, _, w0, _, _, he, rfl⟩ := step_flushOk h
    have hne : w0 ≠ w := by intro e; rw [e, hd] at he; cases he
    refine ⟨?_, ?_, ?_⟩
    · show ((s.push w0 (s.buf.get w0).length).finish t sid true).err.get w = true
      rw [finish_err]; exact hd
    · have := finish_sent (s.push w0 (s.buf.get w0).length) t sid true w
      show ((s.push w0 (s.buf.get w0).length).finish t sid true).sentRev.get w = _
      have e2 : ((s.push w0 (s.buf.get w0).length).finish t sid true).sentRev = (s.push w0 (s.buf.get w0).length).sentRev := by
        unfold St.finish; by_cases h0 : t = 0 <;> simp [h0, St.setPc]
      rw [e2]; exact push_sentRev_ne s w0 _ w hne
    · show ((s.push w0 (s.buf.get w0).length).finish t sid true).log.get w = _
      rw [finish_log]; rfl
  | flushErr t k =>
    obtain ⟨sid, w0, hk, rfl⟩ := step_flushErr_sticky h
    have e2 : ∀ s1 : St, (s1.finish t sid false).sentRev = s1.sentRev := by
      intro s1; unfold St.finish; by_cases h0 : t = 0 <;> simp [h0, St.setPc]
    refine ⟨?_, ?_, ?_⟩
    · show (((s.push w0 k).setErr w0).finish t sid false).err.get w = true
      rw [finish_err]; exact setErr_err_get (s.push w0 k) w0 w hd
    · show (((s.push w0 k).setErr w0).finish t sid false).sentRev.get w = _
      rw [e2]
      show (s.push w0 k).sentRev.get w = _
      by_cases e : w0 = w
      · have hk0 : k = 0 := hk (by rw [e]; exact hd)
        subst hk0; subst e
        simp [St.push]
      · exact push_sentRev_ne s w0 k w e
    · show (((s.push w0 k).setErr w0).finish t sid false).log.get w = _
      rw [finish_log]; rfl
  | close t => obtain ⟨_, _, rfl⟩ := step_close h; exact ⟨hd, rfl, rfl⟩
  | flushAfterFail => obtain ⟨_, _, rfl⟩ := step_flushAfterFail h; exact ⟨hd, rfl, rfl⟩
  | unlock t => obtain ⟨_, _, _, _, rfl⟩ := step_unlock h; exact ⟨hd, rfl, rfl⟩
  | enqueue t sid => obtain ⟨_, rfl⟩ := step_enqueue h; exact ⟨hd, rfl, rfl⟩
  | enqueueFail t sid => obtain ⟨_, rfl⟩ := step_enqueueFail h; exact ⟨hd, rfl, rfl⟩
  | dequeue => obtain ⟨_, _, _, _, _, _, rfl⟩ := step_dequeue h; exact ⟨hd, rfl, rfl⟩
  | bgConnectOk => obtain ⟨_, rfl⟩ := step_bgConnectOk h; exact ⟨hd, rfl, rfl⟩
  | bgConnectFail => obtain ⟨_, rfl⟩ := step_bgConnectFail h; exact ⟨hd, rfl, rfl⟩
  | bgCheck => obtain ⟨_, rfl⟩ := step_bgCheck h; exact ⟨hd, rfl, rfl⟩
  | bgDialOk => obtain ⟨_, rfl⟩ := step_bgDialOk h; exact ⟨hd, rfl, rfl⟩
  | bgDialFail => obtain ⟨_, rfl⟩ := step_bgDialFail h; exact ⟨hd, rfl, rfl⟩
  | peerClose c n => obtain ⟨_, rfl⟩ := step_peerClose h; exact ⟨hd, rfl, rfl⟩
  | setCapacity c => rw [step_setCapacity h]; exact ⟨hd, rfl, rfl⟩
  | setTimeout n => rw [step_setTimeout h]; exact ⟨hd, rfl, rfl⟩
  | tick d => rw [step_tick h]; exact ⟨hd, rfl, rfl⟩
  | reconfClose t => obtain ⟨_, rfl⟩ := step_reconfClose h; exact ⟨hd, rfl, rfl⟩
  | reconfDialOk t => obtain ⟨_, rfl⟩ := step_reconfDialOk h; exact ⟨hd, rfl, rfl⟩
  | reconfDialFail t => obtain ⟨_, rfl⟩ := step_reconfDialFail h; exact ⟨hd, rfl, rfl⟩
  | extClose t => obtain ⟨_, rfl⟩ := step_extClose h; exact ⟨hd, rfl, rfl⟩
  | swallow t => obtain ⟨_, _, _, _, _, _, _, rfl⟩ := step_swallow h; exact ⟨hd, rfl, rfl⟩

/-- … along any schedule, whatever it contains -/
theorem run_dead (acts : List Act) (s s' : St) (h : run cfg bytesOf acts s = some s') (w : Nat)
    (hd : s.err.get w = true) : s'.err.get w = true ∧ s'.sent w = s.sent w ∧ s'.log.get w = s.log.get w := by
  induction acts generalizing s with
  | nil => simp only [run] at h; cases h; exact ⟨hd, rfl, rfl⟩
  | cons a as ih =>
    simp only [run] at h
    cases hs : step cfg bytesOf s a with
    | none => rw [hs] at h; cases h
    | some s1 =>
      rw [hs] at h
      obtain ⟨h1, h2, h3⟩ := step_dead cfg bytesOf hs w hd
      obtain ⟨h4, h5, h6⟩ := ih s1 h h1
      refine ⟨h4, ?_, h6.trans h3⟩
      rw [h5]; simp only [St.sent, h2]

theorem reach_run {s s' : St} (hr : Reach cfg bytesOf s) (acts : List Act) (h : run cfg bytesOf acts s = some s') :
    Reach cfg bytesOf s' := by
  obtain ⟨pre, hp⟩ := hr
  exact ⟨pre ++ acts, by rw [run_append, hp]; exact h⟩

/-! ### at most once, over all connections -/

/-- a send's frame is handed to at most one connection: the client never re-sends -/
theorem one_connection {s : St} (ho : OrderInv s) (c c' sid : Nat) (h1 : sid ∈ s.log.get c) (h2 : sid ∈ s.log.get c') :
    c = c' := by
  have hlt : ∀ d, sid ∈ s.log.get d → d < s.next := by
    intro d hd
    by_cases hlt : d < s.next
    · exact hlt
    · rw [ho.freshLog d (by omega)] at hd; cases hd
  have hp := (List.pairwise_flatMap.mp ho.logSorted).2
  have key : ∀ a b, a < b → b < s.next → sid ∈ s.log.get a → sid ∈ s.log.get b → False := by
    intro a b hab hb ha' hb'
    have hrange : (List.range s.next).Pairwise (· < ·) := List.pairwise_lt_range
    have : ∀ (l : List Nat), l.Pairwise (· < ·) →
        l.Pairwise (fun a₁ a₂ => ∀ x ∈ s.log.get a₁, ∀ y ∈ s.log.get a₂, x < y) → a ∈ l → b ∈ l → False := by
      intro l
      induction l with
      | nil => intro _ _ h; cases h
      | cons x r ih =>
        intro hs hp ha hb
        rw [List.pairwise_cons] at hs hp
        rcases List.mem_cons.mp ha with rfl | ha
        · rcases List.mem_cons.mp hb with e | hb
          · omega
          · exact Nat.lt_irrefl _ (hp.1 b hb sid ha' sid hb')
        · rcases List.mem_cons.mp hb with e | hb
          · have := hs.1 a ha; omega
          · exact ih hs.2 hp.2 ha hb
    exact this _ hrange hp (List.mem_range.mpr (by omega)) (List.mem_range.mpr hb)
  rcases Nat.lt_trichotomy c c' with h | h | h
  · exact (key c c' h (hlt c' h2) h1 h2).elim
  · exact h
  · exact (key c' c h (hlt c h1) h2 h1).elim

theorem flatMap_sublist {α β : Type} (l : List α) (f g : α → List β) (h : ∀ a, (f a).Sublist (g a)) :
    (l.flatMap f).Sublist (l.flatMap g) := by
  induction l with
  | nil => exact List.Sublist.refl _
  | cons a r ih => simp only [List.flatMap_cons]; exact List.Sublist.append (h a) ih

/-- the frames that arrived whole, all connections together, connection after connection -/
def wholeFrames (s : St) (k : Nat → Nat) : List Nat :=
  (List.range s.next).flatMap (fun c => (s.log.get c).take (k c))

/-- **Delivered at most once, in order, whole.**  There is a count `k c` per connection such that
    what the peer of `c` received is exactly the first `k c` frames handed to `c`, followed by
    nothing or by a strict prefix of the next one; the whole frames of all connections together
    are strictly increasing in acceptance order (so none occurs twice, on the same or on two
    connections) and form a subsequence of the accepted sends. -/
theorem delivered_once {s : St} (hc : Core cfg bytesOf s) :
    ∃ k : Nat → Nat,
      (∀ c, ∃ tail, s.delivered c = concatF bytesOf ((s.log.get c).take (k c)) ++ tail ∧
          (tail = [] ∨ ∃ sid, (s.log.get c)[k c]? = some sid ∧ tail <+: bytesOf sid ∧ tail ≠ bytesOf sid)) ∧
      (wholeFrames s k).Pairwise (· < ·) ∧ (wholeFrames s k).Sublist s.handed := by
  have hw : ∀ c, WholeThenTail bytesOf (s.log.get c) (s.delivered c) := fun c =>
    prefix_frames bytesOf _ _ ((delivered_prefix_sent s c).trans (sent_prefix_of_core cfg bytesOf hc c))
  refine ⟨fun c => Classical.choose (hw c), fun c => Classical.choose_spec (hw c), ?_, ?_⟩
  · exact List.Pairwise.sublist (flatMap_sublist _ _ _ (fun c => List.take_sublist _ _)) hc.order.logSorted
  · exact List.Sublist.trans (flatMap_sublist _ _ _ (fun c => List.take_sublist _ _))
      (sublist_of_sorted _ _ hc.order.logSorted hc.order.handedSorted hc.order.logHanded)

/-! ### the exact effect of a fault at byte offset `k` -/

theorem connectFail_ok {s : St} {t sid : Nat} (hp : s.pc t = .made sid) (hc : s.conn = none) :
    step cfg bytesOf s (.connectFail t) = some (s.setPc t (.failed sid)) := by
  simp only [step, hp]
  rw [if_pos hc]

theorem autoFlushErr_ok {s : St} {t sid w k : Nat} {rest : Bytes} (hp : s.pc t = .writing sid w rest)
    (hk : k ≤ (s.buf.get w).length) (he : s.err.get w = false) :
    step cfg bytesOf s (.autoFlushErr t k) = some (((s.push w k).setErr w).setPc t (.failed sid)) := by
  simp only [step, hp]
  rw [if_pos ⟨hk, he⟩]

theorem flushErr_ok {s : St} {t sid w0 w k : Nat} (hp : s.pc t = .wrote sid w0) (hw : s.wr = some w)
    (hk : k < (s.buf.get w).length) (he : s.err.get w = false) :
    step cfg bytesOf s (.flushErr t k) = some ((((s.push w k).setErr w).finish t sid false).procRel cfg.procLocked t) := by
  simp only [step, hp, hw]
  have hg : k ≤ (s.buf.get w).length ∧ (s.err.get w = true → k = 0) ∧ (s.err.get w = false → k < (s.buf.get w).length) :=
    ⟨Nat.le_of_lt hk, (fun h => by rw [he] at h; cases h), (fun _ => hk)⟩
  rw [if_pos hg]

/-- actions of a `send()` whose `wr.Write` fails after `k` more bytes reached the kernel -/
def writeFaultTail (t len k : Nat) : List Act :=
  [.writeBegin t, .writeChunk t len, .autoFlushErr t k, .close t, .unlock t]

/-- actions of a `send()` that succeeds followed by a `Flush()` that fails after `k` bytes -/
def flushFaultTail (t len k : Nat) : List Act :=
  [.writeBegin t, .writeChunk t len, .writeEnd t, .flushErr t k, .unlock t]

/-- **A write error at any byte offset.**  Sender `t` is about to write the frame of `sid` to the
    clean current writer `w`; the write fails after `k` bytes (of what the buffer held plus the
    frame), for any `k` up to everything.  Then connection `w` carried exactly those `k` bytes more,
    `w` is in error, the client has closed the connection, the send is reported as failed, the
    lock is free; no other connection changed. -/
theorem write_fault_at {s : St} {t sid w k : Nat} (ht : t ≠ 0) (hp : s.pc t = .made sid) (hw : s.wr = some w)
    (hc : s.conn ≠ none) (he : s.err.get w = false) (hne : bytesOf sid ≠ [])
    (hk : k ≤ (s.buf.get w ++ bytesOf sid).length) :
    ∃ s', run cfg bytesOf (writeFaultTail t (bytesOf sid).length k) s = some s' ∧
      s'.sent w = s.sent w ++ (s.buf.get w ++ bytesOf sid).take k ∧ s'.err.get w = true ∧ s'.conn = none ∧
      s'.results = (sid, false) :: s.results ∧ s'.log.get w = s.log.get w ++ [sid] ∧ s'.lock = none ∧
      s'.pc t = .idle ∧ s'.nsid = s.nsid ∧ (∀ w', w ≠ w' → s'.sent w' = s.sent w') := by
  have hlen : 0 < (bytesOf sid).length := by
    cases hb : bytesOf sid with
    | nil => exact absurd hb hne
    | cons _ _ => simp
  let s1 : St := { s with log := s.log.set w (s.log.get w ++ [sid]), pend := s.pend.set w (bytesOf sid), deadline := s.deadline.set w (if cfg.rearm = true then s.now + s.timeout else s.deadline.get w) }.setPc t
    (.writing sid w (bytesOf sid))
  have e1 : step cfg bytesOf s (.writeBegin t) = some s1 := writeBegin_ok cfg bytesOf hp hw hc he
  have p1 : s1.pc t = .writing sid w (bytesOf sid) := by simp [s1]
  let s2 : St := { s1 with buf := s1.buf.set w (s1.buf.get w ++ (bytesOf sid).take (bytesOf sid).length),
                           pend := s1.pend.set w ((bytesOf sid).drop (bytesOf sid).length) }.setPc t
    (.writing sid w ((bytesOf sid).drop (bytesOf sid).length))
  have e2 : step cfg bytesOf s1 (.writeChunk t (bytesOf sid).length) = some s2 :=
    writeChunk_ok cfg bytesOf p1 hlen (Nat.le_refl _)
  have p2 : s2.pc t = .writing sid w ((bytesOf sid).drop (bytesOf sid).length) := by simp [s2]
  have b2 : s2.buf.get w = s.buf.get w ++ bytesOf sid := by
    show (s.buf.set w (s.buf.get w ++ (bytesOf sid).take (bytesOf sid).length)).get w = _
    rw [AMap.get_set_self, List.take_length]
  have er2 : s2.err.get w = false := he
  let s3 : St := ((s2.push w k).setErr w).setPc t (.failed sid)
  have e3 : step cfg bytesOf s2 (.autoFlushErr t k) = some s3 :=
    autoFlushErr_ok cfg bytesOf p2 (by rw [b2]; exact hk) er2
  have p3 : s3.pc t = .failed sid := by simp [s3]
  let s4 : St := { s3 with conn := none }.setPc t (if t = 0 then .afterFail sid else .done sid false)
  have e4 : step cfg bytesOf s3 (.close t) = some s4 := close_ok cfg bytesOf p3
  have p4 : s4.pc t = .done sid false := by simp [s4, ht]
  let s5 : St := { s4 with lock := none, results := (sid, false) :: s4.results }.setPc t .idle
  have e5 : step cfg bytesOf s4 (.unlock t) = some s5 := unlock_ok cfg bytesOf p4 ht
  refine ⟨s5, ?_, ?_, ?_, rfl, rfl, ?_, rfl, by simp [s5], ?n, ?_⟩
  case n => simp only [s5, s4, s3, s2, s1, St.setPc, St.setErr, St.push]
  · simp only [writeFaultTail]
    rw [run_cons_of_step cfg bytesOf _ e1, run_cons_of_step cfg bytesOf _ e2, run_cons_of_step cfg bytesOf _ e3,
      run_cons_of_step cfg bytesOf _ e4, run_cons_of_step cfg bytesOf _ e5]
    rfl
  · show (s2.push w k).sent w = _
    rw [push_sent_self, b2]; rfl
  · show ((s2.push w k).err.set w true).get w = true
    rw [AMap.get_set_self]
  · show (s.log.set w (s.log.get w ++ [sid])).get w = _
    rw [AMap.get_set_self]
  · intro w' hne'
    show (s2.push w k).sent w' = _
    rw [push_sent_ne s2 w k w' hne']; rfl

/-- **A flush error at any byte offset.**  The frame of `sid` is copied whole into the clean current
    writer `w`, then `Flush()` fails after `k` bytes, for any `k` short of everything.  Connection `w`
    carried exactly those `k` bytes more and is in error; the send is reported as failed. -/
theorem flush_fault_at {s : St} {t sid w k : Nat} (ht : t ≠ 0) (hp : s.pc t = .made sid) (hw : s.wr = some w)
    (hc : s.conn ≠ none) (he : s.err.get w = false) (hne : bytesOf sid ≠ [])
    (hk : k < (s.buf.get w ++ bytesOf sid).length) :
    ∃ s', run cfg bytesOf (flushFaultTail t (bytesOf sid).length k) s = some s' ∧
      s'.sent w = s.sent w ++ (s.buf.get w ++ bytesOf sid).take k ∧ s'.err.get w = true ∧
      s'.results = (sid, false) :: s.results ∧ s'.log.get w = s.log.get w ++ [sid] ∧ s'.lock = none ∧
      s'.pc t = .idle ∧ s'.nsid = s.nsid ∧ (∀ w', w ≠ w' → s'.sent w' = s.sent w') := by
  have hlen : 0 < (bytesOf sid).length := by
    cases hb : bytesOf sid with
    | nil => exact absurd hb hne
    | cons _ _ => simp
  let s1 : St := { s with log := s.log.set w (s.log.get w ++ [sid]), pend := s.pend.set w (bytesOf sid), deadline := s.deadline.set w (if cfg.rearm = true then s.now + s.timeout else s.deadline.get w) }.setPc t
    (.writing sid w (bytesOf sid))
  have e1 : step cfg bytesOf s (.writeBegin t) = some s1 := writeBegin_ok cfg bytesOf hp hw hc he
  have p1 : s1.pc t = .writing sid w (bytesOf sid) := by simp [s1]
  let s2 : St := { s1 with buf := s1.buf.set w (s1.buf.get w ++ (bytesOf sid).take (bytesOf sid).length),
                           pend := s1.pend.set w ((bytesOf sid).drop (bytesOf sid).length) }.setPc t
    (.writing sid w ((bytesOf sid).drop (bytesOf sid).length))
  have e2 : step cfg bytesOf s1 (.writeChunk t (bytesOf sid).length) = some s2 :=
    writeChunk_ok cfg bytesOf p1 hlen (Nat.le_refl _)
  have p2 : s2.pc t = .writing sid w [] := by simp [s2]
  have b2 : s2.buf.get w = s.buf.get w ++ bytesOf sid := by
    show (s.buf.set w (s.buf.get w ++ (bytesOf sid).take (bytesOf sid).length)).get w = _
    rw [AMap.get_set_self, List.take_length]
  let s3 : St := s2.setPc t (.wrote sid w)
  have e3 : step cfg bytesOf s2 (.writeEnd t) = some s3 := writeEnd_ok cfg bytesOf p2
  have p3 : s3.pc t = .wrote sid w := by simp [s3]
  have w3 : s3.wr = some w := hw
  have er3 : s3.err.get w = false := he
  have b3 : s3.buf.get w = s.buf.get w ++ bytesOf sid := b2
  let s4 : St := (((s3.push w k).setErr w).finish t sid false).procRel cfg.procLocked t
  have e4 : step cfg bytesOf s3 (.flushErr t k) = some s4 :=
    flushErr_ok cfg bytesOf p3 w3 (by rw [b3]; exact hk) er3
  have p4 : s4.pc t = .done sid false := by
    show (((s3.push w k).setErr w).finish t sid false).pc t = _
    rw [finish_pc, if_pos rfl, if_neg ht]
  let s5 : St := { s4 with lock := none, results := (sid, false) :: s4.results }.setPc t .idle
  have e5 : step cfg bytesOf s4 (.unlock t) = some s5 := unlock_ok cfg bytesOf p4 ht
  refine ⟨s5, ?_, ?_, ?_, ?_, ?_, rfl, by simp [s5], ?_, ?_⟩
  · simp only [flushFaultTail]
    rw [run_cons_of_step cfg bytesOf _ e1, run_cons_of_step cfg bytesOf _ e2, run_cons_of_step cfg bytesOf _ e3,
      run_cons_of_step cfg bytesOf _ e4, run_cons_of_step cfg bytesOf _ e5]
    rfl
  · show (((s3.push w k).setErr w).finish t sid false).sent w = _
    rw [finish_sent]
    show (s3.push w k).sent w = _
    rw [push_sent_self, b3]; rfl
  · show (((s3.push w k).setErr w).finish t sid false).err.get w = true
    rw [finish_err]
    show ((s3.push w k).err.set w true).get w = true
    rw [AMap.get_set_self]
  · show (sid, false) :: (((s3.push w k).setErr w).finish t sid false).results = _
    rw [finish_results]; rfl
  · show (((s3.push w k).setErr w).finish t sid false).log.get w = _
    rw [finish_log]
    show (s.log.set w (s.log.get w ++ [sid])).get w = _
    rw [AMap.get_set_self]
  · show (((s3.push w k).setErr w).finish t sid false).nsid = _
    rw [finish_nsid]; rfl
  · intro w' hne'
    show (((s3.push w k).setErr w).finish t sid false).sent w' = _
    rw [finish_sent]
    show (s3.push w k).sent w' = _
    rw [push_sent_ne s3 w k w' hne']; rfl

/-! ### histories of whole calls with explicit fault points -/

/-- one call of the direct-mode client, or one move of the peer; faults carry their byte offset -/
inductive HEv where
  | ok (t : Nat)                 -- sendDirect returns nil (dials first if there is no connection)
  | dialFault (t : Nat)          -- no connection and the dial fails
  | writeFault (t k : Nat)       -- wr.Write fails after k more bytes went out (or meets the sticky error)
  | flushFault (t k : Nat)       -- Flush fails after k bytes went out
  | cut (c n : Nat)              -- the peer closes connection c having received n bytes
  | close (t : Nat)              -- the application calls Close()
  | idle (d : Nat)               -- time passes
  deriving Repr

/-- the schedule of atomic actions of one history event (the dial is implied by the state) -/
def hexpand (s : St) : HEv → List Act
  | .ok t => okSend t s.nsid (bytesOf s.nsid).length (s.conn = none)
  | .dialFault t => [.lockSend t s.nsid, .connectFail t, .close t, .unlock t]
  | .writeFault t k =>
    if s.conn ≠ none ∧ writerErr s then stickySend t s.nsid
    else [.lockSend t s.nsid] ++ (if s.conn = none then [Act.connectOk t] else []) ++
         writeFaultTail t (bytesOf s.nsid).length k
  | .flushFault t k =>
    [.lockSend t s.nsid] ++ (if s.conn = none then [Act.connectOk t] else []) ++
      flushFaultTail t (bytesOf s.nsid).length k
  | .cut c n => [.peerClose c n]
  | .close t => [.extClose t]
  | .idle d => [.tick d]

/-- a history is run event by event; `none` as soon as the model refuses an event -/
def runHist : List HEv → St → Option St
  | [], s => some s
  | e :: es, s => (run cfg bytesOf (hexpand bytesOf s e) s).bind (runHist es)

theorem runHist_reach (es : List HEv) (s s' : St) (hr : Reach cfg bytesOf s)
    (h : runHist cfg bytesOf es s = some s') : Reach cfg bytesOf s' := by
  induction es generalizing s with
  | nil => simp only [runHist] at h; cases h; exact hr
  | cons e es ih =>
    simp only [runHist] at h
    cases h1 : run cfg bytesOf (hexpand bytesOf s e) s with
    | none => rw [h1] at h; cases h
    | some s1 => rw [h1] at h; exact ih s1 (reach_run cfg bytesOf hr _ h1) h

/-- **Fault histories.**  Any history of sends, dial faults, write and flush faults at arbitrary
    byte offsets, peer cuts at arbitrary byte counts, application Close() calls and idle periods:
    every connection's received bytes are whole frames, then at most one truncated frame; over all
    connections no frame arrives twice, frames arrive in acceptance order and were all accepted. -/
theorem fault_histories (hl : cfg.sendLocked = true) (es : List HEv) (s : St)
    (h : runHist cfg bytesOf es init = some s) :
    ∃ k : Nat → Nat,
      (∀ c, ∃ tail, s.delivered c = concatF bytesOf ((s.log.get c).take (k c)) ++ tail ∧
          (tail = [] ∨ ∃ sid, (s.log.get c)[k c]? = some sid ∧ tail <+: bytesOf sid ∧ tail ≠ bytesOf sid)) ∧
      (wholeFrames s k).Pairwise (· < ·) ∧ (wholeFrames s k).Sublist s.handed :=
  delivered_once cfg bytesOf (core_reach cfg bytesOf hl (runHist_reach cfg bytesOf es init s ⟨[], rfl⟩ h))

/-- **Write fault at byte `k`, then reconnect.**  From any reachable state with sender `t` idle, the
    lock free and a connection up on a clean writer `w`: a send whose write fails after `k` bytes
    — any `k` — followed by another send.  The model admits it; the old connection carried exactly
    `k` bytes more and stays like that whatever happens later; the second send is accepted and its
    frame is whole on a connection; the failed send's frame was handed to connection `w` only. -/
theorem fault_then_reconnect (hl : cfg.sendLocked = true) (hra : cfg.rearm = true) (hq : cfg.useQueue = false)
    (hne : ∀ sid, bytesOf sid ≠ []) (s : St) (hr : Reach cfg bytesOf s) (t w : Nat) (ht : t ≠ 0)
    (hidle : s.pc t = .idle) (hlock : s.lock = none) (hc : s.conn ≠ none) (hw : s.wr = some w) (he : s.err.get w = false)
    (k : Nat) (hk : k ≤ (s.buf.get w ++ bytesOf s.nsid).length) :
    ∃ s1 s2, runHist cfg bytesOf [.writeFault t k] s = some s1 ∧ runHist cfg bytesOf [.ok t] s1 = some s2 ∧
      s1.sent w = s.sent w ++ (s.buf.get w ++ bytesOf s.nsid).take k ∧
      (s.nsid, false) ∈ s2.results ∧ (s.nsid + 1, true) ∈ s2.results ∧ (∃ w', Whole bytesOf s2 w' (s.nsid + 1)) ∧
      (∀ c, s.nsid ∈ s2.log.get c → c = w) ∧
      (∀ acts s3, run cfg bytesOf acts s1 = some s3 → s3.sent w = s1.sent w) := by
  have hwe : ¬ (s.conn ≠ none ∧ writerErr s = true) := by
    intro h; simp [writerErr, hw, he] at h
  let s0 : St := { s with lock := some t, nsid := s.nsid + 1, handed := s.handed ++ [s.nsid], xclosed := false }.setPc t (.made s.nsid)
  have e0 : step cfg bytesOf s (.lockSend t s.nsid) = some s0 := lockSend_ok cfg bytesOf ht hq hidle hlock
  have p0 : s0.pc t = .made s.nsid := by simp [s0]
  obtain ⟨s1, hrun1, hsent, herr, hconn, hres, hlog, hlk, hpc, hnsid, _⟩ :=
    write_fault_at cfg bytesOf (s := s0) (w := w) (k := k) ht p0 hw hc he (hne s.nsid) hk
  have hh1 : runHist cfg bytesOf [.writeFault t k] s = some s1 := by
    simp only [runHist, hexpand, if_neg hwe, if_neg hc, List.append_nil, List.singleton_append]
    rw [run_cons_of_step cfg bytesOf _ e0, hrun1]; rfl
  have hr1 : Reach cfg bytesOf s1 := runHist_reach cfg bytesOf _ s s1 hr hh1
  have hg1 := good_reach cfg bytesOf hl hr1
  obtain ⟨dial, s2, hrun2, hres2, hwhole⟩ :=
    send_ok_of_clean cfg bytesOf hl hra hq hne s1 hg1 t ht hpc hlk (Or.inl hconn)
  have hn1 : s1.nsid = s.nsid + 1 := hnsid
  have hdial : dial = true := by
    cases dial with
    | true => rfl
    | false =>
      -- without a dial the first action after the lock would be writeBegin with no connection
      exfalso
      simp only [okSend, List.cons_append, List.nil_append] at hrun2
      let s1' : St := { s1 with lock := some t, nsid := s1.nsid + 1, handed := s1.handed ++ [s1.nsid], xclosed := false }.setPc t (.made s1.nsid)
      have e1' : step cfg bytesOf s1 (.lockSend t s1.nsid) = some s1' := lockSend_ok cfg bytesOf ht hq hpc hlk
      rw [show (if false = true then [Act.connectOk t] else []) = [] from rfl] at hrun2
      simp only [List.nil_append] at hrun2
      rw [run_cons_of_step cfg bytesOf _ e1'] at hrun2
      simp only [run] at hrun2
      cases hs : step cfg bytesOf s1' (.writeBegin t) with
      | none => rw [hs] at hrun2; cases hrun2
      | some s1'' =>
        obtain ⟨_, _, _, _, hcn, _⟩ := step_writeBegin hs
        exact hcn hconn
  subst hdial
  have hh2 : runHist cfg bytesOf [.ok t] s1 = some s2 := by
    simp only [runHist, hexpand, hconn, decide_true]
    rw [hrun2]; rfl
  have hr2 : Reach cfg bytesOf s2 := runHist_reach cfg bytesOf _ s1 s2 hr1 hh2
  have hd2 := run_dead cfg bytesOf _ s1 s2 hrun2 w herr
  refine ⟨s1, s2, hh1, hh2, hsent, ?_, ?_, ?_, ?_, ?_⟩
  · -- results only grow
    have : ∀ acts (a b : St), run cfg bytesOf acts a = some b → ∀ x ∈ a.results, x ∈ b.results := by
      intro acts
      induction acts with
      | nil => intro a b h x hx; simp only [run] at h; cases h; exact hx
      | cons act as ih =>
        intro a b h x hx
        simp only [run] at h
        cases hs : step cfg bytesOf a act with
        | none => rw [hs] at h; cases h
        | some a1 =>
          rw [hs] at h
          refine ih a1 b h x ?_
          have hmono : ∃ ext, a1.results = ext ++ a.results := by
            cases act with
            | lockSend t sid => obtain ⟨_, rfl⟩ := step_lockSend hs; exact ⟨[], rfl⟩
            | connectOk t => obtain ⟨_, _, rfl⟩ := step_connectOk hs; exact ⟨[], rfl⟩
            | connectFail t => obtain ⟨_, _, _, rfl⟩ := step_connectFail hs; exact ⟨[], rfl⟩
            | writeBegin t => obtain ⟨_, _, _, _, _, _, rfl⟩ := step_writeBegin hs; exact ⟨[], rfl⟩
            | writeSticky t => obtain ⟨_, _, _, _, _, _, rfl⟩ := step_writeSticky hs; exact ⟨[], rfl⟩
            | writeChunk t n => obtain ⟨_, _, _, _, _, _, rfl⟩ := step_writeChunk hs; exact ⟨[], rfl⟩
            | writeEnd t => obtain ⟨_, _, _, rfl⟩ := step_writeEnd hs; exact ⟨[], rfl⟩
            | autoFlush t k => obtain ⟨_, _, _, _, _, rfl⟩ := step_autoFlush hs; exact ⟨[], rfl⟩
            | autoFlushErr t k => obtain ⟨_, _, _, _, _, rfl⟩ := step_autoFlushErr hs; exact ⟨[], rfl⟩
            | flushOk t =>
              obtain ⟨_, _, _, _, _, _, rfl⟩ := step_flushOk hs
              exact ⟨[], by show (St.finish _ _ _ _).results = _; rw [finish_results]; rfl⟩
            | flushErr t k =>
              obtain ⟨_, _, _, _, _, _, rfl⟩ := step_flushErr hs
              exact ⟨[], by show (St.finish _ _ _ _).results = _; rw [finish_results]; rfl⟩
            | close t => obtain ⟨_, _, rfl⟩ := step_close hs; exact ⟨[], rfl⟩
            | flushAfterFail => obtain ⟨_, _, rfl⟩ := step_flushAfterFail hs; exact ⟨[], rfl⟩
            | unlock t => obtain ⟨sid, ok, _, _, rfl⟩ := step_unlock hs; exact ⟨[(sid, ok)], rfl⟩
            | enqueue t sid => obtain ⟨_, rfl⟩ := step_enqueue hs; exact ⟨[(sid, true)], rfl⟩
            | enqueueFail t sid => obtain ⟨_, rfl⟩ := step_enqueueFail hs; exact ⟨[(sid, false)], rfl⟩
            | dequeue => obtain ⟨_, _, _, _, _, _, rfl⟩ := step_dequeue hs; exact ⟨[], rfl⟩
            | bgConnectOk => obtain ⟨_, rfl⟩ := step_bgConnectOk hs; exact ⟨[], rfl⟩
            | bgConnectFail => obtain ⟨_, rfl⟩ := step_bgConnectFail hs; exact ⟨[], rfl⟩
            | bgCheck => obtain ⟨_, rfl⟩ := step_bgCheck hs; exact ⟨[], rfl⟩
            | bgDialOk => obtain ⟨_, rfl⟩ := step_bgDialOk hs; exact ⟨[], rfl⟩
            | bgDialFail => obtain ⟨_, rfl⟩ := step_bgDialFail hs; exact ⟨[], rfl⟩
            | peerClose c n => obtain ⟨_, rfl⟩ := step_peerClose hs; exact ⟨[], rfl⟩
            | setCapacity c => rw [step_setCapacity hs]; exact ⟨[], rfl⟩
            | setTimeout n => rw [step_setTimeout hs]; exact ⟨[], rfl⟩
            | tick d => rw [step_tick hs]; exact ⟨[], rfl⟩
            | reconfClose t => obtain ⟨_, rfl⟩ := step_reconfClose hs; exact ⟨[], rfl⟩
            | reconfDialOk t => obtain ⟨_, rfl⟩ := step_reconfDialOk hs; exact ⟨[], rfl⟩
            | reconfDialFail t => obtain ⟨_, rfl⟩ := step_reconfDialFail hs; exact ⟨[], rfl⟩
            | extClose t => obtain ⟨_, rfl⟩ := step_extClose hs; exact ⟨[], rfl⟩
            | swallow t => obtain ⟨_, _, _, _, _, _, _, rfl⟩ := step_swallow hs; exact ⟨[], rfl⟩
          obtain ⟨ext, hext⟩ := hmono
          rw [hext]; exact List.mem_append_right _ hx
    exact this _ s1 s2 hrun2 _ (by rw [hres]; simp [s0])
  · rw [← hn1]; exact hres2
  · rw [← hn1]; exact hwhole
  · intro c hcin
    have ho2 := (core_reach cfg bytesOf hl hr2).order
    refine one_connection ho2 c w s.nsid hcin ?_
    rw [hd2.2.2, hlog]
    simp
  · intro acts s3 h3
    exact (run_dead cfg bytesOf acts s1 s3 h3 w herr).2.1

end Tcp
