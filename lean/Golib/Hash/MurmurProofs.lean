/-
  Golib.Hash.MurmurProofs — the transcribed murmur functions against the published algorithms.
-/
import Golib.Hash.Murmur

namespace Murmur
open Ref

/-! ### generic facts about the block walkers -/

theorem walk4_short (step) (t : Bytes) (h : Nat) (ht : t.length < 4) : walk4 step t h = (h, t) := by
  rcases t with _ | ⟨a, _ | ⟨b, _ | ⟨c, _ | ⟨d, r⟩⟩⟩⟩
  · rfl
  · rfl
  · rfl
  · rfl
  · simp at ht; omega

theorem walk4_cons (step) (d0 d1 d2 d3 h : Nat) (rest : Bytes) :
    walk4 step (d0 :: d1 :: d2 :: d3 :: rest) h = walk4 step rest (step h d0 d1 d2 d3) := by
  rw [walk4]

/-- two step functions that agree on bytes walk alike; `B` whole blocks followed by any short tails -/
theorem walk4_app (s1 s2 : Nat → Nat → Nat → Nat → Nat → Nat)
    (hs : ∀ h d0 d1 d2 d3, d0 < 256 → d1 < 256 → d2 < 256 → d3 < 256 → s1 h d0 d1 d2 d3 = s2 h d0 d1 d2 d3)
    (n : Nat) : ∀ (B t t' : Bytes) (h : Nat), B.length = 4 * n → t.length < 4 → t'.length < 4 → WFB B →
    walk4 s1 (B ++ t) h = ((walk4 s2 B h).1, t) ∧ walk4 s2 (B ++ t') h = ((walk4 s2 B h).1, t') := by
  induction n with
  | zero =>
    intro B t t' h hB ht ht' _
    have : B = [] := List.eq_nil_of_length_eq_zero (by omega)
    subst this
    simp only [List.nil_append, walk4_short _ t h ht, walk4_short _ t' h ht', walk4_short s2 [] h (by simp)]
    simp
  | succ n ih =>
    intro B t t' h hB ht ht' hw
    rcases B with _ | ⟨d0, _ | ⟨d1, _ | ⟨d2, _ | ⟨d3, rest⟩⟩⟩⟩
    · simp at hB
    · simp at hB; omega
    · simp at hB; omega
    · simp at hB; omega
    · have hB' : rest.length = 4 * n := by simp at hB; omega
      have ⟨h0, hw⟩ := WFB_cons.mp hw
      have ⟨h1, hw⟩ := WFB_cons.mp hw
      have ⟨h2, hw⟩ := WFB_cons.mp hw
      have ⟨h3, hw⟩ := WFB_cons.mp hw
      simp only [List.cons_append, walk4_cons, hs h d0 d1 d2 d3 h0 h1 h2 h3]
      exact ih rest t t' _ hB' ht ht' hw

theorem walk8_short (step) (t : Bytes) (h : Nat) (ht : t.length < 8) : walk8 step t h = (h, t) := by
  rcases t with _ | ⟨a, _ | ⟨b, _ | ⟨c, _ | ⟨d, _ | ⟨e, _ | ⟨f, _ | ⟨g, _ | ⟨i, r⟩⟩⟩⟩⟩⟩⟩⟩
  · rfl
  · rfl
  · rfl
  · rfl
  · rfl
  · rfl
  · rfl
  · rfl
  · simp at ht; omega

theorem walk8_cons (step) (d0 d1 d2 d3 d4 d5 d6 d7 h : Nat) (rest : Bytes) :
    walk8 step (d0 :: d1 :: d2 :: d3 :: d4 :: d5 :: d6 :: d7 :: rest) h
      = walk8 step rest (step h d0 d1 d2 d3 d4 d5 d6 d7) := by
  rw [walk8]

theorem walk8_congr (s1 s2 : Nat → Nat → Nat → Nat → Nat → Nat → Nat → Nat → Nat → Nat)
    (hs : ∀ h d0 d1 d2 d3 d4 d5 d6 d7, d0 < 256 → d1 < 256 → d2 < 256 → d3 < 256 → d4 < 256 → d5 < 256 →
      d6 < 256 → d7 < 256 → s1 h d0 d1 d2 d3 d4 d5 d6 d7 = s2 h d0 d1 d2 d3 d4 d5 d6 d7)
    (n : Nat) : ∀ (data : Bytes) (h : Nat), data.length < 8 * (n + 1) → WFB data →
    walk8 s1 data h = walk8 s2 data h ∧ WFB (walk8 s2 data h).2 := by
  induction n with
  | zero =>
    intro data h hl hw
    rw [walk8_short _ data h (by omega), walk8_short _ data h (by omega)]
    exact ⟨rfl, hw⟩
  | succ n ih =>
    intro data h hl hw
    by_cases hs8 : data.length < 8
    · rw [walk8_short _ data h hs8, walk8_short _ data h hs8]
      exact ⟨rfl, hw⟩
    · rcases data with _ | ⟨d0, _ | ⟨d1, _ | ⟨d2, _ | ⟨d3, _ | ⟨d4, _ | ⟨d5, _ | ⟨d6, _ | ⟨d7, rest⟩⟩⟩⟩⟩⟩⟩⟩
      all_goals try (simp at hs8; done)
      all_goals try (simp at hs8; omega)
      have ⟨h0, hw⟩ := WFB_cons.mp hw
      have ⟨h1, hw⟩ := WFB_cons.mp hw
      have ⟨h2, hw⟩ := WFB_cons.mp hw
      have ⟨h3, hw⟩ := WFB_cons.mp hw
      have ⟨h4, hw⟩ := WFB_cons.mp hw
      have ⟨h5, hw⟩ := WFB_cons.mp hw
      have ⟨h6, hw⟩ := WFB_cons.mp hw
      have ⟨h7, hw⟩ := WFB_cons.mp hw
      simp only [walk8_cons, hs h d0 d1 d2 d3 d4 d5 d6 d7 h0 h1 h2 h3 h4 h5 h6 h7]
      exact ih rest _ (by simp at hl; omega) hw

/-! ### bit operations on bytes are arithmetic -/

theorem and_ff (d : Nat) (h : d < 256) : d &&& 0xff = d := by
  have e : (0xff : Nat) = 2 ^ 8 - 1 := rfl
  rw [e, Nat.and_two_pow_sub_one_eq_mod]
  exact Nat.mod_eq_of_lt h

theorem or_low8 (a d : Nat) (h : d < 256) : (a * 256) ||| d = a * 256 + d := by
  have := Nat.shiftLeft_add_eq_or_of_lt (i := 8) (b := d) (by simpa using h) a
  rw [Nat.shiftLeft_eq] at this
  simpa using this.symm

theorem shl32_8 (a : Nat) : shl32 a 8 = (a * 256) % 4294967296 := by
  unfold shl32; rw [Nat.shiftLeft_eq]
theorem shl32_16 (a : Nat) : shl32 a 16 = (a * 65536) % 4294967296 := by
  unfold shl32; rw [Nat.shiftLeft_eq]

theorem shl_or (a d : Nat) (ha : a < 16777216) (hd : d < 256) : (a * 256) % 4294967296 ||| d = a * 256 + d := by
  have e : a * 256 % 4294967296 = a * 256 := by omega
  rw [e, or_low8 _ _ hd]

/-- the shift/or assembly of a block word is the little-endian load -/
theorem loadK_eq (d0 d1 d2 d3 : Nat) (h0 : d0 < 256) (h1 : d1 < 256) (h2 : d2 < 256) (h3 : d3 < 256) :
    loadK d0 d1 d2 d3 = le32 d0 d1 d2 d3 := by
  unfold loadK le32
  simp only [and_ff _ h0, and_ff _ h1, and_ff _ h2, shl32_8]
  rw [shl_or d3 d2 (by omega) h2, shl_or _ d1 (by omega) h1, shl_or _ d0 (by omega) h0]
  omega

theorem shr24 (k : Nat) : k >>> 24 = k / 16777216 := by rw [Nat.shiftRight_eq_div_pow]
theorem shr13 (k : Nat) : k >>> 13 = k / 8192 := by rw [Nat.shiftRight_eq_div_pow]
theorem shr15 (k : Nat) : k >>> 15 = k / 32768 := by rw [Nat.shiftRight_eq_div_pow]
theorem shr47 (k : Nat) : k >>> 47 = k / 140737488355328 := by rw [Nat.shiftRight_eq_div_pow]

theorem step32_eq (h d0 d1 d2 d3 : Nat) (h0 : d0 < 256) (h1 : d1 < 256) (h2 : d2 < 256) (h3 : d3 < 256) :
    step32 h d0 d1 d2 d3 = step2 h d0 d1 d2 d3 := by
  unfold step32 step2
  rw [loadK_eq _ _ _ _ h0 h1 h2 h3]
  simp only [mixK32, mul32, shr24]

theorem tail32_rev (t : Bytes) (h : Nat) (ht : t.length < 4) (hw : WFB t) : tail32 t h = tail2 t.reverse h := by
  rcases t with _ | ⟨x, _ | ⟨y, _ | ⟨z, _ | ⟨w, r⟩⟩⟩⟩
  · rfl
  · simp only [tail32, tail2, mul32, List.reverse_cons, List.reverse_nil, List.nil_append]
  · have ⟨hx, hw⟩ := WFB_cons.mp hw
    have e : x * 256 % 4294967296 = x * 256 := Nat.mod_eq_of_lt (by omega)
    simp only [tail32, tail2, mul32, shl32_8, e, List.reverse_cons, List.reverse_nil, List.nil_append,
      List.cons_append]
  · have ⟨hx, hw⟩ := WFB_cons.mp hw
    have ⟨hy, hw⟩ := WFB_cons.mp hw
    have e : x * 65536 % 4294967296 = x * 65536 := Nat.mod_eq_of_lt (by omega)
    have e' : y * 256 % 4294967296 = y * 256 := Nat.mod_eq_of_lt (by omega)
    simp only [tail32, tail2, mul32, shl32_8, shl32_16, e, e', List.reverse_cons, List.reverse_nil,
      List.nil_append, List.cons_append]
  · simp at ht; omega

theorem fin32_eq (h : Nat) :
    fin32 h = (((h ^^^ (h / 8192)) * m32) % 4294967296) ^^^ ((((h ^^^ (h / 8192)) * m32) % 4294967296) / 32768) := by
  simp only [fin32, mul32, shr13, shr15]

/-- what `MurmurHashByteSeed` computes, in terms of the published algorithm: MurmurHash2 of the input
    whose last `len % 4` bytes are reversed -/
theorem murmur32_blocks_tail (B t : Bytes) (seed n : Nat) (hB : B.length = 4 * n) (ht : t.length < 4)
    (hw : WFB (B ++ t)) : murmur32 (B ++ t) seed = murmurHash2 (B ++ t.reverse) seed := by
  have ⟨hwB, hwt⟩ := WFB_append.mp hw
  have ⟨e1, e2⟩ := walk4_app step32 step2 step32_eq n B t t.reverse (seed ^^^ ((B ++ t).length % 4294967296)) hB ht
    (by simpa using ht) hwB
  have hl : (B ++ t.reverse).length = (B ++ t).length := by simp
  simp only [murmur32, murmurHash2, blocks32, loop2, hl, e1, e2, tail32_rev t _ ht hwt, fin32_eq]

theorem split_blocks (data : Bytes) :
    data = data.take (data.length / 4 * 4) ++ data.drop (data.length / 4 * 4)
    ∧ (data.take (data.length / 4 * 4)).length = 4 * (data.length / 4)
    ∧ (data.drop (data.length / 4 * 4)).length = data.length % 4 := by
  refine ⟨(List.take_append_drop _ _).symm, ?_, ?_⟩
  · rw [List.length_take]; omega
  · rw [List.length_drop]; omega

theorem tail32_java (t : Bytes) (h : Nat) (ht : ∀ b ∈ t, b < 128) : tail32 t h = javaTail32 t h := by
  have sx : ∀ b ∈ t, sext8 b = b := fun b hb => by unfold sext8; simp [ht b hb]
  rcases t with _ | ⟨x, _ | ⟨y, _ | ⟨z, _ | ⟨w, r⟩⟩⟩⟩
  · rfl
  · simp only [tail32, javaTail32, mul32, sx x (by simp)]
  · simp only [tail32, javaTail32, mul32, shl32_8, sx x (by simp), sx y (by simp)]
  · simp only [tail32, javaTail32, mul32, shl32_8, shl32_16, sx x (by simp), sx y (by simp), sx z (by simp)]
  · simp only [tail32, javaTail32]

/-- on inputs whose left-over bytes are all below 0x80 the Go function coincides with the stream-lib Java
    port it was translated from (which sign-extends the tail bytes) -/
theorem murmur32_blocks_java (B t : Bytes) (seed n : Nat) (hB : B.length = 4 * n) (ht : t.length < 4)
    (hw : WFB (B ++ t)) (h7 : ∀ b ∈ t, b < 128) : murmur32 (B ++ t) seed = javaMurmur32 (B ++ t) seed := by
  have ⟨hwB, hwt⟩ := WFB_append.mp hw
  have ⟨e1, e2⟩ := walk4_app step32 step2 step32_eq n B t t (seed ^^^ ((B ++ t).length % 4294967296)) hB ht ht hwB
  simp only [murmur32, javaMurmur32, blocks32, loop2, e1, e2, tail32_java t _ h7, fin32_eq]

theorem murmur32_eq_java (data : Bytes) (seed : Nat) (hw : WFB data)
    (h7 : ∀ b ∈ data.drop (data.length / 4 * 4), b < 128) : murmur32 data seed = javaMurmur32 data seed := by
  have ⟨e, hB, ht⟩ := split_blocks data
  have := murmur32_blocks_java (data.take (data.length / 4 * 4)) (data.drop (data.length / 4 * 4)) seed _ hB
    (by omega) (by rw [← e]; exact hw) h7
  rw [← e] at this
  exact this

theorem murmur32_eq_ref_swapTail (data : Bytes) (seed : Nat) (hw : WFB data) :
    murmur32 data seed = murmurHash2 (swapTail data) seed := by
  have ⟨e, hB, ht⟩ := split_blocks data
  have := murmur32_blocks_tail (data.take (data.length / 4 * 4)) (data.drop (data.length / 4 * 4)) seed _ hB
    (by omega) (by rw [← e]; exact hw)
  rw [← e] at this
  exact this

/-- on inputs whose length is 0 or 1 modulo 4 the Go function *is* MurmurHash2 -/
theorem murmur32_eq_ref_of_short_tail (data : Bytes) (seed : Nat) (hw : WFB data) (hl : data.length % 4 ≤ 1) :
    murmur32 data seed = murmurHash2 data seed := by
  rw [murmur32_eq_ref_swapTail data seed hw]
  have ⟨e, _, ht⟩ := split_blocks data
  unfold swapTail
  have : (data.drop (data.length / 4 * 4)).reverse = data.drop (data.length / 4 * 4) := by
    generalize data.drop (data.length / 4 * 4) = t at ht
    rcases t with _ | ⟨a, _ | ⟨b, r⟩⟩
    · rfl
    · rfl
    · simp at ht; omega
  simp only [this]
  rw [← e]

/-! ### MurmurHashLong -/

theorem le32_low (d : Nat) : le32 (d % 256) (d / 256 % 256) (d / 65536 % 256) (d / 16777216 % 256) = d % 4294967296 := by
  unfold le32; omega

theorem le32_high (d : Nat) (hd : d < 18446744073709551616) :
    le32 (d / 4294967296 % 256) (d / 1099511627776 % 256) (d / 281474976710656 % 256) (d / 72057594037927936 % 256)
      = d / 4294967296 := by
  unfold le32; omega

theorem mulm_low (d : Nat) :
    (d * 1540483477) % 18446744073709551616 % 4294967296 = (d % 4294967296 * 1540483477) % 4294967296 := by omega

theorem mulm_high (d : Nat) :
    (d / 4294967296 * 1540483477) % 18446744073709551616 % 4294967296 = (d / 4294967296 * 1540483477) % 4294967296 := by
  omega

/-- `MurmurHashLong(d)` is MurmurHash2 of the eight little-endian bytes of `d` with seed 8
    (so that `seed ^ len = 0`, the `h = 0` of the Java `hashLong`) -/
theorem murmurLong_ref (d : Nat) (hd : d < 18446744073709551616) :
    murmurLong d = murmurHash2 (bytes8 d) 8 := by
  have e32 : d >>> 32 = d / 4294967296 := by rw [Nat.shiftRight_eq_div_pow]
  have em : m32 = 1540483477 := rfl
  have w : walk4 step2 (bytes8 d) 0 =
      (step2 (step2 0 (d % 256) (d / 256 % 256) (d / 65536 % 256) (d / 16777216 % 256))
        (d / 4294967296 % 256) (d / 1099511627776 % 256) (d / 281474976710656 % 256) (d / 72057594037927936 % 256), []) := by
    unfold bytes8
    rw [walk4_cons, walk4_cons, walk4_short _ [] _ (by simp)]
  have h0 : (8 : Nat) ^^^ (bytes8 d).length % 4294967296 = 0 := by
    have : (bytes8 d).length = 8 := rfl
    rw [this]; decide
  simp only [murmurHash2, loop2, h0, w, tail2, step2, le32_low, le32_high d hd]
  simp only [murmurLong, mul32, mul64, shr24, e32, fin32_eq, em, mulm_low]
  simp

/-! ### MurmurHash64A -/

theorem shl64_of_lt (a s : Nat) (h : a * 2 ^ s < 18446744073709551616) : shl64 a s = a * 2 ^ s := by
  unfold shl64; rw [Nat.shiftLeft_eq]; exact Nat.mod_eq_of_lt h

theorem shl64_byte (a s : Nat) (ha : a < 256) (hs : s ≤ 56) : shl64 a s = a * 2 ^ s := by
  apply shl64_of_lt
  have h1 : 2 ^ s ≤ 2 ^ 56 := Nat.pow_le_pow_right (by decide) hs
  have h2 : a * 2 ^ s ≤ 255 * 2 ^ 56 := Nat.mul_le_mul (by omega) h1
  have h3 : 255 * 2 ^ 56 < 18446744073709551616 := by decide
  omega

theorem loadK64_eq (d0 d1 d2 d3 d4 d5 d6 d7 : Nat) (h0 : d0 < 256) (h1 : d1 < 256) (h2 : d2 < 256)
    (h3 : d3 < 256) (h4 : d4 < 256) (h5 : d5 < 256) (h6 : d6 < 256) (h7 : d7 < 256) :
    loadK64 d0 d1 d2 d3 d4 d5 d6 d7 = le64 d0 d1 d2 d3 d4 d5 d6 d7 := by
  unfold loadK64 le64
  simp only [and_ff _ h0, and_ff _ h1, and_ff _ h2, and_ff _ h3, and_ff _ h4, and_ff _ h5, and_ff _ h6, and_ff _ h7]
  rw [shl64_byte d1 8 h1 (by decide), shl64_byte d2 16 h2 (by decide), shl64_byte d3 24 h3 (by decide),
      shl64_byte d4 32 h4 (by decide), shl64_byte d5 40 h5 (by decide), shl64_byte d6 48 h6 (by decide),
      shl64_byte d7 56 h7 (by decide)]
  simp only [Nat.reducePow]
  omega

theorem step64_eq (h d0 d1 d2 d3 d4 d5 d6 d7 : Nat) (h0 : d0 < 256) (h1 : d1 < 256) (h2 : d2 < 256)
    (h3 : d3 < 256) (h4 : d4 < 256) (h5 : d5 < 256) (h6 : d6 < 256) (h7 : d7 < 256) :
    step64 h d0 d1 d2 d3 d4 d5 d6 d7 = step64A h d0 d1 d2 d3 d4 d5 d6 d7 := by
  unfold step64 step64A
  rw [loadK64_eq _ _ _ _ _ _ _ _ h0 h1 h2 h3 h4 h5 h6 h7]
  simp only [mixK64, mul64, shr47]

theorem tail64_eq (t : Bytes) (h : Nat) (hw : WFB t) : tail64 t h = tail64A t h := by
  rcases t with _ | ⟨a, _ | ⟨b, _ | ⟨c, _ | ⟨d, _ | ⟨e, _ | ⟨f, _ | ⟨g, _ | ⟨i, r⟩⟩⟩⟩⟩⟩⟩⟩
  · rfl
  · have ⟨ha, hw⟩ := WFB_cons.mp hw
    simp only [tail64, tail64A, mul64, and_ff _ ha]
  · have ⟨ha, hw⟩ := WFB_cons.mp hw
    have ⟨hb, hw⟩ := WFB_cons.mp hw
    simp only [tail64, tail64A, mul64, and_ff _ ha, and_ff _ hb, shl64_byte b 8 hb (by decide), Nat.reducePow]
  · have ⟨ha, hw⟩ := WFB_cons.mp hw
    have ⟨hb, hw⟩ := WFB_cons.mp hw
    have ⟨hc, hw⟩ := WFB_cons.mp hw
    simp only [tail64, tail64A, mul64, and_ff _ ha, and_ff _ hb, and_ff _ hc, shl64_byte b 8 hb (by decide),
      shl64_byte c 16 hc (by decide), Nat.reducePow]
  · have ⟨ha, hw⟩ := WFB_cons.mp hw
    have ⟨hb, hw⟩ := WFB_cons.mp hw
    have ⟨hc, hw⟩ := WFB_cons.mp hw
    have ⟨hd, hw⟩ := WFB_cons.mp hw
    simp only [tail64, tail64A, mul64, and_ff _ ha, and_ff _ hb, and_ff _ hc, and_ff _ hd,
      shl64_byte b 8 hb (by decide), shl64_byte c 16 hc (by decide), shl64_byte d 24 hd (by decide), Nat.reducePow]
  · have ⟨ha, hw⟩ := WFB_cons.mp hw
    have ⟨hb, hw⟩ := WFB_cons.mp hw
    have ⟨hc, hw⟩ := WFB_cons.mp hw
    have ⟨hd, hw⟩ := WFB_cons.mp hw
    have ⟨he, hw⟩ := WFB_cons.mp hw
    simp only [tail64, tail64A, mul64, and_ff _ ha, and_ff _ hb, and_ff _ hc, and_ff _ hd, and_ff _ he,
      shl64_byte b 8 hb (by decide), shl64_byte c 16 hc (by decide), shl64_byte d 24 hd (by decide),
      shl64_byte e 32 he (by decide), Nat.reducePow]
  · have ⟨ha, hw⟩ := WFB_cons.mp hw
    have ⟨hb, hw⟩ := WFB_cons.mp hw
    have ⟨hc, hw⟩ := WFB_cons.mp hw
    have ⟨hd, hw⟩ := WFB_cons.mp hw
    have ⟨he, hw⟩ := WFB_cons.mp hw
    have ⟨hf, hw⟩ := WFB_cons.mp hw
    simp only [tail64, tail64A, mul64, and_ff _ ha, and_ff _ hb, and_ff _ hc, and_ff _ hd, and_ff _ he, and_ff _ hf,
      shl64_byte b 8 hb (by decide), shl64_byte c 16 hc (by decide), shl64_byte d 24 hd (by decide),
      shl64_byte e 32 he (by decide), shl64_byte f 40 hf (by decide), Nat.reducePow]
  · have ⟨ha, hw⟩ := WFB_cons.mp hw
    have ⟨hb, hw⟩ := WFB_cons.mp hw
    have ⟨hc, hw⟩ := WFB_cons.mp hw
    have ⟨hd, hw⟩ := WFB_cons.mp hw
    have ⟨he, hw⟩ := WFB_cons.mp hw
    have ⟨hf, hw⟩ := WFB_cons.mp hw
    have ⟨hg, hw⟩ := WFB_cons.mp hw
    simp only [tail64, tail64A, mul64, and_ff _ ha, and_ff _ hb, and_ff _ hc, and_ff _ hd, and_ff _ he, and_ff _ hf,
      and_ff _ hg, shl64_byte b 8 hb (by decide), shl64_byte c 16 hc (by decide), shl64_byte d 24 hd (by decide),
      shl64_byte e 32 he (by decide), shl64_byte f 40 hf (by decide), shl64_byte g 48 hg (by decide), Nat.reducePow]
  · simp only [tail64, tail64A]

/-- `murmurHashLong(data, len(data), seed)` is MurmurHash64A -/
theorem murmur64_eq_ref (data : Bytes) (seed : Nat) (hw : WFB data) :
    murmur64 data seed = murmurHash64A data seed := by
  have es : seed &&& 0xffffffff = seed % 4294967296 := by
    have e : (0xffffffff : Nat) = 2 ^ 32 - 1 := rfl
    rw [e, Nat.and_two_pow_sub_one_eq_mod]
  have el : (data.length % 18446744073709551616 * m64) % 18446744073709551616
      = (data.length * m64) % 18446744073709551616 := Nat.mod_mul_mod _ _ _
  have ⟨e1, e2⟩ := walk8_congr step64 step64A step64_eq data.length data
    ((seed % 4294967296) ^^^ ((data.length * m64) % 18446744073709551616)) (by omega) hw
  simp only [murmur64, murmurHash64A, blocks64, loop64A, mul64, es, el, e1]
  rw [tail64_eq _ _ e2]
  simp only [fin64, mul64, shr47]

end Murmur
