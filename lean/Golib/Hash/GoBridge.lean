/-
  Golib.Hash.GoBridge — bridge theorems: the transcribed Go code (`GoModel`), run by the semantics of
  `GoSem`, computes the arithmetic CodeModels, **for all inputs**.
  Part 1: bit-operation toolkit and util/bitutil.
-/
import Golib.Hash.GoSemProofs
import Golib.Hash.GoModel
import Golib.Hash.BitIp

set_option linter.unusedVariables false
set_option linter.unusedSimpArgs false

namespace GoBridge
open GoSem

def noArr : Arrays := fun _ => []

theorem retVal_some (v : Int) : retVal (some v) = v := rfl

/-! ### bit operations on patterns, as arithmetic -/

theorem and_mask (k x : Nat) : x &&& (2 ^ k - 1) = x % 2 ^ k := Nat.and_two_pow_sub_one_eq_mod x k

theorem or_disjoint (k a b : Nat) (ha : a % 2 ^ k = 0) (hb : b < 2 ^ k) : a ||| b = a + b := by
  have := Nat.shiftLeft_add_eq_or_of_lt (i := k) hb (a / 2 ^ k)
  rw [Nat.shiftLeft_eq] at this
  have e : a / 2 ^ k * 2 ^ k = a := by
    have := Nat.div_add_mod a (2 ^ k)
    rw [ha, Nat.add_zero, Nat.mul_comm] at this
    exact this
  rw [e] at this
  exact this.symm

/-- `x & (2^k - 1)` on a non-negative pattern -/
theorem land_low (k : Nat) (x : Int) (m : Nat) (hm : m = 2 ^ k - 1) (hx : 0 ≤ x) :
    ((x.toNat &&& m : Nat) : Int) = x % ((2 ^ k : Nat) : Int) := by
  subst hm
  rw [and_mask, Int.natCast_emod, Int.toNat_of_nonneg hx]

/-- `a | b` when the low `k` bits of `a` are clear and `b < 2^k` -/
theorem lor_disjoint (k : Nat) (x y : Int) (hx : 0 ≤ x) (hy : 0 ≤ y)
    (h1 : x % ((2 ^ k : Nat) : Int) = 0) (h2 : y < ((2 ^ k : Nat) : Int)) :
    ((x.toNat ||| y.toNat : Nat) : Int) = x + y := by
  have a1 : x.toNat % 2 ^ k = 0 := by
    have : ((x.toNat % 2 ^ k : Nat) : Int) = 0 := by rw [Int.natCast_emod, Int.toNat_of_nonneg hx]; exact h1
    exact_mod_cast this
  have a2 : y.toNat < 2 ^ k := by
    have : ((y.toNat : Nat) : Int) < ((2 ^ k : Nat) : Int) := by rw [Int.toNat_of_nonneg hy]; exact h2
    exact_mod_cast this
  rw [or_disjoint k _ _ a1 a2, Int.natCast_add, Int.toNat_of_nonneg hx, Int.toNat_of_nonneg hy]

/-- `x & 0xffffffff00000000` on a 64-bit pattern -/
theorem and_high32 (x : Nat) (hx : x < 2 ^ 64) : x &&& 18446744069414584320 = x - x % 4294967296 := by
  apply Nat.eq_of_testBit_eq
  intro i
  have em : (18446744069414584320 : Nat) = (2 ^ 32 - 1) * 2 ^ 32 := by decide
  have ex : x - x % 4294967296 = x / 2 ^ 32 * 2 ^ 32 := by
    have := Nat.div_add_mod x 4294967296
    have e : (4294967296 : Nat) = 2 ^ 32 := by decide
    rw [← e]; omega
  rw [Nat.testBit_and, em, ex, Nat.testBit_mul_two_pow, Nat.testBit_mul_two_pow, Nat.testBit_two_pow_sub_one,
      Nat.testBit_div_two_pow]
  by_cases h : 32 ≤ i
  · have e : 32 + (i - 32) = i := by omega
    by_cases h2 : i < 64
    · have : i - 32 < 32 := by omega
      simp [h, this, e]
    · have hf : x.testBit i = false := Nat.testBit_lt_two_pow (Nat.lt_of_lt_of_le hx (Nat.pow_le_pow_right (by decide) (by omega)))
      simp [h, e, hf]
  · simp [h]

theorem land_high32 (x : Int) (hx : 0 ≤ x) (h2 : x < 18446744073709551616) :
    ((x.toNat &&& 18446744069414584320 : Nat) : Int) = x - x % 4294967296 := by
  have : x.toNat < 2 ^ 64 := by
    have e : (2 ^ 64 : Nat) = 18446744073709551616 := by decide
    rw [e]; omega
  rw [and_high32 _ this]
  omega

/-! ### util/bitutil: every function, every input -/

open BitUtil

/-- symbolic evaluation of a transcribed function applied to variables -/
macro "go_eval" f:ident : tactic => `(tactic| (
  simp only [call, $f:ident, bindArgs, runRet, eval, upd]
  simp only [if_true, Nat.reduceEqDiff, if_false]
  rw [retVal_some]
  simp only [evalOp, bitsOp, norm, pat, Ty.half, Ty.modulus, Int.reduceToNat, Int.reducePow, Int.reduceMod, Int.reduceAdd, Int.reduceSub, Int.reduceNeg]))

theorem composite64_bridge (h l : Int) (hh : isI32 h) (hl : isI32 l) :
    call noArr GoModel.fn_Composite64 [h, l] = composite64 h l := by
  unfold isI32 at *
  go_eval GoModel.fn_Composite64
  rw [land_low 32 _ 4294967295 (by decide) (by omega)]
  rw [lor_disjoint 32 _ _ (by omega) (by omega) (by omega) (by omega)]
  unfold composite64 wrap64; omega

theorem composite32_bridge (h l : Int) (hh : isI16 h) (hl : isI16 l) :
    call noArr GoModel.fn_Composite32 [h, l] = composite32 h l := by
  unfold isI16 at *
  go_eval GoModel.fn_Composite32
  rw [land_low 16 _ 65535 (by decide) (by omega)]
  rw [lor_disjoint 16 _ _ (by omega) (by omega) (by omega) (by omega)]
  unfold composite32 wrap32; omega

theorem composite16_bridge (h l : Int) (hh : isU8 h) (hl : isU8 l) :
    call noArr GoModel.fn_Composite16 [h, l] = composite16 h l := by
  unfold isU8 at *
  go_eval GoModel.fn_Composite16
  rw [land_low 8 _ 255 (by decide) (by omega)]
  rw [lor_disjoint 8 _ _ (by omega) (by omega) (by omega) (by omega)]
  unfold composite16 wrap16; omega

theorem setHigh64_bridge (s h : Int) (hs : isI64 s) (hh : isI32 h) :
    call noArr GoModel.fn_SetHigh64 [s, h] = setHigh64 s h := by
  unfold isI64 isI32 at *
  go_eval GoModel.fn_SetHigh64
  rw [land_low 32 _ 4294967295 (by decide) (by omega)]
  rw [Nat.or_comm, lor_disjoint 32 _ _ (by omega) (by omega) (by omega) (by omega)]
  unfold setHigh64 wrap64; omega

theorem setLow64_bridge (s l : Int) (hs : isI64 s) (hl : isI32 l) :
    call noArr GoModel.fn_SetLow64 [s, l] = setLow64 s l := by
  unfold isI64 isI32 at *
  go_eval GoModel.fn_SetLow64
  rw [land_low 32 _ 4294967295 (by decide) (by omega)]
  rw [land_high32 _ (by omega) (by omega)]
  rw [lor_disjoint 32 _ _ (by omega) (by omega) (by omega) (by omega)]
  unfold setLow64; omega

theorem getHigh64_bridge (k : Int) (hk : isI64 k) : call noArr GoModel.fn_GetHigh64 [k] = getHigh64 k := by
  unfold isI64 at *
  go_eval GoModel.fn_GetHigh64
  rw [land_low 32 _ 4294967295 (by decide) (by omega)]
  unfold getHigh64 wrap32; omega

theorem getLow64_bridge (k : Int) (hk : isI64 k) : call noArr GoModel.fn_GetLow64 [k] = getLow64 k := by
  unfold isI64 at *
  go_eval GoModel.fn_GetLow64
  rw [land_low 32 _ 4294967295 (by decide) (by omega)]
  unfold getLow64 wrap32; omega

theorem getHigh32_bridge (k : Int) (hk : isI32 k) : call noArr GoModel.fn_GetHigh32 [k] = getHigh32 k := by
  unfold isI32 at *
  go_eval GoModel.fn_GetHigh32
  rw [land_low 16 _ 65535 (by decide) (by omega)]
  unfold getHigh32 wrap16; omega

theorem getLow32_bridge (k : Int) (hk : isI32 k) : call noArr GoModel.fn_GetLow32 [k] = getLow32 k := by
  unfold isI32 at *
  go_eval GoModel.fn_GetLow32
  rw [land_low 16 _ 65535 (by decide) (by omega)]
  unfold getLow32 wrap16; omega

theorem getHigh16_bridge (k : Int) (hk : isI16 k) : call noArr GoModel.fn_GetHigh16 [k] = getHigh16 k := by
  unfold isI16 at *
  go_eval GoModel.fn_GetHigh16
  rw [land_low 8 _ 255 (by decide) (by omega)]
  unfold getHigh16; omega

theorem getLow16_bridge (k : Int) (hk : isI16 k) : call noArr GoModel.fn_GetLow16 [k] = getLow16 k := by
  unfold isI16 at *
  go_eval GoModel.fn_GetLow16
  rw [land_low 8 _ 255 (by decide) (by omega)]
  unfold getLow16; omega

end GoBridge
