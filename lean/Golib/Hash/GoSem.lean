/-
  Golib.Hash.GoSem — semantics for the straight-line Go integer code that tie A of C15 regenerates
  from the source (`xlate/c15` → `Golib/Gen/C15.lean`).

  The translator runs Go's own type checker (go/types), so every operator node carries the operand type
  Go assigned to it and every constant arrives as its (already converted, representable) value.
  With the types static, the semantics is *total*: a value is the mathematical integer in the range of
  its type; `norm t` wraps (two's complement), `& | ^ &^` act on the `t.bits`-bit patterns, `>>` is
  floor division (arithmetic shift on signed operands), `<<`, `+ - *` wrap, `/ %` truncate toward zero.

  Statements: `set` (`x := e`, `var x T = e`, `x = e`, `x op= e`), `ret`, `retIf` (`if c { return e }`),
  `setIf` (an assignment under an `if` without else, or under a `case` of a fall-through `switch`,
  whose condition does not mention an assigned variable — the translator checks that).

  (proof-side file: not imported by the driver)
-/
import Golib.Basic

namespace GoSem

inductive Ty
  | i8 | i16 | i32 | i64 | u8 | u16 | u32 | u64
  deriving DecidableEq, Repr

def Ty.bits : Ty → Nat
  | .i8 | .u8 => 8
  | .i16 | .u16 => 16
  | .i32 | .u32 => 32
  | .i64 | .u64 => 64

def Ty.modulus : Ty → Int
  | .i8 | .u8 => 256
  | .i16 | .u16 => 65536
  | .i32 | .u32 => 4294967296
  | .i64 | .u64 => 18446744073709551616

/-- half the modulus for signed types, 0 for unsigned ones -/
def Ty.half : Ty → Int
  | .i8 => 128
  | .i16 => 32768
  | .i32 => 2147483648
  | .i64 => 9223372036854775808
  | _ => 0

/-- wrap an integer into the range of `t` -/
def norm (t : Ty) (v : Int) : Int := (v + t.half) % t.modulus - t.half

/-- the bit pattern of a value of type `t` -/
def pat (t : Ty) (v : Int) : Nat := (v % t.modulus).toNat

def inRange (t : Ty) (v : Int) : Prop := -t.half ≤ v ∧ v < t.modulus - t.half

inductive Op
  | shl | shr | band | bor | bxor | add | sub | mul | quo | rem | andNot
  deriving DecidableEq, Repr

/-- a bitwise operator: on patterns, result read back at type `t` -/
def bitsOp (f : Nat → Nat → Nat) (t : Ty) (a b : Int) : Int := norm t ((f (pat t a) (pat t b) : Nat) : Int)

def evalOp (op : Op) (t : Ty) (a b : Int) : Int :=
  match op with
  | .shl => norm t (a * 2 ^ b.toNat)
  | .shr => a / 2 ^ b.toNat
  | .band => bitsOp (· &&& ·) t a b
  | .bor => bitsOp (· ||| ·) t a b
  | .bxor => bitsOp (· ^^^ ·) t a b
  | .add => norm t (a + b)
  | .sub => norm t (a - b)
  | .mul => norm t (a * b)
  | .quo => norm t (a.tdiv b)
  | .rem => norm t (a.tmod b)
  | .andNot => bitsOp (fun x y => x &&& ((2 ^ t.bits - 1) ^^^ y)) t a b

/-- identifiers are numbered by the translator: parameters first, then locals in order of appearance -/
inductive Expr
  | var (n : Nat)
  | lit (v : Int)
  | conv (t : Ty) (e : Expr)
  | bin (op : Op) (t : Ty) (a b : Expr)
  | neg (t : Ty) (e : Expr)
  | not (t : Ty) (e : Expr)
  | idx (arr : Nat) (e : Expr)
  | len (arr : Nat)
  | unknown (what : Nat)
  deriving DecidableEq, Repr

abbrev Env := Nat → Int
abbrev Arrays := Nat → List Int

def upd (ρ : Env) (n : Nat) (v : Int) : Env := fun m => if m = n then v else ρ m

def eval (ρ : Env) (A : Arrays) : Expr → Int
  | .var n => ρ n
  | .lit v => v
  | .conv t e => norm t (eval ρ A e)
  | .bin op t a b => evalOp op t (eval ρ A a) (eval ρ A b)
  | .neg t e => norm t (-(eval ρ A e))
  | .not t e => norm t (-(eval ρ A e) - 1)
  | .idx a e => (A a).getD (eval ρ A e).toNat 0
  | .len a => ((A a).length : Int)
  | .unknown _ => 0

inductive Cond
  | lt (a b : Expr) | le (a b : Expr) | eq (a b : Expr) | ne (a b : Expr)
  | and (c d : Cond) | or (c d : Cond)
  | oneOf (e : Expr) (vals : List Int)
  | isNil (arr : Nat)
  | unknown (what : Nat)
  deriving DecidableEq, Repr

def ltb (a b : Int) : Bool := decide (a < b)
def leb (a b : Int) : Bool := decide (a ≤ b)
def eqb (a b : Int) : Bool := decide (a = b)

theorem ltb_iff (a b : Int) : ltb a b = true ↔ a < b := by simp [ltb]
theorem leb_iff (a b : Int) : leb a b = true ↔ a ≤ b := by simp [leb]
theorem eqb_iff (a b : Int) : eqb a b = true ↔ a = b := by simp [eqb]
theorem ltb_false (a b : Int) : ltb a b = false ↔ ¬ a < b := by simp [ltb]
theorem leb_false (a b : Int) : leb a b = false ↔ ¬ a ≤ b := by simp [leb]
theorem eqb_false (a b : Int) : eqb a b = false ↔ ¬ a = b := by simp [eqb]

/-- `x == nil` for a slice: `Arrays` cannot tell nil from empty, so nil-ness of array `a` is recorded
    as a non-empty list at index `nilTag a` -/
def nilTag (a : Nat) : Nat := a + 5000

def evalC (ρ : Env) (A : Arrays) : Cond → Bool
  | .lt a b => ltb (eval ρ A a) (eval ρ A b)
  | .le a b => leb (eval ρ A a) (eval ρ A b)
  | .eq a b => eqb (eval ρ A a) (eval ρ A b)
  | .ne a b => !eqb (eval ρ A a) (eval ρ A b)
  | .and c d => evalC ρ A c && evalC ρ A d
  | .or c d => evalC ρ A c || evalC ρ A d
  | .oneOf e vs => vs.contains (eval ρ A e)
  | .isNil a => !(A (nilTag a)).isEmpty
  | .unknown _ => false

inductive Stmt
  | set (n : Nat) (e : Expr)
  | setIf (c : Cond) (n : Nat) (e : Expr)
  | ret (e : Expr)
  | retIf (c : Cond) (e : Expr)
  | unknown (what : Nat)
  deriving DecidableEq, Repr

/-- the environment after a statement list (execution stops at a `return` that fires) -/
def runEnv (A : Arrays) : Env → List Stmt → Env
  | ρ, [] => ρ
  | ρ, .set n e :: rest => runEnv A (upd ρ n (eval ρ A e)) rest
  | ρ, .setIf c n e :: rest => runEnv A (bif evalC ρ A c then upd ρ n (eval ρ A e) else ρ) rest
  | ρ, .ret _ :: _ => ρ
  | ρ, .retIf c _ :: rest => bif evalC ρ A c then ρ else runEnv A ρ rest
  | ρ, .unknown _ :: _ => ρ

/-- the value a statement list returns (`none` if no `return` fires) -/
def runRet (A : Arrays) : Env → List Stmt → Option Int
  | _, [] => none
  | ρ, .set n e :: rest => runRet A (upd ρ n (eval ρ A e)) rest
  | ρ, .setIf c n e :: rest => runRet A (bif evalC ρ A c then upd ρ n (eval ρ A e) else ρ) rest
  | ρ, .ret e :: _ => some (eval ρ A e)
  | ρ, .retIf c e :: rest => bif evalC ρ A c then some (eval ρ A e) else runRet A ρ rest
  | _, .unknown _ :: _ => none

/-- value returned, 0 if none (never for the functions used) -/
def retVal : Option Int → Int
  | some v => v
  | none => 0

structure Fn where
  params : List (Nat × Ty)
  result : Ty
  body : List Stmt
  deriving DecidableEq, Repr

/-- environment of a call: argument `k` bound to parameter `k` (wrapped to the parameter type) -/
def bindArgs : List (Nat × Ty) → List Int → Env
  | (n, t) :: ps, a :: as => upd (bindArgs ps as) n (norm t a)
  | _, _ => fun _ => 0

/-- the value a transcribed function returns (0 if it falls off the end: never for the functions used) -/
def call (A : Arrays) (f : Fn) (args : List Int) : Int :=
  retVal (runRet A (bindArgs f.params args) f.body)

/-- run a loop body / statement block on named inputs and read one variable afterwards -/
def step (A : Arrays) (ρ : Env) (body : List Stmt) (out : Nat) : Int := runEnv A ρ body out

/-- `for i := k; i < k + n; i++ { body }` with loop variable number `iVar` (the loop header itself is
    reported by the translator as text and compared literally) -/
def forLoop (A : Arrays) (body : List Stmt) (iVar : Nat) : Nat → Nat → Env → Env
  | 0, _, ρ => ρ
  | n + 1, k, ρ => forLoop A body iVar n (k + 1) (runEnv A (upd ρ iVar (k : Int)) body)

/-- `for init; cond; post { body }` as Go runs it (the caller runs `init` first): while the condition
    holds, body then post.  `fuel` bounds the number of iterations (one more than the iterations needed). -/
def whileLoop (A : Arrays) (cond : Cond) (body post : List Stmt) : Nat → Env → Env
  | 0, ρ => ρ
  | f + 1, ρ => bif evalC ρ A cond then whileLoop A cond body post f (runEnv A (runEnv A ρ body) post) else ρ

/-- a whole function `pre; for init; cond; post { body }; after`, where `pre` may already return -/
def callWhile (A : Arrays) (pre init : List Stmt) (cond : Cond) (post body after : List Stmt) (fuel : Nat) (ρ : Env) : Int :=
  match runRet A ρ pre with
  | some v => v
  | none => retVal (runRet A (whileLoop A cond body post fuel (runEnv A (runEnv A ρ pre) init)) after)

/-- a function of the shape `pre; for i := 0; i < n; i++ { body }; after` -/
def callLoop (A : Arrays) (pre body after : List Stmt) (iVar n : Nat) (ρ : Env) : Int :=
  retVal (runRet A (forLoop A body iVar n 0 (runEnv A ρ pre)) after)

/-! ## normaliser: inline single-assignment code, sort commutative operands, flatten and sort
    the associative-commutative bit operators — with soundness proofs -/

/-- serialisation used only to order operands deterministically -/
def Ty.code : Ty → Int
  | .i8 => 0 | .i16 => 1 | .i32 => 2 | .i64 => 3 | .u8 => 4 | .u16 => 5 | .u32 => 6 | .u64 => 7

def Op.code : Op → Int
  | .shl => 0 | .shr => 1 | .band => 2 | .bor => 3 | .bxor => 4 | .add => 5 | .sub => 6 | .mul => 7
  | .quo => 8 | .rem => 9 | .andNot => 10

def Expr.code : Expr → List Int
  | .var n => [0, n]
  | .lit v => [1, v]
  | .conv t e => 2 :: t.code :: e.code
  | .bin op t a b => 3 :: op.code :: t.code :: (a.code ++ (-1) :: b.code)
  | .neg t e => 4 :: t.code :: e.code
  | .not t e => 5 :: t.code :: e.code
  | .idx a e => 6 :: (a : Int) :: e.code
  | .len a => [8, a]
  | .unknown w => [7, w]

def lexLe : List Int → List Int → Bool
  | [], _ => true
  | _ :: _, [] => false
  | a :: as, b :: bs => if a < b then true else if b < a then false else lexLe as bs

def Expr.le (a b : Expr) : Bool := lexLe a.code b.code

def Op.isAC : Op → Bool
  | .band | .bor | .bxor => true
  | _ => false

def Op.isComm : Op → Bool
  | .add | .mul => true
  | _ => false

/-- operands of a maximal chain of the same AC operator at the same type -/
def flatten (op : Op) (t : Ty) : Expr → List Expr
  | .bin op' t' a b => if op' = op ∧ t' = t then flatten op t a ++ flatten op t b else [.bin op' t' a b]
  | e => [e]

def rebuild (op : Op) (t : Ty) : List Expr → Expr
  | [] => .lit 0
  | [x] => x
  | x :: y :: ys => .bin op t x (rebuild op t (y :: ys))

/-- insertion sort (structural, so that the kernel can evaluate it) -/
def insertE (x : Expr) : List Expr → List Expr
  | [] => [x]
  | y :: ys => if Expr.le x y then x :: y :: ys else y :: insertE x ys

def sortE : List Expr → List Expr
  | [] => []
  | x :: xs => insertE x (sortE xs)

def normE : Expr → Expr
  | .bin op t a b =>
    let a' := normE a
    let b' := normE b
    if op.isAC then rebuild op t (sortE (flatten op t a' ++ flatten op t b'))
    else if op.isComm then (if Expr.le a' b' then .bin op t a' b' else .bin op t b' a')
    else .bin op t a' b'
  | .conv t e => .conv t (normE e)
  | .neg t e => .neg t (normE e)
  | .not t e => .not t (normE e)
  | .idx a e => .idx a (normE e)
  | e => e

/-- substitution of inlined definitions -/
def lookupE (σ : List (Nat × Expr)) (n : Nat) : Option Expr :=
  match σ with
  | [] => none
  | (m, e) :: rest => if m = n then some e else lookupE rest n

def subst (σ : List (Nat × Expr)) : Expr → Expr
  | .var n => (lookupE σ n).getD (.var n)
  | .lit v => .lit v
  | .conv t e => .conv t (subst σ e)
  | .bin op t a b => .bin op t (subst σ a) (subst σ b)
  | .neg t e => .neg t (subst σ e)
  | .not t e => .not t (subst σ e)
  | .idx a e => .idx a (subst σ e)
  | .len a => .len a
  | .unknown w => .unknown w

/-- a block of `set`s ending in `ret` as one expression over the inputs -/
def inlineRet : List (Nat × Expr) → List Stmt → Option Expr
  | σ, .set n e :: rest => inlineRet ((n, subst σ e) :: σ) rest
  | σ, .ret e :: _ => some (subst σ e)
  | _, _ => none

/-- a block of `set`s: the final value of variable `out` as one expression over the inputs -/
def inlineVar (out : Nat) : List (Nat × Expr) → List Stmt → Option Expr
  | σ, [] => some (subst σ (.var out))
  | σ, .set n e :: rest => inlineVar out ((n, subst σ e) :: σ) rest
  | _, _ => none

/-- canonical forms compared by the tie-A obligations -/
def canonRet (body : List Stmt) : Option Expr := (inlineRet [] body).map normE
def canonVar (out : Nat) (body : List Stmt) : Option Expr := (inlineVar out [] body).map normE
def canonFn (f : Fn) : List (Nat × Ty) × Ty × Option Expr := (f.params, f.result, canonRet f.body)

/-- statement-wise normal form for blocks with conditionals (no inlining across statements) -/
def normC : Cond → Cond
  | .lt a b => .lt (normE a) (normE b)
  | .le a b => .le (normE a) (normE b)
  | .eq a b => .eq (normE a) (normE b)
  | .ne a b => .ne (normE a) (normE b)
  | .and c d => .and (normC c) (normC d)
  | .or c d => .or (normC c) (normC d)
  | .oneOf e vs => .oneOf (normE e) vs
  | .isNil a => .isNil a
  | .unknown w => .unknown w

def normS : Stmt → Stmt
  | .set n e => .set n (normE e)
  | .setIf c n e => .setIf (normC c) n (normE e)
  | .ret e => .ret (normE e)
  | .retIf c e => .retIf (normC c) (normE e)
  | .unknown w => .unknown w

def normStmts (b : List Stmt) : List Stmt := b.map normS

/-! ## string-level decision trees (top level of hexa32.ToString32 / ToLong32) -/

/-- a string-valued expression: literal, concatenation, `to_str(e)`, `strconv.Itoa(e)` -/
inductive SExpr
  | lit (s : String) | cat (a b : SExpr) | toStr (e : Expr) | itoa (e : Expr) | unknown (w : Nat)
  deriving DecidableEq, Repr

/-- `if c { … } else { … }` over integer conditions, returning strings -/
inductive STree
  | ret (s : SExpr) | ite (c : Cond) (t e : STree) | unknown (w : Nat)
  deriving DecidableEq, Repr

/-- conditions on the text parameter: `str == ""`, `str[0] == c`, `str == "lit"` -/
inductive DCond
  | isEmpty | firstIs (c : Int) | eqLit (s : String) | unknown (w : Nat)
  deriving DecidableEq, Repr

/-- what is returned: a constant, `k * to_long(str[1:])`, `strconv.Atoi(str)` or a default if it fails -/
inductive DRet
  | const (v : Int) | mulToLongTail (k : Int) | atoiOr (dflt : Int) | unknown (w : Nat)
  deriving DecidableEq, Repr

inductive DTree
  | ret (r : DRet) | ite (c : DCond) (t e : DTree) | unknown (w : Nat)
  deriving DecidableEq, Repr

/-- pieces of `iputil.ToString`'s output as the translator reports them -/
inductive IpPiece
  | octet (k : Nat) | text (s : String) | other
  deriving DecidableEq, Repr

end GoSem
