/-
  Golib.Hash.BitIp — CodeModel of util/bitutil/BitUtil.go, the IPv4 conversions of
  util/iputil/IPUtil.go (with io.ToBytesInt / io.ToInt which they call) and stringutil.HashCode.

  Signed Go integers are `Int` in their range; `x & mask`, `x >> k`, `x << k`, `a | b` on two's
  complement values are written arithmetically: `x >> k` is floor division by `2^k` (`/` on `Int` with
  a positive literal divisor), `x & (2^k-1)` is `x % 2^k` (non-negative), `a | b` of two values with
  disjoint bits is `a + b`, narrowing conversions are `wrapN`.

  (core Lean only; imported by the driver)
-/
import Golib.Hash.Strconv

namespace BitUtil

def wrap16 (v : Int) : Int := (v + 32768) % 65536 - 32768
def wrap32 (v : Int) : Int := (v + 2147483648) % 4294967296 - 2147483648
def wrap64 (v : Int) : Int := (v + 9223372036854775808) % 18446744073709551616 - 9223372036854775808

def isI16 (v : Int) : Prop := -32768 ≤ v ∧ v < 32768
def isI32 (v : Int) : Prop := -2147483648 ≤ v ∧ v < 2147483648
def isI64 (v : Int) : Prop := -9223372036854775808 ≤ v ∧ v < 9223372036854775808
def isU8 (v : Int) : Prop := 0 ≤ v ∧ v < 256

/-- `(int64(hkey) << 32) | (int64(wkey) & 0xffffffff)` -/
def composite64 (hkey wkey : Int) : Int := wrap64 (hkey * 4294967296) + wkey % 4294967296
/-- `(int32(hkey) << 16) | (int32(wkey) & 0xffff)` -/
def composite32 (hkey wkey : Int) : Int := wrap32 (hkey * 65536) + wkey % 65536
/-- `(int16(hkey) << 8) | (int16(wkey) & int16(0xff))`, `hkey`, `wkey` bytes -/
def composite16 (hkey wkey : Int) : Int := wrap16 (hkey * 256) + wkey % 256

/-- `(src & 0x00000000ffffffff) | (int64(hkey) << 32)` -/
def setHigh64 (src hkey : Int) : Int := src % 4294967296 + wrap64 (hkey * 4294967296)
/-- `(src & 0xffffffff00000000) | (int64(wkey) & 0xffffffff)` -/
def setLow64 (src wkey : Int) : Int := (src - src % 4294967296) + wkey % 4294967296
/-- `int32(key>>32) & int32(0xffffffff)` — the mask is `-1` -/
def getHigh64 (key : Int) : Int := wrap32 (key / 4294967296)
/-- `int32(key) & int32(0xffffffff)` -/
def getLow64 (key : Int) : Int := wrap32 key
/-- `int16(key >> 16) & int16(0xffff)` -/
def getHigh32 (key : Int) : Int := wrap16 (key / 65536)
/-- `int16(key & 0xffff)` -/
def getLow32 (key : Int) : Int := wrap16 (key % 65536)
/-- `byte((key >> 8) & int16(0xff))` -/
def getHigh16 (key : Int) : Int := (key / 256) % 256
/-- `byte(key & int16(0xff))` -/
def getLow16 (key : Int) : Int := key % 256

end BitUtil

namespace IpUtil
open Strconv

/-- `io.ToBytesInt(v int32)`: big-endian bytes, `byte(v >> 24)` … -/
def toBytesInt (v : Int) : Bytes :=
  [(v / 16777216 % 256).toNat, (v / 65536 % 256).toNat, (v / 256 % 256).toNat, (v % 256).toNat]

/-- `io.ToInt(buf, 0)`: `int32((ch1 << 24) + (ch2 << 16) + (ch3 << 8) + ch4)` on int32 operands;
    a slice shorter than 4 panics (`none`) -/
def toInt : Bytes → Option Int
  | a :: b :: c :: d :: _ => some (BitUtil.wrap32 (a * 16777216 + b * 65536 + c * 256 + d))
  | _ => none

/-- `iputil.ToBytesFrInt` -/
def toBytesFrInt (ip : Int) : Bytes := toBytesInt ip

def dotted (a b c d : Nat) : List Char :=
  itoaNat a ++ '.' :: (itoaNat b ++ '.' :: (itoaNat c ++ '.' :: itoaNat d))

/-- `iputil.ToString(ip []byte)`: nil/empty ↦ "0.0.0.0"; the first four bytes otherwise
    (1–3 bytes panic: `none`) -/
def toString (ip : Bytes) : Option (List Char) :=
  match ip with
  | [] => some "0.0.0.0".toList
  | a :: b :: c :: d :: _ => some (dotted a b c d)
  | _ => none

/-- one octet of `ToBytes`: `if val, err := strconv.Atoi(s); err == nil { result[i] = byte(val & 0xff) }` -/
def octet (s : List Char) : Nat :=
  match atoi s with
  | some v => (v % 256).toNat
  | none => 0

/-- `iputil.ToBytes(ip string)` -/
def toBytes (ip : List Char) : Bytes :=
  if ip.isEmpty then [0, 0, 0, 0] else
  match splitOn '.' ip with
  | [a, b, c, d] => [octet a, octet b, octet c, octet d]
  | _ => [0, 0, 0, 0]

/-- `ToStringFrInt` / `ToStringInt` -/
def toStringFrInt (ip : Int) : Option (List Char) := toString (toBytesInt ip)

/-- `iputil.IsOK(ip)`: `ip != nil && len(ip) == 4` (a nil slice has length 0, so it is `len(ip) == 4`) -/
def isOK (ip : Bytes) : Bool := ip.length == 4

/-- `iputil.IsNotLocal(ip)`: `IsOK(ip) && uint(ip[0]) != 127` -/
def isNotLocal (ip : Bytes) : Bool := isOK ip && ip.headD 0 != 127

end IpUtil

namespace StrHash

/-- `stringutil.HashCode(s)`: `h = 31*h + int(s[i])` over the bytes, in Go `int` (64 bit here) -/
def hashCode (s : Bytes) : Int := s.foldl (fun (h : Int) (b : Nat) => BitUtil.wrap64 (31 * h + (b : Int))) (0 : Int)

/-- Java's `String.hashCode` recurrence in 32-bit arithmetic, over the same units -/
def javaHashCode (s : Bytes) : Int := s.foldl (fun (h : Int) (b : Nat) => BitUtil.wrap32 (31 * h + (b : Int))) (0 : Int)

end StrHash
