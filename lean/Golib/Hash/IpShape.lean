/-
  Golib.Hash.IpShape — tie A for util/iputil: the *shape* of `ToString` / `ToBytes` that the translator
  reports (sequence of buffer writes; separator, part count, loop bound, mask, default bytes) is given a
  semantics here and proved equal to the CodeModel `IpUtil.toString` / `IpUtil.toBytes` for all inputs.
-/
import Golib.Hash.GoSem
import Golib.Hash.IpProofs

set_option linter.unusedVariables false

namespace IpShape
open GoSem Strconv IpUtil

/-- what a sequence of `buffer.WriteString(…)` calls produces; `ip[k]` out of range panics (`none`) -/
def renderPieces : List IpPiece → Bytes → Option (List Char)
  | [], _ => some []
  | .octet k :: rest, ip =>
    match ip[k]?, renderPieces rest ip with
    | some b, some t => some (itoaNat b ++ t)
    | _, _ => none
  | .text s :: rest, ip => (renderPieces rest ip).map (s.toList ++ ·)
  | .other :: _, _ => none

/-- `if ip == nil || len(ip) == 0 { return empty }` then the writes -/
def toStringOf (pieces : List IpPiece) (empty : String) (ip : Bytes) : Option (List Char) :=
  if ip.isEmpty then some empty.toList else renderPieces pieces ip

theorem toStringOf_model (ip : Bytes) :
    toStringOf [.octet 0, .text ".", .octet 1, .text ".", .octet 2, .text ".", .octet 3] "0.0.0.0" ip
      = IpUtil.toString ip := by
  rcases ip with _ | ⟨a, _ | ⟨b, _ | ⟨c, _ | ⟨d, r⟩⟩⟩⟩
  · rfl
  · simp [toStringOf, renderPieces, IpUtil.toString]
  · simp [toStringOf, renderPieces, IpUtil.toString]
  · simp [toStringOf, renderPieces, IpUtil.toString]
  · simp [toStringOf, renderPieces, IpUtil.toString, dotted]

/-- one iteration of `for i := 0; i < bound; i++ { if val, err := Atoi(s[i]); err == nil { result[i] = byte(val & mask) } }` -/
def setOctet (mask : Nat) (parts : List (List Char)) (res : Bytes) (i : Nat) : Bytes :=
  match atoi (parts.getD i []) with
  | some v => res.set i (((v % 18446744073709551616).toNat &&& mask) % 256)
  | none => res

/-- `ToBytes` with its constants as parameters -/
def toBytesOf (sep : String) (count bound mask : Int) (dflt : List Nat) (s : List Char) : Bytes :=
  if s.isEmpty then dflt else
  match sep.toList with
  | [c] =>
    let parts := splitOn c s
    if (parts.length : Int) ≠ count then dflt
    else (List.range bound.toNat).foldl (setOctet mask.toNat parts) dflt
  | _ => dflt

theorem mask255 (v : Int) : ((v % 18446744073709551616).toNat &&& 255) % 256 = (v % 256).toNat := by
  have e : (255 : Nat) = 2 ^ 8 - 1 := rfl
  rw [e, Nat.and_two_pow_sub_one_eq_mod]
  omega

theorem setOctet_eq (parts : List (List Char)) (res : Bytes) (i : Nat) :
    setOctet 255 parts res i = match atoi (parts.getD i []) with | some v => res.set i (v % 256).toNat | none => res := by
  unfold setOctet
  cases atoi (parts.getD i []) <;> simp [mask255]

theorem toBytesOf_model (s : List Char) : toBytesOf "." 4 4 255 [0, 0, 0, 0] s = IpUtil.toBytes s := by
  unfold toBytesOf IpUtil.toBytes
  split
  · rfl
  · have e : ".".toList = ['.'] := rfl
    simp only [e]
    rcases hq : splitOn '.' s with _ | ⟨a, _ | ⟨b, _ | ⟨c, _ | ⟨d, _ | ⟨x, r⟩⟩⟩⟩⟩
    · simp
    · simp
    · simp
    · simp
    · simp only [List.length_cons, List.length_nil]
      have r4 : List.range (4 : Int).toNat = [0, 1, 2, 3] := by decide
      have m : (255 : Int).toNat = 255 := rfl
      simp only [r4, m, List.foldl_cons, List.foldl_nil]
      cases ha : atoi a <;> cases hb : atoi b <;> cases hc : atoi c <;> cases hd : atoi d <;>
        simp [setOctet_eq, List.getD, ha, hb, hc, hd, octet]
    · simp only [List.length_cons]
      simp
      intro h; omega

end IpShape
