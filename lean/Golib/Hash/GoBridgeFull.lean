/-
  Golib.Hash.GoBridgeFull — bridge theorems, part 5: whole functions with their own loop headers and
  guards.  The transcribed `for init; cond; post` is given the `while` semantics (`GoSem.whileLoop`) and
  proved to be the counting loop; `if bytes == nil`, `if sz == 0`, `switch len(src)` are interpreted.
  Results are closed statements: no hypothesis on the environment the function starts in.
-/
import Golib.Hash.GoBridgeHash
import Golib.Hash.GoBridgeHexa
import Golib.Hash.GoBridgeMurmur

set_option linter.unusedVariables false
set_option linter.unusedSimpArgs false

namespace GoBridge
open GoSem

/-- arrays of the hash functions for a possibly-nil slice (`none` = nil) -/
def hashArrsO (o : Option Bytes) : Arrays := fun n =>
  if n = 0 then (o.getD []).map Int.ofNat else if n = 1000 then tableInts
  else if n = nilTag 0 then (if o.isNone then [1] else []) else []

theorem hashArrsO_some (bs : Bytes) : hashArrsO (some bs) = hashArrs bs := by
  funext n
  simp only [hashArrsO, hashArrs, Option.getD_some, Option.isNone_some, nilTag]
  by_cases h0 : n = 0
  · simp [h0]
  · by_cases h1 : n = 1000
    · simp [h0, h1]
    · simp [h0, h1]

/-- what the ties of a register loop `pre; for i := 0; i < sz; i++ { body }; after` give: every block
    behaves like the model's (`M*` are the blocks of `GoModel`) -/
structure RegLoopTies (pre init : List Stmt) (cond : Cond) (post body after : List Stmt)
    (Mpre Minit : List Stmt) (Mcond : Cond) (Mpost Mbody Mafter : List Stmt) : Prop where
  pre : normStmts pre = normStmts Mpre
  init : normStmts init = normStmts Minit
  cond : normC cond = normC Mcond
  post : normStmts post = normStmts Mpost
  body : sameVars [2, 1, 3] body Mbody = true
  after : canonRet after = canonRet Mafter

theorem evalC_tie {c1 c2 : Cond} (h : normC c1 = normC c2) (A : Arrays) (σ : Env) : evalC σ A c1 = evalC σ A c2 := by
  rw [← normC_sound, h, normC_sound]

/-! ### Hash -/

theorem hash_full_bridge (pre init : List Stmt) (cond : Cond) (post body after : List Stmt)
    (T : RegLoopTies pre init cond post body after GoModel.loop_Hash.pre GoModel.loop_Hash.init GoModel.loop_Hash.cond
      GoModel.loop_Hash.post GoModel.loop_Hash.body GoModel.loop_Hash.after)
    (o : Option Bytes) (hw : WFB (o.getD [])) (hl : (o.getD []).length < 4611686018427387904) (ρ : Env) (e : Nat) :
    callWhile (hashArrsO o) pre init cond post body after ((o.getD []).length + 1 + e) ρ = Hash.hash (o.getD []) := by
  generalize hA : hashArrsO o = A
  have hlen : (A 0).length = (o.getD []).length := by subst hA; simp [hashArrsO]
  have ePre : ∀ σ, runEnv A σ pre = runEnv A σ GoModel.loop_Hash.pre := fun σ => (normStmts_eq T.pre A σ).1
  have eInit : ∀ σ, runEnv A σ init = runEnv A σ GoModel.loop_Hash.init := fun σ => (normStmts_eq T.init A σ).1
  have ePost : ∀ σ, runEnv A σ post = runEnv A σ GoModel.loop_Hash.post := fun σ => (normStmts_eq T.post A σ).1
  have eAfter : ∀ σ, runRet A σ after = runRet A σ GoModel.loop_Hash.after :=
    fun σ => canonRet_eq T.after (by decide +kernel) A σ
  have glue := while_glue A pre init cond post body after (o.getD []).length ρ
    (by rw [(normStmts_eq T.pre A ρ).2]; rfl)
    (by rw [eInit, ePre]; simp [GoModel.loop_Hash.pre, GoModel.loop_Hash.init, runEnv, eval, upd])
    (by rw [eInit, ePre]; simp [GoModel.loop_Hash.pre, GoModel.loop_Hash.init, runEnv, eval, upd, hlen])
    (fun σ => by rw [evalC_tie T.cond]; rfl)
    (fun σ => by rw [ePost]; rfl)
    (fun σ => by
      rw [sameVars_eq T.body A σ 1 (by simp), sameVars_eq T.body A σ 3 (by simp)]
      simp [GoModel.loop_Hash.body, runEnv, upd])
    (fun σ v => by rw [eAfter, eAfter]; simp [GoModel.loop_Hash.after, runRet, eval, upd])
    hl e
  rw [glue]
  have r2 : runEnv A (runEnv A ρ pre) init 2 = 4294967295 := by
    rw [eInit, ePre]; simp [GoModel.loop_Hash.pre, GoModel.loop_Hash.init, runEnv, eval, upd]
  cases o with
  | none =>
    simp only [Option.getD_none, List.length_nil, forLoop]
    rw [eAfter, hash_after_bridge A _ 4294967295 r2 (by decide), retVal_some]
    rfl
  | some bs =>
    rw [hashArrsO_some] at hA
    subst hA
    exact hash_fn_bridge body after
      (by have := T.body; unfold sameVars at this; simp only [List.all_cons, Bool.and_eq_true, decide_eq_true_eq] at this; exact this.1.1)
      T.after bs hw _ r2

/-! ### Hash64 -/

theorem hash64_full_bridge (pre init : List Stmt) (cond : Cond) (post body after : List Stmt)
    (T : RegLoopTies pre init cond post body after GoModel.loop_Hash64.pre GoModel.loop_Hash64.init GoModel.loop_Hash64.cond
      GoModel.loop_Hash64.post GoModel.loop_Hash64.body GoModel.loop_Hash64.after)
    (o : Option Bytes) (hw : WFB (o.getD [])) (hl : (o.getD []).length < 4611686018427387904) (ρ : Env) (e : Nat) :
    callWhile (hashArrsO o) pre init cond post body after ((o.getD []).length + 1 + e) ρ = Hash.hash64 (o.getD []) := by
  generalize hA : hashArrsO o = A
  have hlen : (A 0).length = (o.getD []).length := by subst hA; simp [hashArrsO]
  have ePre : ∀ σ, runEnv A σ pre = runEnv A σ GoModel.loop_Hash64.pre := fun σ => (normStmts_eq T.pre A σ).1
  have eInit : ∀ σ, runEnv A σ init = runEnv A σ GoModel.loop_Hash64.init := fun σ => (normStmts_eq T.init A σ).1
  have ePost : ∀ σ, runEnv A σ post = runEnv A σ GoModel.loop_Hash64.post := fun σ => (normStmts_eq T.post A σ).1
  have eAfter : ∀ σ, runRet A σ after = runRet A σ GoModel.loop_Hash64.after :=
    fun σ => canonRet_eq T.after (by decide +kernel) A σ
  have glue := while_glue A pre init cond post body after (o.getD []).length ρ
    (by rw [(normStmts_eq T.pre A ρ).2]; rfl)
    (by rw [eInit, ePre]; simp [GoModel.loop_Hash64.pre, GoModel.loop_Hash64.init, runEnv, eval, upd])
    (by rw [eInit, ePre]; simp [GoModel.loop_Hash64.pre, GoModel.loop_Hash64.init, runEnv, eval, upd, hlen])
    (fun σ => by rw [evalC_tie T.cond]; rfl)
    (fun σ => by rw [ePost]; rfl)
    (fun σ => by
      rw [sameVars_eq T.body A σ 1 (by simp), sameVars_eq T.body A σ 3 (by simp)]
      simp [GoModel.loop_Hash64.body, runEnv, upd])
    (fun σ v => by rw [eAfter, eAfter]; simp [GoModel.loop_Hash64.after, runRet, eval, upd])
    hl e
  rw [glue]
  have r2 : runEnv A (runEnv A ρ pre) init 2 = 18446744073709551615 := by
    rw [eInit, ePre]; simp [GoModel.loop_Hash64.pre, GoModel.loop_Hash64.init, runEnv, eval, upd]
  cases o with
  | none =>
    simp only [Option.getD_none, List.length_nil, forLoop]
    rw [eAfter, hash64_after_bridge A _ 18446744073709551615 r2 (by decide), retVal_some]
    rfl
  | some bs =>
    rw [hashArrsO_some] at hA
    subst hA
    exact hash64_fn_bridge body after
      (by have := T.body; unfold sameVars at this; simp only [List.all_cons, Bool.and_eq_true, decide_eq_true_eq] at this; exact this.1.1)
      T.after bs hw _ r2

/-! ### Hash64v2: `if bytes == nil { return 0 }` in front -/

theorem hash64v2_full_bridge (pre init : List Stmt) (cond : Cond) (post body after : List Stmt)
    (T : RegLoopTies pre init cond post body after GoModel.loop_Hash64v2.pre GoModel.loop_Hash64v2.init
      GoModel.loop_Hash64v2.cond GoModel.loop_Hash64v2.post GoModel.loop_Hash64v2.body GoModel.loop_Hash64v2.after)
    (o : Option Bytes) (hw : WFB (o.getD [])) (hl : (o.getD []).length < 4611686018427387904) (ρ : Env) (e : Nat) :
    callWhile (hashArrsO o) pre init cond post body after ((o.getD []).length + 1 + e) ρ = Hash.hash64v2 o := by
  cases o with
  | none =>
    unfold callWhile
    rw [(normStmts_eq T.pre _ ρ).2]
    simp [GoModel.loop_Hash64v2.pre, runRet, eval, evalC, hashArrsO, nilTag, Hash.hash64v2]
  | some bs =>
    simp only [Option.getD_some] at hw hl ⊢
    rw [hashArrsO_some]
    generalize hA : hashArrs bs = A
    have hnil : A (nilTag 0) = [] := by subst hA; simp [hashArrs, nilTag]
    have hlen : (A 0).length = bs.length := by subst hA; simp [hashArrs]
    have ePre : ∀ σ, runEnv A σ pre = runEnv A σ GoModel.loop_Hash64v2.pre := fun σ => (normStmts_eq T.pre A σ).1
    have eInit : ∀ σ, runEnv A σ init = runEnv A σ GoModel.loop_Hash64v2.init := fun σ => (normStmts_eq T.init A σ).1
    have ePost : ∀ σ, runEnv A σ post = runEnv A σ GoModel.loop_Hash64v2.post := fun σ => (normStmts_eq T.post A σ).1
    have eAfter : ∀ σ, runRet A σ after = runRet A σ GoModel.loop_Hash64v2.after :=
      fun σ => canonRet_eq T.after (by decide +kernel) A σ
    have glue := while_glue A pre init cond post body after bs.length ρ
      (by rw [(normStmts_eq T.pre A ρ).2]; simp [GoModel.loop_Hash64v2.pre, runRet, evalC, hnil])
      (by rw [eInit, ePre]; simp [GoModel.loop_Hash64v2.pre, GoModel.loop_Hash64v2.init, runEnv, eval, evalC, upd, hnil])
      (by rw [eInit, ePre]; simp [GoModel.loop_Hash64v2.pre, GoModel.loop_Hash64v2.init, runEnv, eval, evalC, upd, hnil, hlen])
      (fun σ => by rw [evalC_tie T.cond]; rfl)
      (fun σ => by rw [ePost]; rfl)
      (fun σ => by
        rw [sameVars_eq T.body A σ 1 (by simp), sameVars_eq T.body A σ 3 (by simp)]
        simp [GoModel.loop_Hash64v2.body, runEnv, upd])
      (fun σ v => by rw [eAfter, eAfter]; simp [GoModel.loop_Hash64v2.after, runRet, eval, upd])
      hl e
    rw [glue]
    have r2 : runEnv A (runEnv A ρ pre) init 2 = 18446744073709551615 := by
      rw [eInit, ePre]; simp [GoModel.loop_Hash64v2.pre, GoModel.loop_Hash64v2.init, runEnv, eval, evalC, upd, hnil]
    subst hA
    exact hash64v2_fn_bridge body after
      (by have := T.body; unfold sameVars at this; simp only [List.all_cons, Bool.and_eq_true, decide_eq_true_eq] at this; exact this.1.1)
      T.after bs hw _ r2

/-! ### Hash64V2: `if sz := len(bytes); sz == 0 { return 0 } else { … }` -/

theorem hash64V2_full_bridge (pre init : List Stmt) (cond : Cond) (post body after : List Stmt)
    (T : RegLoopTies pre init cond post body after GoModel.loop_Hash64V2.pre GoModel.loop_Hash64V2.init
      GoModel.loop_Hash64V2.cond GoModel.loop_Hash64V2.post GoModel.loop_Hash64V2.body GoModel.loop_Hash64V2.after)
    (o : Option Bytes) (hw : WFB (o.getD [])) (hl : (o.getD []).length < 4611686018427387904) (ρ : Env) (e : Nat) :
    callWhile (hashArrsO o) pre init cond post body after ((o.getD []).length + 1 + e) ρ = Hash.hash64V2 o := by
  by_cases hemp : (o.getD []) = []
  · -- nil or empty: the guard returns 0
    unfold callWhile
    rw [(normStmts_eq T.pre _ ρ).2]
    have : (hashArrsO o 0).length = 0 := by simp [hashArrsO, hemp]
    simp [GoModel.loop_Hash64V2.pre, runRet, eval, evalC, upd, this, eqb, Hash.hash64V2, hemp]
  · cases o with
    | none => exact absurd rfl hemp
    | some bs =>
      simp only [Option.getD_some] at hw hl hemp ⊢
      rw [hashArrsO_some]
      generalize hA : hashArrs bs = A
      have hlen : (A 0).length = bs.length := by subst hA; simp [hashArrs]
      have hpos : bs.length ≠ 0 := by intro h; exact hemp (List.eq_nil_of_length_eq_zero h)
      have hz : eqb ((bs.length : Nat) : Int) 0 = false := (eqb_false _ _).mpr (by omega)
      have ePre : ∀ σ, runEnv A σ pre = runEnv A σ GoModel.loop_Hash64V2.pre := fun σ => (normStmts_eq T.pre A σ).1
      have eInit : ∀ σ, runEnv A σ init = runEnv A σ GoModel.loop_Hash64V2.init := fun σ => (normStmts_eq T.init A σ).1
      have ePost : ∀ σ, runEnv A σ post = runEnv A σ GoModel.loop_Hash64V2.post := fun σ => (normStmts_eq T.post A σ).1
      have eAfter : ∀ σ, runRet A σ after = runRet A σ GoModel.loop_Hash64V2.after :=
        fun σ => canonRet_eq T.after (by decide +kernel) A σ
      have glue := while_glue A pre init cond post body after bs.length ρ
        (by rw [(normStmts_eq T.pre A ρ).2]; simp [GoModel.loop_Hash64V2.pre, runRet, eval, evalC, upd, hlen, hz])
        (by rw [eInit, ePre]; simp [GoModel.loop_Hash64V2.pre, GoModel.loop_Hash64V2.init, runEnv, eval, evalC, upd, hlen, hz])
        (by rw [eInit, ePre]; simp [GoModel.loop_Hash64V2.pre, GoModel.loop_Hash64V2.init, runEnv, eval, evalC, upd, hlen, hz])
        (fun σ => by rw [evalC_tie T.cond]; rfl)
        (fun σ => by rw [ePost]; rfl)
        (fun σ => by
          rw [sameVars_eq T.body A σ 1 (by simp), sameVars_eq T.body A σ 3 (by simp)]
          simp [GoModel.loop_Hash64V2.body, runEnv, upd])
        (fun σ v => by rw [eAfter, eAfter]; simp [GoModel.loop_Hash64V2.after, runRet, eval, upd])
        hl
      rw [glue]
      have r2 : runEnv A (runEnv A ρ pre) init 2 = 18446744073709551615 := by
        rw [eInit, ePre]; simp [GoModel.loop_Hash64V2.pre, GoModel.loop_Hash64V2.init, runEnv, eval, evalC, upd, hlen, hz]
      subst hA
      exact hash64V2_fn_bridge body after
        (by have := T.body; unfold sameVars at this; simp only [List.all_cons, Bool.and_eq_true, decide_eq_true_eq] at this; exact this.1.1)
        T.after bs hw hemp _ r2

/-! ### stringutil.HashCode: `for i := 0; i < len(s); i++` -/

theorem hashCode_full_bridge (pre init : List Stmt) (cond : Cond) (post body after : List Stmt)
    (hpure : isPure pre = true)
    (hpre : canonVar 2 (pre ++ init) = canonVar 2 GoModel.loop_HashCode.pre)
    (hinit : normStmts init = normStmts GoModel.loop_HashCode.init)
    (hcond : normC cond = normC GoModel.loop_HashCode.cond)
    (hpost : normStmts post = normStmts GoModel.loop_HashCode.post)
    (hbody : sameVars [2, 1] body GoModel.loop_HashCode.body = true)
    (hafter : canonRet after = canonRet GoModel.loop_HashCode.after)
    (bs : Bytes) (hw : WFB bs) (hl : bs.length < 4611686018427387904) (ρ : Env) (e : Nat) :
    callWhile (strArrs bs) pre init cond post body after (bs.length + 1 + e) ρ = StrHash.hashCode bs := by
  generalize hA : strArrs bs = A
  have hlen : (A 0).length = bs.length := by subst hA; simp [strArrs]
  have eInit : ∀ σ, runEnv A σ init = runEnv A σ GoModel.loop_HashCode.init := fun σ => (normStmts_eq hinit A σ).1
  have ePost : ∀ σ, runEnv A σ post = runEnv A σ GoModel.loop_HashCode.post := fun σ => (normStmts_eq hpost A σ).1
  have eAfter : ∀ σ, runRet A σ after = runRet A σ GoModel.loop_HashCode.after :=
    fun σ => canonRet_eq hafter (by decide +kernel) A σ
  have glue := while_glue_gen A pre init cond post body after 1 bs.length ρ (fun _ => True)
    (runRet_pure A pre ρ hpure) trivial
    (by rw [eInit]; simp [GoModel.loop_HashCode.init, runEnv, eval, upd])
    (fun σ _ => by rw [evalC_tie hcond]; simp [GoModel.loop_HashCode.cond, evalC, eval, hlen])
    (fun σ => by rw [ePost]; rfl)
    (fun σ => by rw [sameVars_eq hbody A σ 1 (by simp)]; simp [GoModel.loop_HashCode.body, runEnv, upd])
    (fun _ _ _ => trivial)
    (fun σ v => by rw [eAfter, eAfter]; simp [GoModel.loop_HashCode.after, runRet, eval, upd])
    hl e
  rw [glue, ← runEnv_append A pre init ρ hpure]
  subst hA
  have := hashCode_fn_bridge (pre ++ init) body after hpre
    (by have := hbody; unfold sameVars at this; simp only [List.all_cons, Bool.and_eq_true, decide_eq_true_eq] at this; exact this.1.1)
    hafter bs hw ρ
  unfold callLoop at this
  exact this

/-! ### murmurHash / murmurHashLong: `for i := 0; i < int(len_4); i++` -/

theorem murmur32_after_frame (A : Arrays) (σ : Env) (v : Int) :
    runRet A (upd σ 3 v) GoModel.loop_murmurHash.after = runRet A σ GoModel.loop_murmurHash.after :=
  runRet_frame A 3 _ (by decide +kernel) σ v

theorem murmur32_full_bridge (pre init : List Stmt) (cond : Cond) (post body after : List Stmt)
    (hpure : isPure pre = true)
    (hpre : sameVars [4, 5, 6, 7, 1] (pre ++ init) GoModel.loop_murmurHash.pre = true)
    (hinit : normStmts init = normStmts GoModel.loop_murmurHash.init)
    (hcond : normC cond = normC GoModel.loop_murmurHash.cond)
    (hpost : normStmts post = normStmts GoModel.loop_murmurHash.post)
    (hbody : sameVars [4, 5, 6, 1, 7, 3] body GoModel.loop_murmurHash.body = true)
    (hafter : normStmts after = normStmts GoModel.loop_murmurHash.after)
    (data : Bytes) (hw : WFB data) (seed : Nat) (hs : seed < 4294967296) (hl : data.length < 2147483648)
    (ρ : Env) (h1 : ρ 1 = (data.length : Int)) (h2 : ρ 2 = (seed : Int)) (e : Nat) :
    callWhile (dataArrs data) pre init cond post body after (data.length / 4 + 1 + e) ρ
      = ((Murmur.murmur32 data seed : Nat) : Int) := by
  generalize hA : dataArrs data = A
  have eInit : ∀ σ, runEnv A σ init = runEnv A σ GoModel.loop_murmurHash.init := fun σ => (normStmts_eq hinit A σ).1
  have ePost : ∀ σ, runEnv A σ post = runEnv A σ GoModel.loop_murmurHash.post := fun σ => (normStmts_eq hpost A σ).1
  have eAfter : ∀ σ, runRet A σ after = runRet A σ GoModel.loop_murmurHash.after := fun σ => (normStmts_eq hafter A σ).2
  have hb (x : Nat) (hx : x ∈ [4, 5, 6, 1, 7, 3]) (σ : Env) := sameVars_eq hbody A σ x hx
  have p7 : runEnv A (runEnv A ρ pre) init 7 = ((data.length / 4 : Nat) : Int) := by
    rw [← runEnv_append A pre init ρ hpure, sameVars_eq hpre A ρ 7 (by simp)]
    exact (murmur32_pre_bridge A ρ data.length seed h1 h2 hl hs).2.2.2.1
  have glue := while_glue_gen A pre init cond post body after 3 (data.length / 4) ρ
    (fun σ => σ 7 = ((data.length / 4 : Nat) : Int))
    (runRet_pure A pre ρ hpure) p7
    (by rw [eInit]; simp [GoModel.loop_murmurHash.init, runEnv, eval, upd])
    (fun σ hI => by
      rw [evalC_tie hcond]
      simp only [GoModel.loop_murmurHash.cond, evalC, eval, hI]
      have : norm .i64 ((data.length / 4 : Nat) : Int) = ((data.length / 4 : Nat) : Int) := by
        simp only [norm, Ty.half, Ty.modulus]; omega
      rw [this])
    (fun σ => by rw [ePost]; rfl)
    (fun σ => by rw [hb 3 (by simp)]; exact murmur32_body_frame A σ 3 (by decide))
    (fun σ v hI => by
      show upd (runEnv A σ body) 3 v 7 = _
      simp only [upd, Nat.reduceEqDiff, if_false]
      rw [hb 7 (by simp), murmur32_body_frame A σ 7 (by decide)]; exact hI)
    (fun σ v => by rw [eAfter, eAfter]; exact murmur32_after_frame A σ v)
    (by omega) e
  rw [glue, ← runEnv_append A pre init ρ hpure]
  subst hA
  have sv (x : Nat) (hx : x ∈ [4, 5, 6, 1, 7, 3]) : canonVar x body = canonVar x GoModel.loop_murmurHash.body := by
    have := hbody; unfold sameVars at this
    rw [List.all_eq_true] at this
    have := this x hx
    simp only [Bool.and_eq_true, decide_eq_true_eq] at this
    exact this.1
  have := murmur32_fn_bridge (pre ++ init) body after hpre (sv 4 (by simp)) (sv 5 (by simp)) (sv 6 (by simp))
    (sv 1 (by simp)) (sv 7 (by simp)) hafter data hw seed hs hl ρ h1 h2
  unfold callLoop at this
  exact this

theorem murmur64_after_frame (A : Arrays) (σ : Env) (v : Int) :
    runRet A (upd σ 3 v) GoModel.loop_murmurHashLong.after = runRet A σ GoModel.loop_murmurHashLong.after :=
  runRet_frame A 3 _ (by decide +kernel) σ v

theorem murmur64_full_bridge (pre init : List Stmt) (cond : Cond) (post body after : List Stmt)
    (hpure : isPure pre = true)
    (hpre : sameVars [4, 5, 6, 7, 1] (pre ++ init) GoModel.loop_murmurHashLong.pre = true)
    (hinit : normStmts init = normStmts GoModel.loop_murmurHashLong.init)
    (hcond : normC cond = normC GoModel.loop_murmurHashLong.cond)
    (hpost : normStmts post = normStmts GoModel.loop_murmurHashLong.post)
    (hbody : sameVars [4, 5, 6, 1, 7, 3] body GoModel.loop_murmurHashLong.body = true)
    (hafter : normStmts after = normStmts GoModel.loop_murmurHashLong.after)
    (data : Bytes) (hw : WFB data) (seed : Nat) (hs : seed < 4294967296) (hl : data.length < 2147483648)
    (ρ : Env) (h1 : ρ 1 = (data.length : Int)) (h2 : ρ 2 = (seed : Int)) (e : Nat) :
    callWhile (dataArrs data) pre init cond post body after (data.length / 8 + 1 + e) ρ
      = ((Murmur.murmur64 data seed : Nat) : Int) := by
  generalize hA : dataArrs data = A
  have eInit : ∀ σ, runEnv A σ init = runEnv A σ GoModel.loop_murmurHashLong.init := fun σ => (normStmts_eq hinit A σ).1
  have ePost : ∀ σ, runEnv A σ post = runEnv A σ GoModel.loop_murmurHashLong.post := fun σ => (normStmts_eq hpost A σ).1
  have eAfter : ∀ σ, runRet A σ after = runRet A σ GoModel.loop_murmurHashLong.after := fun σ => (normStmts_eq hafter A σ).2
  have hb (x : Nat) (hx : x ∈ [4, 5, 6, 1, 7, 3]) (σ : Env) := sameVars_eq hbody A σ x hx
  have p7 : runEnv A (runEnv A ρ pre) init 7 = ((data.length / 8 : Nat) : Int) := by
    rw [← runEnv_append A pre init ρ hpure, sameVars_eq hpre A ρ 7 (by simp)]
    exact (murmur64_pre_bridge A ρ data.length seed h1 h2 hl hs).2.2.2.1
  have glue := while_glue_gen A pre init cond post body after 3 (data.length / 8) ρ
    (fun σ => σ 7 = ((data.length / 8 : Nat) : Int))
    (runRet_pure A pre ρ hpure) p7
    (by rw [eInit]; simp [GoModel.loop_murmurHashLong.init, runEnv, eval, upd])
    (fun σ hI => by
      rw [evalC_tie hcond]
      simp only [GoModel.loop_murmurHashLong.cond, evalC, eval, hI]
      have : norm .i64 ((data.length / 8 : Nat) : Int) = ((data.length / 8 : Nat) : Int) := by
        simp only [norm, Ty.half, Ty.modulus]; omega
      rw [this])
    (fun σ => by rw [ePost]; rfl)
    (fun σ => by rw [hb 3 (by simp)]; exact murmur64_body_frame A σ 3 (by decide))
    (fun σ v hI => by
      show upd (runEnv A σ body) 3 v 7 = _
      simp only [upd, Nat.reduceEqDiff, if_false]
      rw [hb 7 (by simp), murmur64_body_frame A σ 7 (by decide)]; exact hI)
    (fun σ v => by rw [eAfter, eAfter]; exact murmur64_after_frame A σ v)
    (by omega) e
  rw [glue, ← runEnv_append A pre init ρ hpure]
  subst hA
  have hbody' : sameVars [4, 5, 6, 1] body GoModel.loop_murmurHashLong.body = true := by
    have := hbody; unfold sameVars at this ⊢
    rw [List.all_eq_true] at this ⊢
    intro x hx; exact this x (by simp at hx ⊢; omega)
  have := murmur64_fn_bridge (pre ++ init) body after hpre hbody' hafter data hw seed hs hl ρ h1 h2
  unfold callLoop at this
  exact this

/-! ### hash.HashAddr: `switch len(src)` -/

theorem len4_cases (src : List Nat) (h : src.length = 4) : ∃ a b c d, src = [a, b, c, d] := by
  match src, h with
  | [a, b, c, d], _ => exact ⟨a, b, c, d, rfl⟩
theorem len8_cases (src : List Nat) (h : src.length = 8) : ∃ a b c d e f g i, src = [a, b, c, d, e, f, g, i] := by
  match src, h with
  | [a, b, c, d, e, f, g, i], _ => exact ⟨a, b, c, d, e, f, g, i, rfl⟩

theorem hashAddr_4 (a b c d : Nat) : Hash.hashAddr [a, b, c, d]
    = Hash.wrap64 (Hash.wrap32 (a * 16777216 + b * 65536 + c * 256 + d) * Hash.wrap32 (a * 16777216 + b * 65536 + c * 256 + d)) := rfl
theorem hashAddr_8 (a b c d e f g h : Nat) :
    Hash.hashAddr [a, b, c, d, e, f, g, h] = (Hash.toLong [a, b, c, d, e, f, g, h]).getD 0 := rfl
theorem hashAddr_other (src : Bytes) (h4 : src.length ≠ 4) (h8 : src.length ≠ 8) : Hash.hashAddr src = Hash.hash src := by
  unfold Hash.hashAddr
  split
  · simp at h4
  · simp at h8
  · rfl

/-- identifiers: `ToInt(src)` 1, `c` 2, `ToLong(src)` 3, `Hash(src)` 4 — the three calls are pseudo-variables
    holding the callee's result (each callee has its own theorem: `toInt_tied`, `toLong_bytes_tied`, `hash_full_tied`) -/
theorem hashAddr_bridge (body : List Stmt) (hb : normStmts body = normStmts GoModel.fn_HashAddr.body)
    (src : Bytes) (hw : WFB src) (ρ : Env)
    (h1 : ρ 1 = (Hash.toInt src).getD 0) (h3 : ρ 3 = (Hash.toLong src).getD 0) (h4 : ρ 4 = Hash.hash src) :
    retVal (runRet (bufArrs src) ρ body) = Hash.hashAddr src := by
  rw [(normStmts_eq hb _ ρ).2]
  have hlen : (bufArrs src 0).length = src.length := by simp [bufArrs]
  have c4 : ([4] : List Int).contains ((src.length : Nat) : Int) = decide (src.length = 4) := by
    simp only [List.contains_cons, List.contains_nil, Bool.or_false]
    by_cases h : src.length = 4 <;> simp [h] <;> omega
  have c8 : ([8] : List Int).contains ((src.length : Nat) : Int) = decide (src.length = 8) := by
    simp only [List.contains_cons, List.contains_nil, Bool.or_false]
    by_cases h : src.length = 8 <;> simp [h] <;> omega
  simp only [GoModel.fn_HashAddr, runRet, eval, evalC, upd, hlen, c4, c8, if_true, Nat.reduceEqDiff, if_false]
  by_cases l4 : src.length = 4
  · simp only [l4, decide_true, cond_true, if_true, h1]
    rw [retVal_some]
    simp only [evalOp]
    obtain ⟨a, b, c, d, rfl⟩ := len4_cases src l4
    rw [hashAddr_4]
    have ti : Hash.toInt [a, b, c, d] = some (Hash.wrap32 (a * 16777216 + b * 65536 + c * 256 + d)) := rfl
    rw [ti, Option.getD_some]
    have hr : ∀ v : Int, norm .i64 (Hash.wrap32 v) = Hash.wrap32 v := by
      intro v; unfold Hash.wrap32; simp only [norm, Ty.half, Ty.modulus]; omega
    simp only [upd, if_true, hr]
    rfl
  · simp only [l4, decide_false, cond_false]
    by_cases l8 : src.length = 8
    · simp only [l8, decide_true, cond_true, h3]
      rw [retVal_some]
      obtain ⟨a, b, c, d, e, f, g, i, rfl⟩ := len8_cases src l8
      rw [hashAddr_8]
    · simp only [l8, decide_false, cond_false, h4]
      rw [retVal_some]
      have hh : norm .i64 (Hash.hash src) = Hash.hash src := by
        unfold Hash.hash Hash.toI32
        simp only [norm, Ty.half, Ty.modulus]; split <;> omega
      rw [hh, hashAddr_other src l4 l8]

end GoBridge
