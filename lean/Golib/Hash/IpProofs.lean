/-
  Golib.Hash.IpProofs — IPv4 conversions, strengthened: `ToBytes` on *every* text (which non-canonical
  texts it accepts and what it makes of them), the fixed points of `ToString ∘ ToBytes` are exactly the
  canonical dotted quads (with a decidable syntactic characterisation), text ⇄ bytes ⇄ int compose.
-/
import Golib.Hash.BitIpProofs

set_option linter.unusedVariables false

namespace IpUtil
open Strconv BitUtil

theorem octet_lt (p : List Char) : octet p < 256 := by
  unfold octet
  split <;> omega

/-- `ToBytes` always returns four bytes -/
theorem toBytes_wf (s : List Char) : (toBytes s).length = 4 ∧ WFB (toBytes s) := by
  have zero : ([0, 0, 0, 0] : Bytes).length = 4 ∧ WFB [0, 0, 0, 0] := ⟨rfl, by decide⟩
  unfold toBytes
  split
  · exact zero
  · split
    · rename_i a b c d _
      refine ⟨rfl, ?_⟩
      intro x hx
      simp only [List.mem_cons, List.not_mem_nil, or_false] at hx
      rcases hx with h | h | h | h <;> subst h <;> exact octet_lt _
    · exact zero

/-- join with dots -/
def joinDots : List (List Char) → List Char
  | [] => []
  | [p] => p
  | p :: q :: rest => p ++ '.' :: joinDots (q :: rest)

theorem splitOn_cons_ne (sep c : Char) (cs : List Char) (h : c ≠ sep) :
    splitOn sep (c :: cs) = match splitOn sep cs with | [] => [[c]] | p :: ps => (c :: p) :: ps := by
  rw [splitOn]; cases splitOn sep cs <;> simp [h]

theorem joinDots_splitOn (s : List Char) : joinDots (splitOn '.' s) = s := by
  induction s with
  | nil => rfl
  | cons c cs ih =>
    rw [splitOn]
    have hne := splitOn_ne_nil '.' cs
    cases hq : splitOn '.' cs with
    | nil => exact absurd hq hne
    | cons p ps =>
      rw [hq] at ih
      simp only
      by_cases hc : c = '.'
      · subst hc
        simp only [if_true]
        show [] ++ '.' :: joinDots (p :: ps) = '.' :: cs
        rw [ih]; rfl
      · simp only [hc, if_false]
        cases ps with
        | nil => simp only [joinDots] at ih ⊢; rw [ih]
        | cons q rest =>
          simp only [joinDots] at ih ⊢
          rw [List.cons_append, ih]

theorem splitOn_parts_nodot (s : List Char) : ∀ p ∈ splitOn '.' s, ∀ c ∈ p, c ≠ '.' := by
  induction s with
  | nil => intro p hp c hc; simp [splitOn] at hp; subst hp; simp at hc
  | cons x xs ih =>
    rw [splitOn]
    have hne := splitOn_ne_nil '.' xs
    cases hq : splitOn '.' xs with
    | nil => exact absurd hq hne
    | cons q qs =>
      rw [hq] at ih
      simp only
      by_cases hx : x = '.'
      · simp only [hx, if_true]
        intro p hp c hc
        simp only [List.mem_cons] at hp
        rcases hp with h | h
        · subst h; simp at hc
        · exact ih p (by simpa using h) c hc
      · simp only [hx, if_false]
        intro p hp c hc
        simp only [List.mem_cons] at hp
        rcases hp with h | h
        · subst h
          simp only [List.mem_cons] at hc
          rcases hc with h | h
          · subst h; exact hx
          · exact ih q (by simp) c h
        · exact ih p (by simp [h]) c hc

/-- **what `ToBytes` does with any text**: exactly four dot-separated parts ↦ one byte per part
    (`octet`: the part parsed by `strconv.Atoi`, reduced mod 256; 0 if it does not parse); anything else ↦ 0.0.0.0 -/
theorem toBytes_parts (a b c d : List Char) (ha : ∀ x ∈ a, x ≠ '.') (hb : ∀ x ∈ b, x ≠ '.')
    (hc : ∀ x ∈ c, x ≠ '.') (hd : ∀ x ∈ d, x ≠ '.') :
    toBytes (a ++ '.' :: (b ++ '.' :: (c ++ '.' :: d))) = [octet a, octet b, octet c, octet d] := by
  unfold toBytes
  have hne : (a ++ '.' :: (b ++ '.' :: (c ++ '.' :: d))).isEmpty = false := by cases a <;> simp
  simp only [hne, Bool.false_eq_true, if_false, splitOn_append _ _ _ ha, splitOn_append _ _ _ hb,
    splitOn_append _ _ _ hc, splitOn_nosep _ _ hd]

theorem toBytes_other (s : List Char) (h : (splitOn '.' s).length ≠ 4) : toBytes s = [0, 0, 0, 0] := by
  unfold toBytes
  split
  · rfl
  · split
    · rename_i a b c d hq; rw [hq] at h; simp at h
    · rfl

/-- the value of one part: sign, digits, range as `strconv.Atoi` has them -/
theorem octet_of_atoi (p : List Char) (v : Int) (h : atoi p = some v) : octet p = (v % 256).toNat := by
  unfold octet; rw [h]
theorem octet_of_fail (p : List Char) (h : atoi p = none) : octet p = 0 := by
  unfold octet; rw [h]

/-! ### canonical quads, syntactically -/

/-- a part is canonical iff it is the decimal numeral of its own value (no sign, no leading zero, ≤ 255) -/
def canonPart (p : List Char) : Bool := decide (itoaNat (octet p) = p)

def isCanonical (s : List Char) : Bool :=
  match splitOn '.' s with
  | [a, b, c, d] => canonPart a && canonPart b && canonPart c && canonPart d
  | _ => false

theorem canonical_iff (s : List Char) : canonical s ↔ isCanonical s = true := by
  constructor
  · rintro ⟨a, b, c, d, ha, hb, hc, hd, rfl⟩
    unfold isCanonical
    rw [splitOn_dotted a b c d ha hb hc hd]
    simp [canonPart, octet_itoa' ha, octet_itoa' hb, octet_itoa' hc, octet_itoa' hd]
  · intro h
    unfold isCanonical at h
    split at h
    · rename_i a b c d hq
      simp only [Bool.and_eq_true, canonPart, decide_eq_true_eq] at h
      obtain ⟨⟨⟨h1, h2⟩, h3⟩, h4⟩ := h
      refine ⟨octet a, octet b, octet c, octet d, octet_lt a, octet_lt b, octet_lt c, octet_lt d, ?_⟩
      have := joinDots_splitOn s
      rw [hq] at this
      simp only [joinDots] at this
      unfold dotted
      rw [h1, h2, h3, h4]
      exact this.symm
    · simp at h

/-- **`ToString ∘ ToBytes` fixes exactly the canonical quads** -/
theorem toString_toBytes_iff (s : List Char) : toString (toBytes s) = some s ↔ canonical s := by
  constructor
  · intro h
    have ⟨hl, hw⟩ := toBytes_wf s
    generalize toBytes s = bs at h hl hw
    rcases bs with _ | ⟨a, _ | ⟨b, _ | ⟨c, _ | ⟨d, _ | ⟨e, r⟩⟩⟩⟩⟩ <;> simp at hl
    have ⟨h0, hw⟩ := WFB_cons.mp hw
    have ⟨h1, hw⟩ := WFB_cons.mp hw
    have ⟨h2, hw⟩ := WFB_cons.mp hw
    have ⟨h3, hw⟩ := WFB_cons.mp hw
    simp only [toString, Option.some.injEq] at h
    exact ⟨a, b, c, d, h0, h1, h2, h3, h.symm⟩
  · exact toString_toBytes s

/-- `ToString` is injective on 4-byte addresses (so is `ToStringFrInt` on int32) -/
theorem toString_injective (a b c d a' b' c' d' : Nat) (ha : a < 256) (hb : b < 256) (hc : c < 256) (hd : d < 256)
    (ha' : a' < 256) (hb' : b' < 256) (hc' : c' < 256) (hd' : d' < 256)
    (h : toString [a, b, c, d] = toString [a', b', c', d']) : [a, b, c, d] = [a', b', c', d'] := by
  have e1 := toBytes_toString a b c d ha hb hc hd
  have e2 := toBytes_toString a' b' c' d' ha' hb' hc' hd'
  rw [h, e2] at e1
  exact (Option.some.inj e1).symm

/-- text ⇄ bytes ⇄ int compose: the dotted text of an int32 parses back to that int32 -/
theorem toInt_toBytes_toStringFrInt (i : Int) (hi : isI32 i) :
    (toStringFrInt i).map (fun s => toInt (toBytes s)) = some (some i) := by
  have h := toStringFrInt_roundtrip i
  cases hs : toStringFrInt i with
  | none => rw [hs] at h; simp at h
  | some s =>
    rw [hs] at h
    simp only [Option.map_some, Option.some.injEq] at h ⊢
    rw [h, toInt_toBytesFrInt i hi]

end IpUtil
