/-
  Golib.Hash.Hexa32Proofs — ToLong32 ∘ ToString32 = id on all of int64, the documented forms,
  and no intermediate value of `to_long` leaves int64 on encoder output.
-/
import Golib.Hash.Hexa32

namespace Hexa32
open Strconv

/-- `findc` inverts the digit alphabet (the first 32 entries are the ones `to_str` uses) -/
theorem findc_digitAt : ∀ k : Fin 36, findc (digitAt (k.val : Int)) = (k.val : Int) := by decide +kernel

theorem findc_digitAt' (k : Int) (h0 : 0 ≤ k) (h1 : k < 32) : findc (digitAt k) = k := by
  have := findc_digitAt ⟨k.toNat, by omega⟩
  have e : ((k.toNat : Nat) : Int) = k := by omega
  simp only [e] at this
  exact this

/-- Go's truncated division on a non-positive dividend, in terms of `/` and `%` on the magnitude -/
theorem tdiv_nonpos (i : Int) (h : i ≤ 0) : i.tdiv 32 = -((-i) / 32) := by
  have : i = -(-i) := by omega
  rw [this, Int.neg_tdiv, Int.tdiv_eq_ediv_of_nonneg (by omega)]
  simp

theorem tmod_nonpos (i : Int) (h : i ≤ 0) : i.tmod 32 = -((-i) % 32) := by
  have : i = -(-i) := by omega
  rw [this, Int.neg_tmod, Int.tmod_eq_emod_of_nonneg (by omega)]
  simp

/-- decoding what the digit loop produced for `i ≤ 0` continues from accumulator `i` -/
theorem toLongLoop_toStrLoop (n : Nat) : ∀ (i : Int) (acc : List Char), i.natAbs ≤ n → i ≤ 0 → limit ≤ i →
    toLongLoop 0 (toStrLoop i acc) = toLongLoop i acc := by
  induction n with
  | zero =>
    intro i acc hn h0 _
    have : i = 0 := by omega
    subst this
    rw [toStrLoop]
    simp only [show ¬ ((0 : Int) ≤ -32) by decide, dite_false]
    simp only [toLongLoop, findc_digitAt' (-0) (by decide) (by decide), multmin, limit]
    simp
  | succ n ih =>
    intro i acc hn h0 hl
    rw [toStrLoop]
    by_cases h : i ≤ -32
    · simp only [h, dite_true]
      have hd := tdiv_nonpos i h0
      have hm := tmod_nonpos i h0
      have hq : (i.tdiv 32).natAbs ≤ n := by rw [hd]; omega
      have h1 : i.tdiv 32 ≤ 0 := by rw [hd]; omega
      have h2 : limit ≤ i.tdiv 32 := by rw [hd]; unfold limit at *; omega
      rw [ih (i.tdiv 32) _ hq h1 h2]
      have hf : findc (digitAt (-(i.tmod 32))) = -(i.tmod 32) := findc_digitAt' _ (by rw [hm]; omega) (by rw [hm]; omega)
      rw [toLongLoop]
      simp only [hf]
      have g1 : ¬ (i.tdiv 32 < multmin) := by rw [hd]; unfold multmin limit at *; omega
      have g2 : ¬ (i.tdiv 32 * 32 < limit + -(i.tmod 32)) := by rw [hd, hm]; unfold limit at *; omega
      have e : i.tdiv 32 * 32 - -(i.tmod 32) = i := by rw [hd, hm]; omega
      simp only [g1, g2, if_false, e]
    · simp only [h, dite_false]
      have hf : findc (digitAt (-i)) = -i := findc_digitAt' _ (by omega) (by omega)
      rw [toLongLoop]
      simp only [hf]
      have g1 : ¬ ((0 : Int) < multmin) := by decide
      have g2 : ¬ ((0 : Int) * 32 < limit + -i) := by unfold limit at *; omega
      have e : (0 : Int) * 32 - -i = i := by omega
      simp only [g1, g2, if_false, e]

theorem toLong_toStr (v : Int) (h0 : 0 ≤ v) (h1 : v ≤ maxInt64) : toLong (toStr v) = v := by
  unfold toLong toStr
  rw [toLongLoop_toStrLoop (-v).natAbs (-v) [] (Nat.le_refl _) (by omega) (by unfold limit maxInt64 at *; omega)]
  simp [toLongLoop]

theorem itoa_digit : ∀ k : Fin 10, toLong32 (itoaNat k.val) = (k.val : Int) := by decide +kernel

theorem toStr_ne_min (v : Int) : 'z' :: toStr v = "z8000000000000".toList → toLong ('8' :: "000000000000".toList) = toLong (toStr v) := by
  intro h
  have : toStr v = "8000000000000".toList := by
    have := List.tail_eq_of_cons_eq h
    exact this
  rw [this]
  rfl

/-- **round trip**: decoding the encoding of any 64-bit integer returns it -/
theorem toLong32_toString32 (n : Int) (hlo : minInt64 ≤ n) (hhi : n ≤ maxInt64) :
    toLong32 (toString32 n) = n := by
  unfold toString32
  by_cases hneg : n < 0
  · simp only [hneg, if_true]
    by_cases hmin : n = minInt64
    · subst hmin; decide +kernel
    · simp only [hmin, if_false]
      have hv : toLong (toStr (-n)) = -n := toLong_toStr (-n) (by omega) (by unfold minInt64 maxInt64 at *; omega)
      unfold toLong32
      simp only [if_true]
      by_cases hs : ('z' :: toStr (-n)) = "z8000000000000".toList
      · -- the text of −2^63 cannot come from another number: its value would be 2^63 > maxInt64
        exfalso
        have e := toStr_ne_min (-n) hs
        rw [hv] at e
        have : toLong ('8' :: "000000000000".toList) = 0 := by decide +kernel
        rw [this] at e
        omega
      · simp only [hs, if_false, hv]; omega
  · simp only [hneg, if_false]
    by_cases h10 : n < 10
    · simp only [h10, if_true]
      have := itoa_digit ⟨n.toNat, by omega⟩
      simp only at this
      rw [this]; omega
    · simp only [h10, if_false]
      unfold toLong32
      simp only [show ('x' = 'z') = False by decide, if_false, if_true]
      exact toLong_toStr n (by omega) hhi

/-! ### `to_long` never leaves int64 (so modelling it on unbounded `Int` is exact) -/

theorem findc_nonneg (c : Char) : 0 ≤ findc c ∧ findc c ≤ 35 := by
  unfold findc
  simp only
  split
  · omega
  · split
    · omega
    · split <;> omega

/-- with the accumulator in `[limit, 0]` every intermediate value (`result * 32`, `limit + digit`,
    `result - digit`, `-result`) is within int64 and the accumulator stays in `[limit, 0]`;
    the returned value is in `[0, maxInt64]` -/
theorem toLongLoop_range (cs : List Char) : ∀ (r : Int), limit ≤ r → r ≤ 0 →
    0 ≤ toLongLoop r cs ∧ toLongLoop r cs ≤ maxInt64 := by
  induction cs with
  | nil => intro r h1 h2; unfold toLongLoop limit maxInt64 at *; omega
  | cons c cs ih =>
    intro r h1 h2
    have ⟨f0, f1⟩ := findc_nonneg c
    rw [toLongLoop]
    simp only
    split
    · unfold maxInt64; omega
    · split
      · unfold maxInt64; omega
      · rename_i g1 g2
        exact ih (r * 32 - findc c) (by unfold limit at *; omega) (by omega)

theorem toLong_range (s : List Char) : 0 ≤ toLong s ∧ toLong s ≤ maxInt64 :=
  toLongLoop_range s 0 (by decide) (by decide)

theorem atoiSigned_range (neg : Bool) (body : List Char) (i : Int) (h : atoiSigned neg body = some i) :
    minInt64 ≤ i ∧ i ≤ maxInt64 := by
  unfold atoiSigned at h
  split at h
  · simp at h
  · split at h
    · simp at h
    · rename_i n _
      cases neg with
      | true =>
        simp only [if_true] at h
        split at h
        · simp only [Option.some.injEq] at h; unfold minInt64 maxInt64; omega
        · simp at h
      | false =>
        simp only [Bool.false_eq_true, if_false] at h
        split at h
        · simp only [Option.some.injEq] at h; unfold minInt64 maxInt64; omega
        · simp at h

theorem atoi_range (s : List Char) (i : Int) (h : atoi s = some i) : minInt64 ≤ i ∧ i ≤ maxInt64 := by
  unfold atoi at h
  split at h <;> exact atoiSigned_range _ _ i h

/-- every value `ToLong32` returns is an int64 -/
theorem toLong32_range (s : List Char) : minInt64 ≤ toLong32 s ∧ toLong32 s ≤ maxInt64 := by
  unfold toLong32
  split
  · unfold minInt64 maxInt64; omega
  · rename_i c rest
    have ⟨a, b⟩ := toLong_range rest
    split
    · split
      · unfold minInt64 maxInt64; omega
      · unfold minInt64 maxInt64 at *; omega
    · split
      · unfold minInt64 maxInt64 at *; omega
      · split
        · rename_i i hi
          exact atoi_range _ i hi
        · unfold minInt64 maxInt64; omega

/-! ### canonical form: the text is *the* radix-32 numeral, not just a decodable one -/

/-- reference radix-32 numeral of a natural number: most significant digit first, digits `0-9a-v`,
    no leading zero (written from the definition of positional notation, not from the Go loop) -/
def refDigits (n : Nat) : List Char :=
  if _h : n < 32 then [digitAt (n : Int)] else refDigits (n / 32) ++ [digitAt ((n % 32 : Nat) : Int)]
termination_by n
decreasing_by omega

theorem toStrLoop_ref (n : Nat) : ∀ (m : Nat) (acc : List Char), m ≤ n →
    toStrLoop (-(m : Int)) acc = refDigits m ++ acc := by
  induction n with
  | zero =>
    intro m acc hm
    have : m = 0 := by omega
    subst this
    rw [toStrLoop, refDigits]
    simp
  | succ n ih =>
    intro m acc hm
    rw [toStrLoop, refDigits]
    by_cases h : m < 32
    · have h' : ¬ (-(m : Int) ≤ -32) := by omega
      simp only [h', dite_false, h, dite_true, Int.neg_neg, List.singleton_append]
    · have h' : (-(m : Int) ≤ -32) := by omega
      simp only [h', dite_true, h, dite_false]
      have hd := tdiv_nonpos (-(m : Int)) (by omega)
      have hm' := tmod_nonpos (-(m : Int)) (by omega)
      have e1 : (-(m : Int)).tdiv 32 = -((m / 32 : Nat) : Int) := by rw [hd]; omega
      have e2 : -((-(m : Int)).tmod 32) = ((m % 32 : Nat) : Int) := by rw [hm']; omega
      rw [e1, e2, ih (m / 32) _ (by omega)]
      simp

/-- the digit loop writes exactly the reference numeral of the magnitude -/
theorem toStr_canonical (v : Int) (hv : 0 ≤ v) : toStr v = refDigits v.toNat := by
  unfold toStr
  have : -v = -((v.toNat : Nat) : Int) := by omega
  rw [this, toStrLoop_ref v.toNat v.toNat [] (Nat.le_refl _)]
  simp

theorem digitAt_alphabet : ∀ k : Fin 32, (digitAt (k.val : Int)) ∈ digits.take 32 := by decide +kernel
theorem digitAt_ne_zero : ∀ k : Fin 32, k.val ≠ 0 → digitAt (k.val : Int) ≠ '0' := by decide +kernel

/-- every digit is in the alphabet `0-9a-v` -/
theorem refDigits_alphabet (n : Nat) : ∀ c ∈ refDigits n, c ∈ digits.take 32 := by
  induction n using Nat.strongRecOn with
  | _ n ih =>
    rw [refDigits]
    by_cases h : n < 32
    · simp only [h, dite_true, List.mem_singleton]
      intro c hc; subst hc; exact digitAt_alphabet ⟨n, h⟩
    · simp only [h, dite_false, List.mem_append, List.mem_singleton]
      intro c hc
      rcases hc with hc | hc
      · exact ih (n / 32) (by omega) c hc
      · subst hc; exact digitAt_alphabet ⟨n % 32, by omega⟩

/-- no leading zero: the first digit of a positive number is not `0` -/
theorem refDigits_head (n : Nat) (hn : 0 < n) : ∃ c rest, refDigits n = c :: rest ∧ c ≠ '0' := by
  induction n using Nat.strongRecOn with
  | _ n ih =>
    rw [refDigits]
    by_cases h : n < 32
    · simp only [h, dite_true]
      exact ⟨_, [], rfl, digitAt_ne_zero ⟨n, h⟩ (by simp; omega)⟩
    · simp only [h, dite_false]
      obtain ⟨c, rest, e, hc⟩ := ih (n / 32) (by omega) (by omega)
      exact ⟨c, rest ++ [digitAt ((n % 32 : Nat) : Int)], by rw [e]; rfl, hc⟩

end Hexa32
