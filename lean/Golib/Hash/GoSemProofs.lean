/-
  Golib.Hash.GoSemProofs — soundness of the normaliser of `GoSem`:
  inlining and operand sorting do not change what a block computes, for every environment.
-/
import Golib.Hash.GoSem

namespace GoSem

/-! ### inlining -/

/-- the environment a substitution denotes over the initial environment -/
def envOf (σ : List (Nat × Expr)) (ρ : Env) (A : Arrays) : Env :=
  fun n => match lookupE σ n with
    | some e => eval ρ A e
    | none => ρ n

theorem eval_subst (σ : List (Nat × Expr)) (ρ : Env) (A : Arrays) (e : Expr) :
    eval ρ A (subst σ e) = eval (envOf σ ρ A) A e := by
  induction e with
  | var n =>
    simp only [subst, eval, envOf]
    cases lookupE σ n <;> simp [eval]
  | lit v => rfl
  | conv t e ih => simp only [subst, eval, ih]
  | bin op t a b iha ihb => simp only [subst, eval, iha, ihb]
  | neg t e ih => simp only [subst, eval, ih]
  | not t e ih => simp only [subst, eval, ih]
  | idx a e ih => simp only [subst, eval, ih]
  | unknown w => rfl

theorem envOf_nil (ρ : Env) (A : Arrays) : envOf [] ρ A = ρ := by
  funext n; simp [envOf, lookupE]

theorem envOf_cons (σ : List (Nat × Expr)) (ρ : Env) (A : Arrays) (n : Nat) (e : Expr) :
    envOf ((n, subst σ e) :: σ) ρ A = upd (envOf σ ρ A) n (eval (envOf σ ρ A) A e) := by
  funext m
  simp only [envOf, lookupE, upd]
  by_cases h : n = m
  · subst h; simp [eval_subst]
  · have h' : ¬ m = n := fun e => h e.symm
    simp [h, h']

theorem inlineRet_sound (A : Arrays) (ρ : Env) : ∀ (body : List Stmt) (σ : List (Nat × Expr)) (e : Expr),
    inlineRet σ body = some e → runRet A (envOf σ ρ A) body = some (eval ρ A e) := by
  intro body
  induction body with
  | nil => intro σ e h; simp [inlineRet] at h
  | cons s rest ih =>
    intro σ e h
    cases s with
    | set n x =>
      simp only [inlineRet] at h
      have := ih _ _ h
      rw [envOf_cons] at this
      simpa [runRet, runEnv] using this
    | ret x =>
      simp only [inlineRet, Option.some.injEq] at h
      subst h
      simp [runRet, eval_subst]
    | setIf c n x => simp [inlineRet] at h
    | retIf c x => simp [inlineRet] at h
    | unknown w => simp [inlineRet] at h

theorem inlineVar_sound (A : Arrays) (ρ : Env) (out : Nat) : ∀ (body : List Stmt) (σ : List (Nat × Expr)) (e : Expr),
    inlineVar out σ body = some e → runEnv A (envOf σ ρ A) body out = eval ρ A e := by
  intro body
  induction body with
  | nil =>
    intro σ e h
    simp only [inlineVar, Option.some.injEq] at h
    subst h
    simp [runEnv, eval_subst, eval]
  | cons s rest ih =>
    intro σ e h
    cases s with
    | set n x =>
      simp only [inlineVar] at h
      have := ih _ _ h
      rw [envOf_cons] at this
      simpa [runRet, runEnv] using this
    | ret x => simp [inlineVar] at h
    | setIf c n x => simp [inlineVar] at h
    | retIf c x => simp [inlineVar] at h
    | unknown w => simp [inlineVar] at h

/-! ### the bit operators are associative and commutative on values of one type -/

theorem pat_lt (t : Ty) (v : Int) : pat t v < 2 ^ t.bits := by
  cases t <;> simp only [pat, Ty.modulus, Ty.bits, Nat.reducePow] <;> omega

/-- reading back the pattern of a wrapped natural below `2^bits` gives that natural -/
theorem pat_norm (t : Ty) (n : Nat) (h : n < 2 ^ t.bits) : pat t (norm t (n : Int)) = n := by
  cases t <;> simp only [pat, norm, Ty.modulus, Ty.half, Ty.bits, Nat.reducePow] at * <;> omega

theorem evalOp_comm (op : Op) (t : Ty) (a b : Int) (h : op.isAC = true ∨ op.isComm = true) :
    evalOp op t a b = evalOp op t b a := by
  cases op <;> simp [Op.isAC, Op.isComm] at h <;> simp only [evalOp, bitsOp]
  · rw [Nat.and_comm]
  · rw [Nat.or_comm]
  · rw [Nat.xor_comm]
  · rw [Int.add_comm]
  · rw [Int.mul_comm]

theorem evalOp_assoc (op : Op) (t : Ty) (a b c : Int) (h : op.isAC = true) :
    evalOp op t (evalOp op t a b) c = evalOp op t a (evalOp op t b c) := by
  have ha := pat_lt t a
  have hb := pat_lt t b
  have hc := pat_lt t c
  cases op <;> simp [Op.isAC] at h <;> simp only [evalOp, bitsOp]
  · rw [pat_norm t _ (Nat.and_lt_two_pow _ hb), pat_norm t _ (Nat.and_lt_two_pow _ hc), Nat.and_assoc]
  · rw [pat_norm t _ (Nat.or_lt_two_pow ha hb), pat_norm t _ (Nat.or_lt_two_pow hb hc), Nat.or_assoc]
  · rw [pat_norm t _ (Nat.xor_lt_two_pow ha hb), pat_norm t _ (Nat.xor_lt_two_pow hb hc), Nat.xor_assoc]

/-- value of a right-nested chain -/
def evalR (g : Int → Int → Int) : List Int → Int
  | [] => 0
  | [x] => x
  | x :: y :: ys => g x (evalR g (y :: ys))

theorem eval_rebuild (ρ : Env) (A : Arrays) (op : Op) (t : Ty) (xs : List Expr) :
    eval ρ A (rebuild op t xs) = evalR (evalOp op t) (xs.map (eval ρ A)) := by
  induction xs with
  | nil => rfl
  | cons x xs ih =>
    cases xs with
    | nil => rfl
    | cons y ys => simp only [rebuild, eval, List.map_cons, evalR] at *; rw [ih]

theorem evalR_cons (g : Int → Int → Int) (x : Int) (xs : List Int) (h : xs ≠ []) :
    evalR g (x :: xs) = g x (evalR g xs) := by
  cases xs with
  | nil => exact absurd rfl h
  | cons y ys => rfl

theorem evalR_append (g : Int → Int → Int) (assoc : ∀ a b c, g (g a b) c = g a (g b c))
    (xs ys : List Int) (hx : xs ≠ []) (hy : ys ≠ []) : evalR g (xs ++ ys) = g (evalR g xs) (evalR g ys) := by
  induction xs with
  | nil => exact absurd rfl hx
  | cons x xs ih =>
    cases xs with
    | nil => simp only [List.cons_append, List.nil_append]; rw [evalR_cons g x ys hy]; rfl
    | cons y ys' =>
      have := ih (by simp)
      rw [List.cons_append, evalR_cons g x _ (by simp), this, evalR_cons g x _ (by simp), assoc]

theorem evalR_perm (g : Int → Int → Int) (assoc : ∀ a b c, g (g a b) c = g a (g b c))
    (comm : ∀ a b, g a b = g b a) {xs ys : List Int} (h : xs.Perm ys) : evalR g xs = evalR g ys := by
  induction h with
  | nil => rfl
  | cons x hp ih =>
    rename_i l1 l2
    cases l1 with
    | nil => have := hp.symm.eq_nil; subst this; rfl
    | cons a l1 =>
      have : l2 ≠ [] := by intro e; subst e; exact absurd hp.eq_nil (by simp)
      rw [evalR_cons g x _ (by simp), evalR_cons g x _ this, ih]
  | swap x y l =>
    cases l with
    | nil => exact comm y x
    | cons a l =>
      rw [evalR_cons g y _ (by simp), evalR_cons g x _ (by simp), evalR_cons g x _ (by simp),
          evalR_cons g y _ (by simp), ← assoc, comm y x, assoc]
  | trans _ _ ih1 ih2 => rw [ih1, ih2]

theorem flatten_ne_nil (op : Op) (t : Ty) (e : Expr) : flatten op t e ≠ [] := by
  induction e with
  | bin op' t' a b iha ihb =>
    simp only [flatten]
    split
    · simp [iha]
    · simp
  | _ => simp [flatten]

theorem flatten_sound (ρ : Env) (A : Arrays) (op : Op) (t : Ty) (h : op.isAC = true) (e : Expr) :
    evalR (evalOp op t) ((flatten op t e).map (eval ρ A)) = eval ρ A e := by
  induction e with
  | bin op' t' a b iha ihb =>
    simp only [flatten]
    split
    · rename_i hc
      obtain ⟨rfl, rfl⟩ := hc
      rw [List.map_append, evalR_append _ (fun a b c => evalOp_assoc op' t' a b c h) _ _
        (by simpa using flatten_ne_nil op' t' a) (by simpa using flatten_ne_nil op' t' b), iha, ihb]
      rfl
    · rfl
  | _ => rfl

theorem insertE_perm (x : Expr) (l : List Expr) : (insertE x l).Perm (x :: l) := by
  induction l with
  | nil => exact List.Perm.refl _
  | cons y ys ih =>
    simp only [insertE]
    split
    · exact List.Perm.refl _
    · exact (List.Perm.cons y ih).trans (List.Perm.swap x y ys)

theorem sortE_perm (l : List Expr) : (sortE l).Perm l := by
  induction l with
  | nil => exact List.Perm.refl _
  | cons x xs ih => exact (insertE_perm x (sortE xs)).trans (List.Perm.cons x ih)

/-- the normaliser preserves the value of every expression in every environment -/
theorem normE_sound (ρ : Env) (A : Arrays) (e : Expr) : eval ρ A (normE e) = eval ρ A e := by
  induction e with
  | bin op t a b iha ihb =>
    simp only [normE]
    split
    · rename_i hac
      rw [eval_rebuild]
      have hp : (sortE (flatten op t (normE a) ++ flatten op t (normE b))).Perm
          (flatten op t (normE a) ++ flatten op t (normE b)) := sortE_perm _
      rw [evalR_perm _ (fun a b c => evalOp_assoc op t a b c hac) (fun a b => evalOp_comm op t a b (Or.inl hac))
        (hp.map (eval ρ A)), List.map_append,
        evalR_append _ (fun a b c => evalOp_assoc op t a b c hac) _ _
          (by simpa using flatten_ne_nil op t (normE a)) (by simpa using flatten_ne_nil op t (normE b)),
        flatten_sound ρ A op t hac, flatten_sound ρ A op t hac, iha, ihb]
      rfl
    · split
      · rename_i hc
        split
        · simp only [eval, iha, ihb]
        · simp only [eval, iha, ihb]; exact evalOp_comm op t _ _ (Or.inr hc)
      · simp only [eval, iha, ihb]
  | conv t e ih => simp only [normE, eval, ih]
  | neg t e ih => simp only [normE, eval, ih]
  | not t e ih => simp only [normE, eval, ih]
  | idx a e ih => simp only [normE, eval, ih]
  | var n => rfl
  | lit v => rfl
  | unknown w => rfl

/-! ### what the tie-A obligations use -/

/-- two blocks with the same canonical return expression return the same value on every input -/
theorem canonRet_eq {b1 b2 : List Stmt} (h : canonRet b1 = canonRet b2) (hs : (canonRet b2).isSome)
    (A : Arrays) (ρ : Env) : runRet A ρ b1 = runRet A ρ b2 := by
  unfold canonRet at *
  cases h1 : inlineRet [] b1 with
  | none => rw [h1] at h; cases h2 : inlineRet [] b2 <;> simp [h2] at hs h
  | some e1 =>
    cases h2 : inlineRet [] b2 with
    | none => simp [h2] at hs
    | some e2 =>
      rw [h1, h2] at h
      simp only [Option.map_some, Option.some.injEq] at h
      have r1 := inlineRet_sound A ρ b1 [] e1 h1
      have r2 := inlineRet_sound A ρ b2 [] e2 h2
      rw [envOf_nil] at r1 r2
      rw [r1, r2, ← normE_sound ρ A e1, ← normE_sound ρ A e2, h]

/-- two blocks with the same canonical expression for `out` leave the same value in `out` -/
theorem canonVar_eq {b1 b2 : List Stmt} {o1 o2 : Nat} (h : canonVar o1 b1 = canonVar o2 b2)
    (hs : (canonVar o2 b2).isSome) (A : Arrays) (ρ : Env) : step A ρ b1 o1 = step A ρ b2 o2 := by
  unfold canonVar at *
  unfold step
  cases h1 : inlineVar o1 [] b1 with
  | none => rw [h1] at h; cases h2 : inlineVar o2 [] b2 <;> simp [h2] at hs h
  | some e1 =>
    cases h2 : inlineVar o2 [] b2 with
    | none => simp [h2] at hs
    | some e2 =>
      rw [h1, h2] at h
      simp only [Option.map_some, Option.some.injEq] at h
      have r1 := inlineVar_sound A ρ o1 b1 [] e1 h1
      have r2 := inlineVar_sound A ρ o2 b2 [] e2 h2
      rw [envOf_nil] at r1 r2
      rw [r1, r2, ← normE_sound ρ A e1, ← normE_sound ρ A e2, h]

theorem call_congr {f g : Fn} (h : canonFn f = canonFn g) (hs : (canonRet g.body).isSome) (A : Arrays)
    (args : List Int) : call A f args = call A g args := by
  unfold canonFn at h
  simp only [Prod.mk.injEq] at h
  obtain ⟨hp, _, hb⟩ := h
  unfold call
  rw [hp, canonRet_eq hb hs]

theorem normC_sound (ρ : Env) (A : Arrays) (c : Cond) : evalC ρ A (normC c) = evalC ρ A c := by
  induction c with
  | lt a b => simp only [normC, evalC, normE_sound]
  | le a b => simp only [normC, evalC, normE_sound]
  | eq a b => simp only [normC, evalC, normE_sound]
  | ne a b => simp only [normC, evalC, normE_sound]
  | and c d ihc ihd => simp only [normC, evalC, ihc, ihd]
  | or c d ihc ihd => simp only [normC, evalC, ihc, ihd]
  | oneOf e vs => simp only [normC, evalC, normE_sound]
  | unknown w => rfl

theorem normStmts_runEnv (A : Arrays) (b : List Stmt) : ∀ ρ, runEnv A ρ (normStmts b) = runEnv A ρ b := by
  induction b with
  | nil => intro ρ; rfl
  | cons s rest ih =>
    intro ρ
    have ih' : ∀ ρ, runEnv A ρ (List.map normS rest) = runEnv A ρ rest := ih
    cases s with
    | set n e => simp only [normStmts, List.map_cons, normS, runEnv, normE_sound, ih']
    | setIf c n e => simp only [normStmts, List.map_cons, normS, runEnv, normE_sound, normC_sound, ih']
    | ret e => rfl
    | retIf c e => simp only [normStmts, List.map_cons, normS, runEnv, normC_sound, ih']
    | unknown w => rfl

theorem normStmts_runRet (A : Arrays) (b : List Stmt) : ∀ ρ, runRet A ρ (normStmts b) = runRet A ρ b := by
  induction b with
  | nil => intro ρ; rfl
  | cons s rest ih =>
    intro ρ
    have ih' : ∀ ρ, runRet A ρ (List.map normS rest) = runRet A ρ rest := ih
    cases s with
    | set n e => simp only [normStmts, List.map_cons, normS, runRet, normE_sound, ih']
    | setIf c n e => simp only [normStmts, List.map_cons, normS, runRet, normE_sound, normC_sound, ih']
    | ret e => simp only [normStmts, List.map_cons, normS, runRet, normE_sound]
    | retIf c e => simp only [normStmts, List.map_cons, normS, runRet, normE_sound, normC_sound, ih']
    | unknown w => rfl

/-- blocks with equal statement-wise normal forms behave alike -/
theorem normStmts_eq {b1 b2 : List Stmt} (h : normStmts b1 = normStmts b2) (A : Arrays) (ρ : Env) :
    runEnv A ρ b1 = runEnv A ρ b2 ∧ runRet A ρ b1 = runRet A ρ b2 := by
  constructor
  · rw [← normStmts_runEnv A b1, ← normStmts_runEnv A b2, h]
  · rw [← normStmts_runRet A b1, ← normStmts_runRet A b2, h]

/-- the variables `xs` have the same canonical expression in both blocks -/
def sameVars (xs : List Nat) (b1 b2 : List Stmt) : Bool :=
  xs.all fun x => decide (canonVar x b1 = canonVar x b2) && (canonVar x b2).isSome

theorem sameVars_eq {xs : List Nat} {b1 b2 : List Stmt} (h : sameVars xs b1 b2 = true) (A : Arrays) (ρ : Env)
    (x : Nat) (hx : x ∈ xs) : runEnv A ρ b1 x = runEnv A ρ b2 x := by
  unfold sameVars at h
  rw [List.all_eq_true] at h
  have := h x hx
  simp only [Bool.and_eq_true, decide_eq_true_eq] at this
  exact canonVar_eq this.1 this.2 A ρ

end GoSem
