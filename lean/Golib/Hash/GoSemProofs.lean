/-
  Golib.Hash.GoSemProofs — soundness of the normaliser of `GoSem`:
  inlining and operand sorting do not change what a block computes, for every environment.
-/
import Golib.Hash.GoSem

namespace GoSem

/-! ### inlining -/

/-- the environment a substitution denotes over the initial environment -/
def envOf (σ : List (Nat × Expr)) (ρ : Env) (A : Arrays) : Env :=
  fun n => match lookupE σ n with
    | some e => eval ρ A e
    | none => ρ n

theorem eval_subst (σ : List (Nat × Expr)) (ρ : Env) (A : Arrays) (e : Expr) :
    eval ρ A (subst σ e) = eval (envOf σ ρ A) A e := by
  induction e with
  | var n =>
    simp only [subst, eval, envOf]
    cases lookupE σ n <;> simp [eval]
  | lit v => rfl
  | conv t e ih => simp only [subst, eval, ih]
  | bin op t a b iha ihb => simp only [subst, eval, iha, ihb]
  | neg t e ih => simp only [subst, eval, ih]
  | not t e ih => simp only [subst, eval, ih]
  | idx a e ih => simp only [subst, eval, ih]
  | len a => rfl
  | unknown w => rfl

theorem envOf_nil (ρ : Env) (A : Arrays) : envOf [] ρ A = ρ := by
  funext n; simp [envOf, lookupE]

theorem envOf_cons (σ : List (Nat × Expr)) (ρ : Env) (A : Arrays) (n : Nat) (e : Expr) :
    envOf ((n, subst σ e) :: σ) ρ A = upd (envOf σ ρ A) n (eval (envOf σ ρ A) A e) := by
  funext m
  simp only [envOf, lookupE, upd]
  by_cases h : n = m
  · subst h; simp [eval_subst]
  · have h' : ¬ m = n := fun e => h e.symm
    simp [h, h']

theorem inlineRet_sound (A : Arrays) (ρ : Env) : ∀ (body : List Stmt) (σ : List (Nat × Expr)) (e : Expr),
    inlineRet σ body = some e → runRet A (envOf σ ρ A) body = some (eval ρ A e) := by
  intro body
  induction body with
  | nil => intro σ e h; simp [inlineRet] at h
  | cons s rest ih =>
    intro σ e h
    cases s with
    | set n x =>
      simp only [inlineRet] at h
      have := ih _ _ h
      rw [envOf_cons] at this
      simpa [runRet, runEnv] using this
    | ret x =>
      simp only [inlineRet, Option.some.injEq] at h
      subst h
      simp [runRet, eval_subst]
    | setIf c n x => simp [inlineRet] at h
    | retIf c x => simp [inlineRet] at h
    | unknown w => simp [inlineRet] at h

theorem inlineVar_sound (A : Arrays) (ρ : Env) (out : Nat) : ∀ (body : List Stmt) (σ : List (Nat × Expr)) (e : Expr),
    inlineVar out σ body = some e → runEnv A (envOf σ ρ A) body out = eval ρ A e := by
  intro body
  induction body with
  | nil =>
    intro σ e h
    simp only [inlineVar, Option.some.injEq] at h
    subst h
    simp [runEnv, eval_subst, eval]
  | cons s rest ih =>
    intro σ e h
    cases s with
    | set n x =>
      simp only [inlineVar] at h
      have := ih _ _ h
      rw [envOf_cons] at this
      simpa [runRet, runEnv] using this
    | ret x => simp [inlineVar] at h
    | setIf c n x => simp [inlineVar] at h
    | retIf c x => simp [inlineVar] at h
    | unknown w => simp [inlineVar] at h

/-! ### the bit operators are associative and commutative on values of one type -/

theorem pat_lt (t : Ty) (v : Int) : pat t v < 2 ^ t.bits := by
  cases t <;> simp only [pat, Ty.modulus, Ty.bits, Nat.reducePow] <;> omega

/-- reading back the pattern of a wrapped natural below `2^bits` gives that natural -/
theorem pat_norm (t : Ty) (n : Nat) (h : n < 2 ^ t.bits) : pat t (norm t (n : Int)) = n := by
  cases t <;> simp only [pat, norm, Ty.modulus, Ty.half, Ty.bits, Nat.reducePow] at * <;> omega

theorem evalOp_comm (op : Op) (t : Ty) (a b : Int) (h : op.isAC = true ∨ op.isComm = true) :
    evalOp op t a b = evalOp op t b a := by
  cases op <;> simp [Op.isAC, Op.isComm] at h <;> simp only [evalOp, bitsOp]
  · rw [Nat.and_comm]
  · rw [Nat.or_comm]
  · rw [Nat.xor_comm]
  · rw [Int.add_comm]
  · rw [Int.mul_comm]

theorem evalOp_assoc (op : Op) (t : Ty) (a b c : Int) (h : op.isAC = true) :
    evalOp op t (evalOp op t a b) c = evalOp op t a (evalOp op t b c) := by
  have ha := pat_lt t a
  have hb := pat_lt t b
  have hc := pat_lt t c
  cases op <;> simp [Op.isAC] at h <;> simp only [evalOp, bitsOp]
  · rw [pat_norm t _ (Nat.and_lt_two_pow _ hb), pat_norm t _ (Nat.and_lt_two_pow _ hc), Nat.and_assoc]
  · rw [pat_norm t _ (Nat.or_lt_two_pow ha hb), pat_norm t _ (Nat.or_lt_two_pow hb hc), Nat.or_assoc]
  · rw [pat_norm t _ (Nat.xor_lt_two_pow ha hb), pat_norm t _ (Nat.xor_lt_two_pow hb hc), Nat.xor_assoc]

/-- value of a right-nested chain -/
def evalR (g : Int → Int → Int) : List Int → Int
  | [] => 0
  | [x] => x
  | x :: y :: ys => g x (evalR g (y :: ys))

theorem eval_rebuild (ρ : Env) (A : Arrays) (op : Op) (t : Ty) (xs : List Expr) :
    eval ρ A (rebuild op t xs) = evalR (evalOp op t) (xs.map (eval ρ A)) := by
  induction xs with
  | nil => rfl
  | cons x xs ih =>
    cases xs with
    | nil => rfl
    | cons y ys => simp only [rebuild, eval, List.map_cons, evalR] at *; rw [ih]

theorem evalR_cons (g : Int → Int → Int) (x : Int) (xs : List Int) (h : xs ≠ []) :
    evalR g (x :: xs) = g x (evalR g xs) := by
  cases xs with
  | nil => exact absurd rfl h
  | cons y ys => rfl

theorem evalR_append (g : Int → Int → Int) (assoc : ∀ a b c, g (g a b) c = g a (g b c))
    (xs ys : List Int) (hx : xs ≠ []) (hy : ys ≠ []) : evalR g (xs ++ ys) = g (evalR g xs) (evalR g ys) := by
  induction xs with
  | nil => exact absurd rfl hx
  | cons x xs ih =>
    cases xs with
    | nil => simp only [List.cons_append, List.nil_append]; rw [evalR_cons g x ys hy]; rfl
    | cons y ys' =>
      have := ih (by simp)
      rw [List.cons_append, evalR_cons g x _ (by simp), this, evalR_cons g x _ (by simp), assoc]

theorem evalR_perm (g : Int → Int → Int) (assoc : ∀ a b c, g (g a b) c = g a (g b c))
    (comm : ∀ a b, g a b = g b a) {xs ys : List Int} (h : xs.Perm ys) : evalR g xs = evalR g ys := by
  induction h with
  | nil => rfl
  | cons x hp ih =>
    rename_i l1 l2
    cases l1 with
    | nil => have := hp.symm.eq_nil; subst this; rfl
    | cons a l1 =>
      have : l2 ≠ [] := by intro e; subst e; exact absurd hp.eq_nil (by simp)
      rw [evalR_cons g x _ (by simp), evalR_cons g x _ this, ih]
  | swap x y l =>
    cases l with
    | nil => exact comm y x
    | cons a l =>
      rw [evalR_cons g y _ (by simp), evalR_cons g x _ (by simp), evalR_cons g x _ (by simp),
          evalR_cons g y _ (by simp), ← assoc, comm y x, assoc]
  | trans _ _ ih1 ih2 => rw [ih1, ih2]

theorem flatten_ne_nil (op : Op) (t : Ty) (e : Expr) : flatten op t e ≠ [] := by
  induction e with
  | bin op' t' a b iha ihb =>
    simp only [flatten]
    split
    · simp [iha]
    · simp
  | _ => simp [flatten]

theorem flatten_sound (ρ : Env) (A : Arrays) (op : Op) (t : Ty) (h : op.isAC = true) (e : Expr) :
    evalR (evalOp op t) ((flatten op t e).map (eval ρ A)) = eval ρ A e := by
  induction e with
  | bin op' t' a b iha ihb =>
    simp only [flatten]
    split
    · rename_i hc
      obtain ⟨rfl, rfl⟩ := hc
      rw [List.map_append, evalR_append _ (fun a b c => evalOp_assoc op' t' a b c h) _ _
        (by simpa using flatten_ne_nil op' t' a) (by simpa using flatten_ne_nil op' t' b), iha, ihb]
      rfl
    · rfl
  | _ => rfl

theorem insertE_perm (x : Expr) (l : List Expr) : (insertE x l).Perm (x :: l) := by
  induction l with
  | nil => exact List.Perm.refl _
  | cons y ys ih =>
    simp only [insertE]
    split
    · exact List.Perm.refl _
    · exact (List.Perm.cons y ih).trans (List.Perm.swap x y ys)

theorem sortE_perm (l : List Expr) : (sortE l).Perm l := by
  induction l with
  | nil => exact List.Perm.refl _
  | cons x xs ih => exact (insertE_perm x (sortE xs)).trans (List.Perm.cons x ih)

/-- the normaliser preserves the value of every expression in every environment -/
theorem normE_sound (ρ : Env) (A : Arrays) (e : Expr) : eval ρ A (normE e) = eval ρ A e := by
  induction e with
  | bin op t a b iha ihb =>
    simp only [normE]
    split
    · rename_i hac
      rw [eval_rebuild]
      have hp : (sortE (flatten op t (normE a) ++ flatten op t (normE b))).Perm
          (flatten op t (normE a) ++ flatten op t (normE b)) := sortE_perm _
      rw [evalR_perm _ (fun a b c => evalOp_assoc op t a b c hac) (fun a b => evalOp_comm op t a b (Or.inl hac))
        (hp.map (eval ρ A)), List.map_append,
        evalR_append _ (fun a b c => evalOp_assoc op t a b c hac) _ _
          (by simpa using flatten_ne_nil op t (normE a)) (by simpa using flatten_ne_nil op t (normE b)),
        flatten_sound ρ A op t hac, flatten_sound ρ A op t hac, iha, ihb]
      rfl
    · split
      · rename_i hc
        split
        · simp only [eval, iha, ihb]
        · simp only [eval, iha, ihb]; exact evalOp_comm op t _ _ (Or.inr hc)
      · simp only [eval, iha, ihb]
  | conv t e ih => simp only [normE, eval, ih]
  | neg t e ih => simp only [normE, eval, ih]
  | not t e ih => simp only [normE, eval, ih]
  | idx a e ih => simp only [normE, eval, ih]
  | var n => rfl
  | lit v => rfl
  | len a => rfl
  | unknown w => rfl

/-! ### what the tie-A obligations use -/

/-- two blocks with the same canonical return expression return the same value on every input -/
theorem canonRet_eq {b1 b2 : List Stmt} (h : canonRet b1 = canonRet b2) (hs : (canonRet b2).isSome)
    (A : Arrays) (ρ : Env) : runRet A ρ b1 = runRet A ρ b2 := by
  unfold canonRet at *
  cases h1 : inlineRet [] b1 with
  | none => rw [h1] at h; cases h2 : inlineRet [] b2 <;> simp [h2] at hs h
  | some e1 =>
    cases h2 : inlineRet [] b2 with
    | none => simp [h2] at hs
    | some e2 =>
      rw [h1, h2] at h
      simp only [Option.map_some, Option.some.injEq] at h
      have r1 := inlineRet_sound A ρ b1 [] e1 h1
      have r2 := inlineRet_sound A ρ b2 [] e2 h2
      rw [envOf_nil] at r1 r2
      rw [r1, r2, ← normE_sound ρ A e1, ← normE_sound ρ A e2, h]

/-- two blocks with the same canonical expression for `out` leave the same value in `out` -/
theorem canonVar_eq {b1 b2 : List Stmt} {o1 o2 : Nat} (h : canonVar o1 b1 = canonVar o2 b2)
    (hs : (canonVar o2 b2).isSome) (A : Arrays) (ρ : Env) : step A ρ b1 o1 = step A ρ b2 o2 := by
  unfold canonVar at *
  unfold step
  cases h1 : inlineVar o1 [] b1 with
  | none => rw [h1] at h; cases h2 : inlineVar o2 [] b2 <;> simp [h2] at hs h
  | some e1 =>
    cases h2 : inlineVar o2 [] b2 with
    | none => simp [h2] at hs
    | some e2 =>
      rw [h1, h2] at h
      simp only [Option.map_some, Option.some.injEq] at h
      have r1 := inlineVar_sound A ρ o1 b1 [] e1 h1
      have r2 := inlineVar_sound A ρ o2 b2 [] e2 h2
      rw [envOf_nil] at r1 r2
      rw [r1, r2, ← normE_sound ρ A e1, ← normE_sound ρ A e2, h]

theorem call_congr {f g : Fn} (h : canonFn f = canonFn g) (hs : (canonRet g.body).isSome) (A : Arrays)
    (args : List Int) : call A f args = call A g args := by
  unfold canonFn at h
  simp only [Prod.mk.injEq] at h
  obtain ⟨hp, _, hb⟩ := h
  unfold call
  rw [hp, canonRet_eq hb hs]

theorem normC_sound (ρ : Env) (A : Arrays) (c : Cond) : evalC ρ A (normC c) = evalC ρ A c := by
  induction c with
  | lt a b => simp only [normC, evalC, normE_sound]
  | le a b => simp only [normC, evalC, normE_sound]
  | eq a b => simp only [normC, evalC, normE_sound]
  | ne a b => simp only [normC, evalC, normE_sound]
  | and c d ihc ihd => simp only [normC, evalC, ihc, ihd]
  | or c d ihc ihd => simp only [normC, evalC, ihc, ihd]
  | oneOf e vs => simp only [normC, evalC, normE_sound]
  | isNil a => rfl
  | unknown w => rfl

theorem normStmts_runEnv (A : Arrays) (b : List Stmt) : ∀ ρ, runEnv A ρ (normStmts b) = runEnv A ρ b := by
  induction b with
  | nil => intro ρ; rfl
  | cons s rest ih =>
    intro ρ
    have ih' : ∀ ρ, runEnv A ρ (List.map normS rest) = runEnv A ρ rest := ih
    cases s with
    | set n e => simp only [normStmts, List.map_cons, normS, runEnv, normE_sound, ih']
    | setIf c n e => simp only [normStmts, List.map_cons, normS, runEnv, normE_sound, normC_sound, ih']
    | ret e => rfl
    | retIf c e => simp only [normStmts, List.map_cons, normS, runEnv, normC_sound, ih']
    | unknown w => rfl

theorem normStmts_runRet (A : Arrays) (b : List Stmt) : ∀ ρ, runRet A ρ (normStmts b) = runRet A ρ b := by
  induction b with
  | nil => intro ρ; rfl
  | cons s rest ih =>
    intro ρ
    have ih' : ∀ ρ, runRet A ρ (List.map normS rest) = runRet A ρ rest := ih
    cases s with
    | set n e => simp only [normStmts, List.map_cons, normS, runRet, normE_sound, ih']
    | setIf c n e => simp only [normStmts, List.map_cons, normS, runRet, normE_sound, normC_sound, ih']
    | ret e => simp only [normStmts, List.map_cons, normS, runRet, normE_sound]
    | retIf c e => simp only [normStmts, List.map_cons, normS, runRet, normE_sound, normC_sound, ih']
    | unknown w => rfl

/-- blocks with equal statement-wise normal forms behave alike -/
theorem normStmts_eq {b1 b2 : List Stmt} (h : normStmts b1 = normStmts b2) (A : Arrays) (ρ : Env) :
    runEnv A ρ b1 = runEnv A ρ b2 ∧ runRet A ρ b1 = runRet A ρ b2 := by
  constructor
  · rw [← normStmts_runEnv A b1, ← normStmts_runEnv A b2, h]
  · rw [← normStmts_runRet A b1, ← normStmts_runRet A b2, h]

/-- the variables `xs` have the same canonical expression in both blocks -/
def sameVars (xs : List Nat) (b1 b2 : List Stmt) : Bool :=
  xs.all fun x => decide (canonVar x b1 = canonVar x b2) && (canonVar x b2).isSome

theorem sameVars_eq {xs : List Nat} {b1 b2 : List Stmt} (h : sameVars xs b1 b2 = true) (A : Arrays) (ρ : Env)
    (x : Nat) (hx : x ∈ xs) : runEnv A ρ b1 x = runEnv A ρ b2 x := by
  unfold sameVars at h
  rw [List.all_eq_true] at h
  have := h x hx
  simp only [Bool.and_eq_true, decide_eq_true_eq] at this
  exact canonVar_eq this.1 this.2 A ρ

/-! ### the counting loop `for i := k; i < N; i++` is `forLoop` -/

theorem upd_self (ρ : Env) (n : Nat) : upd ρ n (ρ n) = ρ := by
  funext m; simp only [upd]; split <;> simp_all

theorem upd_upd (ρ : Env) (n : Nat) (a b : Int) : upd (upd ρ n a) n b = upd ρ n b := by
  funext m; simp only [upd]; split <;> rfl

theorem forLoop_upd_start (A : Arrays) (body : List Stmt) (iv : Nat) (N : Int) :
    ∀ (n k : Nat) (σ : Env), upd (forLoop A body iv n k (upd σ iv (k : Int))) iv N = upd (forLoop A body iv n k σ) iv N := by
  intro n k σ
  cases n with
  | zero => simp only [forLoop, upd_upd]
  | succ n => simp only [forLoop, upd_upd]

/-- If, on the environments the loop goes through (`Inv`), the condition is `i < N`, and one round (body
    then post statement) leaves `i + 1` in the loop variable and re-establishes `Inv`, then the `while`
    semantics of the loop with `N - k + 1` units of fuel is `forLoop` (up to the final value `N` of the loop
    variable). -/
theorem whileLoop_forLoop (A : Arrays) (cond : Cond) (body post : List Stmt) (iv N : Nat) (Inv : Env → Prop)
    (hcond : ∀ ρ, Inv ρ → evalC ρ A cond = ltb (ρ iv) (N : Int))
    (hstep : ∀ (ρ : Env) (k : Nat), Inv ρ → ρ iv = (k : Int) → k < N →
      runEnv A (runEnv A ρ body) post = upd (runEnv A ρ body) iv ((k + 1 : Nat) : Int)
      ∧ Inv (upd (runEnv A ρ body) iv ((k + 1 : Nat) : Int))) (e : Nat) :
    ∀ (n k : Nat) (ρ : Env), Inv ρ → ρ iv = (k : Int) → k + n = N →
      whileLoop A cond body post (n + 1 + e) ρ = upd (forLoop A body iv n k ρ) iv (N : Int) := by
  intro n
  induction n with
  | zero =>
    intro k ρ hI hk hN
    have : k = N := by omega
    subst this
    have ef : 0 + 1 + e = e + 1 := by omega
    rw [ef, whileLoop, hcond ρ hI, hk]
    have : ltb (k : Int) (k : Int) = false := (ltb_false _ _).mpr (by omega)
    rw [this, cond_false, forLoop, ← hk, upd_self]
  | succ n ih =>
    intro k ρ hI hk hN
    have ef : n + 1 + 1 + e = (n + 1 + e) + 1 := by omega
    rw [ef, whileLoop, hcond ρ hI, hk]
    have : ltb (k : Int) (N : Int) = true := (ltb_iff _ _).mpr (by omega)
    rw [this, cond_true]
    have ⟨e1, hI'⟩ := hstep ρ k hI hk (by omega)
    rw [e1, ih (k + 1) _ hI' (by simp [upd]) (by omega), forLoop_upd_start, forLoop]
    have : upd ρ iv (k : Int) = ρ := by rw [← hk, upd_self]
    rw [this]

/-- glue for functions of the shape `pre; for i := 0; i < sz; i++ { body }; after` with loop variable 1 and the
    bound in variable 3: the `while` reading of the transcribed header is `forLoop` over `N` iterations -/
theorem while_glue (A : Arrays) (pre init : List Stmt) (cond : Cond) (post body after : List Stmt) (N : Nat) (ρ : Env)
    (hpre : runRet A ρ pre = none)
    (h1 : runEnv A (runEnv A ρ pre) init 1 = 0) (h3 : runEnv A (runEnv A ρ pre) init 3 = (N : Int))
    (hcond : ∀ σ, evalC σ A cond = ltb (σ 1) (σ 3))
    (hpost : ∀ σ, runEnv A σ post = upd σ 1 (norm .i64 (σ 1 + 1)))
    (hframe : ∀ σ, runEnv A σ body 1 = σ 1 ∧ runEnv A σ body 3 = σ 3)
    (hafter : ∀ σ v, runRet A (upd σ 1 v) after = runRet A σ after)
    (hN : N < 4611686018427387904) (e : Nat) :
    callWhile A pre init cond post body after (N + 1 + e) ρ
      = retVal (runRet A (forLoop A body 1 N 0 (runEnv A (runEnv A ρ pre) init)) after) := by
  unfold callWhile
  rw [hpre]
  simp only []
  have := whileLoop_forLoop A cond body post 1 N (fun σ => σ 3 = (N : Int))
    (fun σ hI => by rw [hcond, hI])
    (fun σ k hI hk hlt => by
      have ⟨f1, f3⟩ := hframe σ
      constructor
      · rw [hpost, f1, hk]
        have : norm .i64 ((k : Int) + 1) = ((k + 1 : Nat) : Int) := by
          simp only [norm, Ty.half, Ty.modulus]; omega
        rw [this]
      · show upd (runEnv A σ body) 1 _ 3 = _
        simp only [upd, Nat.reduceEqDiff, if_false]
        rw [f3]; exact hI)
    e N 0 (runEnv A (runEnv A ρ pre) init) h3 (by rw [h1]; rfl) (by omega)
  rw [this, hafter]


/-- general glue: loop variable `iv`, any invariant that makes the condition `i < N` -/
theorem while_glue_gen (A : Arrays) (pre init : List Stmt) (cond : Cond) (post body after : List Stmt) (iv N : Nat)
    (ρ : Env) (Inv : Env → Prop)
    (hpre : runRet A ρ pre = none)
    (hI0 : Inv (runEnv A (runEnv A ρ pre) init)) (h1 : runEnv A (runEnv A ρ pre) init iv = 0)
    (hcond : ∀ σ, Inv σ → evalC σ A cond = ltb (σ iv) (N : Int))
    (hpost : ∀ σ, runEnv A σ post = upd σ iv (norm .i64 (σ iv + 1)))
    (hframe : ∀ σ, runEnv A σ body iv = σ iv)
    (hinv : ∀ σ v, Inv σ → Inv (upd (runEnv A σ body) iv v))
    (hafter : ∀ σ v, runRet A (upd σ iv v) after = runRet A σ after)
    (hN : N < 4611686018427387904) (e : Nat) :
    callWhile A pre init cond post body after (N + 1 + e) ρ
      = retVal (runRet A (forLoop A body iv N 0 (runEnv A (runEnv A ρ pre) init)) after) := by
  unfold callWhile
  rw [hpre]
  simp only []
  have := whileLoop_forLoop A cond body post iv N Inv hcond
    (fun σ k hI hk hlt => by
      constructor
      · rw [hpost, hframe, hk]
        have : norm .i64 ((k : Int) + 1) = ((k + 1 : Nat) : Int) := by
          simp only [norm, Ty.half, Ty.modulus]; omega
        rw [this]
      · exact hinv σ _ hI)
    e N 0 (runEnv A (runEnv A ρ pre) init) hI0 (by rw [h1]; rfl) (by omega)
  rw [this, hafter]

/-- a block of plain assignments -/
def isPure : List Stmt → Bool
  | [] => true
  | .set _ _ :: rest => isPure rest
  | _ => false

theorem runRet_pure (A : Arrays) : ∀ (b : List Stmt) (ρ : Env), isPure b = true → runRet A ρ b = none := by
  intro b
  induction b with
  | nil => intro ρ _; rfl
  | cons s rest ih =>
    intro ρ h
    cases s <;> simp [isPure] at h
    simp only [runRet]; exact ih _ h

theorem runEnv_append (A : Arrays) : ∀ (b1 b2 : List Stmt) (ρ : Env), isPure b1 = true →
    runEnv A ρ (b1 ++ b2) = runEnv A (runEnv A ρ b1) b2 := by
  intro b1
  induction b1 with
  | nil => intro b2 ρ _; rfl
  | cons s rest ih =>
    intro b2 ρ h
    cases s <;> simp [isPure] at h
    simp only [List.cons_append, runEnv]; exact ih _ _ h


/-! ### frame: a block that never reads variable `x` does not depend on it -/

def Expr.uses (x : Nat) : Expr → Bool
  | .var n => n == x
  | .lit _ => false
  | .conv _ e => e.uses x
  | .bin _ _ a b => a.uses x || b.uses x
  | .neg _ e => e.uses x
  | .not _ e => e.uses x
  | .idx _ e => e.uses x
  | .len _ => false
  | .unknown _ => true

def Cond.uses (x : Nat) : Cond → Bool
  | .lt a b | .le a b | .eq a b | .ne a b => a.uses x || b.uses x
  | .and c d | .or c d => c.uses x || d.uses x
  | .oneOf e _ => e.uses x
  | .isNil _ => false
  | .unknown _ => true

def Stmt.reads (x : Nat) : Stmt → Bool
  | .set _ e => e.uses x
  | .setIf c _ e => c.uses x || e.uses x
  | .ret e => e.uses x
  | .retIf c e => c.uses x || e.uses x
  | .unknown _ => true

def agreeExcept (x : Nat) (ρ ρ' : Env) : Prop := ∀ n, n ≠ x → ρ n = ρ' n

theorem eval_agree (A : Arrays) (x : Nat) (ρ ρ' : Env) (h : agreeExcept x ρ ρ') (e : Expr) (he : e.uses x = false) :
    eval ρ A e = eval ρ' A e := by
  induction e with
  | var n => simp only [Expr.uses, beq_eq_false_iff_ne] at he; exact h n he
  | lit v => rfl
  | conv t e ih => simp only [Expr.uses] at he; simp only [eval, ih he]
  | bin op t a b iha ihb =>
    simp only [Expr.uses, Bool.or_eq_false_iff] at he
    simp only [eval, iha he.1, ihb he.2]
  | neg t e ih => simp only [Expr.uses] at he; simp only [eval, ih he]
  | not t e ih => simp only [Expr.uses] at he; simp only [eval, ih he]
  | idx a e ih => simp only [Expr.uses] at he; simp only [eval, ih he]
  | len a => rfl
  | unknown w => simp [Expr.uses] at he

theorem evalC_agree (A : Arrays) (x : Nat) (ρ ρ' : Env) (h : agreeExcept x ρ ρ') (c : Cond) (hc : c.uses x = false) :
    evalC ρ A c = evalC ρ' A c := by
  induction c with
  | lt a b => simp only [Cond.uses, Bool.or_eq_false_iff] at hc; simp only [evalC, eval_agree A x ρ ρ' h a hc.1, eval_agree A x ρ ρ' h b hc.2]
  | le a b => simp only [Cond.uses, Bool.or_eq_false_iff] at hc; simp only [evalC, eval_agree A x ρ ρ' h a hc.1, eval_agree A x ρ ρ' h b hc.2]
  | eq a b => simp only [Cond.uses, Bool.or_eq_false_iff] at hc; simp only [evalC, eval_agree A x ρ ρ' h a hc.1, eval_agree A x ρ ρ' h b hc.2]
  | ne a b => simp only [Cond.uses, Bool.or_eq_false_iff] at hc; simp only [evalC, eval_agree A x ρ ρ' h a hc.1, eval_agree A x ρ ρ' h b hc.2]
  | and c d ihc ihd => simp only [Cond.uses, Bool.or_eq_false_iff] at hc; simp only [evalC, ihc hc.1, ihd hc.2]
  | or c d ihc ihd => simp only [Cond.uses, Bool.or_eq_false_iff] at hc; simp only [evalC, ihc hc.1, ihd hc.2]
  | oneOf e vs => simp only [Cond.uses] at hc; simp only [evalC, eval_agree A x ρ ρ' h e hc]
  | isNil a => rfl
  | unknown w => simp [Cond.uses] at hc

theorem agree_upd (x n : Nat) (v : Int) {ρ ρ' : Env} (h : agreeExcept x ρ ρ') : agreeExcept x (upd ρ n v) (upd ρ' n v) := by
  intro m hm; simp only [upd]; split
  · rfl
  · exact h m hm

theorem runRet_agree (A : Arrays) (x : Nat) : ∀ (b : List Stmt) (ρ ρ' : Env), agreeExcept x ρ ρ' →
    b.all (fun s => !s.reads x) = true → runRet A ρ b = runRet A ρ' b := by
  intro b
  induction b with
  | nil => intro ρ ρ' _ _; rfl
  | cons s rest ih =>
    intro ρ ρ' h hb
    simp only [List.all_cons, Bool.and_eq_true, Bool.not_eq_true'] at hb
    obtain ⟨hs, hr⟩ := hb
    have hr' : rest.all (fun s => !s.reads x) = true := by simpa using hr
    cases s with
    | set n e =>
      simp only [Stmt.reads] at hs
      simp only [runRet, eval_agree A x ρ ρ' h e hs]
      exact ih _ _ (agree_upd x n _ h) hr'
    | setIf c n e =>
      simp only [Stmt.reads, Bool.or_eq_false_iff] at hs
      simp only [runRet, eval_agree A x ρ ρ' h e hs.2, evalC_agree A x ρ ρ' h c hs.1]
      cases evalC ρ' A c
      · exact ih _ _ h hr'
      · exact ih _ _ (agree_upd x n _ h) hr'
    | ret e => simp only [Stmt.reads] at hs; simp only [runRet, eval_agree A x ρ ρ' h e hs]
    | retIf c e =>
      simp only [Stmt.reads, Bool.or_eq_false_iff] at hs
      simp only [runRet, eval_agree A x ρ ρ' h e hs.2, evalC_agree A x ρ ρ' h c hs.1]
      cases evalC ρ' A c
      · exact ih _ _ h hr'
      · rfl
    | unknown w => simp [Stmt.reads] at hs

/-- a block that never reads `x` returns the same value whatever `x` holds -/
theorem runRet_frame (A : Arrays) (x : Nat) (b : List Stmt) (hb : b.all (fun s => !s.reads x) = true) (σ : Env) (v : Int) :
    runRet A (upd σ x v) b = runRet A σ b :=
  runRet_agree A x b _ _ (fun n hn => by simp [upd, hn]) hb


end GoSem
