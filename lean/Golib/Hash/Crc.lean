/-
  Golib.Hash.Crc — CodeModel of util/hash/HashUtil.go (Hash, HashStr, Hash64, Hash64v2, Hash64V2,
  HashAddr, ToInt, ToLong) and the Spec it is measured against: bit-by-bit CRC-32 (IEEE 802.3,
  reflected polynomial 0xEDB88320, initial value and final xor 0xFFFFFFFF).

  Unsigned Go integers are modelled as `Nat` (the value of the bit pattern); the conversions
  `uint8(x)`, `uint32(x)`, `uint64(x)` are `% 2^8/2^32/2^64`, `int32(x)`/`int64(x)` read a pattern as
  two's complement (`toI32`/`toI64`).  `^`, `>>`, `&` on unsigned values are `^^^`, `>>>`, `&&&` on `Nat`.

  (core Lean only; imported by the driver)
-/
import Golib.Basic

namespace Hash

/-- `var table = [...]int64{…}` of HashUtil.go (hand copy; tie A regenerates `Gen.C15.crcTable` from the
    source on every run and `C15Gen.table_tied` checks the two are the same list). -/
def table : List Nat := [
  0x00000000, 0x77073096, 0xee0e612c, 0x990951ba, 0x076dc419, 0x706af48f, 0xe963a535, 0x9e6495a3,
  0x0edb8832, 0x79dcb8a4, 0xe0d5e91e, 0x97d2d988, 0x09b64c2b, 0x7eb17cbd, 0xe7b82d07, 0x90bf1d91,
  0x1db71064, 0x6ab020f2, 0xf3b97148, 0x84be41de, 0x1adad47d, 0x6ddde4eb, 0xf4d4b551, 0x83d385c7,
  0x136c9856, 0x646ba8c0, 0xfd62f97a, 0x8a65c9ec, 0x14015c4f, 0x63066cd9, 0xfa0f3d63, 0x8d080df5,
  0x3b6e20c8, 0x4c69105e, 0xd56041e4, 0xa2677172, 0x3c03e4d1, 0x4b04d447, 0xd20d85fd, 0xa50ab56b,
  0x35b5a8fa, 0x42b2986c, 0xdbbbc9d6, 0xacbcf940, 0x32d86ce3, 0x45df5c75, 0xdcd60dcf, 0xabd13d59,
  0x26d930ac, 0x51de003a, 0xc8d75180, 0xbfd06116, 0x21b4f4b5, 0x56b3c423, 0xcfba9599, 0xb8bda50f,
  0x2802b89e, 0x5f058808, 0xc60cd9b2, 0xb10be924, 0x2f6f7c87, 0x58684c11, 0xc1611dab, 0xb6662d3d,
  0x76dc4190, 0x01db7106, 0x98d220bc, 0xefd5102a, 0x71b18589, 0x06b6b51f, 0x9fbfe4a5, 0xe8b8d433,
  0x7807c9a2, 0x0f00f934, 0x9609a88e, 0xe10e9818, 0x7f6a0dbb, 0x086d3d2d, 0x91646c97, 0xe6635c01,
  0x6b6b51f4, 0x1c6c6162, 0x856530d8, 0xf262004e, 0x6c0695ed, 0x1b01a57b, 0x8208f4c1, 0xf50fc457,
  0x65b0d9c6, 0x12b7e950, 0x8bbeb8ea, 0xfcb9887c, 0x62dd1ddf, 0x15da2d49, 0x8cd37cf3, 0xfbd44c65,
  0x4db26158, 0x3ab551ce, 0xa3bc0074, 0xd4bb30e2, 0x4adfa541, 0x3dd895d7, 0xa4d1c46d, 0xd3d6f4fb,
  0x4369e96a, 0x346ed9fc, 0xad678846, 0xda60b8d0, 0x44042d73, 0x33031de5, 0xaa0a4c5f, 0xdd0d7cc9,
  0x5005713c, 0x270241aa, 0xbe0b1010, 0xc90c2086, 0x5768b525, 0x206f85b3, 0xb966d409, 0xce61e49f,
  0x5edef90e, 0x29d9c998, 0xb0d09822, 0xc7d7a8b4, 0x59b33d17, 0x2eb40d81, 0xb7bd5c3b, 0xc0ba6cad,
  0xedb88320, 0x9abfb3b6, 0x03b6e20c, 0x74b1d29a, 0xead54739, 0x9dd277af, 0x04db2615, 0x73dc1683,
  0xe3630b12, 0x94643b84, 0x0d6d6a3e, 0x7a6a5aa8, 0xe40ecf0b, 0x9309ff9d, 0x0a00ae27, 0x7d079eb1,
  0xf00f9344, 0x8708a3d2, 0x1e01f268, 0x6906c2fe, 0xf762575d, 0x806567cb, 0x196c3671, 0x6e6b06e7,
  0xfed41b76, 0x89d32be0, 0x10da7a5a, 0x67dd4acc, 0xf9b9df6f, 0x8ebeeff9, 0x17b7be43, 0x60b08ed5,
  0xd6d6a3e8, 0xa1d1937e, 0x38d8c2c4, 0x4fdff252, 0xd1bb67f1, 0xa6bc5767, 0x3fb506dd, 0x48b2364b,
  0xd80d2bda, 0xaf0a1b4c, 0x36034af6, 0x41047a60, 0xdf60efc3, 0xa867df55, 0x316e8eef, 0x4669be79,
  0xcb61b38c, 0xbc66831a, 0x256fd2a0, 0x5268e236, 0xcc0c7795, 0xbb0b4703, 0x220216b9, 0x5505262f,
  0xc5ba3bbe, 0xb2bd0b28, 0x2bb45a92, 0x5cb36a04, 0xc2d7ffa7, 0xb5d0cf31, 0x2cd99e8b, 0x5bdeae1d,
  0x9b64c2b0, 0xec63f226, 0x756aa39c, 0x026d930a, 0x9c0906a9, 0xeb0e363f, 0x72076785, 0x05005713,
  0x95bf4a82, 0xe2b87a14, 0x7bb12bae, 0x0cb61b38, 0x92d28e9b, 0xe5d5be0d, 0x7cdcefb7, 0x0bdbdf21,
  0x86d3d2d4, 0xf1d4e242, 0x68ddb3f8, 0x1fda836e, 0x81be16cd, 0xf6b9265b, 0x6fb077e1, 0x18b74777,
  0x88085ae6, 0xff0f6a70, 0x66063bca, 0x11010b5c, 0x8f659eff, 0xf862ae69, 0x616bffd3, 0x166ccf45,
  0xa00ae278, 0xd70dd2ee, 0x4e048354, 0x3903b3c2, 0xa7672661, 0xd06016f7, 0x4969474d, 0x3e6e77db,
  0xaed16a4a, 0xd9d65adc, 0x40df0b66, 0x37d83bf0, 0xa9bcae53, 0xdebb9ec5, 0x47b2cf7f, 0x30b5ffe9,
  0xbdbdf21c, 0xcabac28a, 0x53b39330, 0x24b4a3a6, 0xbad03605, 0xcdd70693, 0x54de5729, 0x23d967bf,
  0xb3667a2e, 0xc4614ab8, 0x5d681b02, 0x2a6f2b94, 0xb40bbe37, 0xc30c8ea1, 0x5a05df1b, 0x2d02ef8d]

def tableArr : Array Nat := ⟨table⟩

/-- `table[i]` (index always `< 256` in the code: it is a `uint8`) -/
@[inline] def tbl (i : Nat) : Nat := tableArr.getD i 0

/-- read a 32-bit pattern as Go `int32` -/
def toI32 (u : Nat) : Int :=
  if u % 4294967296 < 2147483648 then ((u % 4294967296 : Nat) : Int) else ((u % 4294967296 : Nat) : Int) - 4294967296

/-- read a 64-bit pattern as Go `int64` -/
def toI64 (u : Nat) : Int :=
  if u % 18446744073709551616 < 9223372036854775808 then ((u % 18446744073709551616 : Nat) : Int)
  else ((u % 18446744073709551616 : Nat) : Int) - 18446744073709551616

/-- `uint64(int32(t))`: truncate to 32 bits, sign-extend to 64 -/
def sext32to64 (t : Nat) : Nat :=
  if t % 4294967296 < 2147483648 then t % 4294967296 else t % 4294967296 + 18446744069414584320

/-! ### `Hash` : the table-driven loop -/

/-- loop body of `Hash`: `crc = crc>>8 ^ uint32(int32(table[uint8(crc^uint32(b))]))` -/
def crcStep (crc b : Nat) : Nat := (crc >>> 8) ^^^ (tbl ((crc ^^^ b) % 256) % 4294967296)

/-- `Hash` before the final `int32(·)` -/
def hashU (bs : Bytes) : Nat := (bs.foldl crcStep 0xffffffff) ^^^ 0xffffffff

/-- `func Hash(bytes []byte) int32` -/
def hash (bs : Bytes) : Int := toI32 (hashU bs)

/-- `func HashStr(str string) int32 { return Hash([]byte(str)) }`; a Go string *is* its bytes -/
def hashStr (s : Bytes) : Int := hash s

/-! ### `Hash64` : same loop on a 64-bit register, table entry sign-extended -/

def crc64Step (crc b : Nat) : Nat := (crc >>> 8) ^^^ sext32to64 (tbl ((crc ^^^ b) % 256))

def hash64 (bs : Bytes) : Int := toI64 ((bs.foldl crc64Step 0xffffffffffffffff) ^^^ 0xffffffffffffffff)

/-! ### the two "v2" 64-bit hashes -/

/-- body of `Hash64v2`: indices `uint8(int32(crc)^int32(b))`, `uint8(int32(crc>>32)^int32(b))` -/
def v2StepA (crc0 b : Nat) : Nat :=
  let crc := crc0 >>> 8
  let n1 := tbl (((crc % 4294967296) ^^^ b) % 256) % 18446744073709551616
  let n2 := tbl ((((crc >>> 32) % 4294967296) ^^^ b) % 256) % 18446744073709551616
  let crc := crc ^^^ (n1 &&& 0xffffffff)
  crc ^^^ ((n2 <<< 32) % 18446744073709551616)

/-- body of `Hash64V2`: indices `(uint8(crc)^b)&0xff`, `(uint8(crc>>32)^b)&0xff` -/
def v2StepB (crc0 b : Nat) : Nat :=
  let crc := crc0 >>> 8
  let n1 := tbl ((((crc % 256) ^^^ b) % 256) &&& 0xff) % 18446744073709551616
  let n2 := tbl (((((crc >>> 32) % 256) ^^^ b) % 256) &&& 0xff) % 18446744073709551616
  let crc := crc ^^^ (n1 &&& 0xffffffff)
  crc ^^^ ((n2 <<< 32) % 18446744073709551616)

/-- `func Hash64v2(bytes []byte) int64`; `none` is the nil slice -/
def hash64v2 : Option Bytes → Int
  | none => 0
  | some bs => toI64 ((bs.foldl v2StepA 0xffffffffffffffff) ^^^ 0xffffffffffffffff)

/-- `func Hash64V2(bytes []byte) int64` (nil and empty have length 0) -/
def hash64V2 (o : Option Bytes) : Int :=
  let bs := o.getD []
  if bs.isEmpty then 0
  else toI64 ((bs.foldl v2StepB 0xffffffffffffffff) ^^^ 0xffffffffffffffff)

/-- `GetLongHash(s)`: `""` ↦ 0, else `Hash64v2([]byte(s))` -/
def getLongHash (s : Bytes) : Int := if s.isEmpty then 0 else hash64v2 (some s)

/-! ### `ToInt`, `ToLong`, `HashAddr` -/

/-- wrap an integer into int32 / int64 (Go overflow semantics of `+`, `*`, `<<` on signed values) -/
def wrap32 (v : Int) : Int := (v + 2147483648) % 4294967296 - 2147483648
def wrap64 (v : Int) : Int := (v + 9223372036854775808) % 18446744073709551616 - 9223372036854775808

/-- `hash.ToInt(buf)`: big-endian int32 of the first four bytes (shorter input panics: `none`) -/
def toInt : Bytes → Option Int
  | a :: b :: c :: d :: _ => some (wrap32 (a * 16777216 + b * 65536 + c * 256 + d))
  | _ => none

def toLong : Bytes → Option Int
  | a :: b :: c :: d :: e :: f :: g :: h :: _ =>
    some (wrap64 (a * 72057594037927936 + b * 281474976710656 + c * 1099511627776 + d * 4294967296
                  + e * 16777216 + f * 65536 + g * 256 + h))
  | _ => none

/-- `HashAddr`: 4 bytes ↦ square of the int32 (as int64), 8 bytes ↦ the int64, else CRC-32 -/
def hashAddr (bs : Bytes) : Int :=
  match bs with
  | [_, _, _, _] => match toInt bs with | some c => wrap64 (c * c) | none => 0
  | [_, _, _, _, _, _, _, _] => (toLong bs).getD 0
  | _ => hash bs

/-! ### Spec: CRC-32 computed one bit at a time -/

def poly : Nat := 0xEDB88320

/-- one shift of the reflected CRC register -/
def bit1 (c : Nat) : Nat := if c % 2 = 1 then (c >>> 1) ^^^ poly else c >>> 1

def bitN : Nat → Nat → Nat
  | 0, c => c
  | k + 1, c => bitN k (bit1 c)

/-- the table entry for index `n` as the CRC-32 definition gives it: eight shift/xor steps -/
def crcEntry (n : Nat) : Nat := bitN 8 n

/-- feed one byte: xor it into the low end of the register, shift eight times -/
def crc32Step (c b : Nat) : Nat := bitN 8 (c ^^^ b)

/-- CRC-32 (IEEE): register starts at 0xFFFFFFFF, result is the complemented register -/
def crc32 (bs : Bytes) : Nat := (bs.foldl crc32Step 0xffffffff) ^^^ 0xffffffff

end Hash
