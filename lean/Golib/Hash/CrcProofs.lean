/-
  Golib.Hash.CrcProofs — the table-driven loop of `Hash` computes bit-by-bit CRC-32;
  the two v2 64-bit hashes agree.
-/
import Golib.Hash.Crc

namespace Hash

/-! ### the table is the CRC-32 table -/

theorem table_length : table.length = 256 := by decide +kernel

/-- every entry is eight shift/xor steps of its index with polynomial 0xEDB88320 -/
theorem table_eq_entries : table = (List.range 256).map crcEntry := by decide +kernel

theorem tbl_eq_entry : ∀ i : Fin 256, tbl i.val = crcEntry i.val := by decide +kernel

theorem tbl_lt : ∀ i : Fin 256, tbl i.val < 4294967296 := by decide +kernel

theorem tbl_eq_entry' {i : Nat} (h : i < 256) : tbl i = crcEntry i := tbl_eq_entry ⟨i, h⟩
theorem tbl_lt' {i : Nat} (h : i < 256) : tbl i < 4294967296 := tbl_lt ⟨i, h⟩

/-! ### linearity of the shift register over xor -/

theorem xor_mod_two (a b : Nat) : (a ^^^ b) % 2 = (a % 2) ^^^ (b % 2) := by
  have := @Nat.xor_mod_two_pow a b 1
  simpa using this

theorem xor_cancel_mid (x y p : Nat) : (x ^^^ p) ^^^ (y ^^^ p) = x ^^^ y := by
  rw [Nat.xor_assoc, Nat.xor_comm y p, ← Nat.xor_assoc p, Nat.xor_self, Nat.zero_xor]

theorem bit1_xor (a b : Nat) : bit1 (a ^^^ b) = bit1 a ^^^ bit1 b := by
  unfold bit1
  rw [xor_mod_two, Nat.shiftRight_xor_distrib]
  have ha : a % 2 = 0 ∨ a % 2 = 1 := by omega
  have hb : b % 2 = 0 ∨ b % 2 = 1 := by omega
  rcases ha with ha | ha <;> rcases hb with hb | hb <;> simp only [ha, hb]
  · simp
  · simp only [show (0 ^^^ 1 : Nat) = 1 from rfl, if_true, show ((0:Nat) = 1) = False from by simp, if_false]
    ac_rfl
  · simp only [show (1 ^^^ 0 : Nat) = 1 from rfl, if_true, show ((0:Nat) = 1) = False from by simp, if_false]
    ac_rfl
  · simp only [show (1 ^^^ 1 : Nat) = 0 from rfl, if_true, show ((0:Nat) = 1) = False from by simp, if_false]
    exact (xor_cancel_mid _ _ _).symm

theorem bitN_xor (k a b : Nat) : bitN k (a ^^^ b) = bitN k a ^^^ bitN k b := by
  induction k generalizing a b with
  | zero => rfl
  | succ k ih => simp only [bitN, bit1_xor, ih]

theorem bit1_double (y : Nat) : bit1 (2 * y) = y := by
  unfold bit1
  have : (2 * y) % 2 = 0 := by omega
  simp only [this, Nat.shiftRight_eq_div_pow]
  simp

/-- a value whose low `k` bits are clear just shifts -/
theorem bitN_shl (k h : Nat) : bitN k (h * 2 ^ k) = h := by
  induction k generalizing h with
  | zero => simp [bitN]
  | succ k ih =>
    have e : h * 2 ^ (k + 1) = 2 * (h * 2 ^ k) := by rw [Nat.pow_succ]; ac_rfl
    simp only [bitN, e, bit1_double, ih]

theorem split_low8 (x : Nat) : x = ((x >>> 8) * 2 ^ 8) ^^^ (x % 256) := by
  apply Nat.eq_of_testBit_eq
  intro i
  rw [Nat.testBit_xor, ← Nat.shiftLeft_eq, Nat.testBit_shiftLeft, Nat.testBit_shiftRight,
      show (256 : Nat) = 2 ^ 8 from rfl, Nat.testBit_mod_two_pow]
  by_cases h : i < 8
  · have : ¬ i ≥ 8 := by omega
    simp [h, this]
  · have h' : i ≥ 8 := by omega
    have e : 8 + (i - 8) = i := by omega
    simp [h, h', e]

/-- the eight shifts act on the high part by shifting and on the low byte through the table -/
theorem bitN8_split (x : Nat) : bitN 8 x = (x >>> 8) ^^^ bitN 8 (x % 256) := by
  conv => lhs; rw [split_low8 x]
  rw [bitN_xor, bitN_shl]

/-- per-byte step: table-driven = bit-by-bit, for every register value and every byte -/
theorem crcStep_eq (c b : Nat) (hb : b < 256) : crcStep c b = crc32Step c b := by
  unfold crcStep crc32Step
  have hi : (c ^^^ b) % 256 < 256 := Nat.mod_lt _ (by decide)
  rw [bitN8_split (c ^^^ b), Nat.mod_eq_of_lt (tbl_lt' hi), tbl_eq_entry' hi, Nat.shiftRight_xor_distrib]
  have : b >>> 8 = 0 := by rw [Nat.shiftRight_eq_div_pow]; exact Nat.div_eq_of_lt hb
  rw [this, Nat.xor_zero]
  rfl

theorem foldl_crcStep_eq (bs : Bytes) (h : WFB bs) (c : Nat) :
    bs.foldl crcStep c = bs.foldl crc32Step c := by
  induction bs generalizing c with
  | nil => rfl
  | cons b bs ih =>
    have ⟨hb, hbs⟩ := WFB_cons.mp h
    simp only [List.foldl_cons, crcStep_eq c b hb, ih hbs]

/-- `Hash` (before the int32 view) is CRC-32 of the bytes -/
theorem hashU_eq_crc32 (bs : Bytes) (h : WFB bs) : hashU bs = crc32 bs := by
  unfold hashU crc32
  rw [foldl_crcStep_eq bs h]

/-! ### the two v2 implementations agree -/

theorem low8_xor (c b : Nat) : ((c % 4294967296) ^^^ b) % 256 = (((c % 256) ^^^ b) % 256) &&& 0xff := by
  have e : (0xff : Nat) = 2 ^ 8 - 1 := rfl
  rw [e, Nat.and_two_pow_sub_one_eq_mod]
  simp only [show (256 : Nat) = 2 ^ 8 from rfl, Nat.xor_mod_two_pow, Nat.mod_mod]
  congr 1
  have : (4294967296 : Nat) = 2 ^ 8 * 16777216 := rfl
  rw [this, Nat.mod_mul_right_mod]

theorem v2Step_eq (c b : Nat) : v2StepA c b = v2StepB c b := by
  unfold v2StepA v2StepB
  simp only [low8_xor]

theorem hash64v2_agree_some (bs : Bytes) : hash64v2 (some bs) = hash64V2 (some bs) := by
  unfold hash64v2 hash64V2
  cases bs with
  | nil => rfl
  | cons b bs =>
    have : v2StepA = v2StepB := by funext c b; exact v2Step_eq c b
    simp [this]

theorem hash64v2_agree (o : Option Bytes) : hash64v2 o = hash64V2 o := by
  cases o with
  | none => rfl
  | some bs => exact hash64v2_agree_some bs

end Hash
