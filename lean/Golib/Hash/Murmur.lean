/-
  Golib.Hash.Murmur — CodeModel of util/hll/MurmurHash.go and the reference algorithms.

  CodeModel (`murmur32`, `murmurLong`, `murmur64`): line-by-line transcription of the Go code on
  `Nat` bit patterns (`uint32` arithmetic is `% 2^32`, `uint64` arithmetic `% 2^64`, `|`,`&`,`^`,`<<`,`>>`
  are the `Nat` bit operations).

  Spec (`Ref.murmurHash2`, `Ref.murmurHash64A`): Austin Appleby's published MurmurHash2 (32 bit) and
  MurmurHash64A written arithmetically: little-endian block loads as sums, the tail `switch`
  statements with `data[0]` the *first* byte after the last whole block.

  (core Lean only; imported by the driver)
-/
import Golib.Basic

namespace Murmur

def m32 : Nat := 0x5bd1e995
def m64 : Nat := 0xc6a4a7935bd1e995
def defaultSeed : Nat := 0xe17a1465

@[inline] def mul32 (a b : Nat) : Nat := (a * b) % 4294967296
@[inline] def mul64 (a b : Nat) : Nat := (a * b) % 18446744073709551616
@[inline] def shl32 (a s : Nat) : Nat := (a <<< s) % 4294967296
@[inline] def shl64 (a s : Nat) : Nat := (a <<< s) % 18446744073709551616

/-- walk whole 4-byte blocks with a step function; returns the state and the unread tail -/
def walk4 (step : Nat → Nat → Nat → Nat → Nat → Nat) : Bytes → Nat → Nat × Bytes
  | d0 :: d1 :: d2 :: d3 :: rest, h => walk4 step rest (step h d0 d1 d2 d3)
  | tail, h => (h, tail)

/-- walk whole 8-byte blocks with a step function -/
def walk8 (step : Nat → Nat → Nat → Nat → Nat → Nat → Nat → Nat → Nat → Nat) : Bytes → Nat → Nat × Bytes
  | d0 :: d1 :: d2 :: d3 :: d4 :: d5 :: d6 :: d7 :: rest, h => walk8 step rest (step h d0 d1 d2 d3 d4 d5 d6 d7)
  | tail, h => (h, tail)

/-! ### CodeModel: `murmurHash(data, int32(len(data)), seed)` -/

/-- the block word as the Go loop assembles it: `k := uint32(d3); k = k<<8; k = k | uint32(d2)&0xff; …` -/
def loadK (d0 d1 d2 d3 : Nat) : Nat :=
  let k := d3
  let k := shl32 k 8
  let k := k ||| (d2 &&& 0xff)
  let k := shl32 k 8
  let k := k ||| (d1 &&& 0xff)
  let k := shl32 k 8
  k ||| (d0 &&& 0xff)

/-- `k *= m; k ^= k >> r; k *= m` (r = 24) -/
def mixK32 (k : Nat) : Nat :=
  let k := mul32 k m32
  let k := k ^^^ (k >>> 24)
  mul32 k m32

/-- body of the `for i < len_4` loop: `… k *= m; h *= m; h ^= k` -/
def step32 (h d0 d1 d2 d3 : Nat) : Nat := (mul32 h m32) ^^^ mixK32 (loadK d0 d1 d2 d3)

/-- the `for i < len_4` loop; returns the state and the unread tail (`left` bytes) -/
def blocks32 : Bytes → Nat → Nat × Bytes := walk4 step32

/-- the tail as the Go code reads it: `data[length-3] << 16`, `data[length-2] << 8`, `data[length-1]` —
    counted from the *end*, so the first tail byte gets the highest shift -/
def tail32 (t : Bytes) (h : Nat) : Nat :=
  match t with
  | [x] => mul32 (h ^^^ x) m32
  | [x, y] => mul32 ((h ^^^ shl32 x 8) ^^^ y) m32
  | [x, y, z] => mul32 (((h ^^^ shl32 x 16) ^^^ shl32 y 8) ^^^ z) m32
  | _ => h

/-- `h ^= h >> 13; h *= m; h ^= h >> 15` -/
def fin32 (h : Nat) : Nat :=
  let h := h ^^^ (h >>> 13)
  let h := mul32 h m32
  h ^^^ (h >>> 15)

/-- `MurmurHashByteSeed(data, seed)` -/
def murmur32 (data : Bytes) (seed : Nat) : Nat :=
  let h := seed ^^^ (data.length % 4294967296)
  let (h, t) := blocks32 data h
  fin32 (tail32 t h)

/-- `MurmurHashByte(data)` -/
def murmurByte (data : Bytes) : Nat := murmur32 data defaultSeed

/-- `MurmurHashLong(data uint64) uint32` -/
def murmurLong (data : Nat) : Nat :=
  let h := 0
  let k := (mul64 data m32) % 4294967296
  let k := k ^^^ (k >>> 24)
  let h := h ^^^ mul32 k m32
  let k := (mul64 (data >>> 32) m32) % 4294967296
  let k := k ^^^ (k >>> 24)
  let h := mul32 h m32
  let h := h ^^^ mul32 k m32
  fin32 h

/-- `MurmurHash(o uint32) uint32 { return MurmurHashLong(uint64(o)) }` -/
def murmurU32 (o : Nat) : Nat := murmurLong (o % 4294967296)

/-! ### CodeModel: `murmurHashLong(data, int32(len(data)), seed)` -/

/-- `(uint64(d0)&0xff) + ((uint64(d1)&0xff)<<8) + … + ((uint64(d7)&0xff)<<56)` -/
def loadK64 (d0 d1 d2 d3 d4 d5 d6 d7 : Nat) : Nat :=
  ((d0 &&& 0xff) + shl64 (d1 &&& 0xff) 8 + shl64 (d2 &&& 0xff) 16 + shl64 (d3 &&& 0xff) 24
   + shl64 (d4 &&& 0xff) 32 + shl64 (d5 &&& 0xff) 40 + shl64 (d6 &&& 0xff) 48 + shl64 (d7 &&& 0xff) 56)
  % 18446744073709551616

/-- `k *= m; k ^= k >> r; k *= m` (r = 47) -/
def mixK64 (k : Nat) : Nat :=
  let k := mul64 k m64
  let k := k ^^^ (k >>> 47)
  mul64 k m64

/-- body of the `for i < length8` loop: `… h ^= k; h *= m` -/
def step64 (h d0 d1 d2 d3 d4 d5 d6 d7 : Nat) : Nat := mul64 (h ^^^ mixK64 (loadK64 d0 d1 d2 d3 d4 d5 d6 d7)) m64

def blocks64 : Bytes → Nat → Nat × Bytes := walk8 step64

/-- the `switch length % 8` with fall-through; `t` is `data[length&^7:]` -/
def tail64 (t : Bytes) (h : Nat) : Nat :=
  match t with
  | [a] => mul64 (h ^^^ (a &&& 0xff)) m64
  | [a, b] => mul64 ((h ^^^ shl64 (b &&& 0xff) 8) ^^^ (a &&& 0xff)) m64
  | [a, b, c] => mul64 (((h ^^^ shl64 (c &&& 0xff) 16) ^^^ shl64 (b &&& 0xff) 8) ^^^ (a &&& 0xff)) m64
  | [a, b, c, d] =>
    mul64 ((((h ^^^ shl64 (d &&& 0xff) 24) ^^^ shl64 (c &&& 0xff) 16) ^^^ shl64 (b &&& 0xff) 8) ^^^ (a &&& 0xff)) m64
  | [a, b, c, d, e] =>
    mul64 (((((h ^^^ shl64 (e &&& 0xff) 32) ^^^ shl64 (d &&& 0xff) 24) ^^^ shl64 (c &&& 0xff) 16)
            ^^^ shl64 (b &&& 0xff) 8) ^^^ (a &&& 0xff)) m64
  | [a, b, c, d, e, f] =>
    mul64 ((((((h ^^^ shl64 (f &&& 0xff) 40) ^^^ shl64 (e &&& 0xff) 32) ^^^ shl64 (d &&& 0xff) 24)
             ^^^ shl64 (c &&& 0xff) 16) ^^^ shl64 (b &&& 0xff) 8) ^^^ (a &&& 0xff)) m64
  | [a, b, c, d, e, f, g] =>
    mul64 (((((((h ^^^ shl64 (g &&& 0xff) 48) ^^^ shl64 (f &&& 0xff) 40) ^^^ shl64 (e &&& 0xff) 32)
              ^^^ shl64 (d &&& 0xff) 24) ^^^ shl64 (c &&& 0xff) 16) ^^^ shl64 (b &&& 0xff) 8) ^^^ (a &&& 0xff)) m64
  | _ => h

/-- `h ^= h >> r; h *= m; h ^= h >> r` -/
def fin64 (h : Nat) : Nat :=
  let h := h ^^^ (h >>> 47)
  let h := mul64 h m64
  h ^^^ (h >>> 47)

/-- `murmurHashLong(data, int32(len(data)), seed)` -/
def murmur64 (data : Bytes) (seed : Nat) : Nat :=
  let h := (seed &&& 0xffffffff) ^^^ mul64 (data.length % 18446744073709551616) m64
  let (h, t) := blocks64 data h
  fin64 (tail64 t h)

/-- `MurmurHashLongByte(data, length)` with `0 ≤ length ≤ len(data)`: only `data[:length]` is read -/
def murmurLongByte (data : Bytes) (length : Nat) : Nat := murmur64 (data.take length) defaultSeed

/-! ### Spec: the published algorithms -/

namespace Ref

/-- little-endian 32-bit load -/
def le32 (d0 d1 d2 d3 : Nat) : Nat := d0 + 256 * d1 + 65536 * d2 + 16777216 * d3

def le64 (d0 d1 d2 d3 d4 d5 d6 d7 : Nat) : Nat :=
  d0 + 256 * d1 + 65536 * d2 + 16777216 * d3 + 4294967296 * d4 + 1099511627776 * d5
  + 281474976710656 * d6 + 72057594037927936 * d7

/-- the tail `switch` of MurmurHash2: `case 3: h ^= data[2] << 16; case 2: h ^= data[1] << 8;
    case 1: h ^= data[0]; h *= m;` — `data[0]` is the *first* byte after the last whole block -/
def tail2 (t : Bytes) (h : Nat) : Nat :=
  match t with
  | [a] => ((h ^^^ a) * m32) % 4294967296
  | [a, b] => (((h ^^^ b * 256) ^^^ a) * m32) % 4294967296
  | [a, b, c] => ((((h ^^^ c * 65536) ^^^ b * 256) ^^^ a) * m32) % 4294967296
  | _ => h

/-- the tail `switch` of MurmurHash64A: `case 7: h ^= uint64(data2[6]) << 48; … case 1: h ^= uint64(data2[0]); h *= m;` -/
def tail64A (t : Bytes) (h : Nat) : Nat :=
  match t with
  | [a] => ((h ^^^ a) * m64) % 18446744073709551616
  | [a, b] => (((h ^^^ b * 256) ^^^ a) * m64) % 18446744073709551616
  | [a, b, c] => ((((h ^^^ c * 65536) ^^^ b * 256) ^^^ a) * m64) % 18446744073709551616
  | [a, b, c, d] => (((((h ^^^ d * 16777216) ^^^ c * 65536) ^^^ b * 256) ^^^ a) * m64) % 18446744073709551616
  | [a, b, c, d, e] =>
    ((((((h ^^^ e * 4294967296) ^^^ d * 16777216) ^^^ c * 65536) ^^^ b * 256) ^^^ a) * m64) % 18446744073709551616
  | [a, b, c, d, e, f] =>
    (((((((h ^^^ f * 1099511627776) ^^^ e * 4294967296) ^^^ d * 16777216) ^^^ c * 65536) ^^^ b * 256) ^^^ a) * m64)
      % 18446744073709551616
  | [a, b, c, d, e, f, g] =>
    ((((((((h ^^^ g * 281474976710656) ^^^ f * 1099511627776) ^^^ e * 4294967296) ^^^ d * 16777216) ^^^ c * 65536)
        ^^^ b * 256) ^^^ a) * m64) % 18446744073709551616
  | _ => h

/-- MurmurHash2 loop body: `k = *(uint32*)data; k *= m; k ^= k >> 24; k *= m; h *= m; h ^= k;` -/
def step2 (h d0 d1 d2 d3 : Nat) : Nat :=
  let k := le32 d0 d1 d2 d3
  let k := (k * m32) % 4294967296
  let k := k ^^^ (k / 16777216)
  let k := (k * m32) % 4294967296
  ((h * m32) % 4294967296) ^^^ k

/-- MurmurHash2 main loop `while (len >= 4) { …; data += 4; len -= 4; }` -/
def loop2 : Bytes → Nat → Nat × Bytes := walk4 step2

/-- MurmurHash2, 32 bit (Appleby): `switch(len){case 3: h ^= data[2]<<16; case 2: h ^= data[1]<<8;
    case 1: h ^= data[0]; h *= m;}` then the avalanche `h ^= h>>13; h *= m; h ^= h>>15`. -/
def murmurHash2 (data : Bytes) (seed : Nat) : Nat :=
  let h := seed ^^^ (data.length % 4294967296)
  let (h, t) := loop2 data h
  let h := tail2 t h
  let h := h ^^^ (h / 8192)
  let h := (h * m32) % 4294967296
  h ^^^ (h / 32768)

/-- MurmurHash64A loop body: `k = *data++; k *= m; k ^= k >> 47; k *= m; h ^= k; h *= m;` -/
def step64A (h d0 d1 d2 d3 d4 d5 d6 d7 : Nat) : Nat :=
  let k := le64 d0 d1 d2 d3 d4 d5 d6 d7
  let k := (k * m64) % 18446744073709551616
  let k := k ^^^ (k / 140737488355328)
  let k := (k * m64) % 18446744073709551616
  ((h ^^^ k) * m64) % 18446744073709551616

def loop64A : Bytes → Nat → Nat × Bytes := walk8 step64A

/-- MurmurHash64A (Appleby), seed taken as an unsigned 32-bit value as in the Java/Go ports -/
def murmurHash64A (data : Bytes) (seed : Nat) : Nat :=
  let h := (seed % 4294967296) ^^^ ((data.length * m64) % 18446744073709551616)
  let (h, t) := loop64A data h
  let h := tail64A t h
  let h := h ^^^ (h / 140737488355328)
  let h := (h * m64) % 18446744073709551616
  h ^^^ (h / 140737488355328)

/-- the eight little-endian bytes of a 64-bit value -/
def bytes8 (d : Nat) : Bytes :=
  [d % 256, d / 256 % 256, d / 65536 % 256, d / 16777216 % 256, d / 4294967296 % 256,
   d / 1099511627776 % 256, d / 281474976710656 % 256, d / 72057594037927936 % 256]

/-- the tail as the stream-lib *Java* port reads it (`(int) data[length-3] << 16` on signed bytes):
    counted from the end like the Go code, and each byte sign-extended to 32 bits -/
def sext8 (b : Nat) : Nat := if b < 128 then b else b + 4294967040

def javaTail32 (t : Bytes) (h : Nat) : Nat :=
  match t with
  | [x] => (((h ^^^ sext8 x)) * m32) % 4294967296
  | [x, y] => (((h ^^^ ((sext8 x * 256) % 4294967296)) ^^^ sext8 y) * m32) % 4294967296
  | [x, y, z] =>
    ((((h ^^^ ((sext8 x * 65536) % 4294967296)) ^^^ ((sext8 y * 256) % 4294967296)) ^^^ sext8 z) * m32) % 4294967296
  | _ => h

/-- com.clearspring.analytics.hash.MurmurHash.hash(byte[], int, int) as published in stream-lib -/
def javaMurmur32 (data : Bytes) (seed : Nat) : Nat :=
  let h := seed ^^^ (data.length % 4294967296)
  let (h, t) := loop2 data h
  let h := javaTail32 t h
  let h := h ^^^ (h / 8192)
  let h := (h * m32) % 4294967296
  h ^^^ (h / 32768)

end Ref

/-- the input on which the Go tail handling coincides with the published algorithm:
    the last `len % 4` bytes reversed -/
def swapTail (data : Bytes) : Bytes :=
  let n := data.length / 4 * 4
  data.take n ++ (data.drop n).reverse

end Murmur
