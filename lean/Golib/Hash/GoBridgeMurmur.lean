/-
  Golib.Hash.GoBridgeMurmur — bridge theorems, part 4: util/hll/MurmurHash.go.
  `MurmurHashLong` (whole function), `murmurHash` (prelude, loop body, tail + avalanche, and the whole
  function by the loop semantics), for all inputs.
-/
import Golib.Hash.GoBridgeHash
import Golib.Hash.Murmur
set_option linter.unusedVariables false
set_option linter.unusedSimpArgs false
namespace GoBridge
open GoSem

theorem mul_cast (a b : Nat) : (a : Int) * (b : Int) = ((a * b : Nat) : Int) := (Int.natCast_mul a b).symm
theorem lit_m32 : (1540483477 : Int) = ((1540483477 : Nat) : Int) := rfl
theorem lit_0 : (0 : Int) = ((0 : Nat) : Int) := rfl
theorem bxor_u32_cast (a b : Nat) : evalOp .bxor .u32 (a : Int) (b : Int) = (((a % 4294967296 ^^^ b % 4294967296) % 4294967296 : Nat) : Int) := by
  simp only [evalOp, bitsOp, pat_u32, norm_u32_cast]
theorem mul_u32_cast (a b : Nat) : evalOp .mul .u32 (a : Int) (b : Int) = ((a * b % 4294967296 : Nat) : Int) := by
  simp only [evalOp, mul_cast, norm_u32_cast]
theorem mul_u64_cast (a b : Nat) : evalOp .mul .u64 (a : Int) (b : Int) = ((a * b % 18446744073709551616 : Nat) : Int) := by
  simp only [evalOp, mul_cast, norm_u64_cast]
theorem shr_u32_cast (a : Nat) (k : Int) : evalOp .shr .u32 (a : Int) k = ((a >>> k.toNat : Nat) : Int) := by
  simp only [evalOp, shr_cast]
theorem shr_u64_cast (a : Nat) (k : Int) : evalOp .shr .u64 (a : Int) k = ((a >>> k.toNat : Nat) : Int) := by
  simp only [evalOp, shr_cast]

def M32 : Nat := 4294967296
theorem mod_lt32 (a : Nat) : a % 4294967296 < 4294967296 := Nat.mod_lt _ (by decide)
theorem xm1 (a b : Nat) : (a % 4294967296 ^^^ b % 4294967296) % 4294967296 = a % 4294967296 ^^^ b % 4294967296 :=
  Nat.mod_eq_of_lt (Nat.xor_lt_two_pow (n := 32) (mod_lt32 a) (mod_lt32 b))
theorem shr_lt32 (a k : Nat) : (a % 4294967296) >>> k < 4294967296 :=
  Nat.lt_of_le_of_lt (Nat.shiftRight_le _ _) (mod_lt32 a)
theorem xm2 (a b k : Nat) : (a % 4294967296 ^^^ (b % 4294967296) >>> k) % 4294967296 = a % 4294967296 ^^^ (b % 4294967296) >>> k :=
  Nat.mod_eq_of_lt (Nat.xor_lt_two_pow (n := 32) (mod_lt32 a) (shr_lt32 b k))
theorem sm1 (a k : Nat) : (a % 4294967296) >>> k % 4294967296 = (a % 4294967296) >>> k := Nat.mod_eq_of_lt (shr_lt32 a k)
theorem sm2 (a b k : Nat) : (a % 4294967296 ^^^ b % 4294967296) >>> k % 4294967296 = (a % 4294967296 ^^^ b % 4294967296) >>> k :=
  Nat.mod_eq_of_lt (Nat.lt_of_le_of_lt (Nat.shiftRight_le _ _) (Nat.xor_lt_two_pow (n := 32) (mod_lt32 a) (mod_lt32 b)))
theorem mm1 (a : Nat) : a % 18446744073709551616 % 4294967296 = a % 4294967296 :=
  Nat.mod_mod_of_dvd a (by decide : 4294967296 ∣ 18446744073709551616)

set_option maxRecDepth 8000 in
theorem murmurLong_bridge (d : Nat) (hd : d < 18446744073709551616) :
    call noArr GoModel.fn_MurmurHashLong [(d : Int)] = ((Murmur.murmurLong d : Nat) : Int) := by
  simp only [call, GoModel.fn_MurmurHashLong, bindArgs, runRet, eval, upd]
  simp only [if_true, Nat.reduceEqDiff, if_false]
  rw [retVal_some]
  simp only [lit_m32, lit_0, norm_u64_cast, norm_u32_cast, bxor_u32_cast, mul_u32_cast, mul_u64_cast, shr_u32_cast, shr_u64_cast,
    Int.reduceToNat]
  simp only [Nat.mod_mod, mm1, xm1, xm2, sm1, sm2, Nat.zero_mod, Nat.zero_xor, Nat.reduceMod, Nat.mod_mul_mod]
  apply congrArg (fun n : Nat => (n : Int))
  have ed : d % 18446744073709551616 = d := Nat.mod_eq_of_lt hd
  simp only [ed]
  unfold Murmur.murmurLong Murmur.fin32
  simp only [Murmur.mul32, Murmur.mul64, Murmur.m32, Nat.zero_xor, Nat.mod_mod, mm1, xm1, xm2, sm1, Nat.mod_mul_mod]

theorem band_u32_cast (a b : Nat) : evalOp .band .u32 (a : Int) (b : Int) = (((a % 4294967296 &&& b % 4294967296) % 4294967296 : Nat) : Int) := by
  simp only [evalOp, bitsOp, pat_u32, norm_u32_cast]
theorem bor_u32_cast (a b : Nat) : evalOp .bor .u32 (a : Int) (b : Int) = (((a % 4294967296 ||| b % 4294967296) % 4294967296 : Nat) : Int) := by
  simp only [evalOp, bitsOp, pat_u32, norm_u32_cast]
theorem shl_u32_cast (a : Nat) (k : Nat) : evalOp .shl .u32 (a : Int) (k : Int) = (((a <<< k) % 4294967296 : Nat) : Int) := by
  simp only [evalOp, Int.toNat_natCast, Nat.shiftLeft_eq]
  rw [← norm_u32_cast]; simp
theorem lit_255 : (255 : Int) = ((255 : Nat) : Int) := rfl
theorem lit_8 : (8 : Int) = ((8 : Nat) : Int) := rfl
theorem lit_24 : (24 : Int) = ((24 : Nat) : Int) := rfl

def dataArrs (data : Bytes) : Arrays := fun n => if n = 0 then data.map Int.ofNat else []

theorem idx_i64 (i : Nat) (j : Int) (hj : 0 ≤ j ∧ j ≤ 7) (hi : 8 * i + 7 < 4611686018427387904) (k : Int) (hk : k = 2 ∨ k = 3) :
    (evalOp .add .i64 (evalOp .shl .i64 (i : Int) k) j).toNat = (if k = 2 then 4 else 8) * i + j.toNat := by
  rcases hk with rfl | rfl <;>
    simp only [evalOp, norm, Ty.half, Ty.modulus, Int.reduceToNat, Int.reducePow] <;> simp <;> omega

theorem murmur32_body_bridge (data : Bytes) (hw : WFB data) (ρ : Env) (i h : Nat) (h3 : ρ 3 = (i : Int))
    (h4 : ρ 4 = (h : Int)) (h5 : ρ 5 = ((Murmur.m32 : Nat) : Int)) (h6 : ρ 6 = 24) (hh : h < 4294967296)
    (hi : 8 * i + 7 < 4611686018427387904) :
    runEnv (dataArrs data) ρ GoModel.loop_murmurHash.body 4
      = ((Murmur.step32 h (data.getD (4 * i) 0) (data.getD (4 * i + 1) 0) (data.getD (4 * i + 2) 0)
          (data.getD (4 * i + 3) 0) : Nat) : Int) := by
  simp only [GoModel.loop_murmurHash.body, runEnv, eval, upd, dataArrs]
  simp only [if_true, Nat.reduceEqDiff, if_false, h3, h4, h5, h6]
  have j0 := idx_i64 i 0 (by omega) (by omega) 2 (Or.inl rfl)
  have j1 := idx_i64 i 1 (by omega) (by omega) 2 (Or.inl rfl)
  have j2 := idx_i64 i 2 (by omega) (by omega) 2 (Or.inl rfl)
  have j3 := idx_i64 i 3 (by omega) (by omega) 2 (Or.inl rfl)
  simp only [if_true, Int.reduceToNat, Nat.add_zero] at j0 j1 j2 j3
  simp only [j0, j1, j2, j3, bytes_getD, Nat.add_zero]
  have b0 := getD_lt data hw (4 * i)
  have b1 := getD_lt data hw (4 * i + 1)
  have b2 := getD_lt data hw (4 * i + 2)
  have b3 := getD_lt data hw (4 * i + 3)
  generalize data.getD (4 * i) 0 = d0 at b0
  generalize data.getD (4 * i + 1) 0 = d1 at b1
  generalize data.getD (4 * i + 2) 0 = d2 at b2
  generalize data.getD (4 * i + 3) 0 = d3 at b3
  simp only [lit_255, lit_8, lit_24, norm_u32_cast, shl_u32_cast, bor_u32_cast, band_u32_cast, mul_u32_cast,
    bxor_u32_cast, shr_u32_cast, Int.toNat_natCast]
  apply congrArg (fun n : Nat => (n : Int))
  simp only [Nat.mod_mod, xm1, xm2, sm1, sm2, Nat.reduceMod, Nat.mod_mul_mod]
  have e0 : d0 % 4294967296 = d0 := Nat.mod_eq_of_lt (by omega)
  have e1 : d1 % 4294967296 = d1 := Nat.mod_eq_of_lt (by omega)
  have e2 : d2 % 4294967296 = d2 := Nat.mod_eq_of_lt (by omega)
  have e3 : d3 % 4294967296 = d3 := Nat.mod_eq_of_lt (by omega)
  have a255 (d : Nat) : (d &&& 255) % 4294967296 = d &&& 255 :=
    Nat.mod_eq_of_lt (Nat.lt_of_lt_of_le (Nat.and_lt_two_pow d (by decide : 255 < 2 ^ 8)) (by decide))
  have om (a d : Nat) : (a % 4294967296 ||| (d &&& 255)) % 4294967296 = a % 4294967296 ||| (d &&& 255) :=
    Nat.mod_eq_of_lt (Nat.or_lt_two_pow (n := 32) (mod_lt32 a)
      (Nat.lt_of_lt_of_le (Nat.and_lt_two_pow d (by decide : 255 < 2 ^ 8)) (by decide)))
  simp only [e0, e1, e2, e3, a255, om]
  simp only [Murmur.step32, Murmur.mixK32, Murmur.loadK, Murmur.mul32, Murmur.shl32]

theorem murmur32_body_frame (A : Arrays) (ρ : Env) (x : Nat) (hx : x ≠ 8 ∧ x ≠ 9 ∧ x ≠ 4) :
    runEnv A ρ GoModel.loop_murmurHash.body x = ρ x := by
  obtain ⟨h8, h9, h4⟩ := hx
  simp only [GoModel.loop_murmurHash.body, runEnv, upd, h8, h9, h4, if_false]

/-- the blocks `k, k+1, …, k+n-1` folded by `step32` -/
def blocksH (data : Bytes) : Nat → Nat → Nat → Nat
  | _, 0, h => h
  | k, n + 1, h => blocksH data (k + 1) n
      (Murmur.step32 h (data.getD (4 * k) 0) (data.getD (4 * k + 1) 0) (data.getD (4 * k + 2) 0) (data.getD (4 * k + 3) 0))

theorem step32_lt (h d0 d1 d2 d3 : Nat) : Murmur.step32 h d0 d1 d2 d3 < 4294967296 := by
  unfold Murmur.step32 Murmur.mixK32 Murmur.mul32
  exact Nat.xor_lt_two_pow (n := 32) (Nat.mod_lt _ (by decide)) (Nat.mod_lt _ (by decide))

theorem murmur32_loop_bridge (body : List Stmt) (data : Bytes) (hw : WFB data)
    (hbody : ∀ ρ, runEnv (dataArrs data) ρ body 4 = runEnv (dataArrs data) ρ GoModel.loop_murmurHash.body 4)
    (hframe : ∀ ρ x, x = 5 ∨ x = 6 → runEnv (dataArrs data) ρ body x = ρ x) :
    ∀ (n k : Nat) (ρ : Env) (h : Nat), ρ 4 = (h : Int) → ρ 5 = ((Murmur.m32 : Nat) : Int) → ρ 6 = 24 → h < 4294967296 →
      8 * (k + n) + 7 < 4611686018427387904 →
      forLoop (dataArrs data) body 3 n k ρ 4 = ((blocksH data k n h : Nat) : Int)
      ∧ forLoop (dataArrs data) body 3 n k ρ 5 = ((Murmur.m32 : Nat) : Int) := by
  intro n
  induction n with
  | zero => intro k ρ h h4 h5 h6 hh hk; exact ⟨h4, h5⟩
  | succ n ih =>
    intro k ρ h h4 h5 h6 hh hk
    rw [forLoop, blocksH]
    have u4 : upd ρ 3 (k : Int) 4 = (h : Int) := by simp [upd, h4]
    have u5 : upd ρ 3 (k : Int) 5 = ((Murmur.m32 : Nat) : Int) := by simp [upd, h5]
    have u6 : upd ρ 3 (k : Int) 6 = 24 := by simp [upd, h6]
    have u3 : upd ρ 3 (k : Int) 3 = (k : Int) := by simp [upd]
    have b := murmur32_body_bridge data hw (upd ρ 3 (k : Int)) k h u3 u4 u5 u6 hh (by omega)
    exact ih (k + 1) _ _ (by rw [hbody]; exact b) (by rw [hframe _ 5 (Or.inl rfl)]; exact u5)
      (by rw [hframe _ 6 (Or.inr rfl)]; exact u6) (step32_lt _ _ _ _ _) (by omega)

end GoBridge
