/-
  Golib.Hash.GoBridgeMurmur — bridge theorems, part 4: util/hll/MurmurHash.go.
  `MurmurHashLong` (whole function), `murmurHash` (prelude, loop body, tail + avalanche, and the whole
  function by the loop semantics), for all inputs.
-/
import Golib.Hash.GoBridgeHash
import Golib.Hash.MurmurProofs
set_option linter.unusedVariables false
set_option linter.unusedSimpArgs false
namespace GoBridge
open GoSem

theorem mul_cast (a b : Nat) : (a : Int) * (b : Int) = ((a * b : Nat) : Int) := (Int.natCast_mul a b).symm
theorem lit_m32 : (1540483477 : Int) = ((1540483477 : Nat) : Int) := rfl
theorem lit_0 : (0 : Int) = ((0 : Nat) : Int) := rfl
theorem bxor_u32_cast (a b : Nat) : evalOp .bxor .u32 (a : Int) (b : Int) = (((a % 4294967296 ^^^ b % 4294967296) % 4294967296 : Nat) : Int) := by
  simp only [evalOp, bitsOp, pat_u32, norm_u32_cast]
theorem mul_u32_cast (a b : Nat) : evalOp .mul .u32 (a : Int) (b : Int) = ((a * b % 4294967296 : Nat) : Int) := by
  simp only [evalOp, mul_cast, norm_u32_cast]
theorem mul_u64_cast (a b : Nat) : evalOp .mul .u64 (a : Int) (b : Int) = ((a * b % 18446744073709551616 : Nat) : Int) := by
  simp only [evalOp, mul_cast, norm_u64_cast]
theorem shr_u32_cast (a : Nat) (k : Int) : evalOp .shr .u32 (a : Int) k = ((a >>> k.toNat : Nat) : Int) := by
  simp only [evalOp, shr_cast]
theorem shr_u64_cast (a : Nat) (k : Int) : evalOp .shr .u64 (a : Int) k = ((a >>> k.toNat : Nat) : Int) := by
  simp only [evalOp, shr_cast]

def M32 : Nat := 4294967296
theorem mod_lt32 (a : Nat) : a % 4294967296 < 4294967296 := Nat.mod_lt _ (by decide)
theorem xm1 (a b : Nat) : (a % 4294967296 ^^^ b % 4294967296) % 4294967296 = a % 4294967296 ^^^ b % 4294967296 :=
  Nat.mod_eq_of_lt (Nat.xor_lt_two_pow (n := 32) (mod_lt32 a) (mod_lt32 b))
theorem shr_lt32 (a k : Nat) : (a % 4294967296) >>> k < 4294967296 :=
  Nat.lt_of_le_of_lt (Nat.shiftRight_le _ _) (mod_lt32 a)
theorem xm2 (a b k : Nat) : (a % 4294967296 ^^^ (b % 4294967296) >>> k) % 4294967296 = a % 4294967296 ^^^ (b % 4294967296) >>> k :=
  Nat.mod_eq_of_lt (Nat.xor_lt_two_pow (n := 32) (mod_lt32 a) (shr_lt32 b k))
theorem sm1 (a k : Nat) : (a % 4294967296) >>> k % 4294967296 = (a % 4294967296) >>> k := Nat.mod_eq_of_lt (shr_lt32 a k)
theorem sm2 (a b k : Nat) : (a % 4294967296 ^^^ b % 4294967296) >>> k % 4294967296 = (a % 4294967296 ^^^ b % 4294967296) >>> k :=
  Nat.mod_eq_of_lt (Nat.lt_of_le_of_lt (Nat.shiftRight_le _ _) (Nat.xor_lt_two_pow (n := 32) (mod_lt32 a) (mod_lt32 b)))
theorem mm1 (a : Nat) : a % 18446744073709551616 % 4294967296 = a % 4294967296 :=
  Nat.mod_mod_of_dvd a (by decide : 4294967296 ∣ 18446744073709551616)

set_option maxRecDepth 8000 in
theorem murmurLong_bridge (d : Nat) (hd : d < 18446744073709551616) :
    call noArr GoModel.fn_MurmurHashLong [(d : Int)] = ((Murmur.murmurLong d : Nat) : Int) := by
  simp only [call, GoModel.fn_MurmurHashLong, bindArgs, runRet, eval, upd]
  simp only [if_true, Nat.reduceEqDiff, if_false]
  rw [retVal_some]
  simp only [lit_m32, lit_0, norm_u64_cast, norm_u32_cast, bxor_u32_cast, mul_u32_cast, mul_u64_cast, shr_u32_cast, shr_u64_cast,
    Int.reduceToNat]
  simp only [Nat.mod_mod, mm1, xm1, xm2, sm1, sm2, Nat.zero_mod, Nat.zero_xor, Nat.reduceMod, Nat.mod_mul_mod]
  apply congrArg (fun n : Nat => (n : Int))
  have ed : d % 18446744073709551616 = d := Nat.mod_eq_of_lt hd
  simp only [ed]
  unfold Murmur.murmurLong Murmur.fin32
  simp only [Murmur.mul32, Murmur.mul64, Murmur.m32, Nat.zero_xor, Nat.mod_mod, mm1, xm1, xm2, sm1, Nat.mod_mul_mod]

theorem band_u32_cast (a b : Nat) : evalOp .band .u32 (a : Int) (b : Int) = (((a % 4294967296 &&& b % 4294967296) % 4294967296 : Nat) : Int) := by
  simp only [evalOp, bitsOp, pat_u32, norm_u32_cast]
theorem bor_u32_cast (a b : Nat) : evalOp .bor .u32 (a : Int) (b : Int) = (((a % 4294967296 ||| b % 4294967296) % 4294967296 : Nat) : Int) := by
  simp only [evalOp, bitsOp, pat_u32, norm_u32_cast]
theorem shl_u32_cast (a : Nat) (k : Nat) : evalOp .shl .u32 (a : Int) (k : Int) = (((a <<< k) % 4294967296 : Nat) : Int) := by
  simp only [evalOp, Int.toNat_natCast, Nat.shiftLeft_eq]
  rw [← norm_u32_cast]; simp
theorem lit_2 : (2 : Int) = ((2 : Nat) : Int) := rfl
theorem xm1' (a b : Nat) (ha : a < 4294967296) : (a ^^^ b % 4294967296) % 4294967296 = a ^^^ b % 4294967296 :=
  Nat.mod_eq_of_lt (Nat.xor_lt_two_pow (n := 32) ha (mod_lt32 b))
theorem lit_255 : (255 : Int) = ((255 : Nat) : Int) := rfl
theorem lit_8 : (8 : Int) = ((8 : Nat) : Int) := rfl
theorem lit_24 : (24 : Int) = ((24 : Nat) : Int) := rfl

def dataArrs (data : Bytes) : Arrays := fun n => if n = 0 then data.map Int.ofNat else []

theorem idx_i64 (i : Nat) (j : Int) (hj : 0 ≤ j ∧ j ≤ 7) (hi : 8 * i + 7 < 4611686018427387904) (k : Int) (hk : k = 2 ∨ k = 3) :
    (evalOp .add .i64 (evalOp .shl .i64 (i : Int) k) j).toNat = (if k = 2 then 4 else 8) * i + j.toNat := by
  rcases hk with rfl | rfl <;>
    simp only [evalOp, norm, Ty.half, Ty.modulus, Int.reduceToNat, Int.reducePow] <;> simp <;> omega

theorem murmur32_body_bridge (data : Bytes) (hw : WFB data) (ρ : Env) (i h : Nat) (h3 : ρ 3 = (i : Int))
    (h4 : ρ 4 = (h : Int)) (h5 : ρ 5 = ((Murmur.m32 : Nat) : Int)) (h6 : ρ 6 = 24) (hh : h < 4294967296)
    (hi : 8 * i + 7 < 4611686018427387904) :
    runEnv (dataArrs data) ρ GoModel.loop_murmurHash.body 4
      = ((Murmur.step32 h (data.getD (4 * i) 0) (data.getD (4 * i + 1) 0) (data.getD (4 * i + 2) 0)
          (data.getD (4 * i + 3) 0) : Nat) : Int) := by
  simp only [GoModel.loop_murmurHash.body, runEnv, eval, upd, dataArrs]
  simp only [if_true, Nat.reduceEqDiff, if_false, h3, h4, h5, h6]
  have j0 := idx_i64 i 0 (by omega) (by omega) 2 (Or.inl rfl)
  have j1 := idx_i64 i 1 (by omega) (by omega) 2 (Or.inl rfl)
  have j2 := idx_i64 i 2 (by omega) (by omega) 2 (Or.inl rfl)
  have j3 := idx_i64 i 3 (by omega) (by omega) 2 (Or.inl rfl)
  simp only [if_true, Int.reduceToNat, Nat.add_zero] at j0 j1 j2 j3
  simp only [j0, j1, j2, j3, bytes_getD, Nat.add_zero]
  have b0 := getD_lt data hw (4 * i)
  have b1 := getD_lt data hw (4 * i + 1)
  have b2 := getD_lt data hw (4 * i + 2)
  have b3 := getD_lt data hw (4 * i + 3)
  generalize data.getD (4 * i) 0 = d0 at b0
  generalize data.getD (4 * i + 1) 0 = d1 at b1
  generalize data.getD (4 * i + 2) 0 = d2 at b2
  generalize data.getD (4 * i + 3) 0 = d3 at b3
  simp only [lit_255, lit_8, lit_24, norm_u32_cast, shl_u32_cast, bor_u32_cast, band_u32_cast, mul_u32_cast,
    bxor_u32_cast, shr_u32_cast, Int.toNat_natCast]
  apply congrArg (fun n : Nat => (n : Int))
  simp only [Nat.mod_mod, xm1, xm2, sm1, sm2, Nat.reduceMod, Nat.mod_mul_mod]
  have e0 : d0 % 4294967296 = d0 := Nat.mod_eq_of_lt (by omega)
  have e1 : d1 % 4294967296 = d1 := Nat.mod_eq_of_lt (by omega)
  have e2 : d2 % 4294967296 = d2 := Nat.mod_eq_of_lt (by omega)
  have e3 : d3 % 4294967296 = d3 := Nat.mod_eq_of_lt (by omega)
  have a255 (d : Nat) : (d &&& 255) % 4294967296 = d &&& 255 :=
    Nat.mod_eq_of_lt (Nat.lt_of_lt_of_le (Nat.and_lt_two_pow d (by decide : 255 < 2 ^ 8)) (by decide))
  have om (a d : Nat) : (a % 4294967296 ||| (d &&& 255)) % 4294967296 = a % 4294967296 ||| (d &&& 255) :=
    Nat.mod_eq_of_lt (Nat.or_lt_two_pow (n := 32) (mod_lt32 a)
      (Nat.lt_of_lt_of_le (Nat.and_lt_two_pow d (by decide : 255 < 2 ^ 8)) (by decide)))
  simp only [e0, e1, e2, e3, a255, om]
  simp only [Murmur.step32, Murmur.mixK32, Murmur.loadK, Murmur.mul32, Murmur.shl32]

theorem murmur32_body_frame (A : Arrays) (ρ : Env) (x : Nat) (hx : x ≠ 8 ∧ x ≠ 9 ∧ x ≠ 4) :
    runEnv A ρ GoModel.loop_murmurHash.body x = ρ x := by
  obtain ⟨h8, h9, h4⟩ := hx
  simp only [GoModel.loop_murmurHash.body, runEnv, upd, h8, h9, h4, if_false]

/-- the blocks `k, k+1, …, k+n-1` folded by `step32` -/
def blocksG (f : Nat → Nat → Nat → Nat → Nat → Nat) (data : Bytes) : Nat → Nat → Nat → Nat
  | _, 0, h => h
  | k, n + 1, h => blocksG f data (k + 1) n
      (f h (data.getD (4 * k) 0) (data.getD (4 * k + 1) 0) (data.getD (4 * k + 2) 0) (data.getD (4 * k + 3) 0))

def blocksH (data : Bytes) : Nat → Nat → Nat → Nat := blocksG Murmur.step32 data

theorem blocksH_succ (data : Bytes) (k n h : Nat) : blocksH data k (n + 1) h = blocksH data (k + 1) n
    (Murmur.step32 h (data.getD (4 * k) 0) (data.getD (4 * k + 1) 0) (data.getD (4 * k + 2) 0) (data.getD (4 * k + 3) 0)) := by
  unfold blocksH; rw [blocksG]

theorem blocksG_lt_aux : True := trivial

theorem step32_lt (h d0 d1 d2 d3 : Nat) : Murmur.step32 h d0 d1 d2 d3 < 4294967296 := by
  unfold Murmur.step32 Murmur.mixK32 Murmur.mul32
  exact Nat.xor_lt_two_pow (n := 32) (Nat.mod_lt _ (by decide)) (Nat.mod_lt _ (by decide))

theorem blocksG_lt (data : Bytes) : ∀ (n k h : Nat), h < 4294967296 → blocksG Murmur.step32 data k n h < 4294967296 := by
  intro n
  induction n with
  | zero => intro k h hh; rw [blocksG]; exact hh
  | succ n ih => intro k h hh; rw [blocksG]; exact ih _ _ (step32_lt _ _ _ _ _)

theorem murmur32_loop_bridge (body : List Stmt) (data : Bytes) (hw : WFB data)
    (hbody : ∀ ρ, runEnv (dataArrs data) ρ body 4 = runEnv (dataArrs data) ρ GoModel.loop_murmurHash.body 4)
    (hframe : ∀ ρ x, x = 5 ∨ x = 6 ∨ x = 1 ∨ x = 7 → runEnv (dataArrs data) ρ body x = ρ x) :
    ∀ (n k : Nat) (ρ : Env) (h : Nat), ρ 4 = (h : Int) → ρ 5 = ((Murmur.m32 : Nat) : Int) → ρ 6 = 24 → h < 4294967296 →
      8 * (k + n) + 7 < 4611686018427387904 →
      forLoop (dataArrs data) body 3 n k ρ 4 = ((blocksH data k n h : Nat) : Int)
      ∧ forLoop (dataArrs data) body 3 n k ρ 5 = ((Murmur.m32 : Nat) : Int)
      ∧ forLoop (dataArrs data) body 3 n k ρ 1 = ρ 1 ∧ forLoop (dataArrs data) body 3 n k ρ 7 = ρ 7 := by
  intro n
  induction n with
  | zero => intro k ρ h h4 h5 h6 hh hk; exact ⟨h4, h5, rfl, rfl⟩
  | succ n ih =>
    intro k ρ h h4 h5 h6 hh hk
    have u4 : upd ρ 3 (k : Int) 4 = (h : Int) := by simp only [upd]; exact h4
    have u5 : upd ρ 3 (k : Int) 5 = ((Murmur.m32 : Nat) : Int) := by simp only [upd]; exact h5
    have u6 : upd ρ 3 (k : Int) 6 = 24 := by simp only [upd]; exact h6
    have u3 : upd ρ 3 (k : Int) 3 = (k : Int) := by simp only [upd, if_true]
    have b := murmur32_body_bridge data hw (upd ρ 3 (k : Int)) k h u3 u4 u5 u6 hh (by omega)
    have r := ih (k + 1) (runEnv (dataArrs data) (upd ρ 3 (k : Int)) body)
      (Murmur.step32 h (data.getD (4 * k) 0) (data.getD (4 * k + 1) 0) (data.getD (4 * k + 2) 0) (data.getD (4 * k + 3) 0))
      (by rw [hbody]; exact b) (by rw [hframe _ 5 (Or.inl rfl)]; exact u5)
      (by rw [hframe _ 6 (Or.inr (Or.inl rfl))]; exact u6) (step32_lt _ _ _ _ _) (by omega)
    rw [forLoop, blocksH_succ]
    refine ⟨r.1, r.2.1, ?_, ?_⟩
    · rw [r.2.2.1, hframe _ 1 (Or.inr (Or.inr (Or.inl rfl)))]; simp only [upd]; rfl
    · rw [r.2.2.2, hframe _ 7 (Or.inr (Or.inr (Or.inr rfl)))]; simp only [upd]; rfl

theorem drop4 (data : Bytes) (k : Nat) (h : 4 * k + 3 < data.length) :
    data.drop (4 * k) = data.getD (4 * k) 0 :: data.getD (4 * k + 1) 0 :: data.getD (4 * k + 2) 0
      :: data.getD (4 * k + 3) 0 :: data.drop (4 * (k + 1)) := by
  rw [drop_cons_getD data (4 * k) (by omega), drop_cons_getD data (4 * k + 1) (by omega),
      drop_cons_getD data (4 * k + 2) (by omega), drop_cons_getD data (4 * k + 3) (by omega)]
  rfl

/-- the indexed loop of the Go code and the list walk of the CodeModel visit the same blocks -/
theorem walk4_blocksH (data : Bytes) : ∀ (n k h : Nat), 4 * (k + n) ≤ data.length → data.length < 4 * (k + n) + 4 →
    Murmur.walk4 Murmur.step32 (data.drop (4 * k)) h = (blocksH data k n h, data.drop (4 * (k + n))) := by
  intro n
  induction n with
  | zero =>
    intro k h h1 h2
    rw [Murmur.walk4_short _ _ _ (by rw [List.length_drop]; omega)]
    rfl
  | succ n ih =>
    intro k h h1 h2
    rw [drop4 data k (by omega), Murmur.walk4_cons, blocksH_succ, ih (k + 1) _ (by omega) (by omega)]
    have : k + 1 + n = k + (n + 1) := by omega
    rw [this]

/-! #### prelude and tail -/

theorem murmur32_pre_bridge (A : Arrays) (ρ : Env) (len seed : Nat) (h1 : ρ 1 = (len : Int)) (h2 : ρ 2 = (seed : Int))
    (hl : len < 2147483648) (hs : seed < 4294967296) :
    let ρ' := runEnv A ρ GoModel.loop_murmurHash.pre
    ρ' 4 = ((seed ^^^ len % 4294967296 : Nat) : Int) ∧ ρ' 5 = ((Murmur.m32 : Nat) : Int) ∧ ρ' 6 = 24
    ∧ ρ' 7 = ((len / 4 : Nat) : Int) ∧ ρ' 1 = (len : Int) := by
  simp only [GoModel.loop_murmurHash.pre, runEnv, eval, upd, h1, h2, if_true, Nat.reduceEqDiff, if_false]
  refine ⟨?_, rfl, trivial, ?_, trivial⟩
  · simp only [norm_u32_cast, bxor_u32_cast]
    apply congrArg (fun n : Nat => (n : Int))
    rw [Nat.mod_mod, Nat.mod_eq_of_lt hs, xm1' _ _ hs]
  · simp only [norm_u32_cast, lit_2, shr_u32_cast, Int.toNat_natCast]
    apply congrArg (fun n : Nat => (n : Int))
    rw [Nat.mod_eq_of_lt (by omega), Nat.shiftRight_eq_div_pow]

theorem idx_sub_i32 (len : Nat) (j : Int) (hj : 0 ≤ j ∧ j ≤ (len : Int)) (hl : len < 2147483648) :
    (evalOp .sub .i32 (len : Int) j).toNat = len - j.toNat := by
  simp only [evalOp, norm, Ty.half, Ty.modulus]; omega

theorem dataArrs_getD (data : Bytes) (k : Nat) : (dataArrs data 0).getD k 0 = ((data.getD k 0 : Nat) : Int) := by
  simp only [dataArrs, if_true, bytes_getD]

theorem drop_tail0 (data : Bytes) (n : Nat) (h : data.length ≤ n) : data.drop n = [] := List.drop_eq_nil_of_le h
theorem drop_tail1 (data : Bytes) (n : Nat) (h : n + 1 = data.length) : data.drop n = [data.getD n 0] := by
  rw [drop_cons_getD data n (by omega), drop_tail0 data (n + 1) (by omega)]
theorem drop_tail2 (data : Bytes) (n : Nat) (h : n + 2 = data.length) :
    data.drop n = [data.getD n 0, data.getD (n + 1) 0] := by
  rw [drop_cons_getD data n (by omega), drop_tail1 data (n + 1) (by omega)]
theorem drop_tail3 (data : Bytes) (n : Nat) (h : n + 3 = data.length) :
    data.drop n = [data.getD n 0, data.getD (n + 1) 0, data.getD (n + 2) 0] := by
  rw [drop_cons_getD data n (by omega), drop_tail2 data (n + 1) (by omega)]

theorem lit_16 : (16 : Int) = ((16 : Nat) : Int) := rfl
theorem lit_13 : (13 : Int) = ((13 : Nat) : Int) := rfl
theorem lit_15 : (15 : Int) = ((15 : Nat) : Int) := rfl

theorem sm3 (a k : Nat) : (a % 4294967296 * Murmur.m32 % 4294967296) >>> k % 4294967296 = (a % 4294967296 * Murmur.m32 % 4294967296) >>> k :=
  sm1 _ _

theorem xm3 (a b c : Nat) : (a % 4294967296 ^^^ b % 4294967296 ^^^ c % 4294967296) % 4294967296
    = a % 4294967296 ^^^ b % 4294967296 ^^^ c % 4294967296 :=
  Nat.mod_eq_of_lt (Nat.xor_lt_two_pow (n := 32) (Nat.xor_lt_two_pow (n := 32) (mod_lt32 a) (mod_lt32 b)) (mod_lt32 c))

/-- natify + normalise the tail/avalanche arithmetic -/
macro "murmur_norm" : tactic => `(tactic| (
  simp only [lit_8, lit_16, lit_13, lit_15, norm_u32_cast, shl_u32_cast, mul_u32_cast, bxor_u32_cast, shr_u32_cast,
    Int.toNat_natCast]
  apply congrArg (fun n : Nat => some (n : Int))
  simp only [Nat.mod_mod, xm3, xm1, xm2, sm1, sm2, Nat.reduceMod, Nat.mod_mul_mod]))

theorem murmur32_after_bridge (data : Bytes) (hw : WFB data) (ρ : Env) (h : Nat)
    (h1 : ρ 1 = (data.length : Int)) (h4 : ρ 4 = (h : Int)) (h5 : ρ 5 = ((Murmur.m32 : Nat) : Int))
    (h7 : ρ 7 = ((data.length / 4 : Nat) : Int)) (hh : h < 4294967296) (hl : data.length < 2147483648) :
    runRet (dataArrs data) ρ GoModel.loop_murmurHash.after
      = some ((Murmur.fin32 (Murmur.tail32 (data.drop (data.length / 4 * 4)) h) : Nat) : Int) := by
  obtain ⟨h', rfl⟩ : ∃ h', h = h' % 4294967296 := ⟨h, (Nat.mod_eq_of_lt hh).symm⟩
  generalize hlen : data.length = len at *
  have e10 : evalOp .shl .u32 ((len / 4 : Nat) : Int) 2 = ((len / 4 * 4 : Nat) : Int) := by
    rw [lit_2, shl_u32_cast]
    apply congrArg (fun n : Nat => (n : Int))
    rw [Nat.shiftLeft_eq]; omega
  have hr : len % 4 = 0 ∨ len % 4 = 1 ∨ len % 4 = 2 ∨ len % 4 = 3 := by omega
  have bnd (k : Nat) := getD_lt data hw k
  rcases hr with hr | hr | hr | hr
  · have e11 : evalOp .sub .u32 (norm .u32 (len : Int)) ((len / 4 * 4 : Nat) : Int) = 0 := by
      simp only [evalOp, norm, Ty.half, Ty.modulus]; omega
    simp only [GoModel.loop_murmurHash.after, runRet, eval, evalC, upd, h1, h4, h5, h7, if_true, Nat.reduceEqDiff, if_false,
      e10, e11, eqb, leb, Int.reduceEq, Int.reduceLE, decide_true, decide_false, Bool.not_true, Bool.not_false,
      Bool.and_true, Bool.and_false, Bool.true_and, Bool.false_and, cond_true, cond_false]
    rw [drop_tail0 data (len / 4 * 4) (by omega)]
    murmur_norm
    simp only [Murmur.fin32, Murmur.tail32, Murmur.mul32, Murmur.shl32, Nat.mod_mod, xm1, xm2, sm1, sm2, Nat.mod_mul_mod]
  · have e11 : evalOp .sub .u32 (norm .u32 (len : Int)) ((len / 4 * 4 : Nat) : Int) = 1 := by
      simp only [evalOp, norm, Ty.half, Ty.modulus]; omega
    simp only [GoModel.loop_murmurHash.after, runRet, eval, evalC, upd, h1, h4, h5, h7, if_true, Nat.reduceEqDiff, if_false,
      e10, e11, eqb, leb, Int.reduceEq, Int.reduceLE, decide_true, decide_false, Bool.not_true, Bool.not_false,
      Bool.and_true, Bool.and_false, Bool.true_and, Bool.false_and, cond_true, cond_false]
    rw [drop_tail1 data (len / 4 * 4) (by omega)]
    rw [idx_sub_i32 len 1 (by omega) hl, dataArrs_getD]
    simp only [Int.reduceToNat]
    have e : len - 1 = len / 4 * 4 := by omega
    rw [e]
    have b0 := bnd (len / 4 * 4)
    generalize data.getD (len / 4 * 4) 0 = x at b0
    murmur_norm
    have ex : x % 4294967296 = x := Nat.mod_eq_of_lt (by omega)
    simp only [ex]
    simp only [Murmur.fin32, Murmur.tail32, Murmur.mul32, Murmur.shl32, Nat.mod_mod, xm1, xm2, sm1, sm2, Nat.mod_mul_mod]
  · have e11 : evalOp .sub .u32 (norm .u32 (len : Int)) ((len / 4 * 4 : Nat) : Int) = 2 := by
      simp only [evalOp, norm, Ty.half, Ty.modulus]; omega
    simp only [GoModel.loop_murmurHash.after, runRet, eval, evalC, upd, h1, h4, h5, h7, if_true, Nat.reduceEqDiff, if_false,
      e10, e11, eqb, leb, Int.reduceEq, Int.reduceLE, decide_true, decide_false, Bool.not_true, Bool.not_false,
      Bool.and_true, Bool.and_false, Bool.true_and, Bool.false_and, cond_true, cond_false]
    rw [drop_tail2 data (len / 4 * 4) (by omega)]
    rw [idx_sub_i32 len 1 (by omega) hl, idx_sub_i32 len 2 (by omega) hl, dataArrs_getD, dataArrs_getD]
    simp only [Int.reduceToNat]
    have e1 : len - 1 = len / 4 * 4 + 1 := by omega
    have e2 : len - 2 = len / 4 * 4 := by omega
    rw [e1, e2]
    have b0 := bnd (len / 4 * 4)
    have b1 := bnd (len / 4 * 4 + 1)
    generalize data.getD (len / 4 * 4) 0 = x at b0
    generalize data.getD (len / 4 * 4 + 1) 0 = y at b1
    murmur_norm
    have ex : x % 4294967296 = x := Nat.mod_eq_of_lt (by omega)
    have ey : y % 4294967296 = y := Nat.mod_eq_of_lt (by omega)
    simp only [ex, ey]
    simp only [Murmur.fin32, Murmur.tail32, Murmur.mul32, Murmur.shl32, Nat.mod_mod, xm1, xm2, sm1, sm2, Nat.mod_mul_mod]
  · have e11 : evalOp .sub .u32 (norm .u32 (len : Int)) ((len / 4 * 4 : Nat) : Int) = 3 := by
      simp only [evalOp, norm, Ty.half, Ty.modulus]; omega
    simp only [GoModel.loop_murmurHash.after, runRet, eval, evalC, upd, h1, h4, h5, h7, if_true, Nat.reduceEqDiff, if_false,
      e10, e11, eqb, leb, Int.reduceEq, Int.reduceLE, decide_true, decide_false, Bool.not_true, Bool.not_false,
      Bool.and_true, Bool.and_false, Bool.true_and, Bool.false_and, cond_true, cond_false]
    rw [drop_tail3 data (len / 4 * 4) (by omega)]
    rw [idx_sub_i32 len 1 (by omega) hl, idx_sub_i32 len 2 (by omega) hl, idx_sub_i32 len 3 (by omega) hl,
      dataArrs_getD, dataArrs_getD, dataArrs_getD]
    simp only [Int.reduceToNat]
    have e1 : len - 1 = len / 4 * 4 + 2 := by omega
    have e2 : len - 2 = len / 4 * 4 + 1 := by omega
    have e3 : len - 3 = len / 4 * 4 := by omega
    rw [e1, e2, e3]
    have b0 := bnd (len / 4 * 4)
    have b1 := bnd (len / 4 * 4 + 1)
    have b2 := bnd (len / 4 * 4 + 2)
    generalize data.getD (len / 4 * 4) 0 = x at b0
    generalize data.getD (len / 4 * 4 + 1) 0 = y at b1
    generalize data.getD (len / 4 * 4 + 2) 0 = z at b2
    murmur_norm
    have ex : x % 4294967296 = x := Nat.mod_eq_of_lt (by omega)
    have ey : y % 4294967296 = y := Nat.mod_eq_of_lt (by omega)
    have ez : z % 4294967296 = z := Nat.mod_eq_of_lt (by omega)
    simp only [ex, ey, ez]
    simp only [Murmur.fin32, Murmur.tail32, Murmur.mul32, Murmur.shl32, Nat.mod_mod, xm1, xm2, sm1, sm2, Nat.mod_mul_mod]

/-- **`murmurHash(data, len(data), seed)` as transcribed = `Murmur.murmur32 data seed`**, for every byte
    string shorter than 2^31 and every seed: prelude, `len/4` runs of the loop body, tail and avalanche.
    Identifier numbers: data 0, length 1, seed 2, i 3, h 4, m 5, r 6, len_4 7. -/
theorem murmur32_fn_bridge (pre body after : List Stmt)
    (hpre : sameVars [4, 5, 6, 7, 1] pre GoModel.loop_murmurHash.pre = true)
    (hb4 : canonVar 4 body = canonVar 4 GoModel.loop_murmurHash.body)
    (hb5 : canonVar 5 body = canonVar 5 GoModel.loop_murmurHash.body)
    (hb6 : canonVar 6 body = canonVar 6 GoModel.loop_murmurHash.body)
    (hb1 : canonVar 1 body = canonVar 1 GoModel.loop_murmurHash.body)
    (hb7 : canonVar 7 body = canonVar 7 GoModel.loop_murmurHash.body)
    (hafter : normStmts after = normStmts GoModel.loop_murmurHash.after)
    (data : Bytes) (hw : WFB data) (seed : Nat) (hs : seed < 4294967296) (hl : data.length < 2147483648)
    (ρ : Env) (h1 : ρ 1 = (data.length : Int)) (h2 : ρ 2 = (seed : Int)) :
    callLoop (dataArrs data) pre body after 3 (data.length / 4) ρ = ((Murmur.murmur32 data seed : Nat) : Int) := by
  have A := dataArrs data
  have hB : ∀ ρ, runEnv (dataArrs data) ρ body 4 = runEnv (dataArrs data) ρ GoModel.loop_murmurHash.body 4 :=
    fun ρ => canonVar_eq hb4 (by decide +kernel) _ ρ
  have hF : ∀ ρ x, x = 5 ∨ x = 6 ∨ x = 1 ∨ x = 7 → runEnv (dataArrs data) ρ body x = ρ x := by
    intro ρ x hx
    rcases hx with rfl | rfl | rfl | rfl
    · exact (canonVar_eq hb5 (by decide +kernel) _ ρ).trans (murmur32_body_frame _ ρ 5 (by decide))
    · exact (canonVar_eq hb6 (by decide +kernel) _ ρ).trans (murmur32_body_frame _ ρ 6 (by decide))
    · exact (canonVar_eq hb1 (by decide +kernel) _ ρ).trans (murmur32_body_frame _ ρ 1 (by decide))
    · exact (canonVar_eq hb7 (by decide +kernel) _ ρ).trans (murmur32_body_frame _ ρ 7 (by decide))
  have ⟨p4, p5, p6, p7, p1⟩ := murmur32_pre_bridge (dataArrs data) ρ data.length seed h1 h2 hl hs
  have hxor : seed ^^^ data.length % 4294967296 < 4294967296 :=
    Nat.xor_lt_two_pow (n := 32) hs (Nat.mod_lt _ (by decide))
  have sv := fun x hx => sameVars_eq hpre (dataArrs data) ρ x hx
  have ⟨l4, l5, l1, l7⟩ := murmur32_loop_bridge body data hw hB hF (data.length / 4) 0
    (runEnv (dataArrs data) ρ pre) _ (by rw [sv 4 (by simp)]; exact p4) (by rw [sv 5 (by simp)]; exact p5)
    (by rw [sv 6 (by simp)]; exact p6) hxor (by omega)
  unfold callLoop
  rw [(normStmts_eq hafter _ _).2]
  rw [murmur32_after_bridge data hw _ _ (by rw [l1, sv 1 (by simp)]; exact p1) l4 l5 (by rw [l7, sv 7 (by simp)]; exact p7)
    (by unfold blocksH; exact blocksG_lt data _ _ _ hxor) hl, retVal_some]
  apply congrArg (fun n : Nat => (n : Int))
  have hw4 := walk4_blocksH data (data.length / 4) 0 (seed ^^^ data.length % 4294967296) (by omega) (by omega)
  simp only [Nat.mul_zero, List.drop_zero, Nat.zero_add] at hw4
  unfold Murmur.murmur32 Murmur.blocks32
  simp only [hw4]
  rw [Nat.mul_comm]

/-! ### murmurHashLong (64 bit) -/

theorem band_u64_cast (a b : Nat) : evalOp .band .u64 (a : Int) (b : Int) = (((a % 18446744073709551616 &&& b % 18446744073709551616) % 18446744073709551616 : Nat) : Int) := by
  simp only [evalOp, bitsOp, pat_u64, norm_u64_cast]
theorem bxor_u64_cast (a b : Nat) : evalOp .bxor .u64 (a : Int) (b : Int) = (((a % 18446744073709551616 ^^^ b % 18446744073709551616) % 18446744073709551616 : Nat) : Int) := by
  simp only [evalOp, bitsOp, pat_u64, norm_u64_cast]
theorem shl_u64_cast (a : Nat) (k : Nat) : evalOp .shl .u64 (a : Int) (k : Int) = (((a <<< k) % 18446744073709551616 : Nat) : Int) := by
  simp only [evalOp, Int.toNat_natCast, Nat.shiftLeft_eq]
  rw [← norm_u64_cast]; simp
theorem add_u64_cast (a b : Nat) : evalOp .add .u64 (a : Int) (b : Int) = (((a + b) % 18446744073709551616 : Nat) : Int) := by
  simp only [evalOp]; rw [← norm_u64_cast]; simp
theorem lit_m64 : (14313749767032793493 : Int) = ((14313749767032793493 : Nat) : Int) := rfl
theorem lit_47 : (47 : Int) = ((47 : Nat) : Int) := rfl
theorem lit_32 : (32 : Int) = ((32 : Nat) : Int) := rfl
theorem lit_40 : (40 : Int) = ((40 : Nat) : Int) := rfl
theorem lit_48 : (48 : Int) = ((48 : Nat) : Int) := rfl
theorem lit_56 : (56 : Int) = ((56 : Nat) : Int) := rfl

theorem mod_lt64 (a : Nat) : a % 18446744073709551616 < 18446744073709551616 := Nat.mod_lt _ (by decide)
theorem xm1_64 (a b : Nat) : (a % 18446744073709551616 ^^^ b % 18446744073709551616) % 18446744073709551616 = a % 18446744073709551616 ^^^ b % 18446744073709551616 :=
  Nat.mod_eq_of_lt (Nat.xor_lt_two_pow (n := 64) (mod_lt64 a) (mod_lt64 b))
theorem shr_lt64 (a k : Nat) : (a % 18446744073709551616) >>> k < 18446744073709551616 :=
  Nat.lt_of_le_of_lt (Nat.shiftRight_le _ _) (mod_lt64 a)
theorem xm2_64 (a b k : Nat) : (a % 18446744073709551616 ^^^ (b % 18446744073709551616) >>> k) % 18446744073709551616 = a % 18446744073709551616 ^^^ (b % 18446744073709551616) >>> k :=
  Nat.mod_eq_of_lt (Nat.xor_lt_two_pow (n := 64) (mod_lt64 a) (shr_lt64 b k))
theorem sm1_64 (a k : Nat) : (a % 18446744073709551616) >>> k % 18446744073709551616 = (a % 18446744073709551616) >>> k := Nat.mod_eq_of_lt (shr_lt64 a k)
theorem sm2_64 (a b k : Nat) : (a % 18446744073709551616 ^^^ b % 18446744073709551616) >>> k % 18446744073709551616 = (a % 18446744073709551616 ^^^ b % 18446744073709551616) >>> k :=
  Nat.mod_eq_of_lt (Nat.lt_of_le_of_lt (Nat.shiftRight_le _ _) (Nat.xor_lt_two_pow (n := 64) (mod_lt64 a) (mod_lt64 b)))

theorem shl255 (d k : Nat) (hk : k ≤ 56) : (d &&& 255) <<< k % 18446744073709551616 = (d &&& 255) <<< k := by
  apply Nat.mod_eq_of_lt
  rw [Nat.shiftLeft_eq]
  have h1 : d &&& 255 < 256 := Nat.and_lt_two_pow d (by decide : 255 < 2 ^ 8)
  have h2 : 2 ^ k ≤ 2 ^ 56 := Nat.pow_le_pow_right (by decide) hk
  calc (d &&& 255) * 2 ^ k ≤ 255 * 2 ^ 56 := Nat.mul_le_mul (by omega) h2
    _ < 18446744073709551616 := by decide

theorem idx8_i64 (i : Nat) (j : Int) (hj : 0 ≤ j ∧ j ≤ 7) (hi : 8 * i + 7 < 4611686018427387904) :
    (evalOp .add .i64 (evalOp .mul .i64 (i : Int) 8) j).toNat = 8 * i + j.toNat := by
  simp only [evalOp, norm, Ty.half, Ty.modulus]; omega

theorem murmur64_body_bridge (data : Bytes) (hw : WFB data) (ρ : Env) (i h : Nat) (h3 : ρ 3 = (i : Int))
    (h4 : ρ 4 = (h : Int)) (h5 : ρ 5 = ((Murmur.m64 : Nat) : Int)) (h6 : ρ 6 = 47) (hh : h < 18446744073709551616)
    (hi : 8 * i + 7 < 4611686018427387904) :
    runEnv (dataArrs data) ρ GoModel.loop_murmurHashLong.body 4
      = ((Murmur.step64 h (data.getD (8 * i) 0) (data.getD (8 * i + 1) 0) (data.getD (8 * i + 2) 0)
          (data.getD (8 * i + 3) 0) (data.getD (8 * i + 4) 0) (data.getD (8 * i + 5) 0) (data.getD (8 * i + 6) 0)
          (data.getD (8 * i + 7) 0) : Nat) : Int) := by
  simp only [GoModel.loop_murmurHashLong.body, runEnv, eval, upd, dataArrs]
  simp only [if_true, Nat.reduceEqDiff, if_false, h3, h4, h5, h6]
  have j0 := idx8_i64 i 0 (by omega) hi
  have j1 := idx8_i64 i 1 (by omega) hi
  have j2 := idx8_i64 i 2 (by omega) hi
  have j3 := idx8_i64 i 3 (by omega) hi
  have j4 := idx8_i64 i 4 (by omega) hi
  have j5 := idx8_i64 i 5 (by omega) hi
  have j6 := idx8_i64 i 6 (by omega) hi
  have j7 := idx8_i64 i 7 (by omega) hi
  simp only [Int.reduceToNat, Nat.add_zero] at j0 j1 j2 j3 j4 j5 j6 j7
  simp only [j0, j1, j2, j3, j4, j5, j6, j7, bytes_getD]
  have b0 := getD_lt data hw (8 * i)
  have b1 := getD_lt data hw (8 * i + 1)
  have b2 := getD_lt data hw (8 * i + 2)
  have b3 := getD_lt data hw (8 * i + 3)
  have b4 := getD_lt data hw (8 * i + 4)
  have b5 := getD_lt data hw (8 * i + 5)
  have b6 := getD_lt data hw (8 * i + 6)
  have b7 := getD_lt data hw (8 * i + 7)
  generalize data.getD (8 * i) 0 = d0 at b0
  generalize data.getD (8 * i + 1) 0 = d1 at b1
  generalize data.getD (8 * i + 2) 0 = d2 at b2
  generalize data.getD (8 * i + 3) 0 = d3 at b3
  generalize data.getD (8 * i + 4) 0 = d4 at b4
  generalize data.getD (8 * i + 5) 0 = d5 at b5
  generalize data.getD (8 * i + 6) 0 = d6 at b6
  generalize data.getD (8 * i + 7) 0 = d7 at b7
  simp only [lit_255, lit_8, lit_16, lit_24, lit_32, lit_40, lit_48, lit_56, lit_47, norm_u64_cast, shl_u64_cast, band_u64_cast,
    add_u64_cast, mul_u64_cast, bxor_u64_cast, shr_u64_cast, Int.toNat_natCast]
  apply congrArg (fun n : Nat => (n : Int))
  have e0 : d0 % 18446744073709551616 = d0 := Nat.mod_eq_of_lt (by omega)
  have e1 : d1 % 18446744073709551616 = d1 := Nat.mod_eq_of_lt (by omega)
  have e2 : d2 % 18446744073709551616 = d2 := Nat.mod_eq_of_lt (by omega)
  have e3 : d3 % 18446744073709551616 = d3 := Nat.mod_eq_of_lt (by omega)
  have e4 : d4 % 18446744073709551616 = d4 := Nat.mod_eq_of_lt (by omega)
  have e5 : d5 % 18446744073709551616 = d5 := Nat.mod_eq_of_lt (by omega)
  have e6 : d6 % 18446744073709551616 = d6 := Nat.mod_eq_of_lt (by omega)
  have e7 : d7 % 18446744073709551616 = d7 := Nat.mod_eq_of_lt (by omega)
  have a255 (d : Nat) : (d &&& 255) % 18446744073709551616 = d &&& 255 :=
    Nat.mod_eq_of_lt (Nat.lt_of_lt_of_le (Nat.and_lt_two_pow d (by decide : 255 < 2 ^ 8)) (by decide))
  obtain ⟨h', rfl⟩ : ∃ h', h = h' % 18446744073709551616 := ⟨h, (Nat.mod_eq_of_lt hh).symm⟩
  simp only [e0, e1, e2, e3, e4, e5, e6, e7, Nat.reduceMod, a255, Nat.mod_mod, Nat.mod_add_mod, Nat.add_mod_mod,
    xm1_64, xm2_64, sm1_64, sm2_64, Nat.mod_mul_mod]
  simp only [Murmur.step64, Murmur.mixK64, Murmur.loadK64, Murmur.mul64, Murmur.shl64, Nat.mod_mod, Nat.mod_add_mod,
    Nat.add_mod_mod, xm1_64, xm2_64, sm1_64, sm2_64, Nat.mod_mul_mod]
  simp only [shl255 _ 8 (by decide), shl255 _ 16 (by decide), shl255 _ 24 (by decide), shl255 _ 32 (by decide),
    shl255 _ 40 (by decide), shl255 _ 48 (by decide)]

theorem band_u8_cast (a b : Nat) : evalOp .band .u8 (a : Int) (b : Int) = (((a % 256 &&& b % 256) % 256 : Nat) : Int) := by
  simp only [evalOp, bitsOp, pat_u8, norm_u8_cast]

theorem xm3_64 (a b c : Nat) : (a % 18446744073709551616 ^^^ b % 18446744073709551616 ^^^ c % 18446744073709551616) % 18446744073709551616 = a % 18446744073709551616 ^^^ b % 18446744073709551616 ^^^ c % 18446744073709551616 :=
  Nat.mod_eq_of_lt (Nat.xor_lt_two_pow (n := 64) (Nat.xor_lt_two_pow (n := 64) (mod_lt64 a) (mod_lt64 b)) (mod_lt64 c))

theorem xm4_64 (a b c d : Nat) : (a % 18446744073709551616 ^^^ b % 18446744073709551616 ^^^ c % 18446744073709551616 ^^^ d % 18446744073709551616) % 18446744073709551616 = a % 18446744073709551616 ^^^ b % 18446744073709551616 ^^^ c % 18446744073709551616 ^^^ d % 18446744073709551616 :=
  Nat.mod_eq_of_lt (Nat.xor_lt_two_pow (n := 64) (Nat.xor_lt_two_pow (n := 64) (Nat.xor_lt_two_pow (n := 64) (mod_lt64 a) (mod_lt64 b)) (mod_lt64 c)) (mod_lt64 d))

theorem xm5_64 (a b c d e : Nat) : (a % 18446744073709551616 ^^^ b % 18446744073709551616 ^^^ c % 18446744073709551616 ^^^ d % 18446744073709551616 ^^^ e % 18446744073709551616) % 18446744073709551616 = a % 18446744073709551616 ^^^ b % 18446744073709551616 ^^^ c % 18446744073709551616 ^^^ d % 18446744073709551616 ^^^ e % 18446744073709551616 :=
  Nat.mod_eq_of_lt (Nat.xor_lt_two_pow (n := 64) (Nat.xor_lt_two_pow (n := 64) (Nat.xor_lt_two_pow (n := 64) (Nat.xor_lt_two_pow (n := 64) (mod_lt64 a) (mod_lt64 b)) (mod_lt64 c)) (mod_lt64 d)) (mod_lt64 e))

theorem xm6_64 (a b c d e f : Nat) : (a % 18446744073709551616 ^^^ b % 18446744073709551616 ^^^ c % 18446744073709551616 ^^^ d % 18446744073709551616 ^^^ e % 18446744073709551616 ^^^ f % 18446744073709551616) % 18446744073709551616 = a % 18446744073709551616 ^^^ b % 18446744073709551616 ^^^ c % 18446744073709551616 ^^^ d % 18446744073709551616 ^^^ e % 18446744073709551616 ^^^ f % 18446744073709551616 :=
  Nat.mod_eq_of_lt (Nat.xor_lt_two_pow (n := 64) (Nat.xor_lt_two_pow (n := 64) (Nat.xor_lt_two_pow (n := 64) (Nat.xor_lt_two_pow (n := 64) (Nat.xor_lt_two_pow (n := 64) (mod_lt64 a) (mod_lt64 b)) (mod_lt64 c)) (mod_lt64 d)) (mod_lt64 e)) (mod_lt64 f))

theorem xm7_64 (a b c d e f g : Nat) : (a % 18446744073709551616 ^^^ b % 18446744073709551616 ^^^ c % 18446744073709551616 ^^^ d % 18446744073709551616 ^^^ e % 18446744073709551616 ^^^ f % 18446744073709551616 ^^^ g % 18446744073709551616) % 18446744073709551616 = a % 18446744073709551616 ^^^ b % 18446744073709551616 ^^^ c % 18446744073709551616 ^^^ d % 18446744073709551616 ^^^ e % 18446744073709551616 ^^^ f % 18446744073709551616 ^^^ g % 18446744073709551616 :=
  Nat.mod_eq_of_lt (Nat.xor_lt_two_pow (n := 64) (Nat.xor_lt_two_pow (n := 64) (Nat.xor_lt_two_pow (n := 64) (Nat.xor_lt_two_pow (n := 64) (Nat.xor_lt_two_pow (n := 64) (Nat.xor_lt_two_pow (n := 64) (mod_lt64 a) (mod_lt64 b)) (mod_lt64 c)) (mod_lt64 d)) (mod_lt64 e)) (mod_lt64 f)) (mod_lt64 g))

theorem xm8_64 (a b c d e f g h : Nat) : (a % 18446744073709551616 ^^^ b % 18446744073709551616 ^^^ c % 18446744073709551616 ^^^ d % 18446744073709551616 ^^^ e % 18446744073709551616 ^^^ f % 18446744073709551616 ^^^ g % 18446744073709551616 ^^^ h % 18446744073709551616) % 18446744073709551616 = a % 18446744073709551616 ^^^ b % 18446744073709551616 ^^^ c % 18446744073709551616 ^^^ d % 18446744073709551616 ^^^ e % 18446744073709551616 ^^^ f % 18446744073709551616 ^^^ g % 18446744073709551616 ^^^ h % 18446744073709551616 :=
  Nat.mod_eq_of_lt (Nat.xor_lt_two_pow (n := 64) (Nat.xor_lt_two_pow (n := 64) (Nat.xor_lt_two_pow (n := 64) (Nat.xor_lt_two_pow (n := 64) (Nat.xor_lt_two_pow (n := 64) (Nat.xor_lt_two_pow (n := 64) (Nat.xor_lt_two_pow (n := 64) (mod_lt64 a) (mod_lt64 b)) (mod_lt64 c)) (mod_lt64 d)) (mod_lt64 e)) (mod_lt64 f)) (mod_lt64 g)) (mod_lt64 h))

theorem drop_tail4 (data : Bytes) (n : Nat) (h : n + 4 = data.length) :
    data.drop n = [data.getD n 0, data.getD (n + 1) 0, data.getD (n + 2) 0, data.getD (n + 3) 0] := by
  rw [drop_cons_getD data n (by omega), drop_tail3 data (n + 1) (by omega)]

theorem drop_tail5 (data : Bytes) (n : Nat) (h : n + 5 = data.length) :
    data.drop n = [data.getD n 0, data.getD (n + 1) 0, data.getD (n + 2) 0, data.getD (n + 3) 0, data.getD (n + 4) 0] := by
  rw [drop_cons_getD data n (by omega), drop_tail4 data (n + 1) (by omega)]

theorem drop_tail6 (data : Bytes) (n : Nat) (h : n + 6 = data.length) :
    data.drop n = [data.getD n 0, data.getD (n + 1) 0, data.getD (n + 2) 0, data.getD (n + 3) 0, data.getD (n + 4) 0, data.getD (n + 5) 0] := by
  rw [drop_cons_getD data n (by omega), drop_tail5 data (n + 1) (by omega)]

theorem drop_tail7 (data : Bytes) (n : Nat) (h : n + 7 = data.length) :
    data.drop n = [data.getD n 0, data.getD (n + 1) 0, data.getD (n + 2) 0, data.getD (n + 3) 0, data.getD (n + 4) 0, data.getD (n + 5) 0, data.getD (n + 6) 0] := by
  rw [drop_cons_getD data n (by omega), drop_tail6 data (n + 1) (by omega)]

theorem murmur64_body_frame (A : Arrays) (ρ : Env) (x : Nat) (hx : x ≠ 8 ∧ x ≠ 9 ∧ x ≠ 4) :
    runEnv A ρ GoModel.loop_murmurHashLong.body x = ρ x := by
  obtain ⟨h8, h9, h4⟩ := hx
  simp only [GoModel.loop_murmurHashLong.body, runEnv, upd, h8, h9, h4, if_false]

def blocksG8 (f : Nat → Nat → Nat → Nat → Nat → Nat → Nat → Nat → Nat → Nat) (data : Bytes) : Nat → Nat → Nat → Nat
  | _, 0, h => h
  | k, n + 1, h => blocksG8 f data (k + 1) n
      (f h (data.getD (8 * k) 0) (data.getD (8 * k + 1) 0) (data.getD (8 * k + 2) 0) (data.getD (8 * k + 3) 0)
        (data.getD (8 * k + 4) 0) (data.getD (8 * k + 5) 0) (data.getD (8 * k + 6) 0) (data.getD (8 * k + 7) 0))

def blocksH8 (data : Bytes) : Nat → Nat → Nat → Nat := blocksG8 Murmur.step64 data

theorem blocksH8_succ (data : Bytes) (k n h : Nat) : blocksH8 data k (n + 1) h = blocksH8 data (k + 1) n
    (Murmur.step64 h (data.getD (8 * k) 0) (data.getD (8 * k + 1) 0) (data.getD (8 * k + 2) 0) (data.getD (8 * k + 3) 0)
      (data.getD (8 * k + 4) 0) (data.getD (8 * k + 5) 0) (data.getD (8 * k + 6) 0) (data.getD (8 * k + 7) 0)) := by
  unfold blocksH8; rw [blocksG8]

theorem step64_lt (h d0 d1 d2 d3 d4 d5 d6 d7 : Nat) : Murmur.step64 h d0 d1 d2 d3 d4 d5 d6 d7 < 18446744073709551616 := by
  unfold Murmur.step64 Murmur.mul64
  exact Nat.mod_lt _ (by decide)

theorem blocksG8_lt (data : Bytes) : ∀ (n k h : Nat), h < 18446744073709551616 →
    blocksG8 Murmur.step64 data k n h < 18446744073709551616 := by
  intro n
  induction n with
  | zero => intro k h hh; rw [blocksG8]; exact hh
  | succ n ih => intro k h hh; rw [blocksG8]; exact ih _ _ (step64_lt _ _ _ _ _ _ _ _ _)

theorem murmur64_loop_bridge (body : List Stmt) (data : Bytes) (hw : WFB data)
    (hbody : ∀ ρ, runEnv (dataArrs data) ρ body 4 = runEnv (dataArrs data) ρ GoModel.loop_murmurHashLong.body 4)
    (hframe : ∀ ρ x, x = 5 ∨ x = 6 ∨ x = 1 → runEnv (dataArrs data) ρ body x = ρ x) :
    ∀ (n k : Nat) (ρ : Env) (h : Nat), ρ 4 = (h : Int) → ρ 5 = ((Murmur.m64 : Nat) : Int) → ρ 6 = 47 →
      h < 18446744073709551616 → 8 * (k + n) + 7 < 4611686018427387904 →
      forLoop (dataArrs data) body 3 n k ρ 4 = ((blocksH8 data k n h : Nat) : Int)
      ∧ forLoop (dataArrs data) body 3 n k ρ 5 = ((Murmur.m64 : Nat) : Int)
      ∧ forLoop (dataArrs data) body 3 n k ρ 6 = 47
      ∧ forLoop (dataArrs data) body 3 n k ρ 1 = ρ 1 := by
  intro n
  induction n with
  | zero => intro k ρ h h4 h5 h6 hh hk; exact ⟨h4, h5, h6, rfl⟩
  | succ n ih =>
    intro k ρ h h4 h5 h6 hh hk
    have u4 : upd ρ 3 (k : Int) 4 = (h : Int) := by simp only [upd]; exact h4
    have u5 : upd ρ 3 (k : Int) 5 = ((Murmur.m64 : Nat) : Int) := by simp only [upd]; exact h5
    have u6 : upd ρ 3 (k : Int) 6 = 47 := by simp only [upd]; exact h6
    have u3 : upd ρ 3 (k : Int) 3 = (k : Int) := by simp only [upd, if_true]
    have b := murmur64_body_bridge data hw (upd ρ 3 (k : Int)) k h u3 u4 u5 u6 hh (by omega)
    have r := ih (k + 1) (runEnv (dataArrs data) (upd ρ 3 (k : Int)) body)
      (Murmur.step64 h (data.getD (8 * k) 0) (data.getD (8 * k + 1) 0) (data.getD (8 * k + 2) 0) (data.getD (8 * k + 3) 0)
        (data.getD (8 * k + 4) 0) (data.getD (8 * k + 5) 0) (data.getD (8 * k + 6) 0) (data.getD (8 * k + 7) 0))
      (by rw [hbody]; exact b) (by rw [hframe _ 5 (Or.inl rfl)]; exact u5)
      (by rw [hframe _ 6 (Or.inr (Or.inl rfl))]; exact u6) (step64_lt _ _ _ _ _ _ _ _ _) (by omega)
    rw [forLoop, blocksH8_succ]
    refine ⟨r.1, r.2.1, r.2.2.1, ?_⟩
    rw [r.2.2.2, hframe _ 1 (Or.inr (Or.inr rfl))]; simp only [upd]; rfl

theorem drop8 (data : Bytes) (k : Nat) (h : 8 * k + 7 < data.length) :
    data.drop (8 * k) = data.getD (8 * k) 0 :: data.getD (8 * k + 1) 0 :: data.getD (8 * k + 2) 0
      :: data.getD (8 * k + 3) 0 :: data.getD (8 * k + 4) 0 :: data.getD (8 * k + 5) 0 :: data.getD (8 * k + 6) 0
      :: data.getD (8 * k + 7) 0 :: data.drop (8 * (k + 1)) := by
  rw [drop_cons_getD data (8 * k) (by omega), drop_cons_getD data (8 * k + 1) (by omega),
      drop_cons_getD data (8 * k + 2) (by omega), drop_cons_getD data (8 * k + 3) (by omega),
      drop_cons_getD data (8 * k + 4) (by omega), drop_cons_getD data (8 * k + 5) (by omega),
      drop_cons_getD data (8 * k + 6) (by omega), drop_cons_getD data (8 * k + 7) (by omega)]
  rfl

theorem walk8_blocksH8 (data : Bytes) : ∀ (n k h : Nat), 8 * (k + n) ≤ data.length → data.length < 8 * (k + n) + 8 →
    Murmur.walk8 Murmur.step64 (data.drop (8 * k)) h = (blocksH8 data k n h, data.drop (8 * (k + n))) := by
  intro n
  induction n with
  | zero =>
    intro k h h1 h2
    rw [Murmur.walk8_short _ _ _ (by rw [List.length_drop]; omega)]
    rfl
  | succ n ih =>
    intro k h h1 h2
    rw [drop8 data k (by omega), Murmur.walk8_cons, blocksH8_succ, ih (k + 1) _ (by omega) (by omega)]
    have : k + 1 + n = k + (n + 1) := by omega
    rw [this]

theorem tdiv8_cast (n : Nat) : ((n : Int)).tdiv 8 = ((n / 8 : Nat) : Int) := by
  rw [Int.tdiv_eq_ediv_of_nonneg (by omega)]; simp
theorem tmod8_cast (n : Nat) : ((n : Int)).tmod 8 = ((n % 8 : Nat) : Int) := by
  rw [Int.tmod_eq_emod_of_nonneg (by omega)]; simp

theorem murmur64_pre_bridge (A : Arrays) (ρ : Env) (len seed : Nat) (h1 : ρ 1 = (len : Int)) (h2 : ρ 2 = (seed : Int))
    (hl : len < 2147483648) (hs : seed < 4294967296) :
    let ρ' := runEnv A ρ GoModel.loop_murmurHashLong.pre
    ρ' 4 = (((seed &&& 0xffffffff) ^^^ Murmur.mul64 (len % 18446744073709551616) Murmur.m64 : Nat) : Int)
    ∧ ρ' 5 = ((Murmur.m64 : Nat) : Int) ∧ ρ' 6 = 47 ∧ ρ' 7 = ((len / 8 : Nat) : Int) ∧ ρ' 1 = (len : Int) := by
  simp only [GoModel.loop_murmurHashLong.pre, runEnv, eval, upd, h1, h2, if_true, Nat.reduceEqDiff, if_false]
  refine ⟨?_, rfl, trivial, ?_, trivial⟩
  · simp only [lit_m64, norm_u64_cast, bxor_u64_cast, mul_u64_cast]
    have e : evalOp .band .u32 (seed : Int) 4294967295 = ((seed : Nat) : Int) := by
      have : (4294967295 : Int) = ((4294967295 : Nat) : Int) := rfl
      rw [this, band_u32_cast]
      apply congrArg (fun n : Nat => (n : Int))
      have e : (4294967295 : Nat) = 2 ^ 32 - 1 := rfl
      rw [Nat.mod_eq_of_lt hs, Nat.mod_eq_of_lt (by decide : 4294967295 < 4294967296), e,
        Nat.and_two_pow_sub_one_eq_mod]
      simp [Nat.mod_eq_of_lt hs]
    rw [e]
    simp only [norm_u64_cast, bxor_u64_cast, mul_u64_cast]
    apply congrArg (fun n : Nat => (n : Int))
    have e2 : seed &&& 0xffffffff = seed := by
      have e : (0xffffffff : Nat) = 2 ^ 32 - 1 := rfl
      rw [e, Nat.and_two_pow_sub_one_eq_mod]; exact Nat.mod_eq_of_lt hs
    simp only [e2, Murmur.mul64, Nat.mod_mod, xm1_64, Nat.mod_mul_mod]
    rw [Nat.mod_eq_of_lt (by omega : seed < 18446744073709551616)]
    rfl
  · simp only [evalOp, tdiv8_cast]
    simp only [norm, Ty.half, Ty.modulus]; omega

theorem and_m8 (x : Nat) (hx : x < 2 ^ 32) : x &&& 4294967288 = x - x % 8 := by
  apply Nat.eq_of_testBit_eq
  intro i
  have em : (4294967288 : Nat) = (2 ^ 29 - 1) * 2 ^ 3 := by decide
  have ex : x - x % 8 = x / 2 ^ 3 * 2 ^ 3 := by
    have := Nat.div_add_mod x 8
    have e : (8 : Nat) = 2 ^ 3 := by decide
    rw [← e]; omega
  rw [Nat.testBit_and, em, ex, Nat.testBit_mul_two_pow, Nat.testBit_mul_two_pow, Nat.testBit_two_pow_sub_one,
      Nat.testBit_div_two_pow]
  by_cases h : 3 ≤ i
  · have e : 3 + (i - 3) = i := by omega
    by_cases h2 : i < 32
    · have : i - 3 < 29 := by omega
      simp [h, this, e]
    · have hf : x.testBit i = false := Nat.testBit_lt_two_pow (Nat.lt_of_lt_of_le hx (Nat.pow_le_pow_right (by decide) (by omega)))
      simp [h, e, hf]
  · simp [h]

theorem band_m8 (len : Nat) (hl : len < 2147483648) :
    evalOp .band .i32 (len : Int) (-8) = ((len - len % 8 : Nat) : Int) := by
  simp only [evalOp, bitsOp, pat, norm, Ty.half, Ty.modulus, Int.reduceNeg, Int.reduceMod, Int.reduceToNat]
  have e : ((len : Int) % 4294967296).toNat = len := by omega
  rw [e, and_m8 len (by omega)]
  omega

theorem rem8_i32 (len : Nat) (hl : len < 2147483648) : evalOp .rem .i32 (len : Int) 8 = ((len % 8 : Nat) : Int) := by
  simp only [evalOp, tmod8_cast]
  simp only [norm, Ty.half, Ty.modulus]; omega

theorem idx_add_i32 (base : Nat) (j : Int) (hj : 0 ≤ j ∧ j ≤ 7) (hb : base + 7 < 2147483648) :
    (evalOp .add .i32 (base : Int) j).toNat = base + j.toNat := by
  simp only [evalOp, norm, Ty.half, Ty.modulus]; omega


theorem m256 (d : Nat) : (d &&& 255) % 256 = d &&& 255 := Nat.mod_eq_of_lt (Nat.and_lt_two_pow d (by decide : 255 < 2 ^ 8))
theorem a255 (d : Nat) : (d &&& 255) % 18446744073709551616 = d &&& 255 :=
  Nat.mod_eq_of_lt (Nat.lt_of_lt_of_le (Nat.and_lt_two_pow d (by decide : 255 < 2 ^ 8)) (by decide))
theorem sh255' (d k : Nat) : ((d &&& 255) % 18446744073709551616) <<< k = (d &&& 255) <<< k := by rw [a255]

theorem murmur64_after_bridge (data : Bytes) (hw : WFB data) (ρ : Env) (h : Nat)
    (h1 : ρ 1 = (data.length : Int)) (h4 : ρ 4 = (h : Int)) (h5 : ρ 5 = ((Murmur.m64 : Nat) : Int)) (h6 : ρ 6 = 47)
    (hh : h < 18446744073709551616) (hl : data.length < 2147483648) :
    runRet (dataArrs data) ρ GoModel.loop_murmurHashLong.after
      = some ((Murmur.fin64 (Murmur.tail64 (data.drop (data.length / 8 * 8)) h) : Nat) : Int) := by
  obtain ⟨h', rfl⟩ : ∃ h', h = h' % 18446744073709551616 := ⟨h, (Nat.mod_eq_of_lt hh).symm⟩
  generalize hlen : data.length = len at *
  have bnd (k : Nat) := getD_lt data hw k
  have eB := band_m8 len hl
  have base : len - len % 8 = len / 8 * 8 := by omega
  have hr : len % 8 = 0 ∨ len % 8 = 1 ∨ len % 8 = 2 ∨ len % 8 = 3 ∨ len % 8 = 4 ∨ len % 8 = 5 ∨ len % 8 = 6 ∨ len % 8 = 7 := by
    omega
  rcases hr with hr | hr | hr | hr | hr | hr | hr | hr
  · have eR : evalOp .rem .i32 (len : Int) 8 = 0 := by rw [rem8_i32 len hl, hr]; rfl
    have c0 : ([7] : List Int).contains 0 = false := by decide
    have c1 : ([7, 6] : List Int).contains 0 = false := by decide
    have c2 : ([7, 6, 5] : List Int).contains 0 = false := by decide
    have c3 : ([7, 6, 5, 4] : List Int).contains 0 = false := by decide
    have c4 : ([7, 6, 5, 4, 3] : List Int).contains 0 = false := by decide
    have c5 : ([7, 6, 5, 4, 3, 2] : List Int).contains 0 = false := by decide
    have c6 : ([7, 6, 5, 4, 3, 2, 1] : List Int).contains 0 = false := by decide
    simp only [GoModel.loop_murmurHashLong.after, runRet, eval, evalC, upd, h1, h4, h5, h6, if_true, Nat.reduceEqDiff, if_false,
      eR, eB, c0, c1, c2, c3, c4, c5, c6, cond_true, cond_false]
    rw [drop_tail0 data (len / 8 * 8) (by omega)]
    simp only [lit_255, lit_8, lit_16, lit_24, lit_32, lit_40, lit_48, lit_47, norm_u64_cast, shl_u64_cast, band_u64_cast,
      band_u8_cast, mul_u64_cast, bxor_u64_cast, shr_u64_cast, Int.toNat_natCast]
    apply congrArg (fun n : Nat => some (n : Int))
    simp only [Nat.reduceMod, m256, sh255', Nat.mod_mod]
    simp only [xm8_64, xm7_64, xm6_64, xm5_64, xm4_64, xm3_64, xm1_64, xm2_64, sm1_64, sm2_64, Nat.mod_mod, Nat.mod_mul_mod]
    try simp only [a255]
    simp only [Murmur.fin64, Murmur.tail64, Murmur.mul64, Murmur.shl64, Nat.mod_mod, xm1_64, xm2_64, sm1_64, sm2_64,
      Nat.mod_mul_mod]
  · have eR : evalOp .rem .i32 (len : Int) 8 = 1 := by rw [rem8_i32 len hl, hr]; rfl
    have c0 : ([7] : List Int).contains 1 = false := by decide
    have c1 : ([7, 6] : List Int).contains 1 = false := by decide
    have c2 : ([7, 6, 5] : List Int).contains 1 = false := by decide
    have c3 : ([7, 6, 5, 4] : List Int).contains 1 = false := by decide
    have c4 : ([7, 6, 5, 4, 3] : List Int).contains 1 = false := by decide
    have c5 : ([7, 6, 5, 4, 3, 2] : List Int).contains 1 = false := by decide
    have c6 : ([7, 6, 5, 4, 3, 2, 1] : List Int).contains 1 = true := by decide
    simp only [GoModel.loop_murmurHashLong.after, runRet, eval, evalC, upd, h1, h4, h5, h6, if_true, Nat.reduceEqDiff, if_false,
      eR, eB, c0, c1, c2, c3, c4, c5, c6, cond_true, cond_false]
    rw [drop_tail1 data (len / 8 * 8) (by omega)]
    simp only [base, Int.toNat_natCast, Int.reduceToNat, dataArrs_getD]
    have b0 := bnd (len / 8 * 8)
    generalize data.getD (len / 8 * 8) 0 = x0 at b0
    simp only [lit_255, lit_8, lit_16, lit_24, lit_32, lit_40, lit_48, lit_47, norm_u64_cast, shl_u64_cast, band_u64_cast,
      band_u8_cast, mul_u64_cast, bxor_u64_cast, shr_u64_cast, Int.toNat_natCast]
    apply congrArg (fun n : Nat => some (n : Int))
    have e0 : x0 % 256 = x0 := Nat.mod_eq_of_lt b0
    have f0 : x0 % 18446744073709551616 = x0 := Nat.mod_eq_of_lt (by omega)
    simp only [e0, f0, Nat.reduceMod, m256, sh255', Nat.mod_mod]
    simp only [xm8_64, xm7_64, xm6_64, xm5_64, xm4_64, xm3_64, xm1_64, xm2_64, sm1_64, sm2_64, Nat.mod_mod, Nat.mod_mul_mod]
    try simp only [a255]
    simp only [Murmur.fin64, Murmur.tail64, Murmur.mul64, Murmur.shl64, Nat.mod_mod, xm1_64, xm2_64, sm1_64, sm2_64,
      Nat.mod_mul_mod]
  · have eR : evalOp .rem .i32 (len : Int) 8 = 2 := by rw [rem8_i32 len hl, hr]; rfl
    have c0 : ([7] : List Int).contains 2 = false := by decide
    have c1 : ([7, 6] : List Int).contains 2 = false := by decide
    have c2 : ([7, 6, 5] : List Int).contains 2 = false := by decide
    have c3 : ([7, 6, 5, 4] : List Int).contains 2 = false := by decide
    have c4 : ([7, 6, 5, 4, 3] : List Int).contains 2 = false := by decide
    have c5 : ([7, 6, 5, 4, 3, 2] : List Int).contains 2 = true := by decide
    have c6 : ([7, 6, 5, 4, 3, 2, 1] : List Int).contains 2 = true := by decide
    simp only [GoModel.loop_murmurHashLong.after, runRet, eval, evalC, upd, h1, h4, h5, h6, if_true, Nat.reduceEqDiff, if_false,
      eR, eB, c0, c1, c2, c3, c4, c5, c6, cond_true, cond_false]
    rw [drop_tail2 data (len / 8 * 8) (by omega)]
    simp only [base, idx_add_i32 (len / 8 * 8) 1 (by omega) (by omega), Int.toNat_natCast, Int.reduceToNat, dataArrs_getD]
    have b0 := bnd (len / 8 * 8)
    have b1 := bnd (len / 8 * 8 + 1)
    generalize data.getD (len / 8 * 8) 0 = x0 at b0
    generalize data.getD (len / 8 * 8 + 1) 0 = x1 at b1
    simp only [lit_255, lit_8, lit_16, lit_24, lit_32, lit_40, lit_48, lit_47, norm_u64_cast, shl_u64_cast, band_u64_cast,
      band_u8_cast, mul_u64_cast, bxor_u64_cast, shr_u64_cast, Int.toNat_natCast]
    apply congrArg (fun n : Nat => some (n : Int))
    have e0 : x0 % 256 = x0 := Nat.mod_eq_of_lt b0
    have f0 : x0 % 18446744073709551616 = x0 := Nat.mod_eq_of_lt (by omega)
    have e1 : x1 % 256 = x1 := Nat.mod_eq_of_lt b1
    have f1 : x1 % 18446744073709551616 = x1 := Nat.mod_eq_of_lt (by omega)
    simp only [e0, f0, e1, f1, Nat.reduceMod, m256, sh255', Nat.mod_mod]
    simp only [xm8_64, xm7_64, xm6_64, xm5_64, xm4_64, xm3_64, xm1_64, xm2_64, sm1_64, sm2_64, Nat.mod_mod, Nat.mod_mul_mod]
    try simp only [a255]
    simp only [Murmur.fin64, Murmur.tail64, Murmur.mul64, Murmur.shl64, Nat.mod_mod, xm1_64, xm2_64, sm1_64, sm2_64,
      Nat.mod_mul_mod]
  · have eR : evalOp .rem .i32 (len : Int) 8 = 3 := by rw [rem8_i32 len hl, hr]; rfl
    have c0 : ([7] : List Int).contains 3 = false := by decide
    have c1 : ([7, 6] : List Int).contains 3 = false := by decide
    have c2 : ([7, 6, 5] : List Int).contains 3 = false := by decide
    have c3 : ([7, 6, 5, 4] : List Int).contains 3 = false := by decide
    have c4 : ([7, 6, 5, 4, 3] : List Int).contains 3 = true := by decide
    have c5 : ([7, 6, 5, 4, 3, 2] : List Int).contains 3 = true := by decide
    have c6 : ([7, 6, 5, 4, 3, 2, 1] : List Int).contains 3 = true := by decide
    simp only [GoModel.loop_murmurHashLong.after, runRet, eval, evalC, upd, h1, h4, h5, h6, if_true, Nat.reduceEqDiff, if_false,
      eR, eB, c0, c1, c2, c3, c4, c5, c6, cond_true, cond_false]
    rw [drop_tail3 data (len / 8 * 8) (by omega)]
    simp only [base, idx_add_i32 (len / 8 * 8) 1 (by omega) (by omega), idx_add_i32 (len / 8 * 8) 2 (by omega) (by omega), Int.toNat_natCast, Int.reduceToNat, dataArrs_getD]
    have b0 := bnd (len / 8 * 8)
    have b1 := bnd (len / 8 * 8 + 1)
    have b2 := bnd (len / 8 * 8 + 2)
    generalize data.getD (len / 8 * 8) 0 = x0 at b0
    generalize data.getD (len / 8 * 8 + 1) 0 = x1 at b1
    generalize data.getD (len / 8 * 8 + 2) 0 = x2 at b2
    simp only [lit_255, lit_8, lit_16, lit_24, lit_32, lit_40, lit_48, lit_47, norm_u64_cast, shl_u64_cast, band_u64_cast,
      band_u8_cast, mul_u64_cast, bxor_u64_cast, shr_u64_cast, Int.toNat_natCast]
    apply congrArg (fun n : Nat => some (n : Int))
    have e0 : x0 % 256 = x0 := Nat.mod_eq_of_lt b0
    have f0 : x0 % 18446744073709551616 = x0 := Nat.mod_eq_of_lt (by omega)
    have e1 : x1 % 256 = x1 := Nat.mod_eq_of_lt b1
    have f1 : x1 % 18446744073709551616 = x1 := Nat.mod_eq_of_lt (by omega)
    have e2 : x2 % 256 = x2 := Nat.mod_eq_of_lt b2
    have f2 : x2 % 18446744073709551616 = x2 := Nat.mod_eq_of_lt (by omega)
    simp only [e0, f0, e1, f1, e2, f2, Nat.reduceMod, m256, sh255', Nat.mod_mod]
    simp only [xm8_64, xm7_64, xm6_64, xm5_64, xm4_64, xm3_64, xm1_64, xm2_64, sm1_64, sm2_64, Nat.mod_mod, Nat.mod_mul_mod]
    try simp only [a255]
    simp only [Murmur.fin64, Murmur.tail64, Murmur.mul64, Murmur.shl64, Nat.mod_mod, xm1_64, xm2_64, sm1_64, sm2_64,
      Nat.mod_mul_mod]
  · have eR : evalOp .rem .i32 (len : Int) 8 = 4 := by rw [rem8_i32 len hl, hr]; rfl
    have c0 : ([7] : List Int).contains 4 = false := by decide
    have c1 : ([7, 6] : List Int).contains 4 = false := by decide
    have c2 : ([7, 6, 5] : List Int).contains 4 = false := by decide
    have c3 : ([7, 6, 5, 4] : List Int).contains 4 = true := by decide
    have c4 : ([7, 6, 5, 4, 3] : List Int).contains 4 = true := by decide
    have c5 : ([7, 6, 5, 4, 3, 2] : List Int).contains 4 = true := by decide
    have c6 : ([7, 6, 5, 4, 3, 2, 1] : List Int).contains 4 = true := by decide
    simp only [GoModel.loop_murmurHashLong.after, runRet, eval, evalC, upd, h1, h4, h5, h6, if_true, Nat.reduceEqDiff, if_false,
      eR, eB, c0, c1, c2, c3, c4, c5, c6, cond_true, cond_false]
    rw [drop_tail4 data (len / 8 * 8) (by omega)]
    simp only [base, idx_add_i32 (len / 8 * 8) 1 (by omega) (by omega), idx_add_i32 (len / 8 * 8) 2 (by omega) (by omega), idx_add_i32 (len / 8 * 8) 3 (by omega) (by omega), Int.toNat_natCast, Int.reduceToNat, dataArrs_getD]
    have b0 := bnd (len / 8 * 8)
    have b1 := bnd (len / 8 * 8 + 1)
    have b2 := bnd (len / 8 * 8 + 2)
    have b3 := bnd (len / 8 * 8 + 3)
    generalize data.getD (len / 8 * 8) 0 = x0 at b0
    generalize data.getD (len / 8 * 8 + 1) 0 = x1 at b1
    generalize data.getD (len / 8 * 8 + 2) 0 = x2 at b2
    generalize data.getD (len / 8 * 8 + 3) 0 = x3 at b3
    simp only [lit_255, lit_8, lit_16, lit_24, lit_32, lit_40, lit_48, lit_47, norm_u64_cast, shl_u64_cast, band_u64_cast,
      band_u8_cast, mul_u64_cast, bxor_u64_cast, shr_u64_cast, Int.toNat_natCast]
    apply congrArg (fun n : Nat => some (n : Int))
    have e0 : x0 % 256 = x0 := Nat.mod_eq_of_lt b0
    have f0 : x0 % 18446744073709551616 = x0 := Nat.mod_eq_of_lt (by omega)
    have e1 : x1 % 256 = x1 := Nat.mod_eq_of_lt b1
    have f1 : x1 % 18446744073709551616 = x1 := Nat.mod_eq_of_lt (by omega)
    have e2 : x2 % 256 = x2 := Nat.mod_eq_of_lt b2
    have f2 : x2 % 18446744073709551616 = x2 := Nat.mod_eq_of_lt (by omega)
    have e3 : x3 % 256 = x3 := Nat.mod_eq_of_lt b3
    have f3 : x3 % 18446744073709551616 = x3 := Nat.mod_eq_of_lt (by omega)
    simp only [e0, f0, e1, f1, e2, f2, e3, f3, Nat.reduceMod, m256, sh255', Nat.mod_mod]
    simp only [xm8_64, xm7_64, xm6_64, xm5_64, xm4_64, xm3_64, xm1_64, xm2_64, sm1_64, sm2_64, Nat.mod_mod, Nat.mod_mul_mod]
    try simp only [a255]
    simp only [Murmur.fin64, Murmur.tail64, Murmur.mul64, Murmur.shl64, Nat.mod_mod, xm1_64, xm2_64, sm1_64, sm2_64,
      Nat.mod_mul_mod]
  · have eR : evalOp .rem .i32 (len : Int) 8 = 5 := by rw [rem8_i32 len hl, hr]; rfl
    have c0 : ([7] : List Int).contains 5 = false := by decide
    have c1 : ([7, 6] : List Int).contains 5 = false := by decide
    have c2 : ([7, 6, 5] : List Int).contains 5 = true := by decide
    have c3 : ([7, 6, 5, 4] : List Int).contains 5 = true := by decide
    have c4 : ([7, 6, 5, 4, 3] : List Int).contains 5 = true := by decide
    have c5 : ([7, 6, 5, 4, 3, 2] : List Int).contains 5 = true := by decide
    have c6 : ([7, 6, 5, 4, 3, 2, 1] : List Int).contains 5 = true := by decide
    simp only [GoModel.loop_murmurHashLong.after, runRet, eval, evalC, upd, h1, h4, h5, h6, if_true, Nat.reduceEqDiff, if_false,
      eR, eB, c0, c1, c2, c3, c4, c5, c6, cond_true, cond_false]
    rw [drop_tail5 data (len / 8 * 8) (by omega)]
    simp only [base, idx_add_i32 (len / 8 * 8) 1 (by omega) (by omega), idx_add_i32 (len / 8 * 8) 2 (by omega) (by omega), idx_add_i32 (len / 8 * 8) 3 (by omega) (by omega), idx_add_i32 (len / 8 * 8) 4 (by omega) (by omega), Int.toNat_natCast, Int.reduceToNat, dataArrs_getD]
    have b0 := bnd (len / 8 * 8)
    have b1 := bnd (len / 8 * 8 + 1)
    have b2 := bnd (len / 8 * 8 + 2)
    have b3 := bnd (len / 8 * 8 + 3)
    have b4 := bnd (len / 8 * 8 + 4)
    generalize data.getD (len / 8 * 8) 0 = x0 at b0
    generalize data.getD (len / 8 * 8 + 1) 0 = x1 at b1
    generalize data.getD (len / 8 * 8 + 2) 0 = x2 at b2
    generalize data.getD (len / 8 * 8 + 3) 0 = x3 at b3
    generalize data.getD (len / 8 * 8 + 4) 0 = x4 at b4
    simp only [lit_255, lit_8, lit_16, lit_24, lit_32, lit_40, lit_48, lit_47, norm_u64_cast, shl_u64_cast, band_u64_cast,
      band_u8_cast, mul_u64_cast, bxor_u64_cast, shr_u64_cast, Int.toNat_natCast]
    apply congrArg (fun n : Nat => some (n : Int))
    have e0 : x0 % 256 = x0 := Nat.mod_eq_of_lt b0
    have f0 : x0 % 18446744073709551616 = x0 := Nat.mod_eq_of_lt (by omega)
    have e1 : x1 % 256 = x1 := Nat.mod_eq_of_lt b1
    have f1 : x1 % 18446744073709551616 = x1 := Nat.mod_eq_of_lt (by omega)
    have e2 : x2 % 256 = x2 := Nat.mod_eq_of_lt b2
    have f2 : x2 % 18446744073709551616 = x2 := Nat.mod_eq_of_lt (by omega)
    have e3 : x3 % 256 = x3 := Nat.mod_eq_of_lt b3
    have f3 : x3 % 18446744073709551616 = x3 := Nat.mod_eq_of_lt (by omega)
    have e4 : x4 % 256 = x4 := Nat.mod_eq_of_lt b4
    have f4 : x4 % 18446744073709551616 = x4 := Nat.mod_eq_of_lt (by omega)
    simp only [e0, f0, e1, f1, e2, f2, e3, f3, e4, f4, Nat.reduceMod, m256, sh255', Nat.mod_mod]
    simp only [xm8_64, xm7_64, xm6_64, xm5_64, xm4_64, xm3_64, xm1_64, xm2_64, sm1_64, sm2_64, Nat.mod_mod, Nat.mod_mul_mod]
    try simp only [a255]
    simp only [Murmur.fin64, Murmur.tail64, Murmur.mul64, Murmur.shl64, Nat.mod_mod, xm1_64, xm2_64, sm1_64, sm2_64,
      Nat.mod_mul_mod]
  · have eR : evalOp .rem .i32 (len : Int) 8 = 6 := by rw [rem8_i32 len hl, hr]; rfl
    have c0 : ([7] : List Int).contains 6 = false := by decide
    have c1 : ([7, 6] : List Int).contains 6 = true := by decide
    have c2 : ([7, 6, 5] : List Int).contains 6 = true := by decide
    have c3 : ([7, 6, 5, 4] : List Int).contains 6 = true := by decide
    have c4 : ([7, 6, 5, 4, 3] : List Int).contains 6 = true := by decide
    have c5 : ([7, 6, 5, 4, 3, 2] : List Int).contains 6 = true := by decide
    have c6 : ([7, 6, 5, 4, 3, 2, 1] : List Int).contains 6 = true := by decide
    simp only [GoModel.loop_murmurHashLong.after, runRet, eval, evalC, upd, h1, h4, h5, h6, if_true, Nat.reduceEqDiff, if_false,
      eR, eB, c0, c1, c2, c3, c4, c5, c6, cond_true, cond_false]
    rw [drop_tail6 data (len / 8 * 8) (by omega)]
    simp only [base, idx_add_i32 (len / 8 * 8) 1 (by omega) (by omega), idx_add_i32 (len / 8 * 8) 2 (by omega) (by omega), idx_add_i32 (len / 8 * 8) 3 (by omega) (by omega), idx_add_i32 (len / 8 * 8) 4 (by omega) (by omega), idx_add_i32 (len / 8 * 8) 5 (by omega) (by omega), Int.toNat_natCast, Int.reduceToNat, dataArrs_getD]
    have b0 := bnd (len / 8 * 8)
    have b1 := bnd (len / 8 * 8 + 1)
    have b2 := bnd (len / 8 * 8 + 2)
    have b3 := bnd (len / 8 * 8 + 3)
    have b4 := bnd (len / 8 * 8 + 4)
    have b5 := bnd (len / 8 * 8 + 5)
    generalize data.getD (len / 8 * 8) 0 = x0 at b0
    generalize data.getD (len / 8 * 8 + 1) 0 = x1 at b1
    generalize data.getD (len / 8 * 8 + 2) 0 = x2 at b2
    generalize data.getD (len / 8 * 8 + 3) 0 = x3 at b3
    generalize data.getD (len / 8 * 8 + 4) 0 = x4 at b4
    generalize data.getD (len / 8 * 8 + 5) 0 = x5 at b5
    simp only [lit_255, lit_8, lit_16, lit_24, lit_32, lit_40, lit_48, lit_47, norm_u64_cast, shl_u64_cast, band_u64_cast,
      band_u8_cast, mul_u64_cast, bxor_u64_cast, shr_u64_cast, Int.toNat_natCast]
    apply congrArg (fun n : Nat => some (n : Int))
    have e0 : x0 % 256 = x0 := Nat.mod_eq_of_lt b0
    have f0 : x0 % 18446744073709551616 = x0 := Nat.mod_eq_of_lt (by omega)
    have e1 : x1 % 256 = x1 := Nat.mod_eq_of_lt b1
    have f1 : x1 % 18446744073709551616 = x1 := Nat.mod_eq_of_lt (by omega)
    have e2 : x2 % 256 = x2 := Nat.mod_eq_of_lt b2
    have f2 : x2 % 18446744073709551616 = x2 := Nat.mod_eq_of_lt (by omega)
    have e3 : x3 % 256 = x3 := Nat.mod_eq_of_lt b3
    have f3 : x3 % 18446744073709551616 = x3 := Nat.mod_eq_of_lt (by omega)
    have e4 : x4 % 256 = x4 := Nat.mod_eq_of_lt b4
    have f4 : x4 % 18446744073709551616 = x4 := Nat.mod_eq_of_lt (by omega)
    have e5 : x5 % 256 = x5 := Nat.mod_eq_of_lt b5
    have f5 : x5 % 18446744073709551616 = x5 := Nat.mod_eq_of_lt (by omega)
    simp only [e0, f0, e1, f1, e2, f2, e3, f3, e4, f4, e5, f5, Nat.reduceMod, m256, sh255', Nat.mod_mod]
    simp only [xm8_64, xm7_64, xm6_64, xm5_64, xm4_64, xm3_64, xm1_64, xm2_64, sm1_64, sm2_64, Nat.mod_mod, Nat.mod_mul_mod]
    try simp only [a255]
    simp only [Murmur.fin64, Murmur.tail64, Murmur.mul64, Murmur.shl64, Nat.mod_mod, xm1_64, xm2_64, sm1_64, sm2_64,
      Nat.mod_mul_mod]
  · have eR : evalOp .rem .i32 (len : Int) 8 = 7 := by rw [rem8_i32 len hl, hr]; rfl
    have c0 : ([7] : List Int).contains 7 = true := by decide
    have c1 : ([7, 6] : List Int).contains 7 = true := by decide
    have c2 : ([7, 6, 5] : List Int).contains 7 = true := by decide
    have c3 : ([7, 6, 5, 4] : List Int).contains 7 = true := by decide
    have c4 : ([7, 6, 5, 4, 3] : List Int).contains 7 = true := by decide
    have c5 : ([7, 6, 5, 4, 3, 2] : List Int).contains 7 = true := by decide
    have c6 : ([7, 6, 5, 4, 3, 2, 1] : List Int).contains 7 = true := by decide
    simp only [GoModel.loop_murmurHashLong.after, runRet, eval, evalC, upd, h1, h4, h5, h6, if_true, Nat.reduceEqDiff, if_false,
      eR, eB, c0, c1, c2, c3, c4, c5, c6, cond_true, cond_false]
    rw [drop_tail7 data (len / 8 * 8) (by omega)]
    simp only [base, idx_add_i32 (len / 8 * 8) 1 (by omega) (by omega), idx_add_i32 (len / 8 * 8) 2 (by omega) (by omega), idx_add_i32 (len / 8 * 8) 3 (by omega) (by omega), idx_add_i32 (len / 8 * 8) 4 (by omega) (by omega), idx_add_i32 (len / 8 * 8) 5 (by omega) (by omega), idx_add_i32 (len / 8 * 8) 6 (by omega) (by omega), Int.toNat_natCast, Int.reduceToNat, dataArrs_getD]
    have b0 := bnd (len / 8 * 8)
    have b1 := bnd (len / 8 * 8 + 1)
    have b2 := bnd (len / 8 * 8 + 2)
    have b3 := bnd (len / 8 * 8 + 3)
    have b4 := bnd (len / 8 * 8 + 4)
    have b5 := bnd (len / 8 * 8 + 5)
    have b6 := bnd (len / 8 * 8 + 6)
    generalize data.getD (len / 8 * 8) 0 = x0 at b0
    generalize data.getD (len / 8 * 8 + 1) 0 = x1 at b1
    generalize data.getD (len / 8 * 8 + 2) 0 = x2 at b2
    generalize data.getD (len / 8 * 8 + 3) 0 = x3 at b3
    generalize data.getD (len / 8 * 8 + 4) 0 = x4 at b4
    generalize data.getD (len / 8 * 8 + 5) 0 = x5 at b5
    generalize data.getD (len / 8 * 8 + 6) 0 = x6 at b6
    simp only [lit_255, lit_8, lit_16, lit_24, lit_32, lit_40, lit_48, lit_47, norm_u64_cast, shl_u64_cast, band_u64_cast,
      band_u8_cast, mul_u64_cast, bxor_u64_cast, shr_u64_cast, Int.toNat_natCast]
    apply congrArg (fun n : Nat => some (n : Int))
    have e0 : x0 % 256 = x0 := Nat.mod_eq_of_lt b0
    have f0 : x0 % 18446744073709551616 = x0 := Nat.mod_eq_of_lt (by omega)
    have e1 : x1 % 256 = x1 := Nat.mod_eq_of_lt b1
    have f1 : x1 % 18446744073709551616 = x1 := Nat.mod_eq_of_lt (by omega)
    have e2 : x2 % 256 = x2 := Nat.mod_eq_of_lt b2
    have f2 : x2 % 18446744073709551616 = x2 := Nat.mod_eq_of_lt (by omega)
    have e3 : x3 % 256 = x3 := Nat.mod_eq_of_lt b3
    have f3 : x3 % 18446744073709551616 = x3 := Nat.mod_eq_of_lt (by omega)
    have e4 : x4 % 256 = x4 := Nat.mod_eq_of_lt b4
    have f4 : x4 % 18446744073709551616 = x4 := Nat.mod_eq_of_lt (by omega)
    have e5 : x5 % 256 = x5 := Nat.mod_eq_of_lt b5
    have f5 : x5 % 18446744073709551616 = x5 := Nat.mod_eq_of_lt (by omega)
    have e6 : x6 % 256 = x6 := Nat.mod_eq_of_lt b6
    have f6 : x6 % 18446744073709551616 = x6 := Nat.mod_eq_of_lt (by omega)
    simp only [e0, f0, e1, f1, e2, f2, e3, f3, e4, f4, e5, f5, e6, f6, Nat.reduceMod, m256, sh255', Nat.mod_mod]
    simp only [xm8_64, xm7_64, xm6_64, xm5_64, xm4_64, xm3_64, xm1_64, xm2_64, sm1_64, sm2_64, Nat.mod_mod, Nat.mod_mul_mod]
    try simp only [a255]
    simp only [Murmur.fin64, Murmur.tail64, Murmur.mul64, Murmur.shl64, Nat.mod_mod, xm1_64, xm2_64, sm1_64, sm2_64,
      Nat.mod_mul_mod]


/-- **`murmurHashLong(data, len(data), seed)` as transcribed = `Murmur.murmur64 data seed`** (hence
    MurmurHash64A by `C15.murmur64_ref`), for every byte string shorter than 2^31 and every 32-bit seed.
    Identifier numbers: data 0, length 1, seed 2, i 3, h 4, m 5, r 6, length8 7. -/
theorem murmur64_fn_bridge (pre body after : List Stmt)
    (hpre : sameVars [4, 5, 6, 7, 1] pre GoModel.loop_murmurHashLong.pre = true)
    (hbody : sameVars [4, 5, 6, 1] body GoModel.loop_murmurHashLong.body = true)
    (hafter : normStmts after = normStmts GoModel.loop_murmurHashLong.after)
    (data : Bytes) (hw : WFB data) (seed : Nat) (hs : seed < 4294967296) (hl : data.length < 2147483648)
    (ρ : Env) (h1 : ρ 1 = (data.length : Int)) (h2 : ρ 2 = (seed : Int)) :
    callLoop (dataArrs data) pre body after 3 (data.length / 8) ρ = ((Murmur.murmur64 data seed : Nat) : Int) := by
  have hB : ∀ ρ, runEnv (dataArrs data) ρ body 4 = runEnv (dataArrs data) ρ GoModel.loop_murmurHashLong.body 4 :=
    fun ρ => sameVars_eq hbody _ ρ 4 (by simp)
  have hF : ∀ ρ x, x = 5 ∨ x = 6 ∨ x = 1 → runEnv (dataArrs data) ρ body x = ρ x := by
    intro ρ x hx
    rcases hx with rfl | rfl | rfl
    · exact (sameVars_eq hbody _ ρ 5 (by simp)).trans (murmur64_body_frame _ ρ 5 (by decide))
    · exact (sameVars_eq hbody _ ρ 6 (by simp)).trans (murmur64_body_frame _ ρ 6 (by decide))
    · exact (sameVars_eq hbody _ ρ 1 (by simp)).trans (murmur64_body_frame _ ρ 1 (by decide))
  have ⟨p4, p5, p6, p7, p1⟩ := murmur64_pre_bridge (dataArrs data) ρ data.length seed h1 h2 hl hs
  have sv := fun x hx => sameVars_eq hpre (dataArrs data) ρ x hx
  have hh0 : (seed &&& 0xffffffff) ^^^ Murmur.mul64 (data.length % 18446744073709551616) Murmur.m64 < 18446744073709551616 := by
    have a1 : seed &&& 0xffffffff < 2 ^ 64 :=
      Nat.lt_of_lt_of_le (Nat.and_lt_two_pow seed (by decide : 0xffffffff < 2 ^ 32)) (by decide)
    exact Nat.xor_lt_two_pow (n := 64) a1 (by unfold Murmur.mul64; exact Nat.mod_lt _ (by decide))
  have ⟨l4, l5, l6, l1⟩ := murmur64_loop_bridge body data hw hB hF (data.length / 8) 0
    (runEnv (dataArrs data) ρ pre) _ (by rw [sv 4 (by simp)]; exact p4) (by rw [sv 5 (by simp)]; exact p5)
    (by rw [sv 6 (by simp)]; exact p6) hh0 (by omega)
  unfold callLoop
  rw [(normStmts_eq hafter _ _).2]
  rw [murmur64_after_bridge data hw _ _ (by rw [l1, sv 1 (by simp)]; exact p1) l4 l5 l6
    (by unfold blocksH8; exact blocksG8_lt data _ _ _ hh0) hl, retVal_some]
  apply congrArg (fun n : Nat => (n : Int))
  have hw8 := walk8_blocksH8 data (data.length / 8) 0
    ((seed &&& 0xffffffff) ^^^ Murmur.mul64 (data.length % 18446744073709551616) Murmur.m64) (by omega) (by omega)
  simp only [Nat.mul_zero, List.drop_zero, Nat.zero_add] at hw8
  unfold Murmur.murmur64 Murmur.blocks64
  simp only [hw8]
  rw [Nat.mul_comm]

end GoBridge