/-
  Golib.Hash.Strconv — the two `strconv` functions the identifier encodings call, as specified by
  the Go documentation (modelled, not verified: package strconv).

  (core Lean only; imported by the driver)
-/
import Golib.Basic

namespace Strconv

/-- decimal text of a non-negative `int` as `strconv.Itoa` prints it -/
def itoaNat (n : Nat) : List Char := (Nat.toDigits 10 n)

/-- `strconv.Atoi` on a 64-bit platform: optional sign, at least one decimal digit, nothing else,
    value within int64; otherwise an error (`none`) -/
def atoiDigits : List Char → Nat → Option Nat
  | [], acc => some acc
  | c :: cs, acc => if '0' ≤ c ∧ c ≤ '9' then atoiDigits cs (acc * 10 + (c.toNat - 48)) else none

def atoiSigned (neg : Bool) (body : List Char) : Option Int :=
  if body.isEmpty then none else
  match atoiDigits body 0 with
  | none => none
  | some n =>
    if neg then (if n ≤ 9223372036854775808 then some (-(n : Int)) else none)
    else (if n ≤ 9223372036854775807 then some (n : Int) else none)

def atoi (s : List Char) : Option Int :=
  match s with
  | '-' :: r => atoiSigned true r
  | '+' :: r => atoiSigned false r
  | r => atoiSigned false r

/-- `strings.Split(s, ".")`-style split of a character list on one separator character -/
def splitOn (sep : Char) : List Char → List (List Char)
  | [] => [[]]
  | c :: cs =>
    match splitOn sep cs with
    | [] => [[c]]          -- unreachable: `splitOn` never returns `[]`
    | p :: ps => if c = sep then [] :: p :: ps else (c :: p) :: ps

end Strconv
