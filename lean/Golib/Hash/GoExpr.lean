/-
  Golib.Hash.GoExpr — a small typed evaluator for straight-line Go integer code (tie A of C15).

  `xlate/c15` transcribes function bodies of util/bitutil and the loop bodies of util/hash into
  `Stmt` lists (Lean data, `Golib/Gen/C15.lean`).  `run` evaluates them with Go's semantics for sized
  integers: every typed value is kept in the range of its type, conversions wrap (two's complement),
  `& | ^ &^` act on bit patterns, `>>` on signed values is arithmetic, `<<` wraps, untyped constants take
  the type of the other operand (and must be representable, as the Go compiler requires).
  The obligations in `Props/C15Gen.lean` evaluate the transcribed code and the arithmetic CodeModel on
  grids of boundary inputs with `decide +kernel`.

  (proof-side file: not imported by the driver)
-/
import Golib.Basic

namespace GoX

inductive Ty
  | i8 | i16 | i32 | i64 | u8 | u16 | u32 | u64 | untyped
  deriving DecidableEq, Repr

def Ty.bits : Ty → Nat
  | .i8 | .u8 => 8
  | .i16 | .u16 => 16
  | .i32 | .u32 => 32
  | .i64 | .u64 => 64
  | .untyped => 0

def Ty.signed : Ty → Bool
  | .i8 | .i16 | .i32 | .i64 => true
  | _ => false

/-- wrap an integer into the range of a sized type (identity for untyped constants) -/
def norm (t : Ty) (v : Int) : Int :=
  if t = .untyped then v
  else
    let m : Int := (2 : Int) ^ t.bits
    let u := v % m
    if t.signed && u ≥ m / 2 then u - m else u

/-- the bit pattern of a typed value -/
def pat (t : Ty) (v : Int) : Nat := (v % (2 : Int) ^ t.bits).toNat

def representable (t : Ty) (v : Int) : Bool := norm t v == v

/-- binary operators `<< >> & | ^ + - * &^` -/
inductive Op
  | shl | shr | band | bor | bxor | add | sub | mul | andNot
  deriving DecidableEq, Repr

/-- identifiers are numbered by the translator (a comment in the generated file gives the names) -/
inductive Expr
  | var (name : Nat)
  | lit (v : Int)
  | conv (t : Ty) (e : Expr)
  | bin (op : Op) (a b : Expr)
  | neg (e : Expr)
  | not (e : Expr)
  | idx (arr : Nat) (e : Expr)
  | unknown (what : String)
  deriving Repr

inductive Stmt
  | decl (name : Nat) (ty : Ty) (e : Expr)     -- `var x T = e`  /  `x := e` (ty = untyped: inferred)
  | assign (name : Nat) (e : Expr)
  | ret (e : Expr)
  | unknown (what : String)
  deriving Repr

structure Val where
  ty : Ty
  v : Int
  deriving DecidableEq, Repr

abbrev Env := List (Nat × Val)
abbrev Arrays := List (Nat × Ty × List Int)

def lookup (env : Env) (n : Nat) : Option Val :=
  match env.find? (fun p => p.1 == n) with
  | some p => some p.2
  | none => none

def bitop (op : Op) (a b : Nat) : Option Nat :=
  match op with
  | .band => some (a &&& b)
  | .bor => some (a ||| b)
  | .bxor => some (a ^^^ b)
  | _ => none

def binop (op : Op) (x y : Val) : Option Val :=
  if op = .shl || op = .shr then
    -- the count is any non-negative integer value; the result has the left operand's type
    if y.v < 0 then none else
    let k := y.v.toNat
    if op = .shl then some ⟨x.ty, norm x.ty (x.v * (2 : Int) ^ k)⟩
    else some ⟨x.ty, x.v / (2 : Int) ^ k⟩
  else
    -- make the operand types agree: an untyped constant takes the other side's type
    let t := if x.ty = .untyped then y.ty else x.ty
    if (x.ty ≠ .untyped && y.ty ≠ .untyped && x.ty ≠ y.ty) then none
    else if !(representable t x.v && representable t y.v) then none
    else
      match op with
      | .add => some ⟨t, norm t (x.v + y.v)⟩
      | .sub => some ⟨t, norm t (x.v - y.v)⟩
      | .mul => some ⟨t, norm t (x.v * y.v)⟩
      | .andNot =>
        if t = .untyped then none else
        some ⟨t, norm t ((pat t x.v &&& ((2 ^ t.bits - 1) ^^^ pat t y.v) : Nat) : Int)⟩
      | _ =>
        if t = .untyped then
          (if x.v < 0 || y.v < 0 then none else (bitop op x.v.toNat y.v.toNat).map fun r => ⟨t, (r : Int)⟩)
        else (bitop op (pat t x.v) (pat t y.v)).map fun r => ⟨t, norm t (r : Int)⟩

def eval (env : Env) (arrs : Arrays) : Expr → Option Val
  | .var n => lookup env n
  | .lit v => some ⟨.untyped, v⟩
  | .conv t e => (eval env arrs e).map fun x => ⟨t, norm t x.v⟩
  | .bin op a b =>
    match eval env arrs a, eval env arrs b with
    | some x, some y => binop op x y
    | _, _ => none
  | .neg e => (eval env arrs e).map fun x => ⟨x.ty, norm x.ty (-x.v)⟩
  | .not e => (eval env arrs e).bind fun x => if x.ty = .untyped then none else some ⟨x.ty, norm x.ty (-x.v - 1)⟩
  | .idx a e =>
    match arrs.find? (fun p => p.1 == a), eval env arrs e with
    | some (_, t, xs), some i => if i.v < 0 then none else (xs[i.v.toNat]?).map fun v => ⟨t, norm t v⟩
    | _, _ => none
  | .unknown _ => none

/-- run a statement list; `ret` ends it with a value, otherwise the final environment is returned -/
def run (arrs : Arrays) : Env → List Stmt → Option (Env × Option Val)
  | env, [] => some (env, none)
  | env, .decl n t e :: rest =>
    match eval env arrs e with
    | some x =>
      let v : Val := if t = .untyped then x else ⟨t, x.v⟩
      if t ≠ .untyped && x.ty ≠ .untyped && x.ty ≠ t then none
      else if !(representable v.ty v.v) then none
      else run arrs ((n, v) :: env) rest
    | none => none
  | env, .assign n e :: rest =>
    match lookup env n, eval env arrs e with
    | some old, some x =>
      -- assignment keeps the variable's type; an untyped constant is converted, other types must match
      if x.ty ≠ .untyped && x.ty ≠ old.ty then none
      else if !(representable old.ty x.v) then none
      else run arrs ((n, ⟨old.ty, x.v⟩) :: env) rest
    | _, _ => none
  | env, .ret e :: _ => (eval env arrs e).map fun x => (env, some x)
  | _, .unknown _ :: _ => none

structure Fn where
  params : List (Nat × Ty)
  result : Ty
  body : List Stmt
  deriving Repr

/-- call a transcribed function on argument values (each wrapped to its parameter type first);
    an untyped constant returned is converted to the result type -/
def call (arrs : Arrays) (f : Fn) (args : List Int) : Option Int :=
  if args.length ≠ f.params.length then none else
  let env : Env := (f.params.zip args).map fun (p, a) => (p.1, ⟨p.2, norm p.2 a⟩)
  match run arrs env f.body with
  | some (_, some v) =>
    if v.ty = .untyped then (if representable f.result v.v then some v.v else none)
    else if v.ty = f.result then some v.v else none
  | _ => none

/-- run a loop body given named inputs and read one variable afterwards -/
def step (arrs : Arrays) (inputs : List (Nat × Ty × Int)) (body : List Stmt) (out : Nat) : Option Int :=
  let env : Env := inputs.map fun (n, t, v) => (n, ⟨t, norm t v⟩)
  match run arrs env body with
  | some (env', none) => (lookup env' out).map (·.v)
  | _ => none

end GoX
