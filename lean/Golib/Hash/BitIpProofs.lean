/-
  Golib.Hash.BitIpProofs — compose/split laws of bitutil, IPv4 conversions are mutual inverses,
  HashCode truncated to 32 bits is Java's String.hashCode recurrence.
-/
import Golib.Hash.BitIp

set_option linter.unusedVariables false

namespace BitUtil

/-! ### 64 = 32 ⊕ 32 -/

theorem getHigh64_composite64 (h l : Int) (hh : isI32 h) (_hl : isI32 l) : getHigh64 (composite64 h l) = h := by
  unfold isI32 at *; unfold getHigh64 composite64 wrap64 wrap32; omega
theorem getLow64_composite64 (h l : Int) (hh : isI32 h) (hl : isI32 l) : getLow64 (composite64 h l) = l := by
  unfold isI32 at *; unfold getLow64 composite64 wrap64 wrap32; omega
theorem composite64_split (k : Int) (hk : isI64 k) : composite64 (getHigh64 k) (getLow64 k) = k := by
  unfold isI64 at *; unfold getHigh64 getLow64 composite64 wrap64 wrap32; omega
theorem composite64_range (h l : Int) (hh : isI32 h) (hl : isI32 l) : isI64 (composite64 h l) := by
  unfold isI32 isI64 at *; unfold composite64 wrap64; omega

theorem getHigh64_setHigh64 (s h : Int) (_hs : isI64 s) (hh : isI32 h) : getHigh64 (setHigh64 s h) = h := by
  unfold isI32 at *; unfold getHigh64 setHigh64 wrap64 wrap32; omega
theorem getLow64_setHigh64 (s h : Int) (hs : isI64 s) (hh : isI32 h) : getLow64 (setHigh64 s h) = getLow64 s := by
  unfold isI64 isI32 at *; unfold getLow64 setHigh64 wrap64 wrap32; omega
theorem getLow64_setLow64 (s l : Int) (hs : isI64 s) (hl : isI32 l) : getLow64 (setLow64 s l) = l := by
  unfold isI64 isI32 at *; unfold getLow64 setLow64 wrap32; omega
theorem getHigh64_setLow64 (s l : Int) (hs : isI64 s) (hl : isI32 l) : getHigh64 (setLow64 s l) = getHigh64 s := by
  unfold isI64 isI32 at *; unfold getHigh64 setLow64 wrap32; omega
theorem setHigh64_eq_composite (s h : Int) (hs : isI64 s) (_hh : isI32 h) : setHigh64 s h = composite64 h (getLow64 s) := by
  unfold isI64 at *; unfold setHigh64 composite64 getLow64 wrap64 wrap32; omega
theorem setLow64_eq_composite (s l : Int) (hs : isI64 s) (_hl : isI32 l) : setLow64 s l = composite64 (getHigh64 s) l := by
  unfold isI64 at *; unfold setLow64 composite64 getHigh64 wrap64 wrap32; omega

/-! ### 32 = 16 ⊕ 16 -/

theorem getHigh32_composite32 (h l : Int) (hh : isI16 h) (_hl : isI16 l) : getHigh32 (composite32 h l) = h := by
  unfold isI16 at *; unfold getHigh32 composite32 wrap32 wrap16; omega
theorem getLow32_composite32 (h l : Int) (hh : isI16 h) (hl : isI16 l) : getLow32 (composite32 h l) = l := by
  unfold isI16 at *; unfold getLow32 composite32 wrap32 wrap16; omega
theorem composite32_split (k : Int) (hk : isI32 k) : composite32 (getHigh32 k) (getLow32 k) = k := by
  unfold isI32 at *; unfold getHigh32 getLow32 composite32 wrap32 wrap16; omega

/-! ### 16 = 8 ⊕ 8 (halves are bytes) -/

theorem getHigh16_composite16 (h l : Int) (hh : isU8 h) (hl : isU8 l) : getHigh16 (composite16 h l) = h := by
  unfold isU8 at *; unfold getHigh16 composite16 wrap16; omega
theorem getLow16_composite16 (h l : Int) (hh : isU8 h) (hl : isU8 l) : getLow16 (composite16 h l) = l := by
  unfold isU8 at *; unfold getLow16 composite16 wrap16; omega
theorem composite16_split (k : Int) (hk : isI16 k) : composite16 (getHigh16 k) (getLow16 k) = k := by
  unfold isI16 at *; unfold getHigh16 getLow16 composite16 wrap16; omega

end BitUtil

namespace StrHash
open BitUtil

theorem wrap32_hashCode (s : Bytes) : wrap32 (hashCode s) = javaHashCode s := by
  unfold hashCode javaHashCode
  suffices h : ∀ (a b : Int), wrap32 a = wrap32 b →
      wrap32 (s.foldl (fun (h : Int) (b : Nat) => wrap64 (31 * h + (b : Int))) a)
        = s.foldl (fun (h : Int) (b : Nat) => wrap32 (31 * h + (b : Int))) (wrap32 b) by
    have := h 0 0 rfl
    simpa [wrap32] using this
  induction s with
  | nil => intro a b hab; simpa using hab
  | cons c s ih =>
    intro a b hab
    simp only [List.foldl_cons]
    have e : wrap32 (31 * wrap32 b + (c : Int)) = wrap32 (wrap32 (31 * wrap32 b + (c : Int))) := by
      unfold wrap32; omega
    rw [e]
    apply ih
    unfold wrap32 wrap64 at *; omega

end StrHash

namespace IpUtil
open Strconv BitUtil

/-- per-octet lemma: `atoi (itoa n) & 0xff = n` for every byte value -/
theorem octet_itoa : ∀ n : Fin 256, octet (itoaNat n.val) = n.val := by decide +kernel

/-- the decimal text of a byte contains no dot -/
theorem itoa_nodot : ∀ n : Fin 256, (itoaNat n.val).all (fun c => c != '.') = true := by decide +kernel

theorem octet_itoa' {n : Nat} (h : n < 256) : octet (itoaNat n) = n := octet_itoa ⟨n, h⟩
theorem itoa_nodot' {n : Nat} (h : n < 256) : ∀ c ∈ itoaNat n, c ≠ '.' := by
  have := itoa_nodot ⟨n, h⟩
  simpa using this

theorem splitOn_ne_nil (sep : Char) (s : List Char) : splitOn sep s ≠ [] := by
  cases s with
  | nil => simp [splitOn]
  | cons c cs =>
    rw [splitOn]
    split
    · simp
    · split <;> simp

theorem splitOn_nosep (sep : Char) (p : List Char) (hp : ∀ c ∈ p, c ≠ sep) : splitOn sep p = [p] := by
  induction p with
  | nil => rfl
  | cons c cs ih =>
    have hc : c ≠ sep := hp c (by simp)
    have := ih (fun x hx => hp x (by simp [hx]))
    rw [splitOn, this]
    simp [hc]

theorem splitOn_append (sep : Char) (p rest : List Char) (hp : ∀ c ∈ p, c ≠ sep) :
    splitOn sep (p ++ sep :: rest) = p :: splitOn sep rest := by
  induction p with
  | nil =>
    simp only [List.nil_append]
    rw [splitOn]
    have hne := splitOn_ne_nil sep rest
    split
    · rename_i h; exact absurd h hne
    · rename_i q qs h; simp [h]
  | cons c cs ih =>
    have hc : c ≠ sep := hp c (by simp)
    have := ih (fun x hx => hp x (by simp [hx]))
    simp only [List.cons_append]
    rw [splitOn, this]
    simp [hc]

theorem splitOn_dotted (a b c d : Nat) (ha : a < 256) (hb : b < 256) (hc : c < 256) (hd : d < 256) :
    splitOn '.' (dotted a b c d) = [itoaNat a, itoaNat b, itoaNat c, itoaNat d] := by
  unfold dotted
  rw [splitOn_append _ _ _ (itoa_nodot' ha), splitOn_append _ _ _ (itoa_nodot' hb),
      splitOn_append _ _ _ (itoa_nodot' hc), splitOn_nosep _ _ (itoa_nodot' hd)]

theorem dotted_ne_nil (a b c d : Nat) : (dotted a b c d).isEmpty = false := by
  unfold dotted
  cases h : itoaNat a <;> simp

/-- `ToBytes(ToString(b)) = b` for every 4-byte address -/
theorem toBytes_toString (a b c d : Nat) (ha : a < 256) (hb : b < 256) (hc : c < 256) (hd : d < 256) :
    (toString [a, b, c, d]).map toBytes = some [a, b, c, d] := by
  simp only [toString, Option.map_some, toBytes, dotted_ne_nil, splitOn_dotted a b c d ha hb hc hd,
    octet_itoa' ha, octet_itoa' hb, octet_itoa' hc, octet_itoa' hd]
  simp

/-- canonical dotted quads: the texts `ToString` produces for 4-byte addresses -/
def canonical (s : List Char) : Prop := ∃ a b c d : Nat, a < 256 ∧ b < 256 ∧ c < 256 ∧ d < 256 ∧ s = dotted a b c d

/-- `ToString(ToBytes(s)) = s` for every canonical dotted quad -/
theorem toString_toBytes (s : List Char) (hs : canonical s) : toString (toBytes s) = some s := by
  obtain ⟨a, b, c, d, ha, hb, hc, hd, rfl⟩ := hs
  have := toBytes_toString a b c d ha hb hc hd
  simp only [toString, Option.map_some, Option.some.injEq] at this
  rw [this]
  rfl

/-- `ToInt(ToBytesFrInt(i)) = i` for every int32 -/
theorem toInt_toBytesFrInt (i : Int) (hi : isI32 i) : toInt (toBytesFrInt i) = some i := by
  unfold isI32 at hi
  unfold toBytesFrInt toBytesInt toInt wrap32
  simp only [Option.some.injEq]
  omega

/-- `ToBytesFrInt(ToInt(b)) = b` for every 4-byte slice -/
theorem toBytesFrInt_toInt (a b c d : Nat) (ha : a < 256) (hb : b < 256) (hc : c < 256) (hd : d < 256) :
    (toInt [a, b, c, d]).map toBytesFrInt = some [a, b, c, d] := by
  unfold toBytesFrInt toBytesInt toInt wrap32
  simp only [Option.map_some, Option.some.injEq, List.cons.injEq, and_true]
  refine ⟨?_, ?_, ?_, ?_⟩ <;> omega

/-- `ToBytesFrInt` yields four bytes -/
theorem toBytesFrInt_wf (i : Int) : (toBytesFrInt i).length = 4 ∧ WFB (toBytesFrInt i) := by
  refine ⟨rfl, ?_⟩
  unfold toBytesFrInt toBytesInt
  intro b hb
  simp only [List.mem_cons, List.not_mem_nil, or_false] at hb
  rcases hb with h | h | h | h <;> omega

/-- `ToStringFrInt(i)` is a canonical dotted quad and parses back to the bytes of `i` -/
theorem toStringFrInt_roundtrip (i : Int) : (toStringFrInt i).map toBytes = some (toBytesFrInt i) := by
  unfold toStringFrInt toBytesFrInt toBytesInt
  apply toBytes_toString <;> omega

end IpUtil
