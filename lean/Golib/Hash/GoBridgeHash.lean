/-
  Golib.Hash.GoBridgeHash — bridge theorems, part 2: the loop bodies and after-loop blocks of
  hash.Hash / Hash64 / Hash64v2 / Hash64V2 and stringutil.HashCode compute the CodeModel steps for every
  register value, every byte slice and every index; with the loop semantics `forLoop` the whole
  functions compute `Hash.hash`, `Hash.hash64`, … for every byte string.
-/
import Golib.Hash.GoBridge
import Golib.Hash.Crc
set_option linter.unusedVariables false
set_option linter.unusedSimpArgs false

namespace GoBridge
open GoSem

def tableInts : List Int := Hash.table.map Int.ofNat

def hashArrs (bs : Bytes) : Arrays := fun n => if n = 0 then bs.map Int.ofNat else if n = 1000 then tableInts else []

theorem tbl_eq_getD (k : Nat) : Hash.tbl k = Hash.table.getD k 0 := by
  by_cases h : k < Hash.table.length
  · simp [Hash.tbl, Hash.tableArr, Array.getD, List.getD, h]
  · have h' : Hash.table.length ≤ k := by omega
    simp [Hash.tbl, Hash.tableArr, Array.getD, List.getD, h, List.getElem?_eq_none h']

theorem tableInts_getD (k : Nat) : tableInts.getD k 0 = ((Hash.tbl k : Nat) : Int) := by
  rw [tbl_eq_getD]
  unfold tableInts
  simp only [List.getD, List.getElem?_map]
  cases Hash.table[k]? <;> rfl

theorem bytes_getD (bs : Bytes) (i : Nat) : (bs.map Int.ofNat).getD i 0 = ((bs.getD i 0 : Nat) : Int) := by
  simp only [List.getD, List.getElem?_map]
  cases bs[i]? <;> rfl

/-! unsigned values as naturals -/
theorem pat_u32 (n : Nat) : pat .u32 (n : Int) = n % 4294967296 := by
  simp only [pat, Ty.modulus]; omega
theorem pat_u64 (n : Nat) : pat .u64 (n : Int) = n % 18446744073709551616 := by
  simp only [pat, Ty.modulus]; omega
theorem pat_u8 (n : Nat) : pat .u8 (n : Int) = n % 256 := by
  simp only [pat, Ty.modulus]; omega
theorem norm_u32 (v : Int) : norm .u32 v = ((v % 4294967296).toNat : Int) := by
  simp only [norm, Ty.modulus, Ty.half]; omega
theorem norm_u64 (v : Int) : norm .u64 v = ((v % 18446744073709551616).toNat : Int) := by
  simp only [norm, Ty.modulus, Ty.half]; omega
theorem norm_u8 (v : Int) : norm .u8 v = ((v % 256).toNat : Int) := by
  simp only [norm, Ty.modulus, Ty.half]; omega
theorem norm_i32_mod (v : Int) : (norm .i32 v) % 4294967296 = v % 4294967296 := by
  simp only [norm, Ty.modulus, Ty.half]; omega
theorem cast_mod_toNat (n : Nat) (m : Nat) (hm : 0 < m) : (((n : Int) % (m : Int)).toNat) = n % m := by
  rw [← Int.natCast_emod]; exact Int.toNat_natCast _
theorem shr_cast (n k : Nat) : (n : Int) / 2 ^ k = ((n >>> k : Nat) : Int) := by
  rw [Nat.shiftRight_eq_div_pow, Int.natCast_ediv]; simp

theorem toNat_mod8 (n : Nat) : ((n : Int) % 256).toNat = n % 256 := by omega
theorem toNat_mod32 (n : Nat) : ((n : Int) % 4294967296).toNat = n % 4294967296 := by omega
theorem toNat_mod64 (n : Nat) : ((n : Int) % 18446744073709551616).toNat = n % 18446744073709551616 := by omega

theorem getD_lt (bs : Bytes) (hw : WFB bs) (i : Nat) : bs.getD i 0 < 256 := by
  simp only [List.getD]
  cases h : bs[i]? with
  | none => simp
  | some b => exact hw b (List.mem_of_getElem? h)

theorem hash_body_bridge (bs : Bytes) (hw : WFB bs) (ρ : Env) (i c : Nat) (hρ : ρ 2 = (c : Int)) (hc : c < 4294967296) :
    step (hashArrs bs) (upd ρ 1 (i : Int)) GoModel.loop_Hash.body 2
      = ((Hash.crcStep c (bs.getD i 0) : Nat) : Int) := by
  simp only [step, GoModel.loop_Hash.body, runEnv, eval, upd, hashArrs]
  simp only [if_true, Nat.reduceEqDiff, if_false, hρ, Int.toNat_natCast, bytes_getD, tableInts_getD]
  simp only [evalOp, bitsOp, norm_u32, norm_u8, pat_u32, Int.toNat_natCast, norm_i32_mod, Int.reduceToNat, shr_cast]
  simp only [toNat_mod8, toNat_mod32]
  have hb := getD_lt bs hw i
  generalize bs.getD i 0 = b at hb
  congr 1
  have e1 : c % 4294967296 = c := Nat.mod_eq_of_lt hc
  have e2 : b % 4294967296 = b := Nat.mod_eq_of_lt (by omega)
  have e3 : (c ^^^ b) % 4294967296 = c ^^^ b := Nat.mod_eq_of_lt (Nat.xor_lt_two_pow (n := 32) hc (by omega))
  have h8 : c >>> 8 < 4294967296 := Nat.lt_of_le_of_lt (Nat.shiftRight_le c 8) hc
  have e4 : (c >>> 8) % 4294967296 = c >>> 8 := Nat.mod_eq_of_lt h8
  simp only [e1, e2, e3, e4, Nat.mod_mod]
  unfold Hash.crcStep
  apply Nat.mod_eq_of_lt
  exact Nat.xor_lt_two_pow (n := 32) h8 (Nat.mod_lt _ (by decide))


theorem sext_eq (t : Nat) : norm .u64 (norm .i32 (t : Int)) = ((Hash.sext32to64 t : Nat) : Int) := by
  unfold Hash.sext32to64
  simp only [norm, Ty.modulus, Ty.half]
  split <;> omega

theorem sext_lt (t : Nat) : Hash.sext32to64 t < 18446744073709551616 := by
  unfold Hash.sext32to64; split <;> omega

theorem hash64_body_bridge (bs : Bytes) (hw : WFB bs) (ρ : Env) (i c : Nat) (hρ : ρ 2 = (c : Int))
    (hc : c < 18446744073709551616) :
    step (hashArrs bs) (upd ρ 1 (i : Int)) GoModel.loop_Hash64.body 2
      = ((Hash.crc64Step c (bs.getD i 0) : Nat) : Int) := by
  simp only [step, GoModel.loop_Hash64.body, runEnv, eval, upd, hashArrs]
  simp only [if_true, Nat.reduceEqDiff, if_false, hρ, Int.toNat_natCast, bytes_getD, tableInts_getD, sext_eq]
  simp only [evalOp, bitsOp, norm_u64, norm_u8, pat_u64, Int.toNat_natCast, Int.reduceToNat, shr_cast]
  simp only [toNat_mod8, toNat_mod64]
  have hb := getD_lt bs hw i
  generalize bs.getD i 0 = b at hb
  congr 1
  have e1 : c % 18446744073709551616 = c := Nat.mod_eq_of_lt hc
  have e2 : b % 18446744073709551616 = b := Nat.mod_eq_of_lt (by omega)
  have e3 : (c ^^^ b) % 18446744073709551616 = c ^^^ b := Nat.mod_eq_of_lt (Nat.xor_lt_two_pow (n := 64) hc (by omega))
  have h8 : c >>> 8 < 18446744073709551616 := Nat.lt_of_le_of_lt (Nat.shiftRight_le c 8) hc
  have e4 : (c >>> 8) % 18446744073709551616 = c >>> 8 := Nat.mod_eq_of_lt h8
  have e5 (t : Nat) : Hash.sext32to64 t % 18446744073709551616 = Hash.sext32to64 t := Nat.mod_eq_of_lt (sext_lt t)
  simp only [e1, e2, e3, e4, e5, Nat.mod_mod]
  unfold Hash.crc64Step
  apply Nat.mod_eq_of_lt
  exact Nat.xor_lt_two_pow (n := 64) h8 (sext_lt _)


theorem pat_i32_norm (v : Int) : pat .i32 (norm .i32 v) = (v % 4294967296).toNat := by
  simp only [pat, norm, Ty.modulus, Ty.half]; omega
theorem norm_u8_norm_i32 (v : Int) : norm .u8 (norm .i32 v) = ((v % 256).toNat : Int) := by
  simp only [norm, Ty.modulus, Ty.half]; omega
theorem norm_u8_cast (n : Nat) : norm .u8 (n : Int) = ((n % 256 : Nat) : Int) := by
  simp only [norm, Ty.modulus, Ty.half]; omega
theorem norm_u64_cast (n : Nat) : norm .u64 (n : Int) = ((n % 18446744073709551616 : Nat) : Int) := by
  simp only [norm, Ty.modulus, Ty.half]; omega
theorem norm_u32_cast (n : Nat) : norm .u32 (n : Int) = ((n % 4294967296 : Nat) : Int) := by
  simp only [norm, Ty.modulus, Ty.half]; omega
theorem pat_u64_lit : pat .u64 4294967295 = 4294967295 := by decide
theorem shl32_cast (n : Nat) : (n : Int) * (2 : Int) ^ (32 : Nat) = ((n <<< 32 : Nat) : Int) := by
  rw [Nat.shiftLeft_eq]; simp

theorem v2_mods (x n1 n2 : Nat) (hx : x < 18446744073709551616) :
    ((x ^^^ (n1 &&& 4294967295) % 18446744073709551616) % 18446744073709551616
        ^^^ (n2 <<< 32 % 18446744073709551616)) % 18446744073709551616
      = x ^^^ (n1 &&& 4294967295) ^^^ ((n2 <<< 32) % 18446744073709551616) := by
  have a1 : n1 &&& 4294967295 < 2 ^ 64 :=
    Nat.lt_of_lt_of_le (Nat.and_lt_two_pow n1 (by decide : 4294967295 < 2 ^ 32)) (by decide)
  have e1 : (n1 &&& 4294967295) % 18446744073709551616 = n1 &&& 4294967295 := Nat.mod_eq_of_lt a1
  have a2 : x ^^^ (n1 &&& 4294967295) < 2 ^ 64 := Nat.xor_lt_two_pow hx a1
  have e2 : (x ^^^ (n1 &&& 4294967295)) % 18446744073709551616 = x ^^^ (n1 &&& 4294967295) := Nat.mod_eq_of_lt a2
  have a3 : n2 <<< 32 % 18446744073709551616 < 2 ^ 64 := Nat.mod_lt _ (by decide)
  rw [e1, e2]
  exact Nat.mod_eq_of_lt (Nat.xor_lt_two_pow a2 a3)

theorem hash64v2_body_bridge (bs : Bytes) (hw : WFB bs) (ρ : Env) (i c : Nat) (hρ : ρ 2 = (c : Int))
    (hc : c < 18446744073709551616) :
    step (hashArrs bs) (upd ρ 1 (i : Int)) GoModel.loop_Hash64v2.body 2
      = ((Hash.v2StepA c (bs.getD i 0) : Nat) : Int) := by
  simp only [step, GoModel.loop_Hash64v2.body, runEnv, eval, upd, hashArrs]
  simp only [if_true, Nat.reduceEqDiff, if_false, hρ, Int.toNat_natCast, bytes_getD, tableInts_getD]
  simp only [evalOp, bitsOp, pat_i32_norm, norm_u8_norm_i32, norm_u64_cast, norm_u8_cast, pat_u64, pat_u64_lit,
    Int.toNat_natCast, Int.reduceToNat, shr_cast, shl32_cast, toNat_mod8, toNat_mod32, toNat_mod64]
  have hb := getD_lt bs hw i
  generalize bs.getD i 0 = b at hb
  congr 1
  have h8 : c >>> 8 < 18446744073709551616 := Nat.lt_of_le_of_lt (Nat.shiftRight_le c 8) hc
  have e4 : (c >>> 8) % 18446744073709551616 = c >>> 8 := Nat.mod_eq_of_lt h8
  have e2 : b % 4294967296 = b := Nat.mod_eq_of_lt (by omega)
  simp only [e2, e4, Nat.mod_mod]
  simp only [Hash.v2StepA]
  exact v2_mods _ _ _ h8


theorem pat_u8_lit : pat .u8 255 = 255 := by decide

theorem hash64V2_body_bridge (bs : Bytes) (hw : WFB bs) (ρ : Env) (i c : Nat) (hρ : ρ 2 = (c : Int))
    (hc : c < 18446744073709551616) :
    step (hashArrs bs) (upd ρ 1 (i : Int)) GoModel.loop_Hash64V2.body 2
      = ((Hash.v2StepB c (bs.getD i 0) : Nat) : Int) := by
  simp only [step, GoModel.loop_Hash64V2.body, runEnv, eval, upd, hashArrs]
  simp only [if_true, Nat.reduceEqDiff, if_false, hρ, Int.toNat_natCast, bytes_getD, tableInts_getD]
  simp only [evalOp, bitsOp, norm_u64_cast, norm_u8_cast, pat_u64, pat_u8, pat_u64_lit, pat_u8_lit,
    Int.toNat_natCast, Int.reduceToNat, shr_cast, shl32_cast, toNat_mod8, toNat_mod32, toNat_mod64]
  have hb := getD_lt bs hw i
  generalize bs.getD i 0 = b at hb
  congr 1
  have h8 : c >>> 8 < 18446744073709551616 := Nat.lt_of_le_of_lt (Nat.shiftRight_le c 8) hc
  have e4 : (c >>> 8) % 18446744073709551616 = c >>> 8 := Nat.mod_eq_of_lt h8
  have e2 : b % 256 = b := Nat.mod_eq_of_lt hb
  have e5 (x : Nat) : (x &&& 255) % 256 = x &&& 255 :=
    Nat.mod_eq_of_lt (Nat.and_lt_two_pow x (by decide : 255 < 2 ^ 8))
  simp only [e2, e4, e5, Nat.mod_mod]
  simp only [Hash.v2StepB]
  exact v2_mods _ _ _ h8


/-! ### after-loop blocks: `crc = crc ^ 0xff…ff; return intN(crc)` -/

theorem pat_u32_ff : pat .u32 4294967295 = 4294967295 := by decide
theorem pat_u64_ff : pat .u64 18446744073709551615 = 18446744073709551615 := by decide

theorem norm_i32_cast (n : Nat) : norm .i32 (n : Int) = Hash.toI32 n := by
  unfold Hash.toI32
  simp only [norm, Ty.modulus, Ty.half]
  split <;> omega

theorem norm_i64_cast (n : Nat) : norm .i64 (n : Int) = Hash.toI64 n := by
  unfold Hash.toI64
  simp only [norm, Ty.modulus, Ty.half]
  split <;> omega

theorem toI32_mod (n : Nat) : Hash.toI32 (n % 4294967296) = Hash.toI32 n := by
  unfold Hash.toI32; simp only [Nat.mod_mod]
theorem toI64_mod (n : Nat) : Hash.toI64 (n % 18446744073709551616) = Hash.toI64 n := by
  unfold Hash.toI64; simp only [Nat.mod_mod]

theorem hash_after_bridge (A : Arrays) (ρ : Env) (c : Nat) (hρ : ρ 2 = (c : Int)) (hc : c < 4294967296) :
    runRet A ρ GoModel.loop_Hash.after = some (Hash.toI32 (c ^^^ 0xffffffff)) := by
  simp only [GoModel.loop_Hash.after, runRet, eval, upd]
  simp only [if_true, hρ, evalOp, bitsOp, pat_u32, pat_u32_ff, norm_u32_cast, norm_i32_cast, toI32_mod,
    Nat.mod_eq_of_lt hc]

theorem hash64_after_bridge (A : Arrays) (ρ : Env) (c : Nat) (hρ : ρ 2 = (c : Int)) (hc : c < 18446744073709551616) :
    runRet A ρ GoModel.loop_Hash64.after = some (Hash.toI64 (c ^^^ 0xffffffffffffffff)) := by
  simp only [GoModel.loop_Hash64.after, runRet, eval, upd]
  simp only [if_true, hρ, evalOp, bitsOp, pat_u64, pat_u64_ff, norm_u64_cast, norm_i64_cast, toI64_mod,
    Nat.mod_eq_of_lt hc]

theorem hash64v2_after_bridge (A : Arrays) (ρ : Env) (c : Nat) (hρ : ρ 2 = (c : Int)) (hc : c < 18446744073709551616) :
    runRet A ρ GoModel.loop_Hash64v2.after = some (Hash.toI64 (c ^^^ 0xffffffffffffffff)) := by
  simp only [GoModel.loop_Hash64v2.after, runRet, eval, upd]
  simp only [if_true, hρ, evalOp, bitsOp, pat_u64, pat_u64_ff, norm_u64_cast, norm_i64_cast, toI64_mod,
    Nat.mod_eq_of_lt hc]

theorem hash64V2_after_bridge (A : Arrays) (ρ : Env) (c : Nat) (hρ : ρ 2 = (c : Int)) (hc : c < 18446744073709551616) :
    runRet A ρ GoModel.loop_Hash64V2.after = some (Hash.toI64 (c ^^^ 0xffffffffffffffff)) := by
  simp only [GoModel.loop_Hash64V2.after, runRet, eval, upd]
  simp only [if_true, hρ, evalOp, bitsOp, pat_u64, pat_u64_ff, norm_u64_cast, norm_i64_cast, toI64_mod,
    Nat.mod_eq_of_lt hc]

/-! ### whole functions: the loop over the slice -/

theorem crcStep_lt (c b : Nat) (hc : c < 4294967296) : Hash.crcStep c b < 4294967296 := by
  unfold Hash.crcStep
  exact Nat.xor_lt_two_pow (n := 32) (Nat.lt_of_le_of_lt (Nat.shiftRight_le c 8) hc) (Nat.mod_lt _ (by decide))

theorem crc64Step_lt (c b : Nat) (hc : c < 18446744073709551616) : Hash.crc64Step c b < 18446744073709551616 := by
  unfold Hash.crc64Step
  exact Nat.xor_lt_two_pow (n := 64) (Nat.lt_of_le_of_lt (Nat.shiftRight_le c 8) hc) (sext_lt _)

theorem v2Step_lt (x n1 n2 : Nat) (hx : x < 18446744073709551616) :
    x ^^^ (n1 &&& 4294967295) ^^^ ((n2 <<< 32) % 18446744073709551616) < 18446744073709551616 := by
  have a1 : n1 &&& 4294967295 < 2 ^ 64 :=
    Nat.lt_of_lt_of_le (Nat.and_lt_two_pow n1 (by decide : 4294967295 < 2 ^ 32)) (by decide)
  exact Nat.xor_lt_two_pow (n := 64) (Nat.xor_lt_two_pow hx a1) (Nat.mod_lt _ (by decide))

theorem v2StepA_lt (c b : Nat) (hc : c < 18446744073709551616) : Hash.v2StepA c b < 18446744073709551616 := by
  simp only [Hash.v2StepA]
  exact v2Step_lt _ _ _ (Nat.lt_of_le_of_lt (Nat.shiftRight_le c 8) hc)

theorem v2StepB_lt (c b : Nat) (hc : c < 18446744073709551616) : Hash.v2StepB c b < 18446744073709551616 := by
  simp only [Hash.v2StepB]
  exact v2Step_lt _ _ _ (Nat.lt_of_le_of_lt (Nat.shiftRight_le c 8) hc)

theorem drop_cons_getD (bs : Bytes) (k : Nat) (h : k < bs.length) : bs.drop k = bs.getD k 0 :: bs.drop (k + 1) := by
  rw [List.drop_eq_getElem_cons h]
  simp [List.getD, List.getElem?_eq_getElem h]

/-- generic: a loop whose body maps the register by `f` folds `f` over the remaining bytes -/
theorem forLoop_fold (A : Arrays) (body : List Stmt) (iVar reg : Nat) (bs : Bytes) (f : Nat → Nat → Nat) (M : Nat)
    (hstep : ∀ (ρ : Env) (i c : Nat), ρ reg = (c : Int) → c < M →
      runEnv A (upd ρ iVar (i : Int)) body reg = ((f c (bs.getD i 0) : Nat) : Int))
    (hlt : ∀ c b, c < M → f c b < M) :
    ∀ (n k : Nat) (ρ : Env) (c : Nat), ρ reg = (c : Int) → c < M → k + n = bs.length →
      forLoop A body iVar n k ρ reg = (((bs.drop k).foldl f c : Nat) : Int) := by
  intro n
  induction n with
  | zero =>
    intro k ρ c hρ hc hk
    have : bs.drop k = [] := List.drop_eq_nil_of_le (by omega)
    simp [forLoop, this, hρ]
  | succ n ih =>
    intro k ρ c hρ hc hk
    rw [forLoop, drop_cons_getD bs k (by omega), List.foldl_cons]
    exact ih (k + 1) _ _ (hstep ρ k c hρ hc) (hlt _ _ hc) (by omega)

theorem foldl_lt (f : Nat → Nat → Nat) (M : Nat) (hlt : ∀ c b, c < M → f c b < M) :
    ∀ (l : Bytes) (c : Nat), c < M → l.foldl f c < M := by
  intro l; induction l with
  | nil => intro c hc; exact hc
  | cons b l ih => intro c hc; exact ih _ (hlt c b hc)

/-- **`Hash` = `Hash.hash`** for every byte string, for any loop body / final block with the canonical
    forms of the model's (the obligations of Props.C15Gen instantiate `body`, `after` with the regenerated ones) -/
theorem hash_fn_bridge (body after : List Stmt)
    (hbody : canonVar 2 body = canonVar 2 GoModel.loop_Hash.body)
    (hafter : canonRet after = canonRet GoModel.loop_Hash.after)
    (bs : Bytes) (hw : WFB bs) (ρ : Env) (hρ : ρ 2 = 4294967295) :
    retVal (runRet (hashArrs bs) (forLoop (hashArrs bs) body 1 bs.length 0 ρ) after) = Hash.hash bs := by
  have hB : ∀ ρ, runEnv (hashArrs bs) ρ body 2 = runEnv (hashArrs bs) ρ GoModel.loop_Hash.body 2 :=
    fun ρ => canonVar_eq hbody (by decide +kernel) (hashArrs bs) ρ
  have hA : ∀ ρ, runRet (hashArrs bs) ρ after = runRet (hashArrs bs) ρ GoModel.loop_Hash.after :=
    fun ρ => canonRet_eq hafter (by decide +kernel) (hashArrs bs) ρ
  have h := forLoop_fold (hashArrs bs) body 1 2 bs Hash.crcStep 4294967296
    (fun ρ i c h1 h2 => by rw [hB]; exact hash_body_bridge bs hw ρ i c h1 h2) crcStep_lt bs.length 0 ρ 4294967295 hρ (by decide) (by omega)
  rw [List.drop_zero] at h
  rw [hA, hash_after_bridge _ _ _ h (foldl_lt _ _ crcStep_lt bs _ (by decide)), retVal_some]
  rfl

/-- `Hash64` = `Hash.hash64` -/
theorem hash64_fn_bridge (body after : List Stmt)
    (hbody : canonVar 2 body = canonVar 2 GoModel.loop_Hash64.body)
    (hafter : canonRet after = canonRet GoModel.loop_Hash64.after)
    (bs : Bytes) (hw : WFB bs) (ρ : Env) (hρ : ρ 2 = 18446744073709551615) :
    retVal (runRet (hashArrs bs) (forLoop (hashArrs bs) body 1 bs.length 0 ρ) after) = Hash.hash64 bs := by
  have hB : ∀ ρ, runEnv (hashArrs bs) ρ body 2 = runEnv (hashArrs bs) ρ GoModel.loop_Hash64.body 2 :=
    fun ρ => canonVar_eq hbody (by decide +kernel) (hashArrs bs) ρ
  have hA : ∀ ρ, runRet (hashArrs bs) ρ after = runRet (hashArrs bs) ρ GoModel.loop_Hash64.after :=
    fun ρ => canonRet_eq hafter (by decide +kernel) (hashArrs bs) ρ
  have h := forLoop_fold (hashArrs bs) body 1 2 bs Hash.crc64Step 18446744073709551616
    (fun ρ i c h1 h2 => by rw [hB]; exact hash64_body_bridge bs hw ρ i c h1 h2) crc64Step_lt bs.length 0 ρ 18446744073709551615 hρ (by decide) (by omega)
  rw [List.drop_zero] at h
  rw [hA, hash64_after_bridge _ _ _ h (foldl_lt _ _ crc64Step_lt bs _ (by decide)), retVal_some]
  rfl

/-- loop and final block of `Hash64v2` = `Hash.hash64v2 (some bs)` (the `nil` test in front is compared by tie B) -/
theorem hash64v2_fn_bridge (body after : List Stmt)
    (hbody : canonVar 2 body = canonVar 2 GoModel.loop_Hash64v2.body)
    (hafter : canonRet after = canonRet GoModel.loop_Hash64v2.after)
    (bs : Bytes) (hw : WFB bs) (ρ : Env) (hρ : ρ 2 = 18446744073709551615) :
    retVal (runRet (hashArrs bs) (forLoop (hashArrs bs) body 1 bs.length 0 ρ) after) = Hash.hash64v2 (some bs) := by
  have hB : ∀ ρ, runEnv (hashArrs bs) ρ body 2 = runEnv (hashArrs bs) ρ GoModel.loop_Hash64v2.body 2 :=
    fun ρ => canonVar_eq hbody (by decide +kernel) (hashArrs bs) ρ
  have hA : ∀ ρ, runRet (hashArrs bs) ρ after = runRet (hashArrs bs) ρ GoModel.loop_Hash64v2.after :=
    fun ρ => canonRet_eq hafter (by decide +kernel) (hashArrs bs) ρ
  have h := forLoop_fold (hashArrs bs) body 1 2 bs Hash.v2StepA 18446744073709551616
    (fun ρ i c h1 h2 => by rw [hB]; exact hash64v2_body_bridge bs hw ρ i c h1 h2) v2StepA_lt bs.length 0 ρ 18446744073709551615 hρ (by decide) (by omega)
  rw [List.drop_zero] at h
  rw [hA, hash64v2_after_bridge _ _ _ h (foldl_lt _ _ v2StepA_lt bs _ (by decide)), retVal_some]
  rfl

/-- the else-branch of `Hash64V2` (non-empty input) = `Hash.hash64V2 (some bs)` -/
theorem hash64V2_fn_bridge (body after : List Stmt)
    (hbody : canonVar 2 body = canonVar 2 GoModel.loop_Hash64V2.body)
    (hafter : canonRet after = canonRet GoModel.loop_Hash64V2.after)
    (bs : Bytes) (hw : WFB bs) (hne : bs ≠ []) (ρ : Env) (hρ : ρ 2 = 18446744073709551615) :
    retVal (runRet (hashArrs bs) (forLoop (hashArrs bs) body 1 bs.length 0 ρ) after) = Hash.hash64V2 (some bs) := by
  have hB : ∀ ρ, runEnv (hashArrs bs) ρ body 2 = runEnv (hashArrs bs) ρ GoModel.loop_Hash64V2.body 2 :=
    fun ρ => canonVar_eq hbody (by decide +kernel) (hashArrs bs) ρ
  have hA : ∀ ρ, runRet (hashArrs bs) ρ after = runRet (hashArrs bs) ρ GoModel.loop_Hash64V2.after :=
    fun ρ => canonRet_eq hafter (by decide +kernel) (hashArrs bs) ρ
  have h := forLoop_fold (hashArrs bs) body 1 2 bs Hash.v2StepB 18446744073709551616
    (fun ρ i c h1 h2 => by rw [hB]; exact hash64V2_body_bridge bs hw ρ i c h1 h2) v2StepB_lt bs.length 0 ρ 18446744073709551615 hρ (by decide) (by omega)
  rw [List.drop_zero] at h
  rw [hA, hash64V2_after_bridge _ _ _ h (foldl_lt _ _ v2StepB_lt bs _ (by decide)), retVal_some]
  unfold Hash.hash64V2
  cases bs with
  | nil => exact absurd rfl hne
  | cons b bs => rfl

/-! ### stringutil.HashCode -/

/-- arrays of `HashCode`: the string parameter (number 0) as its bytes -/
def strArrs (bs : Bytes) : Arrays := fun n => if n = 0 then bs.map Int.ofNat else []

theorem hashCode_body_bridge (bs : Bytes) (hw : WFB bs) (ρ : Env) (i : Nat) (h : Int) (hρ : ρ 2 = h)
    (hh : BitUtil.isI64 h) :
    step (strArrs bs) (upd ρ 1 (i : Int)) GoModel.loop_HashCode.body 2
      = BitUtil.wrap64 (31 * h + ((bs.getD i 0 : Nat) : Int)) := by
  have hb := getD_lt bs hw i
  unfold BitUtil.isI64 at hh
  simp only [step, GoModel.loop_HashCode.body, runEnv, eval, upd, strArrs]
  simp only [if_true, Nat.reduceEqDiff, if_false, hρ, Int.toNat_natCast, bytes_getD]
  generalize bs.getD i 0 = b at hb
  simp only [evalOp, norm, Ty.modulus, Ty.half]
  unfold BitUtil.wrap64
  omega

theorem wrap64_range (v : Int) : BitUtil.isI64 (BitUtil.wrap64 v) := by
  unfold BitUtil.isI64 BitUtil.wrap64; omega

/-- **`HashCode` as transcribed = `StrHash.hashCode`**, for every string -/
theorem hashCode_fn_bridge (pre body after : List Stmt)
    (hpre : canonVar 2 pre = canonVar 2 GoModel.loop_HashCode.pre)
    (hbody : canonVar 2 body = canonVar 2 GoModel.loop_HashCode.body)
    (hafter : canonRet after = canonRet GoModel.loop_HashCode.after)
    (bs : Bytes) (hw : WFB bs) (ρ : Env) :
    callLoop (strArrs bs) pre body after 1 bs.length ρ = StrHash.hashCode bs := by
  have hP : ∀ ρ, runEnv (strArrs bs) ρ pre 2 = runEnv (strArrs bs) ρ GoModel.loop_HashCode.pre 2 :=
    fun ρ => canonVar_eq hpre (by decide +kernel) (strArrs bs) ρ
  have hB : ∀ ρ, runEnv (strArrs bs) ρ body 2 = runEnv (strArrs bs) ρ GoModel.loop_HashCode.body 2 :=
    fun ρ => canonVar_eq hbody (by decide +kernel) (strArrs bs) ρ
  have hA : ∀ ρ, runRet (strArrs bs) ρ after = runRet (strArrs bs) ρ GoModel.loop_HashCode.after :=
    fun ρ => canonRet_eq hafter (by decide +kernel) (strArrs bs) ρ
  have key : ∀ (n k : Nat) (ρ : Env) (h : Int), ρ 2 = h → BitUtil.isI64 h → k + n = bs.length →
      forLoop (strArrs bs) body 1 n k ρ 2
        = (bs.drop k).foldl (fun (h : Int) (b : Nat) => BitUtil.wrap64 (31 * h + (b : Int))) h := by
    intro n
    induction n with
    | zero =>
      intro k ρ h hρ hh hk
      have : bs.drop k = [] := List.drop_eq_nil_of_le (by omega)
      simp [forLoop, this, hρ]
    | succ n ih =>
      intro k ρ h hρ hh hk
      rw [forLoop, drop_cons_getD bs k (by omega), List.foldl_cons]
      exact ih (k + 1) _ _ (by rw [hB]; exact hashCode_body_bridge bs hw ρ k h hρ hh) (wrap64_range _) (by omega)
  have h0 : runEnv (strArrs bs) ρ pre 2 = 0 := by
    rw [hP]; simp [GoModel.loop_HashCode.pre, runEnv, eval, upd]
  have := key bs.length 0 _ 0 h0 (by unfold BitUtil.isI64; omega) (by omega)
  rw [List.drop_zero] at this
  unfold callLoop
  rw [hA]
  simp only [GoModel.loop_HashCode.after, runRet, eval]
  rw [retVal_some, this]
  rfl

/-! ### hash.ToInt / hash.ToLong (used by HashAddr) -/

def bufArrs (bs : Bytes) : Arrays := fun n => if n = 0 then bs.map Int.ofNat else []

theorem norm_i64_add (x y : Int) : norm .i64 (norm .i64 x + norm .i64 y) = norm .i64 (x + y) := by
  simp only [norm, Ty.half, Ty.modulus]; omega
theorem norm_i32_add (x y : Int) : norm .i32 (norm .i32 x + norm .i32 y) = norm .i32 (x + y) := by
  simp only [norm, Ty.half, Ty.modulus]; omega
theorem norm_i32_idem (x : Int) : norm .i32 (norm .i32 x) = norm .i32 x := by
  simp only [norm, Ty.half, Ty.modulus]; omega
theorem norm_i64_idem (x : Int) : norm .i64 (norm .i64 x) = norm .i64 x := by
  simp only [norm, Ty.half, Ty.modulus]; omega
theorem norm_i32_byte (a : Nat) (h : a < 256) : norm .i32 (a : Int) = a := by
  simp only [norm, Ty.half, Ty.modulus]; omega
theorem norm_i64_byte (a : Nat) (h : a < 256) : norm .i64 (a : Int) = a := by
  simp only [norm, Ty.half, Ty.modulus]; omega
theorem norm_i32_wrap (x : Int) : norm .i32 x = Hash.wrap32 x := rfl
theorem norm_i64_wrap (x : Int) : norm .i64 x = Hash.wrap64 x := rfl

theorem w32_l (x y : Int) : Hash.wrap32 (Hash.wrap32 x + y) = Hash.wrap32 (x + y) := by unfold Hash.wrap32; omega
theorem w32_r (x y : Int) : Hash.wrap32 (x + Hash.wrap32 y) = Hash.wrap32 (x + y) := by unfold Hash.wrap32; omega
theorem w32_i (x : Int) : Hash.wrap32 (Hash.wrap32 x) = Hash.wrap32 x := by unfold Hash.wrap32; omega
theorem w64_l (x y : Int) : Hash.wrap64 (Hash.wrap64 x + y) = Hash.wrap64 (x + y) := by unfold Hash.wrap64; omega
theorem w64_r (x y : Int) : Hash.wrap64 (x + Hash.wrap64 y) = Hash.wrap64 (x + y) := by unfold Hash.wrap64; omega
theorem w64_i (x : Int) : Hash.wrap64 (Hash.wrap64 x) = Hash.wrap64 x := by unfold Hash.wrap64; omega

theorem toInt_bridge (a b c d : Nat) (rest : Bytes) (ha : a < 256) (hb : b < 256) (hc : c < 256) (hd : d < 256) :
    some (call (bufArrs (a :: b :: c :: d :: rest)) GoModel.fn_ToInt []) = Hash.toInt (a :: b :: c :: d :: rest) := by
  simp only [call, GoModel.fn_ToInt, bindArgs, runRet, eval, upd, bufArrs]
  simp only [if_true, Nat.reduceEqDiff, if_false, Int.reduceToNat, List.map_cons, List.getD_cons_zero, List.getD_cons_succ]
  rw [retVal_some]
  simp only [evalOp, Int.ofNat_eq_natCast, norm_i32_byte _ ha, norm_i32_byte _ hb, norm_i32_byte _ hc, norm_i32_byte _ hd,
    Int.reduceToNat, Int.reducePow, norm_i32_add, norm_i32_idem, Int.mul_one, Hash.toInt, norm_i32_wrap]
  simp only [w32_l, w32_r, w32_i]

theorem toLong_bridge (a b c d e f g h : Nat) (rest : Bytes) (ha : a < 256) (hb : b < 256) (hc : c < 256) (hd : d < 256)
    (he : e < 256) (hf : f < 256) (hg : g < 256) (hh : h < 256) :
    some (call (bufArrs (a :: b :: c :: d :: e :: f :: g :: h :: rest)) GoModel.fn_ToLong [])
      = Hash.toLong (a :: b :: c :: d :: e :: f :: g :: h :: rest) := by
  simp only [call, GoModel.fn_ToLong, bindArgs, runRet, eval, upd, bufArrs]
  simp only [if_true, Nat.reduceEqDiff, if_false, Int.reduceToNat, List.map_cons, List.getD_cons_zero, List.getD_cons_succ]
  rw [retVal_some]
  simp only [evalOp, Int.ofNat_eq_natCast, norm_i64_byte _ ha, norm_i64_byte _ hb, norm_i64_byte _ hc, norm_i64_byte _ hd,
    norm_i64_byte _ he, norm_i64_byte _ hf, norm_i64_byte _ hg, norm_i64_byte _ hh,
    Int.reduceToNat, Int.reducePow, norm_i64_add, norm_i64_idem, Int.mul_one, Hash.toLong, norm_i64_wrap]
  simp only [w64_l, w64_r, w64_i]

end GoBridge
