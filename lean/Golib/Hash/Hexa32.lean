/-
  Golib.Hash.Hexa32 — CodeModel of util/hexa32/Hexa32.go (ToString32 / ToLong32).

  `int64` values are `Int` in the signed 64-bit range; Go's `/` and `%` on signed operands truncate
  toward zero (`Int.tdiv`, `Int.tmod`).  Text is a list of characters (all ASCII here).
  No step of `to_long` can overflow `int64` (the two guards are there to prevent it), see
  `Hexa32Proofs.toLongLoop_…`; the model therefore uses unbounded `Int` arithmetic.

  (core Lean only; imported by the driver)
-/
import Golib.Hash.Strconv

namespace Hexa32
open Strconv

def minInt64 : Int := -9223372036854775808
def maxInt64 : Int := 9223372036854775807

/-- `var digits = []byte{'0',…,'9','a',…,'z'}` -/
def digits : List Char :=
  ['0', '1', '2', '3', '4', '5', '6', '7', '8', '9', 'a', 'b', 'c', 'd', 'e', 'f', 'g', 'h',
   'i', 'j', 'k', 'l', 'm', 'n', 'o', 'p', 'q', 'r', 's', 't', 'u', 'v', 'w', 'x', 'y', 'z']

def digitAt (k : Int) : Char := digits.getD k.toNat '?'

/-- the loop of `to_str` after `i = -i`: `for ; i <= -radix; i = i / radix { buf[charPos--] = digits[-(i % radix)] }`
    then `buf[charPos] = digits[-i]`; the buffer is filled from the right, i.e. consed onto `acc` -/
def toStrLoop (i : Int) (acc : List Char) : List Char :=
  if _h : i ≤ -32 then toStrLoop (i.tdiv 32) (digitAt (-(i.tmod 32)) :: acc)
  else digitAt (-i) :: acc
termination_by i.natAbs
decreasing_by
  rw [Int.natAbs_tdiv]
  have : (32 : Int).natAbs = 32 := rfl
  rw [this]
  have h1 : i.natAbs ≥ 32 := by omega
  exact Nat.div_lt_self (by omega) (by decide)

/-- `to_str(i)` for `i > 0` -/
def toStr (i : Int) : List Char := toStrLoop (-i) []

/-- `func ToString32(num int64) string` -/
def toString32 (num : Int) : List Char :=
  if num < 0 then
    if num = minInt64 then "z8000000000000".toList
    else 'z' :: toStr (-num)
  else if num < 10 then itoaNat num.toNat
  else 'x' :: toStr num

/-- `findc` of `to_long` -/
def findc (c : Char) : Int :=
  let x := c.toNat
  if 48 ≤ x ∧ x ≤ 57 then (x - 48 : Nat)
  else if 97 ≤ x ∧ x ≤ 122 then (x - 97 + 10 : Nat)
  else if 65 ≤ x ∧ x ≤ 90 then (x - 65 + 10 : Nat)
  else 0

def limit : Int := -9223372036854775807
def multmin : Int := -288230376151711743      -- limit / 32 (truncated)

/-- the loop of `to_long`; `result` runs through non-positive values; an overflow guard that fires
    makes the whole function return 0 -/
def toLongLoop : Int → List Char → Int
  | result, [] => -result
  | result, c :: cs =>
    let digit := findc c
    if result < multmin then 0
    else
      let result := result * 32
      if result < limit + digit then 0
      else toLongLoop (result - digit) cs

def toLong (s : List Char) : Int := toLongLoop 0 s

/-- `func ToLong32(str string) int64` -/
def toLong32 (s : List Char) : Int :=
  match s with
  | [] => 0
  | c :: rest =>
    if c = 'z' then
      if s = "z8000000000000".toList then minInt64 else -1 * toLong rest
    else if c = 'x' then toLong rest
    else match atoi s with
      | some i => i
      | none => 0

end Hexa32
