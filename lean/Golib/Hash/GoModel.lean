/-
  Golib.Hash.GoModel — hand-kept copy of the transcribed Go code that the bridge theorems of
  `Golib.Hash.GoBridge` are about (same role as the hand copy of the CRC table in `Golib.Hash.Crc`).

  Tie A regenerates `Golib/Gen/C15.lean` from the source on every run; `Props/C15Gen.lean` checks that
  every regenerated block has the same *canonical form* (`GoSem.canonRet` / `canonVar` / `normStmts`) as
  the block here, and `GoSemProofs` proves that equal canonical forms compute the same value on every
  input.  So a rename, a reordering of independent statements, swapped operands of `| & ^ + *`, a
  temporary variable, `x op= e` for `x = x op e` keep the obligations true; a changed shift, mask,
  conversion, constant, operator or index does not.

  Identifier numbers: parameters, the loop variable, the loop-carried variables, then the others in
  source order (`X.names` lists them).
-/
import Golib.Hash.GoSem

namespace GoModel

def loop_Hash.loopVar : Int := 1
def loop_Hash.carried : List Nat := [2]
def loop_Hash.regInit : Option Int := some 4294967295
def loop_Hash.pre : List GoSem.Stmt := [
    .set 2 (.lit 4294967295),
    .set 3 (.len 0)]
def loop_Hash.init : List GoSem.Stmt := [
    .set 1 (.lit 0)]
def loop_Hash.cond : GoSem.Cond := (.lt (.var 1) (.var 3))
def loop_Hash.post : List GoSem.Stmt := [
    .set 1 (.bin .add .i64 (.var 1) (.lit 1))]
def loop_Hash.body : List GoSem.Stmt := [
    .set 4 (.idx 0 (.var 1)),
    .set 2 (.bin .bxor .u32 (.bin .shr .u32 (.var 2) (.lit 8)) (.conv .u32 (.conv .i32 (.idx 1000 (.conv .u8 (.bin .bxor .u32 (.var 2) (.conv .u32 (.var 4))))))))]
def loop_Hash.after : List GoSem.Stmt := [
    .set 2 (.bin .bxor .u32 (.var 2) (.lit 4294967295)),
    .ret (.conv .i32 (.var 2))]
def loop_Hash.header : List String := ["#1 := 0", "#1 < len(#0)", "#1++"]
def loop_Hash.names : List (String × Nat) := [("bytes", 0), ("i", 1), ("crc", 2), ("sz", 3), ("b", 4)]

def loop_Hash64.loopVar : Int := 1
def loop_Hash64.carried : List Nat := [2]
def loop_Hash64.regInit : Option Int := some 18446744073709551615
def loop_Hash64.pre : List GoSem.Stmt := [
    .set 2 (.lit 18446744073709551615),
    .set 3 (.len 0)]
def loop_Hash64.init : List GoSem.Stmt := [
    .set 1 (.lit 0)]
def loop_Hash64.cond : GoSem.Cond := (.lt (.var 1) (.var 3))
def loop_Hash64.post : List GoSem.Stmt := [
    .set 1 (.bin .add .i64 (.var 1) (.lit 1))]
def loop_Hash64.body : List GoSem.Stmt := [
    .set 4 (.idx 0 (.var 1)),
    .set 2 (.bin .bxor .u64 (.bin .shr .u64 (.var 2) (.lit 8)) (.conv .u64 (.conv .i32 (.idx 1000 (.conv .u8 (.bin .bxor .u64 (.var 2) (.conv .u64 (.var 4))))))))]
def loop_Hash64.after : List GoSem.Stmt := [
    .set 2 (.bin .bxor .u64 (.var 2) (.lit 18446744073709551615)),
    .ret (.conv .i64 (.var 2))]
def loop_Hash64.header : List String := ["#1 := 0", "#1 < len(#0)", "#1++"]
def loop_Hash64.names : List (String × Nat) := [("bytes", 0), ("i", 1), ("crc", 2), ("sz", 3), ("b", 4)]

def loop_Hash64v2.loopVar : Int := 1
def loop_Hash64v2.carried : List Nat := [2]
def loop_Hash64v2.regInit : Option Int := some 18446744073709551615
def loop_Hash64v2.pre : List GoSem.Stmt := [
    .retIf (.isNil 0) (.lit 0),
    .set 2 (.lit 18446744073709551615),
    .set 3 (.len 0)]
def loop_Hash64v2.init : List GoSem.Stmt := [
    .set 1 (.lit 0)]
def loop_Hash64v2.cond : GoSem.Cond := (.lt (.var 1) (.var 3))
def loop_Hash64v2.post : List GoSem.Stmt := [
    .set 1 (.bin .add .i64 (.var 1) (.lit 1))]
def loop_Hash64v2.body : List GoSem.Stmt := [
    .set 4 (.idx 0 (.var 1)),
    .set 2 (.bin .shr .u64 (.var 2) (.lit 8)),
    .set 5 (.conv .u64 (.idx 1000 (.conv .u8 (.bin .bxor .i32 (.conv .i32 (.var 2)) (.conv .i32 (.var 4)))))),
    .set 6 (.conv .u64 (.idx 1000 (.conv .u8 (.bin .bxor .i32 (.conv .i32 (.bin .shr .u64 (.var 2) (.lit 32))) (.conv .i32 (.var 4)))))),
    .set 2 (.bin .bxor .u64 (.var 2) (.bin .band .u64 (.var 5) (.lit 4294967295))),
    .set 2 (.bin .bxor .u64 (.var 2) (.bin .shl .u64 (.var 6) (.lit 32)))]
def loop_Hash64v2.after : List GoSem.Stmt := [
    .set 2 (.bin .bxor .u64 (.var 2) (.lit 18446744073709551615)),
    .ret (.conv .i64 (.var 2))]
def loop_Hash64v2.header : List String := ["#1 := 0", "#1 < len(#0)", "#1++"]
def loop_Hash64v2.names : List (String × Nat) := [("bytes", 0), ("i", 1), ("crc", 2), ("sz", 3), ("b", 4), ("n1", 5), ("n2", 6)]

def loop_Hash64V2.loopVar : Int := 1
def loop_Hash64V2.carried : List Nat := [2]
def loop_Hash64V2.regInit : Option Int := some 18446744073709551615
def loop_Hash64V2.pre : List GoSem.Stmt := [
    .set 3 (.len 0),
    .retIf (.eq (.var 3) (.lit 0)) (.lit 0),
    .set 2 (.lit 18446744073709551615)]
def loop_Hash64V2.init : List GoSem.Stmt := [
    .set 1 (.lit 0)]
def loop_Hash64V2.cond : GoSem.Cond := (.lt (.var 1) (.var 3))
def loop_Hash64V2.post : List GoSem.Stmt := [
    .set 1 (.bin .add .i64 (.var 1) (.lit 1))]
def loop_Hash64V2.body : List GoSem.Stmt := [
    .set 2 (.bin .shr .u64 (.var 2) (.lit 8)),
    .set 4 (.idx 0 (.var 1)),
    .set 5 (.conv .u64 (.idx 1000 (.bin .band .u8 (.bin .bxor .u8 (.conv .u8 (.var 2)) (.var 4)) (.lit 255)))),
    .set 6 (.conv .u64 (.idx 1000 (.bin .band .u8 (.bin .bxor .u8 (.conv .u8 (.bin .shr .u64 (.var 2) (.lit 32))) (.var 4)) (.lit 255)))),
    .set 2 (.bin .bxor .u64 (.var 2) (.bin .band .u64 (.var 5) (.lit 4294967295))),
    .set 2 (.bin .bxor .u64 (.var 2) (.bin .shl .u64 (.var 6) (.lit 32)))]
def loop_Hash64V2.after : List GoSem.Stmt := [
    .set 2 (.bin .bxor .u64 (.var 2) (.lit 18446744073709551615)),
    .ret (.conv .i64 (.var 2))]
def loop_Hash64V2.header : List String := ["#1 := 0", "#1 < len(#0)", "#1++"]
def loop_Hash64V2.names : List (String × Nat) := [("bytes", 0), ("i", 1), ("crc", 2), ("sz", 3), ("b", 4), ("n1", 5), ("n2", 6)]

def fn_HashAddr : GoSem.Fn :=
  { params := [], result := .i64, body := [
    .setIf (.oneOf (.len 0) [4]) 2 (.var 1),
    .retIf (.oneOf (.len 0) [4]) (.bin .mul .i64 (.conv .i64 (.var 2)) (.conv .i64 (.var 2))),
    .retIf (.oneOf (.len 0) [8]) (.var 3),
    .ret (.conv .i64 (.var 4))] }
def fn_HashAddr.names : List (String × Nat) := [("src", 0), ("ToInt(#0)", 1), ("c", 2), ("ToLong(#0)", 3), ("Hash(#0)", 4)]

def fn_ToInt : GoSem.Fn :=
  { params := [], result := .i32, body := [
    .set 1 (.conv .i32 (.idx 0 (.lit 0))),
    .set 2 (.conv .i32 (.idx 0 (.lit 1))),
    .set 3 (.conv .i32 (.idx 0 (.lit 2))),
    .set 4 (.conv .i32 (.idx 0 (.lit 3))),
    .ret (.conv .i32 (.bin .add .i32 (.bin .add .i32 (.bin .add .i32 (.bin .shl .i32 (.var 1) (.lit 24)) (.bin .shl .i32 (.var 2) (.lit 16))) (.bin .shl .i32 (.var 3) (.lit 8))) (.bin .shl .i32 (.var 4) (.lit 0))))] }
def fn_ToInt.names : List (String × Nat) := [("buf", 0), ("ch1", 1), ("ch2", 2), ("ch3", 3), ("ch4", 4)]

def fn_ToLong : GoSem.Fn :=
  { params := [], result := .i64, body := [
    .set 1 (.bin .shl .i64 (.conv .i64 (.idx 0 (.lit 0))) (.lit 56)),
    .set 1 (.bin .add .i64 (.var 1) (.bin .shl .i64 (.conv .i64 (.idx 0 (.lit 1))) (.lit 48))),
    .set 1 (.bin .add .i64 (.var 1) (.bin .shl .i64 (.conv .i64 (.idx 0 (.lit 2))) (.lit 40))),
    .set 1 (.bin .add .i64 (.var 1) (.bin .shl .i64 (.conv .i64 (.idx 0 (.lit 3))) (.lit 32))),
    .set 1 (.bin .add .i64 (.var 1) (.bin .shl .i64 (.conv .i64 (.idx 0 (.lit 4))) (.lit 24))),
    .set 1 (.bin .add .i64 (.var 1) (.bin .shl .i64 (.conv .i64 (.idx 0 (.lit 5))) (.lit 16))),
    .set 1 (.bin .add .i64 (.var 1) (.bin .shl .i64 (.conv .i64 (.idx 0 (.lit 6))) (.lit 8))),
    .set 1 (.bin .add .i64 (.var 1) (.bin .shl .i64 (.conv .i64 (.idx 0 (.lit 7))) (.lit 0))),
    .ret (.var 1)] }
def fn_ToLong.names : List (String × Nat) := [("buf", 0), ("v", 1)]

def wrapper_HashStr : String × Option Int := ("Hash", none)
def wrapper_Hash64Str : String × Option Int := ("Hash64", none)
def wrapper_Hash64StrV2 : String × Option Int := ("Hash64V2", none)
def wrapper_GetLongHash : String × Option Int := ("Hash64v2", some 0)

def loop_HashCode.loopVar : Int := 1
def loop_HashCode.carried : List Nat := [2]
def loop_HashCode.regInit : Option Int := some 0
def loop_HashCode.pre : List GoSem.Stmt := [
    .set 2 (.lit 0)]
def loop_HashCode.init : List GoSem.Stmt := [
    .set 1 (.lit 0)]
def loop_HashCode.cond : GoSem.Cond := (.lt (.var 1) (.len 0))
def loop_HashCode.post : List GoSem.Stmt := [
    .set 1 (.bin .add .i64 (.var 1) (.lit 1))]
def loop_HashCode.body : List GoSem.Stmt := [
    .set 2 (.bin .add .i64 (.bin .mul .i64 (.lit 31) (.var 2)) (.conv .i64 (.idx 0 (.var 1))))]
def loop_HashCode.after : List GoSem.Stmt := [
    .ret (.var 2)]
def loop_HashCode.header : List String := ["#1 := 0", "#1 < len(#0)", "#1++"]
def loop_HashCode.names : List (String × Nat) := [("s", 0), ("i", 1), ("h", 2)]

def plusChar : Option Nat := some 120
def minusChar : Option Nat := some 122
def toString32Texts : List String := ["z8000000000000", "z", "x"]
def toLong32Texts : List String := ["", "z8000000000000"]

def loop_to_str.pre : List GoSem.Stmt := [
    .set 3 (.lit 32),
    .set 1 (.lit 64)]
def loop_to_str.init : List GoSem.Stmt := [
    .set 0 (.neg .i64 (.var 0))]
def loop_to_str.cond : GoSem.Cond := (.le (.var 0) (.neg .i64 (.var 3)))
def loop_to_str.post : List GoSem.Stmt := [
    .set 0 (.bin .quo .i64 (.var 0) (.var 3))]
def loop_to_str.body : List GoSem.Stmt := [
    .set 4 (.idx 1001 (.conv .i64 (.neg .i64 (.bin .rem .i64 (.var 0) (.var 3))))),
    .set 1 (.bin .sub .i64 (.var 1) (.lit 1))]
def loop_to_str.after : List GoSem.Stmt := [
    .set 4 (.idx 1001 (.conv .i64 (.neg .i64 (.var 0))))]
def loop_to_str.names : List (String × Nat) := [("i", 0), ("charPos", 1), ("buf", 2), ("radix", 3), ("buf@", 4)]

def loop_to_long.pre : List GoSem.Stmt := [
    .set 2 (.lit 0),
    .set 5 (.lit (-9223372036854775807)),
    .set 4 (.bin .quo .i64 (.var 5) (.lit 32))]
def loop_to_long.body : List GoSem.Stmt := [
    .retIf (.lt (.var 2) (.var 4)) (.lit 0),
    .set 2 (.bin .mul .i64 (.var 2) (.lit 32)),
    .retIf (.lt (.var 2) (.bin .add .i64 (.var 5) (.var 6))) (.lit 0),
    .set 2 (.bin .sub .i64 (.var 2) (.var 6))]
def loop_to_long.after : List GoSem.Stmt := [
    .ret (.neg .i64 (.var 2))]
def loop_to_long.header : List String := ["#1 := 0", "#1 < len(#0)", "#1++"]
def loop_to_long.names : List (String × Nat) := [("s", 0), ("i", 1), ("result", 2), ("findc", 3), ("multmin", 4), ("limit", 5), ("digit", 6)]

def fn_findc : GoSem.Fn :=
  { params := [(0, .i64)], result := .i64, body := [
    .retIf (.and (.le (.lit 48) (.var 0)) (.le (.var 0) (.lit 57))) (.conv .i64 (.bin .sub .i64 (.var 0) (.lit 48))),
    .retIf (.and (.le (.lit 97) (.var 0)) (.le (.var 0) (.lit 122))) (.conv .i64 (.bin .add .i64 (.bin .sub .i64 (.var 0) (.lit 97)) (.lit 10))),
    .retIf (.and (.le (.lit 65) (.var 0)) (.le (.var 0) (.lit 90))) (.conv .i64 (.bin .add .i64 (.bin .sub .i64 (.var 0) (.lit 65)) (.lit 10))),
    .ret (.lit 0)] }

def tree_ToString32 : GoSem.STree :=
  (.ite (.lt (.var 0) (.lit 0)) (.ite (.eq (.var 0) (.lit (-9223372036854775808))) (.ret (.lit "z8000000000000")) (.ret (.cat (.lit "z") (.toStr (.neg .i64 (.var 0)))))) (.ite (.lt (.var 0) (.lit 10)) (.ret (.itoa (.conv .i64 (.var 0)))) (.ret (.cat (.lit "x") (.toStr (.var 0))))))
def tree_ToString32.names : List (String × Nat) := [("num", 0)]

def tree_ToLong32 : GoSem.DTree :=
  (.ite .isEmpty (.ret (.const 0)) (.ite (.firstIs 122) (.ite (.eqLit "z8000000000000") (.ret (.const (-9223372036854775808))) (.ret (.mulToLongTail (-1)))) (.ite (.firstIs 120) (.ret (.mulToLongTail 1)) (.ret (.atoiOr 0)))))

def loop_murmurHash.loopVar : Int := 3
def loop_murmurHash.carried : List Nat := [4]
def loop_murmurHash.regInit : Option Int := none
def loop_murmurHash.pre : List GoSem.Stmt := [
    .set 5 (.lit 1540483477),
    .set 6 (.lit 24),
    .set 4 (.bin .bxor .u32 (.var 2) (.conv .u32 (.var 1))),
    .set 7 (.bin .shr .u32 (.conv .u32 (.var 1)) (.lit 2))]
def loop_murmurHash.init : List GoSem.Stmt := [
    .set 3 (.lit 0)]
def loop_murmurHash.cond : GoSem.Cond := (.lt (.var 3) (.conv .i64 (.var 7)))
def loop_murmurHash.post : List GoSem.Stmt := [
    .set 3 (.bin .add .i64 (.var 3) (.lit 1))]
def loop_murmurHash.body : List GoSem.Stmt := [
    .set 8 (.bin .shl .i64 (.var 3) (.lit 2)),
    .set 9 (.conv .u32 (.idx 0 (.bin .add .i64 (.var 8) (.lit 3)))),
    .set 9 (.bin .shl .u32 (.var 9) (.lit 8)),
    .set 9 (.bin .bor .u32 (.var 9) (.bin .band .u32 (.conv .u32 (.idx 0 (.bin .add .i64 (.var 8) (.lit 2)))) (.lit 255))),
    .set 9 (.bin .shl .u32 (.var 9) (.lit 8)),
    .set 9 (.bin .bor .u32 (.var 9) (.bin .band .u32 (.conv .u32 (.idx 0 (.bin .add .i64 (.var 8) (.lit 1)))) (.lit 255))),
    .set 9 (.bin .shl .u32 (.var 9) (.lit 8)),
    .set 9 (.bin .bor .u32 (.var 9) (.bin .band .u32 (.conv .u32 (.idx 0 (.bin .add .i64 (.var 8) (.lit 0)))) (.lit 255))),
    .set 9 (.bin .mul .u32 (.var 9) (.var 5)),
    .set 9 (.bin .bxor .u32 (.var 9) (.bin .shr .u32 (.var 9) (.var 6))),
    .set 9 (.bin .mul .u32 (.var 9) (.var 5)),
    .set 4 (.bin .mul .u32 (.var 4) (.var 5)),
    .set 4 (.bin .bxor .u32 (.var 4) (.var 9))]
def loop_murmurHash.after : List GoSem.Stmt := [
    .set 10 (.bin .shl .u32 (.var 7) (.lit 2)),
    .set 11 (.bin .sub .u32 (.conv .u32 (.var 1)) (.var 10)),
    .setIf (.and (.ne (.var 11) (.lit 0)) (.le (.lit 3) (.var 11))) 4 (.bin .bxor .u32 (.var 4) (.bin .shl .u32 (.conv .u32 (.idx 0 (.bin .sub .i32 (.var 1) (.lit 3)))) (.lit 16))),
    .setIf (.and (.ne (.var 11) (.lit 0)) (.le (.lit 2) (.var 11))) 4 (.bin .bxor .u32 (.var 4) (.bin .shl .u32 (.conv .u32 (.idx 0 (.bin .sub .i32 (.var 1) (.lit 2)))) (.lit 8))),
    .setIf (.and (.ne (.var 11) (.lit 0)) (.le (.lit 1) (.var 11))) 4 (.bin .bxor .u32 (.var 4) (.conv .u32 (.idx 0 (.bin .sub .i32 (.var 1) (.lit 1))))),
    .setIf (.ne (.var 11) (.lit 0)) 4 (.bin .mul .u32 (.var 4) (.var 5)),
    .set 4 (.bin .bxor .u32 (.var 4) (.bin .shr .u32 (.var 4) (.lit 13))),
    .set 4 (.bin .mul .u32 (.var 4) (.var 5)),
    .set 4 (.bin .bxor .u32 (.var 4) (.bin .shr .u32 (.var 4) (.lit 15))),
    .ret (.var 4)]
def loop_murmurHash.header : List String := ["#3 := 0", "#3 < int(#7)", "#3++"]
def loop_murmurHash.names : List (String × Nat) := [("data", 0), ("length", 1), ("seed", 2), ("i", 3), ("h", 4), ("m", 5), ("r", 6), ("len_4", 7), ("i_4", 8), ("k", 9), ("len_m", 10), ("left", 11)]

def loop_murmurHashLong.loopVar : Int := 3
def loop_murmurHashLong.carried : List Nat := [4]
def loop_murmurHashLong.regInit : Option Int := none
def loop_murmurHashLong.pre : List GoSem.Stmt := [
    .set 5 (.lit 14313749767032793493),
    .set 6 (.lit 47),
    .set 4 (.bin .bxor .u64 (.conv .u64 (.bin .band .u32 (.var 2) (.lit 4294967295))) (.bin .mul .u64 (.conv .u64 (.var 1)) (.var 5))),
    .set 7 (.bin .quo .i32 (.var 1) (.lit 8))]
def loop_murmurHashLong.init : List GoSem.Stmt := [
    .set 3 (.lit 0)]
def loop_murmurHashLong.cond : GoSem.Cond := (.lt (.var 3) (.conv .i64 (.var 7)))
def loop_murmurHashLong.post : List GoSem.Stmt := [
    .set 3 (.bin .add .i64 (.var 3) (.lit 1))]
def loop_murmurHashLong.body : List GoSem.Stmt := [
    .set 8 (.bin .mul .i64 (.var 3) (.lit 8)),
    .set 9 (.bin .add .u64 (.bin .add .u64 (.bin .add .u64 (.bin .add .u64 (.bin .add .u64 (.bin .add .u64 (.bin .add .u64 (.bin .band .u64 (.conv .u64 (.idx 0 (.bin .add .i64 (.var 8) (.lit 0)))) (.lit 255)) (.bin .shl .u64 (.bin .band .u64 (.conv .u64 (.idx 0 (.bin .add .i64 (.var 8) (.lit 1)))) (.lit 255)) (.lit 8))) (.bin .shl .u64 (.bin .band .u64 (.conv .u64 (.idx 0 (.bin .add .i64 (.var 8) (.lit 2)))) (.lit 255)) (.lit 16))) (.bin .shl .u64 (.bin .band .u64 (.conv .u64 (.idx 0 (.bin .add .i64 (.var 8) (.lit 3)))) (.lit 255)) (.lit 24))) (.bin .shl .u64 (.bin .band .u64 (.conv .u64 (.idx 0 (.bin .add .i64 (.var 8) (.lit 4)))) (.lit 255)) (.lit 32))) (.bin .shl .u64 (.bin .band .u64 (.conv .u64 (.idx 0 (.bin .add .i64 (.var 8) (.lit 5)))) (.lit 255)) (.lit 40))) (.bin .shl .u64 (.bin .band .u64 (.conv .u64 (.idx 0 (.bin .add .i64 (.var 8) (.lit 6)))) (.lit 255)) (.lit 48))) (.bin .shl .u64 (.bin .band .u64 (.conv .u64 (.idx 0 (.bin .add .i64 (.var 8) (.lit 7)))) (.lit 255)) (.lit 56))),
    .set 9 (.bin .mul .u64 (.var 9) (.var 5)),
    .set 9 (.bin .bxor .u64 (.var 9) (.bin .shr .u64 (.var 9) (.var 6))),
    .set 9 (.bin .mul .u64 (.var 9) (.var 5)),
    .set 4 (.bin .bxor .u64 (.var 4) (.var 9)),
    .set 4 (.bin .mul .u64 (.var 4) (.var 5))]
def loop_murmurHashLong.after : List GoSem.Stmt := [
    .setIf (.oneOf (.bin .rem .i32 (.var 1) (.lit 8)) [7]) 4 (.bin .bxor .u64 (.var 4) (.bin .shl .u64 (.bin .band .u64 (.conv .u64 (.idx 0 (.bin .add .i32 (.bin .band .i32 (.var 1) (.lit (-8))) (.lit 6)))) (.lit 255)) (.lit 48))),
    .setIf (.oneOf (.bin .rem .i32 (.var 1) (.lit 8)) [7, 6]) 4 (.bin .bxor .u64 (.var 4) (.bin .shl .u64 (.conv .u64 (.bin .band .u8 (.idx 0 (.bin .add .i32 (.bin .band .i32 (.var 1) (.lit (-8))) (.lit 5))) (.lit 255))) (.lit 40))),
    .setIf (.oneOf (.bin .rem .i32 (.var 1) (.lit 8)) [7, 6, 5]) 4 (.bin .bxor .u64 (.var 4) (.bin .shl .u64 (.conv .u64 (.bin .band .u8 (.idx 0 (.bin .add .i32 (.bin .band .i32 (.var 1) (.lit (-8))) (.lit 4))) (.lit 255))) (.lit 32))),
    .setIf (.oneOf (.bin .rem .i32 (.var 1) (.lit 8)) [7, 6, 5, 4]) 4 (.bin .bxor .u64 (.var 4) (.bin .shl .u64 (.conv .u64 (.bin .band .u8 (.idx 0 (.bin .add .i32 (.bin .band .i32 (.var 1) (.lit (-8))) (.lit 3))) (.lit 255))) (.lit 24))),
    .setIf (.oneOf (.bin .rem .i32 (.var 1) (.lit 8)) [7, 6, 5, 4, 3]) 4 (.bin .bxor .u64 (.var 4) (.bin .shl .u64 (.conv .u64 (.bin .band .u8 (.idx 0 (.bin .add .i32 (.bin .band .i32 (.var 1) (.lit (-8))) (.lit 2))) (.lit 255))) (.lit 16))),
    .setIf (.oneOf (.bin .rem .i32 (.var 1) (.lit 8)) [7, 6, 5, 4, 3, 2]) 4 (.bin .bxor .u64 (.var 4) (.bin .shl .u64 (.conv .u64 (.bin .band .u8 (.idx 0 (.bin .add .i32 (.bin .band .i32 (.var 1) (.lit (-8))) (.lit 1))) (.lit 255))) (.lit 8))),
    .setIf (.oneOf (.bin .rem .i32 (.var 1) (.lit 8)) [7, 6, 5, 4, 3, 2, 1]) 4 (.bin .bxor .u64 (.var 4) (.conv .u64 (.bin .band .u8 (.idx 0 (.bin .band .i32 (.var 1) (.lit (-8)))) (.lit 255)))),
    .setIf (.oneOf (.bin .rem .i32 (.var 1) (.lit 8)) [7, 6, 5, 4, 3, 2, 1]) 4 (.bin .mul .u64 (.var 4) (.var 5)),
    .set 4 (.bin .bxor .u64 (.var 4) (.bin .shr .u64 (.var 4) (.var 6))),
    .set 4 (.bin .mul .u64 (.var 4) (.var 5)),
    .set 4 (.bin .bxor .u64 (.var 4) (.bin .shr .u64 (.var 4) (.var 6))),
    .ret (.var 4)]
def loop_murmurHashLong.header : List String := ["#3 := 0", "#3 < int(#7)", "#3++"]
def loop_murmurHashLong.names : List (String × Nat) := [("data", 0), ("length", 1), ("seed", 2), ("i", 3), ("h", 4), ("m", 5), ("r", 6), ("length8", 7), ("i8", 8), ("k", 9)]

def fn_MurmurHashLong : GoSem.Fn :=
  { params := [(0, .u64)], result := .u32, body := [
    .set 1 (.lit 1540483477),
    .set 2 (.lit 24),
    .set 3 (.lit 0),
    .set 4 (.conv .u32 (.bin .mul .u64 (.var 0) (.conv .u64 (.var 1)))),
    .set 4 (.bin .bxor .u32 (.var 4) (.bin .shr .u32 (.var 4) (.var 2))),
    .set 3 (.bin .bxor .u32 (.var 3) (.bin .mul .u32 (.var 4) (.var 1))),
    .set 4 (.conv .u32 (.bin .mul .u64 (.bin .shr .u64 (.var 0) (.lit 32)) (.conv .u64 (.var 1)))),
    .set 4 (.bin .bxor .u32 (.var 4) (.bin .shr .u32 (.var 4) (.var 2))),
    .set 3 (.bin .mul .u32 (.var 3) (.var 1)),
    .set 3 (.bin .bxor .u32 (.var 3) (.bin .mul .u32 (.var 4) (.var 1))),
    .set 3 (.bin .bxor .u32 (.var 3) (.bin .shr .u32 (.var 3) (.lit 13))),
    .set 3 (.bin .mul .u32 (.var 3) (.var 1)),
    .set 3 (.bin .bxor .u32 (.var 3) (.bin .shr .u32 (.var 3) (.lit 15))),
    .ret (.var 3)] }
def fn_MurmurHashLong.names : List (String × Nat) := [("data", 0), ("m", 1), ("r", 2), ("h", 3), ("k", 4)]

def murmur_MurmurHashByte_seed : Option Nat := some 3782874213
def murmur_MurmurHashLongByte_seed : Option Nat := some 3782874213

def fn_Composite64 : GoSem.Fn :=
  { params := [(0, .i32), (1, .i32)], result := .i64, body := [
    .ret (.bin .bor .i64 (.bin .shl .i64 (.conv .i64 (.var 0)) (.lit 32)) (.bin .band .i64 (.conv .i64 (.var 1)) (.lit 4294967295)))] }
def fn_Composite64.names : List (String × Nat) := [("hkey", 0), ("wkey", 1)]

def fn_Composite32 : GoSem.Fn :=
  { params := [(0, .i16), (1, .i16)], result := .i32, body := [
    .ret (.bin .bor .i32 (.bin .shl .i32 (.conv .i32 (.var 0)) (.lit 16)) (.bin .band .i32 (.conv .i32 (.var 1)) (.lit 65535)))] }
def fn_Composite32.names : List (String × Nat) := [("hkey", 0), ("wkey", 1)]

def fn_Composite16 : GoSem.Fn :=
  { params := [(0, .u8), (1, .u8)], result := .i16, body := [
    .ret (.bin .bor .i16 (.bin .shl .i16 (.conv .i16 (.var 0)) (.lit 8)) (.bin .band .i16 (.conv .i16 (.var 1)) (.lit 255)))] }
def fn_Composite16.names : List (String × Nat) := [("hkey", 0), ("wkey", 1)]

def fn_SetHigh64 : GoSem.Fn :=
  { params := [(0, .i64), (1, .i32)], result := .i64, body := [
    .ret (.bin .bor .i64 (.bin .band .i64 (.var 0) (.lit 4294967295)) (.bin .shl .i64 (.conv .i64 (.var 1)) (.lit 32)))] }
def fn_SetHigh64.names : List (String × Nat) := [("src", 0), ("hkey", 1)]

def fn_SetLow64 : GoSem.Fn :=
  { params := [(0, .i64), (1, .i32)], result := .i64, body := [
    .set 2 (.lit 18446744069414584320),
    .ret (.bin .bor .i64 (.bin .band .i64 (.var 0) (.conv .i64 (.var 2))) (.bin .band .i64 (.conv .i64 (.var 1)) (.lit 4294967295)))] }
def fn_SetLow64.names : List (String × Nat) := [("src", 0), ("wkey", 1), ("x", 2)]

def fn_GetHigh64 : GoSem.Fn :=
  { params := [(0, .i64)], result := .i32, body := [
    .set 1 (.lit 4294967295),
    .ret (.bin .band .i32 (.conv .i32 (.bin .shr .i64 (.var 0) (.lit 32))) (.conv .i32 (.var 1)))] }
def fn_GetHigh64.names : List (String × Nat) := [("key", 0), ("x", 1)]

def fn_GetLow64 : GoSem.Fn :=
  { params := [(0, .i64)], result := .i32, body := [
    .set 1 (.lit 4294967295),
    .ret (.bin .band .i32 (.conv .i32 (.var 0)) (.conv .i32 (.var 1)))] }
def fn_GetLow64.names : List (String × Nat) := [("key", 0), ("x", 1)]

def fn_GetHigh32 : GoSem.Fn :=
  { params := [(0, .i32)], result := .i16, body := [
    .set 1 (.lit 65535),
    .ret (.bin .band .i16 (.conv .i16 (.bin .shr .i32 (.var 0) (.lit 16))) (.conv .i16 (.var 1)))] }
def fn_GetHigh32.names : List (String × Nat) := [("key", 0), ("x", 1)]

def fn_GetLow32 : GoSem.Fn :=
  { params := [(0, .i32)], result := .i16, body := [
    .ret (.conv .i16 (.bin .band .i32 (.var 0) (.lit 65535)))] }
def fn_GetLow32.names : List (String × Nat) := [("key", 0)]

def fn_GetHigh16 : GoSem.Fn :=
  { params := [(0, .i16)], result := .u8, body := [
    .ret (.conv .u8 (.bin .band .i16 (.bin .shr .i16 (.var 0) (.lit 8)) (.lit 255)))] }
def fn_GetHigh16.names : List (String × Nat) := [("key", 0)]

def fn_GetLow16 : GoSem.Fn :=
  { params := [(0, .i16)], result := .u8, body := [
    .ret (.conv .u8 (.bin .band .i16 (.var 0) (.lit 255)))] }
def fn_GetLow16.names : List (String × Nat) := [("key", 0)]

def ipToString_pieces : List GoSem.IpPiece := [.octet 0, .text ".", .octet 1, .text ".", .octet 2, .text ".", .octet 3]
def ipToString_empty : String := "0.0.0.0"
def ipToBytes_sep : String := "."
def ipToBytes_count : Int := 4
def ipToBytes_bound : Int := 4
def ipToBytes_mask : Int := 255
def ipToBytes_default : List Nat := [0, 0, 0, 0]

end GoModel
