/-
  Golib.Hash.StrShape — semantics of the string-level decision trees that tie A extracts from the top
  level of hexa32.ToString32 / ToLong32, and the bridge to the CodeModel `Hexa32.toString32` /
  `Hexa32.toLong32` for ALL inputs.  The callees `to_str` / `to_long` are parameters (`toStrF`, `toLongF`):
  Props.C15Gen instantiates them with the Go-interpreted functions, for which `toStr_tied` / `toLong_tied` hold.
-/
import Golib.Hash.GoSemProofs
import Golib.Hash.GoModel
import Golib.Hash.Hexa32Proofs

set_option linter.unusedVariables false

namespace StrShape
open GoSem Hexa32 Strconv

/-- `strconv.Itoa` of an `int` -/
def itoaInt (v : Int) : List Char := if v < 0 then '-' :: itoaNat (-v).toNat else itoaNat v.toNat

def evalS (toStrF : Int → List Char) (ρ : Env) (A : Arrays) : SExpr → List Char
  | .lit s => s.toList
  | .cat a b => evalS toStrF ρ A a ++ evalS toStrF ρ A b
  | .toStr e => toStrF (eval ρ A e)
  | .itoa e => itoaInt (eval ρ A e)
  | .unknown _ => []

def evalT (toStrF : Int → List Char) (ρ : Env) (A : Arrays) : STree → List Char
  | .ret s => evalS toStrF ρ A s
  | .ite c t e => bif evalC ρ A c then evalT toStrF ρ A t else evalT toStrF ρ A e
  | .unknown _ => []

/-- `str == ""`, `str[0] == c` (bytes; the text is not empty where it is asked), `str == "lit"` -/
def evalDC (s : List Char) : DCond → Bool
  | .isEmpty => s.isEmpty
  | .firstIs c => match s with | [] => false | x :: _ => decide ((x.toNat : Int) = c)
  | .eqLit t => decide (s = t.toList)
  | .unknown _ => false

def evalDR (toLongF : List Char → Int) (s : List Char) : DRet → Int
  | .const v => v
  | .mulToLongTail k => norm .i64 (k * toLongF s.tail)
  | .atoiOr d => match atoi s with | some i => i | none => d
  | .unknown _ => 0

def evalD (toLongF : List Char → Int) (s : List Char) : DTree → Int
  | .ret r => evalDR toLongF s r
  | .ite c t e => bif evalDC s c then evalD toLongF s t else evalD toLongF s e
  | .unknown _ => 0

/-- **`ToString32` as transcribed = `Hexa32.toString32`** on all of int64, for any `to_str` that agrees
    with `Hexa32.toStr` on `[0, MaxInt64]` -/
theorem toString32_bridge (toStrF : Int → List Char)
    (hF : ∀ v, 0 ≤ v → v ≤ maxInt64 → toStrF v = toStr v)
    (A : Arrays) (ρ : Env) (n : Int) (h0 : ρ 0 = n) (hlo : minInt64 ≤ n) (hhi : n ≤ maxInt64) :
    evalT toStrF ρ A GoModel.tree_ToString32 = toString32 n := by
  unfold minInt64 maxInt64 at *
  have nn : norm .i64 n = n := by simp only [norm, Ty.half, Ty.modulus]; omega
  unfold toString32
  simp only [GoModel.tree_ToString32, evalT, evalS, evalC, eval, h0, nn]
  by_cases hneg : n < 0
  · rw [(ltb_iff _ _).mpr hneg, cond_true]
    simp only [hneg, if_true]
    by_cases hmin : n = minInt64
    · unfold minInt64 at hmin
      rw [(eqb_iff _ _).mpr hmin, cond_true]
      simp [minInt64, hmin]
    · unfold minInt64 at hmin
      rw [(eqb_false _ _).mpr hmin, cond_false]
      have e : norm .i64 (-n) = -n := by simp only [norm, Ty.half, Ty.modulus]; omega
      simp only [minInt64, hmin, if_false, e]
      rw [hF (-n) (by omega) (by omega)]
      rfl
  · rw [(ltb_false _ _).mpr hneg, cond_false]
    simp only [hneg, if_false]
    by_cases h10 : n < 10
    · rw [(ltb_iff _ _).mpr h10, cond_true]
      simp only [h10, if_true, itoaInt, hneg, if_false]
    · rw [(ltb_false _ _).mpr h10, cond_false]
      simp only [h10, if_false]
      rw [hF n (by omega) hhi]
      rfl

theorem char_z (c : Char) : decide ((c.toNat : Int) = 122) = decide (c = 'z') := by
  by_cases h : c = 'z'
  · subst h; rfl
  · have : ¬ ((c.toNat : Int) = 122) := by
      intro h'
      have h2 : c.toNat = 122 := by omega
      have := Char.ofNat_toNat c
      rw [h2] at this
      exact h this.symm
    simp [h, this]

theorem char_x (c : Char) : decide ((c.toNat : Int) = 120) = decide (c = 'x') := by
  by_cases h : c = 'x'
  · subst h; rfl
  · have : ¬ ((c.toNat : Int) = 120) := by
      intro h'
      have h2 : c.toNat = 120 := by omega
      have := Char.ofNat_toNat c
      rw [h2] at this
      exact h this.symm
    simp [h, this]

/-- **`ToLong32` as transcribed = `Hexa32.toLong32`** on every text, for any `to_long` equal to `Hexa32.toLong` -/
theorem toLong32_bridge (toLongF : List Char → Int) (hF : ∀ t, toLongF t = toLong t) (s : List Char) :
    evalD toLongF s GoModel.tree_ToLong32 = toLong32 s := by
  unfold toLong32
  cases s with
  | nil => rfl
  | cons c rest =>
    simp only [GoModel.tree_ToLong32, evalD, evalDC, evalDR, List.isEmpty_cons, cond_false, List.tail_cons, hF]
    have ez := char_z c
    have ex := char_x c
    rw [ez, ex]
    have ⟨r0, r1⟩ := toLong_range rest
    unfold maxInt64 at r1
    by_cases hz : c = 'z'
    · simp only [hz, decide_true, cond_true, if_true]
      by_cases hm : ('z' :: rest) = "z8000000000000".toList
      · simp only [hm, decide_true, cond_true, if_true]; rfl
      · simp only [hm, decide_false, cond_false, if_false]
        simp only [norm, Ty.half, Ty.modulus]; omega
    · simp only [hz, decide_false, cond_false, if_false]
      by_cases hx : c = 'x'
      · simp only [hx, decide_true, cond_true, if_true]
        simp only [norm, Ty.half, Ty.modulus]; omega
      · simp only [hx, decide_false, cond_false, if_false]
        rfl

end StrShape
