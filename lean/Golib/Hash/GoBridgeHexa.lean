/-
  Golib.Hash.GoBridgeHexa — bridge theorems, part 3: util/hexa32.
  `findc`, the whole of `to_long` (prelude, guarded loop body, final negation) and the pieces of the
  digit loop of `to_str` (condition, stored digit, post statement, last digit), for all int64 values.
-/
import Golib.Hash.GoBridge
import Golib.Hash.Hexa32Proofs

set_option linter.unusedVariables false
set_option linter.unusedSimpArgs false

namespace GoBridge
open GoSem Hexa32

theorem char_toNat_lt (c : Char) : c.toNat < 1114112 := by
  have := c.valid
  unfold Char.toNat
  rcases this with h | ⟨_, h⟩ <;> omega

/-- the closure `findc` of `to_long` -/
theorem findc_bridge (c : Char) : call noArr GoModel.fn_findc [(c.toNat : Int)] = findc c := by
  have hc := char_toNat_lt c
  simp only [call, GoModel.fn_findc, bindArgs, runRet, eval, evalC, upd]
  simp only [if_true, evalOp, norm, Ty.half, Ty.modulus]
  unfold findc
  simp only []
  generalize c.toNat = x at hc
  have e : ((x : Int) + 9223372036854775808) % 18446744073709551616 - 9223372036854775808 = (x : Int) := by omega
  simp only [e]
  by_cases h1 : 48 ≤ x ∧ x ≤ 57
  · have a1 : leb 48 (x : Int) = true := (leb_iff _ _).mpr (by omega)
    have a2 : leb (x : Int) 57 = true := (leb_iff _ _).mpr (by omega)
    simp only [h1, a1, a2, Bool.and_self, cond_true, and_self, if_true, retVal]; omega
  · have n1 : (leb 48 (x : Int) && leb (x : Int) 57) = false := by
      cases h : leb 48 (x : Int) <;> cases h' : leb (x : Int) 57 <;> simp
      have := (leb_iff _ _).mp h; have := (leb_iff _ _).mp h'; omega
    simp only [h1, n1, if_false, cond_false]
    by_cases h2 : 97 ≤ x ∧ x ≤ 122
    · have a1 : leb 97 (x : Int) = true := (leb_iff _ _).mpr (by omega)
      have a2 : leb (x : Int) 122 = true := (leb_iff _ _).mpr (by omega)
      simp only [h2, a1, a2, Bool.and_self, cond_true, and_self, if_true, retVal]; omega
    · have n2 : (leb 97 (x : Int) && leb (x : Int) 122) = false := by
        cases h : leb 97 (x : Int) <;> cases h' : leb (x : Int) 122 <;> simp
        have := (leb_iff _ _).mp h; have := (leb_iff _ _).mp h'; omega
      simp only [h2, n2, if_false, cond_false]
      by_cases h3 : 65 ≤ x ∧ x ≤ 90
      · have a1 : leb 65 (x : Int) = true := (leb_iff _ _).mpr (by omega)
        have a2 : leb (x : Int) 90 = true := (leb_iff _ _).mpr (by omega)
        simp only [h3, a1, a2, Bool.and_self, cond_true, and_self, if_true, retVal]; omega
      · have n3 : (leb 65 (x : Int) && leb (x : Int) 90) = false := by
          cases h : leb 65 (x : Int) <;> cases h' : leb (x : Int) 90 <;> simp
          have := (leb_iff _ _).mp h; have := (leb_iff _ _).mp h'; omega
        simp only [h3, n3, if_false, cond_false, retVal]

/-! ### `to_long` -/

/-- how the pieces of `to_long` are put together: per character, `digit := findc(int(s[i]))`, then the
    loop body (which may return), finally the after-loop block.  Identifier numbers: result 2,
    multmin 4, limit 5, digit 6. -/
def goToLong (A : Arrays) (fc : Fn) (body after : List Stmt) : Env → List Char → Int
  | ρ, [] => retVal (runRet A ρ after)
  | ρ, c :: cs =>
    let ρ1 := upd ρ 6 (call A fc [(c.toNat : Int)])
    match runRet A ρ1 body with
    | some v => v
    | none => goToLong A fc body after (runEnv A ρ1 body) cs

theorem toLong_pre_bridge (A : Arrays) (ρ : Env) :
    runEnv A ρ GoModel.loop_to_long.pre 2 = 0 ∧ runEnv A ρ GoModel.loop_to_long.pre 5 = limit
    ∧ runEnv A ρ GoModel.loop_to_long.pre 4 = multmin := by
  simp only [GoModel.loop_to_long.pre, runEnv, eval, upd, evalOp, norm, Ty.half, Ty.modulus, limit, multmin]
  simp only [if_true, Nat.reduceEqDiff, if_false]
  decide

theorem toLong_body_bridge (A : Arrays) (ρ : Env) (r d : Int) (h2 : ρ 2 = r) (h3 : ρ 5 = limit) (h4 : ρ 4 = multmin)
    (h5 : ρ 6 = d) (hr : limit ≤ r ∧ r ≤ 0) (hd : 0 ≤ d ∧ d ≤ 35) :
    (runRet A ρ GoModel.loop_to_long.body
        = if r < multmin then some 0 else if r * 32 < limit + d then some 0 else none)
    ∧ (¬ r < multmin → ¬ r * 32 < limit + d →
        runEnv A ρ GoModel.loop_to_long.body 2 = r * 32 - d ∧ runEnv A ρ GoModel.loop_to_long.body 5 = limit
        ∧ runEnv A ρ GoModel.loop_to_long.body 4 = multmin) := by
  subst h2 h5
  unfold limit multmin at *
  have e2 : (-9223372036854775807 + ρ 6 + 9223372036854775808) % 18446744073709551616 - 9223372036854775808
      = -9223372036854775807 + ρ 6 := by omega
  constructor
  · simp only [GoModel.loop_to_long.body, runRet, eval, evalC, upd, h3, h4, evalOp, norm, Ty.half,
      Ty.modulus, if_true, Nat.reduceEqDiff, if_false, e2]
    by_cases g1 : ρ 2 < -288230376151711743
    · simp only [g1, if_true, (ltb_iff _ _).mpr g1, cond_true]
    · have e1 : (ρ 2 * 32 + 9223372036854775808) % 18446744073709551616 - 9223372036854775808 = ρ 2 * 32 := by omega
      simp only [g1, if_false, (ltb_false _ _).mpr g1, cond_false, e1]
      by_cases g2 : ρ 2 * 32 < -9223372036854775807 + ρ 6
      · simp only [g2, if_true, (ltb_iff _ _).mpr g2, cond_true]
      · simp only [g2, if_false, (ltb_false _ _).mpr g2, cond_false]
  · intro g1 g2
    have e1 : (ρ 2 * 32 + 9223372036854775808) % 18446744073709551616 - 9223372036854775808 = ρ 2 * 32 := by omega
    simp only [GoModel.loop_to_long.body, runEnv, eval, evalC, evalOp, norm, Ty.half, Ty.modulus]
    have c1 : ltb (ρ 2) (ρ 4) = false := by rw [h4]; exact (ltb_false _ _).mpr g1
    simp only [c1, cond_false, upd, if_true, Nat.reduceEqDiff, if_false, e1, h3, e2, (ltb_false _ _).mpr g2]
    refine ⟨?_, trivial, h4⟩
    omega

/-- **the whole of `to_long` as transcribed = `Hexa32.toLong`**, for every text; `pre`, `body`, `after`,
    `fc` any blocks with the normal forms of the model's -/
theorem toLong_fn_bridge (fc : Fn) (pre body after : List Stmt)
    (hfc : fc.params = GoModel.fn_findc.params ∧ normStmts fc.body = normStmts GoModel.fn_findc.body)
    (hpre : sameVars [2, 5, 4] pre GoModel.loop_to_long.pre = true)
    (hbody : normStmts body = normStmts GoModel.loop_to_long.body)
    (hafter : normStmts after = normStmts GoModel.loop_to_long.after)
    (A : Arrays) (ρ : Env) (cs : List Char) :
    goToLong noArr fc body after (runEnv noArr ρ pre) cs = toLong cs := by
  have hcall : ∀ c : Char, call noArr fc [(c.toNat : Int)] = findc c := by
    intro c
    rw [← findc_bridge c]
    unfold call
    rw [hfc.1, (normStmts_eq hfc.2 noArr _).2]
  have key : ∀ (cs : List Char) (ρ : Env) (r : Int), ρ 2 = r → ρ 5 = limit → ρ 4 = multmin → limit ≤ r ∧ r ≤ 0 →
      goToLong noArr fc body after ρ cs = toLongLoop r cs := by
    intro cs
    induction cs with
    | nil =>
      intro ρ r h2 h3 h4 hr
      simp only [goToLong, toLongLoop]
      rw [(normStmts_eq hafter noArr ρ).2]
      simp only [GoModel.loop_to_long.after, runRet, eval, h2, retVal, norm, Ty.half, Ty.modulus]
      unfold limit at hr; omega
    | cons c cs ih =>
      intro ρ r h2 h3 h4 hr
      have hd := findc_nonneg c
      simp only [goToLong, hcall]
      have ρ1p : ∀ k, k ≠ 6 → upd ρ 6 (findc c) k = ρ k := by intro k hk; simp [upd, hk]
      have ⟨b1, b2⟩ := toLong_body_bridge noArr (upd ρ 6 (findc c)) r (findc c) (by rw [ρ1p 2 (by decide)]; exact h2)
        (by rw [ρ1p 5 (by decide)]; exact h3) (by rw [ρ1p 4 (by decide)]; exact h4) (by simp [upd]) hr hd
      rw [(normStmts_eq hbody noArr _).2, b1, (normStmts_eq hbody noArr _).1]
      rw [toLongLoop]
      simp only []
      by_cases g1 : r < multmin
      · simp only [g1, if_true]
      · simp only [g1, if_false]
        by_cases g2 : r * 32 < limit + findc c
        · simp only [g2, if_true]
        · simp only [g2, if_false]
          have ⟨c2, c3, c4⟩ := b2 g1 g2
          exact ih _ _ c2 c3 c4 (by unfold limit multmin at *; omega)
  have ⟨p2, p3, p4⟩ := toLong_pre_bridge noArr ρ
  unfold toLong
  exact key cs _ 0 (by rw [sameVars_eq hpre noArr ρ 2 (by simp)]; exact p2)
    (by rw [sameVars_eq hpre noArr ρ 5 (by simp)]; exact p3)
    (by rw [sameVars_eq hpre noArr ρ 4 (by simp)]; exact p4) (by unfold limit; omega)

/-! ### `to_str` -/

def digitsInts : List Int := Hexa32.digits.map (fun c => (c.toNat : Int))

/-- arrays of `to_str`: the package-level `digits` (number 1001) -/
def hexaArrs : Arrays := fun n => if n = 1001 then digitsInts else []

theorem digit_lookup : ∀ k : Fin 36, Char.ofNat (digitsInts.getD k.val 0).toNat = digitAt (k.val : Int) := by
  decide +kernel

theorem digit_lookup' (k : Int) (h0 : 0 ≤ k) (h1 : k < 36) : Char.ofNat (digitsInts.getD k.toNat 0).toNat = digitAt k := by
  have := digit_lookup ⟨k.toNat, by omega⟩
  have e : ((k.toNat : Nat) : Int) = k := by omega
  simp only [e] at this
  exact this

/-- how the pieces of `to_str` are put together (identifiers: i 0, charPos 1, radix 3, the byte just stored 4):
    while the condition holds, run the body (which stores a digit), cons that digit, run the post statement;
    then run the after-loop block and cons its digit.  `fuel` bounds the number of iterations. -/
def goToStrLoop (A : Arrays) (cond : Cond) (body post after : List Stmt) : Nat → Env → List Char → List Char
  | 0, _, acc => acc
  | n + 1, ρ, acc =>
    bif evalC ρ A cond then
      let ρ1 := runEnv A ρ body
      goToStrLoop A cond body post after n (runEnv A ρ1 post) (Char.ofNat (ρ1 4).toNat :: acc)
    else Char.ofNat ((runEnv A ρ after) 4).toNat :: acc

theorem toStr_cond_bridge (ρ : Env) (i : Int) (h0 : ρ 0 = i) (h2 : ρ 3 = 32) :
    evalC ρ hexaArrs GoModel.loop_to_str.cond = leb i (-32) := by
  simp only [GoModel.loop_to_str.cond, evalC, eval, h0, h2, norm, Ty.half, Ty.modulus]
  rfl

theorem toStr_body_bridge (ρ : Env) (i : Int) (h0 : ρ 0 = i) (h2 : ρ 3 = 32) (hi : i ≤ 0) (hlo : minInt64 < i) :
    runEnv hexaArrs ρ GoModel.loop_to_str.body 4 = digitsInts.getD (-(i.tmod 32)).toNat 0
    ∧ runEnv hexaArrs ρ GoModel.loop_to_str.body 0 = i ∧ runEnv hexaArrs ρ GoModel.loop_to_str.body 3 = 32 := by
  have hm := tmod_nonpos i hi
  unfold minInt64 at hlo
  simp only [GoModel.loop_to_str.body, runEnv, eval, upd, h0, h2, evalOp, norm, Ty.half, Ty.modulus, hexaArrs,
    if_true, Nat.reduceEqDiff, if_false]
  refine ⟨?_, trivial, trivial⟩
  rw [hm]
  apply congrArg (fun k => digitsInts.getD k 0)
  omega

theorem toStr_post_bridge (ρ : Env) (i : Int) (h0 : ρ 0 = i) (h2 : ρ 3 = 32) (hi : i ≤ 0) (hlo : minInt64 < i) :
    runEnv hexaArrs ρ GoModel.loop_to_str.post 0 = i.tdiv 32 ∧ runEnv hexaArrs ρ GoModel.loop_to_str.post 3 = 32 := by
  have hd := tdiv_nonpos i hi
  unfold minInt64 at hlo
  simp only [GoModel.loop_to_str.post, runEnv, eval, upd, h0, h2, evalOp, norm, Ty.half, Ty.modulus,
    if_true, Nat.reduceEqDiff, if_false]
  refine ⟨?_, trivial⟩
  rw [hd]; omega

theorem toStr_after_bridge (ρ : Env) (i : Int) (h0 : ρ 0 = i) (hi : i ≤ 0) (hlo : minInt64 < i) :
    runEnv hexaArrs ρ GoModel.loop_to_str.after 4 = digitsInts.getD (-i).toNat 0 := by
  unfold minInt64 at hlo
  simp only [GoModel.loop_to_str.after, runEnv, eval, upd, h0, norm, Ty.half, Ty.modulus, hexaArrs,
    if_true, Nat.reduceEqDiff, if_false]
  apply congrArg (fun k => digitsInts.getD k 0)
  omega

/-- **the digit loop of `to_str` as transcribed = `Hexa32.toStrLoop`**, for every `i ≤ 0` above MinInt64 -/
theorem toStr_loop_bridge (cond : Cond) (body post after : List Stmt)
    (hcond : normC cond = normC GoModel.loop_to_str.cond)
    (hbody : sameVars [4, 0, 3] body GoModel.loop_to_str.body = true)
    (hpost : sameVars [0, 3] post GoModel.loop_to_str.post = true)
    (hafter : sameVars [4] after GoModel.loop_to_str.after = true) :
    ∀ (n : Nat) (i : Int) (ρ : Env) (acc : List Char), i.natAbs ≤ n → i ≤ 0 → minInt64 < i → ρ 0 = i → ρ 3 = 32 →
      goToStrLoop hexaArrs cond body post after (n + 1) ρ acc = toStrLoop i acc := by
  have hC : ∀ ρ, evalC ρ hexaArrs cond = evalC ρ hexaArrs GoModel.loop_to_str.cond := by
    intro ρ; rw [← normC_sound, hcond, normC_sound]
  intro n
  induction n with
  | zero =>
    intro i ρ acc hn hi hlo h0 h2
    have : i = 0 := by omega
    subst this
    rw [goToStrLoop, hC, toStr_cond_bridge ρ 0 h0 h2]
    have : leb 0 (-32) = false := by decide
    rw [this, cond_false, sameVars_eq hafter hexaArrs ρ 4 (by simp), toStr_after_bridge ρ 0 h0 (by omega) hlo, toStrLoop]
    simp only [show ¬ ((0 : Int) ≤ -32) by decide, dite_false]
    rw [digit_lookup' _ (by omega) (by omega)]
  | succ n ih =>
    intro i ρ acc hn hi hlo h0 h2
    rw [goToStrLoop, hC, toStr_cond_bridge ρ i h0 h2, toStrLoop]
    by_cases h : i ≤ -32
    · rw [(leb_iff _ _).mpr h, cond_true]
      simp only [h, dite_true]
      have ⟨b3, b0, b2⟩ := toStr_body_bridge ρ i h0 h2 hi hlo
      have c3 := sameVars_eq hbody hexaArrs ρ 4 (by simp)
      have c0 := sameVars_eq hbody hexaArrs ρ 0 (by simp)
      have c2 := sameVars_eq hbody hexaArrs ρ 3 (by simp)
      have ⟨p0, p2⟩ := toStr_post_bridge (runEnv hexaArrs ρ body) i (by rw [c0]; exact b0) (by rw [c2]; exact b2) hi hlo
      have hd := tdiv_nonpos i hi
      have hm := tmod_nonpos i hi
      rw [c3, b3, digit_lookup' _ (by rw [hm]; omega) (by rw [hm]; omega)]
      exact ih (i.tdiv 32) _ _ (by rw [hd]; omega) (by rw [hd]; omega) (by rw [hd]; unfold minInt64 at *; omega)
        (by rw [sameVars_eq hpost hexaArrs _ 0 (by simp)]; exact p0)
        (by rw [sameVars_eq hpost hexaArrs _ 3 (by simp)]; exact p2)
    · rw [(leb_false _ _).mpr h, cond_false]
      simp only [h, dite_false]
      rw [sameVars_eq hafter hexaArrs ρ 4 (by simp), toStr_after_bridge ρ i h0 hi hlo, digit_lookup' _ (by omega) (by omega)]

/-- **`to_str(v)` as transcribed = `Hexa32.toStr v`** for every `0 ≤ v ≤ MaxInt64`: prelude (`radix := 32`),
    `i = -i`, the digit loop, the last digit -/
theorem toStr_fn_bridge (cond : Cond) (pre init body post after : List Stmt)
    (hpre : sameVars [0, 3] pre GoModel.loop_to_str.pre = true)
    (hinit : sameVars [0, 3] init GoModel.loop_to_str.init = true)
    (hcond : normC cond = normC GoModel.loop_to_str.cond)
    (hbody : sameVars [4, 0, 3] body GoModel.loop_to_str.body = true)
    (hpost : sameVars [0, 3] post GoModel.loop_to_str.post = true)
    (hafter : sameVars [4] after GoModel.loop_to_str.after = true)
    (v : Int) (hv : 0 ≤ v ∧ v ≤ maxInt64) (ρ : Env) (h0 : ρ 0 = v) (fuel : Nat) (hf : v.natAbs ≤ fuel) :
    goToStrLoop hexaArrs cond body post after (fuel + 1) (runEnv hexaArrs (runEnv hexaArrs ρ pre) init) []
      = toStr v := by
  unfold maxInt64 at hv
  have q0 : runEnv hexaArrs ρ pre 0 = v := by
    rw [sameVars_eq hpre hexaArrs ρ 0 (by simp)]
    simp only [GoModel.loop_to_str.pre, runEnv, upd, Nat.reduceEqDiff, if_false]; exact h0
  have q2 : runEnv hexaArrs ρ pre 3 = 32 := by
    rw [sameVars_eq hpre hexaArrs ρ 3 (by simp)]
    simp only [GoModel.loop_to_str.pre, runEnv, eval, upd, if_true, Nat.reduceEqDiff, if_false]
  have e0 : runEnv hexaArrs (runEnv hexaArrs ρ pre) init 0 = -v := by
    rw [sameVars_eq hinit hexaArrs _ 0 (by simp)]
    simp only [GoModel.loop_to_str.init, runEnv, eval, upd, q0, norm, Ty.half, Ty.modulus, if_true]
    omega
  have e2 : runEnv hexaArrs (runEnv hexaArrs ρ pre) init 3 = 32 := by
    rw [sameVars_eq hinit hexaArrs _ 3 (by simp)]
    simp only [GoModel.loop_to_str.init, runEnv, upd, Nat.reduceEqDiff, if_false]; exact q2
  unfold toStr
  exact toStr_loop_bridge cond body post after hcond hbody hpost hafter fuel (-v) _ [] (by omega) (by omega)
    (by unfold minInt64; omega) e0 e2

end GoBridge
