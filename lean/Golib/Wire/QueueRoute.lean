/-
  Queue mode of the one-way client, at the level of pack VALUES (C05: "for all … times and all field values",
  whatever the route the pack takes to the wire).

  In queue mode `Send` / `SendFlush` do not build the frame: they put a POINTER to the caller's pack object and
  the per-send options on the client's queue; the frame is built later — by the background goroutine
  (`process`) or by `SendAndClear` — from whatever the object holds THEN, with the client's license of THEN.

    Client   the implementation's shape: heap of pack objects, queue of (pointer, per-send license)
    Spec     what the property asks for: the queue holds the VALUE handed to Send

  `refines`: for every history in which the application does not mutate an object while it is queued, the two
  put the same frames on the wire — provided the route itself leaves the object alone between Send and the
  encoding (`step … (.send …)` changes nothing but the queue: that is the clause the tie checks on the Go code)
  and re-encoding after a send gives the same bytes (`enc l (after s) = enc l s`, the frame conditions of C05).
-/
import Golib.Basic

namespace Wire.Queue


/-- the license in effect: the per-send one if non-empty, else the client's -/
def eff (perSend client : Bytes) : Bytes := if perSend ≠ [] then perSend else client

def upd {σ : Type} (h : Nat → σ) (r : Nat) (v : σ) : Nat → σ := fun x => if x = r then v else h x

/-- what the application and the client's goroutine do -/
inductive Op (σ : Type) where
  | mutate (ref : Nat) (f : σ → σ)      -- the application changes one of its objects
  | send (ref : Nat) (lic : Bytes)       -- Send / SendFlush in queue mode
  | drain                                 -- process() / SendAndClear take the oldest item and write its frame
  | setLicense (l : Bytes)               -- the client's license changes (field / ApplyConfig)

structure Item where
  ref : Nat
  lic : Bytes

/-- the implementation's shape: pointers on the queue -/
structure Client (σ : Type) where
  license : Bytes
  heap : Nat → σ
  queue : List Item
  wireRev : List Bytes          -- frames written, newest first

def Client.wire {σ : Type} (c : Client σ) : List Bytes := c.wireRev.reverse

section
variable {σ : Type} (enc : Bytes → σ → Bytes) (after : σ → σ)

def step (c : Client σ) : Op σ → Client σ
  | .mutate r f => { c with heap := upd c.heap r (f (c.heap r)) }
  | .send r l => { c with queue := c.queue ++ [⟨r, l⟩] }
  | .drain =>
    match c.queue with
    | [] => c
    | it :: q => { c with queue := q, wireRev := enc (eff it.lic c.license) (c.heap it.ref) :: c.wireRev,
                          heap := upd c.heap it.ref (after (c.heap it.ref)) }
  | .setLicense l => { c with license := l }

def run (ops : List (Op σ)) (c : Client σ) : Client σ := ops.foldl (step enc after) c

/-- the specification: the queue holds the value handed to Send -/
structure SItem (σ : Type) where
  ref : Nat
  lic : Bytes
  snap : σ

structure Spec (σ : Type) where
  license : Bytes
  heap : Nat → σ
  queue : List (SItem σ)
  wireRev : List Bytes

def Spec.wire {σ : Type} (c : Spec σ) : List Bytes := c.wireRev.reverse

def sstep (c : Spec σ) : Op σ → Spec σ
  | .mutate r f => { c with heap := upd c.heap r (f (c.heap r)) }
  | .send r l => { c with queue := c.queue ++ [⟨r, l, c.heap r⟩] }
  | .drain =>
    match c.queue with
    | [] => c
    | it :: q => { c with queue := q, wireRev := enc (eff it.lic c.license) it.snap :: c.wireRev,
                          heap := upd c.heap it.ref (after (c.heap it.ref)) }
  | .setLicense l => { c with license := l }

def srun (ops : List (Op σ)) (c : Spec σ) : Spec σ := ops.foldl (sstep enc after) c

/-- the application's discipline: an object is not mutated while a pointer to it is on the queue -/
def okOp (c : Client σ) : Op σ → Prop
  | .mutate r _ => ∀ it ∈ c.queue, it.ref ≠ r
  | _ => True

def Disciplined : List (Op σ) → Client σ → Prop
  | [], _ => True
  | op :: ops, c => okOp c op ∧ Disciplined ops (step enc after c op)

/-- the refinement relation -/
structure Rel (c : Client σ) (s : Spec σ) : Prop where
  lic : c.license = s.license
  heap : c.heap = s.heap
  wire : c.wireRev = s.wireRev
  queue : c.queue = s.queue.map (fun it => ⟨it.ref, it.lic⟩)
  snap : ∀ it ∈ s.queue, ∀ l, enc l (s.heap it.ref) = enc l it.snap

theorem rel_step (h1 : ∀ l s, enc l (after s) = enc l s) (c : Client σ) (s : Spec σ) (op : Op σ)
    (hr : Rel enc c s) (hok : okOp c op) : Rel enc (step enc after c op) (sstep enc after s op) := by
  obtain ⟨hl, hh, hw, hq, hs⟩ := hr
  cases op with
  | mutate r f =>
    refine ⟨hl, by simp [step, sstep, hh], hw, hq, ?_⟩
    intro it hit l
    have hne : it.ref ≠ r := by
      apply hok ⟨it.ref, it.lic⟩
      rw [hq]; exact List.mem_map.mpr ⟨it, hit, rfl⟩
    have := hs it hit l
    simpa [sstep, upd, hne] using this
  | send r l =>
    refine ⟨hl, hh, hw, by simp [step, sstep, hq, hh], ?_⟩
    intro it hit l'
    simp only [sstep, List.mem_append, List.mem_singleton] at hit
    rcases hit with hit | rfl
    · exact hs it hit l'
    · rfl
  | setLicense l => exact ⟨by simp [step, sstep], hh, hw, hq, hs⟩
  | drain =>
    cases hsq : s.queue with
    | nil =>
      have hcq : c.queue = [] := by rw [hq, hsq]; rfl
      have e1 : step enc after c .drain = c := by simp [step, hcq]
      have e2 : sstep enc after s .drain = s := by simp [sstep, hsq]
      rw [e1, e2]; exact ⟨hl, hh, hw, hq, hs⟩
    | cons it q =>
      have hcq : c.queue = ⟨it.ref, it.lic⟩ :: q.map (fun it => (⟨it.ref, it.lic⟩ : Item)) := by rw [hq, hsq]; rfl
      have hit : it ∈ s.queue := by rw [hsq]; exact List.mem_cons_self
      have e1 : step enc after c .drain =
          { c with queue := q.map (fun it => (⟨it.ref, it.lic⟩ : Item)),
                   wireRev := enc (eff it.lic c.license) (c.heap it.ref) :: c.wireRev,
                   heap := upd c.heap it.ref (after (c.heap it.ref)) } := by simp [step, hcq]
      have e2 : sstep enc after s .drain =
          { s with queue := q, wireRev := enc (eff it.lic s.license) it.snap :: s.wireRev,
                   heap := upd s.heap it.ref (after (s.heap it.ref)) } := by simp [sstep, hsq]
      rw [e1, e2]
      refine ⟨hl, by simp [hh], ?_, rfl, ?_⟩
      · show enc (eff it.lic c.license) (c.heap it.ref) :: c.wireRev = enc (eff it.lic s.license) it.snap :: s.wireRev
        rw [hl, hh, hw, hs it hit]
      · intro it' hit' l
        have hm : it' ∈ s.queue := by rw [hsq]; exact List.mem_cons_of_mem _ hit'
        have := hs it' hm l
        show enc l (upd s.heap it.ref (after (s.heap it.ref)) it'.ref) = enc l it'.snap
        by_cases e : it'.ref = it.ref
        · simp only [upd, e, if_true]
          rw [h1, ← e]; exact this
        · simpa [upd, e] using this

theorem rel_run (h1 : ∀ l s, enc l (after s) = enc l s) (ops : List (Op σ)) (c : Client σ) (s : Spec σ)
    (hr : Rel enc c s) (hd : Disciplined enc after ops c) : Rel enc (run enc after ops c) (srun enc after ops s) := by
  induction ops generalizing c s with
  | nil => exact hr
  | cons op ops ih =>
    exact ih _ _ (rel_step enc after h1 c s op hr hd.1) hd.2

/-- a client that has sent nothing yet -/
def Client.fresh (license : Bytes) (heap : Nat → σ) : Client σ := ⟨license, heap, [], []⟩
def Spec.fresh (license : Bytes) (heap : Nat → σ) : Spec σ := ⟨license, heap, [], []⟩

theorem refines (h1 : ∀ l s, enc l (after s) = enc l s) (ops : List (Op σ)) (license : Bytes) (heap : Nat → σ)
    (hd : Disciplined enc after ops (Client.fresh license heap)) :
    (run enc after ops (Client.fresh license heap)).wire = (srun enc after ops (Spec.fresh license heap)).wire ∧
    (run enc after ops (Client.fresh license heap)).heap = (srun enc after ops (Spec.fresh license heap)).heap := by
  have := rel_run enc after h1 ops (Client.fresh license heap) (Spec.fresh license heap)
    ⟨rfl, rfl, rfl, rfl, by intro it hit; cases hit⟩ hd
  exact ⟨by simp [Client.wire, Spec.wire, this.wire], this.heap⟩

/-! the specification, spelled out for a batch: `k` sends, then `k` drains -/

theorem srun_sends (s : Spec σ) (xs : List (Nat × Bytes)) :
    srun enc after (xs.map (fun x => Op.send x.1 x.2)) s =
      { s with queue := s.queue ++ xs.map (fun x => ⟨x.1, x.2, s.heap x.1⟩) } := by
  induction xs generalizing s with
  | nil => simp [srun]
  | cons x xs ih =>
    have := ih (sstep enc after s (.send x.1 x.2))
    simp only [srun, List.map_cons, List.foldl_cons] at this ⊢
    rw [this]
    simp [sstep, List.append_assoc]

theorem srun_drains (s : Spec σ) (n : Nat) (hn : n = s.queue.length) :
    (srun enc after (List.replicate n .drain) s).wireRev =
      (s.queue.map (fun it => enc (eff it.lic s.license) it.snap)).reverse ++ s.wireRev ∧
    (srun enc after (List.replicate n .drain) s).queue = [] ∧
    (srun enc after (List.replicate n .drain) s).license = s.license := by
  induction n generalizing s with
  | zero =>
    have : s.queue = [] := List.length_eq_zero_iff.mp hn.symm
    simp [srun, this]
  | succ n ih =>
    cases hq : s.queue with
    | nil => rw [hq] at hn; simp at hn
    | cons it q =>
      have e : sstep enc after s .drain =
          { s with queue := q, wireRev := enc (eff it.lic s.license) it.snap :: s.wireRev,
                   heap := upd s.heap it.ref (after (s.heap it.ref)) } := by simp [sstep, hq]
      have hlen : n = (sstep enc after s .drain).queue.length := by rw [e]; rw [hq] at hn; simpa using hn
      have := ih (sstep enc after s .drain) hlen
      simp only [srun, List.replicate_succ, List.foldl_cons] at this ⊢
      rw [this.1, this.2.1, this.2.2, e]
      simp

/-- **a batch in queue mode** (what the harness stage does): the application hands `xs` to Send (object, per-send
    license), then the queue is drained: the frames on the wire are, in the order of the Send calls, the encodings
    of the values the objects had AT Send, under the license in effect — and nothing else. -/
theorem batch (h1 : ∀ l s, enc l (after s) = enc l s) (license : Bytes) (heap : Nat → σ) (xs : List (Nat × Bytes)) :
    (run enc after (xs.map (fun x => Op.send x.1 x.2) ++ List.replicate xs.length .drain) (Client.fresh license heap)).wire
      = xs.map (fun x => enc (eff x.2 license) (heap x.1)) := by
  have hd : Disciplined enc after (xs.map (fun x => Op.send x.1 x.2) ++ List.replicate xs.length .drain)
      (Client.fresh license heap) := by
    generalize Client.fresh license heap = c
    generalize hk : xs.length = k
    clear hk
    induction xs generalizing c with
    | nil =>
      induction k generalizing c with
      | zero => trivial
      | succ k ih => exact ⟨trivial, ih _⟩
    | cons x xs ih => exact ⟨trivial, ih _⟩
  rw [(refines enc after h1 _ license heap hd).1]
  simp only [Spec.wire, srun, List.foldl_append]
  have e := srun_sends enc after (Spec.fresh license heap) xs
  simp only [srun] at e
  rw [e]
  have d := srun_drains enc after
    ({ Spec.fresh license heap with queue := (Spec.fresh license heap).queue ++ xs.map (fun x => ⟨x.1, x.2, (Spec.fresh license heap).heap x.1⟩) } : Spec σ)
    xs.length (by simp [Spec.fresh])
  simp only [srun] at d
  rw [d.1]
  simp [Spec.fresh, List.map_map, Function.comp_def]

end

end Wire.Queue
