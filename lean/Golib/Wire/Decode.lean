/-
  Golib.Wire.Decode — the reference *decoder* of the collector protocol and the proof that it
  inverts the reference encoder (Golib.Wire.Reference): "a non-Go collector can decode it".

  Every body is described once as a `Codec` (shape of the layout); two facts are proved per body:

    * `…C_enc`  the codec's encoder IS the reference encoder (so the shape is the layout), and
    * `…C_RT`   decoding the encoding gives the fields back and consumes exactly the encoding.
-/
import Golib.Wire.Codec

namespace Wire
open Prim Codec

/-! ### frame -/

structure FrameParts where
  src : Nat
  ver : Nat
  pcode : Int
  licHash : Int
  payload : Bytes
deriving Repr, DecidableEq

/-- what a receiver does: two bytes, two 8-byte numbers, a 4-byte length, that many bytes -/
def parseFrame : P FrameParts :=
  P.bind (rdU 1) fun src =>
  P.bind (rdU 1) fun ver =>
  P.bind (rdI 8) fun pc =>
  P.bind (rdI 8) fun lh =>
  P.bind decBytes32 fun pl => .pure ⟨src, ver, pc, lh, pl⟩

theorem run_parseFrame (pcode : Int) (license pl r : Bytes)
    (hp : inRange 8 pcode) (hl : pl.length < 2147483648) :
    P.run parseFrame (frame pcode license pl ++ r)
      = some (⟨netSrcOneWay, netSrcVersion, pcode, hash64 license, pl⟩, r) := by
  unfold parseFrame frame
  have e1 : [netSrcOneWay, netSrcVersion] = beN 1 netSrcOneWay ++ beN 1 netSrcVersion := by decide
  rw [e1]
  simp only [List.append_assoc]
  rw [P.run_bind_some _ _ _ _ _ (run_rdU 1 netSrcOneWay _ (by decide))]
  rw [P.run_bind_some _ _ _ _ _ (run_rdU 1 netSrcVersion _ (by decide))]
  rw [P.run_bind_some _ _ _ _ _ (run_rdI 8 pcode _ hp)]
  rw [P.run_bind_some _ _ _ _ _ (run_rdI 8 (hash64 license) _ (hash64_inRange license))]
  have e2 : encI 4 (pl.length : Int) ++ (pl ++ r) = encBytes32 pl ++ r := by
    simp [encBytes32]
  rw [e2, P.run_bind_some _ _ _ _ _ (run_decBytes32 pl r hl)]
  rfl

theorem frame_length_eq (pcode : Int) (license pl : Bytes) :
    (frame pcode license pl).length = 22 + pl.length := by
  simp [frame]; omega

/-! ### the secure frame variant -/

structure SecureParts where
  src : Nat
  ver : Nat
  pcode : Int
  oid : Int
  key : Int
  payload : Bytes
deriving Repr, DecidableEq

def parseSecure : P SecureParts :=
  P.bind (rdU 1) fun src =>
  P.bind (rdU 1) fun ver =>
  P.bind (rdI 8) fun pc =>
  P.bind (rdI 4) fun oid =>
  P.bind (rdI 4) fun key =>
  P.bind decBytes32 fun pl => .pure ⟨src, ver, pc, oid, key, pl⟩

theorem run_parseSecure (src ver : Nat) (pcode oid key : Int) (pl r : Bytes) (hs : src < 256) (hv : ver < 256)
    (hp : inRange 8 pcode) (ho : inRange 4 oid) (hk : inRange 4 key) (hl : pl.length < 2147483648) :
    P.run parseSecure (secureFrame src ver pcode oid key pl ++ r) = some (⟨src, ver, pcode, oid, key, pl⟩, r) := by
  unfold parseSecure secureFrame
  have e1 : [src % 256] = beN 1 src := by simp [beN]
  have e2 : [ver % 256] = beN 1 ver := by simp [beN]
  rw [e1, e2]
  simp only [List.append_assoc]
  rw [P.run_bind_some _ _ _ _ _ (run_rdU 1 src _ (by omega))]
  rw [P.run_bind_some _ _ _ _ _ (run_rdU 1 ver _ (by omega))]
  rw [P.run_bind_some _ _ _ _ _ (run_rdI 8 pcode _ hp)]
  rw [P.run_bind_some _ _ _ _ _ (run_rdI 4 oid _ ho)]
  rw [P.run_bind_some _ _ _ _ _ (run_rdI 4 key _ hk)]
  have e3 : encI 4 (pl.length : Int) ++ (pl ++ r) = encBytes32 pl ++ r := by
    simp [encBytes32]
  rw [e3, P.run_bind_some _ _ _ _ _ (run_decBytes32 pl r hl)]
  rfl

theorem padECB_facts (n : Nat) (hn : 0 < n) (bs : Bytes) :
    (padECB n bs).length % n = 0 ∧ (padECB n bs).take bs.length = bs ∧
    (padECB n bs).length < bs.length + n ∧ ∀ b ∈ (padECB n bs).drop bs.length, b = 0 := by
  unfold padECB
  by_cases h : bs.length % n = 0
  · simp [h]; omega
  · simp only [h, if_false]
    have hlt : bs.length % n < n := Nat.mod_lt _ hn
    refine ⟨?_, by simp, by simp; omega, ?_⟩
    · simp only [List.length_append, List.length_replicate]
      have : bs.length + (n - bs.length % n) = (bs.length / n + 1) * n := by
        have := Nat.div_add_mod bs.length n
        rw [Nat.add_mul, Nat.one_mul, Nat.mul_comm]
        omega
      rw [this]; exact Nat.mul_mod_left _ _
    · intro b hb
      simp at hb
      exact hb.2

/-! ### a connection's byte stream -/

/-- what a receiver does with a connection: parse frame after frame; what does not parse as a frame start is
    left over (`fuel` bounds the number of frames) -/
def stepStream (next : Bytes → List FrameParts × Bytes) (bs : Bytes) : List FrameParts × Bytes :=
  match P.run parseFrame bs with
  | none => ([], bs)
  | some (fr, rest) => (fr :: (next rest).1, (next rest).2)

def parseStream : Nat → Bytes → List FrameParts × Bytes
  | 0, bs => ([], bs)
  | f+1, bs => stepStream (parseStream f) bs

theorem stepStream_none (next : Bytes → List FrameParts × Bytes) (bs : Bytes) (h : P.run parseFrame bs = none) :
    stepStream next bs = ([], bs) := by
  unfold stepStream; rw [h]

theorem stepStream_some (next : Bytes → List FrameParts × Bytes) (bs rest : Bytes) (fr : FrameParts)
    (h : P.run parseFrame bs = some (fr, rest)) :
    stepStream next bs = (fr :: (next rest).1, (next rest).2) := by
  unfold stepStream; rw [h]

/-- one sent frame: project code, license text, payload -/
structure Sent where
  pcode : Int
  license : Bytes
  payload : Bytes

def Sent.wf (x : Sent) : Prop := inRange 8 x.pcode ∧ x.payload.length < 2147483648
def Sent.bytes (x : Sent) : Bytes := frame x.pcode x.license x.payload
def Sent.parts (x : Sent) : FrameParts := ⟨netSrcOneWay, netSrcVersion, x.pcode, hash64 x.license, x.payload⟩

def streamOf : List Sent → Bytes
  | [] => []
  | x :: xs => x.bytes ++ streamOf xs

/-- a stream of whole frames followed by bytes `q` that are not a frame start parses into exactly those
    frames, in order, and leaves `q` -/
theorem parseStream_whole (xs : List Sent) (q : Bytes) (fuel : Nat) (hf : xs.length ≤ fuel)
    (hw : ∀ x ∈ xs, x.wf) (hq : P.run parseFrame q = none) :
    parseStream fuel (streamOf xs ++ q) = (xs.map Sent.parts, q) := by
  induction xs generalizing fuel with
  | nil =>
    cases fuel with
    | zero => rfl
    | succ f =>
      show stepStream (parseStream f) (streamOf [] ++ q) = _
      rw [show streamOf [] ++ q = q from rfl, stepStream_none _ _ hq]
      rfl
  | cons x xs ih =>
    cases fuel with
    | zero => simp at hf
    | succ f =>
      have hx := hw x (by simp)
      have h1 := run_parseFrame x.pcode x.license x.payload (streamOf xs ++ q) hx.1 hx.2
      have ih' := ih f (by simp at hf; omega) (fun y hy => hw y (by simp [hy]))
      show stepStream (parseStream f) (streamOf (x :: xs) ++ q) = _
      have e : streamOf (x :: xs) ++ q = frame x.pcode x.license x.payload ++ (streamOf xs ++ q) := by
        simp [streamOf, Sent.bytes]
      rw [e, stepStream_some _ _ _ _ h1, ih']
      rfl

theorem run_parseFrame_nil : P.run parseFrame [] = none := by
  simp [parseFrame, P.bind, rdU, P.run, hasAtLeast]

/-! ### common header -/

def WFHdr (h : Hdr) : Prop :=
  inRange 8 h.pcode ∧ inRange 4 h.oid ∧ inRange 4 h.okind ∧ inRange 4 h.onode ∧ inRange 8 h.time

instance (h : Hdr) : Decidable (WFHdr h) := by unfold WFHdr; infer_instance

/-- first byte 9: extended form; otherwise the byte is the length class of the decimal pcode -/
def decHdr : P Hdr :=
  .read 1 fun b =>
    if b.headD 0 = hdrMarker then
      P.bind decDecimal fun pc =>
      P.bind (rdI 4) fun oid =>
      P.bind (rdI 4) fun okind =>
      P.bind (rdI 4) fun onode =>
      P.bind (rdI 8) fun time => .pure ⟨pc, oid, okind, onode, time⟩
    else
      P.bind (decDecimalLen (b.headD 0)) fun pc =>
      P.bind (rdI 4) fun oid =>
      P.bind (rdI 8) fun time => .pure ⟨pc, oid, 0, 0, time⟩

theorem leastClass_le (v : Int) : leastClass v ≤ 8 := by
  unfold leastClass; repeat' split
  all_goals decide

/-- a decimal starts with its length class, which is at most 8 — never the marker 9 -/
theorem encDecimal_cons (v : Int) : ∃ rest, encDecimal v = leastClass v :: rest := by
  cases h : encDecimal v with
  | nil =>
    have := encDecimal_length v
    rw [h] at this; simp at this; omega
  | cons c rest =>
    have := encDecimal_head v
    rw [h] at this; simp at this
    exact ⟨rest, by rw [this]⟩

theorem run_decDecimalLen (v : Int) (rest r : Bytes) (c : Nat) (hv : inRange 8 v)
    (h : encDecimal v = c :: rest) : P.run (decDecimalLen c) (rest ++ r) = some (v, r) := by
  have := run_decDecimal v r hv
  rw [h] at this
  unfold decDecimal at this
  rw [List.cons_append, P.run_read1] at this
  simpa using this

theorem Hdr.extended_false {h : Hdr} (he : h.extended = false) : h.okind = 0 ∧ h.onode = 0 := by
  unfold Hdr.extended at he
  simp at he
  exact he

theorem run_decHdr (h : Hdr) (r : Bytes) (wf : WFHdr h) :
    P.run decHdr (encHdr h ++ r) = some (h, r) := by
  obtain ⟨h1, h2, h3, h4, h5⟩ := wf
  unfold encHdr
  cases he : h.extended with
  | true =>
    simp only [if_true, encHdrExt, decHdr, List.cons_append, P.run_read1, List.headD_cons,
      List.append_assoc]
    rw [P.run_bind_some _ _ _ _ _ (run_decDecimal h.pcode _ h1)]
    rw [P.run_bind_some _ _ _ _ _ (run_rdI 4 h.oid _ h2)]
    rw [P.run_bind_some _ _ _ _ _ (run_rdI 4 h.okind _ h3)]
    rw [P.run_bind_some _ _ _ _ _ (run_rdI 4 h.onode _ h4)]
    rw [P.run_bind_some _ _ _ _ _ (run_rdI 8 h.time _ h5)]
    rfl
  | false =>
    obtain ⟨k0, n0⟩ := Hdr.extended_false he
    obtain ⟨rest, hr⟩ := encDecimal_cons h.pcode
    have hc := leastClass_le h.pcode
    have hne : ¬ (leastClass h.pcode = hdrMarker) := by unfold hdrMarker; omega
    simp only [Bool.false_eq_true, if_false, encHdrShort, decHdr, hr, List.cons_append, P.run_read1,
      List.headD_cons, List.append_assoc, hne]
    rw [P.run_bind_some _ _ _ _ _ (run_decDecimalLen h.pcode rest _ _ h1 hr)]
    rw [P.run_bind_some _ _ _ _ _ (run_rdI 4 h.oid _ h2)]
    rw [P.run_bind_some _ _ _ _ _ (run_rdI 8 h.time _ h5)]
    cases h
    simp_all

def hdrC : Codec Hdr := ofP encHdr decHdr WFHdr
theorem hdrC_RT : hdrC.RT := fun h r wf => run_decHdr h r wf

/-! ### tag-count pack -/

def tagCountC (wfv : Value → Prop) : Codec TagCount :=
  iso (seq hdrC (seq (lit [0]) (seq blob (seq decimal (seq (smap wfv) (smap wfv))))))
    (fun t => ⟨t.1, t.2.2.1, t.2.2.2.1, t.2.2.2.2.1, t.2.2.2.2.2⟩)
    (fun p => (p.hdr, (), p.category, p.tagHash, p.tags, p.data))

theorem tagCountC_enc (wfv : Value → Prop) (p : TagCount) : (tagCountC wfv).enc p = encTagCountRaw p := rfl

theorem tagCountC_RT (V : VOK) : (tagCountC V.wf).RT :=
  iso_RT (seq_RT hdrC_RT (seq_RT (lit_RT _) (seq_RT blob_RT (seq_RT decimal_RT
    (seq_RT (smap_RT V) (smap_RT V)))))) (fun _ => rfl)

/-! ### log-sink pack -/

def optMapC (wfv : Value → Prop) : Codec (List (Bytes × Value)) :=
  iso (opt (smap wfv)) (fun o => match o with | none => [] | some kvs => kvs) optOfMap

theorem optMapC_RT (V : VOK) : (optMapC V.wf).RT :=
  iso_RT (opt_RT (smap_RT V)) (fun kvs => by cases kvs <;> rfl)

def logSinkC (wfv : Value → Prop) : Codec LogSink :=
  iso (seq hdrC (seq (lit [0]) (seq blob (seq decimal (seq (smap wfv) (seq decimal (seq blob (optMapC wfv))))))))
    (fun t => ⟨t.1, t.2.2.1, t.2.2.2.1, t.2.2.2.2.1, t.2.2.2.2.2.1, t.2.2.2.2.2.2.1, t.2.2.2.2.2.2.2⟩)
    (fun p => (p.hdr, (), p.category, p.tagHash, p.tags, p.line, p.content, p.fields))

theorem logSinkC_enc (wfv : Value → Prop) (p : LogSink) : (logSinkC wfv).enc p = encLogSinkRaw p := rfl

theorem logSinkC_RT (V : VOK) : (logSinkC V.wf).RT :=
  iso_RT (seq_RT hdrC_RT (seq_RT (lit_RT _) (seq_RT blob_RT (seq_RT decimal_RT
    (seq_RT (smap_RT V) (seq_RT decimal_RT (seq_RT blob_RT (optMapC_RT V)))))))) (fun _ => rfl)

/-! ### text pack -/

def textRecC : Codec TextRec :=
  iso (seq u8 (seq i32 blob)) (fun t => ⟨t.1, t.2.1, t.2.2⟩) (fun r => (r.div, r.hash, r.text))

theorem textRecC_RT : textRecC.RT := iso_RT (seq_RT u8_RT (seq_RT i32_RT blob_RT)) (fun _ => rfl)

def textC : Codec TextP :=
  iso (seq hdrC (counted decimalCount textRecC)) (fun t => ⟨t.1, t.2⟩) (fun p => (p.hdr, p.records))

theorem textC_enc (p : TextP) : textC.enc p = encTextP p := rfl

theorem textC_RT : textC.RT := iso_RT (seq_RT hdrC_RT (counted_RT decimalCount_RT textRecC_RT)) (fun _ => rfl)

/-! ### parameter pack -/

def paramC (wfv : Value → Prop) : Codec Param :=
  iso (seq hdrC (seq i32 (seq decimal (seq decimal (counted decimalCount (seq blob (value wfv)))))))
    (fun t => ⟨t.1, t.2.1, t.2.2.1, t.2.2.2.1, t.2.2.2.2⟩)
    (fun p => (p.hdr, p.id, p.request, p.response, p.table))

theorem paramC_enc (wfv : Value → Prop) (p : Param) : (paramC wfv).enc p = encParam p := rfl

theorem paramC_RT (V : VOK) : (paramC V.wf).RT :=
  iso_RT (seq_RT hdrC_RT (seq_RT i32_RT (seq_RT decimal_RT (seq_RT decimal_RT
    (counted_RT decimalCount_RT (seq_RT blob_RT (value_RT V))))))) (fun _ => rfl)

/-! ### event pack -/

def eventWireC : Codec EventWire :=
  iso (seq hdrC (seq u8 (seq blob (seq blob (counted byteCount (seq blob blob))))))
    (fun t => ⟨t.1, t.2.1, t.2.2.1, t.2.2.2.1, t.2.2.2.2⟩)
    (fun w => (w.hdr, w.level, w.title, w.message, w.attrs))

theorem eventWireC_enc (w : EventWire) : eventWireC.enc w = encEventWire w := rfl

theorem eventWireC_RT : eventWireC.RT :=
  iso_RT (seq_RT hdrC_RT (seq_RT u8_RT (seq_RT blob_RT (seq_RT blob_RT
    (counted_RT u8_RT (seq_RT blob_RT blob_RT)))))) (fun _ => rfl)

/-! ### zip pack -/

def zipC : Codec Zip :=
  iso (seq hdrC (seq u8 (seq decimal blob)))
    (fun t => ⟨t.1, t.2.1, t.2.2.1, t.2.2.2⟩) (fun p => (p.hdr, p.status, p.recordCount, p.records))

theorem zipC_enc (p : Zip) : zipC.enc p = encZip p := rfl

theorem zipC_RT : zipC.RT := iso_RT (seq_RT hdrC_RT (seq_RT u8_RT (seq_RT decimal_RT blob_RT))) (fun _ => rfl)

/-! ### hit-map pack -/

def cellC : Codec (Int × Int) := seq u16 u16

def hitMapC : Codec HitMap :=
  isoW (seq hdrC (seq (lit [1]) (rep hitMapLength cellC)))
    (fun t => ⟨t.1, t.2.2.map Prod.fst, t.2.2.map Prod.snd⟩)
    (fun p => (p.hdr, (), (p.hit.take hitMapLength).zip (p.error.take hitMapLength)))
    (fun p => p.hit.length = hitMapLength ∧ p.error.length = hitMapLength)

theorem encCells_zip (hs es : List Int) : encCells hs es = encMany cellC.enc (hs.zip es) := by
  induction hs generalizing es with
  | nil => simp [encCells, encMany]
  | cons h hs ih =>
    cases es with
    | nil => simp [encCells, encMany]
    | cons e es =>
      simp only [encCells, List.zip_cons_cons, encMany, ih es]
      simp [cellC, seq, u16]

theorem hitMapC_enc (p : HitMap) : hitMapC.enc p = encHitMap p := by
  show encHdr p.hdr ++ ([1] ++ encMany cellC.enc ((p.hit.take hitMapLength).zip (p.error.take hitMapLength))) = _
  rw [← encCells_zip]; rfl

theorem hitMapC_RT : hitMapC.RT :=
  isoW_RT (seq_RT hdrC_RT (seq_RT (lit_RT _) (rep_RT (seq_RT u16_RT u16_RT)))) (by
    intro p ⟨h1, h2⟩
    obtain ⟨hdr, hit, err⟩ := p
    simp only at h1 h2
    have t1 : hit.take hitMapLength = hit := List.take_of_length_le (by omega)
    have t2 : err.take hitMapLength = err := List.take_of_length_le (by omega)
    simp only [t1, t2]
    have e1 : (hit.zip err).map Prod.fst = hit := List.map_fst_zip (by omega)
    have e2 : (hit.zip err).map Prod.snd = err := List.map_snd_zip (by omega)
    rw [e1, e2])

end Wire
