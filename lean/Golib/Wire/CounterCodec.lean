/-
  Golib.Wire.CounterCodec — shape of the counter pack as a `Codec`, its reference decoder, and the
  proof that the decoder inverts the reference encoder of Golib.Wire.Counter.
-/
import Golib.Wire.Counter
import Golib.Wire.Decode

namespace Wire
open Prim Codec

def shorts8C : Codec (List Int) := counted byteCount i16
theorem shorts8C_RT : shorts8C.RT := counted_RT u8_RT i16_RT
theorem shorts8C_enc (xs : List Int) : shorts8C.enc xs = encShorts8 xs := rfl

def intIntC : Codec (List (Int × Int)) := counted decimalCount (seq decimal decimal)
theorem intIntC_RT : intIntC.RT := counted_RT decimalCount_RT (seq_RT decimal_RT decimal_RT)

def dbPoolC : Codec DbPool :=
  iso (seq intIntC intIntC) (fun t => ⟨t.1, t.2⟩) (fun d => (d.active, d.idle))
theorem dbPoolC_RT : dbPoolC.RT := iso_RT (seq_RT intIntC_RT intIntC_RT) (fun _ => rfl)

def netStatC : Codec NetStat :=
  iso (seq decimal (seq decimal (seq decimal decimal)))
    (fun t => ⟨t.1, t.2.1, t.2.2.1, t.2.2.2⟩) (fun n => (n.est, n.finW, n.cloW, n.timW))
theorem netStatC_RT : netStatC.RT :=
  iso_RT (seq_RT decimal_RT (seq_RT decimal_RT (seq_RT decimal_RT decimal_RT))) (fun _ => rfl)

def webSocketC : Codec WebSocket :=
  iso (seq decimal (seq decimal decimal)) (fun t => ⟨t.1, t.2.1, t.2.2⟩) (fun w => (w.count, w.inBytes, w.outBytes))
theorem webSocketC_RT : webSocketC.RT :=
  iso_RT (seq_RT decimal_RT (seq_RT decimal_RT decimal_RT)) (fun _ => rfl)

def oidEntryC : Codec OidEntry :=
  iso (seq i32 (seq decimal (seq decimal (seq decimal decimal))))
    (fun t => ⟨t.1, t.2.1, t.2.2.1, t.2.2.2.1, t.2.2.2.2⟩) (fun e => (e.key, e.time, e.count, e.error, e.actx))
theorem oidEntryC_RT : oidEntryC.RT :=
  iso_RT (seq_RT i32_RT (seq_RT decimal_RT (seq_RT decimal_RT (seq_RT decimal_RT decimal_RT)))) (fun _ => rfl)

def sqlEntryC : Codec SqlEntry :=
  iso (seq i32 (seq decimal (seq decimal (seq decimal (seq decimal (seq decimal decimal))))))
    (fun t => ⟨t.1, t.2.1, t.2.2.1, t.2.2.2.1, t.2.2.2.2.1, t.2.2.2.2.2.1, t.2.2.2.2.2.2⟩)
    (fun e => (e.key, e.time, e.count, e.error, e.actx, e.fetchCount, e.fetchTime))
theorem sqlEntryC_RT : sqlEntryC.RT :=
  iso_RT (seq_RT i32_RT (seq_RT decimal_RT (seq_RT decimal_RT (seq_RT decimal_RT (seq_RT decimal_RT
    (seq_RT decimal_RT decimal_RT)))))) (fun _ => rfl)

def groupEntryC : Codec GroupEntry :=
  iso (seq decimal (seq decimal (seq decimal (seq decimal (seq decimal decimal)))))
    (fun t => ⟨t.1, t.2.1, t.2.2.1, t.2.2.2.1, t.2.2.2.2.1, t.2.2.2.2.2⟩)
    (fun e => (e.pcode, e.okind, e.time, e.count, e.error, e.actx))
theorem groupEntryC_RT : groupEntryC.RT :=
  iso_RT (seq_RT decimal_RT (seq_RT decimal_RT (seq_RT decimal_RT (seq_RT decimal_RT
    (seq_RT decimal_RT decimal_RT))))) (fun _ => rfl)

def poidEntryC : Codec PoidEntry :=
  iso (seq decimal (seq decimal (seq decimal (seq decimal (seq decimal (seq shorts8C decimal))))))
    (fun t => ⟨t.1, t.2.1, t.2.2.1, t.2.2.2.1, t.2.2.2.2.1, t.2.2.2.2.2.1, t.2.2.2.2.2.2⟩)
    (fun e => (e.pcode, e.oid, e.time, e.count, e.error, e.acts, e.actx))
theorem poidEntryC_RT : poidEntryC.RT :=
  iso_RT (seq_RT decimal_RT (seq_RT decimal_RT (seq_RT decimal_RT (seq_RT decimal_RT (seq_RT decimal_RT
    (seq_RT shorts8C_RT decimal_RT)))))) (fun _ => rfl)

def unknownC : Codec Unknown :=
  iso (seq decimal (seq decimal (seq decimal decimal)))
    (fun t => ⟨t.1, t.2.1, t.2.2.1, t.2.2.2⟩) (fun u => (u.time, u.count, u.error, u.actx))
theorem unknownC_RT : unknownC.RT :=
  iso_RT (seq_RT decimal_RT (seq_RT decimal_RT (seq_RT decimal_RT decimal_RT))) (fun _ => rfl)

/-- the fields inside the blob as a nested tuple, in wire order -/
def counterBodyT (wfv : Value → Prop) : Codec (Int × Int × Int × Int × Int × Int × Int × Int × Int × Int × Int × Int × Int × Int × Int × Int × Int × Int × Int × Int × (List Int) × Nat × Nat × Nat × Nat × Nat × Nat × Nat × Int × Nat × Nat × Nat × Int × Int × Int × Int × (Option DbPool) × (Option NetStat) × Int × Nat × Int × Int × (Option WebSocket) × Int × Int × Int × Int × (Option (List (Int × Value))) × Int × (List Int) × Int × Int × (Option (List OidEntry)) × (Option (List SqlEntry)) × (Option (List OidEntry)) × (Option (List GroupEntry)) × Unit × (Option Unknown) × Int × Nat × Nat × Nat × Int × Int × Nat × Int × Nat × Int × Int × Nat × Int × (List PoidEntry) × Int × Int × Int) :=
    seq decimal (seq decimal (seq decimal (seq decimal (seq decimal (seq decimal (
    seq decimal (seq decimal (seq decimal (seq decimal (seq decimal (seq decimal (
    seq decimal (seq decimal (seq decimal (seq decimal (seq decimal (seq decimal (
    seq decimal (seq decimal (seq shorts8C (seq f32 (seq f32 (seq f32 (seq f32 (seq f32 (
    seq f32 (seq f32 (seq decimal (seq f32 (seq f32 (seq f32 (seq decimal (seq decimal (
    seq decimal (seq decimal (seq (opt dbPoolC) (seq (opt netStatC) (seq decimal (seq f32 (
    seq decimal (seq i16 (seq (opt webSocketC) (seq decimal (seq decimal (seq decimal (
    seq decimal (seq (opt (imap wfv)) (seq i32 (seq shorts8C (seq decimal (seq decimal (
    seq (versioned 9 (counted decimalCount oidEntryC)) (
    seq (versioned 9 (counted decimalCount sqlEntryC)) (
    seq (versioned 9 (counted decimalCount oidEntryC)) (
    seq (versioned 9 (counted decimalCount groupEntryC)) (seq (lit [0]) (
    seq (versioned 2 unknownC) (seq decimal (seq f32 (seq f32 (seq f32 (seq decimal (
    seq decimal (seq f32 (seq decimal (seq u8 (seq decimal (seq decimal (seq f32 (
    seq decimal (seq (counted decimalCount poidEntryC) (seq decimal (seq decimal (decimal))))))))))))))))))))))))))))))))))))))))))))))))))))))))))))))))))))))))))

theorem counterBodyT_RT (V : VOK) : (counterBodyT V.wf).RT :=
    seq_RT decimal_RT (seq_RT decimal_RT (seq_RT decimal_RT (seq_RT decimal_RT (
    seq_RT decimal_RT (seq_RT decimal_RT (seq_RT decimal_RT (seq_RT decimal_RT (
    seq_RT decimal_RT (seq_RT decimal_RT (seq_RT decimal_RT (seq_RT decimal_RT (
    seq_RT decimal_RT (seq_RT decimal_RT (seq_RT decimal_RT (seq_RT decimal_RT (
    seq_RT decimal_RT (seq_RT decimal_RT (seq_RT decimal_RT (seq_RT decimal_RT (
    seq_RT shorts8C_RT (seq_RT f32_RT (seq_RT f32_RT (seq_RT f32_RT (seq_RT f32_RT (
    seq_RT f32_RT (seq_RT f32_RT (seq_RT f32_RT (seq_RT decimal_RT (seq_RT f32_RT (
    seq_RT f32_RT (seq_RT f32_RT (seq_RT decimal_RT (seq_RT decimal_RT (seq_RT decimal_RT (
    seq_RT decimal_RT (seq_RT (opt_RT dbPoolC_RT) (seq_RT (opt_RT netStatC_RT) (
    seq_RT decimal_RT (seq_RT f32_RT (seq_RT decimal_RT (seq_RT i16_RT (
    seq_RT (opt_RT webSocketC_RT) (seq_RT decimal_RT (seq_RT decimal_RT (seq_RT decimal_RT (
    seq_RT decimal_RT (seq_RT (opt_RT (imap_RT V)) (seq_RT i32_RT (seq_RT shorts8C_RT (
    seq_RT decimal_RT (seq_RT decimal_RT (
    seq_RT (versioned_RT (counted_RT decimalCount_RT oidEntryC_RT)) (
    seq_RT (versioned_RT (counted_RT decimalCount_RT sqlEntryC_RT)) (
    seq_RT (versioned_RT (counted_RT decimalCount_RT oidEntryC_RT)) (
    seq_RT (versioned_RT (counted_RT decimalCount_RT groupEntryC_RT)) (seq_RT (lit_RT [0]) (
    seq_RT (versioned_RT unknownC_RT) (seq_RT decimal_RT (seq_RT f32_RT (seq_RT f32_RT (
    seq_RT f32_RT (seq_RT decimal_RT (seq_RT decimal_RT (seq_RT f32_RT (seq_RT decimal_RT (
    seq_RT u8_RT (seq_RT decimal_RT (seq_RT decimal_RT (seq_RT f32_RT (seq_RT decimal_RT (
    seq_RT (counted_RT decimalCount_RT poidEntryC_RT) (seq_RT decimal_RT (seq_RT decimal_RT (
    decimal_RT))))))))))))))))))))))))))))))))))))))))))))))))))))))))))))))))))))))))))

def Counter.ofTuple (h : Hdr) (t : Int × Int × Int × Int × Int × Int × Int × Int × Int × Int × Int × Int × Int × Int × Int × Int × Int × Int × Int × Int × (List Int) × Nat × Nat × Nat × Nat × Nat × Nat × Nat × Int × Nat × Nat × Nat × Int × Int × Int × Int × (Option DbPool) × (Option NetStat) × Int × Nat × Int × Int × (Option WebSocket) × Int × Int × Int × Int × (Option (List (Int × Value))) × Int × (List Int) × Int × Int × (Option (List OidEntry)) × (Option (List SqlEntry)) × (Option (List OidEntry)) × (Option (List GroupEntry)) × Unit × (Option Unknown) × Int × Nat × Nat × Nat × Int × Int × Nat × Int × Nat × Int × Int × Nat × Int × (List PoidEntry) × Int × Int × Int) : Counter :=
  { hdr := h,
    duration := t.1,
    cputime := t.2.1,
    heapTot := t.2.2.1,
    heapUse := t.2.2.2.1,
    heapPerm := t.2.2.2.2.1,
    heapPendingFinalization := t.2.2.2.2.2.1,
    gcCount := t.2.2.2.2.2.2.1,
    gcTime := t.2.2.2.2.2.2.2.1,
    serviceCount := t.2.2.2.2.2.2.2.2.1,
    serviceError := t.2.2.2.2.2.2.2.2.2.1,
    serviceTime := t.2.2.2.2.2.2.2.2.2.2.1,
    sqlCount := t.2.2.2.2.2.2.2.2.2.2.2.1,
    sqlError := t.2.2.2.2.2.2.2.2.2.2.2.2.1,
    sqlTime := t.2.2.2.2.2.2.2.2.2.2.2.2.2.1,
    sqlFetchCount := t.2.2.2.2.2.2.2.2.2.2.2.2.2.2.1,
    sqlFetchTime := t.2.2.2.2.2.2.2.2.2.2.2.2.2.2.2.1,
    httpcCount := t.2.2.2.2.2.2.2.2.2.2.2.2.2.2.2.2.1,
    httpcError := t.2.2.2.2.2.2.2.2.2.2.2.2.2.2.2.2.2.1,
    httpcTime := t.2.2.2.2.2.2.2.2.2.2.2.2.2.2.2.2.2.2.1,
    actSvcCount := t.2.2.2.2.2.2.2.2.2.2.2.2.2.2.2.2.2.2.2.1,
    actSvcSlice := t.2.2.2.2.2.2.2.2.2.2.2.2.2.2.2.2.2.2.2.2.1,
    cpu := t.2.2.2.2.2.2.2.2.2.2.2.2.2.2.2.2.2.2.2.2.2.1,
    cpuSys := t.2.2.2.2.2.2.2.2.2.2.2.2.2.2.2.2.2.2.2.2.2.2.1,
    cpuUsr := t.2.2.2.2.2.2.2.2.2.2.2.2.2.2.2.2.2.2.2.2.2.2.2.1,
    cpuWait := t.2.2.2.2.2.2.2.2.2.2.2.2.2.2.2.2.2.2.2.2.2.2.2.2.1,
    cpuSteal := t.2.2.2.2.2.2.2.2.2.2.2.2.2.2.2.2.2.2.2.2.2.2.2.2.2.1,
    cpuIrq := t.2.2.2.2.2.2.2.2.2.2.2.2.2.2.2.2.2.2.2.2.2.2.2.2.2.2.1,
    cpuProc := t.2.2.2.2.2.2.2.2.2.2.2.2.2.2.2.2.2.2.2.2.2.2.2.2.2.2.2.1,
    cpuCores := t.2.2.2.2.2.2.2.2.2.2.2.2.2.2.2.2.2.2.2.2.2.2.2.2.2.2.2.2.1,
    mem := t.2.2.2.2.2.2.2.2.2.2.2.2.2.2.2.2.2.2.2.2.2.2.2.2.2.2.2.2.2.1,
    swap := t.2.2.2.2.2.2.2.2.2.2.2.2.2.2.2.2.2.2.2.2.2.2.2.2.2.2.2.2.2.2.1,
    disk := t.2.2.2.2.2.2.2.2.2.2.2.2.2.2.2.2.2.2.2.2.2.2.2.2.2.2.2.2.2.2.2.1,
    threadTotalStarted := t.2.2.2.2.2.2.2.2.2.2.2.2.2.2.2.2.2.2.2.2.2.2.2.2.2.2.2.2.2.2.2.2.1,
    threadCount := t.2.2.2.2.2.2.2.2.2.2.2.2.2.2.2.2.2.2.2.2.2.2.2.2.2.2.2.2.2.2.2.2.2.1,
    threadDaemon := t.2.2.2.2.2.2.2.2.2.2.2.2.2.2.2.2.2.2.2.2.2.2.2.2.2.2.2.2.2.2.2.2.2.2.1,
    threadPeakCount := t.2.2.2.2.2.2.2.2.2.2.2.2.2.2.2.2.2.2.2.2.2.2.2.2.2.2.2.2.2.2.2.2.2.2.2.1,
    dbPool := t.2.2.2.2.2.2.2.2.2.2.2.2.2.2.2.2.2.2.2.2.2.2.2.2.2.2.2.2.2.2.2.2.2.2.2.2.1,
    netstat := t.2.2.2.2.2.2.2.2.2.2.2.2.2.2.2.2.2.2.2.2.2.2.2.2.2.2.2.2.2.2.2.2.2.2.2.2.2.1,
    procFd := t.2.2.2.2.2.2.2.2.2.2.2.2.2.2.2.2.2.2.2.2.2.2.2.2.2.2.2.2.2.2.2.2.2.2.2.2.2.2.1,
    tps := t.2.2.2.2.2.2.2.2.2.2.2.2.2.2.2.2.2.2.2.2.2.2.2.2.2.2.2.2.2.2.2.2.2.2.2.2.2.2.2.1,
    respTime := t.2.2.2.2.2.2.2.2.2.2.2.2.2.2.2.2.2.2.2.2.2.2.2.2.2.2.2.2.2.2.2.2.2.2.2.2.2.2.2.2.1,
    apType := t.2.2.2.2.2.2.2.2.2.2.2.2.2.2.2.2.2.2.2.2.2.2.2.2.2.2.2.2.2.2.2.2.2.2.2.2.2.2.2.2.2.1,
    websocket := t.2.2.2.2.2.2.2.2.2.2.2.2.2.2.2.2.2.2.2.2.2.2.2.2.2.2.2.2.2.2.2.2.2.2.2.2.2.2.2.2.2.2.1,
    starttime := t.2.2.2.2.2.2.2.2.2.2.2.2.2.2.2.2.2.2.2.2.2.2.2.2.2.2.2.2.2.2.2.2.2.2.2.2.2.2.2.2.2.2.2.1,
    packDropped := t.2.2.2.2.2.2.2.2.2.2.2.2.2.2.2.2.2.2.2.2.2.2.2.2.2.2.2.2.2.2.2.2.2.2.2.2.2.2.2.2.2.2.2.2.1,
    hostIp := t.2.2.2.2.2.2.2.2.2.2.2.2.2.2.2.2.2.2.2.2.2.2.2.2.2.2.2.2.2.2.2.2.2.2.2.2.2.2.2.2.2.2.2.2.2.1,
    macHash := t.2.2.2.2.2.2.2.2.2.2.2.2.2.2.2.2.2.2.2.2.2.2.2.2.2.2.2.2.2.2.2.2.2.2.2.2.2.2.2.2.2.2.2.2.2.2.1,
    extra := t.2.2.2.2.2.2.2.2.2.2.2.2.2.2.2.2.2.2.2.2.2.2.2.2.2.2.2.2.2.2.2.2.2.2.2.2.2.2.2.2.2.2.2.2.2.2.2.1,
    pid := t.2.2.2.2.2.2.2.2.2.2.2.2.2.2.2.2.2.2.2.2.2.2.2.2.2.2.2.2.2.2.2.2.2.2.2.2.2.2.2.2.2.2.2.2.2.2.2.2.1,
    activeStat := t.2.2.2.2.2.2.2.2.2.2.2.2.2.2.2.2.2.2.2.2.2.2.2.2.2.2.2.2.2.2.2.2.2.2.2.2.2.2.2.2.2.2.2.2.2.2.2.2.2.1,
    threadPoolActiveCount := t.2.2.2.2.2.2.2.2.2.2.2.2.2.2.2.2.2.2.2.2.2.2.2.2.2.2.2.2.2.2.2.2.2.2.2.2.2.2.2.2.2.2.2.2.2.2.2.2.2.2.1,
    threadPoolQueueSize := t.2.2.2.2.2.2.2.2.2.2.2.2.2.2.2.2.2.2.2.2.2.2.2.2.2.2.2.2.2.2.2.2.2.2.2.2.2.2.2.2.2.2.2.2.2.2.2.2.2.2.2.1,
    oidMeter := t.2.2.2.2.2.2.2.2.2.2.2.2.2.2.2.2.2.2.2.2.2.2.2.2.2.2.2.2.2.2.2.2.2.2.2.2.2.2.2.2.2.2.2.2.2.2.2.2.2.2.2.2.1,
    sqlMeter := t.2.2.2.2.2.2.2.2.2.2.2.2.2.2.2.2.2.2.2.2.2.2.2.2.2.2.2.2.2.2.2.2.2.2.2.2.2.2.2.2.2.2.2.2.2.2.2.2.2.2.2.2.2.1,
    httpcMeter := t.2.2.2.2.2.2.2.2.2.2.2.2.2.2.2.2.2.2.2.2.2.2.2.2.2.2.2.2.2.2.2.2.2.2.2.2.2.2.2.2.2.2.2.2.2.2.2.2.2.2.2.2.2.2.1,
    groupMeter := t.2.2.2.2.2.2.2.2.2.2.2.2.2.2.2.2.2.2.2.2.2.2.2.2.2.2.2.2.2.2.2.2.2.2.2.2.2.2.2.2.2.2.2.2.2.2.2.2.2.2.2.2.2.2.2.1,
    unknown := t.2.2.2.2.2.2.2.2.2.2.2.2.2.2.2.2.2.2.2.2.2.2.2.2.2.2.2.2.2.2.2.2.2.2.2.2.2.2.2.2.2.2.2.2.2.2.2.2.2.2.2.2.2.2.2.2.2.1,
    containerKey := t.2.2.2.2.2.2.2.2.2.2.2.2.2.2.2.2.2.2.2.2.2.2.2.2.2.2.2.2.2.2.2.2.2.2.2.2.2.2.2.2.2.2.2.2.2.2.2.2.2.2.2.2.2.2.2.2.2.2.1,
    txDbcTime := t.2.2.2.2.2.2.2.2.2.2.2.2.2.2.2.2.2.2.2.2.2.2.2.2.2.2.2.2.2.2.2.2.2.2.2.2.2.2.2.2.2.2.2.2.2.2.2.2.2.2.2.2.2.2.2.2.2.2.2.1,
    txSqlTime := t.2.2.2.2.2.2.2.2.2.2.2.2.2.2.2.2.2.2.2.2.2.2.2.2.2.2.2.2.2.2.2.2.2.2.2.2.2.2.2.2.2.2.2.2.2.2.2.2.2.2.2.2.2.2.2.2.2.2.2.2.1,
    txHttpcTime := t.2.2.2.2.2.2.2.2.2.2.2.2.2.2.2.2.2.2.2.2.2.2.2.2.2.2.2.2.2.2.2.2.2.2.2.2.2.2.2.2.2.2.2.2.2.2.2.2.2.2.2.2.2.2.2.2.2.2.2.2.2.1,
    apdexSatisfied := t.2.2.2.2.2.2.2.2.2.2.2.2.2.2.2.2.2.2.2.2.2.2.2.2.2.2.2.2.2.2.2.2.2.2.2.2.2.2.2.2.2.2.2.2.2.2.2.2.2.2.2.2.2.2.2.2.2.2.2.2.2.2.1,
    apdexTolerated := t.2.2.2.2.2.2.2.2.2.2.2.2.2.2.2.2.2.2.2.2.2.2.2.2.2.2.2.2.2.2.2.2.2.2.2.2.2.2.2.2.2.2.2.2.2.2.2.2.2.2.2.2.2.2.2.2.2.2.2.2.2.2.2.1,
    arrivalRate := t.2.2.2.2.2.2.2.2.2.2.2.2.2.2.2.2.2.2.2.2.2.2.2.2.2.2.2.2.2.2.2.2.2.2.2.2.2.2.2.2.2.2.2.2.2.2.2.2.2.2.2.2.2.2.2.2.2.2.2.2.2.2.2.2.1,
    gcOldgenCount := t.2.2.2.2.2.2.2.2.2.2.2.2.2.2.2.2.2.2.2.2.2.2.2.2.2.2.2.2.2.2.2.2.2.2.2.2.2.2.2.2.2.2.2.2.2.2.2.2.2.2.2.2.2.2.2.2.2.2.2.2.2.2.2.2.2.1,
    version := t.2.2.2.2.2.2.2.2.2.2.2.2.2.2.2.2.2.2.2.2.2.2.2.2.2.2.2.2.2.2.2.2.2.2.2.2.2.2.2.2.2.2.2.2.2.2.2.2.2.2.2.2.2.2.2.2.2.2.2.2.2.2.2.2.2.2.1,
    heapMax := t.2.2.2.2.2.2.2.2.2.2.2.2.2.2.2.2.2.2.2.2.2.2.2.2.2.2.2.2.2.2.2.2.2.2.2.2.2.2.2.2.2.2.2.2.2.2.2.2.2.2.2.2.2.2.2.2.2.2.2.2.2.2.2.2.2.2.2.1,
    procFdMax := t.2.2.2.2.2.2.2.2.2.2.2.2.2.2.2.2.2.2.2.2.2.2.2.2.2.2.2.2.2.2.2.2.2.2.2.2.2.2.2.2.2.2.2.2.2.2.2.2.2.2.2.2.2.2.2.2.2.2.2.2.2.2.2.2.2.2.2.2.1,
    metering := t.2.2.2.2.2.2.2.2.2.2.2.2.2.2.2.2.2.2.2.2.2.2.2.2.2.2.2.2.2.2.2.2.2.2.2.2.2.2.2.2.2.2.2.2.2.2.2.2.2.2.2.2.2.2.2.2.2.2.2.2.2.2.2.2.2.2.2.2.2.1,
    apdexTotal := t.2.2.2.2.2.2.2.2.2.2.2.2.2.2.2.2.2.2.2.2.2.2.2.2.2.2.2.2.2.2.2.2.2.2.2.2.2.2.2.2.2.2.2.2.2.2.2.2.2.2.2.2.2.2.2.2.2.2.2.2.2.2.2.2.2.2.2.2.2.2.1,
    poidMeter := t.2.2.2.2.2.2.2.2.2.2.2.2.2.2.2.2.2.2.2.2.2.2.2.2.2.2.2.2.2.2.2.2.2.2.2.2.2.2.2.2.2.2.2.2.2.2.2.2.2.2.2.2.2.2.2.2.2.2.2.2.2.2.2.2.2.2.2.2.2.2.2.1,
    resp90 := t.2.2.2.2.2.2.2.2.2.2.2.2.2.2.2.2.2.2.2.2.2.2.2.2.2.2.2.2.2.2.2.2.2.2.2.2.2.2.2.2.2.2.2.2.2.2.2.2.2.2.2.2.2.2.2.2.2.2.2.2.2.2.2.2.2.2.2.2.2.2.2.2.1,
    resp95 := t.2.2.2.2.2.2.2.2.2.2.2.2.2.2.2.2.2.2.2.2.2.2.2.2.2.2.2.2.2.2.2.2.2.2.2.2.2.2.2.2.2.2.2.2.2.2.2.2.2.2.2.2.2.2.2.2.2.2.2.2.2.2.2.2.2.2.2.2.2.2.2.2.2.1,
    timeSqrSum := t.2.2.2.2.2.2.2.2.2.2.2.2.2.2.2.2.2.2.2.2.2.2.2.2.2.2.2.2.2.2.2.2.2.2.2.2.2.2.2.2.2.2.2.2.2.2.2.2.2.2.2.2.2.2.2.2.2.2.2.2.2.2.2.2.2.2.2.2.2.2.2.2.2.2 }

def Counter.toTuple (p : Counter) : Int × Int × Int × Int × Int × Int × Int × Int × Int × Int × Int × Int × Int × Int × Int × Int × Int × Int × Int × Int × (List Int) × Nat × Nat × Nat × Nat × Nat × Nat × Nat × Int × Nat × Nat × Nat × Int × Int × Int × Int × (Option DbPool) × (Option NetStat) × Int × Nat × Int × Int × (Option WebSocket) × Int × Int × Int × Int × (Option (List (Int × Value))) × Int × (List Int) × Int × Int × (Option (List OidEntry)) × (Option (List SqlEntry)) × (Option (List OidEntry)) × (Option (List GroupEntry)) × Unit × (Option Unknown) × Int × Nat × Nat × Nat × Int × Int × Nat × Int × Nat × Int × Int × Nat × Int × (List PoidEntry) × Int × Int × Int :=
  (p.duration, p.cputime, p.heapTot, p.heapUse, p.heapPerm, p.heapPendingFinalization, p.gcCount, p.gcTime, p.serviceCount, p.serviceError, p.serviceTime, p.sqlCount, p.sqlError, p.sqlTime, p.sqlFetchCount, p.sqlFetchTime, p.httpcCount, p.httpcError, p.httpcTime, p.actSvcCount, p.actSvcSlice, p.cpu, p.cpuSys, p.cpuUsr, p.cpuWait, p.cpuSteal, p.cpuIrq, p.cpuProc, p.cpuCores, p.mem, p.swap, p.disk, p.threadTotalStarted, p.threadCount, p.threadDaemon, p.threadPeakCount, p.dbPool, p.netstat, p.procFd, p.tps, p.respTime, p.apType, p.websocket, p.starttime, p.packDropped, p.hostIp, p.macHash, p.extra, p.pid, p.activeStat, p.threadPoolActiveCount, p.threadPoolQueueSize, p.oidMeter, p.sqlMeter, p.httpcMeter, p.groupMeter, (), p.unknown, p.containerKey, p.txDbcTime, p.txSqlTime, p.txHttpcTime, p.apdexSatisfied, p.apdexTolerated, p.arrivalRate, p.gcOldgenCount, p.version, p.heapMax, p.procFdMax, p.metering, p.apdexTotal, p.poidMeter, p.resp90, p.resp95, p.timeSqrSum)

/-- the counter pack: header, then the blob holding the body -/
def counterC (wfv : Value → Prop) : Codec Counter :=
  iso (seq hdrC (wrapBlob (counterBodyT wfv))) (fun t => Counter.ofTuple t.1 t.2) (fun p => (p.hdr, p.toTuple))

set_option maxRecDepth 8000 in
theorem counterBodyT_enc (wfv : Value → Prop) (p : Counter) :
    (counterBodyT wfv).enc p.toTuple = encCounterBody p := by
  simp only [encCounterBody, List.flatten_cons, List.flatten_nil, List.append_nil]
  rfl

set_option maxRecDepth 8000 in
theorem counterC_enc (wfv : Value → Prop) (p : Counter) : (counterC wfv).enc p = encCounter p := by
  show encHdr p.hdr ++ encBlob ((counterBodyT wfv).enc p.toTuple) = _
  rw [counterBodyT_enc]; rfl

theorem counterC_RT (V : VOK) : (counterC V.wf).RT :=
  iso_RT (seq_RT hdrC_RT (wrapBlob_RT (counterBodyT_RT V))) (fun _ => rfl)

end Wire
