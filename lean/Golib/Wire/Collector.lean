/-
  Golib.Wire.Collector — a whole receiver ("a non-Go collector"): parse the frame, read the pack
  type, dispatch to the reference decoder of that pack, require that the payload is consumed exactly.

  `collect` is executable (the driver runs it on the frames the implementation produces); the theorems
  `C05.collector_decodes_*` state that it recovers project code, license hash, pack type and every
  field from what the reference encoder emits.
-/
import Golib.Wire.CounterCodec
import Golib.Wire.EventAttrs
import Golib.Value.WF

namespace Wire
open Prim Codec

inductive AnyPack where
  | tagcount (p : TagCount)
  | logsink (p : LogSink)
  | text (p : TextP)
  | param (p : Param)
  | event (e : Event)
  | zip (p : Zip)
  | hitmap (p : HitMap)
  | counter (p : Counter)
deriving Repr

structure Received where
  pcode : Int
  licHash : Int
  packType : Nat
  pack : AnyPack
deriving Repr

def mapDec (f : α → β) (d : Option (α × Bytes)) : Option (β × Bytes) :=
  match d with
  | none => none
  | some (x, r) => some (f x, r)

/-- decode the body of a pack of type `ty` -/
def decodeBody (ty : Nat) (body : Bytes) : Option (AnyPack × Bytes) :=
  if ty = typeTagCount then mapDec .tagcount ((tagCountC Value.WFV).dec body)
  else if ty = typeLogSink then mapDec .logsink ((logSinkC Value.WFV).dec body)
  else if ty = typeText then mapDec .text (textC.dec body)
  else if ty = typeParameter then mapDec .param ((paramC Value.WFV).dec body)
  else if ty = typeEvent then
    match eventWireC.dec body with
    | none => none
    | some (w, r) => match Event.ofWire w with
      | none => none
      | some e => some (.event e, r)
  else if ty = typeZip then mapDec .zip (zipC.dec body)
  else if ty = typeHitMap1 then mapDec .hitmap (hitMapC.dec body)
  else if ty = typeCounter1 then mapDec .counter ((counterC Value.WFV).dec body)
  else none

/-- the body must consume the payload exactly -/
def finish (pcode licHash : Int) (ty : Nat) (rest : Bytes) (d : Option (AnyPack × Bytes)) : Option (Received × Bytes) :=
  match d with
  | some (p, []) => some (⟨pcode, licHash, ty, p⟩, rest)
  | _ => none

/-- frame → payload → pack type → body (consumed exactly) -/
def collect (bs : Bytes) : Option (Received × Bytes) :=
  (P.run parseFrame bs).bind fun fr =>
    (P.run (rdU 2) fr.1.payload).bind fun tb =>
      finish fr.1.pcode fr.1.licHash tb.1 fr.2 (decodeBody tb.1 tb.2)

/-- the generic step of every `collector_decodes_*` theorem -/
theorem collect_frame (pcode : Int) (license body r : Bytes) (ty : Nat) (p : AnyPack)
    (hty : ty < 65536) (hp : inRange 8 pcode) (hl : (payload ty body).length < 2147483648)
    (hb : decodeBody ty body = some (p, [])) :
    collect (frame pcode license (payload ty body) ++ r) = some (⟨pcode, hash64 license, ty, p⟩, r) := by
  have h2 : P.run (rdU 2) (payload ty body) = some (ty, body) := by
    have := run_rdU 2 ty body (by omega)
    simpa [payload] using this
  generalize hd : decodeBody ty body = d at hb
  subst hb
  show Option.bind (P.run parseFrame (frame pcode license (payload ty body) ++ r)) _ = _
  rw [run_parseFrame pcode license (payload ty body) r hp hl, Option.bind_some]
  show Option.bind (P.run (rdU 2) (payload ty body)) _ = _
  rw [h2, Option.bind_some]
  dsimp only
  rw [hd]
  rfl

end Wire
