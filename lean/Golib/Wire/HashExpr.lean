/-
  Golib.Wire.HashExpr — a meaning for the integer expression that xlate/c05 transcribes from the loop
  body of util/hash `Hash64` (tie A of C05).

  `HExpr` is the syntax of the Go expression (variables `crc`, `b`, literals, `>>`, `^`, conversions,
  `table[…]`); `evalH` gives it Go's meaning on mathematical integers: `^` and `>>` act on the unsigned
  64-bit patterns of their operands (both operands of the transcribed expression are `uint64`), a
  conversion `T(x)` wraps `x` into the range of `T`.  `goHash64` assembles init / step / final / return
  conversion the way the function does (left-to-right loop over all bytes).
-/
import Golib.Wire.Hash

namespace Wire

inductive HExpr where
  | crc
  | b
  | lit (n : Nat)
  | shr (e : HExpr) (k : Nat)
  | xor (x y : HExpr)
  | conv (ty : String) (e : HExpr)
  | tbl (e : HExpr)
  | unknown (text : String)
deriving DecidableEq, Repr

/-- the unsigned 64-bit pattern of an integer -/
def u64 (x : Int) : Nat := (x % 18446744073709551616).toNat

/-- Go's `T(x)` for the integer types that occur -/
def convTo (ty : String) (x : Int) : Int :=
  match ty with
  | "uint64" => x % 18446744073709551616
  | "uint32" => x % 4294967296
  | "uint8" => x % 256
  | "byte" => x % 256
  | "int32" => let m := x % 4294967296; if m < 2147483648 then m else m - 4294967296
  | "int64" => let m := x % 18446744073709551616; if m < 9223372036854775808 then m else m - 18446744073709551616
  | _ => -1

def evalH : HExpr → Nat → Nat → Int
  | .crc, c, _ => c
  | .b, _, b => b
  | .lit n, _, _ => n
  | .shr e k, c, b => ((u64 (evalH e c b) / 2 ^ k : Nat) : Int)
  | .xor x y, c, b => ((u64 (evalH x c b) ^^^ u64 (evalH y c b) : Nat) : Int)
  | .conv ty e, c, b => convTo ty (evalH e c b)
  | .tbl e, c, b => (crcTable.getD (evalH e c b).toNat 0 : Nat)
  | .unknown _, _, _ => -1

/-- the function: register := init; for each byte: register := step; result := ret(final) -/
def goHash64 (init : Nat) (step final : HExpr) (ret : String) (bs : Bytes) : Int :=
  convTo ret (evalH final (bs.foldl (fun c b => u64 (evalH step c b)) init) 0)

theorem u64_ofNat (n : Nat) (h : n < 18446744073709551616) : u64 (n : Int) = n := by
  unfold u64
  rw [Int.emod_eq_of_lt (by omega) (by omega)]
  simp

theorem u64_wrap32 (t : Nat) (h : t < 4294967296) : u64 (convTo "int32" (t : Int)) = sx32 t := by
  unfold u64 convTo sx32
  simp only []
  have e : (t : Int) % 4294967296 = t := Int.emod_eq_of_lt (by omega) (by omega)
  rw [e]
  split <;> split <;> omega

theorem u64_convTo_uint64 (x : Int) : u64 (convTo "uint64" x) = u64 x := by
  unfold u64 convTo
  simp only []
  rw [Int.emod_emod_of_dvd _ (by decide)]

theorem convTo_uint64_ofNat (n : Nat) (h : n < 18446744073709551616) : convTo "uint64" (n : Int) = n := by
  unfold convTo; simp only []
  exact Int.emod_eq_of_lt (by omega) (by omega)

theorem convTo_uint8_ofNat (n : Nat) : (convTo "uint8" (n : Int)).toNat = n % 256 := by
  unfold convTo; simp only []
  omega

theorem convTo_int64_ofNat (n : Nat) (h : n < 18446744073709551616) : convTo "int64" (n : Int) = Prim.ofU 8 n := by
  unfold convTo Prim.ofU
  simp only []
  rw [Prim.modulus_8, Int.emod_eq_of_lt (by omega) (by omega)]
  split <;> split <;> omega


end Wire
