/-
  Golib.Wire.Codec — encoder/decoder pairs and their combinators.

  A `Codec α` packages an encoder, a *reference decoder* and the set of values the field can
  carry (`wf`).  `Codec.RT c` says: decoding what was encoded gives the value back and leaves
  whatever follows untouched.  Every combinator comes with the lemma that it preserves `RT`,
  so the decodability of a whole pack body follows from its shape.
-/
import Golib.Prim.Codec
import Golib.Value.Model
import Golib.Wire.Reference

namespace Wire
open Prim

structure Codec (α : Type) where
  enc : α → Bytes
  dec : Bytes → Option (α × Bytes)
  wf : α → Prop

namespace Codec

def RT (c : Codec α) : Prop := ∀ x r, c.wf x → c.dec (c.enc x ++ r) = some (x, r)

/-- a decodable encoding is injective on the values the fields can carry -/
theorem RT.injective {c : Codec α} (h : c.RT) (x y : α) (wx : c.wf x) (wy : c.wf y)
    (e : c.enc x = c.enc y) : x = y := by
  have hx := h x [] wx
  have hy := h y [] wy
  rw [e, hy] at hx
  simp at hx
  exact hx.symm

/-- … and prefix-free: no encoding is a proper prefix of another -/
theorem RT.prefix_free {c : Codec α} (h : c.RT) (x y : α) (r s : Bytes) (wx : c.wf x) (wy : c.wf y)
    (e : c.enc x ++ r = c.enc y ++ s) : x = y ∧ r = s := by
  have hx := h x r wx
  have hy := h y s wy
  rw [e, hy] at hx
  simp at hx
  exact ⟨hx.1.symm, hx.2.symm⟩

/-- a codec whose decoder is a program of the decoder monad -/
def ofP (enc : α → Bytes) (p : P α) (wf : α → Prop) : Codec α := ⟨enc, P.run p, wf⟩

/-! ### primitive fields -/

def decimal : Codec Int := ofP encDecimal decDecimal (inRange 8)
def i16 : Codec Int := ofP (encI 2) (rdI 2) (inRange 2)
def i32 : Codec Int := ofP (encI 4) (rdI 4) (inRange 4)
def i64 : Codec Int := ofP (encI 8) (rdI 8) (inRange 8)
/-- a float as its 32-bit pattern -/
def f32 : Codec Nat := ofP (beN 4) (rdU 4) (fun n => n < 4294967296)
/-- one unsigned byte -/
def u8 : Codec Nat := ofP (fun n => [n % 256]) (rdU 1) (fun n => n < 256)
/-- an unsigned 16-bit count (written by truncation, read masked with 0xffff) -/
def u16 : Codec Int where
  enc := encI 2
  dec bs := match P.run (rdU 2) bs with | none => none | some (n, r) => some ((n : Int), r)
  wf v := 0 ≤ v ∧ v < 65536
/-- blob / text -/
def blob : Codec Bytes := ofP encBlob decBlob (fun bs => bs.length < 2147483648)

theorem decimal_RT : decimal.RT := fun v r h => run_decDecimal v r h
theorem i16_RT : i16.RT := fun v r h => run_rdI 2 v r h
theorem i32_RT : i32.RT := fun v r h => run_rdI 4 v r h
theorem i64_RT : i64.RT := fun v r h => run_rdI 8 v r h
theorem f32_RT : f32.RT := fun n r h => run_rdU 4 n r h
theorem u8_RT : u8.RT := by
  intro n r h
  show P.run (rdU 1) ([n % 256] ++ r) = some (n, r)
  have : [n % 256] = beN 1 n := by simp [beN]
  rw [this]; exact run_rdU 1 n r h
theorem u16_RT : u16.RT := by
  intro v r h
  have h' : 0 ≤ v ∧ v < 65536 := h
  simp only [u16]
  have e : encI 2 v = beN 2 v.toNat := by
    unfold encI toU; rw [modulus_2, Int.emod_eq_of_lt h'.1 h'.2]
  rw [e, run_rdU 2 v.toNat r (by omega)]
  simp [Int.toNat_of_nonneg h'.1]
theorem blob_RT : blob.RT := fun bs r h => run_decBlob bs r h

/-! ### sequencing -/

def seq (a : Codec α) (b : Codec β) : Codec (α × β) where
  enc p := a.enc p.1 ++ b.enc p.2
  dec bs :=
    match a.dec bs with
    | none => none
    | some (x, r) =>
      match b.dec r with
      | none => none
      | some (y, r') => some ((x, y), r')
  wf p := a.wf p.1 ∧ b.wf p.2

theorem seq_RT {a : Codec α} {b : Codec β} (ha : a.RT) (hb : b.RT) : (a.seq b).RT := by
  intro p r h
  obtain ⟨x, y⟩ := p
  simp only [seq, List.append_assoc]
  rw [ha x _ h.1]
  simp only []
  rw [hb y _ h.2]

/-- fixed bytes (version bytes, reserved zero counts) -/
def lit (bs : Bytes) : Codec Unit where
  enc _ := bs
  dec inp := if inp.take bs.length = bs then some ((), inp.drop bs.length) else none
  wf _ := True

theorem lit_RT (bs : Bytes) : (lit bs).RT := by
  intro x r _
  simp [lit]

/-- change of representation -/
def iso (c : Codec α) (f : α → β) (g : β → α) : Codec β where
  enc b := c.enc (g b)
  dec bs := match c.dec bs with | none => none | some (a, r) => some (f a, r)
  wf b := c.wf (g b)

theorem iso_RT {c : Codec α} {f : α → β} {g : β → α} (hc : c.RT) (fg : ∀ b, f (g b) = b) :
    (c.iso f g).RT := by
  intro b r h
  simp only [iso]
  rw [hc (g b) r h]
  simp [fg]

/-- change of representation that is faithful only on part of the target type -/
def isoW (c : Codec α) (f : α → β) (g : β → α) (extra : β → Prop) : Codec β where
  enc b := c.enc (g b)
  dec bs := match c.dec bs with | none => none | some (a, r) => some (f a, r)
  wf b := c.wf (g b) ∧ extra b

theorem isoW_RT {c : Codec α} {f : α → β} {g : β → α} {extra : β → Prop} (hc : c.RT)
    (fg : ∀ b, extra b → f (g b) = b) : (c.isoW f g extra).RT := by
  intro b r h
  simp only [isoW]
  rw [hc (g b) r h.1]
  simp [fg b h.2]

/-! ### repetition -/

def decList (dec : Bytes → Option (α × Bytes)) : Nat → List α → Bytes → Option (List α × Bytes)
  | 0, acc, bs => some (acc.reverse, bs)
  | n+1, acc, bs =>
    match dec bs with
    | none => none
    | some (x, r) => decList dec n (x :: acc) r

theorem decList_encMany (c : Codec α) (hc : c.RT) (xs acc : List α) (r : Bytes)
    (h : ∀ x ∈ xs, c.wf x) :
    decList c.dec xs.length acc (encMany c.enc xs ++ r) = some (acc.reverse ++ xs, r) := by
  induction xs generalizing acc with
  | nil => simp [decList, encMany]
  | cons x xs ih =>
    simp only [List.length_cons, decList, encMany, List.append_assoc]
    rw [hc x _ (h x (by simp))]
    simp only []
    rw [ih (x :: acc) (fun y hy => h y (by simp [hy]))]
    simp

/-- a count field followed by that many elements -/
def counted (cnt : Codec Nat) (e : Codec α) : Codec (List α) where
  enc xs := cnt.enc xs.length ++ encMany e.enc xs
  dec bs :=
    match cnt.dec bs with
    | none => none
    | some (n, r) => decList e.dec n [] r
  wf xs := cnt.wf xs.length ∧ ∀ x ∈ xs, e.wf x

theorem counted_RT {cnt : Codec Nat} {e : Codec α} (hn : cnt.RT) (he : e.RT) : (counted cnt e).RT := by
  intro xs r h
  simp only [counted, List.append_assoc]
  rw [hn xs.length _ h.1]
  simp only []
  rw [decList_encMany e he xs [] r h.2]
  simp

/-- exactly `n` elements, no count on the wire -/
def rep (n : Nat) (e : Codec α) : Codec (List α) where
  enc xs := encMany e.enc xs
  dec bs := decList e.dec n [] bs
  wf xs := xs.length = n ∧ ∀ x ∈ xs, e.wf x

theorem rep_RT {n : Nat} {e : Codec α} (he : e.RT) : (rep n e).RT := by
  intro xs r h
  simp only [rep]
  rw [← h.1, decList_encMany e he xs [] r h.2]
  simp

/-- a count written as a decimal -/
def decimalCount : Codec Nat where
  enc n := encDecimal n
  dec bs := match P.run decDecimal bs with
    | none => none
    | some (v, r) => if v < 0 then none else some (v.toNat, r)
  wf n := n < 9223372036854775808

theorem decimalCount_RT : decimalCount.RT := by
  intro n r h
  have h' : n < 9223372036854775808 := h
  simp only [decimalCount]
  rw [run_decDecimal (n : Int) r ((inRange_8 _).mpr (by omega))]
  have : ¬ ((n : Int) < 0) := by omega
  simp [this]

/-- a count written as one byte -/
def byteCount : Codec Nat := u8

/-! ### optional sections -/

/-- presence byte (0 / 1), then the section -/
def opt (e : Codec α) : Codec (Option α) where
  enc := encOption 1 e.enc
  dec bs :=
    match bs with
    | [] => none
    | 0 :: r => some (none, r)
    | _ :: r => match e.dec r with | none => none | some (x, r') => some (some x, r')
  wf
    | none => True
    | some x => e.wf x

theorem opt_RT {e : Codec α} (he : e.RT) : (opt e).RT := by
  intro x r h
  cases x with
  | none => simp [opt, encOption]
  | some x =>
    simp only [opt, encOption, List.cons_append]
    rw [he x r h]

/-- a section introduced by a format-version byte `ver ≠ 0`; absent = the single byte 0 -/
def versioned (ver : Nat) (e : Codec α) : Codec (Option α) where
  enc := encOption ver e.enc
  dec bs :=
    match bs with
    | [] => none
    | b :: r =>
      if b = 0 then some (none, r)
      else if b = ver then match e.dec r with | none => none | some (x, r') => some (some x, r')
      else none
  wf
    | none => True
    | some x => ver ≠ 0 ∧ e.wf x

theorem versioned_RT {ver : Nat} {e : Codec α} (he : e.RT) : (versioned ver e).RT := by
  intro x r h
  cases x with
  | none => simp [versioned, encOption]
  | some x =>
    simp only [versioned, encOption, List.cons_append]
    rw [if_neg h.1]
    simp only [if_true, he x r h.2]

/-- a sub-stream carried inside a blob; the inner decoder must consume the blob exactly -/
def wrapBlob (e : Codec α) : Codec α where
  enc x := encBlob (e.enc x)
  dec bs :=
    match P.run decBlob bs with
    | none => none
    | some (inner, r) =>
      match e.dec inner with
      | some (x, []) => some (x, r)
      | _ => none
  wf x := e.wf x ∧ (e.enc x).length < 2147483648

theorem wrapBlob_RT {e : Codec α} (he : e.RT) : (wrapBlob e).RT := by
  intro x r h
  simp only [wrapBlob]
  rw [run_decBlob _ r h.2]
  have := he x [] h.1
  rw [List.append_nil] at this
  simp only [this]

/-! ### tagged values (the value codec is C02's; its round trip is a parameter) -/

/-- what C05 needs from the tagged value codec: a class of values that round-trips -/
structure VOK where
  wf : Value → Prop
  rt : ∀ v r, wf v → Value.decode (Value.encV v ++ r) = some (v, r)

def value (wfv : Value → Prop) : Codec Value := ⟨Value.encV, Value.decode, wfv⟩

theorem value_RT (V : VOK) : (value V.wf).RT := V.rt

/-- a string-keyed map value (tag 80) -/
def smap (wfv : Value → Prop) : Codec (List (Bytes × Value)) where
  enc kvs := Value.encV (.map kvs)
  dec bs := match Value.decode bs with
    | some (.map kvs, r) => some (kvs, r)
    | _ => none
  wf kvs := wfv (.map kvs)

theorem smap_RT (V : VOK) : (smap V.wf).RT := by
  intro kvs r h
  simp only [smap]
  rw [V.rt _ r h]

/-- an int-keyed map value (tag 81) -/
def imap (wfv : Value → Prop) : Codec (List (Int × Value)) where
  enc kvs := Value.encV (.imap kvs)
  dec bs := match Value.decode bs with
    | some (.imap kvs, r) => some (kvs, r)
    | _ => none
  wf kvs := wfv (.imap kvs)

theorem imap_RT (V : VOK) : (imap V.wf).RT := by
  intro kvs r h
  simp only [imap]
  rw [V.rt _ r h]

end Codec
end Wire
