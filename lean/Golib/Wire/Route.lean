/-
  Send routes of the one-way client, transcribed statement by statement (tie A for the queue-mode clauses of C05).

  `xlate/c05` emits EVERY statement of `Send` and `SendFlush` (not only the writes) as `RStmt`s: receiver `_L0`,
  parameters `_L1 …` in order, locals after them.  `sendFlushMeaning` gives the statements of `SendFlush` their
  meaning on the value-level model of the client (`Wire.Queue.Client`): in queue mode exactly one thing happens —
  a `TcpSend` whose `Pack` is the caller's pack pointer and whose `Opts` are the caller's options is put on the
  client's queue — and otherwise the pack and the options are handed to `sendDirect` unchanged.  Any other
  statement (a call on the pack, an assignment, a further condition) has no meaning here: `.bad`.
-/
import Golib.Wire.QueueRoute

namespace Wire

inductive RStmt where
  | ifElse (cond : String) (t e : List RStmt)
  | put (queue typ : String) (fields : List (String × String))
  | call (fn : String) (args : List String)
  | assign (lhs rhs : String)
  | retCall (fn : String) (args : List String)
  | ret (e : String)
  | other (text : String)

inductive RouteOutcome (σ : Type) where
  | enqueued (c : Queue.Client σ)     -- the client after the call
  | direct (pack opts : String)       -- handed on to sendDirect: which expression as pack, which as options
  | delegated (fn : String) (args : List String)
  | bad

def fieldOf (k : String) : List (String × String) → Option String
  | [] => none
  | (k', v) :: rest => if k' = k then some v else fieldOf k rest

/-- the meaning of `SendFlush(p, flush, opts...)` (`_L0` receiver, `_L1` = p, `_L2` = flush, `_L3` = opts) on a
    client `c` whose caller passes object `ref` and per-send license `lic` -/
def sendFlushMeaning {σ : Type} (enc : Bytes → σ → Bytes) (after : σ → σ) (useQueue : Bool) (ref : Nat) (lic : Bytes)
    (c : Queue.Client σ) : List RStmt → RouteOutcome σ
  | [.ifElse "_L0.UseQueue"
      [.put "_L0.Queue" "wnet.TcpSend" fields, .ifElse _ [.ret _] [.retCall "errors.New" _]]
      [.retCall "_L0.sendDirect" [p, o]]] =>
    if useQueue then
      (if fieldOf "Pack" fields = some "_L1" ∧ fieldOf "Opts" fields = some "_L3" ∧ fieldOf "Flush" fields = some "_L2"
       then .enqueued (Queue.step enc after c (.send ref lic)) else .bad)
    else .direct p o
  | _ => .bad

/-- the meaning of a function that only delegates -/
def delegateMeaning {σ : Type} : List RStmt → RouteOutcome σ
  | [.retCall fn args] => .delegated fn args
  | _ => .bad

end Wire
