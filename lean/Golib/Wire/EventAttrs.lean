/-
  Golib.Wire.EventAttrs — what a receiver does with the attributes of an event pack, and the proof
  that it gets uuid, escalation, status and object type back.

  The event pack has no wire fields for these four; they travel as attributes under reserved keys
  (`_uuid_`, `_esca_`, `_status_`, `_otype_`; status and object type as decimal text).  A receiver
  looks the keys up, parses the two numbers and removes the reserved keys from the attribute map.
-/
import Golib.Wire.Reference

set_option linter.unusedSimpArgs false

namespace Wire

/-! ### decimal text -/

def digitStep (acc : Option Nat) (d : Nat) : Option Nat :=
  acc.bind (fun a => if 48 ≤ d ∧ d ≤ 57 then some (a * 10 + (d - 48)) else none)

/-- value of a non-empty string of ASCII digits -/
def digitsVal (ds : List Nat) : Option Nat := if ds = [] then none else ds.foldl digitStep (some 0)

/-- `strconv.Atoi` on the texts the writer produces: optional minus sign, then digits -/
def parseDecText : Bytes → Option Int
  | 45 :: ds => (digitsVal ds).map (fun n => -(n : Int))
  | ds => (digitsVal ds).map (fun n => (n : Int))

theorem natDigits_ne_nil (f n : Nat) : natDigits f n ≠ [] := by
  induction f generalizing n with
  | zero => simp [natDigits]
  | succ f ih =>
    unfold natDigits
    split
    · simp
    · simp

theorem natDigits_val (f n : Nat) (h : n ≤ f) : (natDigits f n).foldl digitStep (some 0) = some n := by
  induction f generalizing n with
  | zero =>
    have : n = 0 := by omega
    subst this
    simp [natDigits, digitStep]
  | succ f ih =>
    unfold natDigits
    split
    · rename_i hlt
      simp only [List.foldl_cons, List.foldl_nil, digitStep, Option.bind_some]
      rw [if_pos (by omega)]
      congr 1; omega
    · rename_i hge
      rw [List.foldl_append, ih (n / 10) (by omega)]
      simp only [List.foldl_cons, List.foldl_nil, digitStep, Option.bind_some]
      rw [if_pos (by omega)]
      congr 1; omega

theorem natDigits_head (f n : Nat) : ∃ d rest, natDigits f n = d :: rest ∧ 48 ≤ d ∧ d ≤ 57 := by
  induction f generalizing n with
  | zero => exact ⟨48, [], rfl, by omega, by omega⟩
  | succ f ih =>
    unfold natDigits
    split
    · exact ⟨48 + n, [], rfl, by omega, by omega⟩
    · obtain ⟨d, rest, hr, h1, h2⟩ := ih (n / 10)
      exact ⟨d, rest ++ [48 + n % 10], by rw [hr]; rfl, h1, h2⟩

theorem digitsVal_natDigits (n : Nat) : digitsVal (natDigits n n) = some n := by
  unfold digitsVal
  rw [if_neg (natDigits_ne_nil n n)]
  exact natDigits_val n n (Nat.le_refl n)

/-- the decimal text of any integer parses back to it -/
theorem parseDecText_decText (v : Int) : parseDecText (decText v) = some v := by
  unfold decText
  split
  · rename_i hneg
    simp only [parseDecText, digitsVal_natDigits]
    have : (v.natAbs : Int) = -v := Int.ofNat_natAbs_of_nonpos (by omega)
    simp [this]
  · rename_i hpos
    obtain ⟨d, rest, hr, h1, h2⟩ := natDigits_head v.natAbs v.natAbs
    have hv := digitsVal_natDigits v.natAbs
    rw [hr] at hv ⊢
    have hd : d ≠ 45 := by omega
    unfold parseDecText
    split
    · rename_i heq
      simp at heq; omega
    · simp only [hv]
      have : (v.natAbs : Int) = v := Int.natAbs_of_nonneg (by omega)
      simp [this]

/-! ### unfolding the attributes -/

def lookupAttr (kvs : List (Bytes × Bytes)) (k : Bytes) : Option Bytes :=
  (kvs.find? (fun p => p.1 == k)).map (·.2)

def reserved (k : Bytes) : Bool := k == keyUuid || k == keyEsca || k == keyStatus || k == keyOtype

/-- what a receiver reconstructs from the wire form of an event -/
def Event.ofWire (w : EventWire) : Option Event :=
  match (lookupAttr w.attrs keyStatus).bind parseDecText, (lookupAttr w.attrs keyOtype).bind parseDecText with
  | some st, some ot =>
    some { hdr := w.hdr,
           uuid := (lookupAttr w.attrs keyUuid).getD [],
           escalation := lookupAttr w.attrs keyEsca == some (ascii "true"),
           level := w.level, title := w.title, message := w.message,
           status := st, otype := ot,
           attr := w.attrs.filter (fun p => !reserved p.1) }
  | _, _ => none

theorem putAttr_new (kvs : List (Bytes × Bytes)) (k v : Bytes) (h : ∀ p ∈ kvs, p.1 ≠ k) :
    putAttr kvs k v = kvs ++ [(k, v)] := by
  unfold putAttr
  have : kvs.any (fun p => p.1 == k) = false := by
    rw [List.any_eq_false]
    intro p hp
    simp [h p hp]
  simp [this]

theorem lookupAttr_append_miss (a b : List (Bytes × Bytes)) (k : Bytes) (h : ∀ p ∈ a, p.1 ≠ k) :
    lookupAttr (a ++ b) k = lookupAttr b k := by
  unfold lookupAttr
  rw [List.find?_append]
  have : a.find? (fun p => p.1 == k) = none := by
    rw [List.find?_eq_none]
    intro p hp
    simp [h p hp]
  rw [this]; simp

/-- the attributes as they travel when the user's attributes do not use reserved keys:
    the user's entries, then uuid (if any), escalation, status, object type -/
theorem foldAttrs_eq (e : Event) (h : ∀ p ∈ e.attr, reserved p.1 = false) :
    foldAttrs e = e.attr ++ ((if e.uuid = [] then [] else [(keyUuid, e.uuid)]) ++
      [(keyEsca, ascii (if e.escalation then "true" else "false")),
       (keyStatus, decText e.status), (keyOtype, decText e.otype)]) := by
  have hk : ∀ p ∈ e.attr, p.1 ≠ keyUuid ∧ p.1 ≠ keyEsca ∧ p.1 ≠ keyStatus ∧ p.1 ≠ keyOtype := by
    intro p hp
    have := h p hp
    simp only [reserved, Bool.or_eq_false_iff, beq_eq_false_iff_ne] at this
    exact ⟨this.1.1.1, this.1.1.2, this.1.2, this.2⟩
  have k1 : keyUuid ≠ keyEsca := by decide
  have k2 : keyUuid ≠ keyStatus := by decide
  have k3 : keyUuid ≠ keyOtype := by decide
  have k4 : keyEsca ≠ keyStatus := by decide
  have k5 : keyEsca ≠ keyOtype := by decide
  have k6 : keyStatus ≠ keyOtype := by decide
  unfold foldAttrs
  by_cases hu : e.uuid = []
  · simp only [hu, if_true]
    rw [putAttr_new e.attr keyEsca _ (fun p hp => (hk p hp).2.1)]
    rw [putAttr_new _ keyStatus _ (by
      intro p hp
      rcases List.mem_append.mp hp with hp | hp
      · exact (hk p hp).2.2.1
      · simp at hp; rw [hp]; exact k4)]
    rw [putAttr_new _ keyOtype _ (by
      intro p hp
      rcases List.mem_append.mp hp with hp | hp
      · rcases List.mem_append.mp hp with hp | hp
        · exact (hk p hp).2.2.2
        · simp at hp; rw [hp]; exact k5
      · simp at hp; rw [hp]; exact k6)]
    simp
  · simp only [hu, if_false]
    rw [putAttr_new e.attr keyUuid _ (fun p hp => (hk p hp).1)]
    rw [putAttr_new _ keyEsca _ (by
      intro p hp
      rcases List.mem_append.mp hp with hp | hp
      · exact (hk p hp).2.1
      · simp at hp; rw [hp]; exact k1)]
    rw [putAttr_new _ keyStatus _ (by
      intro p hp
      rcases List.mem_append.mp hp with hp | hp
      · rcases List.mem_append.mp hp with hp | hp
        · exact (hk p hp).2.2.1
        · simp at hp; rw [hp]; exact k2
      · simp at hp; rw [hp]; exact k4)]
    rw [putAttr_new _ keyOtype _ (by
      intro p hp
      rcases List.mem_append.mp hp with hp | hp
      · rcases List.mem_append.mp hp with hp | hp
        · rcases List.mem_append.mp hp with hp | hp
          · exact (hk p hp).2.2.2
          · simp at hp; rw [hp]; exact k3
        · simp at hp; rw [hp]; exact k5
      · simp at hp; rw [hp]; exact k6)]
    simp

/-- a receiver recovers the whole event — uuid, escalation, status, object type and the user's
    attributes — from the wire form -/
theorem Event.ofWire_toWire (e : Event) (h : ∀ p ∈ e.attr, reserved p.1 = false) :
    Event.ofWire e.toWire = some e := by
  have hk : ∀ (k : Bytes), reserved k = true → ∀ p ∈ e.attr, p.1 ≠ k := by
    intro k hkr p hp heq
    have := h p hp
    rw [heq, hkr] at this
    exact Bool.noConfusion this
  have k1 : keyUuid ≠ keyEsca := by decide
  have k2 : keyUuid ≠ keyStatus := by decide
  have k3 : keyUuid ≠ keyOtype := by decide
  have k4 : keyEsca ≠ keyStatus := by decide
  have k5 : keyEsca ≠ keyOtype := by decide
  have k6 : keyStatus ≠ keyOtype := by decide
  have filt : e.attr.filter (fun p => !reserved p.1) = e.attr := by
    rw [List.filter_eq_self]
    intro p hp
    simp [h p hp]
  have b12 : (keyUuid == keyEsca) = false := by decide
  have b13 : (keyUuid == keyStatus) = false := by decide
  have b14 : (keyUuid == keyOtype) = false := by decide
  have b21 : (keyEsca == keyUuid) = false := by decide
  have b23 : (keyEsca == keyStatus) = false := by decide
  have b24 : (keyEsca == keyOtype) = false := by decide
  have b31 : (keyStatus == keyUuid) = false := by decide
  have b32 : (keyStatus == keyEsca) = false := by decide
  have b34 : (keyStatus == keyOtype) = false := by decide
  have b41 : (keyOtype == keyUuid) = false := by decide
  have b42 : (keyOtype == keyEsca) = false := by decide
  have b43 : (keyOtype == keyStatus) = false := by decide
  unfold Event.ofWire Event.toWire
  simp only [foldAttrs_eq e h]
  rw [lookupAttr_append_miss _ _ keyStatus (hk keyStatus (by decide)),
      lookupAttr_append_miss _ _ keyOtype (hk keyOtype (by decide)),
      lookupAttr_append_miss _ _ keyUuid (hk keyUuid (by decide)),
      lookupAttr_append_miss _ _ keyEsca (hk keyEsca (by decide))]
  have rsv : ∀ k, (k == keyUuid) = true ∨ (k == keyEsca) = true ∨ (k == keyStatus) = true ∨ (k == keyOtype) = true →
      reserved k = true := by
    intro k hk'
    unfold reserved
    rcases hk' with h' | h' | h' | h' <;> simp [h']
  by_cases hu : e.uuid = []
  · have l1 : lookupAttr [(keyEsca, ascii (if e.escalation then "true" else "false")),
        (keyStatus, decText e.status), (keyOtype, decText e.otype)] keyStatus = some (decText e.status) := by
      simp [lookupAttr, List.find?, b12, b13, b14, b21, b23, b24, b31, b32, b34, b41, b42, b43]
    have l2 : lookupAttr [(keyEsca, ascii (if e.escalation then "true" else "false")),
        (keyStatus, decText e.status), (keyOtype, decText e.otype)] keyOtype = some (decText e.otype) := by
      simp [lookupAttr, List.find?, b12, b13, b14, b21, b23, b24, b31, b32, b34, b41, b42, b43]
    have l3 : lookupAttr [(keyEsca, ascii (if e.escalation then "true" else "false")),
        (keyStatus, decText e.status), (keyOtype, decText e.otype)] keyUuid = none := by
      simp [lookupAttr, List.find?, b12, b13, b14, b21, b23, b24, b31, b32, b34, b41, b42, b43]
    have l4 : lookupAttr [(keyEsca, ascii (if e.escalation then "true" else "false")),
        (keyStatus, decText e.status), (keyOtype, decText e.otype)] keyEsca
          = some (ascii (if e.escalation then "true" else "false")) := by
      simp [lookupAttr, List.find?, b12, b13, b14, b21, b23, b24, b31, b32, b34, b41, b42, b43]
    simp only [hu, if_true, List.nil_append, l1, l2, l3, l4, Option.bind_some, parseDecText_decText,
      Option.getD_none]
    have f2 : List.filter (fun p : Bytes × Bytes => !reserved p.1)
        (e.attr ++ [(keyEsca, ascii (if e.escalation then "true" else "false")),
          (keyStatus, decText e.status), (keyOtype, decText e.otype)]) = e.attr := by
      rw [List.filter_append, filt]
      have r1 : reserved keyEsca = true := by decide
      have r2 : reserved keyStatus = true := by decide
      have r3 : reserved keyOtype = true := by decide
      simp [List.filter, r1, r2, r3]
    rw [f2]
    have esc : (some (ascii (if e.escalation then "true" else "false")) == some (ascii "true")) = e.escalation := by
      cases e.escalation <;> decide
    rw [esc]
    cases e
    simp_all
  · have l1 : lookupAttr ([(keyUuid, e.uuid)] ++ [(keyEsca, ascii (if e.escalation then "true" else "false")),
        (keyStatus, decText e.status), (keyOtype, decText e.otype)]) keyStatus = some (decText e.status) := by
      simp [lookupAttr, List.find?, b12, b13, b14, b21, b23, b24, b31, b32, b34, b41, b42, b43]
    have l2 : lookupAttr ([(keyUuid, e.uuid)] ++ [(keyEsca, ascii (if e.escalation then "true" else "false")),
        (keyStatus, decText e.status), (keyOtype, decText e.otype)]) keyOtype = some (decText e.otype) := by
      simp [lookupAttr, List.find?, b12, b13, b14, b21, b23, b24, b31, b32, b34, b41, b42, b43]
    have l3 : lookupAttr ([(keyUuid, e.uuid)] ++ [(keyEsca, ascii (if e.escalation then "true" else "false")),
        (keyStatus, decText e.status), (keyOtype, decText e.otype)]) keyUuid = some e.uuid := by
      simp [lookupAttr, List.find?, b12, b13, b14, b21, b23, b24, b31, b32, b34, b41, b42, b43]
    have l4 : lookupAttr ([(keyUuid, e.uuid)] ++ [(keyEsca, ascii (if e.escalation then "true" else "false")),
        (keyStatus, decText e.status), (keyOtype, decText e.otype)]) keyEsca
          = some (ascii (if e.escalation then "true" else "false")) := by
      simp [lookupAttr, List.find?, b12, b13, b14, b21, b23, b24, b31, b32, b34, b41, b42, b43]
    simp only [hu, if_false, l1, l2, l3, l4, Option.bind_some, parseDecText_decText, Option.getD_some]
    have f2 : List.filter (fun p : Bytes × Bytes => !reserved p.1)
        (e.attr ++ ([(keyUuid, e.uuid)] ++ [(keyEsca, ascii (if e.escalation then "true" else "false")),
          (keyStatus, decText e.status), (keyOtype, decText e.otype)])) = e.attr := by
      rw [List.filter_append, filt]
      have r0 : reserved keyUuid = true := by decide
      have r1 : reserved keyEsca = true := by decide
      have r2 : reserved keyStatus = true := by decide
      have r3 : reserved keyOtype = true := by decide
      simp [List.filter, r0, r1, r2, r3]
    rw [f2]
    have esc : (some (ascii (if e.escalation then "true" else "false")) == some (ascii "true")) = e.escalation := by
      cases e.escalation <;> decide
    rw [esc]

/-- the public state of an event after it was sent: the attributes under reserved keys exist only on the wire,
    a send takes them out of the object's attribute map again -/
def Event.afterSend (e : Event) : Event := { e with attr := e.attr.filter (fun p => !reserved p.1) }

theorem Event.afterSend_id (e : Event) (h : ∀ p ∈ e.attr, reserved p.1 = false) : e.afterSend = e := by
  have : e.attr.filter (fun p => !reserved p.1) = e.attr := by
    rw [List.filter_eq_self]
    intro p hp
    simp [h p hp]
  unfold Event.afterSend
  rw [this]

theorem Event.afterSend_idem (e : Event) : e.afterSend.afterSend = e.afterSend := by
  simp [Event.afterSend, List.filter_filter]

end Wire
