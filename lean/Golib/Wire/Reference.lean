/-
  Golib.Wire.Reference — the *independent reference encoder* of the collector protocol (Spec of C05).

  Written from the protocol layout, field by field; nothing here is generated from the Go source.

    frame    = [10, 0] ++ be8 pcode ++ be8 (hash64 license) ++ be4 |payload| ++ payload
    payload  = be2 packType ++ body
    body     = common header ++ the pack's own fields

  Strings travel as their UTF-8 bytes (`Bytes`), floats as IEEE-754 bit patterns (`Nat`),
  integers as unbounded `Int` (the fixed-width encoders reduce them modulo 256^w; the
  well-formedness predicates of Golib.Wire.Decode say which values a field can carry).
  Maps are association lists in iteration order.
-/
import Golib.Prim.Codec
import Golib.Value.Model
import Golib.Wire.Hash

namespace Wire
open Prim

/-! ### constants of the protocol -/

/-- frame source byte of a one-way agent -/
def netSrcOneWay : Nat := 10
/-- frame version byte -/
def netSrcVersion : Nat := 0
/-- first byte of the extended common header -/
def hdrMarker : Nat := 9

def typeParameter : Nat := 0x0100
def typeCounter1 : Nat := 0x0201
def typeText : Nat := 0x0700
def typeEvent : Nat := 0x1400
def typeHitMap1 : Nat := 0x1501
def typeTagCount : Nat := 0x1601
def typeLogSink : Nat := 0x170a
def typeZip : Nat := 0x170b

/-- number of hit-map cells -/
def hitMapLength : Nat := 120

/-! ### frame -/

/-- a text field: blob of the UTF-8 bytes (the empty text is the single byte 0) -/
def encText (s : Bytes) : Bytes := encBlob s

def payload (packType : Nat) (body : Bytes) : Bytes := beN 2 packType ++ body

def frame (pcode : Int) (license : Bytes) (pl : Bytes) : Bytes :=
  [netSrcOneWay, netSrcVersion] ++ (encI 8 pcode ++ (encI 8 (hash64 license) ++ (encI 4 pl.length ++ pl)))

/-- the frame variant with an object id and a transfer key instead of the license hash
    (`DataOutputX.WriteSecureHeader`): source, version, be8 pcode, be4 oid, be4 key, be4 |payload|, payload -/
def secureFrame (src ver : Nat) (pcode oid key : Int) (pl : Bytes) : Bytes :=
  [src % 256] ++ ([ver % 256] ++ (encI 8 pcode ++ (encI 4 oid ++ (encI 4 key ++ (encI 4 pl.length ++ pl)))))

/-- block padding of a payload (`pack.ToBytesPackECB`): zero bytes up to the next multiple of `n` -/
def padECB (n : Nat) (bs : Bytes) : Bytes :=
  if bs.length % n = 0 then bs else bs ++ List.replicate (n - bs.length % n) 0

/-! ### common header -/

structure Hdr where
  pcode : Int
  oid : Int
  okind : Int
  onode : Int
  time : Int
deriving Repr, DecidableEq

/-- the extended form is used exactly when kind or node is non-zero -/
def Hdr.extended (h : Hdr) : Bool := h.okind != 0 || h.onode != 0

def encHdrShort (h : Hdr) : Bytes := encDecimal h.pcode ++ (encI 4 h.oid ++ encI 8 h.time)

def encHdrExt (h : Hdr) : Bytes :=
  hdrMarker :: (encDecimal h.pcode ++ (encI 4 h.oid ++ (encI 4 h.okind ++ (encI 4 h.onode ++ encI 8 h.time))))

def encHdr (h : Hdr) : Bytes := if h.extended then encHdrExt h else encHdrShort h

/-! ### small shared pieces -/

/-- a tagged string-keyed map value -/
def encMap (kvs : List (Bytes × Value)) : Bytes := Value.encV (.map kvs)

/-- one-byte count, then 16-bit elements (counter pack: active-service slices, active stat, acts) -/
def encShorts8 (xs : List Int) : Bytes := (xs.length % 256) :: encMany (encI 2) xs

/-- an optional section: the single byte 0 when absent, else the byte `present` and the section -/
def encOption (present : Nat) (enc : α → Bytes) : Option α → Bytes
  | none => [0]
  | some x => present :: enc x

/-- the tag hash a pack carries: a stored non-zero hash is written as is; otherwise, when there
    are tags, it is the 64-bit hash of the encoded tag map -/
def effTagHash (stored : Int) (tags : List (Bytes × Value)) : Int :=
  if stored = 0 ∧ tags ≠ [] then hash64 (encMap tags) else stored

/-! ### tag-count pack -/

structure TagCount where
  hdr : Hdr
  category : Bytes
  tagHash : Int
  tags : List (Bytes × Value)
  data : List (Bytes × Value)
deriving Repr

/-- the fields as they travel: the tag hash is the effective one -/
def TagCount.norm (p : TagCount) : TagCount := { p with tagHash := effTagHash p.tagHash p.tags }

/-- layout: header, version byte 0, category, tag hash, tag map, data map -/
def encTagCountRaw (p : TagCount) : Bytes :=
  encHdr p.hdr ++ ([0] ++ (encText p.category ++ (encDecimal p.tagHash ++
    (encMap p.tags ++ encMap p.data))))

def encTagCount (p : TagCount) : Bytes := encTagCountRaw p.norm

/-! ### log-sink pack -/

structure LogSink where
  hdr : Hdr
  category : Bytes
  tagHash : Int
  tags : List (Bytes × Value)
  line : Int
  content : Bytes
  fields : List (Bytes × Value)
deriving Repr

/-- optional field map: presence byte, then the map when there is at least one field -/
def optOfMap (kvs : List (Bytes × Value)) : Option (List (Bytes × Value)) :=
  match kvs with
  | [] => none
  | _ => some kvs

def encOptMap (kvs : List (Bytes × Value)) : Bytes := encOption 1 encMap (optOfMap kvs)

def LogSink.norm (p : LogSink) : LogSink := { p with tagHash := effTagHash p.tagHash p.tags }

/-- layout: header, version byte 0, category, tag hash, tag map, line, content, optional fields -/
def encLogSinkRaw (p : LogSink) : Bytes :=
  encHdr p.hdr ++ ([0] ++ (encText p.category ++ (encDecimal p.tagHash ++
    (encMap p.tags ++ (encDecimal p.line ++ (encText p.content ++ encOptMap p.fields))))))

def encLogSink (p : LogSink) : Bytes := encLogSinkRaw p.norm

/-! ### text pack -/

structure TextRec where
  div : Nat
  hash : Int
  text : Bytes
deriving Repr, DecidableEq

def encTextRec (r : TextRec) : Bytes := [r.div % 256] ++ (encI 4 r.hash ++ encText r.text)

structure TextP where
  hdr : Hdr
  records : List TextRec
deriving Repr, DecidableEq

def encTextP (p : TextP) : Bytes :=
  encHdr p.hdr ++ (encDecimal p.records.length ++ encMany encTextRec p.records)

/-! ### parameter pack -/

structure Param where
  hdr : Hdr
  id : Int
  request : Int
  response : Int
  table : List (Bytes × Value)
deriving Repr

def encParamEntry (kv : Bytes × Value) : Bytes := encText kv.1 ++ Value.encV kv.2

def encParam (p : Param) : Bytes :=
  encHdr p.hdr ++ (encI 4 p.id ++ (encDecimal p.request ++ (encDecimal p.response ++
    (encDecimal p.table.length ++ encMany encParamEntry p.table))))

/-! ### event pack -/

structure Event where
  hdr : Hdr
  uuid : Bytes
  escalation : Bool
  level : Nat
  title : Bytes
  message : Bytes
  status : Int
  otype : Int
  attr : List (Bytes × Bytes)
deriving Repr, DecidableEq

/-- ASCII of a string literal -/
def ascii (s : String) : Bytes := s.toList.map Char.toNat

def keyEsca : Bytes := ascii "_esca_"
def keyUuid : Bytes := ascii "_uuid_"
def keyStatus : Bytes := ascii "_status_"
def keyOtype : Bytes := ascii "_otype_"

/-- decimal digits of a natural number, most significant first (at least one digit) -/
def natDigits : Nat → Nat → List Nat
  | 0, _ => [48]
  | fuel+1, n => if n < 10 then [48 + n] else natDigits fuel (n / 10) ++ [48 + n % 10]

/-- the decimal text of an integer (`fmt.Sprintf("%d", v)`) -/
def decText (v : Int) : Bytes :=
  if v < 0 then 45 :: natDigits v.natAbs v.natAbs else natDigits v.natAbs v.natAbs

/-- put into an insertion-ordered text map: an existing key keeps its place -/
def putAttr (kvs : List (Bytes × Bytes)) (k v : Bytes) : List (Bytes × Bytes) :=
  if kvs.any (fun p => p.1 == k) then kvs.map (fun p => if p.1 = k then (p.1, v) else p)
  else kvs ++ [(k, v)]

/-- the attribute map as it travels: uuid (when set), escalation, status and object type are
    folded into reserved keys -/
def foldAttrs (e : Event) : List (Bytes × Bytes) :=
  let a0 := if e.uuid = [] then e.attr else putAttr e.attr keyUuid e.uuid
  let a1 := putAttr a0 keyEsca (ascii (if e.escalation then "true" else "false"))
  let a2 := putAttr a1 keyStatus (decText e.status)
  putAttr a2 keyOtype (decText e.otype)

def encAttrEntry (kv : Bytes × Bytes) : Bytes := encText kv.1 ++ encText kv.2

/-- the event as it travels -/
structure EventWire where
  hdr : Hdr
  level : Nat
  title : Bytes
  message : Bytes
  attrs : List (Bytes × Bytes)
deriving Repr, DecidableEq

def Event.toWire (e : Event) : EventWire := ⟨e.hdr, e.level, e.title, e.message, foldAttrs e⟩

/-- layout: header, level byte, title, message, one-byte attribute count, (key, value) texts -/
def encEventWire (w : EventWire) : Bytes :=
  encHdr w.hdr ++ ([w.level % 256] ++ (encText w.title ++ (encText w.message ++
    ([w.attrs.length % 256] ++ encMany encAttrEntry w.attrs))))

def encEvent (e : Event) : Bytes := encEventWire e.toWire

/-! ### zip pack -/

structure Zip where
  hdr : Hdr
  status : Nat
  recordCount : Int
  records : Bytes
deriving Repr, DecidableEq

def encZip (p : Zip) : Bytes :=
  encHdr p.hdr ++ ([p.status % 256] ++ (encDecimal p.recordCount ++ encBlob p.records))

/-! ### hit-map pack -/

structure HitMap where
  hdr : Hdr
  hit : List Int
  error : List Int
deriving Repr, DecidableEq

/-- cells interleaved: hit[0], error[0], hit[1], error[1], … as 16-bit fields -/
def encCells : List Int → List Int → Bytes
  | h :: hs, e :: es => encI 2 h ++ (encI 2 e ++ encCells hs es)
  | _, _ => []

def encHitMap (p : HitMap) : Bytes :=
  encHdr p.hdr ++ ([1] ++ encCells (p.hit.take hitMapLength) (p.error.take hitMapLength))

end Wire
