/-
  Golib.Wire.Steps — a meaning for the write steps that xlate/c05 transcribes from the Go `Write`
  methods (tie A of C05).

  A step is a statement of a Go function that puts bytes on a stream; if / for statements carry their
  bodies (nested steps).  `run` gives a step list its bytes relative to a semantics `Sem`: what each
  written Go expression holds (`env`), the truth of each condition (`cond`), the elements a loop visits
  (`coll`: per element, the meaning of the expressions of the loop body), what a helper call
  contributes (`call`).  The obligations `…_is_reference` in Golib/Props/C05Gen.lean state, for all field
  values, that the regenerated step list of a function means exactly the reference encoder.
-/
import Golib.Wire.Counter

namespace Wire
open Prim

inductive Step where
  | w (method arg : String)          -- stream.M(arg), pkg.M(stream, arg), arg.ToBytes(stream): main stream
  | side (method arg : String)       -- the same on a side buffer (contributes nothing to the main stream)
  | lit (method : String) (v : Nat)  -- stream.M(<literal>)
  | hdr                              -- this.AbstractPack.Write(stream)
  | arr8 (arg : String)              -- this.writeShortArray(stream, arg)
  | call (name : String)             -- this.name(stream)
  | put (key value : String)         -- this.Attr.Put(key, value): no bytes, changes the attribute map
  | ite (cond : String) (t e : List Step)
  | loop (name : String) (body : List Step)
  | wrapHeader (args : List String)  -- stream.WriteHeader(args): wraps what the stream holds
  | blobWrap                         -- out.WriteBlob(side.ToByteArray())
  | other (text : String)
deriving Repr

/-- what a written Go expression holds -/
inductive FV where
  | i (v : Int)
  | n (v : Nat)
  | b (bs : Bytes)                         -- a string / byte slice written with its own length prefix
  | raw (bs : Bytes)                       -- bytes copied as they are
  | is (xs : List Int)
  | m (kvs : List (Bytes × Value))
  | im (kvs : List (Int × Value))
  | ii (kvs : List (Int × Int))
  | v (x : Value)
  | none

/-- bytes that no encoder produces at a field position: an unknown method / expression / section makes
    the obligation fail instead of being skipped -/
def poison : Bytes := [999999]

/-- the stream method applied to a value -/
def wr (method : String) (x : FV) : Bytes :=
  match method, x with
  | "WriteDecimal", .i v => encDecimal v
  | "WriteInt", .i v => encI 4 v
  | "WriteLong", .i v => encI 8 v
  | "WriteShort", .i v => encI 2 v
  | "WriteFloat", .n b => beN 4 b
  | "WriteByte", .n b => [b % 256]
  | "WriteText", .b s => encText s
  | "WriteBlob", .b s => encBlob s
  | "WriteBytes", .raw s => s
  | "Write", .raw s => s                   -- pack.Write(stream): the pack's own bytes
  | "WriteIntBytes", .raw s => encI 4 s.length ++ s
  | "WriteValue", .m kvs => encMap kvs
  | "WriteMapValue", .m kvs => encMap kvs
  | "WriteValue", .im kvs => encIntMap kvs
  | "WriteValue", .v x => Value.encV x
  | "ToBytes", .ii kvs => encCounted encIntIntEntry kvs
  | _, _ => poison

def wrLit (method : String) (v : Nat) : Bytes :=
  match method with
  | "WriteByte" => [v % 256]
  | "WriteBool" => [v % 256]
  | "WriteDecimal" => encDecimal v
  | "WriteInt" => encI 4 v
  | _ => poison

structure Sem where
  hdr : Bytes
  env : String → FV
  cond : String → Bool
  coll : String → List (String → FV)
  call : String → Bytes

/-- inside a loop body the expressions of the element come first -/
def Sem.withElem (S : Sem) (el : String → FV) : Sem :=
  { S with env := fun a => match el a with | .none => S.env a | x => x }

mutual
def interp (S : Sem) : Step → Bytes
  | .w m a => wr m (S.env a)
  | .side _ _ => []
  | .lit m v => wrLit m v
  | .hdr => S.hdr
  | .arr8 a => match S.env a with | .is xs => encShorts8 xs | _ => poison
  | .call n => S.call n
  | .put _ _ => []
  | .ite c t e => if S.cond c then run S t else run S e
  | .loop n body => (S.coll n).flatMap (fun el => run (S.withElem el) body)
  | .wrapHeader _ => poison
  | .blobWrap => poison
  | .other _ => poison
def run (S : Sem) : List Step → Bytes
  | [] => []
  | s :: rest => interp S s ++ run S rest
end

mutual
/-- what a statement writes to the side buffer (`.side` steps; branches by their condition) -/
def sideI (S : Sem) : Step → Bytes
  | .side m a => wr m (S.env a)
  | .ite c t e => if S.cond c then sideOf S t else sideOf S e
  | _ => []
def sideOf (S : Sem) : List Step → Bytes
  | [] => []
  | s :: rest => sideI S s ++ sideOf S rest
end

theorem run_append (S : Sem) (a b : List Step) : run S (a ++ b) = run S a ++ run S b := by
  induction a with
  | nil => simp [run]
  | cons s a ih => simp [run, ih]

/-- the `Attr.Put` statements of a step list, in execution order -/
def putsOf (S : Sem) : List Step → List (String × String)
  | [] => []
  | .put k v :: rest => (k, v) :: putsOf S rest
  | .ite c [.put k v] [] :: rest => (if S.cond c then [(k, v)] else []) ++ putsOf S rest
  | .ite c [.put k v] [.put k' v'] :: rest => (if S.cond c then (k, v) else (k', v')) :: putsOf S rest
  | _ :: rest => putsOf S rest

/-- `stream.WriteHeader(src, ver, pcode, hash)`: the stream's content `t` becomes
    src, ver, be8 pcode, be8 hash, be4 |t|, t -/
def wrapHeader (src ver : Nat) (pcode hash : Int) (t : Bytes) : Bytes :=
  [src % 256] ++ ([ver % 256] ++ (encI 8 pcode ++ (encI 8 hash ++ (encI 4 t.length ++ t))))

theorem flatMap_eq_encMany {α : Type} (f : α → Bytes) (xs : List α) : xs.flatMap f = encMany f xs := by
  induction xs with
  | nil => rfl
  | cons x xs ih => simp [List.flatMap_cons, encMany, ih]

end Wire
