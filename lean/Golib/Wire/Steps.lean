/-
  Golib.Wire.Steps — a meaning for the write steps that xlate/c05 transcribes from the Go `Write`
  methods (tie A of C05).

  A step is one top-level statement of a `Write` method that puts bytes on the stream.  `run` gives a
  step list its bytes relative to a semantics `Sem` that says what each Go field holds (`env`) and what
  the opaque sections (if / for statements, helper calls) contribute.  The obligations
  `…_writer_is_reference` in Golib/Props/C05Gen.lean state, for all field values, that the regenerated
  step list of a pack means exactly the reference encoder: every scalar field is written with the
  method, at the position, the reference has it.
-/
import Golib.Wire.Reference

namespace Wire
open Prim

inductive Step where
  | w (method field : String)      -- stream.M(this.F), stream.M(T(this.F)), pkg.M(stream, this.F)
  | lit (method : String) (v : Nat) -- stream.M(<literal>)
  | hdr                             -- this.AbstractPack.Write(stream)
  | arr8 (field : String)           -- this.writeShortArray(stream, this.F)
  | sec (name : String)             -- if / for statement or helper call: opaque section
  | blobWrap                        -- out.WriteBlob(stream.ToByteArray())
  | other (text : String)           -- anything else that writes
deriving DecidableEq, Repr

/-- what a Go field holds -/
inductive FV where
  | i (v : Int)
  | n (v : Nat)
  | b (bs : Bytes)
  | is (xs : List Int)
  | m (kvs : List (Bytes × Value))
  | none

/-- bytes that no encoder produces at a field position: an unknown method / field / section makes the
    obligation fail instead of being skipped -/
def poison : Bytes := [999999]

/-- the DataOutputX method applied to a field value -/
def wr (method : String) (x : FV) : Bytes :=
  match method, x with
  | "WriteDecimal", .i v => encDecimal v
  | "WriteInt", .i v => encI 4 v
  | "WriteLong", .i v => encI 8 v
  | "WriteShort", .i v => encI 2 v
  | "WriteFloat", .n b => beN 4 b
  | "WriteByte", .n b => [b % 256]
  | "WriteText", .b s => encText s
  | "WriteBlob", .b s => encBlob s
  | "WriteValue", .m kvs => encMap kvs
  | "WriteMapValue", .m kvs => encMap kvs
  | _, _ => poison

def wrLit (method : String) (v : Nat) : Bytes :=
  match method with
  | "WriteByte" => [v % 256]
  | "WriteBool" => [v % 256]
  | "WriteDecimal" => encDecimal v
  | _ => poison

structure Sem where
  hdr : Bytes
  env : String → FV
  sec : String → Bytes
  other : String → Bytes

def interp (S : Sem) : Step → Bytes
  | .w m f => wr m (S.env f)
  | .lit m v => wrLit m v
  | .hdr => S.hdr
  | .arr8 f => match S.env f with | .is xs => encShorts8 xs | _ => poison
  | .sec n => S.sec n
  | .other t => S.other t
  | .blobWrap => poison

def run (S : Sem) (steps : List Step) : Bytes := (steps.map (interp S)).flatten

/-- a body built in a side stream and emitted as one blob after the header:
    `hdr :: inner ++ [blobWrap]` -/
def runWrapped (S : Sem) (steps : List Step) : Bytes :=
  match steps with
  | .hdr :: rest =>
    if rest.getLast? = some .blobWrap then S.hdr ++ encBlob (run S rest.dropLast) else poison
  | _ => poison

end Wire
