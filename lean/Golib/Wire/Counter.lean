/-
  Golib.Wire.Counter — reference encoder of the counter pack (part of the Spec of C05).

  The body of a counter pack is the common header followed by ONE blob; inside the blob the
  fields come in a fixed order, optional sections are introduced by a presence byte, meters by
  a format-version byte.  Floats are 32-bit patterns.
-/
import Golib.Wire.Reference

namespace Wire
open Prim

/-- database pool: two int→int maps (connection counts per pool), active then idle -/
structure DbPool where
  active : List (Int × Int)
  idle : List (Int × Int)
deriving Repr, DecidableEq

structure NetStat where
  est : Int
  finW : Int
  cloW : Int
  timW : Int
deriving Repr, DecidableEq

structure WebSocket where
  count : Int
  inBytes : Int
  outBytes : Int
deriving Repr, DecidableEq

/-- caller meter keyed by a 32-bit id (object id / host hash) -/
structure OidEntry where
  key : Int
  time : Int
  count : Int
  error : Int
  actx : Int
deriving Repr, DecidableEq

structure SqlEntry where
  key : Int
  time : Int
  count : Int
  error : Int
  actx : Int
  fetchCount : Int
  fetchTime : Int
deriving Repr, DecidableEq

/-- caller meter keyed by (project, kind) -/
structure GroupEntry where
  pcode : Int
  okind : Int
  time : Int
  count : Int
  error : Int
  actx : Int
deriving Repr, DecidableEq

/-- caller meter keyed by (project, object), with the active-transaction slices -/
structure PoidEntry where
  pcode : Int
  oid : Int
  time : Int
  count : Int
  error : Int
  acts : List Int
  actx : Int
deriving Repr, DecidableEq

structure Unknown where
  time : Int
  count : Int
  error : Int
  actx : Int
deriving Repr, DecidableEq

structure Counter where
  hdr : Hdr
  duration : Int
  cputime : Int
  heapTot : Int
  heapUse : Int
  heapPerm : Int
  heapPendingFinalization : Int
  gcCount : Int
  gcTime : Int
  serviceCount : Int
  serviceError : Int
  serviceTime : Int
  sqlCount : Int
  sqlError : Int
  sqlTime : Int
  sqlFetchCount : Int
  sqlFetchTime : Int
  httpcCount : Int
  httpcError : Int
  httpcTime : Int
  actSvcCount : Int
  actSvcSlice : List Int
  cpu : Nat
  cpuSys : Nat
  cpuUsr : Nat
  cpuWait : Nat
  cpuSteal : Nat
  cpuIrq : Nat
  cpuProc : Nat
  cpuCores : Int
  mem : Nat
  swap : Nat
  disk : Nat
  threadTotalStarted : Int
  threadCount : Int
  threadDaemon : Int
  threadPeakCount : Int
  dbPool : Option DbPool
  netstat : Option NetStat
  procFd : Int
  tps : Nat
  respTime : Int
  apType : Int
  websocket : Option WebSocket
  starttime : Int
  packDropped : Int
  hostIp : Int
  macHash : Int
  extra : Option (List (Int × Value))
  pid : Int
  activeStat : List Int
  threadPoolActiveCount : Int
  threadPoolQueueSize : Int
  oidMeter : Option (List OidEntry)
  sqlMeter : Option (List SqlEntry)
  httpcMeter : Option (List OidEntry)
  groupMeter : Option (List GroupEntry)
  unknown : Option Unknown
  containerKey : Int
  txDbcTime : Nat
  txSqlTime : Nat
  txHttpcTime : Nat
  apdexSatisfied : Int
  apdexTolerated : Int
  arrivalRate : Nat
  gcOldgenCount : Int
  version : Nat
  heapMax : Int
  procFdMax : Int
  metering : Nat
  apdexTotal : Int
  poidMeter : List PoidEntry
  resp90 : Int
  resp95 : Int
  timeSqrSum : Int
deriving Repr

/-- a decimal count, then the elements -/
def encCounted (enc : α → Bytes) (xs : List α) : Bytes := encDecimal xs.length ++ encMany enc xs

def encIntIntEntry (kv : Int × Int) : Bytes := encDecimal kv.1 ++ encDecimal kv.2

def encDbPool (d : DbPool) : Bytes := encCounted encIntIntEntry d.active ++ encCounted encIntIntEntry d.idle

def encNetStat (n : NetStat) : Bytes :=
  encDecimal n.est ++ (encDecimal n.finW ++ (encDecimal n.cloW ++ encDecimal n.timW))

def encWebSocket (w : WebSocket) : Bytes :=
  encDecimal w.count ++ (encDecimal w.inBytes ++ encDecimal w.outBytes)

/-- a tagged int-keyed map value -/
def encIntMap (kvs : List (Int × Value)) : Bytes := Value.encV (.imap kvs)

def encOidEntry (e : OidEntry) : Bytes :=
  encI 4 e.key ++ (encDecimal e.time ++ (encDecimal e.count ++ (encDecimal e.error ++ encDecimal e.actx)))

def encSqlEntry (e : SqlEntry) : Bytes :=
  encI 4 e.key ++ (encDecimal e.time ++ (encDecimal e.count ++ (encDecimal e.error ++ (encDecimal e.actx ++
    (encDecimal e.fetchCount ++ encDecimal e.fetchTime)))))

def encGroupEntry (e : GroupEntry) : Bytes :=
  encDecimal e.pcode ++ (encDecimal e.okind ++ (encDecimal e.time ++ (encDecimal e.count ++
    (encDecimal e.error ++ encDecimal e.actx))))

def encPoidEntry (e : PoidEntry) : Bytes :=
  encDecimal e.pcode ++ (encDecimal e.oid ++ (encDecimal e.time ++ (encDecimal e.count ++
    (encDecimal e.error ++ (encShorts8 e.acts ++ encDecimal e.actx)))))

def encUnknown (u : Unknown) : Bytes :=
  encDecimal u.time ++ (encDecimal u.count ++ (encDecimal u.error ++ encDecimal u.actx))

/-- the fields inside the blob, in wire order -/
def encCounterBody (p : Counter) : Bytes := List.flatten [
    -- interval, cpu time, heap
    encDecimal p.duration,
    encDecimal p.cputime,
    encDecimal p.heapTot,
    encDecimal p.heapUse,
    encDecimal p.heapPerm,
    encDecimal p.heapPendingFinalization,
    -- gc
    encDecimal p.gcCount,
    encDecimal p.gcTime,
    -- transactions, sql, http calls
    encDecimal p.serviceCount,
    encDecimal p.serviceError,
    encDecimal p.serviceTime,
    encDecimal p.sqlCount,
    encDecimal p.sqlError,
    encDecimal p.sqlTime,
    encDecimal p.sqlFetchCount,
    encDecimal p.sqlFetchTime,
    encDecimal p.httpcCount,
    encDecimal p.httpcError,
    encDecimal p.httpcTime,
    -- active transactions: count and slices
    encDecimal p.actSvcCount,
    encShorts8 p.actSvcSlice,
    -- cpu / memory / disk gauges
    beN 4 p.cpu,
    beN 4 p.cpuSys,
    beN 4 p.cpuUsr,
    beN 4 p.cpuWait,
    beN 4 p.cpuSteal,
    beN 4 p.cpuIrq,
    beN 4 p.cpuProc,
    encDecimal p.cpuCores,
    beN 4 p.mem,
    beN 4 p.swap,
    beN 4 p.disk,
    -- threads
    encDecimal p.threadTotalStarted,
    encDecimal p.threadCount,
    encDecimal p.threadDaemon,
    encDecimal p.threadPeakCount,
    -- optional sections with a presence byte
    encOption 1 encDbPool p.dbPool,
    encOption 1 encNetStat p.netstat,
    encDecimal p.procFd,
    beN 4 p.tps,
    encDecimal p.respTime,
    encI 2 p.apType,
    encOption 1 encWebSocket p.websocket,
    encDecimal p.starttime,
    encDecimal p.packDropped,
    encDecimal p.hostIp,
    encDecimal p.macHash,
    -- optional int-keyed map of extra values
    encOption 1 encIntMap p.extra,
    encI 4 p.pid,
    encShorts8 p.activeStat,
    encDecimal p.threadPoolActiveCount,
    encDecimal p.threadPoolQueueSize,
    -- meters: version byte 9, decimal count, entries; absent = byte 0
    encOption 9 (encCounted encOidEntry) p.oidMeter,
    encOption 9 (encCounted encSqlEntry) p.sqlMeter,
    encOption 9 (encCounted encOidEntry) p.httpcMeter,
    encOption 9 (encCounted encGroupEntry) p.groupMeter,
    -- reserved: count 0 of a retired meter
    [0],
    -- unknown-caller meter: version byte 2
    encOption 2 encUnknown p.unknown,
    -- later additions, fixed order
    encDecimal p.containerKey,
    beN 4 p.txDbcTime,
    beN 4 p.txSqlTime,
    beN 4 p.txHttpcTime,
    encDecimal p.apdexSatisfied,
    encDecimal p.apdexTolerated,
    beN 4 p.arrivalRate,
    encDecimal p.gcOldgenCount,
    [p.version % 256],
    encDecimal p.heapMax,
    encDecimal p.procFdMax,
    beN 4 p.metering,
    encDecimal p.apdexTotal,
    -- per (project, object) caller meter: decimal count, entries with the active-slice array
    encCounted encPoidEntry p.poidMeter,
    encDecimal p.resp90,
    encDecimal p.resp95,
    encDecimal p.timeSqrSum]

/-- layout: header, then the blob -/
def encCounter (p : Counter) : Bytes := encHdr p.hdr ++ encBlob (encCounterBody p)

end Wire
