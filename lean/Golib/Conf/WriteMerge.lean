/-
  Golib.Conf.WriteMerge — the map read back from the rewritten file is the merged map.
-/
import Golib.Conf.WriteLemmas

namespace Conf

/-- the merged map as a reader sees it: a blank value means "no entry" (Write drops the line,
    Read drops empty values) -/
def visible (props : KV) (key : Str) : Option Str :=
  match lookup props key with
  | some v => if isBlankVal v then none else some v
  | none => none

theorem lookup_foldl_put_consistent (props P m0 : KV) (key : Str)
    (hcons : ∀ p ∈ P, lookup props p.1 = some p.2) :
    lookup (P.foldl (fun m p => put m p.1 p.2) m0) key =
      if key ∈ keysOf P then lookup props key else lookup m0 key := by
  induction P generalizing m0 with
  | nil => simp [keysOf]
  | cons p r ih =>
    have hr : ∀ q ∈ r, lookup props q.1 = some q.2 := fun q hq => hcons q (List.mem_cons_of_mem _ hq)
    simp only [List.foldl_cons, ih _ hr, keysOf, List.map_cons, List.mem_cons]
    by_cases h1 : key ∈ List.map (fun x => x.1) r
    · simp [h1]
    · simp only [h1, if_false, or_false]
      by_cases h2 : key = p.1
      · subst h2
        simp [lookup_put_same, hcons p (by simp)]
      · simp [h2, lookup_put_other _ _ _ _ h2]

theorem lookup_filter (m : KV) (f : Str × Str → Bool) (key : Str) (hn : KeysNodup m) :
    lookup (m.filter f) key = (lookup m key).bind (fun v => if f (key, v) then some v else none) := by
  induction m with
  | nil => simp [lookup]
  | cons p r ih =>
    obtain ⟨k', v'⟩ := p
    simp only [KeysNodup, keysOf, List.map_cons, List.nodup_cons] at hn
    have ihr := ih hn.2
    by_cases hk : k' = key
    · subst hk
      have hnone : lookup r k' = none := lookup_none_of_not_mem r k' hn.1
      by_cases hf : f (k', v') = true
      · simp [List.filter, hf, lookup]
      · have hf' : f (k', v') = false := by simpa using hf
        simp [List.filter, hf', lookup, ihr, hnone]
    · by_cases hf : f (k', v') = true
      · simp [List.filter, hf, lookup, hk, ihr]
      · have hf' : f (k', v') = false := by simpa using hf
        simp [List.filter, hf', lookup, hk, ihr]

theorem mem_put (m : KV) (k v : Str) (p : Str × Str) (h : p ∈ put m k v) : p ∈ m ∨ p = (k, v) := by
  induction m with
  | nil => simp [put] at h; exact Or.inr h
  | cons q r ih =>
    obtain ⟨k', v'⟩ := q
    simp only [put] at h
    split at h
    · rename_i e; subst e
      rcases List.mem_cons.mp h with h | h
      · exact Or.inr h
      · exact Or.inl (List.mem_cons_of_mem _ h)
    · rcases List.mem_cons.mp h with h | h
      · exact Or.inl (by simp [h])
      · rcases ih h with h | h
        · exact Or.inl (List.mem_cons_of_mem _ h)
        · exact Or.inr h

theorem propsWF_put (m : KV) (k v : Str) (h : PropsWF m) (hk : WFkey k) (hv : v = [] ∨ WFval v) :
    PropsWF (put m k v) := by
  intro p hp
  rcases mem_put m k v p hp with h1 | h1
  · exact h p h1
  · subst h1; exact ⟨hk, hv⟩

theorem propsWF_foldl_put (P m : KV) (h : PropsWF m) (hP : PropsWF P) :
    PropsWF (P.foldl (fun m p => put m p.1 p.2) m) := by
  induction P generalizing m with
  | nil => exact h
  | cons p r ih =>
    exact ih _ (propsWF_put m p.1 p.2 h (hP p (by simp)).1 (hP p (by simp)).2)
      (fun q hq => hP q (List.mem_cons_of_mem _ hq))

theorem propsWF_setAll (props M : KV) (h : PropsWF props) (hM : PropsWF M) : PropsWF (setAll props M) := by
  unfold setAll
  induction M generalizing props with
  | nil => exact h
  | cons p r ih =>
    simp only [List.foldl_cons]
    apply ih
    · split
      · exact h
      · exact propsWF_put props p.1 p.2 h (hM p (by simp)).1 (hM p (by simp)).2
    · exact fun q hq => hM q (List.mem_cons_of_mem _ hq)

theorem keysNodup_setAll (props M : KV) (h : KeysNodup props) : KeysNodup (setAll props M) := by
  unfold setAll
  induction M generalizing props with
  | nil => exact h
  | cons p r ih =>
    simp only [List.foldl_cons]
    apply ih
    split
    · exact h
    · exact keysNodup_put props p.1 p.2 h

theorem propsWF_pairsOf (infos : List LineInfo) (h : WFprops infos) : PropsWF (pairsOf infos) := by
  intro p hp
  simp only [pairsOf, List.mem_filterMap] at hp
  obtain ⟨li, hli, e⟩ := hp
  obtain ⟨l, o⟩ := li
  simp only at e; subst e
  obtain ⟨k, pv⟩ := p
  have : KVLine l k pv := h _ hli
  exact ⟨this.2.2.2.2.1, this.2.2.2.2.2.1⟩

theorem nonblank_nonempty (v : Str) (h : isBlankVal v = false) : v.isEmpty = false := by
  cases v with
  | nil => simp [isBlankVal, trimSpace, trimBy, trimRightBy, trimLeftBy] at h
  | cons _ _ => rfl

/-- every item of the rewritten file agrees with the merged map and is not blank -/
theorem outPairs_consistent (props : KV) (infos : List LineInfo) (hn : KeysNodup props) :
    ∀ p ∈ pairsOf (outInfos props infos), lookup props p.1 = some p.2 ∧ isBlankVal p.2 = false := by
  intro p hp
  simp only [pairsOf, outInfos, List.filterMap_append, List.mem_append, List.mem_filterMap] at hp
  rcases hp with ⟨li, ⟨src, _, ho⟩, e⟩ | ⟨li, hli, e⟩
  · obtain ⟨l, o⟩ := src
    cases o with
    | none => simp [outLine] at ho; subst ho; simp at e
    | some q =>
      obtain ⟨k, pv⟩ := q
      simp only [outLine] at ho
      split at ho
      · simp at ho
      · rename_i hb
        simp at ho; subst ho
        simp at e; subst e
        cases hl : lookup props k with
        | none => simp [hl, isBlankVal, trimSpace, trimBy, trimRightBy, trimLeftBy] at hb
        | some v =>
          simp only [hl, Option.getD_some] at hb ⊢
          exact ⟨trivial, by simpa using hb⟩
  · simp only [appendedInfos, List.mem_filterMap] at hli
    obtain ⟨kv, hkv, ho⟩ := hli
    split at ho
    · simp at ho
    · split at ho
      · simp at ho
      · split at ho
        · simp at ho
        · rename_i hb
          simp at ho; subst ho
          simp at e; subst e
          exact ⟨lookup_of_mem props kv.1 kv.2 hn hkv, by simpa using hb⟩

/-- … and every visible entry of the merged map has an item -/
theorem outPairs_complete (props : KV) (infos : List LineInfo) (hp : PropsWF props) (key v : Str)
    (hl : lookup props key = some v) (hb : isBlankVal v = false) :
    key ∈ keysOf (pairsOf (outInfos props infos)) := by
  by_cases hold : key ∈ (pairsOf infos).map (·.1)
  · simp only [pairsOf, List.mem_map, List.mem_filterMap] at hold
    obtain ⟨q, ⟨li, hli, e⟩, hk⟩ := hold
    obtain ⟨l, o⟩ := li
    simp only at e; subst e
    obtain ⟨k, pv⟩ := q
    simp only at hk; subst hk
    simp only [keysOf, pairsOf, outInfos, List.filterMap_append, List.map_append, List.mem_append,
      List.mem_map, List.mem_filterMap]
    left
    refine ⟨(k, v), ⟨(renderKV k v, some (k, v)), ⟨(l, some (k, pv)), hli, ?_⟩, rfl⟩, rfl⟩
    simp [outLine, hl, hb]
  · have hmem := mem_of_lookup props key v hl
    have hw := (hp _ hmem).1.1
    simp only [keysOf, pairsOf, outInfos, List.filterMap_append, List.map_append, List.mem_append,
      List.mem_map, List.mem_filterMap]
    right
    refine ⟨(key, v), ⟨(renderKV key v, some (key, v)), ?_, rfl⟩, rfl⟩
    simp only [appendedInfos, List.mem_filterMap]
    refine ⟨(key, v), hmem, ?_⟩
    have hold' : ((pairsOf infos).map (·.1)).contains key = false := by
      cases hc : ((pairsOf infos).map (·.1)).contains key with
      | false => rfl
      | true => exact absurd (List.contains_iff_mem.mp hc) hold
    have hw' : isWordStart key = true := hw
    simp only [pairsOf] at hold'
    simp only [hold', Bool.false_eq_true, if_false, hw', Bool.not_true, hb]

theorem readback_lookup (props : KV) (infos : List LineInfo) (hn : KeysNodup props) (hp : PropsWF props)
    (key : Str) :
    lookup (readMap (buildProps (pairsOf (outInfos props infos)))) key = visible props key := by
  have hcons := outPairs_consistent props infos hn
  have h1 := lookup_foldl_put_consistent props (pairsOf (outInfos props infos)) [] key (fun p hp => (hcons p hp).1)
  unfold readMap
  rw [lookup_filter _ _ key (keysNodup_buildProps _)]
  unfold buildProps
  rw [h1]
  unfold visible
  by_cases hk : key ∈ keysOf (pairsOf (outInfos props infos))
  · simp only [hk, if_true]
    simp only [keysOf, List.mem_map] at hk
    obtain ⟨p, hpm, e⟩ := hk
    subst e
    obtain ⟨c1, c2⟩ := hcons p hpm
    have c3 := nonblank_nonempty p.2 c2
    simp only [c1, Option.bind_some, c3, Bool.not_false, if_true, c2, Bool.false_eq_true, if_false]
  · simp only [hk, if_false, lookup, Option.bind_none]
    cases hl : lookup props key with
    | none => rfl
    | some v =>
      by_cases hb : isBlankVal v = true
      · simp [hb]
      · exact absurd (outPairs_complete props infos hp key v hl (by simpa using hb)) hk

/-- The write-back theorem on the text level. -/
theorem writeModel_merge (infos : List LineInfo) (M : KV) (hwf : WFprops infos) (hM : PropsWF M) :
    ∃ out, writeModel true (textOf infos) M = some out ∧
      ∃ outPairs, lexPairs out.text = some outPairs ∧
        ∀ key, lookup (readMap (buildProps outPairs)) key =
               visible (setAll (buildProps (pairsOf infos)) M) key := by
  have hsplit : splitLines (textOf infos) = infos.map (·.1) :=
    splitLines_joinLines _ (by
      intro l hl
      simp only [List.mem_map] at hl
      obtain ⟨li, hli, e⟩ := hl
      subst e; exact wfline_nobreak li (hwf li hli))
  let props := setAll (buildProps (pairsOf infos)) M
  have hpw : PropsWF props :=
    propsWF_setAll _ M (propsWF_foldl_put _ [] (by intro p hp; cases hp) (propsWF_pairsOf infos hwf)) hM
  have hpn : KeysNodup props := keysNodup_setAll _ M (keysNodup_buildProps _)
  refine ⟨writeLines true props (infos.map (·.1)), ?_, pairsOf (outInfos props infos), ?_, ?_⟩
  · simp [writeModel, lexPairs_textOf infos hwf, hsplit, props]
  · rw [writeLines_wf props infos hwf]
    exact lexPairs_textOf _ (outInfos_wf props infos hwf hpw)
  · exact fun key => readback_lookup props infos hpn hpw key

end Conf
