/-
  Golib.Conf.FSDur — the file-system model with durability: what can be found on disk after the
  machine loses power at any point of DefaultFileParser.Write's call sequence.

  Two inodes matter: `A`, the original configuration file, and `T`, the temporary file.  Each has
  a volatile content (what running processes see) and a durable content (what has certainly
  reached the disk: set by fsync).  The directory entry of the configuration path likewise has a
  volatile and a durable value (which inode it names); a rename that was not followed by an
  fsync of the directory may or may not survive.  After a power loss the configuration path names
  either inode (if the two views differ) and that inode holds its durable content or — when there is
  data not yet synced — any prefix of its volatile content (so the case "the process is killed, nothing is
  lost" is one of the outcomes: this model subsumes `crashStates`).

  Modelled, not verified: POSIX-style semantics (fsync makes the file's data durable, rename is
  atomic on the directory entry, metadata may be persisted before un-synced data).
-/
import Golib.Conf.FS

namespace Conf

structure Inode where
  vol : Str      -- what open/read see
  dur : Str      -- what is certainly on disk
  deriving Repr, DecidableEq

inductive Ino where
  | A | T
  deriving Repr, DecidableEq

structure DFS where
  a : Inode
  t : Inode
  dirVol : Ino    -- which inode the configuration path names (as processes see it)
  dirDur : Ino    -- … as it is certainly recorded on disk
  deriving Repr, DecidableEq

def DFS.init (old : Str) : DFS := { a := ⟨old, old⟩, t := ⟨[], []⟩, dirVol := .A, dirDur := .A }

def DFS.ino (s : DFS) : Ino → Inode
  | .A => s.a
  | .T => s.t

def DFS.setIno (s : DFS) (i : Ino) (n : Inode) : DFS :=
  match i with
  | .A => { s with a := n }
  | .T => { s with t := n }

/-- the inode a file name of the call sequence refers to: `target` through the (volatile) directory,
    `temp` is the temporary inode -/
def DFS.resolve (s : DFS) : FName → Ino
  | .target => s.dirVol
  | .temp => .T

def dexec (data : Str) (s : DFS) : FsKind → DFS
  | .openTrunc f => let i := s.resolve f; s.setIno i { (s.ino i) with vol := [] }
  | .createTemp => { s with t := ⟨[], []⟩ }
  | .chmod _ => s
  | .write f => let i := s.resolve f; s.setIno i { (s.ino i) with vol := (s.ino i).vol ++ data }
  | .sync f => let i := s.resolve f; s.setIno i { (s.ino i) with dur := (s.ino i).vol }
  | .close _ => s
  | .rename .temp .target => { s with dirVol := .T }
  | .rename _ _ => s
  | .remove _ => s

/-- every state in which the power can fail: before each call, inside each write (any prefix of
    the data handed to the kernel so far), at the end -/
def dstates (data : Str) : List FsKind → DFS → List DFS
  | [], s => [s]
  | .write f :: rest, s =>
    (prefixes data).map (fun p => let i := s.resolve f; s.setIno i { (s.ino i) with vol := (s.ino i).vol ++ p })
      ++ dstates data rest (dexec data s (.write f))
  | k :: rest, s => s :: dstates data rest (dexec data s k)

/-- what one inode can hold after the power loss -/
def inodeOutcomes (n : Inode) : List Str :=
  if n.dur = n.vol then [n.dur] else n.dur :: prefixes n.vol

/-- what the configuration path can hold after the power loss -/
def outcomes (s : DFS) : List Str :=
  inodeOutcomes (s.ino s.dirDur) ++ inodeOutcomes (s.ino s.dirVol)

/-- the temp-file protocol without the fsync before the rename -/
def noSyncSeq : List FsKind :=
  [.close .target, .createTemp, .chmod .temp, .write .temp, .close .temp, .rename .temp .target]

theorem prefixes_self (s : Str) : s ∈ prefixes s := by
  induction s with
  | nil => simp [prefixes]
  | cons c r ih => simp only [prefixes, List.mem_cons, List.mem_map]; right; exact ⟨r, ih, rfl⟩

theorem prefixes_nil_mem (s : Str) : [] ∈ prefixes s := by
  cases s <;> simp [prefixes]

theorem mem_prefixes_of_eq (s c : Str) (h : c ∈ prefixes s) (hlen : c.length = s.length) : c = s := by
  induction s generalizing c with
  | nil => simp [prefixes] at h; exact h
  | cons a r ih =>
    simp only [prefixes, List.mem_cons, List.mem_map] at h
    rcases h with h | ⟨p, hp, e⟩
    · subst h; simp at hlen
    · subst e
      simp only [List.length_cons, Nat.add_right_cancel_iff] at hlen
      rw [ih p hp hlen]

end Conf
