/-
  Golib.Conf.FSFault — the store part of DefaultFileParser.Write with failing calls: CreateTemp,
  WriteString (fails after n characters reached the temporary file: disk full, file-size limit,
  I/O error), Sync, Close and Rename may each fail.  `checked = true` is the control flow of the
  code (every error is kept in the one variable `err` that guards the rename); `checked = false`
  is the flow in which the error of WriteString/Sync is lost (e.g. to a shadowed variable).
-/
import Golib.Conf.FS

namespace Conf

structure Faults where
  createFails : Bool
  writeFailsAfter : Option Nat     -- none: the write succeeds
  syncFails : Bool
  closeFails : Bool
  renameFails : Bool
  deriving Repr, DecidableEq

/-- final file-system state and "Write returned an error" -/
def storeProtocol (checked : Bool) (ft : Faults) (old new : Str) : FS × Bool :=
  let fs0 : FS := ⟨some old, none⟩
  if ft.createFails then (fs0, true)
  else
    let written : Str × Bool :=
      match ft.writeFailsAfter with
      | none => (new, false)
      | some n => (new.take n, true)
    let fs2 : FS := ⟨some old, some written.1⟩
    let fillErr := written.2 || (!written.2 && ft.syncFails)
    let err := (checked && fillErr) || ft.closeFails
    if err then (⟨some old, none⟩, true)                       -- os.Remove(tmp); return err
    else if ft.renameFails then (⟨some old, none⟩, true)
    else (⟨fs2.temp, none⟩, false)                             -- renamed over the target

/-- whatever fails: afterwards the configuration file holds the complete new content and Write
    reported success, or the complete old content and Write reported the error; no temporary file
    is left behind -/
theorem storeProtocol_checked (ft : Faults) (old new : Str) :
    let r := storeProtocol true ft old new
    ((r.1.target = some new ∧ r.2 = false) ∨ (r.1.target = some old ∧ r.2 = true)) ∧ r.1.temp = none := by
  obtain ⟨c, w, s, cl, rn⟩ := ft
  cases c <;> cases w <;> cases s <;> cases cl <;> cases rn <;> simp [storeProtocol]

/-- with the write/sync error lost, a write that fails after n characters leaves exactly those n
    characters in the configuration file and Write reports success -/
theorem storeProtocol_unchecked (old new : Str) (n : Nat) :
    storeProtocol false ⟨false, some n, false, false, false⟩ old new = (⟨some (new.take n), none⟩, false) := by
  simp [storeProtocol]

end Conf
