/-
  Golib.Conf.FSLemmas — stop-point analysis of the two call sequences.
-/
import Golib.Conf.FS

namespace Conf

/-- with the temp-file protocol the configuration file holds the old content at every stop point
    before the rename and the new content after it -/
theorem atomicSeq_visible (old new : Str) (tmp : Option Str) :
    ∀ s ∈ crashStates new atomicSeq ⟨some old, tmp⟩, visibleOK old new s := by
  intro s hs
  simp only [atomicSeq, crashStates, execKind, FS.set, FS.get, List.mem_cons, List.mem_append,
    List.mem_map, List.not_mem_nil, or_false] at hs
  rcases hs with h | h | h | ⟨p, _, h⟩ | h | h | h | h
  all_goals (subst h; simp [visibleOK])

/-- … and the complete sequence installs the new content -/
theorem atomicSeq_final (old new : Str) (tmp : Option Str) :
    ((atomicSeq.foldl (execKind new) ⟨some old, tmp⟩)).target = some new := by
  simp [atomicSeq, execKind, FS.set, FS.get]

/-- truncate-then-write: right after the open the file is empty -/
theorem truncSeq_shows_empty (old new : Str) (tmp : Option Str) :
    (⟨some [], tmp⟩ : FS) ∈ crashStates new truncSeq ⟨some old, tmp⟩ := by
  simp only [truncSeq, crashStates, execKind, FS.set, FS.get, List.mem_cons, List.mem_append, List.mem_map]
  right; left
  refine ⟨[], ?_, ?_⟩
  · cases new <;> simp [prefixes]
  · simp

/-- … and every proper prefix of the new content is visible at some stop point -/
theorem truncSeq_shows_prefix (old new p : Str) (tmp : Option Str) (hp : p ∈ prefixes new) :
    (⟨some p, tmp⟩ : FS) ∈ crashStates new truncSeq ⟨some old, tmp⟩ := by
  simp only [truncSeq, crashStates, execKind, FS.set, FS.get, List.mem_cons, List.mem_append, List.mem_map]
  right; left
  exact ⟨p, hp, by simp⟩

end Conf
