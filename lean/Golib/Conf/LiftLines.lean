/-
  Golib.Conf.LiftLines — the well-formed class of the write-back theorem contains the full
  value grammar: a key=value line may spell its value in any way the lexer reads as a preserved
  value (escapes `\t`, `\n`-free, `\uXXXX`, `\ `, …, blanks around '='), values may be empty,
  comments may start with '#' or '!' after any blanks.
-/
import Golib.Conf.SpacedLines
import Golib.Conf.WriteExtras
import Golib.Conf.FullGrammar

namespace Conf

/-- any spelling `raw` of the value that the lexer reads as `pv` (from right after the separator)
    gives a well-formed key=value line -/
theorem kvline_of_raw (k raw pv : Str) (a : Nat) (hk : WFkey k) (hpv : pv = [] ∨ WFval pv)
    (hraw : NoBreak raw)
    (hlex : ∀ out, lexRun ⟨.bv2 k, out⟩ (raw ++ ['\n']) = ⟨.bk, (k, pv) :: out⟩) :
    KVLine (k ++ blanks a ++ '=' :: raw) k pv := by
  have hkc : ∀ c ∈ k, c ≠ '\n' ∧ c ≠ '\r' ∧ c ≠ '=' ∧ c ≠ ' ' := fun c hc => plainKeyChar_facts c (hk.2 c hc)
  have hblk : ∀ n, ∀ c ∈ blanks n, c = ' ' := by
    intro n c hc; simp [blanks] at hc; exact hc.2
  have hkne : k ≠ [] := by
    intro e; subst e; simp [WFkey, isWordStart] at hk
  refine ⟨?_, ?_, ?_, ?_, hk, hpv, ?_⟩
  · intro c hc
    simp only [List.mem_append, List.mem_cons] at hc
    rcases hc with (hc | hc) | hc | hc
    · exact ⟨(hkc c hc).1, (hkc c hc).2.1⟩
    · rw [hblk a c hc]; decide
    · subst hc; decide
    · exact hraw c hc
  · simp
  · cases k with
    | nil => exact absurd rfl hkne
    | cons c r =>
      have hw : isWordChar c = true := by simpa [isWordStart] using hk.1
      obtain ⟨_, h2, h3⟩ := isWordChar_facts c hw
      simp [isCommentLine, h2, h3]
  · have hb : beforeEq (k ++ blanks a ++ '=' :: raw) = k ++ blanks a := by
      unfold beforeEq
      apply takeWhile_append_stop
      · intro y hy
        rcases List.mem_append.mp hy with h1 | h1
        · simp [(hkc y h1).2.2.1]
        · rw [hblk a y h1]; decide
      · simp
    rw [hb]
    exact trimBlank_key_blanks k a (fun c hc => (hkc c hc).2.2.2) hkne
  · intro out
    have e : k ++ blanks a ++ '=' :: raw ++ ['\n'] = k ++ blanks a ++ '=' :: (raw ++ ['\n']) := by simp
    rw [e, lexRun_key_blanks_eq k _ out a hk]
    exact hlex out

theorem escValChar_noEOL (d : Char) : ∀ c ∈ escValChar d, isEOL c = false := by
  unfold escValChar
  split
  · intro c hc; simp at hc; rcases hc with rfl | rfl <;> decide
  · split
    · intro c hc; simp at hc; rcases hc with rfl | rfl <;> decide
    · split
      · intro c hc; simp at hc; rcases hc with rfl | rfl <;> decide
      · split
        · intro c hc; simp at hc; rcases hc with rfl | rfl <;> decide
        · split
          · rename_i h
            intro c hc
            simp only [List.mem_cons, List.not_mem_nil, or_false] at hc
            rcases hc with rfl | rfl
            · decide
            · simp only [Bool.or_eq_true, beq_iff_eq] at h
              rcases h with rfl | rfl <;> decide
          · rename_i h1 h2 h3 h4 h5
            intro c hc
            simp only [List.mem_cons, List.not_mem_nil, or_false] at hc
            subst hc
            simp only [beq_iff_eq] at h2 h3
            simp [isEOL, h2, h3]

/-- the canonical full spelling of a preserved value (every blank, tab, form feed, backslash
    escaped) after any number of blanks -/
theorem kvline_full_spelling (k pv : Str) (a b : Nat) (hk : WFkey k) (hpv : pv = [] ∨ WFval pv) :
    KVLine (k ++ blanks a ++ '=' :: (blanks b ++ renderValFull pv)) k pv := by
  apply kvline_of_raw k _ pv a hk hpv
  · intro c hc
    rcases List.mem_append.mp hc with h | h
    · have : c = ' ' := by simp [blanks] at h; exact h.2
      subst this; decide
    · simp only [renderValFull, List.mem_flatMap] at h
      obtain ⟨d, _, hd⟩ := h
      have := escValChar_noEOL d c hd
      simp only [isEOL, Bool.or_eq_false_iff, beq_eq_false_iff_ne, ne_eq] at this
      exact this
  · intro out
    rw [List.append_assoc, lexRun_bv2_blanks]
    cases pv with
    | nil =>
      have : isEOL '\n' = true := by decide
      have w : isWs '\n' = false := by decide
      simp [renderValFull, lexRun, step, stepVal, this, w]
    | cons d s =>
      obtain ⟨h', t', e', ew⟩ := escValChar_head d
      have startv : lexRun ⟨.bv2 k, out⟩ (renderValFull (d :: s) ++ ['\n']) =
          lexRun ⟨.val k [], out⟩ (renderValFull (d :: s) ++ ['\n']) := by
        simp only [renderValFull, List.flatMap_cons, e', List.cons_append, lexRun_cons, step_bv2_notWs _ out h' ew]
      rw [startv, lexRun_append, lexRun_renderValFull, lexRun_cons, lexRun_nil]
      have : isEOL '\n' = true := by decide
      simp [step, stepVal, this]

/-- `key=` (empty value) is a well-formed line -/
theorem empty_value_kvline (k : Str) (a b : Nat) (hk : WFkey k) :
    KVLine (k ++ blanks a ++ '=' :: blanks b) k [] := by
  have := kvline_full_spelling k [] a b hk (Or.inl rfl)
  simpa [renderValFull] using this

/-- comment lines: any blanks (space, tab, form feed), then '#' or '!', then anything -/
theorem comment_skipline (w cs : Str) (c : Char) (hw : ∀ x ∈ w, isWs x = true)
    (hc : isCommentStart c = true) (hcs : NoBreak cs) : SkipLine (w ++ c :: cs) := by
  have hcf : isEOL c = false ∧ isWs c = false := by
    simp only [isCommentStart, Bool.or_eq_true, beq_iff_eq] at hc
    rcases hc with h | h <;> subst h <;> exact ⟨by decide, by decide⟩
  refine ⟨?_, Or.inr ?_, ?_⟩
  · intro x hx
    rcases List.mem_append.mp hx with h | h
    · have := hw x h
      constructor <;> intro e <;> subst e <;> revert this <;> decide
    · rcases List.mem_cons.mp h with e | e
      · subst e
        constructor <;> intro e <;> subst e <;> revert hc <;> decide
      · exact hcs x e
  · have : (w ++ c :: cs).dropWhile isWs = c :: cs := by
      induction w with
      | nil => simp [hcf.2]
      | cons x t ih =>
        simp only [List.cons_append, List.dropWhile, hw x (by simp)]
        exact ih (fun y hy => hw y (List.mem_cons_of_mem _ hy))
    simp [isCommentLine, this, hc]
  · intro out
    have skip : ∀ (w : Str), (∀ x ∈ w, isWs x = true) → ∀ rest, lexRun ⟨.bk, out⟩ (w ++ rest) = lexRun ⟨.bk, out⟩ rest := by
      intro w hw rest
      induction w with
      | nil => rfl
      | cons x t ih =>
        rw [List.cons_append, lexRun_cons]
        have : step ⟨.bk, out⟩ x = ⟨.bk, out⟩ := by simp [step, hw x (by simp)]
        rw [this, ih (fun y hy => hw y (List.mem_cons_of_mem _ hy))]
    rw [List.append_assoc, skip w hw, List.cons_append, lexRun_cons]
    have s1 : step ⟨.bk, out⟩ c = ⟨.cm, out⟩ := by simp [step, hcf.1, hcf.2, hc]
    rw [s1, lexRun_append, lexRun_comment cs out (by
      intro x hx
      have := hcs x hx
      simp [isEOL, this.1, this.2])]
    rw [lexRun_cons, lexRun_nil]
    have : isEOL '\n' = true := by decide
    simp [step, this]

end Conf
